#!/usr/bin/env python3
"""Translator: the memoised callables of /repo and the mutable state each can read -> Lean table Gen/Caches.lean.

Static analysis (AST walk over bip_utils/**/*.py), conservative:
 * mutable attribute = `self.<attr>` assigned in a method other than __init__ (e.g. ConvertToPublic, Use* setters),
   excluding lazily initialised fields (every assignment guarded by a test of the field itself, see analyse());
 * a method is *tainted* if it reads a mutable attribute of its class, or calls (on self or on a field of self) a method
   name that is tainted in the field's annotated class or any subclass of it; propagated to a fixed point;
 * for every method decorated with lru_cache the table lists the mutable attributes it can reach."""
import ast, os, sys
sys.path.insert(0, os.path.dirname(os.path.dirname(os.path.abspath(__file__))))
from harness.core import write_if_changed, LEAN

ROOT = os.environ.get("VERIF_BIP_UTILS_SRC", "/repo/bip_utils")   # override only for offline experiments on a scratch checkout


def analyse():
    classes = {}        # name -> dict(bases, methods{name: FunctionDef}, ann{field: typename})
    for dp, _, fs in os.walk(ROOT):
        for f in fs:
            if not f.endswith(".py"):
                continue
            tree = ast.parse(open(os.path.join(dp, f)).read())
            for node in tree.body:
                if isinstance(node, ast.ClassDef):
                    c = classes.setdefault(node.name, {"bases": [], "methods": {}, "ann": {}, "file": os.path.relpath(os.path.join(dp, f), os.path.dirname(ROOT))})
                    c["bases"] = [b.id for b in node.bases if isinstance(b, ast.Name)]
                    for it in node.body:
                        if isinstance(it, (ast.FunctionDef,)):
                            c["methods"][it.name] = it
                        elif isinstance(it, ast.AnnAssign) and isinstance(it.target, ast.Name):
                            t = it.annotation
                            names = [n.id for n in ast.walk(t) if isinstance(n, ast.Name)]
                            c["ann"][it.target.id] = names
    def subclasses(name):
        out = {name}
        changed = True
        while changed:
            changed = False
            for k, c in classes.items():
                if k not in out and any(b in out for b in c["bases"]):
                    out.add(k)
                    changed = True
        return out
    def ancestors(name):
        out, todo = [], [name]
        while todo:
            n = todo.pop()
            if n in classes and n not in out:
                out.append(n)
                todo += classes[n]["bases"]
        return out
    # mutable attributes.  An attribute assigned outside __init__ is *lazily initialised* (not mutable state) when every such
    # assignment sits under an `if` whose test inspects the attribute itself (`if self.a is None:` …): the first call fixes the
    # value.  If the enclosing method takes arguments that the guard does not mention, the stored value may depend on them:
    # that is a hand-rolled memo keyed on nothing, recorded below like an `lru_cache` entry with the ignored arguments.
    all_calls = []       # every call `<recv>.<name>(args…)` of the package: (name, positional args, keyword args)
    for c_ in classes.values():
        for fn_ in c_["methods"].values():
            for x in ast.walk(fn_):
                if isinstance(x, ast.Call) and isinstance(x.func, ast.Attribute):
                    all_calls.append((x.func.attr, x.args, {k.arg: k.value for k in x.keywords if k.arg}))

    def determined_at_call_sites(mname, params, key_params, ignored):
        """a non-public method whose every call site in the package passes, for each argument the memo key ignores, an expression
        built only from the key arguments' own names, `self`/`cls` and constants: the ignored argument is then a function of the key"""
        if not mname.startswith("_"):
            return False          # public entry point: callers are unknown
        sites = [(a, k) for nm, a, k in all_calls if nm == mname]
        if not sites:
            return False

        def arg_expr(a, k, p):
            i = params.index(p)
            return a[i] if i < len(a) else k.get(p)
        for a, k in sites:
            key_names = set()
            for kp in key_params:
                e = arg_expr(a, k, kp)
                if e is None:
                    return False
                key_names |= {x.id for x in ast.walk(e) if isinstance(x, ast.Name)}
            for p in ignored:
                e = arg_expr(a, k, p)
                if e is None:
                    return False
                names = {x.id for x in ast.walk(e) if isinstance(x, ast.Name)}
                free = {nm for nm in names - key_names - {"self", "cls"} if not nm[:1].isupper()}     # capitalised names: classes / constant containers
                if free:
                    return False
        return True
    mutable = set()
    lazy_sites = {}       # (class, attr) -> [(method, guarded, ignored args)]
    sub_memo = []
    stale_keys = []
    for cn, c in classes.items():
        for mn, fn in c["methods"].items():
            if mn == "__init__":
                continue
            parents = {}
            for n in ast.walk(fn):
                for ch in ast.iter_child_nodes(n):
                    parents[ch] = n
            params = [a.arg for a in fn.args.args[1:]] + [a.arg for a in fn.args.kwonlyargs]
            # local data flow: which names each local variable is computed from
            ldeps = {}
            for n in ast.walk(fn):
                if isinstance(n, ast.Assign) and n.value is not None:
                    for t in n.targets:
                        for nm in ([t] if isinstance(t, ast.Name) else [e for e in getattr(t, "elts", []) if isinstance(e, ast.Name)]):
                            ldeps.setdefault(nm.id, set()).update(x.id for x in ast.walk(n.value) if isinstance(x, ast.Name))

            def closure(names, ldeps=ldeps):
                out, todo = set(), list(names)
                while todo:
                    x = todo.pop()
                    if x not in out:
                        out.add(x)
                        todo += list(ldeps.get(x, ()))
                return out
            for n in ast.walk(fn):
                if isinstance(n, (ast.Assign, ast.AugAssign, ast.AnnAssign)):
                    tg = n.targets if isinstance(n, ast.Assign) else [n.target]
                    for t in tg:
                        if isinstance(t, ast.Tuple):
                            tg = tg + list(t.elts)
                    # hand-rolled memo tables: `self.tbl[key] = value` — arguments the value depends on (through local variables too) but
                    # the key does not mention are ignored by the memo
                    for t in tg:
                        if isinstance(t, ast.Subscript) and isinstance(t.value, ast.Attribute) and isinstance(t.value.value, ast.Name) and t.value.value.id == "self" \
                                and not isinstance(n, ast.AugAssign) and n.value is not None:
                            key_names = closure({x.id for x in ast.walk(t.slice) if isinstance(x, ast.Name)})
                            used = closure({x.id for x in ast.walk(n.value) if isinstance(x, ast.Name)})
                            ignored = [p for p in params if p in used and p not in key_names]
                            if ignored and not determined_at_call_sites(mn, params, [p for p in params if p in key_names], ignored):
                                sub_memo.append((cn, mn, ["argument %s ignored by the key of memo table %s" % (p, t.value.attr) for p in ignored]))
                    together = {t.attr for t in tg if isinstance(t, ast.Attribute) and isinstance(t.value, ast.Name) and t.value.id == "self"}
                    for t in tg:
                        if isinstance(t, ast.Attribute) and isinstance(t.value, ast.Name) and t.value.id == "self":
                            guarded, names = False, set()
                            q = n
                            while q in parents and not guarded:
                                q = parents[q]
                                if isinstance(q, ast.If):
                                    for x in ast.walk(q.test):
                                        if isinstance(x, ast.Attribute) and isinstance(x.value, ast.Name) and x.value.id == "self" and x.attr in together:
                                            guarded = True
                                        if isinstance(x, ast.Name):
                                            names.add(x.id)
                            used = closure({x.id for x in ast.walk(n.value) if isinstance(x, ast.Name)}) if not isinstance(n, ast.AugAssign) and n.value is not None else set()
                            ignored = [p for p in params if p in used and p not in closure(names)]
                            lazy_sites.setdefault((cn, t.attr), []).append((mn, guarded and not isinstance(n, ast.AugAssign), ignored))
                            # single-slot memo keyed on another field: `if self.a is None or x != self.k: self.a = f(x)` must also store x in
                            # self.k inside the guarded block, or the slot keeps answering for the key it was filled with first
                            if guarded and isinstance(q, ast.If):
                                stored = {y.attr for b in q.body for x in ast.walk(b) if isinstance(x, (ast.Assign, ast.AnnAssign, ast.AugAssign))
                                          for tt in (x.targets if isinstance(x, ast.Assign) else [x.target]) for y in ast.walk(tt)
                                          if isinstance(y, ast.Attribute) and isinstance(y.value, ast.Name) and y.value.id == "self"}
                                for cmp_ in [x for x in ast.walk(q.test) if isinstance(x, ast.Compare)]:
                                    sides = [cmp_.left] + list(cmp_.comparators)
                                    kfields = {y.attr for sd in sides for y in ast.walk(sd)
                                               if isinstance(y, ast.Attribute) and isinstance(y.value, ast.Name) and y.value.id == "self"}
                                    argside = closure({y.id for sd in sides for y in ast.walk(sd) if isinstance(y, ast.Name)}) & set(params)
                                    for kf in sorted(kfields - stored - together):
                                        if argside:
                                            stale_keys.append((cn, mn, ["key field %s of the single-slot memo %s is compared with argument %s but never updated in the guarded block"
                                                                        % (kf, t.attr, sorted(argside)[0])]))
    hand_memo = list(sub_memo) + [x for i, x in enumerate(stale_keys) if x not in stale_keys[:i]]
    for (cn, attr), sites in lazy_sites.items():
        if all(g for _, g, _ in sites):
            for mn, _, ignored in sites:
                if ignored:
                    hand_memo.append((cn, mn, ["argument %s ignored by the stored value of %s" % (p, attr) for p in ignored]))
        else:
            mutable.add((cn, attr))
    def field_types(cn, field):
        out = []
        for a in ancestors(cn):
            out += classes[a]["ann"].get(field, [])
        return [t for t in out if t in classes]
    # reads[cn.mn] = set of (class, attr) mutable attrs read directly; calls = [(receiver classes, method name)]
    info = {}
    for cn, c in classes.items():
        for mn, fn in c["methods"].items():
            reads, calls = set(), []
            # local variables bound to `self` or to a field of self (e.g. `obj = self` in DerivePath)
            local_types = {}
            for n in ast.walk(fn):
                if isinstance(n, ast.Assign) and len(n.targets) == 1 and isinstance(n.targets[0], ast.Name):
                    v = n.value
                    if isinstance(v, ast.Name) and v.id == "self":
                        local_types[n.targets[0].id] = subclasses(cn) | set(ancestors(cn))
                    elif isinstance(v, ast.Attribute) and isinstance(v.value, ast.Name) and v.value.id == "self":
                        tys = set()
                        for t in field_types(cn, v.attr):
                            tys |= subclasses(t)
                        if tys:
                            local_types[n.targets[0].id] = tys
            for n in ast.walk(fn):
                if isinstance(n, ast.Attribute) and isinstance(n.value, ast.Name) and n.value.id == "self":
                    for a in ancestors(cn):
                        if (a, n.attr) in mutable:
                            reads.add((a, n.attr))
                if isinstance(n, ast.Call) and isinstance(n.func, ast.Attribute):
                    recv = n.func.value
                    if isinstance(recv, ast.Name) and recv.id == "self":
                        calls.append((subclasses(cn) | set(ancestors(cn)), n.func.attr))
                    elif isinstance(recv, ast.Attribute) and isinstance(recv.value, ast.Name) and recv.value.id == "self":
                        tys = set()
                        for t in field_types(cn, recv.attr):
                            tys |= subclasses(t)
                        if tys:
                            calls.append((tys, n.func.attr))
                    elif isinstance(recv, ast.Call) and isinstance(recv.func, ast.Attribute) and isinstance(recv.func.value, ast.Name) and recv.func.value.id == "self":
                        # self.Getter().Method(): receiver type unknown -> resolve by the getter's return annotation
                        g = None
                        for a in ancestors(cn):
                            g = g or classes[a]["methods"].get(recv.func.attr)
                        if g is not None and g.returns is not None:
                            tys = set()
                            for nm in [x.id for x in ast.walk(g.returns) if isinstance(x, ast.Name)]:
                                if nm in classes:
                                    tys |= subclasses(nm)
                            if tys:
                                calls.append((tys, n.func.attr))
                    elif isinstance(recv, ast.Name) and recv.id in local_types:
                        calls.append((local_types[recv.id], n.func.attr))
            info[(cn, mn)] = (reads, calls)
    reach = {k: set(v[0]) for k, v in info.items()}
    changed = True
    while changed:
        changed = False
        for k, (reads, calls) in info.items():
            for tys, mname in calls:
                for t in tys:
                    for a in ancestors(t):
                        r = reach.get((a, mname))
                        if r and not r <= reach[k]:
                            reach[k] |= r
                            changed = True
    cached = []
    for cn, c in classes.items():
        for mn, fn in c["methods"].items():
            for d in fn.decorator_list:
                nm = d.func if isinstance(d, ast.Call) else d
                if (isinstance(nm, ast.Name) and nm.id == "lru_cache") or (isinstance(nm, ast.Attribute) and nm.attr == "lru_cache"):
                    cached.append((cn, mn, c["file"], sorted("%s.%s" % x for x in reach[(cn, mn)])))
    for cn, mn, why in hand_memo:
        cached.append((cn, mn, classes[cn]["file"], sorted(why)))
    # `lru_cache` on a method keys on `self` through the class's __eq__/__hash__: when a class defines them, every attribute a memoised body
    # of that class reads must take part in the comparison, or two unequal-in-that-attribute objects share cache entries
    def self_attrs(fn):
        return {x.attr for x in ast.walk(fn) if isinstance(x, ast.Attribute) and isinstance(x.value, ast.Name) and x.value.id == "self"}
    for cn, c in classes.items():
        eq = None
        for a in ancestors(cn):
            eq = eq or classes[a]["methods"].get("__eq__")
        if eq is None:
            continue
        compared = self_attrs(eq)
        for a in ancestors(cn):
            for mn, fn in classes[a]["methods"].items():
                if any(((d.func if isinstance(d, ast.Call) else d).id if isinstance((d.func if isinstance(d, ast.Call) else d), ast.Name)
                        else getattr((d.func if isinstance(d, ast.Call) else d), "attr", "")) == "lru_cache" for d in fn.decorator_list):
                    missing = sorted(x for x in self_attrs(fn) if x not in compared and not any(x in classes[b]["methods"] for b in ancestors(cn)))
                    if missing:
                        cached.append((cn, mn, c["file"], ["memoised per object through __eq__/__hash__, which ignore attribute %s" % x for x in missing]))
    return sorted(set((a, b, c_, tuple(d)) for a, b, c_, d in cached)), sorted(mutable)


MUTATORS = {"append", "extend", "insert", "pop", "remove", "sort", "reverse", "clear", "update", "setdefault", "popitem", "add", "discard"}


def arg_mutations():
    """(class or module, function, parameter) for every in-place change of a caller-supplied argument: a mutating method call, an item or
    slice assignment, `del x[...]` or an augmented assignment on a parameter, or on a local name that is a plain alias of one (`y = x`).
    A name that is rebound anywhere in the function to something else (`x = list(x)`, `x = Parse(x)`) no longer denotes the argument and
    is left out (conservative: flow-insensitive).  `self` / `cls` are the object itself, not a caller-supplied input."""
    out = []
    for dp, _, fs in os.walk(ROOT):
        for f in sorted(fs):
            if not f.endswith(".py"):
                continue
            path = os.path.join(dp, f)
            tree = ast.parse(open(path).read())
            mod = os.path.relpath(path, ROOT)[:-3].replace(os.sep, ".")

            def visit(node, owner):
                for it in ast.iter_child_nodes(node):
                    if isinstance(it, ast.ClassDef):
                        visit(it, it.name)
                    elif isinstance(it, (ast.FunctionDef, ast.AsyncFunctionDef)):
                        check(it, owner)
                        visit(it, owner)
                    else:
                        visit(it, owner)

            def check(fn, owner):
                a = fn.args
                params = [x.arg for x in a.posonlyargs + a.args + a.kwonlyargs] + ([a.vararg.arg] if a.vararg else []) + ([a.kwarg.arg] if a.kwarg else [])
                params = [p for p in params if p not in ("self", "cls")]
                if not params:
                    return
                own = [n for n in ast.walk(fn)]
                assigns = {}       # local name -> list of value nodes it is bound to
                for n in own:
                    if isinstance(n, ast.Assign):
                        for t in n.targets:
                            for nm in ([t] if isinstance(t, ast.Name) else [e for e in getattr(t, "elts", []) if isinstance(e, ast.Name)]):
                                assigns.setdefault(nm.id, []).append(n.value if isinstance(t, ast.Name) else None)
                    elif isinstance(n, ast.AnnAssign) and isinstance(n.target, ast.Name) and n.value is not None:
                        assigns.setdefault(n.target.id, []).append(n.value)
                    elif isinstance(n, (ast.For, ast.comprehension)) and isinstance(n.target, ast.Name):
                        assigns.setdefault(n.target.id, []).append(None)
                    elif isinstance(n, ast.With):
                        for wi in n.items:
                            if isinstance(wi.optional_vars, ast.Name):
                                assigns.setdefault(wi.optional_vars.id, []).append(None)
                denotes = {p: p for p in params if p not in assigns}      # names that denote a caller's object throughout
                changed = True
                while changed:
                    changed = False
                    for nm, vals in assigns.items():
                        if nm not in denotes and nm not in params and vals and all(isinstance(v, ast.Name) and v.id in denotes for v in vals):
                            srcs = {denotes[v.id] for v in vals}
                            if len(srcs) == 1:
                                denotes[nm] = srcs.pop()
                                changed = True
                for n in own:
                    hit = None
                    if isinstance(n, ast.Call) and isinstance(n.func, ast.Attribute) and n.func.attr in MUTATORS and isinstance(n.func.value, ast.Name):
                        hit = n.func.value.id
                    elif isinstance(n, (ast.Assign, ast.AugAssign, ast.Delete)):
                        tg = n.targets if isinstance(n, (ast.Assign, ast.Delete)) else [n.target]
                        for t in tg:
                            if isinstance(t, ast.Subscript) and isinstance(t.value, ast.Name):
                                hit = t.value.id
                            elif isinstance(n, ast.AugAssign) and isinstance(t, ast.Name) and isinstance(n.op, (ast.Add, ast.BitOr, ast.Mult)) \
                                    and t.id in params and len(assigns.get(t.id, [])) == 0:
                                # `p += [...]` extends a list argument in place (harmless for immutable ints / bytes / str: only flagged when the
                                # right-hand side is a list / set / dict display or comprehension)
                                if isinstance(n.value, (ast.List, ast.ListComp, ast.Set, ast.SetComp, ast.Dict, ast.DictComp)):
                                    hit = t.id
                    if hit is not None and hit in denotes:
                        out.append((owner or mod, fn.name, denotes[hit]))
            visit(tree, "")
    return sorted(set(out))


def main():
    cached, mutable = analyse()
    src = "/- GENERATED by gen/gen_caches.py (AST analysis of /repo/bip_utils). Do not edit. -/\nnamespace BipVerif.Gen\n\n"
    src += "/-- (class, method, mutable attributes the memoised body can read) for every `lru_cache` method -/\n"
    src += "def cachedMethods : List (String × String × List String) := [\n"
    src += ",\n".join('  ("%s", "%s", [%s])' % (c, m, ", ".join('"%s"' % r for r in rs)) for c, m, f, rs in cached)
    src += "\n]\n\n/-- attributes assigned outside `__init__` (the mutable state of the package) -/\n"
    src += "def mutableAttrs : List String := [%s]\n\n" % ", ".join('"%s.%s"' % x for x in mutable)
    src += "/-- (class or module, function, parameter): every in-place change of a caller-supplied argument found in the package -/\n"
    src += "def argMutations : List (String × String × String) := [%s]\n\nend BipVerif.Gen\n" % ", ".join('("%s", "%s", "%s")' % x for x in arg_mutations())
    write_if_changed(os.path.join(LEAN, "BipVerif", "Gen", "Caches.lean"), src)
    return cached, mutable


if __name__ == "__main__":
    c, m = main()
    for x in c:
        if x[3]:
            print("IMPURE", x[0], x[1], x[3])
    print(len(c), "cached methods;", "mutable:", m)
