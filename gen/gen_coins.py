#!/usr/bin/env python3
"""Translator: every member of the coin enumerations of /repo (BIP-44/49/84/86, CIP-1852, Substrate, Monero), read through
the public configuration getters, in both positions of every option toggle -> Lean table Gen/Coins.lean."""
import enum, os, sys
sys.path.insert(0, os.path.dirname(os.path.dirname(os.path.abspath(__file__))))
from harness.core import write_if_changed, LEAN
from harness.canon import fct_call_names

ADDR_FMT = {
    "P2PKHAddrEncoder": "p2pkh", "P2SHAddrEncoder": "p2sh", "P2WPKHAddrEncoder": "p2wpkh", "P2TRAddrEncoder": "p2tr",
    "BchP2PKHAddrEncoder": "bchp2pkh", "BchP2SHAddrEncoder": "bchp2sh", "AtomAddrEncoder": "atom", "AvaxPChainAddrEncoder": "avaxp",
    "AvaxXChainAddrEncoder": "avaxx", "EthAddrEncoder": "eth", "InjAddrEncoder": "inj", "OkexAddrEncoder": "okex", "OneAddrEncoder": "one",
    "TrxAddrEncoder": "trx", "AptosAddrEncoder": "aptos", "SuiAddrEncoder": "sui", "IcxAddrEncoder": "icx", "NearAddrEncoder": "near",
    "EosAddrEncoder": "eos", "ErgoP2PKHAddrEncoder": "ergo", "SolAddrEncoder": "sol", "XtzAddrEncoder": "xtz", "NeoLegacyAddrEncoder": "neolegacy",
    "NeoN3AddrEncoder": "neon3", "AlgoAddrEncoder": "algo", "XlmAddrEncoder": "xlm", "FilSecp256k1AddrEncoder": "fil", "NanoAddrEncoder": "nano",
    "NimAddrEncoder": "nim", "EgldAddrEncoder": "egld", "ZilAddrEncoder": "zil", "XrpAddrEncoder": "xrp",
    "SubstrateEd25519AddrEncoder": "substrateed", "SubstrateSr25519AddrEncoder": "substratesr", "XmrAddrEncoder": "xmr",
    "AdaByronIcarusAddrEncoder": "adabyronicarus", "AdaShelleyAddrEncoder": "adashelley",
}
BIP32 = {"Bip32Slip10Secp256k1": "secp256k1", "Bip32Slip10Nist256p1": "nist256p1", "Bip32Slip10Ed25519": "ed25519",
         "Bip32Slip10Ed25519Blake2b": "ed25519blake2b", "Bip32KholawEd25519": "kholaw", "CardanoIcarusBip32": "icarus"}


def field(v):
    from bip_utils.bip.conf.common import BipCoinFctCallsConf
    if isinstance(v, BipCoinFctCallsConf):
        return "@" + ".".join(fct_call_names(v))
    if isinstance(v, bytes):
        return v.hex() if v else "-"
    if isinstance(v, str):
        return v.encode("utf-8").hex() if v else "-"
    if isinstance(v, enum.Enum):
        return field(v.value)
    if isinstance(v, bool):
        return "1" if v else "0"
    if isinstance(v, int):
        return str(v)
    raise SystemExit("unknown address parameter type %r" % (v,))


def snapshot(fam, member, variant, conf, ids, purpose):
    params = sorted((k, field(v)) for k, v in conf.AddrParams().items())
    kv = conf.KeyNetVersions()
    wif = conf.WifNetVersion()
    return dict(family=fam, member=member, variant=variant, confId=ids.setdefault(id(conf), len(ids)),
                coinName=conf.CoinNames().Name(), abbr=conf.CoinNames().Abbreviation(), coinIdx=conf.CoinIndex(), isTestnet=conf.IsTestNet(),
                defPath=conf.DefaultPath(), keyNetPub=list(kv.Public()), keyNetPriv=list(kv.Private()),
                wifNetVer=None if wif is None else list(wif), bip32=BIP32[conf.Bip32Class().__name__],
                addrFmt=ADDR_FMT[conf.AddrClass().__name__], addrParams=params, purpose=purpose)


def rows():
    from bip_utils import (Bip44Coins, Bip49Coins, Bip84Coins, Bip86Coins, Cip1852Coins, Bip44ConfGetter, Bip49ConfGetter, Bip84ConfGetter,
                           Bip86ConfGetter, Cip1852ConfGetter)
    from bip_utils.bip.conf.common import BipBitcoinCashConf, BipLitecoinConf
    out, ids = [], {}
    for fam, en, getter, purpose in (("Bip44", Bip44Coins, Bip44ConfGetter, 44), ("Bip49", Bip49Coins, Bip49ConfGetter, 49),
                                     ("Bip84", Bip84Coins, Bip84ConfGetter, 84), ("Bip86", Bip86Coins, Bip86ConfGetter, 86),
                                     ("Cip1852", Cip1852Coins, Cip1852ConfGetter, 1852)):
        for m in en:
            conf = getter.GetConfig(m)
            out.append(snapshot(fam, m.name, "", conf, ids, purpose))
            if isinstance(conf, BipBitcoinCashConf):
                conf.UseLegacyAddress(True)
                try:
                    out.append(snapshot(fam, m.name, "legacy", conf, ids, purpose))
                finally:
                    conf.UseLegacyAddress(False)
            if isinstance(conf, BipLitecoinConf):
                conf.UseAlternateKeyNetVersions(True)
                try:
                    out.append(snapshot(fam, m.name, "altkeynet", conf, ids, purpose))
                finally:
                    conf.UseAlternateKeyNetVersions(False)
                conf.UseDeprecatedAddress(True)
                try:
                    out.append(snapshot(fam, m.name, "depraddr", conf, ids, purpose))
                finally:
                    conf.UseDeprecatedAddress(False)
    return out


def other_rows():
    """Substrate and Monero coins: (family, member, coin name, parameters as text fields)"""
    from bip_utils import SubstrateCoins, MoneroCoins
    from bip_utils.substrate.conf import SubstrateConfGetter
    from bip_utils.monero.conf import MoneroConfGetter
    out = []
    for m in SubstrateCoins:
        c = SubstrateConfGetter.GetConfig(m)
        out.append(("Substrate", m.name, c.CoinNames().Name(), c.CoinNames().Abbreviation(), [("ss58_format", str(c.SS58Format()))]))
    for m in MoneroCoins:
        c = MoneroConfGetter.GetConfig(m)
        out.append(("Monero", m.name, c.CoinNames().Name(), c.CoinNames().Abbreviation(),
                    [("addr_net_ver", c.AddrNetVersion().hex()), ("int_addr_net_ver", c.IntegratedAddrNetVersion().hex()),
                     ("subaddr_net_ver", c.SubaddrNetVersion().hex())]))
    return out


def ls(s):
    return '"' + s.replace("\\", "\\\\").replace('"', '\\"') + '"'


def render_rows(rs):
    items = []
    for r in rs:
        items.append("  { family := %s, member := %s, variant := %s, confId := %d, coinName := %s, abbr := %s, coinIdx := %d, isTestnet := %s,\n"
                     "    defPath := %s, keyNetPub := %s, keyNetPriv := %s, wifNetVer := %s, bip32 := %s, addrFmt := %s,\n    addrParams := [%s], purpose := %d }" % (
                         ls(r["family"]), ls(r["member"]), ls(r["variant"]), r["confId"], ls(r["coinName"]), ls(r["abbr"]), r["coinIdx"],
                         "true" if r["isTestnet"] else "false", ls(r["defPath"]), r["keyNetPub"], r["keyNetPriv"],
                         "none" if r["wifNetVer"] is None else "some %s" % r["wifNetVer"], ls(r["bip32"]), ls(r["addrFmt"]),
                         ", ".join("(%s, %s)" % (ls(k), ls(v)) for k, v in r["addrParams"]), r["purpose"]))
    return ",\n".join(items)


def main():
    import json
    from harness.core import VERIF
    rs = rows()
    others = other_rows()
    gpath = os.path.join(VERIF, "golden", "registry.json")
    if "--pin" in sys.argv:       # (re)create the pinned registry from the current tree: a deliberate, committed act
        json.dump({"coinRows": rs, "otherCoins": others}, open(gpath, "w"), indent=1, sort_keys=True)
    src = "/- GENERATED by gen/gen_coins.py from /repo's coin enumerations and configuration getters. Do not edit. -/\n"
    src += "import BipVerif.Model.CoinRow\nnamespace BipVerif.Gen\nopen BipVerif.Model\n\n"
    src += "def coinRows : List CoinRow := [\n" + render_rows(rs) + "\n]\n\n"
    src += "/-- Substrate and Monero coins: (family, member, coin name, abbreviation, parameters) -/\n"
    src += "def otherCoins : List (String × String × String × String × List (String × String)) := [\n"
    src += ",\n".join("  (%s, %s, %s, %s, [%s])" % (ls(f), ls(m), ls(n), ls(a), ", ".join("(%s, %s)" % (ls(k), ls(v)) for k, v in ps))
                      for f, m, n, a, ps in others)
    src += "\n]\n\nend BipVerif.Gen\n"
    write_if_changed(os.path.join(LEAN, "BipVerif", "Gen", "Coins.lean"), src)
    g = json.load(open(gpath))
    gs = "/- GENERATED by gen/gen_coins.py from /verif/golden/registry.json (pinned registry). Do not edit. -/\n"
    gs += "import BipVerif.Model.CoinRow\nnamespace BipVerif.Golden\nopen BipVerif.Model\n\n"
    gs += "def coinRows : List CoinRow := [\n" + render_rows([dict(r, addrParams=[tuple(p) for p in r["addrParams"]]) for r in g["coinRows"]]) + "\n]\n\n"
    gs += "def otherCoins : List (String × String × String × String × List (String × String)) := [\n"
    gs += ",\n".join("  (%s, %s, %s, %s, [%s])" % (ls(f), ls(m), ls(n), ls(a), ", ".join("(%s, %s)" % (ls(k), ls(v)) for k, v in ps))
                     for f, m, n, a, ps in g["otherCoins"])
    gs += "\n]\n\nend BipVerif.Golden\n"
    write_if_changed(os.path.join(LEAN, "BipVerif", "Golden", "Coins.lean"), gs)


if __name__ == "__main__":
    main()
