#!/bin/sh
# Build the Lean library (models, lemmas, property theorems) and the compiled model driver. Offline.
set -e
cd "$(dirname "$0")"
export PYTHONPATH="$PWD:/repo" PYTHONDONTWRITEBYTECODE=1
# regenerate the tables from /repo's working tree (the checks do this again on every run)
for g in gen_unicode gen_wordlists gen_consts gen_coins gen_caches gen_curves; do /venv/bin/python gen/$g.py; done
cd lean
lake build BipVerif bipdrv
