#!/bin/sh
# Build the Lean library (models, lemmas, property theorems) and the compiled model driver. Offline.
set -e
cd "$(dirname "$0")"
export PYTHONPATH="$PWD:/repo" PYTHONDONTWRITEBYTECODE=1
[ -d gen ] && for g in gen/gen_*.py; do [ -f "$g" ] && /venv/bin/python "$g"; done
cd lean
lake build BipVerif bipdrv
