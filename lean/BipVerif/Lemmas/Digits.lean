/-
Radix lemmas: the model's digit loops agree with `Nat.digits` / `Nat.ofDigits`, hence are
mutually inverse.  Used by Base58, BIP-39, Electrum-v2, integer/byte helpers.
-/
import Mathlib.Data.Nat.Digits.Lemmas
import BipVerif.Model.Basic

namespace BipVerif.Model
open BipVerif

theorem digitsBE_eq (r : Nat) (hr : 2 ≤ r) (v : Nat) (acc : List Nat) :
    digitsBE r v acc = (Nat.digits r v).reverse ++ acc := by
  induction v using Nat.strong_induction_on generalizing acc with
  | _ v ih =>
    unfold digitsBE
    by_cases hv : v = 0
    · simp [hv]
    · have h : ¬ (v = 0 ∨ r < 2) := by omega
      rw [dif_neg h]
      have hlt : v / r < v := Nat.div_lt_self (Nat.pos_of_ne_zero hv) (by omega)
      rw [ih _ hlt]
      have : Nat.digits r v = v % r :: Nat.digits r (v / r) :=
        Nat.digits_def' (by omega) (Nat.pos_of_ne_zero hv)
      rw [this]; simp

theorem ofDigitsBE_eq (r : Nat) (ds : List Nat) :
    ofDigitsBE r ds = Nat.ofDigits r ds.reverse := by
  unfold ofDigitsBE
  suffices h : ∀ acc, ds.foldl (fun acc d => acc * r + d) acc
      = Nat.ofDigits r ds.reverse + acc * r ^ ds.length by simpa using h 0
  induction ds with
  | nil => intro acc; simp
  | cons d ds ih =>
    intro acc
    simp only [List.foldl_cons, List.reverse_cons, List.length_cons]
    rw [ih, Nat.ofDigits_append, Nat.ofDigits_singleton]
    simp; ring

theorem ofDigitsBE_digitsBE (r : Nat) (hr : 2 ≤ r) (v : Nat) :
    ofDigitsBE r (digitsBE r v []) = v := by
  rw [digitsBE_eq r hr, ofDigitsBE_eq]; simp [Nat.ofDigits_digits]

theorem ofDigitsBE_append (r : Nat) (a b : List Nat) :
    ofDigitsBE r (a ++ b) = ofDigitsBE r a * r ^ b.length + ofDigitsBE r b := by
  rw [ofDigitsBE_eq, ofDigitsBE_eq, ofDigitsBE_eq, List.reverse_append, Nat.ofDigits_append]
  simp; ring

theorem ofDigitsBE_replicate_zero (r n : Nat) : ofDigitsBE r (List.replicate n 0) = 0 := by
  induction n with
  | zero => rfl
  | succ n ih =>
    rw [List.replicate_succ', ofDigitsBE_append, ih]; simp [ofDigitsBE]

theorem ofDigitsBE_zeros_append (r n : Nat) (ds : List Nat) :
    ofDigitsBE r (List.replicate n 0 ++ ds) = ofDigitsBE r ds := by
  rw [ofDigitsBE_append, ofDigitsBE_replicate_zero]; simp

/-- digits are below the radix -/
theorem digitsBE_lt (r : Nat) (hr : 2 ≤ r) (v : Nat) : ∀ d ∈ digitsBE r v [], d < r := by
  intro d hd
  rw [digitsBE_eq r hr] at hd
  simp at hd
  exact Nat.digits_lt_base (by omega) hd

/-- the most significant digit is not zero -/
theorem digitsBE_head_ne_zero (r : Nat) (hr : 2 ≤ r) (v : Nat) :
    (digitsBE r v []).head? ≠ some 0 := by
  rw [digitsBE_eq r hr]
  simp only [List.append_nil, List.head?_reverse]
  by_cases hv : v = 0
  · simp [hv]
  · have h := Nat.getLast_digit_ne_zero r hv
    intro hc
    rw [List.getLast?_eq_some_getLast (Nat.digits_ne_nil_iff_ne_zero.mpr hv)] at hc
    exact h (Option.some.inj hc)

theorem digitsBE_zero (r : Nat) : digitsBE r 0 [] = [] := by
  unfold digitsBE; simp

/-- canonical digit strings are reproduced -/
theorem digitsBE_ofDigitsBE (r : Nat) (hr : 2 ≤ r) (ds : List Nat) (hlt : ∀ d ∈ ds, d < r)
    (hhd : ds.head? ≠ some 0) : digitsBE r (ofDigitsBE r ds) [] = ds := by
  rw [digitsBE_eq r hr, ofDigitsBE_eq]
  simp only [List.append_nil]
  rw [Nat.digits_ofDigits r (by omega) ds.reverse (by simpa using hlt)]
  · simp
  · intro hne
    have hne' : ds ≠ [] := by simpa using hne
    intro h0
    apply hhd
    rw [List.getLast_reverse] at h0
    cases ds with
    | nil => exact absurd rfl hne'
    | cons a t => simp at h0 ⊢; exact h0

end BipVerif.Model
