/-
SLIP-0010 / BIP-32 child key derivation: lemmas about the model in `BipVerif/Model/Bip32.lean`.

Part A: facts that need no curve algebra (re-hash loop, key validity, metadata, refusals,
master key, path depth).
Part B: public/private commutation under an explicit law about the key layer (`EcdsaLaw`).
The curve arithmetic of `Prim` is never unfolded.
-/
import BipVerif.Model.Bip32
import BipVerif.Lemmas.IntBytes

namespace BipVerif.Model
open BipVerif BipVerif.Prim

/-! ## generic `Except` helpers -/

theorem Slip10.bind_ok {α β} (x : α) (f : α → R β) : (Except.ok x >>= f) = f x := rfl
theorem Slip10.bind_error {α β} (e : Err) (f : α → R β) : ((Except.error e : R α) >>= f) = .error e := rfl

/-! ## Part A.1 — the re-hash loop -/

/-- the next state of the SLIP-0010 re-hash loop: `HMAC(cc, 0x01 ‖ IR ‖ ser32 idx)` -/
def slip10Rehash (cc : Bytes) (idx : Nat) (ir : Bytes) : Bytes × Bytes :=
  hmacSha512Halves cc ([1] ++ ir ++ ser32 idx)

/-- the condition under which an `(IL, IR)` pair is rejected -/
def slip10Bad (n : Nat) (kpar : Option Nat) (il : Bytes) : Prop :=
  n ≤ Bytes.toNatBE il ∨ ∃ k, kpar = some k ∧ (Bytes.toNatBE il + k) % n = 0

theorem slip10Retry_zero (n : Nat) (cc : Bytes) (idx : Nat) (kpar : Option Nat) (s : Bytes × Bytes) :
    slip10Retry n cc idx kpar 0 s = .error .fuel := rfl

/-- common case (= plain BIP-32): `IL < n` and the child key is not zero ⇒ `(IL, IR)` is used -/
theorem slip10Retry_good (n : Nat) (cc : Bytes) (idx : Nat) (kpar : Option Nat) (fuel : Nat)
    (il ir : Bytes) (h : ¬ slip10Bad n kpar il) :
    slip10Retry n cc idx kpar (fuel + 1) (il, ir) = .ok (Bytes.toNatBE il, ir) := by
  unfold slip10Bad at h
  rw [not_or] at h
  obtain ⟨h1, h2⟩ := h
  unfold slip10Retry
  cases kpar with
  | none => simp [h1]; rfl
  | some k =>
    have : (Bytes.toNatBE il + k) % n ≠ 0 := fun e => h2 ⟨k, rfl, e⟩
    simp [h1, this]; rfl

/-- SLIP-0010's rule: otherwise re-hash with `0x01 ‖ IR ‖ ser32 idx` -/
theorem slip10Retry_bad (n : Nat) (cc : Bytes) (idx : Nat) (kpar : Option Nat) (fuel : Nat)
    (il ir : Bytes) (h : slip10Bad n kpar il) :
    slip10Retry n cc idx kpar (fuel + 1) (il, ir) =
      slip10Retry n cc idx kpar fuel (slip10Rehash cc idx ir) := by
  unfold slip10Bad at h
  conv_lhs => unfold slip10Retry
  unfold slip10Rehash
  cases kpar with
  | none =>
    rcases h with h | ⟨k, hk, _⟩
    · simp [h]
    · cases hk
  | some k =>
    rcases h with h | ⟨k', hk, hz⟩
    · simp [h]
    · cases hk; simp [hz]

instance (n : Nat) (kpar : Option Nat) (il : Bytes) : Decidable (slip10Bad n kpar il) := by
  unfold slip10Bad
  cases kpar with
  | none => exact decidable_of_iff (n ≤ Bytes.toNatBE il) (by simp)
  | some k =>
    exact decidable_of_iff (n ≤ Bytes.toNatBE il ∨ (Bytes.toNatBE il + k) % n = 0) (by simp)

/-- one-step unfolding of the loop -/
theorem slip10Retry_succ (n : Nat) (cc : Bytes) (idx : Nat) (kpar : Option Nat) (fuel : Nat)
    (il ir : Bytes) :
    slip10Retry n cc idx kpar (fuel + 1) (il, ir) =
      if slip10Bad n kpar il then slip10Retry n cc idx kpar fuel (slip10Rehash cc idx ir)
      else .ok (Bytes.toNatBE il, ir) := by
  split
  · next h => exact slip10Retry_bad n cc idx kpar fuel il ir h
  · next h => exact slip10Retry_good n cc idx kpar fuel il ir h

/-- whatever the loop returns is `< n` and does not make the child key zero; the returned `IR` has
32 bytes if the initial one has. -/
theorem slip10Retry_spec (n : Nat) (cc : Bytes) (idx : Nat) (kpar : Option Nat) (fuel : Nat)
    (il ir : Bytes) (v : Nat) (ir' : Bytes)
    (h : slip10Retry n cc idx kpar fuel (il, ir) = .ok (v, ir')) :
    v < n ∧ (∀ k, kpar = some k → (v + k) % n ≠ 0) := by
  induction fuel generalizing il ir with
  | zero => rw [slip10Retry_zero] at h; cases h
  | succ f ih =>
    rw [slip10Retry_succ] at h
    split at h
    · exact ih _ _ h
    · next hb =>
      cases h
      unfold slip10Bad at hb
      rw [not_or] at hb
      exact ⟨Nat.not_le.mp hb.1, fun k hk e => hb.2 ⟨k, hk, e⟩⟩

/-- the loop fails only by running out of fuel -/
theorem slip10Retry_error (n : Nat) (cc : Bytes) (idx : Nat) (kpar : Option Nat) (fuel : Nat)
    (s : Bytes × Bytes) (e : Err) (h : slip10Retry n cc idx kpar fuel s = .error e) : e = .fuel := by
  induction fuel generalizing s with
  | zero => rw [slip10Retry_zero] at h; cases h; rfl
  | succ f ih =>
    obtain ⟨il, ir⟩ := s
    rw [slip10Retry_succ] at h
    split at h
    · exact ih _ h
    · cases h

/-- the returned right half is 32 bytes long when the initial one is -/
theorem slip10Retry_snd_length (n : Nat) (cc : Bytes) (idx : Nat) (kpar : Option Nat) (fuel : Nat)
    (il ir : Bytes) (v : Nat) (ir' : Bytes) (hir : ir.length = 32)
    (h : slip10Retry n cc idx kpar fuel (il, ir) = .ok (v, ir')) : ir'.length = 32 := by
  induction fuel generalizing il ir with
  | zero => rw [slip10Retry_zero] at h; cases h
  | succ f ih =>
    rw [slip10Retry_succ] at h
    split at h
    · exact ih (slip10Rehash cc idx ir).1 (slip10Rehash cc idx ir).2
        (hmacSha512Halves_snd_length _ _) h
    · cases h; exact hir

/-! ## Part A.2 — validity of the derived private key -/

theorem ecdsa_order_lt (c : CurveT) (h : c.isEcdsa = true) : c.order < 256 ^ 32 := by
  cases c <;> first | (exact absurd h (by decide)) | decide

theorem ecdsa_order_pos (c : CurveT) (h : c.isEcdsa = true) : 0 < c.order := by
  cases c <;> first | (exact absurd h (by decide)) | decide

theorem privValid_ecdsa_iff (c : CurveT) (h : c.isEcdsa = true) (b : Bytes) :
    privValid c b = true ↔ b.length = 32 ∧ 0 < Bytes.toNatBE b ∧ Bytes.toNatBE b < c.order := by
  cases c <;> first | (exact absurd h (by decide)) | simp [privValid, and_assoc]

/-- the data fed to the first HMAC of the private derivation -/
def slip10PrivData (nd : Node) (priv : Bytes) (idx : Nat) : Bytes :=
  if isHardened idx then [0] ++ priv ++ ser32 idx else nd.pub ++ ser32 idx

/-- private derivation on an ECDSA curve succeeds exactly when the re-hash loop yields `il` and
`(il + k) mod n` fits 32 bytes -/
theorem slip10CkdPriv_ecdsa_ok_iff (nd : Node) (priv : Bytes) (idx : Nat) (h : nd.curve.isEcdsa = true)
    (k cc : Bytes) :
    slip10CkdPriv nd priv idx = .ok (k, cc) ↔
      ∃ il, slip10Retry nd.curve.order nd.chainCode idx (some (Bytes.toNatBE priv)) 4096
              (hmacSha512Halves nd.chainCode (slip10PrivData nd priv idx)) = .ok (il, cc) ∧
            toBytesBE ((il + Bytes.toNatBE priv) % nd.curve.order) 32 = .ok k := by
  unfold slip10CkdPriv slip10PrivData
  rw [if_pos h]
  simp only [bind, Except.bind, pure, Except.pure]
  constructor
  · intro hh
    split at hh
    · cases hh
    · next v hv =>
      obtain ⟨il, ir⟩ := v
      simp only at hh
      split at hh
      · cases hh
      · next k' hk' =>
        cases hh
        exact ⟨il, hv, hk'⟩
  · rintro ⟨il, h1, h2⟩
    rw [h1]; simp only; rw [h2]

/-- errors of the ECDSA private derivation: only fuel exhaustion (the 32-byte conversion cannot
overflow because `n < 2^256`) -/
theorem slip10CkdPriv_ecdsa_error (nd : Node) (priv : Bytes) (idx : Nat) (h : nd.curve.isEcdsa = true)
    (e : Err) (he : slip10CkdPriv nd priv idx = .error e) : e = .fuel := by
  unfold slip10CkdPriv at he
  rw [if_pos h] at he
  simp only [bind, Except.bind, pure, Except.pure] at he
  split at he
  · next e' hv => cases he; exact slip10Retry_error _ _ _ _ _ _ _ hv
  · next v hv =>
    obtain ⟨il, ir⟩ := v
    simp only at he
    split at he
    · next e' hk =>
      exfalso
      have hlt : (il + Bytes.toNatBE priv) % nd.curve.order < 256 ^ 32 :=
        Nat.lt_trans (Nat.mod_lt _ (ecdsa_order_pos _ h)) (ecdsa_order_lt _ h)
      rw [toBytesBE_eq_ok _ _ hlt] at hk; cases hk
    · cases he

/-- **A.2** the child private key of an ECDSA derivation is a valid private key (32 bytes,
`0 < k' < n`), and the child chain code has 32 bytes. Neither `0 < n` nor validity of the parent
key has to be assumed (`n` is one of two concrete orders). -/
theorem ckdPriv_key_valid (nd : Node) (priv : Bytes) (idx : Nat) (h : nd.curve.isEcdsa = true)
    (k cc : Bytes) (hok : slip10CkdPriv nd priv idx = .ok (k, cc)) :
    privValid nd.curve k = true ∧ cc.length = 32 := by
  obtain ⟨il, h1, h2⟩ := (slip10CkdPriv_ecdsa_ok_iff nd priv idx h k cc).mp hok
  have hn := ecdsa_order_pos _ h
  obtain ⟨hv, hl⟩ := toBytesBE_toNatBE h2
  obtain ⟨_, hz⟩ := slip10Retry_spec _ _ _ _ _ _ _ _ _ h1
  refine ⟨(privValid_ecdsa_iff _ h k).mpr ⟨hl, ?_, ?_⟩, ?_⟩
  · rw [hv]; exact Nat.pos_of_ne_zero (hz _ rfl)
  · rw [hv]; exact Nat.mod_lt _ hn
  · exact slip10Retry_snd_length _ _ _ _ _ _ _ _ _ (hmacSha512Halves_snd_length _ _) h1

/-- value of the child key: `k' = (IL + k_par) mod n` for the `IL` selected by the loop -/
theorem ckdPriv_key_value (nd : Node) (priv : Bytes) (idx : Nat) (h : nd.curve.isEcdsa = true)
    (k cc : Bytes) (hok : slip10CkdPriv nd priv idx = .ok (k, cc)) :
    ∃ il, slip10Retry nd.curve.order nd.chainCode idx (some (Bytes.toNatBE priv)) 4096
              (hmacSha512Halves nd.chainCode (slip10PrivData nd priv idx)) = .ok (il, cc) ∧
      Bytes.toNatBE k = (il + Bytes.toNatBE priv) % nd.curve.order := by
  obtain ⟨il, h1, h2⟩ := (slip10CkdPriv_ecdsa_ok_iff nd priv idx h k cc).mp hok
  exact ⟨il, h1, (toBytesBE_toNatBE h2).1⟩

/-- SLIP-0010 ed25519 hardened private derivation: plain HMAC halves -/
theorem slip10CkdPriv_ed (nd : Node) (priv : Bytes) (idx : Nat) (h : nd.curve.isEcdsa = false)
    (hh : isHardened idx = true) :
    slip10CkdPriv nd priv idx = .ok (hmacSha512Halves nd.chainCode ([0] ++ priv ++ ser32 idx)) := by
  unfold slip10CkdPriv
  simp [h, hh]; rfl

theorem slip10CkdPriv_ed_soft (nd : Node) (priv : Bytes) (idx : Nat) (h : nd.curve.isEcdsa = false)
    (hh : isHardened idx = false) : slip10CkdPriv nd priv idx = .error .key := by
  unfold slip10CkdPriv
  simp [h, hh]; rfl

/-! ## node constructors -/

theorem nodeOfPriv_ok_iff (c : CurveT) (s : Scheme) (k : Bytes) (d i : Nat) (cc fp : Bytes) (nd : Node) :
    nodeOfPriv c s k d i cc fp = .ok nd ↔
      privValid c k = true ∧ ∃ pub, pubOfPriv c k = some pub ∧
        nd = { curve := c, scheme := s, priv := some k, pub := pub, depth := d, index := i,
               chainCode := cc, parentFp := fp.take 4 } := by
  unfold nodeOfPriv
  cases hv : privValid c k
  · simp [throw, throwThe, MonadExceptOf.throw]
  · cases hp : pubOfPriv c k with
    | none => simp [throw, throwThe, MonadExceptOf.throw]
    | some pub =>
      simp only [Bool.not_true, Bool.false_eq_true, if_false, pure, Except.pure, true_and]
      constructor
      · intro h; cases h; exact ⟨pub, rfl, rfl⟩
      · rintro ⟨pub', h1, h2⟩; cases h1; rw [h2]

theorem nodeOfPriv_error (c : CurveT) (s : Scheme) (k : Bytes) (d i : Nat) (cc fp : Bytes) (e : Err)
    (h : nodeOfPriv c s k d i cc fp = .error e) :
    (e = .key ∧ privValid c k = false) ∨ (e = .value ∧ privValid c k = true ∧ pubOfPriv c k = none) := by
  unfold nodeOfPriv at h
  cases hv : privValid c k
  · simp [hv, throw, throwThe, MonadExceptOf.throw] at h; exact Or.inl ⟨h.symm, rfl⟩
  · cases hp : pubOfPriv c k with
    | none =>
      simp [hv, hp, throw, throwThe, MonadExceptOf.throw] at h; exact Or.inr ⟨h.symm, rfl, rfl⟩
    | some pub => simp [hv, hp, pure, Except.pure] at h

theorem nodeOfPub_ok_iff (c : CurveT) (s : Scheme) (p : Bytes) (d i : Nat) (cc fp : Bytes) (nd : Node) :
    nodeOfPub c s p d i cc fp = .ok nd ↔
      ∃ pub, pubFromBytes c p = some pub ∧
        nd = { curve := c, scheme := s, priv := none, pub := pub, depth := d, index := i,
               chainCode := cc, parentFp := fp.take 4 } := by
  unfold nodeOfPub
  cases hp : pubFromBytes c p with
  | none => simp [throw, throwThe, MonadExceptOf.throw]
  | some pub =>
    simp only [pure, Except.pure]
    constructor
    · intro h; cases h; exact ⟨pub, rfl, rfl⟩
    · rintro ⟨pub', h1, h2⟩; cases h1; rw [h2]

theorem nodeOfPub_error (c : CurveT) (s : Scheme) (p : Bytes) (d i : Nat) (cc fp : Bytes) (e : Err)
    (h : nodeOfPub c s p d i cc fp = .error e) : e = .key ∧ pubFromBytes c p = none := by
  unfold nodeOfPub at h
  cases hp : pubFromBytes c p with
  | none => simp [hp, throw, throwThe, MonadExceptOf.throw] at h; exact ⟨h.symm, rfl⟩
  | some pub => simp [hp, pure, Except.pure] at h

/-! ## `slip10ChildKey`: case split -/

theorem slip10ChildKey_range (nd : Node) (idx : Nat) (h : 2 ^ 32 ≤ idx) :
    slip10ChildKey nd idx = .error .value := by
  unfold slip10ChildKey
  have : idx > 2 ^ 32 - 1 := by omega
  simp only [this, if_true, bind, Except.bind, throw, throwThe, MonadExceptOf.throw]

/-- the depth guard of `ChildKey` (`Bip32Depth.Increase()` on a one-byte depth) as a plain `if` -/
theorem Slip10.guard_ok_iff {α} (d : Nat) (k : R α) (a : α) :
    (if d ≥ 255 then (.error .value : R α) else k) = .ok a ↔ d < 255 ∧ k = .ok a := by
  split
  · next h => exact ⟨fun e => (by cases e), fun ⟨h', _⟩ => absurd h (Nat.not_le.mpr h')⟩
  · next h => exact ⟨fun e => ⟨Nat.not_le.mp h, e⟩, fun ⟨_, e⟩ => e⟩

theorem Slip10.guard_error_iff {α} (d : Nat) (k : R α) (e : Err) :
    (if d ≥ 255 then (.error .value : R α) else k) = .error e ↔
      (255 ≤ d ∧ e = .value) ∨ (d < 255 ∧ k = .error e) := by
  split
  · next h =>
    exact ⟨fun h' => (by cases h'; exact Or.inl ⟨h, rfl⟩),
      fun h' => h'.elim (fun ⟨_, h2⟩ => by rw [h2]) (fun ⟨h1, _⟩ => absurd h (Nat.not_le.mpr h1))⟩
  · next h =>
    exact ⟨fun h' => Or.inr ⟨Nat.not_le.mp h, h'⟩,
      fun h' => h'.elim (fun ⟨h1, _⟩ => absurd h1 h) (fun ⟨_, h2⟩ => h2)⟩

theorem slip10ChildKey_priv (nd : Node) (idx : Nat) (priv : Bytes) (hi : idx < 2 ^ 32)
    (hp : nd.priv = some priv) :
    slip10ChildKey nd idx =
      (slip10CkdPriv nd priv idx >>= fun x =>
        if nd.depth ≥ 255 then .error .value
        else nodeOfPriv nd.curve nd.scheme x.1 (nd.depth + 1) idx x.2 nd.fingerprint) := by
  unfold slip10ChildKey
  have : ¬ idx > 2 ^ 32 - 1 := by omega
  simp only [this, if_false, hp, bind, Except.bind]
  cases slip10CkdPriv nd priv idx with
  | error e => rfl
  | ok x => simp only []; split <;> rfl

theorem slip10ChildKey_pub (nd : Node) (idx : Nat) (hi : idx < 2 ^ 32)
    (hp : nd.priv = none) (hh : isHardened idx = false) :
    slip10ChildKey nd idx =
      (slip10CkdPub nd idx >>= fun x =>
        if nd.depth ≥ 255 then .error .value
        else nodeOfPub nd.curve nd.scheme x.1 (nd.depth + 1) idx x.2 nd.fingerprint) := by
  unfold slip10ChildKey
  have : ¬ idx > 2 ^ 32 - 1 := by omega
  simp only [this, if_false, hp, hh, bind, Except.bind]
  cases slip10CkdPub nd idx with
  | error e => rfl
  | ok x => simp only [Bool.false_eq_true, if_false]; split <;> rfl

/-- below the depth limit the guard disappears (the pre-guard form of `slip10ChildKey_priv`) -/
theorem slip10ChildKey_priv_of_depth_lt (nd : Node) (idx : Nat) (priv : Bytes) (hi : idx < 2 ^ 32)
    (hp : nd.priv = some priv) (hd : nd.depth < 255) :
    slip10ChildKey nd idx =
      (slip10CkdPriv nd priv idx >>= fun x =>
        nodeOfPriv nd.curve nd.scheme x.1 (nd.depth + 1) idx x.2 nd.fingerprint) := by
  rw [slip10ChildKey_priv nd idx priv hi hp]
  simp only [ge_iff_le, Nat.not_le.mpr hd, if_false]

theorem slip10ChildKey_pub_of_depth_lt (nd : Node) (idx : Nat) (hi : idx < 2 ^ 32)
    (hp : nd.priv = none) (hh : isHardened idx = false) (hd : nd.depth < 255) :
    slip10ChildKey nd idx =
      (slip10CkdPub nd idx >>= fun x =>
        nodeOfPub nd.curve nd.scheme x.1 (nd.depth + 1) idx x.2 nd.fingerprint) := by
  rw [slip10ChildKey_pub nd idx hi hp hh]
  simp only [ge_iff_le, Nat.not_le.mpr hd, if_false]

theorem slip10ChildKey_pub_hard (nd : Node) (idx : Nat) (hi : idx < 2 ^ 32)
    (hp : nd.priv = none) (hh : isHardened idx = true) :
    slip10ChildKey nd idx = .error .key := by
  unfold slip10ChildKey
  have : ¬ idx > 2 ^ 32 - 1 := by omega
  simp only [this, if_false, hp, hh, if_true, bind, Except.bind, throw, throwThe, MonadExceptOf.throw]

theorem slip10ChildKey_idx_lt (nd : Node) (idx : Nat) (c : Node) (h : slip10ChildKey nd idx = .ok c) :
    idx < 2 ^ 32 := by
  by_contra hn
  rw [slip10ChildKey_range nd idx (by omega)] at h; cases h

theorem Slip10.bind_ok_iff {α β} (x : R α) (f : α → R β) (b : β) :
    (x >>= f) = .ok b ↔ ∃ a, x = .ok a ∧ f a = .ok b := by
  cases x with
  | error e => simp [bind, Except.bind]
  | ok a => simp [bind, Except.bind]

theorem Slip10.bind_error_iff {α β} (x : R α) (f : α → R β) (e : Err) :
    (x >>= f) = .error e ↔ x = .error e ∨ ∃ a, x = .ok a ∧ f a = .error e := by
  cases x with
  | error e' => simp [bind, Except.bind]
  | ok a => simp [bind, Except.bind]

/-- **A.3** metadata of a derived child -/
theorem child_metadata (nd : Node) (idx : Nat) (c : Node) (h : slip10ChildKey nd idx = .ok c) :
    c.depth = nd.depth + 1 ∧ c.index = idx ∧ idx < 2 ^ 32 ∧ c.parentFp = nd.fingerprint.take 4 ∧
      c.curve = nd.curve ∧ c.scheme = nd.scheme ∧ c.priv.isSome = nd.priv.isSome := by
  have hi := slip10ChildKey_idx_lt nd idx c h
  cases hp : nd.priv with
  | some priv =>
    rw [slip10ChildKey_priv nd idx priv hi hp, Slip10.bind_ok_iff] at h
    obtain ⟨x, _, hx⟩ := h
    obtain ⟨_, hx⟩ := (Slip10.guard_ok_iff ..).mp hx
    obtain ⟨_, pub, _, rfl⟩ := (nodeOfPriv_ok_iff ..).mp hx
    exact ⟨rfl, rfl, hi, rfl, rfl, rfl, rfl⟩
  | none =>
    cases hh : isHardened idx
    · rw [slip10ChildKey_pub nd idx hi hp hh, Slip10.bind_ok_iff] at h
      obtain ⟨x, _, hx⟩ := h
      obtain ⟨_, hx⟩ := (Slip10.guard_ok_iff ..).mp hx
      obtain ⟨pub, _, rfl⟩ := (nodeOfPub_ok_iff ..).mp hx
      exact ⟨rfl, rfl, hi, rfl, rfl, rfl, rfl⟩
    · rw [slip10ChildKey_pub_hard nd idx hi hp hh] at h; cases h

/-! ### the depth limit (`Bip32Depth.Increase()`: the depth is one byte) -/

/-- a successful `ChildKey` call was made on a node of depth `< 255` … -/
theorem slip10ChildKey_depth_lt (nd : Node) (idx : Nat) (c : Node) (h : slip10ChildKey nd idx = .ok c) :
    nd.depth < 255 := by
  have hi := slip10ChildKey_idx_lt nd idx c h
  cases hp : nd.priv with
  | some priv =>
    rw [slip10ChildKey_priv nd idx priv hi hp, Slip10.bind_ok_iff] at h
    obtain ⟨x, _, hx⟩ := h
    exact ((Slip10.guard_ok_iff ..).mp hx).1
  | none =>
    cases hh : isHardened idx
    · rw [slip10ChildKey_pub nd idx hi hp hh, Slip10.bind_ok_iff] at h
      obtain ⟨x, _, hx⟩ := h
      exact ((Slip10.guard_ok_iff ..).mp hx).1
    · rw [slip10ChildKey_pub_hard nd idx hi hp hh] at h; cases h

/-- … so a node of depth 255 (or more) has no child at all -/
theorem slip10ChildKey_depth_limit (nd : Node) (idx : Nat) (hd : 255 ≤ nd.depth) :
    ∃ e, slip10ChildKey nd idx = .error e := by
  cases h : slip10ChildKey nd idx with
  | error e => exact ⟨e, rfl⟩
  | ok c => exact absurd (slip10ChildKey_depth_lt nd idx c h) (Nat.not_lt.mpr hd)

/-- the depth of a child fits one byte -/
theorem slip10ChildKey_depth_le (nd : Node) (idx : Nat) (c : Node) (h : slip10ChildKey nd idx = .ok c) :
    c.depth ≤ 255 := by
  have h1 := slip10ChildKey_depth_lt nd idx c h
  have h2 := (child_metadata nd idx c h).1
  omega

/-- at the depth limit, a private derivation whose key computation succeeds raises `ValueError` -/
theorem slip10ChildKey_priv_depth_value (nd : Node) (idx : Nat) (priv : Bytes) (x : Bytes × Bytes)
    (hi : idx < 2 ^ 32) (hp : nd.priv = some priv) (hd : 255 ≤ nd.depth)
    (hx : slip10CkdPriv nd priv idx = .ok x) : slip10ChildKey nd idx = .error .value := by
  rw [slip10ChildKey_priv nd idx priv hi hp, hx, Slip10.bind_ok, if_pos hd]

/-- the same on the public side -/
theorem slip10ChildKey_pub_depth_value (nd : Node) (idx : Nat) (x : Bytes × Bytes)
    (hi : idx < 2 ^ 32) (hp : nd.priv = none) (hh : isHardened idx = false) (hd : 255 ≤ nd.depth)
    (hx : slip10CkdPub nd idx = .ok x) : slip10ChildKey nd idx = .error .value := by
  rw [slip10ChildKey_pub nd idx hi hp hh, hx, Slip10.bind_ok, if_pos hd]

theorem Slip10.hash160_length (b : Bytes) : (hash160 b).length = 20 := ripemd160_length _

/-- fingerprints have exactly 4 bytes -/
theorem fingerprint_length (nd : Node) : nd.fingerprint.length = 4 := by
  unfold Node.fingerprint; rw [List.length_take, Slip10.hash160_length]; rfl

theorem fingerprint_take (nd : Node) : nd.fingerprint.take 4 = nd.fingerprint := by
  apply List.take_of_length_le; rw [fingerprint_length]


/-! ## Part A.4 — refusals -/

theorem ed25519_soft_refused (nd : Node) (priv : Bytes) (idx : Nat) (hc : nd.curve.isEcdsa = false)
    (hp : nd.priv = some priv) (hh : isHardened idx = false) (hi : idx < 2 ^ 32) :
    slip10ChildKey nd idx = .error .key := by
  rw [slip10ChildKey_priv nd idx priv hi hp, slip10CkdPriv_ed_soft nd priv idx hc hh]; rfl

theorem public_hardened_refused (nd : Node) (idx : Nat) (hp : nd.priv = none)
    (hh : isHardened idx = true) (hi : idx < 2 ^ 32) : slip10ChildKey nd idx = .error .key :=
  slip10ChildKey_pub_hard nd idx hi hp hh

theorem slip10CkdPub_ed (nd : Node) (idx : Nat) (hc : nd.curve.isEcdsa = false) :
    slip10CkdPub nd idx = .error .key := by
  unfold slip10CkdPub; simp [hc]; rfl

theorem ed25519_public_refused (nd : Node) (idx : Nat) (hc : nd.curve.isEcdsa = false)
    (hp : nd.priv = none) (hi : idx < 2 ^ 32) : slip10ChildKey nd idx = .error .key := by
  cases hh : isHardened idx
  · rw [slip10ChildKey_pub nd idx hi hp hh, slip10CkdPub_ed nd idx hc]; rfl
  · exact slip10ChildKey_pub_hard nd idx hi hp hh

theorem neuter_has_no_private (nd : Node) : nd.neuter.priv = none := rfl

/-! ## Part A.5 — master key -/

/-- `j`-th iterate of `I ↦ HMAC-SHA512(key_c, I)` starting from the seed -/
def mstIter (c : CurveT) (j : Nat) (seed : Bytes) : Bytes :=
  Nat.iterate (hmacSha512 (slip10HmacKey c)) j seed

theorem mstIter_succ (c : CurveT) (j : Nat) (seed : Bytes) :
    mstIter c (j + 1) seed = mstIter c j (hmacSha512 (slip10HmacKey c) seed) := rfl

theorem slip10MasterLoop_zero (c : CurveT) (data : Bytes) : slip10MasterLoop c 0 data = .error .fuel := rfl

theorem slip10MasterLoop_succ (c : CurveT) (fuel : Nat) (data : Bytes) :
    slip10MasterLoop c (fuel + 1) data =
      if mstValid c ((mstIter c 1 data).take 32) = true
      then .ok ((mstIter c 1 data).take 32, (mstIter c 1 data).drop 32)
      else slip10MasterLoop c fuel (mstIter c 1 data) := by
  conv_lhs => unfold slip10MasterLoop
  rfl

/-- the validity test of the master loop is the validity test of the key class -/
theorem mstValid_eq (c : CurveT) (il : Bytes) : mstValid c il = privValid c il := by
  cases c <;> rfl

/-- the master loop returns the first iterate of `I ↦ HMAC(key, I)` whose left half is a valid
key (`j` = number of rejected iterates) -/
theorem slip10MasterLoop_ok_iff (c : CurveT) (fuel : Nat) (data k cc : Bytes) :
    slip10MasterLoop c fuel data = .ok (k, cc) ↔
      ∃ j, j < fuel ∧ (∀ i, i < j → mstValid c ((mstIter c (i + 1) data).take 32) = false) ∧
        mstValid c ((mstIter c (j + 1) data).take 32) = true ∧
        k = (mstIter c (j + 1) data).take 32 ∧ cc = (mstIter c (j + 1) data).drop 32 := by
  induction fuel generalizing data with
  | zero => simp [slip10MasterLoop_zero]
  | succ f ih =>
    rw [slip10MasterLoop_succ]
    split
    · next hv =>
      constructor
      · intro h; cases h
        exact ⟨0, Nat.succ_pos _, fun i hi => absurd hi (Nat.not_lt_zero _), hv, rfl, rfl⟩
      · rintro ⟨j, _, hall, _, hk, hcc⟩
        cases j with
        | zero => rw [hk, hcc]
        | succ j => have := hall 0 (Nat.succ_pos _); rw [hv] at this; cases this
    · next hv =>
      rw [ih]
      constructor
      · rintro ⟨j, hj, hall, hvj, hk, hcc⟩
        refine ⟨j + 1, Nat.succ_lt_succ hj, ?_, hvj, hk, hcc⟩
        intro i hi
        cases i with
        | zero => exact Bool.eq_false_iff.mpr hv
        | succ i => exact hall i (Nat.lt_of_succ_lt_succ hi)
      · rintro ⟨j, hj, hall, hvj, hk, hcc⟩
        cases j with
        | zero => exact absurd hvj hv
        | succ j =>
          exact ⟨j, Nat.lt_of_succ_lt_succ hj, fun i hi => hall (i + 1) (Nat.succ_lt_succ hi), hvj, hk, hcc⟩

/-- the master loop fails only by fuel exhaustion, exactly when the first `fuel` iterates are all
rejected -/
theorem slip10MasterLoop_error_iff (c : CurveT) (fuel : Nat) (data : Bytes) (e : Err) :
    slip10MasterLoop c fuel data = .error e ↔
      e = .fuel ∧ ∀ i, i < fuel → mstValid c ((mstIter c (i + 1) data).take 32) = false := by
  induction fuel generalizing data with
  | zero =>
    rw [slip10MasterLoop_zero]
    constructor
    · intro h; cases h; exact ⟨rfl, fun i hi => absurd hi (Nat.not_lt_zero _)⟩
    · rintro ⟨rfl, _⟩; rfl
  | succ f ih =>
    rw [slip10MasterLoop_succ]
    split
    · next hv =>
      constructor
      · intro h; cases h
      · rintro ⟨_, hall⟩; have := hall 0 (Nat.succ_pos _); rw [hv] at this; cases this
    · next hv =>
      rw [ih]
      constructor
      · rintro ⟨he, hall⟩
        refine ⟨he, fun i hi => ?_⟩
        cases i with
        | zero => exact Bool.eq_false_iff.mpr hv
        | succ i => exact hall i (Nat.lt_of_succ_lt_succ hi)
      · rintro ⟨he, hall⟩
        exact ⟨he, fun i hi => hall (i + 1) (Nat.succ_lt_succ hi)⟩

/-- for the SLIP-0010 ed25519 curves the first iterate is always accepted -/
theorem slip10MasterLoop_ed (c : CurveT) (hc : c = .ed25519 ∨ c = .ed25519Blake2b) (fuel : Nat) (data : Bytes) :
    slip10MasterLoop c (fuel + 1) data =
      .ok (hmacSha512Halves (slip10HmacKey c) data) := by
  rw [slip10MasterLoop_succ]
  have : mstValid c ((mstIter c 1 data).take 32) = true := by
    have hl : ((mstIter c 1 data).take 32).length = 32 := by
      show ((hmacSha512 _ data).take 32).length = 32
      rw [List.length_take, hmacSha512_length]; rfl
    rcases hc with rfl | rfl <;> simp [mstValid, privValid, hl]
  rw [if_pos this]; rfl

theorem slip10Master_eq (c : CurveT) (seed : Bytes) :
    slip10Master c seed =
      if seed.length < 16 then .error .value
      else slip10MasterLoop c 4096 seed >>= fun x => nodeOfPriv c .slip10 x.1 0 0 x.2 [0, 0, 0, 0] := by
  unfold slip10Master
  split
  · rfl
  · simp only [bind, Except.bind]

/-- **A.5** `Bip32Slip10*.FromSeed` raises `ValueError` for seeds shorter than 16 bytes, and
otherwise only when the key layer refuses to compute the public key of the (valid) master key -/
theorem master_spec (c : CurveT) (seed : Bytes) :
    slip10Master c seed = .error .value ↔
      seed.length < 16 ∨
        (16 ≤ seed.length ∧ ∃ k cc, slip10MasterLoop c 4096 seed = .ok (k, cc) ∧ pubOfPriv c k = none) := by
  rw [slip10Master_eq]
  split
  · next h => simp [h]
  · next h =>
    constructor
    · intro he
      refine Or.inr ⟨Nat.le_of_not_lt h, ?_⟩
      rcases (Slip10.bind_error_iff _ _ _).mp he with h1 | ⟨⟨k, cc⟩, hx, h2⟩
      · have := ((slip10MasterLoop_error_iff ..).mp h1).1; cases this
      · rcases nodeOfPriv_error _ _ _ _ _ _ _ _ h2 with ⟨h3, _⟩ | ⟨_, _, h4⟩
        · cases h3
        · exact ⟨k, cc, hx, h4⟩
    · rintro (hl | ⟨_, k, cc, hx, hnone⟩)
      · exact absurd hl h
      · rw [hx, Slip10.bind_ok]
        obtain ⟨j, _, _, hv, hk, _⟩ := (slip10MasterLoop_ok_iff ..).mp hx
        rw [mstValid_eq, ← hk] at hv
        unfold nodeOfPriv
        simp only [hv, hnone, Bool.not_true, Bool.false_eq_true, if_false]
        rfl

/-- when the key layer computes a public key for every valid private key (true of the SLIP-0010
ed25519 classes by definition, and of the ECDSA curves by the group law): `ValueError` exactly for
seeds shorter than 16 bytes -/
theorem master_spec_of_total (c : CurveT) (seed : Bytes)
    (htot : ∀ k, privValid c k = true → pubOfPriv c k ≠ none) :
    slip10Master c seed = .error .value ↔ seed.length < 16 := by
  rw [master_spec]
  constructor
  · rintro (hl | ⟨_, k, cc, hx, hnone⟩)
    · exact hl
    · obtain ⟨j, _, _, hv, hk, _⟩ := (slip10MasterLoop_ok_iff ..).mp hx
      rw [mstValid_eq, ← hk] at hv
      exact absurd hnone (htot k hv)
  · exact Or.inl

theorem master_spec_ed (c : CurveT) (hc : c = .ed25519 ∨ c = .ed25519Blake2b) (seed : Bytes) :
    slip10Master c seed = .error .value ↔ seed.length < 16 := by
  apply master_spec_of_total
  intro k _
  rcases hc with rfl | rfl <;> simp [pubOfPriv]

/-- all error classes of master key generation; `.key` is impossible because the loop already
tested validity (the second `.value` is the key layer refusing a degenerate public key) -/
theorem master_errors (c : CurveT) (seed : Bytes) (e : Err) (h : slip10Master c seed = .error e) :
    (e = .value ∧ seed.length < 16) ∨ (16 ≤ seed.length ∧ (e = .fuel ∨ e = .value)) := by
  rw [slip10Master_eq] at h
  split at h
  · next hl => cases h; exact Or.inl ⟨rfl, hl⟩
  · next hl =>
    refine Or.inr ⟨Nat.le_of_not_lt hl, ?_⟩
    rcases (Slip10.bind_error_iff _ _ _).mp h with h1 | ⟨x, hx, h2⟩
    · exact Or.inl ((slip10MasterLoop_error_iff ..).mp h1).1
    · rcases nodeOfPriv_error _ _ _ _ _ _ _ _ h2 with ⟨_, h4⟩ | ⟨h3, _⟩
      · obtain ⟨k, cc⟩ := x
        obtain ⟨j, _, _, hv, hk, _⟩ := (slip10MasterLoop_ok_iff ..).mp hx
        rw [mstValid_eq, ← hk] at hv
        simp only at h4; rw [hv] at h4; cases h4
      · exact Or.inr h3

/-- **A.5** metadata of the master node -/
theorem master_metadata (c : CurveT) (seed : Bytes) (nd : Node) (h : slip10Master c seed = .ok nd) :
    16 ≤ seed.length ∧ nd.depth = 0 ∧ nd.index = 0 ∧ nd.parentFp = [0, 0, 0, 0] ∧ nd.curve = c ∧
      nd.scheme = .slip10 ∧
      ∃ k cc, slip10MasterLoop c 4096 seed = .ok (k, cc) ∧ nd.priv = some k ∧ nd.chainCode = cc ∧
        cc.length = 32 ∧ privValid c k = true ∧ pubOfPriv c k = some nd.pub := by
  rw [slip10Master_eq] at h
  split at h
  · cases h
  · next hl =>
    obtain ⟨⟨k, cc⟩, hx, h2⟩ := (Slip10.bind_ok_iff _ _ _).mp h
    obtain ⟨hv, pub, hp, rfl⟩ := (nodeOfPriv_ok_iff ..).mp h2
    refine ⟨Nat.le_of_not_lt hl, rfl, rfl, rfl, rfl, rfl, k, cc, hx, rfl, rfl, ?_, hv, hp⟩
    obtain ⟨j, _, _, _, _, hcc⟩ := (slip10MasterLoop_ok_iff ..).mp hx
    rw [hcc, List.length_drop]
    have : (mstIter c (j + 1) seed).length = 64 := by
      rw [mstIter]; rw [Function.iterate_succ_apply']; exact hmacSha512_length _ _
    rw [this]

/-- SLIP-0010 ed25519 master key: total on seeds of at least 16 bytes, `k = I_L`, `c = I_R` -/
theorem master_ed25519 (seed : Bytes) (hl : 16 ≤ seed.length) :
    slip10Master .ed25519 seed = .ok
      { curve := .ed25519, scheme := .slip10,
        priv := some (hmacSha512Halves (slip10HmacKey .ed25519) seed).1,
        pub := 0 :: edEncode (edMulBase (edClamp (sha512 (hmacSha512Halves (slip10HmacKey .ed25519) seed).1))),
        depth := 0, index := 0,
        chainCode := (hmacSha512Halves (slip10HmacKey .ed25519) seed).2, parentFp := [0, 0, 0, 0] } := by
  rw [slip10Master_eq, if_neg (Nat.not_lt.mpr hl), slip10MasterLoop_ed _ (Or.inl rfl)]
  rw [Slip10.bind_ok]
  rw [nodeOfPriv_ok_iff]
  refine ⟨?_, _, rfl, rfl⟩
  simp [privValid]

/-! ## Part A.6 — path derivation -/

theorem foldlM_depth (child : Node → Nat → R Node)
    (hchild : ∀ nd i c, child nd i = .ok c → c.depth = nd.depth + 1)
    (l : List Nat) (nd c : Node) (h : l.foldlM child nd = .ok c) : c.depth = nd.depth + l.length := by
  induction l generalizing nd with
  | nil => simp only [List.foldlM_nil, pure, Except.pure] at h; cases h; rfl
  | cons a t ih =>
    rw [List.foldlM_cons, Slip10.bind_ok_iff] at h
    obtain ⟨b, hb, ht⟩ := h
    rw [ih b ht, hchild nd a b hb, List.length_cons]; omega

/-- if every child has a depth `≤ 255`, so has every node reached by a fold of `child` from a node
of depth `≤ 255` -/
theorem foldlM_depth_le (child : Node → Nat → R Node)
    (hchild : ∀ nd i c, child nd i = .ok c → c.depth ≤ 255)
    (l : List Nat) (nd c : Node) (hd : nd.depth ≤ 255) (h : l.foldlM child nd = .ok c) :
    c.depth ≤ 255 := by
  induction l generalizing nd with
  | nil => simp only [List.foldlM_nil, pure, Except.pure] at h; cases h; exact hd
  | cons a t ih =>
    rw [List.foldlM_cons, Slip10.bind_ok_iff] at h
    obtain ⟨b, hb, ht⟩ := h
    exact ih b (hchild nd a b hb) ht

theorem derivePathWith_eq (child : Node → Nat → R Node) (nd : Node) (p : Path) :
    derivePathWith child nd p =
      if (nd.depth > 0 && p.absolute) = true then .error .value else p.elems.foldlM child nd := by
  unfold derivePathWith
  split <;> rfl

/-- **A.6** depth after deriving a path -/
theorem derive_depth (nd : Node) (p : Path) (c : Node) (h : derivePathWith slip10ChildKey nd p = .ok c) :
    c.depth = nd.depth + p.elems.length := by
  rw [derivePathWith_eq] at h
  split at h
  · cases h
  · exact foldlM_depth _ (fun nd i c hc => (child_metadata nd i c hc).1) _ _ _ h


/-- the depth of every node `DerivePath` returns fits one byte, for any `child` function whose
children do -/
theorem derivePathWith_depth_le (child : Node → Nat → R Node)
    (hchild : ∀ nd i c, child nd i = .ok c → c.depth ≤ 255)
    (nd : Node) (p : Path) (c : Node) (hd : nd.depth ≤ 255) (h : derivePathWith child nd p = .ok c) :
    c.depth ≤ 255 := by
  rw [derivePathWith_eq] at h
  split at h
  · cases h
  · exact foldlM_depth_le child hchild _ _ _ hd h

/-- a path that would lead beyond depth 255 cannot be derived -/
theorem derive_depth_bound (nd : Node) (p : Path) (c : Node) (hd : nd.depth ≤ 255)
    (h : derivePathWith slip10ChildKey nd p = .ok c) : nd.depth + p.elems.length ≤ 255 := by
  rw [← derive_depth nd p c h]
  exact derivePathWith_depth_le _ slip10ChildKey_depth_le nd p c hd h

/-! ## Part B — public/private commutation (ECDSA curves) -/

/-! ### the two re-hash loops side by side -/

theorem slip10Bad_none (n : Nat) (il : Bytes) : slip10Bad n none il ↔ n ≤ Bytes.toNatBE il := by
  unfold slip10Bad; simp

theorem slip10Bad_some (n k : Nat) (il : Bytes) :
    slip10Bad n (some k) il ↔ n ≤ Bytes.toNatBE il ∨ (Bytes.toNatBE il + k) % n = 0 := by
  unfold slip10Bad; simp

/-- if the public loop stops at `(il, ir)` and `il + k ≢ 0`, the private loop stops there too -/
theorem slip10Retry_none_ok_some (n : Nat) (cc : Bytes) (idx k fuel : Nat) (s : Bytes × Bytes)
    (il : Nat) (ir : Bytes) (h : slip10Retry n cc idx none fuel s = .ok (il, ir))
    (hz : (il + k) % n ≠ 0) : slip10Retry n cc idx (some k) fuel s = .ok (il, ir) := by
  induction fuel generalizing s with
  | zero => rw [slip10Retry_zero] at h; cases h
  | succ f ih =>
    obtain ⟨il0, ir0⟩ := s
    rw [slip10Retry_succ] at h ⊢
    split at h
    · next hb => rw [if_pos ((slip10Bad_some _ _ _).mpr (Or.inl ((slip10Bad_none _ _).mp hb)))]; exact ih _ h
    · next hb =>
      cases h
      rw [if_neg]
      rw [slip10Bad_some, not_or]
      exact ⟨fun hh => hb ((slip10Bad_none _ _).mpr hh), hz⟩

/-- if the public loop runs out of fuel, so does the private loop -/
theorem slip10Retry_none_error_some (n : Nat) (cc : Bytes) (idx k fuel : Nat) (s : Bytes × Bytes)
    (e : Err) (h : slip10Retry n cc idx none fuel s = .error e) :
    slip10Retry n cc idx (some k) fuel s = .error e := by
  induction fuel generalizing s with
  | zero => exact h
  | succ f ih =>
    obtain ⟨il0, ir0⟩ := s
    rw [slip10Retry_succ] at h ⊢
    split at h
    · next hb => rw [if_pos ((slip10Bad_some _ _ _).mpr (Or.inl ((slip10Bad_none _ _).mp hb)))]; exact ih _ h
    · cases h

/-- if the public loop stops at `(il, ir)` with `il + k ≡ 0 (mod n)`, the private loop does not stop
there: it continues from `HMAC(cc, 0x01 ‖ ir ‖ ser32 idx)` with the remaining fuel -/
theorem slip10Retry_none_ok_zero (n : Nat) (cc : Bytes) (idx k fuel : Nat) (s : Bytes × Bytes)
    (il : Nat) (ir : Bytes) (h : slip10Retry n cc idx none fuel s = .ok (il, ir))
    (hz : (il + k) % n = 0) :
    ∃ f', f' < fuel ∧
      slip10Retry n cc idx (some k) fuel s = slip10Retry n cc idx (some k) f' (slip10Rehash cc idx ir) := by
  induction fuel generalizing s with
  | zero => rw [slip10Retry_zero] at h; cases h
  | succ f ih =>
    obtain ⟨il0, ir0⟩ := s
    rw [slip10Retry_succ] at h
    rw [slip10Retry_succ]
    split at h
    · next hb =>
      rw [if_pos ((slip10Bad_some _ _ _).mpr (Or.inl ((slip10Bad_none _ _).mp hb)))]
      obtain ⟨f', hf, he⟩ := ih _ h
      exact ⟨f', Nat.lt_succ_of_lt hf, he⟩
    · next hb =>
      cases h
      rw [if_pos ((slip10Bad_some _ _ _).mpr (Or.inr hz))]
      exact ⟨f, Nat.lt_succ_self _, rfl⟩

/-! ### the two derivation functions as binds -/

theorem slip10CkdPub_ecdsa (nd : Node) (idx : Nat) (h : nd.curve.isEcdsa = true) :
    slip10CkdPub nd idx =
      (slip10Retry nd.curve.order nd.chainCode idx none 4096
          (hmacSha512Halves nd.chainCode (nd.pub ++ ser32 idx)) >>= fun x =>
        match pubAddMulG nd.curve nd.pub x.1 with
        | some p => .ok (p, x.2)
        | none => .error .key) := by
  unfold slip10CkdPub
  rw [if_pos h]
  simp only [bind, Except.bind]
  cases slip10Retry nd.curve.order nd.chainCode idx none 4096
          (hmacSha512Halves nd.chainCode (nd.pub ++ ser32 idx)) <;> rfl

theorem slip10CkdPriv_ecdsa (nd : Node) (priv : Bytes) (idx : Nat) (h : nd.curve.isEcdsa = true) :
    slip10CkdPriv nd priv idx =
      (slip10Retry nd.curve.order nd.chainCode idx (some (Bytes.toNatBE priv)) 4096
          (hmacSha512Halves nd.chainCode (slip10PrivData nd priv idx)) >>= fun x =>
        toBytesBE ((x.1 + Bytes.toNatBE priv) % nd.curve.order) 32 >>= fun nk => .ok (nk, x.2)) := by
  unfold slip10CkdPriv slip10PrivData
  rw [if_pos h]
  simp only [bind, Except.bind]
  cases slip10Retry nd.curve.order nd.chainCode idx (some (Bytes.toNatBE priv)) 4096
          (hmacSha512Halves nd.chainCode (if isHardened idx = true then [0] ++ priv ++ ser32 idx
            else nd.pub ++ ser32 idx)) <;> rfl

/-! ### the key-layer law -/

/-- What the commutation proof needs to know about the ECDSA key layer of curve `c`
(`pubOfPriv`, `pubAddMulG`, `pubFromBytes` of `BipVerif/Model/Ecc.lean`).  Both fields are
consequences of "the curve is a cyclic group of order `n` generated by `G`, `pubOfPriv k = enc(k·G)`,
`pubAddMulG (enc X) il = enc (X + il·G)`, `enc` defined exactly off the point at infinity and
`decode ∘ enc = id`" — see `BipVerif/Lemmas/GroupModel.lean`, `ecdsaLaw_of_group_model`. -/
structure EcdsaLaw (c : CurveT) : Prop where
  /-- `K_par + il·G` is the public key of the private key `(il + k_par) mod n` — required only
  when that key is non-zero, for valid 32-byte keys `k`, `k'` and `il < n`. -/
  pub_add : ∀ (k P : Bytes) (il : Nat) (k' : Bytes),
    privValid c k = true → pubOfPriv c k = some P → il < c.order →
    (il + Bytes.toNatBE k) % c.order ≠ 0 →
    privValid c k' = true → Bytes.toNatBE k' = (il + Bytes.toNatBE k) % c.order →
    ∃ P', pubOfPriv c k' = some P' ∧ pubAddMulG c P il = some P'
  /-- the compressed public key of a valid private key is accepted by the public key class and
  is already canonical (`decode ∘ compress = id` on such points). -/
  pub_canon : ∀ (k P : Bytes), privValid c k = true → pubOfPriv c k = some P →
    pubFromBytes c P = some P

/-- a private node whose stored public key is the public key of its (valid) private key; every
node built by `nodeOfPriv` is of this kind -/
def Node.Sound (nd : Node) : Prop :=
  ∃ k, nd.priv = some k ∧ privValid nd.curve k = true ∧ pubOfPriv nd.curve k = some nd.pub

theorem nodeOfPriv_sound (c : CurveT) (s : Scheme) (k : Bytes) (d i : Nat) (cc fp : Bytes) (nd : Node)
    (h : nodeOfPriv c s k d i cc fp = .ok nd) : nd.Sound := by
  obtain ⟨hv, pub, hp, rfl⟩ := (nodeOfPriv_ok_iff ..).mp h
  exact ⟨k, rfl, hv, hp⟩

/-- children of private nodes are sound -/
theorem slip10ChildKey_sound (nd : Node) (idx : Nat) (c : Node) (hp : nd.priv.isSome = true)
    (h : slip10ChildKey nd idx = .ok c) : c.Sound := by
  have hi := slip10ChildKey_idx_lt nd idx c h
  cases hk : nd.priv with
  | none => rw [hk] at hp; cases hp
  | some k =>
    rw [slip10ChildKey_priv nd idx k hi hk, Slip10.bind_ok_iff] at h
    obtain ⟨x, _, hx⟩ := h
    exact nodeOfPriv_sound _ _ _ _ _ _ _ _ ((Slip10.guard_ok_iff ..).mp hx).2

theorem master_sound (c : CurveT) (seed : Bytes) (nd : Node) (h : slip10Master c seed = .ok nd) :
    nd.Sound := by
  obtain ⟨_, _, _, _, hc, _, k, cc, _, hp, _, _, hv, hpub⟩ := master_metadata c seed nd h
  exact ⟨k, hp, hc ▸ hv, hc ▸ hpub⟩

/-- the hypothesis under which commutation holds at node `nd` and index `idx`: the `IL` selected
by the *public* re-hash loop does not make the child private key zero.  (For `IL` values rejected
because `IL ≥ n` nothing is required.) -/
def NoZeroSum (nd : Node) (idx : Nat) : Prop :=
  ∀ k il ir, nd.priv = some k →
    slip10Retry nd.curve.order nd.chainCode idx none 4096
      (hmacSha512Halves nd.chainCode (nd.pub ++ ser32 idx)) = .ok (il, ir) →
    (il + Bytes.toNatBE k) % nd.curve.order ≠ 0

theorem map_neuter_error (e : Err) : (Except.error e : R Node).map Node.neuter = .error e := rfl
theorem map_neuter_ok (c : Node) : (Except.ok c : R Node).map Node.neuter = .ok c.neuter := rfl

/-- **B** `CKDpub(N(parent), i) = N(CKDpriv(parent, i))` for non-hardened `i` on ECDSA curves, as an
equation between results (same public key, chain code, depth, index, parent fingerprint, or the same
error), under the key-layer law and `NoZeroSum`. -/
theorem ckdPub_comm (nd : Node) (law : EcdsaLaw nd.curve) (idx : Nat)
    (hc : nd.curve.isEcdsa = true) (hs : nd.Sound) (hh : isHardened idx = false)
    (hz : NoZeroSum nd idx) :
    slip10ChildKey nd.neuter idx = (slip10ChildKey nd idx).map Node.neuter := by
  obtain ⟨k, hp, hv, hpub⟩ := hs
  by_cases hi : idx < 2 ^ 32
  swap
  · rw [slip10ChildKey_range _ _ (Nat.le_of_not_lt hi), slip10ChildKey_range _ _ (Nat.le_of_not_lt hi)]
    rfl
  rw [slip10ChildKey_pub nd.neuter idx hi rfl hh, slip10ChildKey_priv nd idx k hi hp,
    slip10CkdPub_ecdsa nd.neuter idx hc, slip10CkdPriv_ecdsa nd k idx hc]
  have hdata : slip10PrivData nd k idx = nd.pub ++ ser32 idx := by
    unfold slip10PrivData; rw [hh]; rfl
  rw [hdata]
  show (slip10Retry nd.curve.order nd.chainCode idx none 4096
          (hmacSha512Halves nd.chainCode (nd.pub ++ ser32 idx)) >>= _) >>= _ = _
  cases hr : slip10Retry nd.curve.order nd.chainCode idx none 4096
          (hmacSha512Halves nd.chainCode (nd.pub ++ ser32 idx)) with
  | error e =>
    rw [slip10Retry_none_error_some _ _ _ _ _ _ _ hr]; rfl
  | ok x =>
    obtain ⟨il, ir⟩ := x
    have hnz := hz k il ir hp hr
    rw [slip10Retry_none_ok_some _ _ _ _ _ _ _ _ hr hnz]
    have hiln := (slip10Retry_spec _ _ _ _ _ _ _ _ _ hr).1
    have hn := ecdsa_order_pos _ hc
    have hlt : (il + Bytes.toNatBE k) % nd.curve.order < 256 ^ 32 :=
      Nat.lt_trans (Nat.mod_lt _ hn) (ecdsa_order_lt _ hc)
    obtain ⟨k', hk'⟩ := (toBytesBE_ok_iff _ _).mpr hlt
    obtain ⟨hval, hlen⟩ := toBytesBE_toNatBE hk'
    have hv' : privValid nd.curve k' = true :=
      (privValid_ecdsa_iff _ hc k').mpr
        ⟨hlen, by rw [hval]; exact Nat.pos_of_ne_zero hnz, by rw [hval]; exact Nat.mod_lt _ hn⟩
    obtain ⟨P', hP', hadd⟩ := law.pub_add k nd.pub il k' hv hpub hiln hnz hv' hval
    have hcanon : pubFromBytes nd.neuter.curve P' = some P' := law.pub_canon k' P' hv' hP'
    simp only [Slip10.bind_ok]
    rw [hk']
    simp only [Slip10.bind_ok]
    show (match pubAddMulG nd.curve nd.pub il with
          | some p => Except.ok (p, ir)
          | none => Except.error Err.key) >>= _ = _
    rw [hadd]
    simp only [Slip10.bind_ok]
    show (if nd.depth ≥ 255 then _ else _) = Except.map Node.neuter (if nd.depth ≥ 255 then _ else _)
    split
    · rfl
    unfold nodeOfPub nodeOfPriv
    rw [hcanon, hv', hP']
    rfl


/-! ### the asymmetry at a zero sum -/

/-- the ECDSA private derivation never raises `Bip32KeyError`: the derived key is always valid
(no law needed) -/
theorem ckdPriv_never_key (nd : Node) (k : Bytes) (idx : Nat) (hc : nd.curve.isEcdsa = true)
    (hp : nd.priv = some k) : slip10ChildKey nd idx ≠ .error .key := by
  intro h
  by_cases hi : idx < 2 ^ 32
  swap
  · rw [slip10ChildKey_range _ _ (Nat.le_of_not_lt hi)] at h; cases h
  rw [slip10ChildKey_priv nd idx k hi hp] at h
  rcases (Slip10.bind_error_iff _ _ _).mp h with h1 | ⟨⟨k', cc⟩, hx, h2⟩
  · have := slip10CkdPriv_ecdsa_error nd k idx hc _ h1; cases this
  · rcases (Slip10.guard_error_iff ..).mp h2 with ⟨_, h3⟩ | ⟨_, h2⟩
    · cases h3
    rcases nodeOfPriv_error _ _ _ _ _ _ _ _ h2 with ⟨_, h4⟩ | ⟨h3, _⟩
    · rw [(ckdPriv_key_valid nd k idx hc k' cc hx).1] at h4; cases h4
    · cases h3

/-- The companion of `EcdsaLaw.pub_add` at the zero key: `K_par + il·G` is the point at infinity
when `(il + k_par) mod n = 0`, and the key layer refuses to encode it.  Also a consequence of the
group model (`ecdsaInfLaw_of_group_model`). -/
structure EcdsaInfLaw (c : CurveT) : Prop where
  pub_inf : ∀ (k P : Bytes) (il : Nat), privValid c k = true → pubOfPriv c k = some P →
    il < c.order → (il + Bytes.toNatBE k) % c.order = 0 → pubAddMulG c P il = none

/-- **asymmetry**: when the `IL` on which the public loop stops makes the child private key zero,
the public side cannot notice: it computes the point at infinity and raises `Bip32KeyError`, while
the private side re-hashes (`0x01 ‖ IR ‖ ser32 i`) and never raises `Bip32KeyError`; so the
commutation equation is *false* there.  This is why `ckdPub_comm` carries `NoZeroSum`. -/
theorem zero_sum_asymmetry (nd : Node) (ilaw : EcdsaInfLaw nd.curve) (k : Bytes) (idx il : Nat)
    (ir : Bytes) (hc : nd.curve.isEcdsa = true) (hp : nd.priv = some k)
    (hv : privValid nd.curve k = true) (hpub : pubOfPriv nd.curve k = some nd.pub)
    (hh : isHardened idx = false) (hi : idx < 2 ^ 32)
    (hr : slip10Retry nd.curve.order nd.chainCode idx none 4096
            (hmacSha512Halves nd.chainCode (nd.pub ++ ser32 idx)) = .ok (il, ir))
    (hz : (il + Bytes.toNatBE k) % nd.curve.order = 0) :
    slip10ChildKey nd.neuter idx = .error .key ∧
    (∃ f', f' < 4096 ∧
      slip10Retry nd.curve.order nd.chainCode idx (some (Bytes.toNatBE k)) 4096
          (hmacSha512Halves nd.chainCode (slip10PrivData nd k idx)) =
        slip10Retry nd.curve.order nd.chainCode idx (some (Bytes.toNatBE k)) f'
          (slip10Rehash nd.chainCode idx ir)) ∧
    slip10ChildKey nd idx ≠ .error .key ∧
    slip10ChildKey nd.neuter idx ≠ (slip10ChildKey nd idx).map Node.neuter := by
  have hiln := (slip10Retry_spec _ _ _ _ _ _ _ _ _ hr).1
  have hpubside : slip10ChildKey nd.neuter idx = .error .key := by
    rw [slip10ChildKey_pub nd.neuter idx hi rfl hh, slip10CkdPub_ecdsa nd.neuter idx hc]
    show (slip10Retry nd.curve.order nd.chainCode idx none 4096
          (hmacSha512Halves nd.chainCode (nd.pub ++ ser32 idx)) >>= _) >>= _ = _
    rw [hr]
    simp only [Slip10.bind_ok]
    show (match pubAddMulG nd.curve nd.pub il with
          | some p => Except.ok (p, ir)
          | none => Except.error Err.key) >>= _ = _
    rw [ilaw.pub_inf k nd.pub il hv hpub hiln hz]
    rfl
  have hnk := ckdPriv_never_key nd k idx hc hp
  refine ⟨hpubside, ?_, hnk, ?_⟩
  · have hdata : slip10PrivData nd k idx = nd.pub ++ ser32 idx := by
      unfold slip10PrivData; rw [hh]; rfl
    rw [hdata]
    exact slip10Retry_none_ok_zero _ _ _ _ _ _ _ _ hr hz
  · rw [hpubside]
    intro he
    cases hx : slip10ChildKey nd idx with
    | error e => rw [hx] at he; cases he; exact hnk hx
    | ok c => rw [hx] at he; cases he

/-- under both laws `NoZeroSum` is not only sufficient but necessary: commutation at `(nd, idx)`
holds **iff** the public loop does not stop at a zero sum -/
theorem ckdPub_comm_iff (nd : Node) (law : EcdsaLaw nd.curve) (ilaw : EcdsaInfLaw nd.curve)
    (idx : Nat) (hc : nd.curve.isEcdsa = true) (hs : nd.Sound) (hh : isHardened idx = false)
    (hi : idx < 2 ^ 32) :
    slip10ChildKey nd.neuter idx = (slip10ChildKey nd idx).map Node.neuter ↔ NoZeroSum nd idx := by
  constructor
  · intro heq k il ir hp hr hz
    obtain ⟨k0, hp0, hv, hpub⟩ := hs
    rw [hp] at hp0; cases hp0
    exact (zero_sum_asymmetry nd ilaw k idx il ir hc hp hv hpub hh hi hr hz).2.2.2 heq
  · exact ckdPub_comm nd law idx hc hs hh

/-! ### paths -/

/-- `NoZeroSum` at every node visited while deriving the path `l` from `nd` on the private side -/
def PathNoZeroSum : Node → List Nat → Prop
  | _, [] => True
  | nd, i :: t => NoZeroSum nd i ∧ ∀ c, slip10ChildKey nd i = .ok c → PathNoZeroSum c t

theorem foldlM_comm (c : CurveT) (law : EcdsaLaw c) (hc : c.isEcdsa = true) (l : List Nat)
    (hl : ∀ i ∈ l, isHardened i = false) (nd : Node) (hcur : nd.curve = c) (hs : nd.Sound)
    (hz : PathNoZeroSum nd l) :
    l.foldlM slip10ChildKey nd.neuter = (l.foldlM slip10ChildKey nd).map Node.neuter := by
  induction l generalizing nd with
  | nil => rfl
  | cons a t ih =>
    subst hcur
    rw [List.foldlM_cons, List.foldlM_cons,
      ckdPub_comm nd law a hc hs (hl a (List.mem_cons_self ..)) hz.1]
    cases hx : slip10ChildKey nd a with
    | error e => rfl
    | ok c' =>
      rw [map_neuter_ok, Slip10.bind_ok, Slip10.bind_ok]
      have hm := child_metadata nd a c' hx
      exact ih (fun i hi => hl i (List.mem_cons_of_mem _ hi)) c' hm.2.2.2.2.1
        (slip10ChildKey_sound nd a c' (by obtain ⟨k, hk, _⟩ := hs; rw [hk]; rfl) hx) (hz.2 c' hx)

/-- **B** `DerivePath` commutes with neutering along any non-hardened path (ECDSA curves) -/
theorem derivePath_comm (nd : Node) (law : EcdsaLaw nd.curve) (hc : nd.curve.isEcdsa = true)
    (p : Path) (hl : ∀ i ∈ p.elems, isHardened i = false) (hs : nd.Sound)
    (hz : PathNoZeroSum nd p.elems) :
    derivePathWith slip10ChildKey nd.neuter p = (derivePathWith slip10ChildKey nd p).map Node.neuter := by
  rw [derivePathWith_eq, derivePathWith_eq]
  show (if (nd.depth > 0 && p.absolute) = true then _ else _) = _
  split
  · rfl
  · exact foldlM_comm nd.curve law hc p.elems hl nd rfl hs hz

/-- children of public-only nodes are public-only -/
theorem child_public_only (nd : Node) (idx : Nat) (c : Node) (hp : nd.priv = none)
    (h : slip10ChildKey nd idx = .ok c) : c.priv = none := by
  have := (child_metadata nd idx c h).2.2.2.2.2.2
  rw [hp] at this
  cases hc : c.priv with
  | none => rfl
  | some k => rw [hc] at this; cases this

theorem foldlM_public_only (l : List Nat) (nd c : Node) (hp : nd.priv = none)
    (h : l.foldlM slip10ChildKey nd = .ok c) : c.priv = none := by
  induction l generalizing nd with
  | nil => simp only [List.foldlM_nil, pure, Except.pure] at h; cases h; exact hp
  | cons a t ih =>
    rw [List.foldlM_cons, Slip10.bind_ok_iff] at h
    obtain ⟨b, hb, ht⟩ := h
    exact ih b (child_public_only nd a b hp hb) ht

/-- **B** every node derived from a public-only node is public-only -/
theorem neuter_derive_public_only (nd : Node) (p : Path) (c : Node) (hp : nd.priv = none)
    (h : derivePathWith slip10ChildKey nd p = .ok c) : c.priv = none := by
  rw [derivePathWith_eq] at h
  split at h
  · cases h
  · exact foldlM_public_only _ _ _ hp h


end BipVerif.Model
