/-
Lemmas about the memoisation model (`BipVerif/Model/Memo.lean`): the cache invariant of the
sequential machine and the invariants of the interleaved machine.  Mathlib-free.
-/
import BipVerif.Model.Memo

namespace BipVerif.Model.Memo

variable {St Arg Out : Type} [DecidableEq Arg]

/-! ### association lists -/

theorem mem_of_lookup_eq_some {a : Arg} {o : Out} :
    ∀ {l : List (Arg × Out)}, l.lookup a = some o → (a, o) ∈ l
  | [], h => by simp [List.lookup] at h
  | (b, p) :: l, h => by
    by_cases hab : a = b
    · subst hab
      simp [List.lookup] at h
      subst h
      exact List.mem_cons_self
    · have hb : (a == b) = false := by simpa using hab
      simp only [List.lookup, hb] at h
      exact List.mem_cons_of_mem _ (mem_of_lookup_eq_some h)

theorem lookup_cons_self (a : Arg) (o : Out) (l : List (Arg × Out)) :
    ((a, o) :: l).lookup a = some o := by
  simp [List.lookup]

/-! ### the sequential machine -/

/-- every stored result is the one the body would compute now -/
def CacheOk (m : Method St Arg Out) (s : MState St Arg Out) : Prop :=
  ∀ a o, (a, o) ∈ s.cache → o = m.pureOut s.st a

omit [DecidableEq Arg] in
theorem cacheOk_empty (m : Method St Arg Out) (st : St) : CacheOk m ⟨st, []⟩ := by
  intro a o h; cases h

theorem stepMemo_call_hit (m : Method St Arg Out) (s : MState St Arg Out) {a : Arg} {o : Out}
    (h : s.cache.lookup a = some o) : stepMemo m s (.call a) = (s, some o) := by
  simp only [stepMemo, h]

theorem stepMemo_call_miss (m : Method St Arg Out) (s : MState St Arg Out) {a : Arg}
    (h : s.cache.lookup a = none) :
    stepMemo m s (.call a)
      = (⟨s.st, (a, m.pureOut s.st a) :: s.cache⟩, some (m.pureOut s.st a)) := by
  simp only [stepMemo, h]

theorem stepMemo_mutate (m : Method St Arg Out) (s : MState St Arg Out) (f : St → St) :
    stepMemo m s (.mutate f) = (⟨f s.st, s.cache⟩, none) := rfl

/-- a call on a consistent cache answers like the reference machine -/
theorem stepMemo_call_snd (m : Method St Arg Out) (s : MState St Arg Out) (a : Arg)
    (hs : CacheOk m s) : (stepMemo m s (.call a)).2 = some (m.pureOut s.st a) := by
  cases hl : s.cache.lookup a with
  | none => rw [stepMemo_call_miss m s hl]
  | some o => rw [stepMemo_call_hit m s hl, hs a o (mem_of_lookup_eq_some hl)]

theorem stepMemo_call_st (m : Method St Arg Out) (s : MState St Arg Out) (a : Arg) :
    (stepMemo m s (.call a)).1.st = s.st := by
  cases hl : s.cache.lookup a with
  | none => rw [stepMemo_call_miss m s hl]
  | some o => rw [stepMemo_call_hit m s hl]

theorem stepMemo_call_cacheOk (m : Method St Arg Out) (s : MState St Arg Out) (a : Arg)
    (hs : CacheOk m s) : CacheOk m (stepMemo m s (.call a)).1 := by
  cases hl : s.cache.lookup a with
  | some o => rw [stepMemo_call_hit m s hl]; exact hs
  | none =>
    rw [stepMemo_call_miss m s hl]
    intro b o hb
    rcases List.mem_cons.1 hb with hb | hb
    · cases hb; rfl
    · exact hs b o hb

theorem stepMemo_mutate_cacheOk (m : Method St Arg Out) (s : MState St Arg Out) (f : St → St)
    (hf : Independent m f) (hs : CacheOk m s) : CacheOk m (stepMemo m s (.mutate f)).1 := by
  intro a o h
  show o = m.pureOut (f s.st) a
  rw [hf]; exact hs a o h

/-- the memoising machine started on any consistent cache is indistinguishable from the
reference machine on histories whose mutations the body does not observe -/
theorem runMemo_eq_runPure (m : Method St Arg Out) :
    ∀ (h : List (Op St Arg)) (s : MState St Arg Out), CacheOk m s → HistoryIndependent m h →
      runMemo m s h = runPure m s.st h
  | [], _, _, _ => rfl
  | .call a :: rest, s, hs, hi => by
    have ih := runMemo_eq_runPure m rest (stepMemo m s (.call a)).1
      (stepMemo_call_cacheOk m s a hs) hi
    show (stepMemo m s (.call a)).2 :: runMemo m (stepMemo m s (.call a)).1 rest
       = some (m.pureOut s.st a) :: runPure m s.st rest
    rw [ih, stepMemo_call_snd m s a hs, stepMemo_call_st]
  | .mutate f :: rest, s, hs, hi => by
    have ih := runMemo_eq_runPure m rest (stepMemo m s (.mutate f)).1
      (stepMemo_mutate_cacheOk m s f hi.1 hs) hi.2
    show none :: runMemo m (stepMemo m s (.mutate f)).1 rest = none :: runPure m (f s.st) rest
    rw [ih]; rfl

/-- the two machines on the three-step "call, mutate, call again" history -/
theorem runMemo_stale (m : Method St Arg Out) (st : St) (f : St → St) (a : Arg) :
    runMemo m ⟨st, []⟩ [.call a, .mutate f, .call a]
      = [some (m.pureOut st a), none, some (m.pureOut st a)] := by
  simp [runMemo, stepMemo, List.lookup]

omit [DecidableEq Arg] in
theorem runPure_stale (m : Method St Arg Out) (st : St) (f : St → St) (a : Arg) :
    runPure m st [.call a, .mutate f, .call a]
      = [some (m.pureOut st a), none, some (m.pureOut (f st) a)] := by
  simp [runPure, stepPure]

/-- all mutations of a history belong to the set `F` -/
def BuiltFrom (F : (St → St) → Prop) (h : List (Op St Arg)) : Prop :=
  ∀ f, Op.mutate f ∈ h → F f

omit [DecidableEq Arg] in
theorem historyIndependent_of_builtFrom (m : Method St Arg Out) (F : (St → St) → Prop)
    (hF : ∀ f, F f → Independent m f) :
    ∀ h : List (Op St Arg), BuiltFrom F h → HistoryIndependent m h
  | [], _ => trivial
  | .call _ :: rest, hb =>
    historyIndependent_of_builtFrom m F hF rest (fun f hf => hb f (List.mem_cons_of_mem _ hf))
  | .mutate f :: rest, hb =>
    ⟨hF f (hb f List.mem_cons_self),
     historyIndependent_of_builtFrom m F hF rest (fun g hg => hb g (List.mem_cons_of_mem _ hg))⟩

/-! ### the interleaved machine -/

/-- the initial state: empty cache, all threads idle -/
def cinit : CState Arg Out := ⟨[], fun _ => .idle⟩

/-- replace the phase of thread `t` -/
def setPhase (ph : Nat → Phase Arg Out) (t : Nat) (p : Phase Arg Out) : Nat → Phase Arg Out :=
  fun u => if u = t then p else ph u

omit [DecidableEq Arg] in
theorem setPhase_self (ph : Nat → Phase Arg Out) (t : Nat) (p : Phase Arg Out) :
    setPhase ph t p t = p := by simp [setPhase]

omit [DecidableEq Arg] in
theorem setPhase_ne (ph : Nat → Phase Arg Out) {t u : Nat} (p : Phase Arg Out) (h : u ≠ t) :
    setPhase ph t p u = ph u := by simp [setPhase, h]

theorem cstep_lookup_hit (m : Method St Arg Out) (st : St) (s : CState Arg Out) (t : Nat)
    {a : Arg} {o : Out} (h : s.cache.lookup a = some o) :
    cstep m st s (.lookup t a) = ⟨s.cache, setPhase s.phase t (.done o)⟩ := by
  simp only [cstep, h]; rfl

theorem cstep_lookup_miss (m : Method St Arg Out) (st : St) (s : CState Arg Out) (t : Nat)
    {a : Arg} (h : s.cache.lookup a = none) :
    cstep m st s (.lookup t a) = ⟨s.cache, setPhase s.phase t (.missed a)⟩ := by
  simp only [cstep, h]; rfl

theorem cstep_compute_missed (m : Method St Arg Out) (st : St) (s : CState Arg Out) (t : Nat)
    {a : Arg} (h : s.phase t = .missed a) :
    cstep m st s (.compute t) = ⟨s.cache, setPhase s.phase t (.computed a (m.pureOut st a))⟩ := by
  simp only [cstep, h]; rfl

theorem cstep_compute_other (m : Method St Arg Out) (st : St) (s : CState Arg Out) (t : Nat)
    (h : ∀ a, s.phase t ≠ .missed a) : cstep m st s (.compute t) = s := by
  cases hp : s.phase t with
  | missed a => exact absurd hp (h a)
  | idle => simp only [cstep, hp]
  | computed a o => simp only [cstep, hp]
  | done o => simp only [cstep, hp]

theorem cstep_store_computed (m : Method St Arg Out) (st : St) (s : CState Arg Out) (t : Nat)
    {a : Arg} {o : Out} (h : s.phase t = .computed a o) :
    cstep m st s (.store t) = ⟨(a, o) :: s.cache, setPhase s.phase t (.done o)⟩ := by
  simp only [cstep, h]; rfl

theorem cstep_store_other (m : Method St Arg Out) (st : St) (s : CState Arg Out) (t : Nat)
    (h : ∀ a o, s.phase t ≠ .computed a o) : cstep m st s (.store t) = s := by
  cases hp : s.phase t with
  | computed a o => exact absurd hp (h a o)
  | idle => simp only [cstep, hp]
  | missed a => simp only [cstep, hp]
  | done o => simp only [cstep, hp]

/-- the per-thread clause of `CInv` -/
def PhaseOk (m : Method St Arg Out) (st : St) : Phase Arg Out → Prop
  | .computed a o => o = m.pureOut st a
  | .done o => ∃ a, o = m.pureOut st a
  | _ => True

/-- the invariant of the task statement: the cache and every thread-local value are reference values -/
def CInv (m : Method St Arg Out) (st : St) (s : CState Arg Out) : Prop :=
  (∀ a o, (a, o) ∈ s.cache → o = m.pureOut st a) ∧
  (∀ t, match s.phase t with
        | .computed a o => o = m.pureOut st a
        | .done o => ∃ a, o = m.pureOut st a
        | _ => True)

omit [DecidableEq Arg] in
theorem cinv_iff (m : Method St Arg Out) (st : St) (s : CState Arg Out) :
    CInv m st s ↔ (∀ a o, (a, o) ∈ s.cache → o = m.pureOut st a) ∧ ∀ t, PhaseOk m st (s.phase t) := by
  unfold CInv
  refine and_congr Iff.rfl (forall_congr' fun t => ?_)
  cases s.phase t <;> exact Iff.rfl

omit [DecidableEq Arg] in
theorem cinv_cinit (m : Method St Arg Out) (st : St) : CInv m st (cinit : CState Arg Out) :=
  ⟨fun _ _ h => (by cases h), fun _ => trivial⟩

omit [DecidableEq Arg] in
theorem phaseOk_setPhase (m : Method St Arg Out) (st : St) (ph : Nat → Phase Arg Out) (t : Nat)
    (p : Phase Arg Out) (hp : ∀ u, PhaseOk m st (ph u)) (h : PhaseOk m st p) :
    ∀ u, PhaseOk m st (setPhase ph t p u) := by
  intro u
  by_cases hu : u = t
  · subst hu; rw [setPhase_self]; exact h
  · rw [setPhase_ne _ _ hu]; exact hp u

theorem cstep_preserves (m : Method St Arg Out) (st : St) (s : CState Arg Out) (x : Atom Arg)
    (hs : CInv m st s) : CInv m st (cstep m st s x) := by
  rw [cinv_iff] at hs ⊢
  obtain ⟨hc, hp⟩ := hs
  cases x with
  | lookup t a =>
    cases hl : s.cache.lookup a with
    | some o =>
      rw [cstep_lookup_hit m st s t hl]
      exact ⟨hc, phaseOk_setPhase m st _ _ _ hp ⟨a, hc a o (mem_of_lookup_eq_some hl)⟩⟩
    | none =>
      rw [cstep_lookup_miss m st s t hl]
      exact ⟨hc, phaseOk_setPhase m st _ _ _ hp trivial⟩
  | compute t =>
    by_cases h : ∃ a, s.phase t = .missed a
    · obtain ⟨a, h⟩ := h
      rw [cstep_compute_missed m st s t h]
      exact ⟨hc, phaseOk_setPhase m st _ _ _ hp rfl⟩
    · rw [cstep_compute_other m st s t (fun a e => h ⟨a, e⟩)]
      exact ⟨hc, hp⟩
  | store t =>
    by_cases h : ∃ a o, s.phase t = .computed a o
    · obtain ⟨a, o, h⟩ := h
      have hto : o = m.pureOut st a := by have := hp t; rw [h] at this; exact this
      rw [cstep_store_computed m st s t h]
      refine ⟨fun b p hb => ?_, phaseOk_setPhase m st _ _ _ hp ⟨a, hto⟩⟩
      rcases List.mem_cons.1 hb with hb | hb
      · cases hb; exact hto
      · exact hc b p hb
    · rw [cstep_store_other m st s t (fun a o e => h ⟨a, o, e⟩)]
      exact ⟨hc, hp⟩

theorem crun_preserves (m : Method St Arg Out) (st : St) :
    ∀ (sched : List (Atom Arg)) (s : CState Arg Out), CInv m st s → CInv m st (crun m st s sched)
  | [], _, hs => hs
  | x :: rest, s, hs => crun_preserves m st rest (cstep m st s x) (cstep_preserves m st s x hs)

/-! #### remembering the argument: a ghost "pending argument" per thread -/

/-- ghost update: the argument of the last `lookup` performed by thread `t` -/
def gstep (t : Nat) (g : Option Arg) : Atom Arg → Option Arg
  | .lookup u a => if u = t then some a else g
  | _ => g

/-- the argument of the most recent `lookup t _` in the schedule (`none` if `t` never looked up) -/
def lastLookup (t : Nat) (sched : List (Atom Arg)) : Option Arg := sched.foldl (gstep t) none

/-- per-thread clause of the strong invariant, relative to the last looked-up argument `g` -/
def SPhaseOk (m : Method St Arg Out) (st : St) (g : Option Arg) : Phase Arg Out → Prop
  | .idle => True
  | .missed a => g = some a
  | .computed a o => g = some a ∧ o = m.pureOut st a
  | .done o => ∃ a, g = some a ∧ o = m.pureOut st a

/-- the strong invariant: relative to the ghost `g` (last looked-up argument of each thread), every
thread-local phase talks about *that* argument -/
def SInv (m : Method St Arg Out) (st : St) (g : Nat → Option Arg) (s : CState Arg Out) : Prop :=
  (∀ a o, (a, o) ∈ s.cache → o = m.pureOut st a) ∧ ∀ t, SPhaseOk m st (g t) (s.phase t)

omit [DecidableEq Arg] in
theorem sinv_cinit (m : Method St Arg Out) (st : St) :
    SInv m st (fun _ => none) (cinit : CState Arg Out) :=
  ⟨fun _ _ h => (by cases h), fun _ => trivial⟩

theorem cstep_preserves_sinv (m : Method St Arg Out) (st : St) (g : Nat → Option Arg)
    (s : CState Arg Out) (x : Atom Arg) (hs : SInv m st g s) :
    SInv m st (fun t => gstep t (g t) x) (cstep m st s x) := by
  obtain ⟨hc, hp⟩ := hs
  cases x with
  | lookup t a =>
    have key : ∀ p, SPhaseOk m st (some a) p →
        ∀ u, SPhaseOk m st (gstep u (g u) (.lookup t a)) (setPhase s.phase t p u) := by
      intro p hpp u
      by_cases hu : u = t
      · subst hu; rw [setPhase_self]; simp only [gstep, if_true]; exact hpp
      · have hu' : ¬ t = u := fun e => hu e.symm
        rw [setPhase_ne _ _ hu]; simp only [gstep, hu', if_false]; exact hp u
    cases hl : s.cache.lookup a with
    | some o =>
      rw [cstep_lookup_hit m st s t hl]
      exact ⟨hc, key _ ⟨a, rfl, hc a o (mem_of_lookup_eq_some hl)⟩⟩
    | none =>
      rw [cstep_lookup_miss m st s t hl]
      exact ⟨hc, key _ rfl⟩
  | compute t =>
    by_cases h : ∃ a, s.phase t = .missed a
    · obtain ⟨a, h⟩ := h
      have hta : g t = some a := by have := hp t; rw [h] at this; exact this
      rw [cstep_compute_missed m st s t h]
      refine ⟨hc, fun u => ?_⟩
      show SPhaseOk m st (g u) (setPhase s.phase t _ u)
      by_cases hu : u = t
      · subst hu; rw [setPhase_self]; exact ⟨hta, rfl⟩
      · rw [setPhase_ne _ _ hu]; exact hp u
    · rw [cstep_compute_other m st s t (fun a e => h ⟨a, e⟩)]
      exact ⟨hc, hp⟩
  | store t =>
    by_cases h : ∃ a o, s.phase t = .computed a o
    · obtain ⟨a, o, h⟩ := h
      have hto : g t = some a ∧ o = m.pureOut st a := by have := hp t; rw [h] at this; exact this
      rw [cstep_store_computed m st s t h]
      refine ⟨fun b p hb => ?_, fun u => ?_⟩
      · rcases List.mem_cons.1 hb with hb | hb
        · cases hb; exact hto.2
        · exact hc b p hb
      · show SPhaseOk m st (g u) (setPhase s.phase t _ u)
        by_cases hu : u = t
        · subst hu; rw [setPhase_self]; exact ⟨a, hto.1, hto.2⟩
        · rw [setPhase_ne _ _ hu]; exact hp u
    · rw [cstep_store_other m st s t (fun a o e => h ⟨a, o, e⟩)]
      exact ⟨hc, hp⟩

theorem crun_preserves_sinv (m : Method St Arg Out) (st : St) :
    ∀ (sched : List (Atom Arg)) (g : Nat → Option Arg) (s : CState Arg Out), SInv m st g s →
      SInv m st (fun t => sched.foldl (gstep t) (g t)) (crun m st s sched)
  | [], _, _, hs => hs
  | x :: rest, g, s, hs =>
    crun_preserves_sinv m st rest (fun t => gstep t (g t) x) (cstep m st s x)
      (cstep_preserves_sinv m st g s x hs)

theorem crun_sinv (m : Method St Arg Out) (st : St) (sched : List (Atom Arg)) :
    SInv m st (fun t => lastLookup t sched) (crun m st (cinit : CState Arg Out) sched) :=
  crun_preserves_sinv m st sched (fun _ => none) cinit (sinv_cinit m st)


omit [DecidableEq Arg] in
/-- steps of other threads, and `compute` / `store` steps of `t`, do not change the ghost of `t` -/
theorem foldl_gstep_of_no_lookup (t : Nat) : ∀ (post : List (Atom Arg)) (g : Option Arg),
    (∀ b, Atom.lookup t b ∉ post) → post.foldl (gstep t) g = g
  | [], _, _ => rfl
  | x :: post, g, h => by
    have hpost : ∀ b, Atom.lookup t b ∉ post := fun b hb => h b (List.mem_cons_of_mem _ hb)
    rw [List.foldl_cons]
    have hx : gstep t g x = g := by
      cases x with
      | lookup u b =>
        have hu : ¬ u = t := by
          intro hu; subst hu; exact h b List.mem_cons_self
        simp only [gstep, hu, if_false]
      | compute u => rfl
      | store u => rfl
    rw [hx]
    exact foldl_gstep_of_no_lookup t post g hpost

omit [DecidableEq Arg] in
/-- the last lookup of `t` in `pre ++ lookup t a :: post`, when `t` does not look up again in `post` -/
theorem lastLookup_of_split (t : Nat) (a : Arg) (pre post : List (Atom Arg))
    (h : ∀ b, Atom.lookup t b ∉ post) : lastLookup t (pre ++ Atom.lookup t a :: post) = some a := by
  unfold lastLookup
  rw [List.foldl_append, List.foldl_cons, foldl_gstep_of_no_lookup t post _ h]
  simp only [gstep, if_true]

/-! ### the keyed machine (cache indexed by `key a` instead of `a`) -/

section Keyed

variable {St Arg K Out : Type} [DecidableEq K]

/-- every stored result is the one the body would compute now, for EVERY argument with that key -/
def KCacheOk (m : KMethod St Arg K Out) (s : KState St K Out) : Prop :=
  ∀ k o, (k, o) ∈ s.cache → ∀ a, m.key a = k → o = m.pureOut s.st a

omit [DecidableEq K] in
theorem kcacheOk_empty (m : KMethod St Arg K Out) (st : St) : KCacheOk m ⟨st, []⟩ := by
  intro k o h; cases h

theorem stepKeyed_call_hit (m : KMethod St Arg K Out) (s : KState St K Out) {a : Arg} {o : Out}
    (h : s.cache.lookup (m.key a) = some o) : stepKeyed m s (.call a) = (s, some o) := by
  simp only [stepKeyed, h]

theorem stepKeyed_call_miss (m : KMethod St Arg K Out) (s : KState St K Out) {a : Arg}
    (h : s.cache.lookup (m.key a) = none) :
    stepKeyed m s (.call a)
      = (⟨s.st, (m.key a, m.pureOut s.st a) :: s.cache⟩, some (m.pureOut s.st a)) := by
  simp only [stepKeyed, h]

theorem stepKeyed_mutate (m : KMethod St Arg K Out) (s : KState St K Out) (f : St → St) :
    stepKeyed m s (.mutate f) = (⟨f s.st, s.cache⟩, none) := rfl

/-- a call on a consistent cache answers like the reference machine -/
theorem stepKeyed_call_snd (m : KMethod St Arg K Out) (s : KState St K Out) (a : Arg)
    (hs : KCacheOk m s) : (stepKeyed m s (.call a)).2 = some (m.pureOut s.st a) := by
  cases hl : s.cache.lookup (m.key a) with
  | none => rw [stepKeyed_call_miss m s hl]
  | some o => rw [stepKeyed_call_hit m s hl, hs _ o (mem_of_lookup_eq_some hl) a rfl]

theorem stepKeyed_call_st (m : KMethod St Arg K Out) (s : KState St K Out) (a : Arg) :
    (stepKeyed m s (.call a)).1.st = s.st := by
  cases hl : s.cache.lookup (m.key a) with
  | none => rw [stepKeyed_call_miss m s hl]
  | some o => rw [stepKeyed_call_hit m s hl]

/-- this is where `KeyRespects` is used: the value computed for `a` is stored for every argument
with the key of `a` -/
theorem stepKeyed_call_kcacheOk (m : KMethod St Arg K Out) (hk : KeyRespects m)
    (s : KState St K Out) (a : Arg) (hs : KCacheOk m s) : KCacheOk m (stepKeyed m s (.call a)).1 := by
  cases hl : s.cache.lookup (m.key a) with
  | some o => rw [stepKeyed_call_hit m s hl]; exact hs
  | none =>
    rw [stepKeyed_call_miss m s hl]
    intro k o hb b hbk
    rcases List.mem_cons.1 hb with hb | hb
    · cases hb; exact hk s.st a b hbk.symm
    · exact hs k o hb b hbk

theorem stepKeyed_mutate_kcacheOk (m : KMethod St Arg K Out) (s : KState St K Out) (f : St → St)
    (hf : Independent m.toMethod f) (hs : KCacheOk m s) :
    KCacheOk m (stepKeyed m s (.mutate f)).1 := by
  intro k o h a hak
  show o = m.pureOut (f s.st) a
  rw [show m.pureOut (f s.st) a = m.pureOut s.st a from hf s.st a]; exact hs k o h a hak

/-- the keyed machine started on any consistent cache is indistinguishable from the reference
machine, provided the result is a function of the key and the mutations are invisible to the body -/
theorem runKeyed_eq_runPure (m : KMethod St Arg K Out) (hk : KeyRespects m) :
    ∀ (h : List (Op St Arg)) (s : KState St K Out), KCacheOk m s →
      HistoryIndependent m.toMethod h → runKeyed m s h = runPure m.toMethod s.st h
  | [], _, _, _ => rfl
  | .call a :: rest, s, hs, hi => by
    have ih := runKeyed_eq_runPure m hk rest (stepKeyed m s (.call a)).1
      (stepKeyed_call_kcacheOk m hk s a hs) hi
    show (stepKeyed m s (.call a)).2 :: runKeyed m (stepKeyed m s (.call a)).1 rest
       = some (m.pureOut s.st a) :: runPure m.toMethod s.st rest
    rw [ih, stepKeyed_call_snd m s a hs, stepKeyed_call_st]
  | .mutate f :: rest, s, hs, hi => by
    have ih := runKeyed_eq_runPure m hk rest (stepKeyed m s (.mutate f)).1
      (stepKeyed_mutate_kcacheOk m s f hi.1 hs) hi.2
    show none :: runKeyed m (stepKeyed m s (.mutate f)).1 rest
       = none :: runPure m.toMethod (f s.st) rest
    rw [ih]; rfl

/-- the keyed machine on two calls whose arguments share a key: the second call is a hit and
returns the value computed for the FIRST argument -/
theorem runKeyed_collide (m : KMethod St Arg K Out) (st : St) {a b : Arg} (hab : m.key a = m.key b) :
    runKeyed m ⟨st, []⟩ [.call a, .call b] = [some (m.pureOut st a), some (m.pureOut st a)] := by
  simp [runKeyed, stepKeyed, List.lookup, hab]

omit [DecidableEq K] in
theorem runPure_two_calls (m : KMethod St Arg K Out) (st : St) (a b : Arg) :
    runPure m.toMethod st [.call a, .call b] = [some (m.pureOut st a), some (m.pureOut st b)] := by
  simp [runPure, stepPure, KMethod.toMethod]

/-- the keyed machine on the "call, mutate, call again" history (same as the whole-argument one) -/
theorem runKeyed_stale (m : KMethod St Arg K Out) (st : St) (f : St → St) (a : Arg) :
    runKeyed m ⟨st, []⟩ [.call a, .mutate f, .call a]
      = [some (m.pureOut st a), none, some (m.pureOut st a)] := by
  simp [runKeyed, stepKeyed, List.lookup]

omit [DecidableEq K] in
/-- a history of calls only contains no mutation -/
theorem historyIndependent_map_call (m : Method St Arg Out) :
    ∀ as : List Arg, HistoryIndependent m (as.map Op.call)
  | [] => trivial
  | _ :: as => historyIndependent_map_call m as

/-- with `key := id` the keyed machine IS the whole-argument machine, from every cache -/
theorem runKeyed_id_eq_runMemo [DecidableEq Arg] (f : St → Arg → Out) :
    ∀ (h : List (Op St Arg)) (st : St) (c : List (Arg × Out)),
      runKeyed (⟨f, id⟩ : KMethod St Arg Arg Out) ⟨st, c⟩ h = runMemo ⟨f⟩ ⟨st, c⟩ h
  | [], _, _ => rfl
  | .call a :: rest, st, c => by
    let km : KMethod St Arg Arg Out := ⟨f, id⟩
    let mm : Method St Arg Out := ⟨f⟩
    show (stepKeyed km ⟨st, c⟩ (.call a)).2 :: runKeyed km (stepKeyed km ⟨st, c⟩ (.call a)).1 rest
       = (stepMemo mm ⟨st, c⟩ (.call a)).2 :: runMemo mm (stepMemo mm ⟨st, c⟩ (.call a)).1 rest
    cases hl : c.lookup a with
    | some o =>
      have h1 : stepKeyed km ⟨st, c⟩ (.call a) = (⟨st, c⟩, some o) :=
        stepKeyed_call_hit km ⟨st, c⟩ hl
      have h2 : stepMemo mm ⟨st, c⟩ (.call a) = (⟨st, c⟩, some o) :=
        stepMemo_call_hit mm ⟨st, c⟩ hl
      rw [h1, h2]
      exact congrArg _ (runKeyed_id_eq_runMemo f rest st c)
    | none =>
      have h1 : stepKeyed km ⟨st, c⟩ (.call a) = (⟨st, (a, f st a) :: c⟩, some (f st a)) :=
        stepKeyed_call_miss km ⟨st, c⟩ hl
      have h2 : stepMemo mm ⟨st, c⟩ (.call a) = (⟨st, (a, f st a) :: c⟩, some (f st a)) :=
        stepMemo_call_miss mm ⟨st, c⟩ hl
      rw [h1, h2]
      exact congrArg _ (runKeyed_id_eq_runMemo f rest st ((a, f st a) :: c))
  | .mutate g :: rest, st, c => by
    show none :: runKeyed (⟨f, id⟩ : KMethod St Arg Arg Out) ⟨g st, c⟩ rest
       = none :: runMemo ⟨f⟩ ⟨g st, c⟩ rest
    exact congrArg _ (runKeyed_id_eq_runMemo f rest (g st) c)

end Keyed

end BipVerif.Model.Memo
