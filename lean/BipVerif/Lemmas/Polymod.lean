/-
The Bech32 / Bech32m / CashAddr checksum registers.

Both polymods are instances of one shift-register step
`c ↦ ((c mod 2^W) <<< 5) ^^^ v ^^^ G (c >>> W)`   (W = 25 resp. 35).
XOR-ing a value `d < 2^W` into the state only XORs `d <<< 5` into the next state (no feedback), so
the last `(W+5)/5` symbols enter the final state linearly. This gives the checksum identities
`verify (data ++ checksum data) = true`. With a GF(2)-linear `G` the whole register is linear.
-/
import Mathlib.Tactic.Ring
import BipVerif.Model.Bech32

namespace BipVerif.Model
open BipVerif

/-! ### generic shift register -/

/-- one step of a checksum register of width `W + 5` with feedback `G`. -/
def pmStep (W : Nat) (G : Nat → Nat) (c v : Nat) : Nat :=
  ((c &&& (2 ^ W - 1)) <<< 5) ^^^ v ^^^ G (c >>> W)

def pmRun (W : Nat) (G : Nat → Nat) (c : Nat) (l : List Nat) : Nat := l.foldl (pmStep W G) c

theorem pmRun_append (W : Nat) (G : Nat → Nat) (c : Nat) (a b : List Nat) :
    pmRun W G c (a ++ b) = pmRun W G (pmRun W G c a) b := by
  simp [pmRun, List.foldl_append]

theorem pmStep_lt (W : Nat) (G : Nat → Nat) (hG : ∀ x, G x < 2 ^ (W + 5)) (c v : Nat)
    (hv : v < 2 ^ (W + 5)) : pmStep W G c v < 2 ^ (W + 5) := by
  unfold pmStep
  apply Nat.xor_lt_two_pow (Nat.xor_lt_two_pow _ hv) (hG _)
  rw [Nat.and_two_pow_sub_one_eq_mod, Nat.shiftLeft_eq, pow_add]
  exact Nat.mul_lt_mul_of_pos_right (Nat.mod_lt _ (Nat.two_pow_pos W)) (by norm_num)

theorem pmStep_value (W : Nat) (G : Nat → Nat) (c v : Nat) :
    pmStep W G c v = pmStep W G c 0 ^^^ v := by
  unfold pmStep
  rw [Nat.xor_zero, Nat.xor_assoc, Nat.xor_assoc, Nat.xor_comm v]

/-- XOR-ing a small value into the state does not touch the feedback. -/
theorem pmStep_xor_low (W : Nat) (G : Nat → Nat) (c d v : Nat) (hd : d < 2 ^ W) :
    pmStep W G (c ^^^ d) v = pmStep W G c v ^^^ (d <<< 5) := by
  unfold pmStep
  have h1 : (c ^^^ d) >>> W = c >>> W := by
    rw [Nat.shiftRight_xor_distrib, Nat.shiftRight_eq_div_pow d, Nat.div_eq_of_lt hd, Nat.xor_zero]
  have h2 : (c ^^^ d) &&& (2 ^ W - 1) = (c &&& (2 ^ W - 1)) ^^^ d := by
    rw [Nat.and_xor_distrib_right, Nat.and_two_pow_sub_one_eq_mod d, Nat.mod_eq_of_lt hd]
  rw [h1, h2, Nat.shiftLeft_xor_distrib]
  simp only [Nat.xor_assoc]
  congr 1
  rw [Nat.xor_comm (d <<< 5), Nat.xor_assoc]

/-- Horner packing of 5-bit symbols on top of `d`. -/
def pack5 (d : Nat) (s : List Nat) : Nat := s.foldl (fun a x => (a <<< 5) ^^^ x) d

/-- **the trailing symbols enter linearly** (as long as they fit the register). -/
theorem pmRun_tail (W : Nat) (G : Nat → Nat) :
    ∀ (s : List Nat) (c d : Nat), 5 * s.length ≤ W + 5 → d < 2 ^ (W + 5 - 5 * s.length) →
      (∀ x ∈ s, x < 32) →
      pmRun W G (c ^^^ d) s = pmRun W G c (List.replicate s.length 0) ^^^ pack5 d s := by
  intro s
  induction s with
  | nil => intro c d _ _ _; simp [pmRun, pack5]
  | cons x s ih =>
    intro c d hlen hd hx
    simp only [List.length_cons] at hlen hd
    have hdW : d < 2 ^ W :=
      Nat.lt_of_lt_of_le hd (Nat.pow_le_pow_right (by omega) (by omega))
    have hx32 : x < 32 := hx x (by simp)
    have hd' : (d <<< 5) ^^^ x < 2 ^ (W + 5 - 5 * s.length) := by
      apply Nat.xor_lt_two_pow
      · rw [Nat.shiftLeft_eq]
        have : W + 5 - 5 * s.length = (W + 5 - 5 * (s.length + 1)) + 5 := by omega
        rw [this, pow_add]
        exact Nat.mul_lt_mul_of_pos_right hd (by norm_num)
      · exact Nat.lt_of_lt_of_le hx32
          (by
            have : (32 : Nat) = 2 ^ 5 := by norm_num
            rw [this]; exact Nat.pow_le_pow_right (by omega) (by omega))
    have hstep : pmStep W G (c ^^^ d) x = pmStep W G c 0 ^^^ ((d <<< 5) ^^^ x) := by
      rw [pmStep_xor_low W G c d x hdW, pmStep_value W G c x, Nat.xor_assoc, Nat.xor_comm x]
    have := ih (pmStep W G c 0) ((d <<< 5) ^^^ x) (by omega) hd' (fun y hy => hx y (by simp [hy]))
    simp only [pmRun, List.foldl_cons, List.length_cons, List.replicate_succ, pack5] at this ⊢
    rw [hstep, this]

theorem pmRun_lt (W : Nat) (G : Nat → Nat) (hG : ∀ x, G x < 2 ^ (W + 5)) :
    ∀ (l : List Nat) (c : Nat), c < 2 ^ (W + 5) → (∀ x ∈ l, x < 2 ^ (W + 5)) →
      pmRun W G c l < 2 ^ (W + 5) := by
  intro l
  induction l with
  | nil => intro c hc _; simpa [pmRun] using hc
  | cons x l ih =>
    intro c _ hx
    simp only [pmRun, List.foldl_cons]
    exact ih _ (pmStep_lt W G hG c x (hx x (by simp))) (fun y hy => hx y (by simp [hy]))

/-- after at least one step the state fits the register whatever the start state was. -/
theorem pmRun_lt' (W : Nat) (G : Nat → Nat) (hG : ∀ x, G x < 2 ^ (W + 5)) (l : List Nat) (c : Nat)
    (hne : l ≠ []) (hl : ∀ x ∈ l, x < 2 ^ (W + 5)) : pmRun W G c l < 2 ^ (W + 5) := by
  cases l with
  | nil => exact absurd rfl hne
  | cons x l =>
    have := pmRun_lt W G hG l (pmStep W G c x) (pmStep_lt W G hG c x (hl x (by simp)))
      (fun y hy => hl y (by simp [hy]))
    simpa [pmRun] using this

/-! ### extracting 5-bit groups -/

theorem shift_chunk (x k : Nat) : ((x >>> (k + 5)) <<< 5) ^^^ ((x >>> k) &&& 31) = x >>> k := by
  apply Nat.eq_of_testBit_eq
  intro i
  have h31 : (31 : Nat) = 2 ^ 5 - 1 := by norm_num
  rw [h31]
  simp only [Nat.testBit_xor, Nat.testBit_shiftLeft, Nat.testBit_shiftRight, Nat.testBit_and,
    Nat.testBit_two_pow_sub_one]
  by_cases h : i < 5
  · have h' : ¬ 5 ≤ i := by omega
    simp [h, h']
  · have h' : 5 ≤ i := by omega
    have e : k + 5 + (i - 5) = k + i := by omega
    simp [h, h', e]

/-! ### conditional-XOR folds (the feedback functions) -/

theorem foldl_condxor {ι} (P : ι → Prop) [DecidablePred P] (g : ι → Nat) :
    ∀ (l : List ι) (start : Nat),
      l.foldl (fun c i => if P i then c ^^^ g i else c) start
        = start ^^^ l.foldl (fun c i => if P i then c ^^^ g i else c) 0 := by
  intro l
  induction l with
  | nil => simp
  | cons a t ih =>
    intro start
    simp only [List.foldl_cons]
    rw [ih, ih (if P a then 0 ^^^ g a else 0)]
    by_cases h : P a
    · simp [h, Nat.xor_assoc]
    · simp [h]

theorem foldl_condxor_lt {ι} (P : ι → Prop) [DecidablePred P] (g : ι → Nat) (n : Nat) :
    ∀ (l : List ι) (start : Nat), (∀ i ∈ l, g i < 2 ^ n) → start < 2 ^ n →
      l.foldl (fun c i => if P i then c ^^^ g i else c) start < 2 ^ n := by
  intro l
  induction l with
  | nil => intro s _ hs; simpa using hs
  | cons a t ih =>
    intro start hg hs
    simp only [List.foldl_cons]
    apply ih _ (fun i hi => hg i (by simp [hi]))
    by_cases h : P a
    · simp only [h, if_true]; exact Nat.xor_lt_two_pow hs (hg a (by simp))
    · simpa [h] using hs

/-! ### Bech32 / Bech32m -/

/-- feedback of the 30-bit Bech32 register. -/
def bech32G (top : Nat) : Nat :=
  (List.range 5).foldl
    (fun c i => if (top >>> i) &&& 1 = 1 then c ^^^ bech32Generator.getD i 0 else c) 0

theorem bech32G_lt (top : Nat) : bech32G top < 2 ^ (25 + 5) := by
  unfold bech32G
  apply foldl_condxor_lt (fun i => (top >>> i) &&& 1 = 1) (fun i => bech32Generator.getD i 0) 30
  · decide
  · norm_num

theorem bech32PolyMod_eq (values : List Nat) :
    bech32PolyMod values = pmRun 25 bech32G 1 values := by
  unfold bech32PolyMod pmRun
  congr 1
  funext chk value
  simp only []
  rw [foldl_condxor (fun i => (chk >>> 25 >>> i) &&& 1 = 1) (fun i => bech32Generator.getD i 0)]
  rfl

theorem bech32Checksum_eq (hrp : List Char) (data : List Nat) (m : Bool) :
    bech32Checksum hrp data m =
      let pm := bech32PolyMod (bech32HrpExpand hrp ++ data ++ [0,0,0,0,0,0]) ^^^ bech32Const m
      [(pm >>> 25) &&& 31, (pm >>> 20) &&& 31, (pm >>> 15) &&& 31, (pm >>> 10) &&& 31,
        (pm >>> 5) &&& 31, (pm >>> 0) &&& 31] := rfl

theorem pack5_six (pm : Nat) (h : pm < 2 ^ 30) :
    pack5 0 [(pm >>> 25) &&& 31, (pm >>> 20) &&& 31, (pm >>> 15) &&& 31, (pm >>> 10) &&& 31,
        (pm >>> 5) &&& 31, (pm >>> 0) &&& 31] = pm := by
  have h0 : pm >>> 30 = 0 := by
    rw [Nat.shiftRight_eq_div_pow, Nat.div_eq_of_lt h]
  have key : pack5 (pm >>> 30) [(pm >>> 25) &&& 31, (pm >>> 20) &&& 31, (pm >>> 15) &&& 31,
      (pm >>> 10) &&& 31, (pm >>> 5) &&& 31, (pm >>> 0) &&& 31] = pm := by
    simp only [pack5, List.foldl_cons, List.foldl_nil]
    rw [shift_chunk pm 25, shift_chunk pm 20, shift_chunk pm 15, shift_chunk pm 10,
      shift_chunk pm 5, shift_chunk pm 0, Nat.shiftRight_zero]
  rwa [h0] at key

theorem bech32Const_lt (m : Bool) : bech32Const m < 2 ^ 30 := by
  cases m <;> simp [bech32Const]

theorem length_bech32Checksum (hrp : List Char) (data : List Nat) (m : Bool) :
    (bech32Checksum hrp data m).length = 6 := by simp [bech32Checksum]

theorem bech32Checksum_lt (hrp : List Char) (data : List Nat) (m : Bool) :
    ∀ x ∈ bech32Checksum hrp data m, x < 32 := by
  intro x hx
  simp only [bech32Checksum, List.mem_map] at hx
  obtain ⟨i, _, rfl⟩ := hx
  exact Nat.lt_of_le_of_lt Nat.and_le_right (by norm_num)

/-- six trailing symbols that steer the 30-bit register from `c` to `k`. -/
theorem pm6_identity (G : Nat → Nat) (hG : ∀ x, G x < 2 ^ (25 + 5)) (c k pm : Nat)
    (hk : k < 2 ^ 30) (hpm : pm = pmRun 25 G c [0, 0, 0, 0, 0, 0] ^^^ k) :
    pmRun 25 G c [(pm >>> 25) &&& 31, (pm >>> 20) &&& 31, (pm >>> 15) &&& 31, (pm >>> 10) &&& 31,
        (pm >>> 5) &&& 31, (pm >>> 0) &&& 31] = k := by
  have hz : pmRun 25 G c [0, 0, 0, 0, 0, 0] < 2 ^ 30 :=
    pmRun_lt' 25 G hG _ c (by simp) (by simp)
  have hlt : pm < 2 ^ 30 := by rw [hpm]; exact Nat.xor_lt_two_pow hz hk
  have htail := pmRun_tail 25 G
    [(pm >>> 25) &&& 31, (pm >>> 20) &&& 31, (pm >>> 15) &&& 31, (pm >>> 10) &&& 31,
        (pm >>> 5) &&& 31, (pm >>> 0) &&& 31] c 0 (by simp) (by simp)
    (by
      intro x hx
      simp only [List.mem_cons, List.mem_nil_iff, or_false] at hx
      rcases hx with rfl | rfl | rfl | rfl | rfl | rfl <;>
        exact Nat.lt_of_le_of_lt Nat.and_le_right (by norm_num))
  rw [Nat.xor_zero] at htail
  rw [htail, pack5_six pm hlt]
  simp only [List.length_cons, List.length_nil, List.replicate_succ, List.replicate_zero]
  rw [hpm, ← Nat.xor_assoc, Nat.xor_self, Nat.zero_xor]

/-- **Bech32 / Bech32m checksum identity**: data followed by its checksum verifies. -/
theorem bech32Verify_checksum (hrp : List Char) (data : List Nat) (m : Bool) :
    bech32Verify hrp (data ++ bech32Checksum hrp data m) m = true := by
  unfold bech32Verify
  rw [beq_iff_eq, bech32Checksum_eq, ← List.append_assoc]
  generalize bech32HrpExpand hrp ++ data = v
  simp only [bech32PolyMod_eq, pmRun_append]
  exact pm6_identity bech32G bech32G_lt _ _ _ (bech32Const_lt m) rfl

/-! ### CashAddr (40-bit register) -/

/-- feedback of the 40-bit CashAddr register. -/
def bchG (top : Nat) : Nat :=
  bchGenerator.foldl (fun c g => if top &&& g.1 ≠ 0 then c ^^^ g.2 else c) 0

theorem bchG_lt (top : Nat) : bchG top < 2 ^ (35 + 5) := by
  unfold bchG
  apply foldl_condxor_lt (fun g : Nat × Nat => top &&& g.1 ≠ 0) (fun g => g.2) 40
  · decide
  · norm_num

theorem bchPolyMod_eq (values : List Nat) :
    bchPolyMod values = pmRun 35 bchG 1 values ^^^ 1 := by
  unfold bchPolyMod pmRun
  congr 2
  funext chk value
  simp only []
  rw [foldl_condxor (fun g : Nat × Nat => (chk >>> 35) &&& g.1 ≠ 0) (fun g => g.2)]
  rfl

theorem bchChecksum_eq (hrp : List Char) (data : List Nat) :
    bchChecksum hrp data =
      let pm := bchPolyMod (bchHrpExpand hrp ++ data ++ [0,0,0,0,0,0,0,0])
      [(pm >>> 35) &&& 31, (pm >>> 30) &&& 31, (pm >>> 25) &&& 31, (pm >>> 20) &&& 31,
        (pm >>> 15) &&& 31, (pm >>> 10) &&& 31, (pm >>> 5) &&& 31, (pm >>> 0) &&& 31] := rfl

theorem pack5_eight (pm : Nat) (h : pm < 2 ^ 40) :
    pack5 0 [(pm >>> 35) &&& 31, (pm >>> 30) &&& 31, (pm >>> 25) &&& 31, (pm >>> 20) &&& 31,
        (pm >>> 15) &&& 31, (pm >>> 10) &&& 31, (pm >>> 5) &&& 31, (pm >>> 0) &&& 31] = pm := by
  have h0 : pm >>> 40 = 0 := by
    rw [Nat.shiftRight_eq_div_pow, Nat.div_eq_of_lt h]
  have key : pack5 (pm >>> 40) [(pm >>> 35) &&& 31, (pm >>> 30) &&& 31, (pm >>> 25) &&& 31,
      (pm >>> 20) &&& 31, (pm >>> 15) &&& 31, (pm >>> 10) &&& 31, (pm >>> 5) &&& 31,
      (pm >>> 0) &&& 31] = pm := by
    simp only [pack5, List.foldl_cons, List.foldl_nil]
    rw [shift_chunk pm 35, shift_chunk pm 30, shift_chunk pm 25, shift_chunk pm 20,
      shift_chunk pm 15, shift_chunk pm 10, shift_chunk pm 5, shift_chunk pm 0,
      Nat.shiftRight_zero]
  rwa [h0] at key

theorem length_bchChecksum (hrp : List Char) (data : List Nat) :
    (bchChecksum hrp data).length = 8 := by simp [bchChecksum]

theorem bchChecksum_lt (hrp : List Char) (data : List Nat) :
    ∀ x ∈ bchChecksum hrp data, x < 32 := by
  intro x hx
  simp only [bchChecksum, List.mem_map] at hx
  obtain ⟨i, _, rfl⟩ := hx
  exact Nat.lt_of_le_of_lt Nat.and_le_right (by norm_num)

/-- eight trailing symbols that steer the 40-bit register from `c` to `k`. -/
theorem pm8_identity (G : Nat → Nat) (hG : ∀ x, G x < 2 ^ (35 + 5)) (c k pm : Nat)
    (hk : k < 2 ^ 40) (hpm : pm = pmRun 35 G c [0, 0, 0, 0, 0, 0, 0, 0] ^^^ k) :
    pmRun 35 G c [(pm >>> 35) &&& 31, (pm >>> 30) &&& 31, (pm >>> 25) &&& 31, (pm >>> 20) &&& 31,
        (pm >>> 15) &&& 31, (pm >>> 10) &&& 31, (pm >>> 5) &&& 31, (pm >>> 0) &&& 31] = k := by
  have hz : pmRun 35 G c [0, 0, 0, 0, 0, 0, 0, 0] < 2 ^ 40 :=
    pmRun_lt' 35 G hG _ c (by simp) (by simp)
  have hlt : pm < 2 ^ 40 := by rw [hpm]; exact Nat.xor_lt_two_pow hz hk
  have htail := pmRun_tail 35 G
    [(pm >>> 35) &&& 31, (pm >>> 30) &&& 31, (pm >>> 25) &&& 31, (pm >>> 20) &&& 31,
        (pm >>> 15) &&& 31, (pm >>> 10) &&& 31, (pm >>> 5) &&& 31, (pm >>> 0) &&& 31]
    c 0 (by simp) (by simp)
    (by
      intro x hx
      simp only [List.mem_cons, List.mem_nil_iff, or_false] at hx
      rcases hx with rfl | rfl | rfl | rfl | rfl | rfl | rfl | rfl <;>
        exact Nat.lt_of_le_of_lt Nat.and_le_right (by norm_num))
  rw [Nat.xor_zero] at htail
  rw [htail, pack5_eight pm hlt]
  simp only [List.length_cons, List.length_nil, List.replicate_succ, List.replicate_zero]
  rw [hpm, ← Nat.xor_assoc, Nat.xor_self, Nat.zero_xor]

/-- **CashAddr checksum identity**: data followed by its checksum verifies. -/
theorem bchVerify_checksum (hrp : List Char) (data : List Nat) :
    bchVerify hrp (data ++ bchChecksum hrp data) = true := by
  unfold bchVerify
  rw [beq_iff_eq, bchChecksum_eq, ← List.append_assoc]
  generalize bchHrpExpand hrp ++ data = v
  simp only [bchPolyMod_eq, pmRun_append]
  rw [pm8_identity bchG bchG_lt _ 1 _ (by norm_num) rfl]
  rfl

/-! ### 4. GF(2)-linearity -/

theorem pmStep_linear (W : Nat) (G : Nat → Nat) (hlin : ∀ x y, G (x ^^^ y) = G x ^^^ G y)
    (c1 c2 v w : Nat) :
    pmStep W G (c1 ^^^ c2) (v ^^^ w) = pmStep W G c1 v ^^^ pmStep W G c2 w := by
  unfold pmStep
  rw [Nat.shiftRight_xor_distrib, hlin, Nat.and_xor_distrib_right, Nat.shiftLeft_xor_distrib]
  ac_rfl

/-- the register is linear in (start state, symbol string). -/
theorem pmRun_linear (W : Nat) (G : Nat → Nat) (hlin : ∀ x y, G (x ^^^ y) = G x ^^^ G y) :
    ∀ (a b : List Nat) (c1 c2 : Nat), a.length = b.length →
      pmRun W G (c1 ^^^ c2) (List.zipWith (· ^^^ ·) a b) = pmRun W G c1 a ^^^ pmRun W G c2 b := by
  intro a
  induction a with
  | nil =>
    intro b c1 c2 h
    have : b = [] := List.eq_nil_of_length_eq_zero h.symm
    subst this; rfl
  | cons x a ih =>
    intro b c1 c2 h
    cases b with
    | nil => simp at h
    | cons y b =>
      simp only [List.zipWith_cons_cons, pmRun, List.foldl_cons]
      rw [pmStep_linear W G hlin]
      exact ih b _ _ (by simpa using h)

theorem zipWith_xor_zeros (l : List Nat) :
    List.zipWith (· ^^^ ·) l (List.replicate l.length 0) = l := by
  induction l with
  | nil => rfl
  | cons a t ih => simp [List.replicate_succ, ih]

/-- affine form: a register started in any state `c`. -/
theorem pmRun_affine (W : Nat) (G : Nat → Nat) (hlin : ∀ x y, G (x ^^^ y) = G x ^^^ G y)
    (a b : List Nat) (c : Nat) (h : a.length = b.length) :
    pmRun W G c (List.zipWith (· ^^^ ·) a b)
      = pmRun W G c a ^^^ pmRun W G c b ^^^ pmRun W G c (List.replicate a.length 0) := by
  have hz : List.zipWith (· ^^^ ·) (List.zipWith (· ^^^ ·) a b) (List.replicate a.length 0)
      = List.zipWith (· ^^^ ·) a b := by
    have := zipWith_xor_zeros (List.zipWith (· ^^^ ·) a b)
    rwa [List.length_zipWith, ← h, Nat.min_self] at this
  have hc : c = (c ^^^ c) ^^^ c := by rw [Nat.xor_self, Nat.zero_xor]
  conv_lhs => rw [hc, ← hz]
  rw [pmRun_linear W G hlin _ _ _ _ (by simp [← h]), pmRun_linear W G hlin a b c c h]

theorem foldl_condxor_linear {ι} (P : ι → Nat → Prop) [∀ i x, Decidable (P i x)] (g : ι → Nat)
    (l : List ι) (hP : ∀ i ∈ l, ∀ x y, P i (x ^^^ y) ↔ ¬ (P i x ↔ P i y)) (x y : Nat) :
    l.foldl (fun c i => if P i (x ^^^ y) then c ^^^ g i else c) 0
      = l.foldl (fun c i => if P i x then c ^^^ g i else c) 0
        ^^^ l.foldl (fun c i => if P i y then c ^^^ g i else c) 0 := by
  induction l with
  | nil => simp
  | cons a t ih =>
    simp only [List.foldl_cons]
    rw [foldl_condxor (fun i => P i (x ^^^ y)) g t, foldl_condxor (fun i => P i x) g t,
      foldl_condxor (fun i => P i y) g t, ih (fun i hi => hP i (by simp [hi]))]
    have ha := hP a (by simp) x y
    generalize t.foldl (fun c i => if P i x then c ^^^ g i else c) 0 = p
    generalize t.foldl (fun c i => if P i y then c ^^^ g i else c) 0 = q
    by_cases h1 : P a x <;> by_cases h2 : P a y
    · have h3 : ¬ P a (x ^^^ y) := by rw [ha]; simp [h1, h2]
      simp only [if_pos h1, if_pos h2, if_neg h3, Nat.zero_xor]
      have : g a ^^^ p ^^^ (g a ^^^ q) = (g a ^^^ g a) ^^^ (p ^^^ q) := by ac_rfl
      rw [this, Nat.xor_self, Nat.zero_xor]
    · have h3 : P a (x ^^^ y) := by rw [ha]; simp [h1, h2]
      simp only [if_pos h1, if_neg h2, if_pos h3, Nat.zero_xor]
      ac_rfl
    · have h3 : P a (x ^^^ y) := by rw [ha]; simp [h1, h2]
      simp only [if_neg h1, if_pos h2, if_pos h3, Nat.zero_xor]
      ac_rfl
    · have h3 : ¬ P a (x ^^^ y) := by rw [ha]; simp [h1, h2]
      simp only [if_neg h1, if_neg h2, if_neg h3, Nat.zero_xor]

theorem bech32G_linear (x y : Nat) : bech32G (x ^^^ y) = bech32G x ^^^ bech32G y := by
  unfold bech32G
  apply foldl_condxor_linear (fun i top => (top >>> i) &&& 1 = 1)
    (fun i => bech32Generator.getD i 0)
  intro i _ x y
  simp only [Nat.shiftRight_xor_distrib, Nat.and_one_is_mod]
  rcases Nat.mod_two_eq_zero_or_one (x >>> i) with h1 | h1 <;>
    rcases Nat.mod_two_eq_zero_or_one (y >>> i) with h2 | h2 <;> simp [h1, h2]

theorem and_two_pow_ne_zero (x j : Nat) : x &&& 2 ^ j ≠ 0 ↔ x.testBit j = true := by
  have h : x &&& 2 ^ j = if x.testBit j then 2 ^ j else 0 := by
    apply Nat.eq_of_testBit_eq
    intro i
    by_cases hj : j = i
    · subst hj
      cases hx : x.testBit j <;> simp [Nat.testBit_and, hx]
    · cases hx : x.testBit j <;> simp [Nat.testBit_and, hj]
  rw [h]
  cases hx : x.testBit j
  · simp
  · simp

theorem bchG_linear (x y : Nat) : bchG (x ^^^ y) = bchG x ^^^ bchG y := by
  unfold bchG
  apply foldl_condxor_linear (fun (g : Nat × Nat) top => top &&& g.1 ≠ 0) (fun g => g.2)
  intro g hg x y
  have hpow : ∃ j, g.1 = 2 ^ j := by
    simp only [bchGenerator, List.mem_cons, List.mem_nil_iff, or_false] at hg
    rcases hg with rfl | rfl | rfl | rfl | rfl
    · exact ⟨0, rfl⟩
    · exact ⟨1, rfl⟩
    · exact ⟨2, rfl⟩
    · exact ⟨3, rfl⟩
    · exact ⟨4, rfl⟩
  obtain ⟨j, hj⟩ := hpow
  simp only [hj, and_two_pow_ne_zero, Nat.testBit_xor]
  cases x.testBit j <;> cases y.testBit j <;> simp

/-- **Bech32 polymod is GF(2)-affine**: for equal-length symbol strings. -/
theorem bech32PolyMod_xor (a b : List Nat) (h : a.length = b.length) :
    bech32PolyMod (List.zipWith (· ^^^ ·) a b)
      = bech32PolyMod a ^^^ bech32PolyMod b ^^^ bech32PolyMod (List.replicate a.length 0) := by
  simp only [bech32PolyMod_eq]
  exact pmRun_affine 25 bech32G bech32G_linear a b 1 h

/-- the homogeneous Bech32 register (start state 0) is GF(2)-linear. -/
theorem bech32_polymod_linear (a b : List Nat) (h : a.length = b.length) :
    pmRun 25 bech32G 0 (List.zipWith (· ^^^ ·) a b)
      = pmRun 25 bech32G 0 a ^^^ pmRun 25 bech32G 0 b := by
  have := pmRun_linear 25 bech32G bech32G_linear a b 0 0 h
  rwa [Nat.xor_self] at this

/-- `bech32PolyMod` splits into the homogeneous part and the image of the start state. -/
theorem bech32PolyMod_split (a : List Nat) :
    bech32PolyMod a = pmRun 25 bech32G 0 a ^^^ bech32PolyMod (List.replicate a.length 0) := by
  simp only [bech32PolyMod_eq]
  have := pmRun_linear 25 bech32G bech32G_linear a (List.replicate a.length 0) 0 1 (by simp)
  rwa [zipWith_xor_zeros, Nat.zero_xor] at this

/-- **CashAddr polymod is GF(2)-affine.** -/
theorem bchPolyMod_xor (a b : List Nat) (h : a.length = b.length) :
    bchPolyMod (List.zipWith (· ^^^ ·) a b)
      = bchPolyMod a ^^^ bchPolyMod b ^^^ bchPolyMod (List.replicate a.length 0) := by
  simp only [bchPolyMod_eq]
  rw [pmRun_affine 35 bchG bchG_linear a b 1 h]
  generalize pmRun 35 bchG 1 a = p
  generalize pmRun 35 bchG 1 b = q
  generalize pmRun 35 bchG 1 (List.replicate a.length 0) = r
  have : (1 : Nat) = 1 ^^^ 1 ^^^ 1 := by decide
  conv_lhs => rw [this]
  ac_rfl

/-! ### uniqueness of the checksum: the trailing symbols are determined by verification -/

theorem shl5_xor (a x : Nat) (hx : x < 32) : (a <<< 5) ^^^ x = a * 32 + x := by
  apply Nat.eq_of_testBit_eq
  intro j
  have e : a * 32 + x = 2 ^ 5 * a + x := by ring
  rw [e, Nat.testBit_two_pow_mul_add a (by omega : x < 2 ^ 5), Nat.testBit_xor, Nat.testBit_shiftLeft]
  by_cases h : j < 5
  · have h' : ¬ j ≥ 5 := by omega
    simp [h, h']
  · have h' : j ≥ 5 := by omega
    have hxj : x.testBit j = false :=
      Nat.testBit_lt_two_pow (Nat.lt_of_lt_of_le (by omega : x < 2 ^ 5) (Nat.pow_le_pow_right (by omega) h'))
    simp [h, h', hxj]

theorem list_length_six {α} (t : List α) (h : t.length = 6) : ∃ a b c d e f, t = [a, b, c, d, e, f] := by
  rcases t with _ | ⟨a, _ | ⟨b, _ | ⟨c, _ | ⟨d, _ | ⟨e, _ | ⟨f, _ | ⟨g, t⟩⟩⟩⟩⟩⟩⟩ <;>
    simp at h
  exact ⟨a, b, c, d, e, f, rfl⟩

theorem list_length_eight {α} (t : List α) (h : t.length = 8) :
    ∃ a b c d e f g i, t = [a, b, c, d, e, f, g, i] := by
  rcases t with _ | ⟨a, _ | ⟨b, _ | ⟨c, _ | ⟨d, _ | ⟨e, _ | ⟨f, _ | ⟨g, _ | ⟨i, _ | ⟨j, t⟩⟩⟩⟩⟩⟩⟩⟩⟩ <;>
    simp at h
  exact ⟨a, b, c, d, e, f, g, i, rfl⟩

/-- unpacking a packed string of six 5-bit symbols gives the symbols back. -/
theorem unpack_pack_six (c0 c1 c2 c3 c4 c5 : Nat) (h0 : c0 < 32) (h1 : c1 < 32) (h2 : c2 < 32)
    (h3 : c3 < 32) (h4 : c4 < 32) (h5 : c5 < 32) (pm : Nat) (hpm : pack5 0 [c0, c1, c2, c3, c4, c5] = pm) :
    [(pm >>> 25) &&& 31, (pm >>> 20) &&& 31, (pm >>> 15) &&& 31, (pm >>> 10) &&& 31,
        (pm >>> 5) &&& 31, (pm >>> 0) &&& 31] = [c0, c1, c2, c3, c4, c5] := by
  simp only [pack5, List.foldl_cons, List.foldl_nil] at hpm
  rw [shl5_xor _ _ h0, shl5_xor _ _ h1, shl5_xor _ _ h2, shl5_xor _ _ h3, shl5_xor _ _ h4,
    shl5_xor _ _ h5] at hpm
  have h31 : ∀ x, x &&& 31 = x % 32 := fun x => Nat.and_two_pow_sub_one_eq_mod x 5
  simp only [h31, Nat.shiftRight_eq_div_pow]
  subst hpm
  simp only [List.cons.injEq, and_true]
  omega

theorem unpack_pack_eight (c0 c1 c2 c3 c4 c5 c6 c7 : Nat) (h0 : c0 < 32) (h1 : c1 < 32) (h2 : c2 < 32)
    (h3 : c3 < 32) (h4 : c4 < 32) (h5 : c5 < 32) (h6 : c6 < 32) (h7 : c7 < 32) (pm : Nat)
    (hpm : pack5 0 [c0, c1, c2, c3, c4, c5, c6, c7] = pm) :
    [(pm >>> 35) &&& 31, (pm >>> 30) &&& 31, (pm >>> 25) &&& 31, (pm >>> 20) &&& 31,
        (pm >>> 15) &&& 31, (pm >>> 10) &&& 31, (pm >>> 5) &&& 31, (pm >>> 0) &&& 31]
      = [c0, c1, c2, c3, c4, c5, c6, c7] := by
  simp only [pack5, List.foldl_cons, List.foldl_nil] at hpm
  rw [shl5_xor _ _ h0, shl5_xor _ _ h1, shl5_xor _ _ h2, shl5_xor _ _ h3, shl5_xor _ _ h4,
    shl5_xor _ _ h5, shl5_xor _ _ h6, shl5_xor _ _ h7] at hpm
  have h31 : ∀ x, x &&& 31 = x % 32 := fun x => Nat.and_two_pow_sub_one_eq_mod x 5
  simp only [h31, Nat.shiftRight_eq_div_pow]
  subst hpm
  simp only [List.cons.injEq, and_true]
  omega

/-- the trailing `(W+5)/5` symbols that steer the register from `c` to `k` pack to a value that is
determined by `c` and `k`. -/
theorem pm_tail_unique (W : Nat) (G : Nat → Nat) (c k : Nat) (t : List Nat)
    (hlen : 5 * t.length = W + 5) (ht : ∀ x ∈ t, x < 32) (h : pmRun W G c t = k) :
    pack5 0 t = pmRun W G c (List.replicate t.length 0) ^^^ k := by
  have htail := pmRun_tail W G t c 0 (by omega) (by rw [hlen]; simp) ht
  rw [Nat.xor_zero, h] at htail
  rw [htail, ← Nat.xor_assoc, Nat.xor_self, Nat.zero_xor]

/-- **Bech32 / Bech32m checksum uniqueness**: six trailing symbols that make the string verify are
the checksum of what precedes them. -/
theorem bech32Verify_unique (hrp : List Char) (data t : List Nat) (m : Bool) (hl : t.length = 6)
    (ht : ∀ x ∈ t, x < 32) (h : bech32Verify hrp (data ++ t) m = true) :
    t = bech32Checksum hrp data m := by
  unfold bech32Verify at h
  rw [beq_iff_eq, ← List.append_assoc] at h
  rw [bech32Checksum_eq]
  generalize bech32HrpExpand hrp ++ data = v at h ⊢
  simp only [bech32PolyMod_eq, pmRun_append] at h ⊢
  have hp := pm_tail_unique 25 bech32G _ _ t (by rw [hl]) ht h
  rw [hl] at hp
  obtain ⟨c0, c1, c2, c3, c4, c5, rfl⟩ := list_length_six t hl
  have hm : ∀ x ∈ [c0, c1, c2, c3, c4, c5], x < 32 := ht
  simp only [List.mem_cons, List.mem_nil_iff, or_false, forall_eq_or_imp, forall_eq] at hm
  obtain ⟨h0, h1, h2, h3, h4, h5⟩ := hm
  exact (unpack_pack_six c0 c1 c2 c3 c4 c5 h0 h1 h2 h3 h4 h5 _ hp).symm

/-- **CashAddr checksum uniqueness.** -/
theorem bchVerify_unique (hrp : List Char) (data t : List Nat) (hl : t.length = 8)
    (ht : ∀ x ∈ t, x < 32) (h : bchVerify hrp (data ++ t) = true) :
    t = bchChecksum hrp data := by
  unfold bchVerify at h
  rw [beq_iff_eq, ← List.append_assoc] at h
  rw [bchChecksum_eq]
  generalize bchHrpExpand hrp ++ data = v at h ⊢
  simp only [bchPolyMod_eq, pmRun_append] at h ⊢
  have h' : pmRun 35 bchG (pmRun 35 bchG 1 v) t = 1 := by
    have := congrArg (· ^^^ 1) h
    simpa [Nat.xor_assoc] using this
  have hp := pm_tail_unique 35 bchG _ _ t (by rw [hl]) ht h'
  rw [hl] at hp
  obtain ⟨c0, c1, c2, c3, c4, c5, c6, c7, rfl⟩ := list_length_eight t hl
  have hm : ∀ x ∈ [c0, c1, c2, c3, c4, c5, c6, c7], x < 32 := ht
  simp only [List.mem_cons, List.mem_nil_iff, or_false, forall_eq_or_imp, forall_eq] at hm
  obtain ⟨h0, h1, h2, h3, h4, h5, h6, h7⟩ := hm
  exact (unpack_pack_eight c0 c1 c2 c3 c4 c5 c6 c7 h0 h1 h2 h3 h4 h5 h6 h7 _ hp).symm

end BipVerif.Model
