/-
Address formats of the Bech32 family: P2WPKH, P2TR, Cosmos (`atom`), Avalanche, Elrond, Zilliqa,
Bitcoin-Cash CashAddr P2PKH / P2SH — round trips and error kinds, and the error-kind analysis of
the three Bech32 decoders (no `IndexError` from `data[0]` / `conv[0]`).
-/
import BipVerif.Lemmas.Addr
import BipVerif.Lemmas.AddrBase58
import BipVerif.Lemmas.Bech32

namespace BipVerif.Model
open BipVerif BipVerif.Prim

/-! ### what the raw decoder returns, and how it fails -/

theorem bechDecodeRaw_errors (U : CaseOracle) (k : BechKind) (s : List Char) {e : Err}
    (h : bechDecodeRaw U k s = .error e) : e = .value ∨ e = .checksum := by
  rw [bechDecodeRaw_eq_flat] at h
  unfold bechDecodeRawFlat at h
  split at h
  · cases h; exact Or.inl rfl
  split at h
  · cases h; exact Or.inl rfl
  · split at h
    · cases h; exact Or.inl rfl
    · simp only at h
      split at h
      · cases h; exact Or.inl rfl
      · split at h
        · cases h; exact Or.inl rfl
        · split at h
          · cases h; exact Or.inr rfl
          · cases h

/-- an accepted string has at least one data symbol, and all data symbols are 5-bit values. -/
theorem bechDecodeRaw_ok_inv (U : CaseOracle) (k : BechKind) {s hrp : List Char} {data : List Nat}
    (h : bechDecodeRaw U k s = .ok (hrp, data)) : data ≠ [] ∧ ∀ x ∈ data, x < 32 := by
  rw [bechDecodeRaw_eq_flat] at h
  unfold bechDecodeRawFlat at h
  split at h
  · cases h
  split at h
  · cases h
  · split at h
    · cases h
    · simp only at h
      rename_i p _
      split at h
      · cases h
      · split at h
        · cases h
        · rename_i hc3
          split at h
          · cases h
          · simp only [Bool.or_eq_true, decide_eq_true_eq, Bool.not_eq_true', not_or,
              Bool.not_eq_false] at hc3
            obtain ⟨hlen, hall⟩ := hc3
            have hdata : data = dropLast
              ((List.drop (p + 1) (s.flatMap U.lower)).map
                (fun x => (bech32Charset.idxOf? x).getD 0)) k.ckLen := by cases h; rfl
            constructor
            · intro e
              have := congrArg List.length e
              rw [hdata, dropLast_length, List.length_map, List.length_nil] at this
              omega
            · intro x hx
              rw [hdata] at hx
              unfold dropLast at hx
              have hx := List.mem_of_mem_take hx
              obtain ⟨c, hc, rfl⟩ := List.mem_map.mp hx
              have := List.all_eq_true.mp hall c hc
              exact (charset_idx_getD (by simpa using this)).2

theorem OnlyValue.fromBase32 (d : List Nat) : OnlyValue (fromBase32 d) := by
  unfold Model.fromBase32
  cases convertBits d 5 8 false with
  | none => exact .throw
  | some r => exact .pure _

theorem OnlyValue.toBase32 (d : List Nat) : OnlyValue (toBase32 d) := by
  unfold Model.toBase32
  cases convertBits d 8 5 true with
  | none => exact .throw
  | some r => exact .pure _

theorem bech32Decode_errors (U : CaseOracle) (hrp s : List Char) {e : Err}
    (h : bech32Decode U hrp s = .error e) : e = .value ∨ e = .checksum := by
  unfold bech32Decode at h
  cases hr : bechDecodeRaw U .bech32 s with
  | error e' =>
    rw [hr] at h
    have : e = e' := by cases h; rfl
    subst this; exact bechDecodeRaw_errors U _ s hr
  | ok r =>
    rw [hr] at h
    left
    revert h
    obtain ⟨hrpGot, data⟩ := r
    have : OnlyValue (do
        if hrp != hrpGot then throw Err.value
        pure (natsToBytes (← fromBase32 data)) : R Bytes) := by
      ov; all_goals exact OnlyValue.fromBase32 _
    exact this.h e

theorem OnlyValue.bech32 (U : CaseOracle) (hrp s : List Char) :
    OnlyValue (Model.ckToValue (bech32Decode U hrp s)) :=
  OnlyValue.ckToValue (fun _ h => bech32Decode_errors U hrp s h)

/-- SegWit: `data[0]` is read after the raw decoder guaranteed a non-empty data part. -/
theorem segwitDecode_errors (U : CaseOracle) (hrp s : List Char) {e : Err}
    (h : segwitDecode U hrp s = .error e) : e = .value ∨ e = .checksum := by
  unfold segwitDecode at h
  cases hr : bechDecodeRaw U .segwit s with
  | error e' =>
    rw [hr] at h
    have : e = e' := by cases h; rfl
    subst this; exact bechDecodeRaw_errors U _ s hr
  | ok r =>
    rw [hr] at h
    left
    revert h
    obtain ⟨hrpGot, data⟩ := r
    obtain ⟨hne, _⟩ := bechDecodeRaw_ok_inv U _ hr
    have : OnlyValue (do
        if hrp != hrpGot then throw Err.value
        let conv ← fromBase32 (data.drop 1)
        if conv.length < 2 || conv.length > 40 then throw .value
        let witVer ← pyIdx data 0
        if witVer > 16 then throw .value
        if witVer = 0 && !(conv.length = 20 || conv.length = 32) then throw .value
        pure (witVer, natsToBytes conv) : R (Nat × Bytes)) := by
      cases data with
      | nil => exact absurd rfl hne
      | cons a t =>
        simp only [pyIdx, List.getElem?_cons_zero]
        ov; all_goals exact OnlyValue.fromBase32 _
    exact this.h e

theorem OnlyValue.segwit (U : CaseOracle) (hrp s : List Char) :
    OnlyValue (Model.ckToValue (segwitDecode U hrp s)) :=
  OnlyValue.ckToValue (fun _ h => segwitDecode_errors U hrp s h)

/-- 5→8 regrouping of a non-empty symbol string without padding, when it succeeds, yields at
least one byte (one symbol alone leaves 5 unconsumed bits and is refused). -/
theorem fromBase32_ne_nil {data conv : List Nat} (hne : data ≠ []) (hlt : ∀ x ∈ data, x < 32)
    (h : fromBase32 data = .ok conv) : conv ≠ [] := by
  unfold fromBase32 at h
  rw [convertBits_nopad 5 8 (by omega) data (by simpa using hlt)] at h
  by_cases hc : 5 * data.length % 8 ≥ 5 ∨ ∃ b ∈ chunkRem 8 (symbolBits 5 data), b = true
  · rw [if_pos hc] at h; cases h
  · rw [if_neg hc] at h
    have hconv : conv = (fullChunks 8 (symbolBits 5 data)).map ofBitsBE := by cases h; rfl
    intro e
    have hl := congrArg List.length (hconv.symm.trans e)
    simp only [List.length_map, fullChunks, List.length_range, length_symbolBits,
      List.length_nil] at hl
    have hpos := List.length_pos_iff.mpr hne
    have : ¬ (5 * data.length % 8 ≥ 5) := fun h' => hc (Or.inl h')
    omega

/-- CashAddr: `conv[0]` is read from a non-empty conversion result. -/
theorem bchDecode_errors (U : CaseOracle) (hrp s : List Char) {e : Err}
    (h : bchDecode U hrp s = .error e) : e = .value ∨ e = .checksum := by
  unfold bchDecode at h
  cases hr : bechDecodeRaw U .bch s with
  | error e' =>
    rw [hr] at h
    have : e = e' := by cases h; rfl
    subst this; exact bechDecodeRaw_errors U _ s hr
  | ok r =>
    rw [hr] at h
    left
    revert h
    obtain ⟨hrpGot, data⟩ := r
    obtain ⟨hne, hlt⟩ := bechDecodeRaw_ok_inv U _ hr
    have : OnlyValue (do
        if hrp != hrpGot then throw Err.value
        let conv ← fromBase32 data
        let v ← pyIdx conv 0
        pure (toBytesAuto v, natsToBytes (conv.drop 1)) : R (Bytes × Bytes)) := by
      ov
      any_goals exact OnlyValue.fromBase32 _
      all_goals exact OnlyValue.pyIdx_zero (fromBase32_ne_nil hne hlt (by assumption))
    exact this.h e

theorem OnlyValue.bch (U : CaseOracle) (hrp s : List Char) :
    OnlyValue (Model.ckToValue (bchDecode U hrp s)) :=
  OnlyValue.ckToValue (fun _ h => bchDecode_errors U hrp s h)

theorem bech32Encode_ov (hrp : List Char) (b : Bytes) : OnlyValue (bech32Encode hrp b) := by
  unfold bech32Encode
  exact OnlyValue.bind (OnlyValue.toBase32 _) (fun _ _ => .pure _)
theorem segwitEncode_ov (hrp : List Char) (v : Nat) (b : Bytes) : OnlyValue (segwitEncode hrp v b) := by
  unfold segwitEncode
  exact OnlyValue.bind (OnlyValue.toBase32 _) (fun _ _ => .pure _)
theorem bchEncode_ov (hrp : List Char) (nv b : Bytes) : OnlyValue (bchEncode hrp nv b) := by
  unfold bchEncode
  exact OnlyValue.bind (OnlyValue.toBase32 _) (fun _ _ => .pure _)

/-- `ov` with the Bech32 leaves -/
macro "ov_bech" : tactic => `(tactic| repeat (any_goals (first
  | exact OnlyValue.bech32 _ _ _ | exact OnlyValue.segwit _ _ _ | exact OnlyValue.bch _ _ _
  | exact OnlyValue.toBase32 _ | exact OnlyValue.fromBase32 _
  | exact bech32Encode_ov _ _ | exact segwitEncode_ov _ _ _ | exact bchEncode_ov _ _ _
  | ov_step)))

/-! ### round trips in "encode succeeded" form -/

theorem bech32Decode_of_encode (hrp : List Char) (hv : ValidHrp hrp) (b : Bytes) (hb : b ≠ [])
    {addr : List Char} (h : bech32Encode hrp b = .ok addr) :
    bech32Decode asciiCase hrp addr = .ok b := by
  have := bech32_decode_encode hrp hv b hb
  rwa [bind_ok_eq h] at this

theorem segwitDecode_of_encode (hrp : List Char) (hv : ValidHrp hrp) (witVer : Nat) (prog : Bytes)
    (hw : witVer ≤ 16) (h2 : 2 ≤ prog.length) (h40 : prog.length ≤ 40)
    (h0 : witVer = 0 → prog.length = 20 ∨ prog.length = 32)
    {addr : List Char} (h : segwitEncode hrp witVer prog = .ok addr) :
    segwitDecode asciiCase hrp addr = .ok (witVer, prog) := by
  have := segwit_decode_encode hrp hv witVer prog hw h2 h40 h0
  rwa [bind_ok_eq h] at this

theorem bchDecode_of_encode (hrp : List Char) (hv : ValidHrp hrp) (nv : UInt8) (data : Bytes)
    {addr : List Char} (h : bchEncode hrp [nv] data = .ok addr) :
    bchDecode asciiCase hrp addr = .ok ([nv], data) := by
  have := bch_decode_encode hrp hv nv data
  rwa [bind_ok_eq h] at this

/-! ### P2WPKH -/

theorem p2wpkh_decode_encode (hrp : List Char) (hv : ValidHrp hrp) (pub : Bytes) (addr : List Char)
    (h : p2wpkhEncode hrp pub = .ok addr) :
    ∃ k, addrKey .secp256k1 pub = .ok k ∧ p2wpkhDecode hrp addr = .ok (hash160 k) := by
  unfold p2wpkhEncode at h
  obtain ⟨k, hk, h⟩ := bind_ok_inv h
  refine ⟨k, hk, ?_⟩
  have hl := hash160_length k
  have hd := segwitDecode_of_encode hrp hv 0 (hash160 k) (by omega) (by omega) (by omega)
    (fun _ => Or.inl hl) h
  unfold p2wpkhDecode
  rw [hd, ckToValue_ok]
  simp only [bind, Except.bind, ne_eq, not_true_eq_false, if_false, validateLength_ok _ _ hl]
  rfl

theorem p2wpkhEncode_ov (hrp : List Char) (pub : Bytes) : OnlyValue (p2wpkhEncode hrp pub) := by
  unfold p2wpkhEncode; ov_bech
theorem p2wpkhDecode_ov (hrp addr : List Char) : OnlyValue (p2wpkhDecode hrp addr) := by
  unfold p2wpkhDecode; ov_bech

/-! ### P2TR -/

theorem p2trTweak_length {k t : Bytes} (h : p2trTweak k = .ok t) : t.length = 32 := by
  unfold p2trTweak at h
  simp only at h
  split at h
  · split at h
    · obtain ⟨ev, _, h⟩ := bind_ok_inv h
      split at h
      · have : Bytes.ofNatBE 32 _ = t := pure_ok_inv h
        rw [← this, length_ofNatBE]
      · cases h
    · cases h
  · cases h

theorem p2trTweak_ov (k : Bytes) : OnlyValue (p2trTweak k) := by
  unfold p2trTweak
  ov

theorem p2tr_decode_encode (hrp : List Char) (hv : ValidHrp hrp) (pub : Bytes) (addr : List Char)
    (h : p2trEncode hrp pub = .ok addr) :
    ∃ k t, addrKey .secp256k1 pub = .ok k ∧ p2trTweak k = .ok t ∧ t.length = 32 ∧
      p2trDecode hrp addr = .ok t := by
  unfold p2trEncode at h
  obtain ⟨k, hk, h⟩ := bind_ok_inv h
  obtain ⟨t, ht, h⟩ := bind_ok_inv h
  have hl := p2trTweak_length ht
  refine ⟨k, t, hk, ht, hl, ?_⟩
  have hd := segwitDecode_of_encode hrp hv 1 t (by omega) (by omega) (by omega)
    (fun h => absurd h (by omega)) h
  unfold p2trDecode
  rw [hd, ckToValue_ok]
  simp only [bind, Except.bind, validateLength_ok _ _ hl]
  rfl

theorem p2trEncode_ov (hrp : List Char) (pub : Bytes) : OnlyValue (p2trEncode hrp pub) := by
  unfold p2trEncode; ov_bech; exact p2trTweak_ov _
theorem p2trDecode_ov (hrp addr : List Char) : OnlyValue (p2trDecode hrp addr) := by
  unfold p2trDecode; ov_bech

/-! ### Cosmos (`atom`) and the formats that share its decoder -/

theorem atomDecode_of_encode (hrp : List Char) (hv : ValidHrp hrp) (b : Bytes) (hb : b.length = 20)
    {addr : List Char} (h : bech32Encode hrp b = .ok addr) : atomDecode hrp addr = .ok b := by
  unfold atomDecode
  rw [bech32Decode_of_encode hrp hv b (ne_nil_of_length_pos hb (by omega)) h, ckToValue_ok]
  simp only [bind, Except.bind, validateLength_ok _ _ hb]
  rfl

theorem atom_decode_encode (hrp : List Char) (hv : ValidHrp hrp) (pub : Bytes) (addr : List Char)
    (h : atomEncode hrp pub = .ok addr) :
    ∃ k, addrKey .secp256k1 pub = .ok k ∧ atomDecode hrp addr = .ok (hash160 k) := by
  unfold atomEncode at h
  obtain ⟨k, hk, h⟩ := bind_ok_inv h
  exact ⟨k, hk, atomDecode_of_encode hrp hv _ (hash160_length k) h⟩

theorem atomEncode_ov (hrp : List Char) (pub : Bytes) : OnlyValue (atomEncode hrp pub) := by
  unfold atomEncode; ov_bech
theorem atomDecode_ov (hrp addr : List Char) : OnlyValue (atomDecode hrp addr) := by
  unfold atomDecode; ov_bech

/-! ### Avalanche (`P-` / `X-` prefix in front of the Cosmos form) -/

theorem avax_decode_encode (pfx hrp : List Char) (hv : ValidHrp hrp) (pub : Bytes)
    (addr : List Char) (h : avaxEncode pfx hrp pub = .ok addr) :
    ∃ k, addrKey .secp256k1 pub = .ok k ∧ avaxDecode pfx hrp addr = .ok (hash160 k) := by
  unfold avaxEncode at h
  obtain ⟨a, ha, h⟩ := bind_ok_inv h
  obtain ⟨k, hk, hd⟩ := atom_decode_encode hrp hv pub a ha
  refine ⟨k, hk, ?_⟩
  rw [← pure_ok_inv h]
  unfold avaxDecode
  rw [removePrefix_append]
  exact hd

theorem avaxEncode_ov (pfx hrp : List Char) (pub : Bytes) : OnlyValue (avaxEncode pfx hrp pub) := by
  unfold avaxEncode; ov_bech
theorem avaxDecode_ov (pfx hrp addr : List Char) : OnlyValue (avaxDecode pfx hrp addr) := by
  unfold avaxDecode; ov_bech

/-! ### Zilliqa (last 20 bytes of SHA-256; decoded by the Cosmos decoder) -/

theorem zil_decode_encode (hrp : List Char) (hv : ValidHrp hrp) (pub : Bytes) (addr : List Char)
    (h : zilEncode hrp pub = .ok addr) :
    ∃ k, addrKey .secp256k1 pub = .ok k ∧ atomDecode hrp addr = .ok (takeLast (sha256 k) 20) := by
  unfold zilEncode at h
  obtain ⟨k, hk, h⟩ := bind_ok_inv h
  refine ⟨k, hk, atomDecode_of_encode hrp hv _ ?_ h⟩
  rw [takeLast_length_of_le _ _ (by rw [sha256_length]; omega)]

theorem zilEncode_ov (hrp : List Char) (pub : Bytes) : OnlyValue (zilEncode hrp pub) := by
  unfold zilEncode; ov_bech

/-! ### Elrond (raw 32-byte ed25519 key) -/

theorem egld_decode_encode (hrp : List Char) (hv : ValidHrp hrp) (pub : Bytes) (addr : List Char)
    (h : egldEncode hrp pub = .ok addr) :
    ∃ k, addrKey .ed25519 pub = .ok k ∧ egldDecode hrp addr = .ok (k.drop 1) := by
  unfold egldEncode at h
  obtain ⟨k, hk, h⟩ := bind_ok_inv h
  obtain ⟨_, h32, _, _, hval⟩ := addrKey_ed_inv (c := .ed25519) rfl hk
  refine ⟨k, hk, ?_⟩
  unfold egldDecode
  rw [bech32Decode_of_encode hrp hv _ (ne_nil_of_length_pos h32 (by omega)) h, ckToValue_ok]
  simp only [bind, Except.bind, validateLength_ok _ _ h32, validatePubKey_ok _ _ hval]
  rfl

theorem egldEncode_ov (hrp : List Char) (pub : Bytes) : OnlyValue (egldEncode hrp pub) := by
  unfold egldEncode; ov_bech
theorem egldDecode_ov (hrp addr : List Char) : OnlyValue (egldDecode hrp addr) := by
  unfold egldDecode; ov_bech

/-! ### Bitcoin Cash CashAddr -/

theorem bchAddrDecode_of_encode (hrp : List Char) (hv : ValidHrp hrp) (nv : UInt8) (b : Bytes)
    (hb : b.length = 20) {addr : List Char} (h : bchEncode hrp [nv] b = .ok addr) :
    bchAddrDecode hrp [nv] addr = .ok b := by
  unfold bchAddrDecode
  rw [bchDecode_of_encode hrp hv nv b h, ckToValue_ok]
  simp only [bind, Except.bind, ne_eq, not_true_eq_false, if_false, validateLength_ok _ _ hb]
  rfl

theorem bchP2pkh_decode_encode (hrp : List Char) (hv : ValidHrp hrp) (nv : UInt8) (pub : Bytes)
    (addr : List Char) (h : bchP2pkhEncode hrp [nv] pub = .ok addr) :
    ∃ k, addrKey .secp256k1 pub = .ok k ∧ bchAddrDecode hrp [nv] addr = .ok (hash160 k) := by
  unfold bchP2pkhEncode at h
  obtain ⟨k, hk, h⟩ := bind_ok_inv h
  exact ⟨k, hk, bchAddrDecode_of_encode hrp hv nv _ (hash160_length k) h⟩

theorem bchP2sh_decode_encode (hrp : List Char) (hv : ValidHrp hrp) (nv : UInt8) (pub : Bytes)
    (addr : List Char) (h : bchP2shEncode hrp [nv] pub = .ok addr) :
    ∃ k, addrKey .secp256k1 pub = .ok k ∧ bchAddrDecode hrp [nv] addr = .ok (p2shScriptHash k) := by
  unfold bchP2shEncode at h
  obtain ⟨k, hk, h⟩ := bind_ok_inv h
  exact ⟨k, hk, bchAddrDecode_of_encode hrp hv nv _ (p2shScriptHash_length k) h⟩

theorem bchP2pkhEncode_ov (hrp : List Char) (nv pub : Bytes) :
    OnlyValue (bchP2pkhEncode hrp nv pub) := by
  unfold bchP2pkhEncode; ov_bech
theorem bchP2shEncode_ov (hrp : List Char) (nv pub : Bytes) :
    OnlyValue (bchP2shEncode hrp nv pub) := by
  unfold bchP2shEncode; ov_bech
theorem bchAddrDecode_ov (hrp : List Char) (nv : Bytes) (addr : List Char) :
    OnlyValue (bchAddrDecode hrp nv addr) := by
  unfold bchAddrDecode; ov_bech

theorem injDecode_ov (hrp addr : List Char) : OnlyValue (injDecode hrp addr) := by
  unfold injDecode; ov_bech
theorem ethBech32Decode_ov (hrp addr : List Char) : OnlyValue (ethBech32Decode hrp addr) := by
  unfold ethBech32Decode; ov_bech

end BipVerif.Model
