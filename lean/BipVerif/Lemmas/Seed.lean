/-
Helper lemmas for C02 (mnemonic → seed): monadic unfolding of the seed generators, `str.split()`
(`splitWs`) on ASCII-blank separated sentences, case independence of `normToken`.  Mathlib-free.
-/
import BipVerif.Model.Seed

namespace BipVerif.Model.SeedLemmas
open BipVerif BipVerif.Prim BipVerif.Model

/-! ### `Except` plumbing -/

theorem bind_ok {α β} (x : α) (f : α → R β) : ((.ok x : R α) >>= f) = f x := rfl
theorem bind_error {α β} (e : Err) (f : α → R β) : ((.error e : R α) >>= f) = .error e := rfl

/-! ### `splitWs` -/

abbrev isSp (c : Char) : Bool := splitWs.isSpace c

/-- all characters are whitespace -/
def Blank (b : List Char) : Prop := ∀ c ∈ b, isSp c = true
/-- no character is whitespace -/
def BlankFree (w : List Char) : Prop := ∀ c ∈ w, isSp c = false

/-- push the pending token (if any) -/
def flush (cur : List Char) (acc : List (List Char)) : List (List Char) :=
  if cur.isEmpty then acc else cur.reverse :: acc

theorem go_nil (cur : List Char) (acc : List (List Char)) :
    splitWs.go [] cur acc = (flush cur acc).reverse := by
  simp only [splitWs.go, flush]

theorem go_cons_space {c : Char} (h : isSp c = true) (rest cur : List Char) (acc : List (List Char)) :
    splitWs.go (c :: rest) cur acc = splitWs.go rest [] (flush cur acc) := by
  simp only [isSp] at h
  simp only [splitWs.go, h, if_true, flush]

theorem go_cons_char {c : Char} (h : isSp c = false) (rest cur : List Char) (acc : List (List Char)) :
    splitWs.go (c :: rest) cur acc = splitWs.go rest (c :: cur) acc := by
  simp only [isSp] at h
  simp only [splitWs.go, h, Bool.false_eq_true, if_false]

theorem blank_nil : Blank [] := fun _ h => by cases h
theorem blankFree_nil : BlankFree [] := fun _ h => by cases h

theorem blank_cons {c : Char} {b : List Char} : Blank (c :: b) ↔ isSp c = true ∧ Blank b := by
  simp [Blank]
theorem blankFree_cons {c : Char} {w : List Char} :
    BlankFree (c :: w) ↔ isSp c = false ∧ BlankFree w := by
  simp [BlankFree]

theorem blank_append {a b : List Char} (ha : Blank a) (hb : Blank b) : Blank (a ++ b) := by
  intro c hc
  rcases List.mem_append.1 hc with h | h
  · exact ha c h
  · exact hb c h

theorem blank_replicate {c : Char} (h : isSp c = true) (k : Nat) : Blank (List.replicate k c) := by
  intro d hd
  rw [(List.mem_replicate.1 hd).2]; exact h

theorem flush_nil (acc : List (List Char)) : flush [] acc = acc := rfl

theorem flush_flush_nil (cur : List Char) (acc : List (List Char)) :
    flush [] (flush cur acc) = flush cur acc := rfl

/-- a blank-free stretch is accumulated into the pending token -/
theorem go_word : ∀ (w : List Char), BlankFree w → ∀ (rest cur : List Char) (acc : List (List Char)),
    splitWs.go (w ++ rest) cur acc = splitWs.go rest (w.reverse ++ cur) acc
  | [], _, rest, cur, acc => rfl
  | c :: w, h, rest, cur, acc => by
    obtain ⟨hc, hw⟩ := blankFree_cons.1 h
    rw [List.cons_append, go_cons_char hc, go_word w hw]
    simp

/-- a run of blanks (possibly empty) with nothing pending is skipped -/
theorem go_blank_nil : ∀ (b : List Char), Blank b → ∀ (rest : List Char) (acc : List (List Char)),
    splitWs.go (b ++ rest) [] acc = splitWs.go rest [] acc
  | [], _, rest, acc => rfl
  | c :: b, h, rest, acc => by
    obtain ⟨hc, hb⟩ := blank_cons.1 h
    rw [List.cons_append, go_cons_space hc, flush_nil, go_blank_nil b hb]

/-- a non-empty run of blanks ends the pending token -/
theorem go_blank {b : List Char} (hb : Blank b) (hne : b ≠ []) (rest cur : List Char)
    (acc : List (List Char)) :
    splitWs.go (b ++ rest) cur acc = splitWs.go rest [] (flush cur acc) := by
  cases b with
  | nil => exact absurd rfl hne
  | cons c b =>
    obtain ⟨hc, hb'⟩ := blank_cons.1 hb
    rw [List.cons_append, go_cons_space hc, go_blank_nil b hb']

/-- trailing blanks: same as end of input -/
theorem go_blank_end {b : List Char} (hb : Blank b) (cur : List Char) (acc : List (List Char)) :
    splitWs.go b cur acc = (flush cur acc).reverse := by
  cases b with
  | nil => exact go_nil cur acc
  | cons c b =>
    have := go_blank hb (by simp) [] cur acc
    rw [List.append_nil] at this
    rw [this, go_nil, flush_nil]

/-- congruence: what happens to a prefix does not depend on the rest once the states agree -/
theorem go_congr_suffix : ∀ (s : List Char) {r r' : List Char},
    (∀ cur acc, splitWs.go r cur acc = splitWs.go r' cur acc) →
    ∀ cur acc, splitWs.go (s ++ r) cur acc = splitWs.go (s ++ r') cur acc
  | [], _, _, h, cur, acc => h cur acc
  | c :: s, r, r', h, cur, acc => by
    cases hc : isSp c with
    | true => rw [List.cons_append, List.cons_append, go_cons_space hc, go_cons_space hc,
                  go_congr_suffix s h]
    | false => rw [List.cons_append, List.cons_append, go_cons_char hc, go_cons_char hc,
                   go_congr_suffix s h]

/-! #### the ignoring lemmas -/

/-- leading whitespace is ignored -/
theorem splitWs_blank_append {b : List Char} (hb : Blank b) (s : List Char) :
    splitWs (b ++ s) = splitWs s := by
  unfold splitWs
  exact go_blank_nil b hb s []

/-- trailing whitespace is ignored -/
theorem splitWs_append_blank {b : List Char} (hb : Blank b) (s : List Char) :
    splitWs (s ++ b) = splitWs s := by
  unfold splitWs
  have := go_congr_suffix s (r := b) (r' := []) (fun cur acc => by rw [go_blank_end hb, go_nil]) [] []
  rw [List.append_nil] at this
  exact this

/-- a whitespace run between two parts can be lengthened / shortened at will (as long as one blank
remains) -/
theorem splitWs_blank_run {b b' : List Char} (hb : Blank b) (hne : b ≠ []) (hb' : Blank b')
    (s s' : List Char) : splitWs (s ++ (b ++ b') ++ s') = splitWs (s ++ b ++ s') := by
  unfold splitWs
  rw [List.append_assoc, List.append_assoc s b s']
  apply go_congr_suffix s
  intro cur acc
  rw [List.append_assoc, go_blank hb hne, go_blank hb hne, go_blank_nil b' hb']

/-- only whitespace: no tokens -/
theorem splitWs_blank {b : List Char} (hb : Blank b) : splitWs b = [] := by
  unfold splitWs
  rw [go_blank_end hb]; rfl

/-! #### the structured statement -/

/-- `(sep₁ ++ w₁) ++ (sep₂ ++ w₂) ++ …` -/
def render (items : List (List Char × List Char)) : List Char := items.flatMap fun p => p.1 ++ p.2

/-- separators are non-empty blank runs, words are non-empty and blank-free -/
def GoodItems (items : List (List Char × List Char)) : Prop :=
  ∀ p ∈ items, Blank p.1 ∧ p.1 ≠ [] ∧ BlankFree p.2 ∧ p.2 ≠ []

theorem go_items : ∀ (items : List (List Char × List Char)), GoodItems items →
    ∀ (trail : List Char), Blank trail → ∀ (cur : List Char) (acc : List (List Char)),
      splitWs.go (render items ++ trail) cur acc
        = (flush cur acc).reverse ++ items.map (·.2)
  | [], _, trail, ht, cur, acc => by
    simp only [render, List.flatMap_nil, List.nil_append, List.map_nil, List.append_nil]
    exact go_blank_end ht cur acc
  | (b, w) :: items, h, trail, ht, cur, acc => by
    obtain ⟨hb, hbne, hw, hwne⟩ := h (b, w) List.mem_cons_self
    have hrest : GoodItems items := fun p hp => h p (List.mem_cons_of_mem _ hp)
    have hr : render ((b, w) :: items) ++ trail = b ++ (w ++ (render items ++ trail)) := by
      simp [render, List.append_assoc]
    rw [hr, go_blank hb hbne, go_word w hw, List.append_nil]
    cases items with
    | nil =>
      simp only [render, List.flatMap_nil, List.nil_append, List.map_nil, List.map_cons]
      rw [go_blank_end ht]
      have : flush w.reverse (flush cur acc) = w :: flush cur acc := by
        simp [flush, hwne]
      rw [this]; simp
    | cons p items =>
      rw [go_items (p :: items) hrest trail ht]
      have : flush w.reverse (flush cur acc) = w :: flush cur acc := by
        simp [flush, hwne]
      rw [this]; simp

/-- **`str.split()` on a well-formed sentence.**  Optional leading blanks, a first word, then
(non-empty blank run, word) pairs, optional trailing blanks: the tokens are exactly the words. -/
theorem splitWs_sentence (lead w0 : List Char) (items : List (List Char × List Char))
    (trail : List Char) (hl : Blank lead) (hw0 : BlankFree w0) (hne : w0 ≠ [])
    (hi : GoodItems items) (ht : Blank trail) :
    splitWs (lead ++ w0 ++ render items ++ trail) = w0 :: items.map (·.2) := by
  unfold splitWs
  simp only [List.append_assoc]
  rw [go_blank_nil lead hl, go_word w0 hw0, List.append_nil, go_items items hi trail ht w0.reverse []]
  simp [flush, hne]

/-- the canonical sentence (`" ".join(words)`) splits back into its words -/
theorem splitWs_join_single (w0 : List Char) (ws : List (List Char)) (hw0 : BlankFree w0)
    (hne : w0 ≠ []) (hws : ∀ w ∈ ws, BlankFree w ∧ w ≠ []) (hsp : isSp ' ' = true) :
    splitWs (w0 ++ render (ws.map fun w => ([' '], w))) = w0 :: ws := by
  have hi : GoodItems (ws.map fun w => ([' '], w)) := by
    intro p hp
    obtain ⟨w, hw, rfl⟩ := List.mem_map.1 hp
    refine ⟨?_, by simp, (hws w hw).1, (hws w hw).2⟩
    intro c hc
    rw [List.mem_singleton.1 hc]; exact hsp
  have := splitWs_sentence [] w0 _ [] blank_nil hw0 hne hi blank_nil
  simp only [List.nil_append, List.append_nil] at this
  rw [this]
  simp [List.map_map, Function.comp_def]

/-! ### `normToken`: ASCII case independence -/

/-- on the 128 ASCII code points: `toUpper` / `toLower` stay ASCII and do not change `asciiLower` -/
theorem ascii_case_table : ∀ n : Fin 128,
    asciiLower (Char.ofNat n.val).toUpper = asciiLower (Char.ofNat n.val) ∧
    asciiLower (Char.ofNat n.val).toLower = asciiLower (Char.ofNat n.val) ∧
    (Char.ofNat n.val).toUpper.toNat < 128 ∧ (Char.ofNat n.val).toLower.toNat < 128 := by
  decide

theorem ascii_case {c : Char} (h : c.toNat < 128) :
    asciiLower c.toUpper = asciiLower c ∧ asciiLower c.toLower = asciiLower c ∧
    c.toUpper.toNat < 128 ∧ c.toLower.toNat < 128 := by
  have := ascii_case_table ⟨c.toNat, h⟩
  simpa [Char.ofNat_toNat] using this

theorem normToken_ascii (oracle : List (List Char × List Char)) {w : List Char}
    (h : ∀ c ∈ w, c.toNat < 128) : normToken oracle w = .ok (w.map asciiLower) := by
  unfold normToken
  have : w.all (fun c => decide (c.toNat < 128)) = true := by
    rw [List.all_eq_true]; intro c hc; simpa using h c hc
  rw [if_pos this]; rfl


/-! ### `splitWs` commutes with whitespace-preserving character maps -/

theorem flush_map (f : Char → Char) (cur : List Char) (acc : List (List Char)) :
    flush (cur.map f) (acc.map (List.map f)) = (flush cur acc).map (List.map f) := by
  cases cur with
  | nil => rfl
  | cons c cur => simp [flush, List.map_reverse]

theorem go_map (f : Char → Char) : ∀ (s : List Char), (∀ c ∈ s, isSp (f c) = isSp c) →
    ∀ (cur : List Char) (acc : List (List Char)),
      splitWs.go (s.map f) (cur.map f) (acc.map (List.map f))
        = (splitWs.go s cur acc).map (List.map f)
  | [], _, cur, acc => by
    rw [List.map_nil, go_nil, go_nil, flush_map, List.map_reverse]
  | c :: s, h, cur, acc => by
    have hc := h c List.mem_cons_self
    have hs : ∀ d ∈ s, isSp (f d) = isSp d := fun d hd => h d (List.mem_cons_of_mem _ hd)
    cases hsp : isSp c with
    | true =>
      rw [hsp] at hc
      rw [List.map_cons, go_cons_space hc, go_cons_space hsp, flush_map]
      exact go_map f s hs [] (flush cur acc)
    | false =>
      rw [hsp] at hc
      rw [List.map_cons, go_cons_char hc, go_cons_char hsp]
      exact go_map f s hs (c :: cur) acc

theorem splitWs_map (f : Char → Char) (s : List Char) (h : ∀ c ∈ s, isSp (f c) = isSp c) :
    splitWs (s.map f) = (splitWs s).map (List.map f) := by
  unfold splitWs
  exact go_map f s h [] []

/-- every character of every token comes from the input -/
theorem go_forall (P : Char → Prop) : ∀ (s : List Char), (∀ c ∈ s, P c) →
    ∀ (cur : List Char) (acc : List (List Char)), (∀ c ∈ cur, P c) → (∀ t ∈ acc, ∀ c ∈ t, P c) →
      ∀ t ∈ splitWs.go s cur acc, ∀ c ∈ t, P c
  | [], _, cur, acc, hcur, hacc => by
    rw [go_nil]
    intro t ht
    rw [List.mem_reverse] at ht
    cases cur with
    | nil => exact hacc t ht
    | cons d cur =>
      simp only [flush, List.isEmpty_cons, Bool.false_eq_true, if_false, List.mem_cons] at ht
      rcases ht with rfl | ht
      · intro c hc; exact hcur c (List.mem_reverse.1 hc)
      · exact hacc t ht
  | d :: s, h, cur, acc, hcur, hacc => by
    have hs : ∀ c ∈ s, P c := fun c hc => h c (List.mem_cons_of_mem _ hc)
    cases hsp : isSp d with
    | true =>
      rw [go_cons_space hsp]
      apply go_forall P s hs [] _ (fun _ hc => by cases hc)
      intro t ht
      cases cur with
      | nil => exact hacc t ht
      | cons e cur =>
        simp only [flush, List.isEmpty_cons, Bool.false_eq_true, if_false, List.mem_cons] at ht
        rcases ht with rfl | ht
        · intro c hc; exact hcur c (List.mem_reverse.1 hc)
        · exact hacc t ht
    | false =>
      rw [go_cons_char hsp]
      apply go_forall P s hs (d :: cur) acc _ hacc
      intro c hc
      rcases List.mem_cons.1 hc with rfl | hc
      · exact h _ List.mem_cons_self
      · exact hcur c hc

theorem splitWs_forall (P : Char → Prop) (s : List Char) (h : ∀ c ∈ s, P c) :
    ∀ t ∈ splitWs s, ∀ c ∈ t, P c := by
  unfold splitWs
  exact go_forall P s h [] [] (fun _ hc => by cases hc) (fun _ ht => by cases ht)

theorem mapM_map_congr {α β} (f : α → R β) (g : α → α) :
    ∀ (l : List α), (∀ x ∈ l, f (g x) = f x) → (l.map g).mapM f = l.mapM f
  | [], _ => rfl
  | x :: l, h => by
    rw [List.map_cons, List.mapM_cons, List.mapM_cons, h x List.mem_cons_self,
      mapM_map_congr f g l (fun y hy => h y (List.mem_cons_of_mem _ hy))]

/-- on ASCII, changing the case does not change what is whitespace -/
theorem ascii_space_table : ∀ n : Fin 128,
    isSp (Char.ofNat n.val).toUpper = isSp (Char.ofNat n.val) ∧
    isSp (Char.ofNat n.val).toLower = isSp (Char.ofNat n.val) := by
  decide

theorem ascii_space {c : Char} (h : c.toNat < 128) :
    isSp c.toUpper = isSp c ∧ isSp c.toLower = isSp c := by
  have := ascii_space_table ⟨c.toNat, h⟩
  simpa [Char.ofNat_toNat] using this

end BipVerif.Model.SeedLemmas
