/-
Error detection of the Bech32 / Bech32m / CashAddr checksums, part 2: THREE and FOUR substituted
symbols, by a lane-parallel kernel evaluation.

  * `bech32_detects_three`: 3 substitutions, data part ≤ 256 symbols;
  * `bech32_detects_four` : 4 substitutions, data part ≤ 89 symbols — with parts 1–3 this is the
    BIP-173 guarantee "any error affecting at most 4 characters is detected" (a BIP-173 string has at
    most 88 data symbols), for substitutions in the data part;
  * `bch_detects_three`   : CashAddr, 3 substitutions, data part ≤ 113 symbols.

`BechDistance.lean` reduces "`w` substitutions are detected" to facts of the form
`x^k1 (x^k2 (x^k3 a ^^^ b) ^^^ c) ≥ 32` for all symbols `a, b, c ∈ [1,31]` and all distances with
`k1 + k2 + k3 ≤ N`.  For four errors in 89 symbols that is 31^3 · C(89,3) ≈ 3·10^9 register steps,
far too many for a scalar kernel loop.  Two reductions make it a one-minute computation:

  * SIMD inside a bignum: the registers for all `(b, c)` are packed as 30-bit lanes of ONE natural
    number; `&&&`, `^^^`, shifts and a multiplication by the generator constants act on all 961
    lanes at once, and "every lane ≥ 32" is one addition and a mask.  `vX_pack` / `vTest_spec`
    prove (for any number of lanes and any register width) that these big-number operations are the
    lane-wise register step and the lane-wise test; `runV_spec`, `loopK2_spec`, `loopK3_spec`
    turn the kernel-evaluated loops into the quantified facts.
  * GF(32) symmetry (Bech32 only): the generator is a polynomial over GF(32), so the symbol-wise
    scalar multiplications `smul lam` are GF(2)-linear maps commuting with `x`; scaling by `a⁻¹`
    moves the first error symbol to `1` (`scale_first`).  Linearity is by construction (`linExp`),
    the commutation law is checked on the 30 basis vectors and extended by `lin_ext`.

Cost: the kernel keeps every intermediate 3.6 kB number in the reduction cache of the declaration
being checked (≈ 12 GB over all of them), hence the four-error evaluation is cut into 7 declarations
of ≈ 2 GB each, checked sequentially (`Elab.async false`).

Remark (evaluated, not needed for the theorems): the bound 89 is sharp for this method — the same
checker with budget 89 instead of 88 (`loopK3 bStp bTst bP2 bP 87 89 bStart`) evaluates to `false`,
i.e. some 4-symbol error in a 90-symbol data part is undetected, as BIP-173 says.  The three-error
checker still evaluates to `true` with budget 1022 (2 minutes, 7 GB); only 255 is used here.
-/
import BipVerif.Lemmas.BechDistance

namespace BipVerif.Model
open BipVerif

/-! ### three further errors after a state -/

section Generic
variable {W : Nat} {G : Nat → Nat}

theorem LinReg.tail_three (h : LinReg W G) : ∀ (t : List Nat) (c : Nat), c < 2 ^ (W + 5) →
    (∀ x ∈ t, x < 32) → weight t = 3 →
    (∀ k3 b k2 c' k1, 1 ≤ k3 → 1 ≤ b → b < 32 → 1 ≤ k2 → 1 ≤ c' → c' < 32 → 1 ≤ k1 →
      k1 + k2 + k3 ≤ t.length →
      32 ≤ iter (mulX W G) k1 (iter (mulX W G) k2 (iter (mulX W G) k3 c ^^^ b) ^^^ c')) →
    pmRun W G c t ≠ 0 := by
  intro t
  induction t with
  | nil => intro c _ _ hw; simp [weight] at hw
  | cons x t ih =>
    intro c hc hlt hw hK
    rw [pmRun_cons]
    by_cases hx : x = 0
    · subst hx
      rw [weight_cons_zero] at hw
      rw [Nat.xor_zero]
      exact ih _ (h.mulX_lt c) (fun y hy => hlt y (by simp [hy])) hw
        (fun k3 b k2 c' k1 h1 h2 h3 h4 h5 h6 h7 h8 =>
          hK (k3 + 1) b k2 c' k1 (by omega) h2 h3 h4 h5 h6 h7
            (by simp only [List.length_cons]; omega))
    · rw [weight_cons_ne hx] at hw
      have hx32 : x < 32 := hlt x (by simp)
      exact h.tail_two t _
        (Nat.xor_lt_two_pow (h.mulX_lt c) (Nat.lt_of_lt_of_le hx32 (le32_pow W)))
        (fun y hy => hlt y (by simp [hy])) (by omega)
        (fun k2 c' k1 h1 h2 h3 h4 h5 => hK 1 x k2 c' k1 (by omega) (by omega) hx32 h1 h2 h3 h4
          (by simp only [List.length_cons]; omega))

/-- **four errors**, given the corresponding fact about `x`. -/
theorem LinReg.weight_four (h : LinReg W G) (N : Nat)
    (hN : ∀ a, 1 ≤ a → a < 32 → ∀ k3 b k2 c k1, 1 ≤ k3 → 1 ≤ b → b < 32 → 1 ≤ k2 → 1 ≤ c → c < 32 →
      1 ≤ k1 → k1 + k2 + k3 ≤ N →
      32 ≤ iter (mulX W G) k1 (iter (mulX W G) k2 (iter (mulX W G) k3 a ^^^ b) ^^^ c)) :
    ∀ e : List Nat, (∀ x ∈ e, x < 32) → weight e = 4 → e.length ≤ N + 1 → pmRun W G 0 e ≠ 0 := by
  intro e
  induction e with
  | nil => intro _ hw; simp [weight] at hw
  | cons x t ih =>
    intro hlt hw hlen
    simp only [List.length_cons] at hlen
    by_cases hx : x = 0
    · subst hx
      rw [weight_cons_zero] at hw
      rw [h.pmRun_zero_cons_zero]
      exact ih (fun y hy => hlt y (by simp [hy])) hw (by omega)
    · rw [weight_cons_ne hx] at hw
      rw [h.pmRun_zero_cons]
      have hx32 : x < 32 := hlt x (by simp)
      exact h.tail_three t x (Nat.lt_of_lt_of_le hx32 (le32_pow W))
        (fun y hy => hlt y (by simp [hy])) (by omega)
        (fun k3 b k2 c k1 h1 h2 h3 h4 h5 h6 h7 h8 =>
          hN x (by omega) hx32 k3 b k2 c k1 h1 h2 h3 h4 h5 h6 h7 (by omega))

theorem iter_add (f : Nat → Nat) : ∀ a b c, iter f (a + b) c = iter f a (iter f b c) := by
  intro a b
  induction b with
  | zero => intro c; rfl
  | succ b ih =>
    intro c
    show iter f (a + b) (f c) = iter f a (iter f b (f c))
    exact ih (f c)

end Generic

/-! ### lanes packed into one natural number -/

/-- little-endian packing of `L`-bit lanes. -/
def pack (L : Nat) : List Nat → Nat
  | [] => 0
  | v :: t => v + 2 ^ L * pack L t

theorem lane_testBit {L v : Nat} (V : Nat) (hv : v < 2 ^ L) (j : Nat) :
    (v + 2 ^ L * V).testBit j = if j < L then v.testBit j else V.testBit (j - L) := by
  rw [Nat.add_comm, Nat.testBit_two_pow_mul_add V hv]

theorem and_split {L v a : Nat} (V A : Nat) (hv : v < 2 ^ L) (ha : a < 2 ^ L) :
    (v + 2 ^ L * V) &&& (a + 2 ^ L * A) = (v &&& a) + 2 ^ L * (V &&& A) := by
  have hva : v &&& a < 2 ^ L := Nat.lt_of_le_of_lt Nat.and_le_left hv
  apply Nat.eq_of_testBit_eq
  intro j
  rw [Nat.testBit_and, lane_testBit _ hv, lane_testBit _ ha, lane_testBit _ hva]
  by_cases h : j < L <;> simp [h, Nat.testBit_and]

theorem xor_split {L v a : Nat} (V A : Nat) (hv : v < 2 ^ L) (ha : a < 2 ^ L) :
    (v + 2 ^ L * V) ^^^ (a + 2 ^ L * A) = (v ^^^ a) + 2 ^ L * (V ^^^ A) := by
  have hva : v ^^^ a < 2 ^ L := Nat.xor_lt_two_pow hv ha
  apply Nat.eq_of_testBit_eq
  intro j
  rw [Nat.testBit_xor, lane_testBit _ hv, lane_testBit _ ha, lane_testBit _ hva]
  by_cases h : j < L <;> simp [h, Nat.testBit_xor]

theorem shl_split (L a b s : Nat) : (a + 2 ^ L * b) <<< s = (a <<< s) + 2 ^ L * (b <<< s) := by
  simp only [Nat.shiftLeft_eq]; ring

/-- shift right and mask: no bit of the next lane leaks in as long as the mask lane is short. -/
theorem shr_and_split {L s v m : Nat} (V M : Nat) (hs : s ≤ L) (hv : v < 2 ^ L)
    (hm : m < 2 ^ (L - s)) :
    ((v + 2 ^ L * V) >>> s) &&& (m + 2 ^ L * M) = ((v >>> s) &&& m) + 2 ^ L * ((V >>> s) &&& M) := by
  have hm' : m < 2 ^ L := Nat.lt_of_lt_of_le hm (Nat.pow_le_pow_right (by omega) (by omega))
  have hr : (v >>> s) &&& m < 2 ^ L := Nat.lt_of_le_of_lt Nat.and_le_right hm'
  apply Nat.eq_of_testBit_eq
  intro j
  rw [Nat.testBit_and, Nat.testBit_shiftRight, lane_testBit _ hv, lane_testBit _ hm',
    lane_testBit _ hr]
  by_cases h : j < L
  · by_cases h2 : s + j < L
    · simp [h, h2, Nat.testBit_and, Nat.testBit_shiftRight]
    · have hmj : m.testBit j = false :=
        Nat.testBit_lt_two_pow (Nat.lt_of_lt_of_le hm (Nat.pow_le_pow_right (by omega) (by omega)))
      simp [h, h2, Nat.testBit_and, hmj]
  · have h2 : ¬ s + j < L := by omega
    have e : s + j - L = s + (j - L) := by omega
    simp [h, h2, e, Nat.testBit_and, Nat.testBit_shiftRight]

theorem split_inj {L a c x y : Nat} (ha : a < 2 ^ L) (hc : c < 2 ^ L)
    (h : a + 2 ^ L * x = c + 2 ^ L * y) : a = c ∧ x = y := by
  have h1 : a = c := by
    have := congrArg (· % 2 ^ L) h
    simpa [Nat.add_mul_mod_self_left, Nat.mod_eq_of_lt ha, Nat.mod_eq_of_lt hc] using this
  subst h1
  exact ⟨rfl, Nat.eq_of_mul_eq_mul_left (Nat.two_pow_pos L) (Nat.add_left_cancel h)⟩

theorem pack_xor_map {τ : Type} (L : Nat) (g h : τ → Nat) : ∀ T : List τ,
    (∀ t ∈ T, g t < 2 ^ L) → (∀ t ∈ T, h t < 2 ^ L) →
    pack L (T.map g) ^^^ pack L (T.map h) = pack L (T.map fun t => g t ^^^ h t) := by
  intro T
  induction T with
  | nil => intro _ _; simp [pack]
  | cons t T ih =>
    intro hg hh
    simp only [List.map_cons, pack]
    rw [xor_split _ _ (hg t (by simp)) (hh t (by simp)),
      ih (fun u hu => hg u (by simp [hu])) (fun u hu => hh u (by simp [hu]))]

/-! ### the register step and the `≥ 32` test on all lanes at once -/

section Vec
variable (W g0 g1 g2 g3 g4 : Nat)

/-- one lane: the register step `c ↦ pmStep W G c 0` with the feedback written as a sum of
bit × generator products. -/
def sX (v : Nat) : Nat :=
  ((v &&& (2 ^ W - 1)) <<< 5) ^^^
    ((((v >>> W) &&& 1) * g0) ^^^ ((((v >>> (W + 1)) &&& 1) * g1) ^^^
      ((((v >>> (W + 2)) &&& 1) * g2) ^^^ ((((v >>> (W + 3)) &&& 1) * g3) ^^^
        (((v >>> (W + 4)) &&& 1) * g4)))))

/-- all lanes: `M` is the lane mask `2^W - 1` in every lane, `O` is `1` in every lane. -/
def vX (M O V : Nat) : Nat :=
  Nat.xor (Nat.shiftLeft (Nat.land V M) 5)
    (Nat.xor (Nat.mul (Nat.land (Nat.shiftRight V W) O) g0)
      (Nat.xor (Nat.mul (Nat.land (Nat.shiftRight V (Nat.add W 1)) O) g1)
        (Nat.xor (Nat.mul (Nat.land (Nat.shiftRight V (Nat.add W 2)) O) g2)
          (Nat.xor (Nat.mul (Nat.land (Nat.shiftRight V (Nat.add W 3)) O) g3)
            (Nat.mul (Nat.land (Nat.shiftRight V (Nat.add W 4)) O) g4)))))

theorem vX_eq (M O V : Nat) : vX W g0 g1 g2 g3 g4 M O V =
    ((V &&& M) <<< 5) ^^^
      ((((V >>> W) &&& O) * g0) ^^^ ((((V >>> (W + 1)) &&& O) * g1) ^^^
        ((((V >>> (W + 2)) &&& O) * g2) ^^^ ((((V >>> (W + 3)) &&& O) * g3) ^^^
          (((V >>> (W + 4)) &&& O) * g4))))) := rfl

theorem term_split {L s v : Nat} (V O g : Nat) (hs : s < L) (hv : v < 2 ^ L) :
    (((v + 2 ^ L * V) >>> s) &&& (1 + 2 ^ L * O)) * g
      = ((v >>> s) &&& 1) * g + 2 ^ L * ((((V >>> s) &&& O)) * g) := by
  rw [shr_and_split V O (Nat.le_of_lt hs) hv (Nat.one_lt_two_pow (by omega))]
  ring

theorem bit_mul_lt {L g : Nat} (x : Nat) (hg : g < 2 ^ L) : (x &&& 1) * g < 2 ^ L :=
  Nat.lt_of_le_of_lt
    (by have := Nat.mul_le_mul_right g (Nat.and_le_right (n := x) (m := 1)); simpa using this) hg

theorem mask_lt (W : Nat) : 2 ^ W - 1 < 2 ^ (W + 5) :=
  Nat.lt_of_lt_of_le (Nat.sub_lt (Nat.two_pow_pos W) (by omega))
    (Nat.pow_le_pow_right (by omega) (by omega))

theorem vX_split (hg0 : g0 < 2 ^ (W + 5)) (hg1 : g1 < 2 ^ (W + 5)) (hg2 : g2 < 2 ^ (W + 5))
    (hg3 : g3 < 2 ^ (W + 5)) (hg4 : g4 < 2 ^ (W + 5)) (v V M O : Nat) (hv : v < 2 ^ (W + 5)) :
    vX W g0 g1 g2 g3 g4 (2 ^ W - 1 + 2 ^ (W + 5) * M) (1 + 2 ^ (W + 5) * O) (v + 2 ^ (W + 5) * V)
      = sX W g0 g1 g2 g3 g4 v + 2 ^ (W + 5) * vX W g0 g1 g2 g3 g4 M O V := by
  rw [vX_eq, vX_eq, sX]
  have hA : (v &&& (2 ^ W - 1)) <<< 5 < 2 ^ (W + 5) := by
    rw [Nat.shiftLeft_eq, pow_add]
    exact Nat.mul_lt_mul_of_pos_right
      (Nat.lt_of_le_of_lt Nat.and_le_right (Nat.sub_lt (Nat.two_pow_pos W) (by omega)))
      (by norm_num)
  have h0 := bit_mul_lt (v >>> W) hg0
  have h1 := bit_mul_lt (v >>> (W + 1)) hg1
  have h2 := bit_mul_lt (v >>> (W + 2)) hg2
  have h3 := bit_mul_lt (v >>> (W + 3)) hg3
  have h4 := bit_mul_lt (v >>> (W + 4)) hg4
  have h34 := Nat.xor_lt_two_pow h3 h4
  have h234 := Nat.xor_lt_two_pow h2 h34
  have h1234 := Nat.xor_lt_two_pow h1 h234
  have h01234 := Nat.xor_lt_two_pow h0 h1234
  rw [and_split V M hv (mask_lt W), shl_split,
    term_split V O g0 (by omega : W < W + 5) hv, term_split V O g1 (by omega : W + 1 < W + 5) hv,
    term_split V O g2 (by omega : W + 2 < W + 5) hv, term_split V O g3 (by omega : W + 3 < W + 5) hv,
    term_split V O g4 (by omega : W + 4 < W + 5) hv,
    xor_split _ _ h3 h4, xor_split _ _ h2 h34, xor_split _ _ h1 h234, xor_split _ _ h0 h1234,
    xor_split _ _ hA h01234]

theorem sX_lt (hg0 : g0 < 2 ^ (W + 5)) (hg1 : g1 < 2 ^ (W + 5)) (hg2 : g2 < 2 ^ (W + 5))
    (hg3 : g3 < 2 ^ (W + 5)) (hg4 : g4 < 2 ^ (W + 5)) (v : Nat) :
    sX W g0 g1 g2 g3 g4 v < 2 ^ (W + 5) := by
  rw [sX]
  have hA : (v &&& (2 ^ W - 1)) <<< 5 < 2 ^ (W + 5) := by
    rw [Nat.shiftLeft_eq, pow_add]
    exact Nat.mul_lt_mul_of_pos_right
      (Nat.lt_of_le_of_lt Nat.and_le_right (Nat.sub_lt (Nat.two_pow_pos W) (by omega)))
      (by norm_num)
  exact Nat.xor_lt_two_pow hA (Nat.xor_lt_two_pow (bit_mul_lt _ hg0) (Nat.xor_lt_two_pow
    (bit_mul_lt _ hg1) (Nat.xor_lt_two_pow (bit_mul_lt _ hg2) (Nat.xor_lt_two_pow
      (bit_mul_lt _ hg3) (bit_mul_lt _ hg4)))))

/-- **the big-number step is the lane-wise step.** -/
theorem vX_pack (hg0 : g0 < 2 ^ (W + 5)) (hg1 : g1 < 2 ^ (W + 5)) (hg2 : g2 < 2 ^ (W + 5))
    (hg3 : g3 < 2 ^ (W + 5)) (hg4 : g4 < 2 ^ (W + 5)) : ∀ l : List Nat,
    (∀ v ∈ l, v < 2 ^ (W + 5)) →
    vX W g0 g1 g2 g3 g4 (pack (W + 5) (List.replicate l.length (2 ^ W - 1)))
      (pack (W + 5) (List.replicate l.length 1)) (pack (W + 5) l)
      = pack (W + 5) (l.map (sX W g0 g1 g2 g3 g4)) := by
  intro l
  induction l with
  | nil => intro _; simp [pack, vX_eq]
  | cons v t ih =>
    intro hl
    simp only [List.length_cons, List.replicate_succ, pack, List.map_cons]
    rw [vX_split W g0 g1 g2 g3 g4 hg0 hg1 hg2 hg3 hg4 v _ _ _ (hl v (by simp)),
      ih (fun u hu => hl u (by simp [hu]))]

/-- the test: in every lane `((v >>> 5) &&& (2^W-1)) + (2^W-1)` reaches bit `W` iff `v ≥ 32`. -/
def vTest (M O V : Nat) : Bool :=
  Nat.beq (Nat.land (Nat.shiftRight (Nat.add (Nat.land (Nat.shiftRight V 5) M) M) W) O) O

def vTestVal (M O V : Nat) : Nat := ((((V >>> 5) &&& M) + M) >>> W) &&& O

theorem vTest_eq (M O V : Nat) : vTest W M O V = Nat.beq (vTestVal W M O V) O := rfl

theorem vTestVal_split (v V M O : Nat) (hv : v < 2 ^ (W + 5)) :
    vTestVal W (2 ^ W - 1 + 2 ^ (W + 5) * M) (1 + 2 ^ (W + 5) * O) (v + 2 ^ (W + 5) * V)
      = vTestVal W (2 ^ W - 1) 1 v + 2 ^ (W + 5) * vTestVal W M O V := by
  unfold vTestVal
  have hmW : 2 ^ W - 1 < 2 ^ (W + 5 - 5) := by
    rw [Nat.add_sub_cancel]; exact Nat.sub_lt (Nat.two_pow_pos W) (by omega)
  have hmW' : 2 ^ W - 1 < 2 ^ W := Nat.sub_lt (Nat.two_pow_pos W) (by omega)
  rw [shr_and_split V M (by omega : 5 ≤ W + 5) hv hmW]
  have hh : (v >>> 5) &&& (2 ^ W - 1) ≤ 2 ^ W - 1 := Nat.and_le_right
  have hsum : ((v >>> 5) &&& (2 ^ W - 1)) + (2 ^ W - 1) < 2 ^ (W + 5) := by
    have : 2 ^ (W + 5) = 2 ^ W * 32 := by rw [pow_add]; norm_num
    omega
  have e : ((v >>> 5) &&& (2 ^ W - 1)) + 2 ^ (W + 5) * ((V >>> 5) &&& M)
      + (2 ^ W - 1 + 2 ^ (W + 5) * M)
      = (((v >>> 5) &&& (2 ^ W - 1)) + (2 ^ W - 1))
        + 2 ^ (W + 5) * (((V >>> 5) &&& M) + M) := by ring
  rw [e, shr_and_split _ O (by omega : W ≤ W + 5) hsum
    (by rw [Nat.add_sub_cancel_left]; norm_num)]

theorem vTestVal_lane (v : Nat) (h : vTestVal W (2 ^ W - 1) 1 v = 1) : 32 ≤ v := by
  by_contra hlt
  have h5 : v >>> 5 = 0 := by
    rw [Nat.shiftRight_eq_div_pow]; exact Nat.div_eq_of_lt (by omega)
  unfold vTestVal at h
  rw [h5, Nat.zero_and, Nat.zero_add, Nat.shiftRight_eq_div_pow,
    Nat.div_eq_of_lt (Nat.sub_lt (Nat.two_pow_pos W) (by omega)), Nat.zero_and] at h
  omega

/-- **the big-number test implies the lane-wise test.** -/
theorem vTest_spec : ∀ l : List Nat, (∀ v ∈ l, v < 2 ^ (W + 5)) →
    vTest W (pack (W + 5) (List.replicate l.length (2 ^ W - 1)))
      (pack (W + 5) (List.replicate l.length 1)) (pack (W + 5) l) = true →
    ∀ v ∈ l, 32 ≤ v := by
  intro l
  induction l with
  | nil => intro _ _ v hv; simp at hv
  | cons v t ih =>
    intro hl h
    rw [vTest_eq] at h
    have h' := Nat.eq_of_beq_eq_true h
    simp only [List.length_cons, List.replicate_succ, pack] at h'
    rw [vTestVal_split W v _ _ _ (hl v (by simp))] at h'
    have hr : vTestVal W (2 ^ W - 1) 1 v < 2 ^ (W + 5) := by
      unfold vTestVal
      exact Nat.lt_of_le_of_lt Nat.and_le_right (Nat.one_lt_two_pow (by omega))
    obtain ⟨e1, e2⟩ := split_inj hr (Nat.one_lt_two_pow (by omega)) h'
    intro u hu
    simp only [List.mem_cons] at hu
    rcases hu with rfl | hu
    · exact vTestVal_lane W u e1
    · refine ih (fun w hw => hl w (by simp [hw])) ?_ u hu
      rw [vTest_eq, e2]
      exact Nat.beq_refl _

theorem vX_pack_map (hg0 : g0 < 2 ^ (W + 5)) (hg1 : g1 < 2 ^ (W + 5)) (hg2 : g2 < 2 ^ (W + 5))
    (hg3 : g3 < 2 ^ (W + 5)) (hg4 : g4 < 2 ^ (W + 5)) {τ : Type} (T : List τ) (g : τ → Nat)
    (hg : ∀ t ∈ T, g t < 2 ^ (W + 5)) :
    vX W g0 g1 g2 g3 g4 (pack (W + 5) (List.replicate T.length (2 ^ W - 1)))
      (pack (W + 5) (List.replicate T.length 1)) (pack (W + 5) (T.map g))
      = pack (W + 5) (T.map fun t => sX W g0 g1 g2 g3 g4 (g t)) := by
  have h := vX_pack W g0 g1 g2 g3 g4 hg0 hg1 hg2 hg3 hg4 (T.map g) (by
    intro v hv
    obtain ⟨t, ht, rfl⟩ := List.mem_map.1 hv
    exact hg t ht)
  rw [List.length_map, List.map_map] at h
  exact h

theorem vTest_map {τ : Type} (T : List τ) (g : τ → Nat) (hg : ∀ t ∈ T, g t < 2 ^ (W + 5))
    (h : vTest W (pack (W + 5) (List.replicate T.length (2 ^ W - 1)))
      (pack (W + 5) (List.replicate T.length 1)) (pack (W + 5) (T.map g)) = true) :
    ∀ t ∈ T, 32 ≤ g t := by
  have h' := vTest_spec W (T.map g) (by
    intro v hv
    obtain ⟨t, ht, rfl⟩ := List.mem_map.1 hv
    exact hg t ht)
  rw [List.length_map] at h'
  intro t ht
  exact h' h (g t) (List.mem_map_of_mem ht)

end Vec

/-! ### the kernel-evaluated loops over a packed vector

`stp` is the vector step, `tst` the vector test; `P2`, `P` are packed symbol patterns. -/

/-- `k1 = 1 … n`: step, test. -/
noncomputable def runV (stp : Nat → Nat) (tst : Nat → Bool) (n : Nat) : Nat → Bool :=
  Nat.rec (motive := fun _ => Nat → Bool) (fun _ => true)
    (fun _ ih V => Bool.rec false (ih (stp V)) (tst (stp V))) n

/-- `k2 = 1 … n`: step, then `runV (n - k2)` from the state with the pattern `P` XOR-ed in. -/
noncomputable def loopK2 (stp : Nat → Nat) (tst : Nat → Bool) (P : Nat) (n : Nat) : Nat → Bool :=
  Nat.rec (motive := fun _ => Nat → Bool) (fun _ => true)
    (fun n ih V => Bool.rec false (ih (stp V)) (runV stp tst n (Nat.xor (stp V) P))) n

/-- `cnt` values of `k3` with remaining budget `n`: step, then `loopK2 (n - 1)` from the state with
`P2` XOR-ed in. -/
noncomputable def loopK3 (stp : Nat → Nat) (tst : Nat → Bool) (P2 P : Nat) (cnt : Nat) :
    Nat → Nat → Bool :=
  Nat.rec (motive := fun _ => Nat → Nat → Bool) (fun _ _ => true)
    (fun _ ih n V => Bool.rec false (ih (Nat.pred n) (stp V))
      (loopK2 stp tst P (Nat.pred n) (Nat.xor (stp V) P2))) cnt

noncomputable def iterV (stp : Nat → Nat) (n : Nat) : Nat → Nat :=
  Nat.rec (motive := fun _ => Nat → Nat) (fun V => V) (fun _ ih V => ih (stp V)) n

theorem runV_succ (stp : Nat → Nat) (tst : Nat → Bool) (n V : Nat) :
    runV stp tst (n + 1) V = Bool.rec false (runV stp tst n (stp V)) (tst (stp V)) := rfl

theorem loopK2_succ (stp : Nat → Nat) (tst : Nat → Bool) (P n V : Nat) :
    loopK2 stp tst P (n + 1) V
      = Bool.rec false (loopK2 stp tst P n (stp V)) (runV stp tst n (stp V ^^^ P)) := rfl

theorem loopK3_succ (stp : Nat → Nat) (tst : Nat → Bool) (P2 P cnt n V : Nat) :
    loopK3 stp tst P2 P (cnt + 1) n V
      = Bool.rec false (loopK3 stp tst P2 P cnt (n - 1) (stp V))
          (loopK2 stp tst P (n - 1) (stp V ^^^ P2)) := rfl

theorem iterV_succ (stp : Nat → Nat) (n V : Nat) : iterV stp (n + 1) V = iterV stp n (stp V) := rfl

section LoopSpec
variable {τ : Type} {L : Nat} {f : Nat → Nat} {stp : Nat → Nat} {tst : Nat → Bool} (T : List τ)
variable (hf : ∀ v, f v < 2 ^ L)
variable (hstp : ∀ g : τ → Nat, (∀ t ∈ T, g t < 2 ^ L) →
  stp (pack L (T.map g)) = pack L (T.map fun t => f (g t)))
variable (htst : ∀ g : τ → Nat, (∀ t ∈ T, g t < 2 ^ L) → tst (pack L (T.map g)) = true →
  ∀ t ∈ T, 32 ≤ g t)
include hf hstp htst

theorem runV_spec : ∀ (n : Nat) (g : τ → Nat), (∀ t ∈ T, g t < 2 ^ L) →
    runV stp tst n (pack L (T.map g)) = true →
    ∀ k1, 1 ≤ k1 → k1 ≤ n → ∀ t ∈ T, 32 ≤ iter f k1 (g t) := by
  intro n
  induction n with
  | zero => intro g _ _ k1 h1 h2; omega
  | succ n ih =>
    intro g hg h k1 h1 h2 t ht
    rw [runV_succ, hstp g hg] at h
    obtain ⟨h3, h4⟩ := boolrec_true h
    cases k1 with
    | zero => omega
    | succ j =>
      cases j with
      | zero => exact htst _ (fun u _ => hf _) h3 t ht
      | succ i => exact ih _ (fun u _ => hf _) h4 (i + 1) (by omega) (by omega) t ht

theorem loopK2_spec : ∀ (n : Nat) (g h : τ → Nat), (∀ t ∈ T, g t < 2 ^ L) →
    (∀ t ∈ T, h t < 2 ^ L) →
    loopK2 stp tst (pack L (T.map h)) n (pack L (T.map g)) = true →
    ∀ k2 k1, 1 ≤ k2 → 1 ≤ k1 → k1 + k2 ≤ n → ∀ t ∈ T, 32 ≤ iter f k1 (iter f k2 (g t) ^^^ h t) := by
  intro n
  induction n with
  | zero => intro g h _ _ _ k2 k1 h1 h2 h3; omega
  | succ n ih =>
    intro g h hg hh hc k2 k1 h1 h2 h3 t ht
    rw [loopK2_succ, hstp g hg, pack_xor_map L _ h T (fun u _ => hf _) hh] at hc
    obtain ⟨h4, h5⟩ := boolrec_true hc
    cases k2 with
    | zero => omega
    | succ j =>
      cases j with
      | zero =>
        exact runV_spec T hf hstp htst n _
          (fun u hu => Nat.xor_lt_two_pow (hf _) (hh u hu)) h4 k1 h2 (by omega) t ht
      | succ i => exact ih _ h (fun u _ => hf _) hh h5 (i + 1) k1 (by omega) h2 (by omega) t ht

theorem loopK3_spec : ∀ (cnt n : Nat) (g h2 h : τ → Nat), (∀ t ∈ T, g t < 2 ^ L) →
    (∀ t ∈ T, h2 t < 2 ^ L) → (∀ t ∈ T, h t < 2 ^ L) →
    loopK3 stp tst (pack L (T.map h2)) (pack L (T.map h)) cnt n (pack L (T.map g)) = true →
    ∀ k3 k2 k1, 1 ≤ k3 → k3 ≤ cnt → 1 ≤ k2 → 1 ≤ k1 → k1 + k2 + k3 ≤ n → ∀ t ∈ T,
      32 ≤ iter f k1 (iter f k2 (iter f k3 (g t) ^^^ h2 t) ^^^ h t) := by
  intro cnt
  induction cnt with
  | zero => intro n g h2 h _ _ _ _ k3 k2 k1 h1 h2; omega
  | succ cnt ih =>
    intro n g h2 h hg hh2 hh hc k3 k2 k1 h1 h1' h2' h3 h4 t ht
    rw [loopK3_succ, hstp g hg, pack_xor_map L _ h2 T (fun u _ => hf _) hh2] at hc
    obtain ⟨h5, h6⟩ := boolrec_true hc
    cases k3 with
    | zero => omega
    | succ j =>
      cases j with
      | zero =>
        exact loopK2_spec T hf hstp htst (n - 1) _ h
          (fun u hu => Nat.xor_lt_two_pow (hf _) (hh2 u hu)) hh h5 k2 k1 h2' h3 (by omega) t ht
      | succ i =>
        exact ih (n - 1) _ h2 h (fun u _ => hf _) hh2 hh h6 (i + 1) k2 k1 (by omega) (by omega)
          h2' h3 (by omega) t ht

omit htst in
theorem iterV_spec : ∀ (n : Nat) (g : τ → Nat), (∀ t ∈ T, g t < 2 ^ L) →
    iterV stp n (pack L (T.map g)) = pack L (T.map fun t => iter f n (g t)) := by
  intro n
  induction n with
  | zero => intro g _; rfl
  | succ n ih =>
    intro g hg
    rw [iterV_succ, hstp g hg, ih _ (fun u _ => hf _)]
    rfl

end LoopSpec

/-! ### GF(2)-linear maps given by columns; extensionality on the basis `2^i` -/

/-- the linear map with columns `cols 0, …, cols (n-1)`. -/
def linExp (cols : Nat → Nat) : Nat → Nat → Nat
  | 0, _ => 0
  | n + 1, s => linExp cols n s ^^^ (if s.testBit n then cols n else 0)

theorem linExp_linear (cols : Nat → Nat) (n x y : Nat) :
    linExp cols n (x ^^^ y) = linExp cols n x ^^^ linExp cols n y := by
  induction n with
  | zero => simp [linExp]
  | succ n ih =>
    simp only [linExp, ih, Nat.testBit_xor]
    generalize linExp cols n x = p
    generalize linExp cols n y = q
    cases x.testBit n <;> cases y.testBit n
    · simp
    · simp [Nat.xor_assoc]
    · simp only [Bool.xor_false, if_true, Bool.false_eq_true, if_false, Nat.xor_zero]; ac_rfl
    · have e : p ^^^ cols n ^^^ (q ^^^ cols n) = (p ^^^ q) ^^^ (cols n ^^^ cols n) := by ac_rfl
      simp only [Bool.xor_self, Bool.false_eq_true, if_false, if_true, Nat.xor_zero]
      rw [e, Nat.xor_self, Nat.xor_zero]

theorem linExp_lt (cols : Nat → Nat) (L : Nat) : ∀ n, (∀ i, i < n → cols i < 2 ^ L) →
    ∀ s, linExp cols n s < 2 ^ L := by
  intro n
  induction n with
  | zero => intro _ s; simp [linExp]
  | succ n ih =>
    intro h s
    simp only [linExp]
    apply Nat.xor_lt_two_pow (ih (fun i hi => h i (by omega)) s)
    by_cases hb : s.testBit n
    · simp only [hb, if_true]; exact h n (by omega)
    · simp only [hb]; exact Nat.two_pow_pos L

theorem xor_two_pow_lt {n s : Nat} (h1 : 2 ^ n ≤ s) (h2 : s < 2 ^ (n + 1)) : s ^^^ 2 ^ n < 2 ^ n := by
  have hb : s - 2 ^ n < 2 ^ n := by rw [pow_succ] at h2; omega
  have e1 : s = (s - 2 ^ n) + 2 ^ n * 1 := by omega
  have e2 : 2 ^ n = 0 + 2 ^ n * 1 := by omega
  have := xor_split (L := n) 1 1 hb (Nat.two_pow_pos n)
  rw [← e1, ← e2, Nat.xor_self, Nat.xor_zero, Nat.mul_zero, Nat.add_zero] at this
  rw [this]; exact hb

/-- two XOR-linear maps that agree on `2^i`, `i < n`, agree below `2^n`. -/
theorem lin_ext (f g : Nat → Nat) (hf : ∀ x y, f (x ^^^ y) = f x ^^^ f y)
    (hg : ∀ x y, g (x ^^^ y) = g x ^^^ g y) : ∀ n, (∀ i, i < n → f (2 ^ i) = g (2 ^ i)) →
    ∀ s, s < 2 ^ n → f s = g s := by
  have f0 : f 0 = 0 := by have := hf 0 0; rw [Nat.xor_self] at this; rw [this, Nat.xor_self]
  have g0 : g 0 = 0 := by have := hg 0 0; rw [Nat.xor_self] at this; rw [this, Nat.xor_self]
  intro n
  induction n with
  | zero =>
    intro _ s hs
    have : s = 0 := by simpa using hs
    rw [this, f0, g0]
  | succ n ih =>
    intro hb s hs
    by_cases hlt : s < 2 ^ n
    · exact ih (fun i hi => hb i (by omega)) s hlt
    · have hr := xor_two_pow_lt (Nat.le_of_not_lt hlt) hs
      have e : s = (s ^^^ 2 ^ n) ^^^ 2 ^ n := by
        rw [Nat.xor_assoc, Nat.xor_self, Nat.xor_zero]
      rw [e, hf, hg, ih (fun i hi => hb i (by omega)) _ hr, hb n (by omega)]

/-! ### scaling the first error symbol to 1 -/

section Scale
variable {W : Nat} {G : Nat → Nat}

theorem LinReg.mulX_linear (h : LinReg W G) (x y : Nat) :
    mulX W G (x ^^^ y) = mulX W G x ^^^ mulX W G y := by
  have := pmStep_linear W G h.lin x y 0 0
  rwa [Nat.xor_self] at this

/-- a family `sm lam` of linear maps commuting with `x`, preserving symbols, transitive on the
non-zero symbols: the four-error fact only has to be checked for first symbol `1`. -/
theorem LinReg.scale_first (h : LinReg W G) (sm : Nat → Nat → Nat) (inv : Nat → Nat)
    (hlin : ∀ lam x y, sm lam (x ^^^ y) = sm lam x ^^^ sm lam y)
    (hcomm : ∀ lam, 1 ≤ lam → lam < 32 → ∀ s, s < 2 ^ (W + 5) →
      sm lam (mulX W G s) = mulX W G (sm lam s))
    (hsym : ∀ lam, lam < 32 → ∀ v, v < 32 → sm lam v < 32 ∧ (1 ≤ lam → 1 ≤ v → 1 ≤ sm lam v))
    (hinv : ∀ a, 1 ≤ a → a < 32 → 1 ≤ inv a ∧ inv a < 32 ∧ sm (inv a) a = 1)
    (N : Nat)
    (H1 : ∀ k3 b k2 c k1, 1 ≤ k3 → 1 ≤ b → b < 32 → 1 ≤ k2 → 1 ≤ c → c < 32 → 1 ≤ k1 →
      k1 + k2 + k3 ≤ N →
      32 ≤ iter (mulX W G) k1 (iter (mulX W G) k2 (iter (mulX W G) k3 1 ^^^ b) ^^^ c)) :
    ∀ a, 1 ≤ a → a < 32 → ∀ k3 b k2 c k1, 1 ≤ k3 → 1 ≤ b → b < 32 → 1 ≤ k2 → 1 ≤ c → c < 32 →
      1 ≤ k1 → k1 + k2 + k3 ≤ N →
      32 ≤ iter (mulX W G) k1 (iter (mulX W G) k2 (iter (mulX W G) k3 a ^^^ b) ^^^ c) := by
  intro a ha1 ha2 k3 b k2 c k1 h1 hb1 hb2 h2 hc1 hc2 h3 h4
  obtain ⟨hm1, hm2, hma⟩ := hinv a ha1 ha2
  have hB : ∀ v, v < 32 → v < 2 ^ (W + 5) := fun v hv => Nat.lt_of_lt_of_le hv (le32_pow W)
  have hiter : ∀ k s, s < 2 ^ (W + 5) →
      sm (inv a) (iter (mulX W G) k s) = iter (mulX W G) k (sm (inv a) s) := by
    intro k
    induction k with
    | zero => intro s _; rfl
    | succ k ih =>
      intro s hs
      show sm (inv a) (iter (mulX W G) k (mulX W G s)) = iter (mulX W G) k (mulX W G (sm (inv a) s))
      rw [ih _ (h.mulX_lt s), hcomm (inv a) hm1 hm2 s hs]
  have l1 : iter (mulX W G) k3 a < 2 ^ (W + 5) := h.iter_lt k3 a (hB a ha2)
  have l2 : iter (mulX W G) k3 a ^^^ b < 2 ^ (W + 5) := Nat.xor_lt_two_pow l1 (hB b hb2)
  have l3 : iter (mulX W G) k2 (iter (mulX W G) k3 a ^^^ b) < 2 ^ (W + 5) := h.iter_lt k2 _ l2
  have l4 : iter (mulX W G) k2 (iter (mulX W G) k3 a ^^^ b) ^^^ c < 2 ^ (W + 5) :=
    Nat.xor_lt_two_pow l3 (hB c hc2)
  have key : sm (inv a) (iter (mulX W G) k1 (iter (mulX W G) k2 (iter (mulX W G) k3 a ^^^ b) ^^^ c))
      = iter (mulX W G) k1 (iter (mulX W G) k2 (iter (mulX W G) k3 1 ^^^ sm (inv a) b)
          ^^^ sm (inv a) c) := by
    rw [hiter k1 _ l4, hlin, hiter k2 _ l2, hlin, hiter k3 a (hB a ha2), hma]
  have hb' := hsym (inv a) hm2 b hb2
  have hc' := hsym (inv a) hm2 c hc2
  have hge := H1 k3 (sm (inv a) b) k2 (sm (inv a) c) k1 h1 (hb'.2 hm1 hb1) hb'.1 h2
    (hc'.2 hm1 hc1) hc'.1 h3 h4
  rw [← key] at hge
  by_contra hlt
  have := (hsym (inv a) hm2 _ (Nat.lt_of_not_le hlt)).1
  omega

/-- the same for the three-error fact. -/
theorem LinReg.scale_first3 (h : LinReg W G) (sm : Nat → Nat → Nat) (inv : Nat → Nat)
    (hlin : ∀ lam x y, sm lam (x ^^^ y) = sm lam x ^^^ sm lam y)
    (hcomm : ∀ lam, 1 ≤ lam → lam < 32 → ∀ s, s < 2 ^ (W + 5) →
      sm lam (mulX W G s) = mulX W G (sm lam s))
    (hsym : ∀ lam, lam < 32 → ∀ v, v < 32 → sm lam v < 32 ∧ (1 ≤ lam → 1 ≤ v → 1 ≤ sm lam v))
    (hinv : ∀ a, 1 ≤ a → a < 32 → 1 ≤ inv a ∧ inv a < 32 ∧ sm (inv a) a = 1)
    (N : Nat)
    (H1 : ∀ k2 b k1, 1 ≤ k2 → 1 ≤ b → b < 32 → 1 ≤ k1 → k1 + k2 ≤ N →
      32 ≤ iter (mulX W G) k1 (iter (mulX W G) k2 1 ^^^ b)) :
    ∀ a, 1 ≤ a → a < 32 → ∀ k2 b k1, 1 ≤ k2 → 1 ≤ b → b < 32 → 1 ≤ k1 → k1 + k2 ≤ N →
      32 ≤ iter (mulX W G) k1 (iter (mulX W G) k2 a ^^^ b) := by
  intro a ha1 ha2 k2 b k1 h2 hb1 hb2 h3 h4
  obtain ⟨hm1, hm2, hma⟩ := hinv a ha1 ha2
  have hB : ∀ v, v < 32 → v < 2 ^ (W + 5) := fun v hv => Nat.lt_of_lt_of_le hv (le32_pow W)
  have hiter : ∀ k s, s < 2 ^ (W + 5) →
      sm (inv a) (iter (mulX W G) k s) = iter (mulX W G) k (sm (inv a) s) := by
    intro k
    induction k with
    | zero => intro s _; rfl
    | succ k ih =>
      intro s hs
      show sm (inv a) (iter (mulX W G) k (mulX W G s)) = iter (mulX W G) k (mulX W G (sm (inv a) s))
      rw [ih _ (h.mulX_lt s), hcomm (inv a) hm1 hm2 s hs]
  have l1 : iter (mulX W G) k2 a < 2 ^ (W + 5) := h.iter_lt k2 a (hB a ha2)
  have l2 : iter (mulX W G) k2 a ^^^ b < 2 ^ (W + 5) := Nat.xor_lt_two_pow l1 (hB b hb2)
  have key : sm (inv a) (iter (mulX W G) k1 (iter (mulX W G) k2 a ^^^ b))
      = iter (mulX W G) k1 (iter (mulX W G) k2 1 ^^^ sm (inv a) b) := by
    rw [hiter k1 _ l2, hlin, hiter k2 a (hB a ha2), hma]
  have hb' := hsym (inv a) hm2 b hb2
  have hge := H1 k2 (sm (inv a) b) k1 h2 (hb'.2 hm1 hb1) hb'.1 h3 h4
  rw [← key] at hge
  by_contra hlt
  have := (hsym (inv a) hm2 _ (Nat.lt_of_not_le hlt)).1
  omega

end Scale

theorem iter3_congr (f g : Nat → Nat) (L : Nat) (hfg : ∀ c, c < 2 ^ L → f c = g c)
    (hg : ∀ c, g c < 2 ^ L) (a b c k3 k2 k1 : Nat) (ha : a < 2 ^ L) (hb : b < 2 ^ L)
    (hc : c < 2 ^ L) :
    iter f k1 (iter f k2 (iter f k3 a ^^^ b) ^^^ c) = iter g k1 (iter g k2 (iter g k3 a ^^^ b) ^^^ c) := by
  have hit : ∀ k x, x < 2 ^ L → iter g k x < 2 ^ L := by
    intro k
    induction k with
    | zero => intro x hx; exact hx
    | succ k ih => intro x _; exact ih _ (hg x)
  rw [iter_congr f g _ hfg hg k3 a ha,
    iter_congr f g _ hfg hg k2 _ (Nat.xor_lt_two_pow (hit k3 a ha) hb),
    iter_congr f g _ hfg hg k1 _ (Nat.xor_lt_two_pow (hit k2 _ (Nat.xor_lt_two_pow (hit k3 a ha) hb)) hc)]

theorem iter2_congr (f g : Nat → Nat) (L : Nat) (hfg : ∀ c, c < 2 ^ L → f c = g c)
    (hg : ∀ c, g c < 2 ^ L) (a b k2 k1 : Nat) (ha : a < 2 ^ L) (hb : b < 2 ^ L) :
    iter f k1 (iter f k2 a ^^^ b) = iter g k1 (iter g k2 a ^^^ b) := by
  have hit : ∀ k x, x < 2 ^ L → iter g k x < 2 ^ L := by
    intro k
    induction k with
    | zero => intro x hx; exact hx
    | succ k ih => intro x _; exact ih _ (hg x)
  rw [iter_congr f g _ hfg hg k2 a ha,
    iter_congr f g _ hfg hg k1 _ (Nat.xor_lt_two_pow (hit k2 a ha) hb)]

/-- the lane step is the register step once the feedback is written with its generators. -/
theorem sX_eq_mulX (W : Nat) (G : Nat → Nat) (g0 g1 g2 g3 g4 : Nat)
    (hG : ∀ t, t < 32 → G t = ((t &&& 1) * g0) ^^^ ((((t >>> 1) &&& 1) * g1) ^^^
      ((((t >>> 2) &&& 1) * g2) ^^^ ((((t >>> 3) &&& 1) * g3) ^^^ (((t >>> 4) &&& 1) * g4)))))
    (v : Nat) (hv : v < 2 ^ (W + 5)) : sX W g0 g1 g2 g3 g4 v = mulX W G v := by
  have ht : v >>> W < 32 := by
    rw [Nat.shiftRight_eq_div_pow, Nat.div_lt_iff_lt_mul (Nat.two_pow_pos W), Nat.mul_comm]
    have : 2 ^ (W + 5) = 2 ^ W * 32 := by rw [pow_add]; norm_num
    omega
  rw [mulX, pmStep, Nat.xor_zero, hG _ ht, sX]
  simp only [Nat.shiftRight_add]

/-! ### Bech32: GF(32) = GF(2)[α]/(α^5 + α^3 + 1) acting on the 30-bit register -/

def gf32xt (a : Nat) : Nat := if (a <<< 1) < 32 then a <<< 1 else (a <<< 1) ^^^ 41

def gf32mul (a b : Nat) : Nat :=
  (if b.testBit 0 then a else 0) ^^^ ((if b.testBit 1 then gf32xt a else 0) ^^^
    ((if b.testBit 2 then gf32xt (gf32xt a) else 0) ^^^
      ((if b.testBit 3 then gf32xt (gf32xt (gf32xt a)) else 0) ^^^
        (if b.testBit 4 then gf32xt (gf32xt (gf32xt (gf32xt a))) else 0))))

def gf32inv (a : Nat) : Nat := ((List.range 32).find? (fun m => gf32mul a m == 1)).getD 0

/-- column `i` of "multiply every symbol by `lam`": bit `i % 5` of symbol `i / 5`. -/
def smulCol (lam i : Nat) : Nat := gf32mul lam (2 ^ (i % 5)) <<< (5 * (i / 5))

/-- symbol-wise multiplication of a 6-symbol register state by `lam ∈ GF(32)`. -/
def smul (lam s : Nat) : Nat := linExp (smulCol lam) 30 s

theorem smulCol_lt : ∀ lam, lam < 32 → ∀ i, i < 30 → smulCol lam i < 2 ^ 30 := by decide +kernel

theorem smul_comm_basis : ∀ lam, lam < 32 → ∀ i, i < 30 →
    smul lam (bech32X (2 ^ i)) = bech32X (smul lam (2 ^ i)) := by decide +kernel

theorem smul_sym : ∀ lam, lam < 32 → ∀ v, v < 32 →
    smul lam v < 32 ∧ (1 ≤ lam → 1 ≤ v → 1 ≤ smul lam v) := by decide +kernel

theorem smul_inv : ∀ a, a < 32 → 1 ≤ a →
    1 ≤ gf32inv a ∧ gf32inv a < 32 ∧ smul (gf32inv a) a = 1 := by decide +kernel

theorem smul_lt (lam : Nat) (hl : lam < 32) (s : Nat) : smul lam s < 2 ^ (25 + 5) :=
  linExp_lt (smulCol lam) 30 30 (smulCol_lt lam hl) s

theorem smul_comm (lam : Nat) (hl : lam < 32) (s : Nat) (hs : s < 2 ^ (25 + 5)) :
    smul lam (mulX 25 bech32G s) = mulX 25 bech32G (smul lam s) := by
  refine lin_ext (fun s => smul lam (mulX 25 bech32G s)) (fun s => mulX 25 bech32G (smul lam s))
    ?_ ?_ 30 ?_ s hs
  · intro x y
    show smul lam (mulX 25 bech32G (x ^^^ y)) = _
    rw [bech32_linReg.mulX_linear, smul, linExp_linear]
    rfl
  · intro x y
    show mulX 25 bech32G (smul lam (x ^^^ y)) = _
    rw [smul, linExp_linear, bech32_linReg.mulX_linear]
    rfl
  · intro i hi
    show smul lam (mulX 25 bech32G (2 ^ i)) = mulX 25 bech32G (smul lam (2 ^ i))
    have h1 : (2 : Nat) ^ i < 2 ^ (25 + 5) := Nat.pow_lt_pow_right (by omega) (by omega)
    rw [← bech32X_eq _ h1, ← bech32X_eq _ (smul_lt lam hl _)]
    exact smul_comm_basis lam hl i hi

/-! ### Bech32: the 961 lanes `(b, c)` -/

def bLanes : List (Nat × Nat) :=
  (List.range' 1 31).flatMap fun b => (List.range' 1 31).map fun c => (b, c)

theorem bLanes_length : bLanes.length = 961 := by decide +kernel

theorem mem_bLanes (b c : Nat) (hb1 : 1 ≤ b) (hb2 : b < 32) (hc1 : 1 ≤ c) (hc2 : c < 32) :
    (b, c) ∈ bLanes := by
  simp only [bLanes, List.mem_flatMap, List.mem_map, List.mem_range'_1, Prod.mk.injEq]
  exact ⟨b, ⟨hb1, by omega⟩, c, ⟨hc1, by omega⟩, rfl, rfl⟩

/-- lane step for Bech32. -/
def bSX (v : Nat) : Nat := sX 25 996825010 642813549 513874426 1027748829 705979059 v

def bM : Nat := pack 30 (List.replicate 961 (2 ^ 25 - 1))
def bO : Nat := pack 30 (List.replicate 961 1)
def bStp (V : Nat) : Nat := vX 25 996825010 642813549 513874426 1027748829 705979059 bM bO V
def bTst (V : Nat) : Bool := vTest 25 bM bO V
def bP2 : Nat := pack 30 (bLanes.map Prod.fst)
def bP : Nat := pack 30 (bLanes.map Prod.snd)
def bStart : Nat := pack 30 (bLanes.map fun _ => 1)

theorem bSX_lt (v : Nat) : bSX v < 2 ^ 30 :=
  sX_lt 25 996825010 642813549 513874426 1027748829 705979059 (by decide) (by decide) (by decide) (by decide) (by decide) v

theorem bech32G_gens : ∀ t, t < 32 → bech32G t =
    ((t &&& 1) * 996825010) ^^^ ((((t >>> 1) &&& 1) * 642813549) ^^^
      ((((t >>> 2) &&& 1) * 513874426) ^^^ ((((t >>> 3) &&& 1) * 1027748829) ^^^
        (((t >>> 4) &&& 1) * 705979059)))) := by decide +kernel

theorem bSX_eq (v : Nat) (hv : v < 2 ^ 30) : bSX v = mulX 25 bech32G v :=
  sX_eq_mulX 25 bech32G 996825010 642813549 513874426 1027748829 705979059 bech32G_gens v hv

theorem bStp_spec (g : Nat × Nat → Nat) (hg : ∀ t ∈ bLanes, g t < 2 ^ 30) :
    bStp (pack 30 (bLanes.map g)) = pack 30 (bLanes.map fun t => bSX (g t)) := by
  have h := vX_pack_map 25 996825010 642813549 513874426 1027748829 705979059 (by decide) (by decide) (by decide) (by decide) (by decide)
    bLanes g hg
  rw [bLanes_length] at h
  exact h

theorem bTst_spec (g : Nat × Nat → Nat) (hg : ∀ t ∈ bLanes, g t < 2 ^ 30)
    (h : bTst (pack 30 (bLanes.map g)) = true) : ∀ t ∈ bLanes, 32 ≤ g t := by
  have h' := vTest_map 25 bLanes g hg
  rw [bLanes_length] at h'
  exact h' h

/-- what one kernel-evaluated chunk (`cnt` values of `k3` after `lo`) establishes. -/
theorem b4_of_chunk (lo cnt : Nat)
    (h : loopK3 bStp bTst bP2 bP cnt (88 - lo) (iterV bStp lo bStart) = true) :
    ∀ k3 b k2 c k1, lo < k3 → k3 ≤ lo + cnt → 1 ≤ b → b < 32 → 1 ≤ k2 → 1 ≤ c → c < 32 → 1 ≤ k1 →
      k1 + k2 + k3 ≤ 88 → 32 ≤ iter bSX k1 (iter bSX k2 (iter bSX k3 1 ^^^ b) ^^^ c) := by
  intro k3 b k2 c k1 h1 h2 hb1 hb2 h3 hc1 hc2 h4 h5
  have hlt32 : ∀ v, v < 32 → v < 2 ^ 30 := fun v hv => by omega
  rw [bStart, iterV_spec bLanes bSX_lt bStp_spec lo (fun _ => 1) (fun _ _ => by norm_num)] at h
  have hit : iter bSX lo 1 < 2 ^ 30 := by
    cases lo with
    | zero => show (1 : Nat) < 2 ^ 30; norm_num
    | succ n =>
      have : ∀ k x, x < 2 ^ 30 → iter bSX k x < 2 ^ 30 := by
        intro k
        induction k with
        | zero => intro x hx; exact hx
        | succ k ih => intro x _; exact ih _ (bSX_lt x)
      exact this n _ (bSX_lt 1)
  have := loopK3_spec bLanes bSX_lt bStp_spec bTst_spec cnt (88 - lo) (fun _ => iter bSX lo 1)
    Prod.fst Prod.snd (fun _ _ => hit)
    (by
      intro t ht
      simp only [bLanes, List.mem_flatMap, List.mem_map, List.mem_range'_1] at ht
      obtain ⟨b, hb, c, hc, rfl⟩ := ht
      exact hlt32 b (by omega))
    (by
      intro t ht
      simp only [bLanes, List.mem_flatMap, List.mem_map, List.mem_range'_1] at ht
      obtain ⟨b, hb, c, hc, rfl⟩ := ht
      exact hlt32 c (by omega))
    h (k3 - lo) k2 k1 (by omega) (by omega) h3 h4 (by omega) (b, c) (mem_bLanes b c hb1 hb2 hc1 hc2)
  rw [← iter_add] at this
  have e : k3 - lo + lo = k3 := by omega
  rwa [e] at this

/-! The kernel evaluations.  `Elab.async false` makes Lean check them one after the other on one
thread, so that the ≈ 2 GB of cached intermediate numbers of one chunk are freed and reused by the
next instead of all chunks being evaluated (and their memory being held) concurrently. -/
set_option Elab.async false

theorem b4_chunk0 : loopK3 bStp bTst bP2 bP 4 (88 - 0) (iterV bStp 0 bStart) = true := by
  decide +kernel
theorem b4_chunk1 : loopK3 bStp bTst bP2 bP 5 (88 - 4) (iterV bStp 4 bStart) = true := by
  decide +kernel
theorem b4_chunk2 : loopK3 bStp bTst bP2 bP 5 (88 - 9) (iterV bStp 9 bStart) = true := by
  decide +kernel
theorem b4_chunk3 : loopK3 bStp bTst bP2 bP 6 (88 - 14) (iterV bStp 14 bStart) = true := by
  decide +kernel
theorem b4_chunk4 : loopK3 bStp bTst bP2 bP 8 (88 - 20) (iterV bStp 20 bStart) = true := by
  decide +kernel
theorem b4_chunk5 : loopK3 bStp bTst bP2 bP 11 (88 - 28) (iterV bStp 28 bStart) = true := by
  decide +kernel
theorem b4_chunk6 : loopK3 bStp bTst bP2 bP 47 (88 - 39) (iterV bStp 39 bStart) = true := by
  decide +kernel

/-- `x^k1 (x^k2 (x^k3 1 ^^^ b) ^^^ c) ≥ 32` whenever `k1 + k2 + k3 ≤ 88`. -/
theorem b4_first_one : ∀ k3 b k2 c k1, 1 ≤ k3 → 1 ≤ b → b < 32 → 1 ≤ k2 → 1 ≤ c → c < 32 → 1 ≤ k1 →
    k1 + k2 + k3 ≤ 88 →
    32 ≤ iter (mulX 25 bech32G) k1 (iter (mulX 25 bech32G) k2 (iter (mulX 25 bech32G) k3 1 ^^^ b)
      ^^^ c) := by
  intro k3 b k2 c k1 h1 hb1 hb2 h2 hc1 hc2 h3 h4
  rw [← iter3_congr bSX (mulX 25 bech32G) 30 bSX_eq bech32_linReg.mulX_lt 1 b c k3 k2 k1
    (by norm_num) (by omega) (by omega)]
  have hk : k3 ≤ 4 ∨ (4 < k3 ∧ k3 ≤ 9) ∨ (9 < k3 ∧ k3 ≤ 14) ∨ (14 < k3 ∧ k3 ≤ 20) ∨ (20 < k3 ∧ k3 ≤ 28) ∨ (28 < k3 ∧ k3 ≤ 39) ∨ (39 < k3 ∧ k3 ≤ 86) := by omega
  rcases hk with hk | hk | hk | hk | hk | hk | hk
  · exact b4_of_chunk 0 4 b4_chunk0 k3 b k2 c k1 (by omega) (by omega) hb1 hb2 h2 hc1 hc2 h3 h4
  · exact b4_of_chunk 4 5 b4_chunk1 k3 b k2 c k1 (by omega) (by omega) hb1 hb2 h2 hc1 hc2 h3 h4
  · exact b4_of_chunk 9 5 b4_chunk2 k3 b k2 c k1 (by omega) (by omega) hb1 hb2 h2 hc1 hc2 h3 h4
  · exact b4_of_chunk 14 6 b4_chunk3 k3 b k2 c k1 (by omega) (by omega) hb1 hb2 h2 hc1 hc2 h3 h4
  · exact b4_of_chunk 20 8 b4_chunk4 k3 b k2 c k1 (by omega) (by omega) hb1 hb2 h2 hc1 hc2 h3 h4
  · exact b4_of_chunk 28 11 b4_chunk5 k3 b k2 c k1 (by omega) (by omega) hb1 hb2 h2 hc1 hc2 h3 h4
  · exact b4_of_chunk 39 47 b4_chunk6 k3 b k2 c k1 (by omega) (by omega) hb1 hb2 h2 hc1 hc2 h3 h4

theorem b4_all : ∀ a, 1 ≤ a → a < 32 → ∀ k3 b k2 c k1, 1 ≤ k3 → 1 ≤ b → b < 32 → 1 ≤ k2 → 1 ≤ c →
    c < 32 → 1 ≤ k1 → k1 + k2 + k3 ≤ 88 →
    32 ≤ iter (mulX 25 bech32G) k1 (iter (mulX 25 bech32G) k2 (iter (mulX 25 bech32G) k3 a ^^^ b)
      ^^^ c) :=
  bech32_linReg.scale_first smul gf32inv (fun _ x y => linExp_linear _ _ x y)
    (fun lam _ h2 s hs => smul_comm lam h2 s hs) smul_sym
    (fun a h1 h2 => smul_inv a h2 h1) 88 b4_first_one

/-- **Bech32 / Bech32m: every quadruple substitution in a data part of ≤ 89 symbols is detected**
— with `bech32_detects_one/two/three` this is the BIP-173 guarantee "any error affecting at most 4
characters is detected" for substitutions in the data part. -/
theorem bech32_detects_four (hrp : List Char) (d d' : List Nat) (m : Bool)
    (hv : bech32Verify hrp d m = true) (hlen : d'.length = d.length) (hL : d.length ≤ 89)
    (hd : ∀ x ∈ d, x < 32) (hd' : ∀ x ∈ d', x < 32) (hh : hamming d d' = 4) :
    bech32Verify hrp d' m = false :=
  bech32_detect hrp d d' m 4 hv hlen hd hd' hh
    (fun e he hw hl => bech32_linReg.weight_four 88 b4_all e he hw (by omega))

/-! ### Bech32, three errors: 31 lanes `b`, first symbol scaled to 1, `k1 + k2 ≤ 255` -/

def b3Lanes : List Nat := List.range' 1 31

theorem b3Lanes_length : b3Lanes.length = 31 := by decide

def b3M : Nat := pack 30 (List.replicate 31 (2 ^ 25 - 1))
def b3O : Nat := pack 30 (List.replicate 31 1)
def b3Stp (V : Nat) : Nat := vX 25 996825010 642813549 513874426 1027748829 705979059 b3M b3O V
def b3Tst (V : Nat) : Bool := vTest 25 b3M b3O V
def b3P : Nat := pack 30 (b3Lanes.map fun b => b)
def b3Start : Nat := pack 30 (b3Lanes.map fun _ => 1)

theorem b3Stp_spec (g : Nat → Nat) (hg : ∀ t ∈ b3Lanes, g t < 2 ^ 30) :
    b3Stp (pack 30 (b3Lanes.map g)) = pack 30 (b3Lanes.map fun t => bSX (g t)) := by
  have h := vX_pack_map 25 996825010 642813549 513874426 1027748829 705979059 (by decide) (by decide) (by decide) (by decide) (by decide)
    b3Lanes g hg
  rw [b3Lanes_length] at h
  exact h

theorem b3Tst_spec (g : Nat → Nat) (hg : ∀ t ∈ b3Lanes, g t < 2 ^ 30)
    (h : b3Tst (pack 30 (b3Lanes.map g)) = true) : ∀ t ∈ b3Lanes, 32 ≤ g t := by
  have h' := vTest_map 25 b3Lanes g hg
  rw [b3Lanes_length] at h'
  exact h' h

theorem b3_chk : loopK2 b3Stp b3Tst b3P 255 b3Start = true := by
  decide +kernel

theorem b3_first_one : ∀ k2 b k1, 1 ≤ k2 → 1 ≤ b → b < 32 → 1 ≤ k1 → k1 + k2 ≤ 255 →
    32 ≤ iter (mulX 25 bech32G) k1 (iter (mulX 25 bech32G) k2 1 ^^^ b) := by
  intro k2 b k1 h2 hb1 hb2 h3 h4
  rw [← iter2_congr bSX (mulX 25 bech32G) 30 bSX_eq bech32_linReg.mulX_lt 1 b k2 k1
    (by norm_num) (by omega)]
  have hmem : ∀ t ∈ b3Lanes, t < 2 ^ 30 := by
    intro t ht
    simp only [b3Lanes, List.mem_range'_1] at ht
    omega
  exact loopK2_spec b3Lanes bSX_lt b3Stp_spec b3Tst_spec 255 (fun _ => 1) (fun b => b)
    (fun _ _ => by norm_num) hmem b3_chk k2 k1 h2 h3 h4 b
    (by simp only [b3Lanes, List.mem_range'_1]; omega)

theorem b3_all : ∀ a, 1 ≤ a → a < 32 → ∀ k2 b k1, 1 ≤ k2 → 1 ≤ b → b < 32 → 1 ≤ k1 →
    k1 + k2 ≤ 255 → 32 ≤ iter (mulX 25 bech32G) k1 (iter (mulX 25 bech32G) k2 a ^^^ b) :=
  bech32_linReg.scale_first3 smul gf32inv (fun _ x y => linExp_linear _ _ x y)
    (fun lam _ h2 s hs => smul_comm lam h2 s hs) smul_sym
    (fun a h1 h2 => smul_inv a h2 h1) 255 b3_first_one

/-- **Bech32 / Bech32m: every triple substitution in a data part of ≤ 256 symbols is detected.** -/
theorem bech32_detects_three (hrp : List Char) (d d' : List Nat) (m : Bool)
    (hv : bech32Verify hrp d m = true) (hlen : d'.length = d.length) (hL : d.length ≤ 256)
    (hd : ∀ x ∈ d, x < 32) (hd' : ∀ x ∈ d', x < 32) (hh : hamming d d' = 3) :
    bech32Verify hrp d' m = false :=
  bech32_detect hrp d d' m 3 hv hlen hd hd' hh
    (fun e he hw hl => bech32_linReg.weight_three 255 b3_all e he hw (by omega))

/-! ### CashAddr, three errors: 961 lanes `(a, b)` of 40 bits, `k1 + k2 ≤ 112` -/

def cSX (v : Nat) : Nat := sX 35 656907472481 522768456162 1044723512260 748107326120 130178868336 v

def cM : Nat := pack 40 (List.replicate 961 (2 ^ 35 - 1))
def cO : Nat := pack 40 (List.replicate 961 1)
def cStp (V : Nat) : Nat := vX 35 656907472481 522768456162 1044723512260 748107326120 130178868336 cM cO V
def cTst (V : Nat) : Bool := vTest 35 cM cO V
def cP : Nat := pack 40 (bLanes.map Prod.snd)
def cStart : Nat := pack 40 (bLanes.map Prod.fst)

theorem cSX_lt (v : Nat) : cSX v < 2 ^ 40 :=
  sX_lt 35 656907472481 522768456162 1044723512260 748107326120 130178868336 (by decide) (by decide) (by decide) (by decide) (by decide) v

theorem bchG_gens : ∀ t, t < 32 → bchG t =
    ((t &&& 1) * 656907472481) ^^^ ((((t >>> 1) &&& 1) * 522768456162) ^^^
      ((((t >>> 2) &&& 1) * 1044723512260) ^^^ ((((t >>> 3) &&& 1) * 748107326120) ^^^
        (((t >>> 4) &&& 1) * 130178868336)))) := by decide +kernel

theorem cSX_eq (v : Nat) (hv : v < 2 ^ 40) : cSX v = mulX 35 bchG v :=
  sX_eq_mulX 35 bchG 656907472481 522768456162 1044723512260 748107326120 130178868336 bchG_gens v hv

theorem cStp_spec (g : Nat × Nat → Nat) (hg : ∀ t ∈ bLanes, g t < 2 ^ 40) :
    cStp (pack 40 (bLanes.map g)) = pack 40 (bLanes.map fun t => cSX (g t)) := by
  have h := vX_pack_map 35 656907472481 522768456162 1044723512260 748107326120 130178868336 (by decide) (by decide) (by decide) (by decide) (by decide)
    bLanes g hg
  rw [bLanes_length] at h
  exact h

theorem cTst_spec (g : Nat × Nat → Nat) (hg : ∀ t ∈ bLanes, g t < 2 ^ 40)
    (h : cTst (pack 40 (bLanes.map g)) = true) : ∀ t ∈ bLanes, 32 ≤ g t := by
  have h' := vTest_map 35 bLanes g hg
  rw [bLanes_length] at h'
  exact h' h

theorem c3_chk : loopK2 cStp cTst cP 112 cStart = true := by
  decide +kernel

theorem c3_all : ∀ a, 1 ≤ a → a < 32 → ∀ k2 b k1, 1 ≤ k2 → 1 ≤ b → b < 32 → 1 ≤ k1 →
    k1 + k2 ≤ 112 → 32 ≤ iter (mulX 35 bchG) k1 (iter (mulX 35 bchG) k2 a ^^^ b) := by
  intro a ha1 ha2 k2 b k1 h2 hb1 hb2 h3 h4
  rw [← iter2_congr cSX (mulX 35 bchG) 40 cSX_eq bch_linReg.mulX_lt a b k2 k1
    (by omega) (by omega)]
  have hmem : ∀ t ∈ bLanes, t.1 < 2 ^ 40 ∧ t.2 < 2 ^ 40 := by
    intro t ht
    simp only [bLanes, List.mem_flatMap, List.mem_map, List.mem_range'_1] at ht
    obtain ⟨b, hb, c, hc, rfl⟩ := ht
    exact ⟨by show b < 2 ^ 40; omega, by show c < 2 ^ 40; omega⟩
  exact loopK2_spec bLanes cSX_lt cStp_spec cTst_spec 112 Prod.fst Prod.snd
    (fun t ht => (hmem t ht).1) (fun t ht => (hmem t ht).2) c3_chk k2 k1 h2 h3 h4 (a, b)
    (mem_bLanes a b ha1 ha2 hb1 hb2)

/-- **CashAddr: every triple substitution in a data part of ≤ 113 symbols is detected** (the longest
CashAddr payload, a 512-bit hash, has 112 data symbols). -/
theorem bch_detects_three (hrp : List Char) (d d' : List Nat)
    (hv : bchVerify hrp d = true) (hlen : d'.length = d.length) (hL : d.length ≤ 113)
    (hd : ∀ x ∈ d, x < 32) (hd' : ∀ x ∈ d', x < 32) (hh : hamming d d' = 3) :
    bchVerify hrp d' = false :=
  bch_detect hrp d d' 3 hv hlen hd hd' hh
    (fun e he hw hl => bch_linReg.weight_three 112 c3_all e he hw (by omega))

end BipVerif.Model
