/-
Error detection of the Bech32 / Bech32m checksum, part 2: FOUR substituted symbols (the BIP-173
guarantee), by a lane-parallel kernel evaluation.

`BechDistance.lean` reduces "`w` substitutions are detected" to facts of the form
`x^k1 (x^k2 (x^k3 a ^^^ b) ^^^ c) ≥ 32` for all symbols `a, b, c ∈ [1,31]` and all distances with
`k1 + k2 + k3 ≤ N`.  For four errors in 89 symbols that is 31^3 · C(88,3) ≈ 3·10^9 register steps,
far too many for a scalar kernel loop.  Two reductions make it a one-minute computation:

  * SIMD inside a bignum: the registers for all `(b, c)` are packed as 30-bit lanes of ONE natural
    number; `&&&`, `^^^`, shifts and a multiplication by the generator constants act on all 961
    lanes at once, and "every lane ≥ 32" is one addition and a mask.  `vX_pack` / `vTest_spec`
    prove (for any number of lanes) that these big-number operations are the lane-wise register
    step and the lane-wise test.
  * GF(32) symmetry: the generator is a polynomial over GF(32), so the symbol-wise scalar
    multiplications `smul λ` are GF(2)-linear maps commuting with `x`; scaling by `a⁻¹` moves the
    first error symbol to `1`.  Linearity is by construction (`linExp`), the commutation and inverse
    laws are checked on the 30 basis vectors (`lin_ext`).
-/
import BipVerif.Lemmas.BechDistance

namespace BipVerif.Model
open BipVerif

/-! ### three further errors after a state -/

section Generic
variable {W : Nat} {G : Nat → Nat}

theorem LinReg.tail_three (h : LinReg W G) : ∀ (t : List Nat) (c : Nat), c < 2 ^ (W + 5) →
    (∀ x ∈ t, x < 32) → weight t = 3 →
    (∀ k3 b k2 c' k1, 1 ≤ k3 → 1 ≤ b → b < 32 → 1 ≤ k2 → 1 ≤ c' → c' < 32 → 1 ≤ k1 →
      k1 + k2 + k3 ≤ t.length →
      32 ≤ iter (mulX W G) k1 (iter (mulX W G) k2 (iter (mulX W G) k3 c ^^^ b) ^^^ c')) →
    pmRun W G c t ≠ 0 := by
  intro t
  induction t with
  | nil => intro c _ _ hw; simp [weight] at hw
  | cons x t ih =>
    intro c hc hlt hw hK
    rw [pmRun_cons]
    by_cases hx : x = 0
    · subst hx
      rw [weight_cons_zero] at hw
      rw [Nat.xor_zero]
      exact ih _ (h.mulX_lt c) (fun y hy => hlt y (by simp [hy])) hw
        (fun k3 b k2 c' k1 h1 h2 h3 h4 h5 h6 h7 h8 =>
          hK (k3 + 1) b k2 c' k1 (by omega) h2 h3 h4 h5 h6 h7
            (by simp only [List.length_cons]; omega))
    · rw [weight_cons_ne hx] at hw
      have hx32 : x < 32 := hlt x (by simp)
      exact h.tail_two t _
        (Nat.xor_lt_two_pow (h.mulX_lt c) (Nat.lt_of_lt_of_le hx32 (le32_pow W)))
        (fun y hy => hlt y (by simp [hy])) (by omega)
        (fun k2 c' k1 h1 h2 h3 h4 h5 => hK 1 x k2 c' k1 (by omega) (by omega) hx32 h1 h2 h3 h4
          (by simp only [List.length_cons]; omega))

/-- **four errors**, given the corresponding fact about `x`. -/
theorem LinReg.weight_four (h : LinReg W G) (N : Nat)
    (hN : ∀ a, 1 ≤ a → a < 32 → ∀ k3 b k2 c k1, 1 ≤ k3 → 1 ≤ b → b < 32 → 1 ≤ k2 → 1 ≤ c → c < 32 →
      1 ≤ k1 → k1 + k2 + k3 ≤ N →
      32 ≤ iter (mulX W G) k1 (iter (mulX W G) k2 (iter (mulX W G) k3 a ^^^ b) ^^^ c)) :
    ∀ e : List Nat, (∀ x ∈ e, x < 32) → weight e = 4 → e.length ≤ N + 1 → pmRun W G 0 e ≠ 0 := by
  intro e
  induction e with
  | nil => intro _ hw; simp [weight] at hw
  | cons x t ih =>
    intro hlt hw hlen
    simp only [List.length_cons] at hlen
    by_cases hx : x = 0
    · subst hx
      rw [weight_cons_zero] at hw
      rw [h.pmRun_zero_cons_zero]
      exact ih (fun y hy => hlt y (by simp [hy])) hw (by omega)
    · rw [weight_cons_ne hx] at hw
      rw [h.pmRun_zero_cons]
      have hx32 : x < 32 := hlt x (by simp)
      exact h.tail_three t x (Nat.lt_of_lt_of_le hx32 (le32_pow W))
        (fun y hy => hlt y (by simp [hy])) (by omega)
        (fun k3 b k2 c k1 h1 h2 h3 h4 h5 h6 h7 h8 =>
          hN x (by omega) hx32 k3 b k2 c k1 h1 h2 h3 h4 h5 h6 h7 (by omega))

theorem iter_add (f : Nat → Nat) : ∀ a b c, iter f (a + b) c = iter f a (iter f b c) := by
  intro a b
  induction b with
  | zero => intro c; rfl
  | succ b ih =>
    intro c
    show iter f (a + b) (f c) = iter f a (iter f b (f c))
    exact ih (f c)

end Generic

/-! ### lanes packed into one natural number -/

/-- little-endian packing of `L`-bit lanes. -/
def pack (L : Nat) : List Nat → Nat
  | [] => 0
  | v :: t => v + 2 ^ L * pack L t

theorem lane_testBit {L v : Nat} (V : Nat) (hv : v < 2 ^ L) (j : Nat) :
    (v + 2 ^ L * V).testBit j = if j < L then v.testBit j else V.testBit (j - L) := by
  rw [Nat.add_comm, Nat.testBit_two_pow_mul_add V hv]

theorem and_split {L v a : Nat} (V A : Nat) (hv : v < 2 ^ L) (ha : a < 2 ^ L) :
    (v + 2 ^ L * V) &&& (a + 2 ^ L * A) = (v &&& a) + 2 ^ L * (V &&& A) := by
  have hva : v &&& a < 2 ^ L := Nat.lt_of_le_of_lt Nat.and_le_left hv
  apply Nat.eq_of_testBit_eq
  intro j
  rw [Nat.testBit_and, lane_testBit _ hv, lane_testBit _ ha, lane_testBit _ hva]
  by_cases h : j < L <;> simp [h, Nat.testBit_and]

theorem xor_split {L v a : Nat} (V A : Nat) (hv : v < 2 ^ L) (ha : a < 2 ^ L) :
    (v + 2 ^ L * V) ^^^ (a + 2 ^ L * A) = (v ^^^ a) + 2 ^ L * (V ^^^ A) := by
  have hva : v ^^^ a < 2 ^ L := Nat.xor_lt_two_pow hv ha
  apply Nat.eq_of_testBit_eq
  intro j
  rw [Nat.testBit_xor, lane_testBit _ hv, lane_testBit _ ha, lane_testBit _ hva]
  by_cases h : j < L <;> simp [h, Nat.testBit_xor]

theorem shl_split (L a b s : Nat) : (a + 2 ^ L * b) <<< s = (a <<< s) + 2 ^ L * (b <<< s) := by
  simp only [Nat.shiftLeft_eq]; ring

/-- shift right and mask: no bit of the next lane leaks in as long as the mask lane is short. -/
theorem shr_and_split {L s v m : Nat} (V M : Nat) (hs : s ≤ L) (hv : v < 2 ^ L)
    (hm : m < 2 ^ (L - s)) :
    ((v + 2 ^ L * V) >>> s) &&& (m + 2 ^ L * M) = ((v >>> s) &&& m) + 2 ^ L * ((V >>> s) &&& M) := by
  have hm' : m < 2 ^ L := Nat.lt_of_lt_of_le hm (Nat.pow_le_pow_right (by omega) (by omega))
  have hr : (v >>> s) &&& m < 2 ^ L := Nat.lt_of_le_of_lt Nat.and_le_right hm'
  apply Nat.eq_of_testBit_eq
  intro j
  rw [Nat.testBit_and, Nat.testBit_shiftRight, lane_testBit _ hv, lane_testBit _ hm',
    lane_testBit _ hr]
  by_cases h : j < L
  · by_cases h2 : s + j < L
    · simp [h, h2, Nat.testBit_and, Nat.testBit_shiftRight]
    · have hmj : m.testBit j = false :=
        Nat.testBit_lt_two_pow (Nat.lt_of_lt_of_le hm (Nat.pow_le_pow_right (by omega) (by omega)))
      simp [h, h2, Nat.testBit_and, hmj]
  · have h2 : ¬ s + j < L := by omega
    have e : s + j - L = s + (j - L) := by omega
    simp [h, h2, e, Nat.testBit_and, Nat.testBit_shiftRight]

theorem split_inj {L a c x y : Nat} (ha : a < 2 ^ L) (hc : c < 2 ^ L)
    (h : a + 2 ^ L * x = c + 2 ^ L * y) : a = c ∧ x = y := by
  have h1 : a = c := by
    have := congrArg (· % 2 ^ L) h
    simpa [Nat.add_mul_mod_self_left, Nat.mod_eq_of_lt ha, Nat.mod_eq_of_lt hc] using this
  subst h1
  exact ⟨rfl, Nat.eq_of_mul_eq_mul_left (Nat.two_pow_pos L) (Nat.add_left_cancel h)⟩

theorem pack_xor_map {τ : Type} (L : Nat) (g h : τ → Nat) : ∀ T : List τ,
    (∀ t ∈ T, g t < 2 ^ L) → (∀ t ∈ T, h t < 2 ^ L) →
    pack L (T.map g) ^^^ pack L (T.map h) = pack L (T.map fun t => g t ^^^ h t) := by
  intro T
  induction T with
  | nil => intro _ _; simp [pack]
  | cons t T ih =>
    intro hg hh
    simp only [List.map_cons, pack]
    rw [xor_split _ _ (hg t (by simp)) (hh t (by simp)),
      ih (fun u hu => hg u (by simp [hu])) (fun u hu => hh u (by simp [hu]))]

/-! ### the register step and the `≥ 32` test on all lanes at once -/

section Vec
variable (W g0 g1 g2 g3 g4 : Nat)

/-- one lane: the register step `c ↦ pmStep W G c 0` with the feedback written as a sum of
bit × generator products. -/
def sX (v : Nat) : Nat :=
  ((v &&& (2 ^ W - 1)) <<< 5) ^^^
    ((((v >>> W) &&& 1) * g0) ^^^ ((((v >>> (W + 1)) &&& 1) * g1) ^^^
      ((((v >>> (W + 2)) &&& 1) * g2) ^^^ ((((v >>> (W + 3)) &&& 1) * g3) ^^^
        (((v >>> (W + 4)) &&& 1) * g4)))))

/-- all lanes: `M` is the lane mask `2^W - 1` in every lane, `O` is `1` in every lane. -/
def vX (M O V : Nat) : Nat :=
  Nat.xor (Nat.shiftLeft (Nat.land V M) 5)
    (Nat.xor (Nat.mul (Nat.land (Nat.shiftRight V W) O) g0)
      (Nat.xor (Nat.mul (Nat.land (Nat.shiftRight V (Nat.add W 1)) O) g1)
        (Nat.xor (Nat.mul (Nat.land (Nat.shiftRight V (Nat.add W 2)) O) g2)
          (Nat.xor (Nat.mul (Nat.land (Nat.shiftRight V (Nat.add W 3)) O) g3)
            (Nat.mul (Nat.land (Nat.shiftRight V (Nat.add W 4)) O) g4)))))

theorem vX_eq (M O V : Nat) : vX W g0 g1 g2 g3 g4 M O V =
    ((V &&& M) <<< 5) ^^^
      ((((V >>> W) &&& O) * g0) ^^^ ((((V >>> (W + 1)) &&& O) * g1) ^^^
        ((((V >>> (W + 2)) &&& O) * g2) ^^^ ((((V >>> (W + 3)) &&& O) * g3) ^^^
          (((V >>> (W + 4)) &&& O) * g4))))) := rfl

theorem term_split {L s v : Nat} (V O g : Nat) (hs : s < L) (hv : v < 2 ^ L) :
    (((v + 2 ^ L * V) >>> s) &&& (1 + 2 ^ L * O)) * g
      = ((v >>> s) &&& 1) * g + 2 ^ L * ((((V >>> s) &&& O)) * g) := by
  rw [shr_and_split V O (Nat.le_of_lt hs) hv (Nat.one_lt_two_pow (by omega))]
  ring

theorem bit_mul_lt {L g : Nat} (x : Nat) (hg : g < 2 ^ L) : (x &&& 1) * g < 2 ^ L :=
  Nat.lt_of_le_of_lt
    (by have := Nat.mul_le_mul_right g (Nat.and_le_right (n := x) (m := 1)); simpa using this) hg

theorem mask_lt (W : Nat) : 2 ^ W - 1 < 2 ^ (W + 5) :=
  Nat.lt_of_lt_of_le (Nat.sub_lt (Nat.two_pow_pos W) (by omega))
    (Nat.pow_le_pow_right (by omega) (by omega))

theorem vX_split (hg0 : g0 < 2 ^ (W + 5)) (hg1 : g1 < 2 ^ (W + 5)) (hg2 : g2 < 2 ^ (W + 5))
    (hg3 : g3 < 2 ^ (W + 5)) (hg4 : g4 < 2 ^ (W + 5)) (v V M O : Nat) (hv : v < 2 ^ (W + 5)) :
    vX W g0 g1 g2 g3 g4 (2 ^ W - 1 + 2 ^ (W + 5) * M) (1 + 2 ^ (W + 5) * O) (v + 2 ^ (W + 5) * V)
      = sX W g0 g1 g2 g3 g4 v + 2 ^ (W + 5) * vX W g0 g1 g2 g3 g4 M O V := by
  rw [vX_eq, vX_eq, sX]
  have hA : (v &&& (2 ^ W - 1)) <<< 5 < 2 ^ (W + 5) := by
    rw [Nat.shiftLeft_eq, pow_add]
    exact Nat.mul_lt_mul_of_pos_right
      (Nat.lt_of_le_of_lt Nat.and_le_right (Nat.sub_lt (Nat.two_pow_pos W) (by omega)))
      (by norm_num)
  have h0 := bit_mul_lt (v >>> W) hg0
  have h1 := bit_mul_lt (v >>> (W + 1)) hg1
  have h2 := bit_mul_lt (v >>> (W + 2)) hg2
  have h3 := bit_mul_lt (v >>> (W + 3)) hg3
  have h4 := bit_mul_lt (v >>> (W + 4)) hg4
  have h34 := Nat.xor_lt_two_pow h3 h4
  have h234 := Nat.xor_lt_two_pow h2 h34
  have h1234 := Nat.xor_lt_two_pow h1 h234
  have h01234 := Nat.xor_lt_two_pow h0 h1234
  rw [and_split V M hv (mask_lt W), shl_split,
    term_split V O g0 (by omega : W < W + 5) hv, term_split V O g1 (by omega : W + 1 < W + 5) hv,
    term_split V O g2 (by omega : W + 2 < W + 5) hv, term_split V O g3 (by omega : W + 3 < W + 5) hv,
    term_split V O g4 (by omega : W + 4 < W + 5) hv,
    xor_split _ _ h3 h4, xor_split _ _ h2 h34, xor_split _ _ h1 h234, xor_split _ _ h0 h1234,
    xor_split _ _ hA h01234]

theorem sX_lt (hg0 : g0 < 2 ^ (W + 5)) (hg1 : g1 < 2 ^ (W + 5)) (hg2 : g2 < 2 ^ (W + 5))
    (hg3 : g3 < 2 ^ (W + 5)) (hg4 : g4 < 2 ^ (W + 5)) (v : Nat) :
    sX W g0 g1 g2 g3 g4 v < 2 ^ (W + 5) := by
  rw [sX]
  have hA : (v &&& (2 ^ W - 1)) <<< 5 < 2 ^ (W + 5) := by
    rw [Nat.shiftLeft_eq, pow_add]
    exact Nat.mul_lt_mul_of_pos_right
      (Nat.lt_of_le_of_lt Nat.and_le_right (Nat.sub_lt (Nat.two_pow_pos W) (by omega)))
      (by norm_num)
  exact Nat.xor_lt_two_pow hA (Nat.xor_lt_two_pow (bit_mul_lt _ hg0) (Nat.xor_lt_two_pow
    (bit_mul_lt _ hg1) (Nat.xor_lt_two_pow (bit_mul_lt _ hg2) (Nat.xor_lt_two_pow
      (bit_mul_lt _ hg3) (bit_mul_lt _ hg4)))))

/-- **the big-number step is the lane-wise step.** -/
theorem vX_pack (hg0 : g0 < 2 ^ (W + 5)) (hg1 : g1 < 2 ^ (W + 5)) (hg2 : g2 < 2 ^ (W + 5))
    (hg3 : g3 < 2 ^ (W + 5)) (hg4 : g4 < 2 ^ (W + 5)) : ∀ l : List Nat,
    (∀ v ∈ l, v < 2 ^ (W + 5)) →
    vX W g0 g1 g2 g3 g4 (pack (W + 5) (List.replicate l.length (2 ^ W - 1)))
      (pack (W + 5) (List.replicate l.length 1)) (pack (W + 5) l)
      = pack (W + 5) (l.map (sX W g0 g1 g2 g3 g4)) := by
  intro l
  induction l with
  | nil => intro _; simp [pack, vX_eq]
  | cons v t ih =>
    intro hl
    simp only [List.length_cons, List.replicate_succ, pack, List.map_cons]
    rw [vX_split W g0 g1 g2 g3 g4 hg0 hg1 hg2 hg3 hg4 v _ _ _ (hl v (by simp)),
      ih (fun u hu => hl u (by simp [hu]))]

/-- the test: in every lane `((v >>> 5) &&& (2^W-1)) + (2^W-1)` reaches bit `W` iff `v ≥ 32`. -/
def vTest (M O V : Nat) : Bool :=
  Nat.beq (Nat.land (Nat.shiftRight (Nat.add (Nat.land (Nat.shiftRight V 5) M) M) W) O) O

def vTestVal (M O V : Nat) : Nat := ((((V >>> 5) &&& M) + M) >>> W) &&& O

theorem vTest_eq (M O V : Nat) : vTest W M O V = Nat.beq (vTestVal W M O V) O := rfl

theorem vTestVal_split (v V M O : Nat) (hv : v < 2 ^ (W + 5)) :
    vTestVal W (2 ^ W - 1 + 2 ^ (W + 5) * M) (1 + 2 ^ (W + 5) * O) (v + 2 ^ (W + 5) * V)
      = vTestVal W (2 ^ W - 1) 1 v + 2 ^ (W + 5) * vTestVal W M O V := by
  unfold vTestVal
  have hmW : 2 ^ W - 1 < 2 ^ (W + 5 - 5) := by
    rw [Nat.add_sub_cancel]; exact Nat.sub_lt (Nat.two_pow_pos W) (by omega)
  have hmW' : 2 ^ W - 1 < 2 ^ W := Nat.sub_lt (Nat.two_pow_pos W) (by omega)
  rw [shr_and_split V M (by omega : 5 ≤ W + 5) hv hmW]
  have hh : (v >>> 5) &&& (2 ^ W - 1) ≤ 2 ^ W - 1 := Nat.and_le_right
  have hsum : ((v >>> 5) &&& (2 ^ W - 1)) + (2 ^ W - 1) < 2 ^ (W + 5) := by
    have : 2 ^ (W + 5) = 2 ^ W * 32 := by rw [pow_add]; norm_num
    omega
  have e : ((v >>> 5) &&& (2 ^ W - 1)) + 2 ^ (W + 5) * ((V >>> 5) &&& M)
      + (2 ^ W - 1 + 2 ^ (W + 5) * M)
      = (((v >>> 5) &&& (2 ^ W - 1)) + (2 ^ W - 1))
        + 2 ^ (W + 5) * (((V >>> 5) &&& M) + M) := by ring
  rw [e, shr_and_split _ O (by omega : W ≤ W + 5) hsum
    (by rw [Nat.add_sub_cancel_left]; norm_num)]

theorem vTestVal_lane (v : Nat) (h : vTestVal W (2 ^ W - 1) 1 v = 1) : 32 ≤ v := by
  by_contra hlt
  have h5 : v >>> 5 = 0 := by
    rw [Nat.shiftRight_eq_div_pow]; exact Nat.div_eq_of_lt (by omega)
  unfold vTestVal at h
  rw [h5, Nat.zero_and, Nat.zero_add, Nat.shiftRight_eq_div_pow,
    Nat.div_eq_of_lt (Nat.sub_lt (Nat.two_pow_pos W) (by omega)), Nat.zero_and] at h
  omega

/-- **the big-number test implies the lane-wise test.** -/
theorem vTest_spec : ∀ l : List Nat, (∀ v ∈ l, v < 2 ^ (W + 5)) →
    vTest W (pack (W + 5) (List.replicate l.length (2 ^ W - 1)))
      (pack (W + 5) (List.replicate l.length 1)) (pack (W + 5) l) = true →
    ∀ v ∈ l, 32 ≤ v := by
  intro l
  induction l with
  | nil => intro _ _ v hv; simp at hv
  | cons v t ih =>
    intro hl h
    rw [vTest_eq] at h
    have h' := Nat.eq_of_beq_eq_true h
    simp only [List.length_cons, List.replicate_succ, pack] at h'
    rw [vTestVal_split W v _ _ _ (hl v (by simp))] at h'
    have hr : vTestVal W (2 ^ W - 1) 1 v < 2 ^ (W + 5) := by
      unfold vTestVal
      exact Nat.lt_of_le_of_lt Nat.and_le_right (Nat.one_lt_two_pow (by omega))
    obtain ⟨e1, e2⟩ := split_inj hr (Nat.one_lt_two_pow (by omega)) h'
    intro u hu
    simp only [List.mem_cons] at hu
    rcases hu with rfl | hu
    · exact vTestVal_lane W u e1
    · refine ih (fun w hw => hl w (by simp [hw])) ?_ u hu
      rw [vTest_eq, e2]
      exact Nat.beq_refl _

end Vec

/-! ### the kernel-evaluated loops over a packed vector

`stp` is the vector step, `tst` the vector test; `P2`, `P` are packed symbol patterns. -/

/-- `k1 = 1 … n`: step, test. -/
noncomputable def runV (stp : Nat → Nat) (tst : Nat → Bool) (n : Nat) : Nat → Bool :=
  Nat.rec (motive := fun _ => Nat → Bool) (fun _ => true)
    (fun _ ih V => Bool.rec false (ih (stp V)) (tst (stp V))) n

/-- `k2 = 1 … n`: step, then `runV (n - k2)` from the state with the pattern `P` XOR-ed in. -/
noncomputable def loopK2 (stp : Nat → Nat) (tst : Nat → Bool) (P : Nat) (n : Nat) : Nat → Bool :=
  Nat.rec (motive := fun _ => Nat → Bool) (fun _ => true)
    (fun n ih V => Bool.rec false (ih (stp V)) (runV stp tst n (Nat.xor (stp V) P))) n

/-- `cnt` values of `k3` with remaining budget `n`: step, then `loopK2 (n - 1)` from the state with
`P2` XOR-ed in. -/
noncomputable def loopK3 (stp : Nat → Nat) (tst : Nat → Bool) (P2 P : Nat) (cnt : Nat) :
    Nat → Nat → Bool :=
  Nat.rec (motive := fun _ => Nat → Nat → Bool) (fun _ _ => true)
    (fun _ ih n V => Bool.rec false (ih (Nat.pred n) (stp V))
      (loopK2 stp tst P (Nat.pred n) (Nat.xor (stp V) P2))) cnt

noncomputable def iterV (stp : Nat → Nat) (n : Nat) : Nat → Nat :=
  Nat.rec (motive := fun _ => Nat → Nat) (fun V => V) (fun _ ih V => ih (stp V)) n

theorem runV_succ (stp : Nat → Nat) (tst : Nat → Bool) (n V : Nat) :
    runV stp tst (n + 1) V = Bool.rec false (runV stp tst n (stp V)) (tst (stp V)) := rfl

theorem loopK2_succ (stp : Nat → Nat) (tst : Nat → Bool) (P n V : Nat) :
    loopK2 stp tst P (n + 1) V
      = Bool.rec false (loopK2 stp tst P n (stp V)) (runV stp tst n (stp V ^^^ P)) := rfl

theorem loopK3_succ (stp : Nat → Nat) (tst : Nat → Bool) (P2 P cnt n V : Nat) :
    loopK3 stp tst P2 P (cnt + 1) n V
      = Bool.rec false (loopK3 stp tst P2 P cnt (n - 1) (stp V))
          (loopK2 stp tst P (n - 1) (stp V ^^^ P2)) := rfl

theorem iterV_succ (stp : Nat → Nat) (n V : Nat) : iterV stp (n + 1) V = iterV stp n (stp V) := rfl

section LoopSpec
variable {τ : Type} {L : Nat} {f : Nat → Nat} {stp : Nat → Nat} {tst : Nat → Bool} (T : List τ)
variable (hf : ∀ v, f v < 2 ^ L)
variable (hstp : ∀ g : τ → Nat, (∀ t ∈ T, g t < 2 ^ L) →
  stp (pack L (T.map g)) = pack L (T.map fun t => f (g t)))
variable (htst : ∀ g : τ → Nat, (∀ t ∈ T, g t < 2 ^ L) → tst (pack L (T.map g)) = true →
  ∀ t ∈ T, 32 ≤ g t)
include hf hstp htst

theorem runV_spec : ∀ (n : Nat) (g : τ → Nat), (∀ t ∈ T, g t < 2 ^ L) →
    runV stp tst n (pack L (T.map g)) = true →
    ∀ k1, 1 ≤ k1 → k1 ≤ n → ∀ t ∈ T, 32 ≤ iter f k1 (g t) := by
  intro n
  induction n with
  | zero => intro g _ _ k1 h1 h2; omega
  | succ n ih =>
    intro g hg h k1 h1 h2 t ht
    rw [runV_succ, hstp g hg] at h
    obtain ⟨h3, h4⟩ := boolrec_true h
    cases k1 with
    | zero => omega
    | succ j =>
      cases j with
      | zero => exact htst _ (fun u _ => hf _) h3 t ht
      | succ i => exact ih _ (fun u _ => hf _) h4 (i + 1) (by omega) (by omega) t ht

theorem loopK2_spec : ∀ (n : Nat) (g h : τ → Nat), (∀ t ∈ T, g t < 2 ^ L) →
    (∀ t ∈ T, h t < 2 ^ L) →
    loopK2 stp tst (pack L (T.map h)) n (pack L (T.map g)) = true →
    ∀ k2 k1, 1 ≤ k2 → 1 ≤ k1 → k1 + k2 ≤ n → ∀ t ∈ T, 32 ≤ iter f k1 (iter f k2 (g t) ^^^ h t) := by
  intro n
  induction n with
  | zero => intro g h _ _ _ k2 k1 h1 h2 h3; omega
  | succ n ih =>
    intro g h hg hh hc k2 k1 h1 h2 h3 t ht
    rw [loopK2_succ, hstp g hg, pack_xor_map L _ h T (fun u _ => hf _) hh] at hc
    obtain ⟨h4, h5⟩ := boolrec_true hc
    cases k2 with
    | zero => omega
    | succ j =>
      cases j with
      | zero =>
        exact runV_spec T hf hstp htst n _
          (fun u hu => Nat.xor_lt_two_pow (hf _) (hh u hu)) h4 k1 h2 (by omega) t ht
      | succ i => exact ih _ h (fun u _ => hf _) hh h5 (i + 1) k1 (by omega) h2 (by omega) t ht

theorem loopK3_spec : ∀ (cnt n : Nat) (g h2 h : τ → Nat), (∀ t ∈ T, g t < 2 ^ L) →
    (∀ t ∈ T, h2 t < 2 ^ L) → (∀ t ∈ T, h t < 2 ^ L) →
    loopK3 stp tst (pack L (T.map h2)) (pack L (T.map h)) cnt n (pack L (T.map g)) = true →
    ∀ k3 k2 k1, 1 ≤ k3 → k3 ≤ cnt → 1 ≤ k2 → 1 ≤ k1 → k1 + k2 + k3 ≤ n → ∀ t ∈ T,
      32 ≤ iter f k1 (iter f k2 (iter f k3 (g t) ^^^ h2 t) ^^^ h t) := by
  intro cnt
  induction cnt with
  | zero => intro n g h2 h _ _ _ _ k3 k2 k1 h1 h2; omega
  | succ cnt ih =>
    intro n g h2 h hg hh2 hh hc k3 k2 k1 h1 h1' h2' h3 h4 t ht
    rw [loopK3_succ, hstp g hg, pack_xor_map L _ h2 T (fun u _ => hf _) hh2] at hc
    obtain ⟨h5, h6⟩ := boolrec_true hc
    cases k3 with
    | zero => omega
    | succ j =>
      cases j with
      | zero =>
        exact loopK2_spec T hf hstp htst (n - 1) _ h
          (fun u hu => Nat.xor_lt_two_pow (hf _) (hh2 u hu)) hh h5 k2 k1 h2' h3 (by omega) t ht
      | succ i =>
        exact ih (n - 1) _ h2 h (fun u _ => hf _) hh2 hh h6 (i + 1) k2 k1 (by omega) (by omega)
          h2' h3 (by omega) t ht

omit htst in
theorem iterV_spec : ∀ (n : Nat) (g : τ → Nat), (∀ t ∈ T, g t < 2 ^ L) →
    iterV stp n (pack L (T.map g)) = pack L (T.map fun t => iter f n (g t)) := by
  intro n
  induction n with
  | zero => intro g _; rfl
  | succ n ih =>
    intro g hg
    rw [iterV_succ, hstp g hg, ih _ (fun u _ => hf _)]
    rfl

end LoopSpec

end BipVerif.Model
