/-
`Prim/Edwards.lean` realises the group of points of the twisted Edwards curve
`-x² + y² = 1 + d·x²·y²` over `F = ZMod (2^255 - 19)` (Mathlib has no Edwards curves; the group
is constructed here).

* `EdGroup/Curve.lean`    — complete twisted Edwards curves (`a = -1` a square, `d` a non-square)
                            over any field: completeness, closure, associativity,
                            `AddCommGroup (EdCurve.Pt C)`
* `EdGroup/Field.lean`    — `F`, `-1` is a square and `d` is not (kernel evaluation + Fermat),
                            the curve `edC` and its group `EdPt`
* `EdGroup/Exec.lean`     — `toE` / `ofE`, correctness of `edAdd`, of the extended-coordinate
                            addition and doubling, `toE (edMul k P) = k • toE P`
* `EdGroup/Concrete.lean` — the base point has order exactly `L`
* `EdGroup/Law.lean`      — square root and decoder round trip, `EdGroupModel` instance,
                            `KholawLaw` without hypotheses
-/
import BipVerif.Lemmas.EdGroup.Curve
import BipVerif.Lemmas.EdGroup.Field
import BipVerif.Lemmas.EdGroup.Exec
import BipVerif.Lemmas.EdGroup.Concrete
import BipVerif.Lemmas.EdGroup.Law
