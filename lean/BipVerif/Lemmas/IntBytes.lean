/-
Integer <-> byte-string conversions (`int.to_bytes`, `int.from_bytes`, `IntegerUtils.ToBytes`),
binary strings (`bin(n)[2:].zfill(k)`, `int(s, 2)`) and hex strings.
-/
import Mathlib.Data.Nat.Log
import BipVerif.Lemmas.Bytes

namespace BipVerif.Model
open BipVerif

/-! ### big-endian value: structural facts -/

@[simp] theorem toNatBE_nil : Bytes.toNatBE [] = 0 := rfl

theorem toNatBE_append (a b : Bytes) :
    Bytes.toNatBE (a ++ b) = Bytes.toNatBE a * 256 ^ b.length + Bytes.toNatBE b := by
  rw [toNatBE_eq, toNatBE_eq, toNatBE_eq, List.map_append, ofDigitsBE_append, List.length_map]

theorem toNatBE_singleton (x : UInt8) : Bytes.toNatBE [x] = x.toNat := by
  simp [Bytes.toNatBE]

theorem toNatBE_cons (x : UInt8) (t : Bytes) :
    Bytes.toNatBE (x :: t) = x.toNat * 256 ^ t.length + Bytes.toNatBE t := by
  have := toNatBE_append [x] t
  rwa [toNatBE_singleton] at this

theorem toNatBE_concat (t : Bytes) (x : UInt8) :
    Bytes.toNatBE (t ++ [x]) = Bytes.toNatBE t * 256 + x.toNat := by
  rw [toNatBE_append, toNatBE_singleton]; simp

theorem toNatBE_replicate_zero (n : Nat) : Bytes.toNatBE (List.replicate n 0) = 0 := by
  rw [toNatBE_eq, List.map_replicate]; exact ofDigitsBE_replicate_zero 256 n

theorem toNatBE_zeros_append (n : Nat) (b : Bytes) :
    Bytes.toNatBE (List.replicate n 0 ++ b) = Bytes.toNatBE b := by
  rw [toNatBE_append, toNatBE_replicate_zero]; simp

/-- `int.from_bytes(b, "big") < 256 ** len(b)` -/
theorem toNatBE_lt (b : Bytes) : Bytes.toNatBE b < 256 ^ b.length := by
  induction b with
  | nil => simp
  | cons x t ih =>
    rw [toNatBE_cons, List.length_cons, Nat.pow_succ]
    have := x.toNat_lt
    have hp : 0 < 256 ^ t.length := Nat.pow_pos (by omega)
    nlinarith

/-! ### minimal big-endian bytes -/

theorem map_toNat_map_ofNat (ds : List Nat) (h : ∀ d ∈ ds, d < 256) :
    (ds.map UInt8.ofNat).map UInt8.toNat = ds := by
  induction ds with
  | nil => rfl
  | cons a t ih =>
    have ha : a < 256 := h a (by simp)
    simp only [List.map_cons, List.map_map] at ih ⊢
    rw [ih (fun d hd => h d (by simp [hd]))]
    congr 1
    simp [UInt8.toNat_ofNat']
    omega

theorem toNatBE_natToBytesMin (v : Nat) : Bytes.toNatBE (natToBytesMin v) = v := by
  rw [toNatBE_eq]; unfold natToBytesMin
  rw [map_toNat_map_ofNat _ (digitsBE_lt 256 (by omega) v)]
  exact ofDigitsBE_digitsBE 256 (by omega) v

theorem natToBytesMin_length (v : Nat) : (natToBytesMin v).length = (Nat.digits 256 v).length := by
  unfold natToBytesMin; rw [digitsBE_eq 256 (by omega)]; simp

theorem natToBytesMin_length_le_iff (v n : Nat) : (natToBytesMin v).length ≤ n ↔ v < 256 ^ n := by
  rw [natToBytesMin_length]; exact Nat.digits_length_le_iff (by omega) v

theorem natToBytesMin_zero : natToBytesMin 0 = [] := by
  unfold natToBytesMin; rw [digitsBE_zero]; rfl

theorem natToBytesMin_eq_nil_iff (v : Nat) : natToBytesMin v = [] ↔ v = 0 := by
  constructor
  · intro h
    have := toNatBE_natToBytesMin v
    rw [h] at this; exact this.symm
  · rintro rfl; exact natToBytesMin_zero

/-- the minimal encoding has no leading zero byte -/
theorem natToBytesMin_head_ne_zero (v : Nat) : (natToBytesMin v).head? ≠ some 0 := by
  have := natToBytesMin_toNatBE (natToBytesMin v)
  rw [toNatBE_natToBytesMin] at this
  rw [this]
  exact dropWhile_head_ne 0 _

/-- number of bytes of the minimal encoding = `Bytes.byteLen` (`(bit_length + 7) // 8`) -/
theorem natToBytesMin_length_eq_byteLen (v : Nat) : (natToBytesMin v).length = Bytes.byteLen v := by
  unfold Bytes.byteLen
  by_cases hv : v = 0
  · simp [hv, natToBytesMin_zero]
  · rw [if_neg hv, natToBytesMin_length, Nat.length_digits 256 v (by omega) hv, Nat.log2_eq_log_two]
    congr 1
    have : (256 : Nat) = 2 ^ 8 := by norm_num
    rw [this, Nat.log_pow_left]

/-! ### `int.to_bytes(n, "big")` -/

theorem toBytesBE_eq_ok (v n : Nat) (h : v < 256 ^ n) :
    toBytesBE v n = .ok (List.replicate (n - (natToBytesMin v).length) 0 ++ natToBytesMin v) := by
  unfold toBytesBE
  simp only [(natToBytesMin_length_le_iff v n).mpr h, if_true]; rfl

theorem toBytesBE_eq_error (v n : Nat) (h : 256 ^ n ≤ v) : toBytesBE v n = .error .overflow := by
  unfold toBytesBE
  have : ¬ (natToBytesMin v).length ≤ n := by rw [natToBytesMin_length_le_iff]; omega
  simp only [this, if_false]; rfl

/-- the result of `to_bytes` has the requested width and the requested value -/
theorem toBytesBE_toNatBE {v n : Nat} {b : Bytes} (h : toBytesBE v n = .ok b) :
    Bytes.toNatBE b = v ∧ b.length = n := by
  by_cases hv : v < 256 ^ n
  · rw [toBytesBE_eq_ok v n hv] at h
    have hb : b = _ := (Except.ok.inj h).symm
    have hl := (natToBytesMin_length_le_iff v n).mpr hv
    subst hb
    refine ⟨by rw [toNatBE_zeros_append, toNatBE_natToBytesMin], ?_⟩
    simp only [List.length_append, List.length_replicate]; omega
  · rw [toBytesBE_eq_error v n (by omega)] at h; cases h

/-- `to_bytes` succeeds exactly when the value fits -/
theorem toBytesBE_ok_iff (v n : Nat) : (∃ b, toBytesBE v n = .ok b) ↔ v < 256 ^ n := by
  constructor
  · rintro ⟨b, h⟩
    by_contra hv
    rw [toBytesBE_eq_error v n (by omega)] at h; cases h
  · intro h; exact ⟨_, toBytesBE_eq_ok v n h⟩

/-- and otherwise raises `OverflowError` -/
theorem toBytesBE_error_iff (v n : Nat) : toBytesBE v n = .error .overflow ↔ 256 ^ n ≤ v := by
  constructor
  · intro h
    by_contra hv
    rw [toBytesBE_eq_ok v n (by omega)] at h; cases h
  · exact toBytesBE_eq_error v n

theorem length_eq_leadingCount_add (b : Bytes) :
    b.length = leadingCount (0 : UInt8) b + (b.dropWhile (· == 0)).length := by
  conv_lhs => rw [split_leading (0 : UInt8) b]
  simp

/-- fixed-width round trip, leading zero bytes preserved -/
theorem toBytesBE_of_toNatBE (b : Bytes) : toBytesBE (Bytes.toNatBE b) b.length = .ok b := by
  rw [toBytesBE_eq_ok _ _ (toNatBE_lt b), natToBytesMin_toNatBE]
  have h := length_eq_leadingCount_add b
  have : b.length - (b.dropWhile (· == 0)).length = leadingCount (0 : UInt8) b := by omega
  rw [this]
  exact congrArg _ (split_leading (0 : UInt8) b).symm

/-- `to_bytes` is injective on its domain (uniqueness of the fixed-width representation) -/
theorem toNatBE_inj_of_length_eq {a b : Bytes} (hl : a.length = b.length)
    (hv : Bytes.toNatBE a = Bytes.toNatBE b) : a = b := by
  have h1 := toBytesBE_of_toNatBE a
  have h2 := toBytesBE_of_toNatBE b
  rw [hl, hv, h2] at h1
  exact (Except.ok.inj h1).symm

/-! ### little-endian twins -/

theorem toNatLE_reverse (b : Bytes) : Bytes.toNatLE b.reverse = Bytes.toNatBE b := by
  unfold Bytes.toNatLE; rw [List.reverse_reverse]

theorem toNatLE_lt (b : Bytes) : Bytes.toNatLE b < 256 ^ b.length := by
  unfold Bytes.toNatLE; have := toNatBE_lt b.reverse; rwa [List.length_reverse] at this

theorem toBytesLE_eq_ok (v n : Nat) (h : v < 256 ^ n) :
    toBytesLE v n
      = .ok (List.replicate (n - (natToBytesMin v).length) 0 ++ natToBytesMin v).reverse := by
  unfold toBytesLE; rw [toBytesBE_eq_ok v n h]; rfl

theorem toBytesLE_eq_error (v n : Nat) (h : 256 ^ n ≤ v) : toBytesLE v n = .error .overflow := by
  unfold toBytesLE; rw [toBytesBE_eq_error v n h]; rfl

theorem toBytesLE_ok_iff_BE (v n : Nat) (b : Bytes) :
    toBytesLE v n = .ok b ↔ toBytesBE v n = .ok b.reverse := by
  unfold toBytesLE
  cases h : toBytesBE v n with
  | error e => simp [Except.map]
  | ok c =>
    simp only [Except.map, Except.ok.injEq]
    constructor
    · rintro rfl; simp
    · intro hc; simp [hc]

theorem toBytesLE_toNatLE {v n : Nat} {b : Bytes} (h : toBytesLE v n = .ok b) :
    Bytes.toNatLE b = v ∧ b.length = n := by
  have := toBytesBE_toNatBE ((toBytesLE_ok_iff_BE v n b).mp h)
  simpa [Bytes.toNatLE] using this

theorem toBytesLE_ok_iff (v n : Nat) : (∃ b, toBytesLE v n = .ok b) ↔ v < 256 ^ n := by
  rw [← toBytesBE_ok_iff]
  constructor
  · rintro ⟨b, h⟩; exact ⟨_, (toBytesLE_ok_iff_BE v n b).mp h⟩
  · rintro ⟨b, h⟩; exact ⟨b.reverse, (toBytesLE_ok_iff_BE v n _).mpr (by simpa using h)⟩

theorem toBytesLE_error_iff (v n : Nat) : toBytesLE v n = .error .overflow ↔ 256 ^ n ≤ v := by
  constructor
  · intro h
    by_contra hv
    rw [toBytesLE_eq_ok v n (by omega)] at h; cases h
  · exact toBytesLE_eq_error v n

theorem toBytesLE_of_toNatLE (b : Bytes) : toBytesLE (Bytes.toNatLE b) b.length = .ok b := by
  rw [toBytesLE_ok_iff_BE]
  have := toBytesBE_of_toNatBE b.reverse
  rwa [List.length_reverse] at this

theorem toNatLE_inj_of_length_eq {a b : Bytes} (hl : a.length = b.length)
    (hv : Bytes.toNatLE a = Bytes.toNatLE b) : a = b := by
  have := toNatBE_inj_of_length_eq (a := a.reverse) (b := b.reverse) (by simpa using hl) hv
  exact List.reverse_injective this

/-! ### truncating fixed-width encoders `Bytes.ofNatLE` / `Bytes.ofNatBE` -/

theorem toNatLE_cons (x : UInt8) (t : Bytes) :
    Bytes.toNatLE (x :: t) = x.toNat + 256 * Bytes.toNatLE t := by
  unfold Bytes.toNatLE; rw [List.reverse_cons, toNatBE_concat]; ring

@[simp] theorem length_ofNatLE (n v : Nat) : (Bytes.ofNatLE n v).length = n := by
  induction n generalizing v with
  | zero => rfl
  | succ n ih => simp [Bytes.ofNatLE, ih]

@[simp] theorem length_ofNatBE (n v : Nat) : (Bytes.ofNatBE n v).length = n := by
  simp [Bytes.ofNatBE]

theorem toNatLE_ofNatLE_mod (n v : Nat) : Bytes.toNatLE (Bytes.ofNatLE n v) = v % 256 ^ n := by
  induction n generalizing v with
  | zero => simp [Bytes.ofNatLE, Bytes.toNatLE, Nat.mod_one]
  | succ n ih =>
    rw [Bytes.ofNatLE, toNatLE_cons, ih, Nat.pow_succ, Nat.mul_comm (256 ^ n) 256,
      Nat.mod_mul]
    have : (UInt8.ofNat (v % 256)).toNat = v % 256 := by
      simp [UInt8.toNat_ofNat']
    rw [this]

theorem toNatLE_ofNatLE {n v : Nat} (h : v < 256 ^ n) :
    Bytes.toNatLE (Bytes.ofNatLE n v) = v := by
  rw [toNatLE_ofNatLE_mod, Nat.mod_eq_of_lt h]

theorem toNatBE_ofNatBE_mod (n v : Nat) : Bytes.toNatBE (Bytes.ofNatBE n v) = v % 256 ^ n := by
  unfold Bytes.ofNatBE; rw [← toNatLE_ofNatLE_mod n v]; rfl

theorem toNatBE_ofNatBE {n v : Nat} (h : v < 256 ^ n) :
    Bytes.toNatBE (Bytes.ofNatBE n v) = v := by
  rw [toNatBE_ofNatBE_mod, Nat.mod_eq_of_lt h]

theorem ofNatLE_toNatLE (b : Bytes) : Bytes.ofNatLE b.length (Bytes.toNatLE b) = b :=
  toNatLE_inj_of_length_eq (by simp) (toNatLE_ofNatLE (toNatLE_lt b))

theorem ofNatBE_toNatBE (b : Bytes) : Bytes.ofNatBE b.length (Bytes.toNatBE b) = b :=
  toNatBE_inj_of_length_eq (by simp) (toNatBE_ofNatBE (toNatBE_lt b))

/-- the truncating encoder agrees with `int.to_bytes` whenever the latter succeeds -/
theorem toBytesBE_eq_ofNatBE {v n : Nat} (h : v < 256 ^ n) :
    toBytesBE v n = .ok (Bytes.ofNatBE n v) := by
  have := toBytesBE_of_toNatBE (Bytes.ofNatBE n v)
  rwa [toNatBE_ofNatBE h, length_ofNatBE] at this

theorem toBytesLE_eq_ofNatLE {v n : Nat} (h : v < 256 ^ n) :
    toBytesLE v n = .ok (Bytes.ofNatLE n v) := by
  have := toBytesLE_of_toNatLE (Bytes.ofNatLE n v)
  rwa [toNatLE_ofNatLE h, length_ofNatLE] at this

/-! ### `IntegerUtils.ToBytes(v)` without explicit width -/

theorem toBytesAuto_zero : toBytesAuto 0 = [0] := by
  unfold toBytesAuto; rw [natToBytesMin_zero]; rfl

theorem toBytesAuto_of_ne_zero {v : Nat} (h : v ≠ 0) : toBytesAuto v = natToBytesMin v := by
  unfold toBytesAuto
  have : natToBytesMin v ≠ [] := fun e => h ((natToBytesMin_eq_nil_iff v).mp e)
  cases hm : natToBytesMin v with
  | nil => exact absurd hm this
  | cons a t => rfl

theorem toNatBE_toBytesAuto (v : Nat) : Bytes.toNatBE (toBytesAuto v) = v := by
  by_cases h : v = 0
  · subst h; rw [toBytesAuto_zero]; rfl
  · rw [toBytesAuto_of_ne_zero h, toNatBE_natToBytesMin]

theorem bytesNumber_eq (v : Nat) : bytesNumber v = max (natToBytesMin v).length 1 := rfl

theorem toBytesAuto_length (v : Nat) : (toBytesAuto v).length = bytesNumber v := by
  rw [bytesNumber_eq]
  by_cases h : v = 0
  · subst h; rw [toBytesAuto_zero, natToBytesMin_zero]; rfl
  · rw [toBytesAuto_of_ne_zero h]
    have : natToBytesMin v ≠ [] := fun e => h ((natToBytesMin_eq_nil_iff v).mp e)
    have := List.length_pos_iff.mpr this
    omega

theorem toBytesAuto_length_pos (v : Nat) : 1 ≤ (toBytesAuto v).length := by
  rw [toBytesAuto_length, bytesNumber_eq]; omega

theorem toBytesAuto_length_eq (v : Nat) : (toBytesAuto v).length = max (Bytes.byteLen v) 1 := by
  rw [toBytesAuto_length, bytesNumber_eq, natToBytesMin_length_eq_byteLen]

/-- no leading zero byte except for the single byte of 0: the encoding is minimal -/
theorem toBytesAuto_head_ne_zero {v : Nat} (h : v ≠ 0) : (toBytesAuto v).head? ≠ some 0 := by
  rw [toBytesAuto_of_ne_zero h]
  have := natToBytesMin_toNatBE (natToBytesMin v)
  rw [toNatBE_natToBytesMin] at this
  rw [this]
  exact dropWhile_head_ne 0 _

theorem toBytesAuto_lt {v n : Nat} (hn : 1 ≤ n) (h : v < 256 ^ n) : (toBytesAuto v).length ≤ n := by
  rw [toBytesAuto_length, bytesNumber_eq]
  have := (natToBytesMin_length_le_iff v n).mpr h
  omega

/-! ### binary strings -/

/-- `int.bit_length()` -/
def bitLength (v : Nat) : Nat := if v = 0 then 0 else Nat.log2 v + 1

theorem digitsBE_two_length (v : Nat) : (digitsBE 2 v []).length = bitLength v := by
  unfold bitLength
  rw [digitsBE_eq 2 (by omega)]
  by_cases hv : v = 0
  · simp [hv]
  · simp only [List.append_nil, List.length_reverse, hv, if_false]
    rw [Nat.length_digits 2 v (by omega) hv, Nat.log2_eq_log_two]

theorem ofBinStr_eq (bs : List Bool) :
    ofBinStr bs = ofDigitsBE 2 (bs.map fun b => if b then 1 else 0) := by
  unfold ofBinStr ofDigitsBE; rw [List.foldl_map]

theorem ofBinStr_append (a b : List Bool) :
    ofBinStr (a ++ b) = ofBinStr a * 2 ^ b.length + ofBinStr b := by
  simp only [ofBinStr_eq, List.map_append, ofDigitsBE_append, List.length_map]

theorem ofBinStr_replicate_false (n : Nat) : ofBinStr (List.replicate n false) = 0 := by
  rw [ofBinStr_eq, List.map_replicate]; exact ofDigitsBE_replicate_zero 2 n

theorem ofBinStr_digits (v : Nat) : ofBinStr ((digitsBE 2 v []).map (· == 1)) = v := by
  rw [ofBinStr_eq, List.map_map]
  have : (digitsBE 2 v []).map ((fun b : Bool => if b then 1 else 0) ∘ (· == 1))
      = digitsBE 2 v [] := by
    conv_rhs => rw [← List.map_id (digitsBE 2 v [])]
    apply List.map_congr_left
    intro d hd
    have := digitsBE_lt 2 (by omega) v d hd
    have : d = 0 ∨ d = 1 := by omega
    rcases this with rfl | rfl <;> simp
  rw [this]; exact ofDigitsBE_digitsBE 2 (by omega) v

/-- `int(bin(v)[2:].zfill(pad), 2) == v` -/
theorem ofBinStr_toBinStr (v pad : Nat) : ofBinStr (toBinStr v pad) = v := by
  unfold toBinStr
  simp only
  rw [ofBinStr_append, ofBinStr_replicate_false, Nat.zero_mul, Nat.zero_add]
  by_cases hv : v = 0
  · subst hv; simp [digitsBE_zero, ofBinStr]
  · have hlen := digitsBE_two_length v
    have hne : ((digitsBE 2 v []).map (· == 1)).isEmpty = false := by
      cases h : digitsBE 2 v [] with
      | nil => rw [h] at hlen; simp [bitLength, hv] at hlen
      | cons a t => rfl
    rw [hne]; simp only [Bool.false_eq_true, if_false]
    exact ofBinStr_digits v

/-- `len(bin(v)[2:].zfill(pad)) == max(pad, max(1, v.bit_length()))` -/
theorem toBinStr_length (v pad : Nat) :
    (toBinStr v pad).length = max pad (max 1 (bitLength v)) := by
  unfold toBinStr
  simp only
  have hlen := digitsBE_two_length v
  by_cases hv : v = 0
  · subst hv; simp [digitsBE_zero, bitLength]; omega
  · have hpos : 1 ≤ bitLength v := by simp [bitLength, hv]
    have hne : ((digitsBE 2 v []).map (· == 1)).isEmpty = false := by
      cases h : digitsBE 2 v [] with
      | nil => rw [h] at hlen; simp at hlen; omega
      | cons a t => rfl
    rw [hne]
    simp only [Bool.false_eq_true, if_false, List.length_append, List.length_replicate,
      List.length_map, hlen]
    omega

/-- when `v < 2^pad` (and `pad ≥ 1`) the string has exactly `pad` bits -/
theorem toBinStr_length_of_lt {v pad : Nat} (hp : 1 ≤ pad) (h : v < 2 ^ pad) :
    (toBinStr v pad).length = pad := by
  rw [toBinStr_length]
  have : bitLength v ≤ pad := by
    rw [← digitsBE_two_length, digitsBE_eq 2 (by omega)]
    simpa using (Nat.digits_length_le_iff (b := 2) (by omega) v).mpr h
  omega

/-! ### hex strings -/

theorem hexVal_hexDigit (n : Nat) (h : n < 16) : Bytes.hexVal (Bytes.hexDigit n) = some n := by
  interval_cases n <;> decide

theorem ofHexChars_flatMap (b : Bytes) :
    Bytes.ofHexChars (b.flatMap fun x =>
      [Bytes.hexDigit (x.toNat / 16), Bytes.hexDigit (x.toNat % 16)]) = some b := by
  induction b with
  | nil => rfl
  | cons x t ih =>
    have hx := x.toNat_lt
    simp only [List.flatMap_cons, List.cons_append, List.nil_append, Bytes.ofHexChars]
    rw [hexVal_hexDigit _ (by omega), hexVal_hexDigit _ (by omega), ih]
    simp only [Option.bind_eq_bind, Option.bind_some, Option.pure_def, Option.some.injEq,
      List.cons.injEq, and_true]
    have : x.toNat / 16 * 16 + x.toNat % 16 = x.toNat := by omega
    rw [this]; simp

/-- `bytes.fromhex(b.hex()) == b` -/
theorem ofHex_toHex (b : Bytes) : Bytes.ofHex (Bytes.toHex b) = some b := by
  unfold Bytes.ofHex Bytes.toHex
  rw [String.toList_ofList]
  exact ofHexChars_flatMap b

theorem toHex_length (b : Bytes) : (Bytes.toHex b).toList.length = 2 * b.length := by
  unfold Bytes.toHex
  rw [String.toList_ofList]
  induction b with
  | nil => rfl
  | cons x t ih => simp only [List.flatMap_cons, List.length_append, ih]; simp; omega

end BipVerif.Model
