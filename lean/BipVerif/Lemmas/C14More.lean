/-
Helper lemmas for `Props/C14More.lean`: a small compositional calculus `Only P r` ("every error of
`r` satisfies `P`", the generalisation of `OnlyValue` to arbitrary sets of error kinds) and the
error-kind facts of the model entry points that had none yet.
-/
import BipVerif.Lemmas.AddrBech32
import BipVerif.Lemmas.AddrBase58
import BipVerif.Lemmas.AddrMisc
import BipVerif.Lemmas.Escape
import BipVerif.Lemmas.Slip10
import BipVerif.Lemmas.Cardano
import BipVerif.Lemmas.Bip38
import BipVerif.Lemmas.Monero
import BipVerif.Lemmas.Electrum
import BipVerif.Lemmas.Substrate
import BipVerif.Model.Bip44
import BipVerif.Props.C20
import BipVerif.Model.Electrum

namespace BipVerif.Model.C14MoreLemmas
open BipVerif BipVerif.Prim BipVerif.Model

/-- every error of `r` satisfies `P` -/
structure Only {α} (P : Err → Prop) (r : R α) : Prop where
  h : ∀ e, r = .error e → P e

namespace Only
universe u
variable {α β : Type u} {P Q : Err → Prop}

theorem ok (a : α) : Only P (Except.ok a : R α) := ⟨fun _ h => by cases h⟩
theorem pure (a : α) : Only P (Pure.pure a : R α) := ⟨fun _ h => by cases h⟩
theorem error {e : Err} (h : P e) : Only P (Except.error e : R α) := ⟨fun _ h' => by cases h'; exact h⟩
theorem throw {e : Err} (h : P e) : Only P (MonadExcept.throw e : R α) :=
  ⟨fun _ h' => by cases h'; exact h⟩

theorem intro {r : R α} (h : ∀ e, r = .error e → P e) : Only P r := ⟨h⟩

theorem bind {x : R α} {f : α → R β} (hx : Only P x) (hf : ∀ a, x = .ok a → Only P (f a)) :
    Only P (x >>= f) := by
  cases x with
  | error e => exact ⟨fun e' h => by cases h; exact hx.h e rfl⟩
  | ok a => exact hf a rfl

theorem ite {c : Prop} [Decidable c] {a b : R α} (ha : c → Only P a) (hb : ¬ c → Only P b) :
    Only P (if c then a else b) := by
  by_cases h : c
  · rw [if_pos h]; exact ha h
  · rw [if_neg h]; exact hb h

theorem mono {r : R α} (h : Only P r) (hpq : ∀ e, P e → Q e) : Only Q r :=
  ⟨fun e he => hpq e (h.h e he)⟩

theorem of_ov {r : R α} (h : OnlyValue r) (hv : P .value) : Only P r :=
  ⟨fun e he => by rw [h.h e he]; exact hv⟩

theorem map {x : R α} (f : α → β) (hx : Only P x) : Only P (f <$> x) := by
  cases x with
  | error e => exact ⟨fun e' h => by cases h; exact hx.h e rfl⟩
  | ok a => exact ⟨fun _ h => by cases h⟩

theorem mapM {α β : Type} {f : α → R β} (hf : ∀ a, Only P (f a)) (l : List α) : Only P (l.mapM f) :=
  ⟨fun _ h => EscapeLemmas.mapM_err (P := P) (fun a e he => (hf a).h e he) l h⟩

theorem foldlM {α β : Type} {f : β → α → R β} (hf : ∀ b a, Only P (f b a)) (l : List α) (b : β) :
    Only P (l.foldlM f b) :=
  ⟨fun _ h => EscapeLemmas.foldlM_err (P := P) (fun b a e he => (hf b a).h e he) l b h⟩

theorem to_ov {r : R α} (h : Only (· = .value) r) : OnlyValue r := ⟨h.h⟩

end Only

/-- one structural step of an `Only P (do …)` proof -/
syntax "only_step" : tactic
macro_rules | `(tactic| only_step) => `(tactic| first
  | with_reducible exact Only.pure _
  | with_reducible exact Only.ok _
  | ((with_reducible apply Only.throw); first | rfl | decide | simp)
  | ((with_reducible apply Only.error); first | rfl | decide | simp)
  | with_reducible assumption
  | with_reducible apply Only.ite
  | with_reducible apply Only.bind
  | intro _
  | split
  | (dsimp only))

open Lean in
syntax "only_auto" ("[" term,* "]")? : tactic
open Lean in
macro_rules
  | `(tactic| only_auto) => `(tactic| repeat (any_goals only_step))
  | `(tactic| only_auto [$ts,*]) => do
      let alts ← ts.getElems.mapM fun t => `(Lean.Parser.Tactic.tacticSeq| with_reducible apply $t)
      `(tactic| repeat (any_goals (first $[| $alts]* | only_step)))

/-! ### Cardano addresses -/

theorem shelleyDecode_ov (hrp : List Char) (netTag : Nat) (addr : List Char) :
    OnlyValue (shelleyDecode hrp netTag addr) := by
  unfold shelleyDecode; ov_bech

theorem shelleyStakingDecode_ov (hrp : List Char) (netTag : Nat) (addr : List Char) :
    OnlyValue (shelleyStakingDecode hrp netTag addr) := by
  unfold shelleyStakingDecode; ov_bech

theorem shelleyEncode_ov (hrp : List Char) (netTag : Nat) (pub stake : Bytes) :
    OnlyValue (shelleyEncode hrp netTag pub stake) := by
  unfold shelleyEncode; ov_bech

theorem shelleyStakingEncode_ov (hrp : List Char) (netTag : Nat) (pub : Bytes) :
    OnlyValue (shelleyStakingEncode hrp netTag pub) := by
  unfold shelleyStakingEncode; ov_bech

theorem byronIcarusEncode_ov (pub cc : Bytes) : OnlyValue (byronIcarusEncode pub cc) := by
  unfold byronIcarusEncode; ov

theorem byronLegacyEncode_ov (aead : Aead) (pub cc : Bytes) (path : List Nat)
    (hp : ∀ n ∈ path, n < 2 ^ 64) (hdKey : Option Bytes) :
    OnlyValue (byronLegacyEncode aead pub cc path hdKey) := by
  unfold byronLegacyEncode
  rw [cborIndefEncode_ok hp]
  ov

/-- `byronDecode`: `ValueError`, or the input is outside the modelled CBOR fragment -/
theorem byronDecode_only (addr : List Char) :
    Only (fun e => e = .value ∨ e = .oracleMiss) (byronDecode addr) := by
  unfold byronDecode
  apply Only.bind
  · exact Only.of_ov (OnlyValue.b58Decode _ _) (Or.inl rfl)
  · intro raw _
    only_auto

/-! ### BIP-32 nodes and child keys -/

theorem nodeOfPriv_only (c : CurveT) (s : Scheme) (k : Bytes) (d i : Nat) (cc fp : Bytes) :
    Only (fun e => e = .key ∨ e = .value) (nodeOfPriv c s k d i cc fp) :=
  ⟨fun e h => by
    rcases nodeOfPriv_error c s k d i cc fp e h with ⟨h, _⟩ | ⟨h, _⟩
    · exact Or.inl h
    · exact Or.inr h⟩

theorem nodeOfPub_only (c : CurveT) (s : Scheme) (p : Bytes) (d i : Nat) (cc fp : Bytes) :
    Only (fun e => e = .key) (nodeOfPub c s p d i cc fp) :=
  ⟨fun e h => (nodeOfPub_error c s p d i cc fp e h).1⟩

theorem slip10Retry_only (n : Nat) (cc : Bytes) (idx : Nat) (kpar : Option Nat) (fuel : Nat)
    (s : Bytes × Bytes) : Only (fun e => e = .fuel) (slip10Retry n cc idx kpar fuel s) :=
  ⟨fun e h => slip10Retry_error n cc idx kpar fuel s e h⟩

theorem slip10CkdPriv_only (nd : Node) (priv : Bytes) (idx : Nat) :
    Only (fun e => e = .key ∨ e = .fuel) (slip10CkdPriv nd priv idx) := by
  by_cases hc : nd.curve.isEcdsa = true
  · exact ⟨fun e h => Or.inr (slip10CkdPriv_ecdsa_error nd priv idx hc e h)⟩
  · unfold slip10CkdPriv
    rw [if_neg hc]
    only_auto

theorem slip10CkdPub_only (nd : Node) (idx : Nat) :
    Only (fun e => e = .key ∨ e = .fuel) (slip10CkdPub nd idx) := by
  unfold slip10CkdPub
  apply Only.ite
  · intro _
    apply Only.bind
    · exact (slip10Retry_only _ _ _ _ _ _).mono (fun e h => Or.inr h)
    · intro a _
      only_auto
  · intro _; exact Only.throw (Or.inl rfl)

/-- key / value / (modelled) fuel -/
abbrev KVF (e : Err) : Prop := e = .key ∨ e = .value ∨ e = .fuel

theorem KVF.key : KVF .key := Or.inl rfl
theorem KVF.value : KVF .value := Or.inr (Or.inl rfl)
theorem KVF.fuel : KVF .fuel := Or.inr (Or.inr rfl)

theorem slip10ChildKey_only (nd : Node) (idx : Nat) : Only KVF (slip10ChildKey nd idx) := by
  have h1 : ∀ priv, Only KVF (slip10CkdPriv nd priv idx) := fun priv =>
    (slip10CkdPriv_only nd priv idx).mono (fun e h => h.elim (fun h => h ▸ KVF.key) (fun h => h ▸ KVF.fuel))
  have h2 : Only KVF (slip10CkdPub nd idx) :=
    (slip10CkdPub_only nd idx).mono (fun e h => h.elim (fun h => h ▸ KVF.key) (fun h => h ▸ KVF.fuel))
  have h3 : ∀ c s k d i cc fp, Only KVF (nodeOfPriv c s k d i cc fp) := fun c s k d i cc fp =>
    (nodeOfPriv_only c s k d i cc fp).mono (fun e h => h.elim (fun h => h ▸ KVF.key) (fun h => h ▸ KVF.value))
  have h4 : ∀ c s k d i cc fp, Only KVF (nodeOfPub c s k d i cc fp) := fun c s k d i cc fp =>
    (nodeOfPub_only c s k d i cc fp).mono (fun e h => h ▸ KVF.key)
  unfold slip10ChildKey
  only_auto [h1, h2, h3, h4]

/-! ### BIP32-Ed25519 (Khovratovich-Law, Icarus, Byron legacy) child keys -/

theorem toBytesLE_total {v n : Nat} (h : v < 256 ^ n) {P : Err → Prop} : Only P (toBytesLE v n) := by
  obtain ⟨b, hb⟩ := (toBytesLE_ok_iff v n).mpr h
  rw [hb]; exact Only.ok _

theorem kholawNewLeft_only (s : Scheme) (zl kl : Bytes) :
    Only (fun e => e = .key) (kholawNewLeft s zl kl) := by
  unfold kholawNewLeft
  apply Only.ite
  · intro _
    exact toBytesLE_total (Nat.lt_trans (Nat.mod_lt _ CardanoLemmas.edL_pos) CardanoLemmas.edL_lt)
  · intro _
    dsimp only
    apply Only.ite
    · intro _; exact Only.throw rfl
    · intro _
      apply Only.ite
      · intro _; exact Only.throw rfl
      · intro h
        apply toBytesLE_total
        have : (256 : Nat) ^ 32 = 2 ^ 256 := by norm_num
        rw [this]
        have h2 : (2 : Nat) ^ 255 < 2 ^ 256 := by norm_num
        omega

theorem kholawNewRight_only (s : Scheme) (zr kr : Bytes) :
    Only (fun e => e = .key) (kholawNewRight s zr kr) := by
  unfold kholawNewRight
  apply Only.ite
  · intro _; exact Only.pure _
  · intro _
    apply toBytesLE_total
    have : (256 : Nat) ^ 32 = 2 ^ 256 := by norm_num
    rw [this]
    exact Nat.mod_lt _ (by positivity)

theorem kholawCkdPriv_only (nd : Node) (priv : Bytes) (idx : Nat) :
    Only (fun e => e = .key) (kholawCkdPriv nd priv idx) := by
  unfold kholawCkdPriv
  only_auto [kholawNewLeft_only, kholawNewRight_only]

theorem kholawCkdPub_only (nd : Node) (idx : Nat) :
    Only (fun e => e = .key) (kholawCkdPub nd idx) := by
  unfold kholawCkdPub
  dsimp only
  split
  · exact Only.throw rfl
  · apply Only.ite <;> intro _
    · apply Only.bind
      · exact Only.throw rfl
      · intro _ _; exact Only.pure _
    · exact Only.pure _

/-- key / value -/
abbrev KV (e : Err) : Prop := e = .key ∨ e = .value

theorem KV.toKVF {e : Err} (h : KV e) : KVF e := h.elim (fun h => Or.inl h) (fun h => Or.inr (Or.inl h))

theorem kholawChildKey_only (nd : Node) (idx : Nat) : Only KV (kholawChildKey nd idx) := by
  have h1 : ∀ priv, Only KV (kholawCkdPriv nd priv idx) := fun priv =>
    (kholawCkdPriv_only nd priv idx).mono (fun e h => Or.inl h)
  have h2 : Only KV (kholawCkdPub nd idx) := (kholawCkdPub_only nd idx).mono (fun e h => Or.inl h)
  have h3 : ∀ c s k d i cc fp, Only KV (nodeOfPriv c s k d i cc fp) := nodeOfPriv_only
  have h4 : ∀ c s k d i cc fp, Only KV (nodeOfPub c s k d i cc fp) := fun c s k d i cc fp =>
    (nodeOfPub_only c s k d i cc fp).mono (fun e h => Or.inl h)
  unfold kholawChildKey
  only_auto [h1, h2, h3, h4]

theorem childKey_only (nd : Node) (idx : Nat) : Only KVF (childKey nd idx) := by
  unfold childKey
  split
  · exact slip10ChildKey_only nd idx
  · exact (kholawChildKey_only nd idx).mono (fun _ h => h.toKVF)

theorem derivePathWith_only {P : Err → Prop} (child : Node → Nat → R Node)
    (hc : ∀ nd i, Only P (child nd i)) (hv : P .value) (nd : Node) (p : Path) :
    Only P (derivePathWith child nd p) := by
  have hf : Only P (List.foldlM child nd p.elems) := Only.foldlM hc _ _
  unfold derivePathWith
  dsimp only
  apply Only.ite <;> intro _
  · apply Only.bind
    · exact Only.throw hv
    · intro _ _; exact hf
  · exact hf

/-! ### master keys -/

theorem slip10Master_only (c : CurveT) (seed : Bytes) : Only KVF (slip10Master c seed) :=
  ⟨fun e h => by
    rcases master_errors c seed e h with ⟨h, _⟩ | ⟨_, h | h⟩
    · exact h ▸ KVF.value
    · exact h ▸ KVF.fuel
    · exact h ▸ KVF.value⟩

theorem kholawMaster_only {P : Err → Prop} (s : Scheme) (gen : Bytes → R (Bytes × Bytes))
    (hg : ∀ seed, Only P (gen seed)) (hk : P .key) (hv : P .value) (seed : Bytes) :
    Only P (kholawMaster s gen seed) := by
  unfold kholawMaster
  apply Only.bind
  · exact hg seed
  · intro a _
    split
    exact (nodeOfPriv_only _ _ _ _ _ _ _).mono (fun e h => h.elim (fun h => h ▸ hk) (fun h => h ▸ hv))

theorem kholawMasterKey_only (seed : Bytes) : Only KVF (kholawMasterKey seed) :=
  ⟨fun e h => by
    rcases CardanoLemmas.kholawMasterKey_error seed e h with ⟨h, _⟩ | ⟨h, _⟩
    · exact h ▸ KVF.value
    · exact h ▸ KVF.fuel⟩

theorem byronLegacyMasterKey_only (seed : Bytes) : Only KVF (byronLegacyMasterKey seed) :=
  ⟨fun e h => by
    rcases CardanoLemmas.byronLegacyMasterKey_error seed e h with ⟨h, _⟩ | ⟨h, _⟩
    · exact h ▸ KVF.value
    · exact h ▸ KVF.fuel⟩

theorem icarusMasterKey_only (seed : Bytes) : Only (fun e => e = .value) (icarusMasterKey seed) := by
  unfold icarusMasterKey
  only_auto

theorem masterOf_only (b : String) (hb : (bip32ClassOf b).isSome = true) (seed : Bytes) :
    Only KVF (masterOf b seed) := by
  unfold masterOf
  split
  · exact slip10Master_only _ _
  · exact slip10Master_only _ _
  · exact slip10Master_only _ _
  · exact slip10Master_only _ _
  · exact kholawMaster_only _ _ kholawMasterKey_only KVF.key KVF.value _
  · exact kholawMaster_only _ _ (fun s => (icarusMasterKey_only s).mono (fun e h => h ▸ KVF.value))
      KVF.key KVF.value _
  · exfalso
    unfold bip32ClassOf at hb
    split at hb <;> simp_all

/-! ### BIP-44 hierarchy -/

/-- documented, or the modelled fuel bound -/
abbrev DF (e : Err) : Prop := e.documented = true ∨ e = .fuel

theorem KVF.toDF {e : Err} (h : KVF e) : DF e := by
  rcases h with rfl | rfl | rfl
  · exact Or.inl rfl
  · exact Or.inl rfl
  · exact Or.inr rfl

theorem DF.depth : DF .depth := Or.inl rfl
theorem DF.value : DF .value := Or.inl rfl

theorem b44Admit_only (nd : Node) : Only (fun e => e = .depth) (b44Admit nd) := by
  unfold b44Admit
  only_auto

theorem b44Child_only (nd : Node) (idx : Nat) : Only DF (b44Child nd idx) := by
  unfold b44Child
  apply Only.bind
  · exact (childKey_only nd idx).mono (fun _ h => h.toDF)
  · intro a _
    exact (b44Admit_only a).mono (fun e h => h ▸ DF.depth)

/-- documented, fuel, or the `TypeError` of `Change(x)` -/
abbrev DFT (e : Err) : Prop := e.documented = true ∨ e = .fuel ∨ e = .type

theorem DF.toDFT {e : Err} (h : DF e) : DFT e := h.elim Or.inl (fun h => Or.inr (Or.inl h))

theorem b44Step_only (purpose coinIdx : Nat) (defPath : Path) (nd : Node) (op : B44Op) :
    Only DFT (b44Step purpose coinIdx defPath nd op) := by
  have hchild : ∀ nd i, Only DFT (b44Child nd i) := fun nd i => (b44Child_only nd i).mono (fun _ h => h.toDFT)
  have hadm : ∀ nd, Only DFT (b44Admit nd) :=
    fun nd => (b44Admit_only nd).mono (fun e h => h ▸ DF.depth.toDFT)
  have hd : DFT .depth := DF.depth.toDFT
  cases op with
  | purpose => unfold b44Step; exact Only.ite (fun _ => Only.throw hd) (fun _ => hchild _ _)
  | coin => unfold b44Step; exact Only.ite (fun _ => Only.throw hd) (fun _ => hchild _ _)
  | account i => unfold b44Step; exact Only.ite (fun _ => Only.throw hd) (fun _ => hchild _ _)
  | change c =>
    unfold b44Step
    exact Only.ite (fun _ => Only.throw (Or.inr (Or.inr rfl)))
      (fun _ => Only.ite (fun _ => Only.throw hd) (fun _ => hchild _ _))
  | addrIdx i => unfold b44Step; exact Only.ite (fun _ => Only.throw hd) (fun _ => hchild _ _)
  | deriveDefault =>
    have hdp : ∀ b, Only DFT (derivePathWith childKey b defPath) := fun b =>
      derivePathWith_only childKey
        (fun nd i => (childKey_only nd i).mono (fun _ h => h.toDF.toDFT)) DF.value.toDFT b defPath
    unfold b44Step
    only_auto [hchild, hadm, hdp]
  | neuter => unfold b44Step; exact Only.pure _
  | reimportX => unfold b44Step; exact hadm _
  | reimportRaw d => unfold b44Step; exact hadm _

theorem b44Run_only (purpose coinIdx : Nat) (defPath : Path) (nd : Node) (ops : List B44Op) :
    Only DFT (b44Run purpose coinIdx defPath nd ops) := by
  unfold b44Run
  exact Only.foldlM (fun nd op => b44Step_only purpose coinIdx defPath nd op) _ _

/-! ### BIP-38 with EC multiplication: the two generators -/

abbrev VC (e : Err) : Prop := e = .value ∨ e = .checksum

theorem secpMulG_only (s : Nat) : Only (fun e => e = .value) (secpMulG s) := ⟨fun _ h => Bip38Lemmas.secpMulG_error h⟩
theorem secpMul_only (p : Bytes) (s : Nat) : Only (fun e => e = .value) (secpMul p s) :=
  ⟨fun _ h => Bip38Lemmas.secpMul_error h⟩
theorem secpPubOfPriv_only (k : Bytes) : Only (fun e => e = .value) (secpPubOfPriv k) :=
  ⟨fun _ h => Bip38Lemmas.secpPubOfPriv_error h⟩

theorem bip38Intermediate_only (pass salt : Bytes) (lotSeq : Option (Nat × Nat)) :
    Only (fun e => e = .value) (bip38Intermediate pass salt lotSeq) := by
  unfold bip38Intermediate
  only_auto [secpMulG_only]

theorem bip38EcGenerate_only (intPass : List Char) (seedb : Bytes) (compressed : Bool) :
    Only VC (bip38EcGenerate intPass seedb compressed) := by
  have h1 : Only VC (b58CheckDecode sha256d btcAlphabet intPass) := ⟨fun _ h => Bip38Lemmas.b58c_error h⟩
  have h2 : ∀ c b, Only VC (addrKey c b) := fun c b => Only.of_ov (OnlyValue.addrKey c b) (Or.inl rfl)
  have h3 : ∀ p s, Only VC (secpMul p s) := fun p s => (secpMul_only p s).mono (fun _ h => Or.inl h)
  have h4 : ∀ p c, Only VC (bip38AddrHash p c) := fun p c => ⟨fun _ h => Or.inl (Bip38Lemmas.bip38AddrHash_error h)⟩
  unfold bip38EcGenerate
  only_auto [h1, h2, h3, h4]

/-! ### Electrum wallets, SPL token -/

abbrev V (e : Err) : Prop := e = .value

theorem ev1FromPriv_only (k : Bytes) : Only V (ev1FromPriv k) := by
  unfold ev1FromPriv
  only_auto [secpPubOfPriv_only]

theorem ev1FromPub_only (b : Bytes) : Only V (ev1FromPub b) := by
  have h : ∀ c b, Only V (addrKey c b) := fun c b => Only.of_ov (OnlyValue.addrKey c b) rfl
  unfold ev1FromPub
  only_auto [h]

theorem ev1PrivateKey_only (w : Ev1) (change addr : Nat) : Only V (ev1PrivateKey w change addr) :=
  ⟨fun _ h => Props.C20.electrumV1_errors h⟩

theorem ev1PublicKey_only (w : Ev1) (change addr : Nat) : Only V (ev1PublicKey w change addr) := by
  have h1 : Only V (ev1Sequence w change addr) := ⟨fun _ h => ElectrumLemmas.ev1Sequence_error h⟩
  unfold ev1PublicKey
  only_auto [h1, ev1PrivateKey_only, secpPubOfPriv_only]

theorem ev1Address_only (w : Ev1) (change addr : Nat) : Only V (ev1Address w change addr) := by
  have h : ∀ nv al c p, Only V (p2pkhEncode nv al c p) := fun nv al c p => Only.of_ov (p2pkhEncode_ov nv al c p) rfl
  unfold ev1Address
  only_auto [h, ev1PublicKey_only]

/-- key / value / path / (modelled) fuel -/
abbrev KVPF (e : Err) : Prop := e = .key ∨ e = .value ∨ e = .path ∨ e = .fuel

theorem KVF.toKVPF {e : Err} (h : KVF e) : KVPF e := by
  rcases h with h | h | h
  · exact Or.inl h
  · exact Or.inr (Or.inl h)
  · exact Or.inr (Or.inr (Or.inr h))

theorem ev2Derive_only (segwit : Bool) (master : Node) (change addr : Nat) :
    Only KVPF (ev2Derive segwit master change addr) := by
  have h : ∀ nd i, Only KVPF (slip10ChildKey nd i) := fun nd i =>
    (slip10ChildKey_only nd i).mono (fun _ h => h.toKVPF)
  unfold ev2Derive
  only_auto [h]

theorem ev2Address_only (segwit : Bool) (nd : Node) : Only V (ev2Address segwit nd) := by
  unfold ev2Address
  split
  · exact Only.of_ov (p2wpkhEncode_ov _ _) rfl
  · exact Only.of_ov (p2pkhEncode_ov _ _ _ _) rfl

theorem solDecode_only (a : List Char) : Only V (solDecode a) := Only.of_ov (solDecode_ov a) rfl

theorem findPdaLoop_only (seeds : List Bytes) (p : Bytes) (fuel bump : Nat) :
    Only V (findPdaLoop seeds p fuel bump) := ⟨fun _ h => ElectrumLemmas.findPdaLoop_error h⟩

theorem findPda_only (seeds : List Bytes) (prog : List Char) : Only V (findPda seeds prog) := by
  unfold findPda
  only_auto [solDecode_only, findPdaLoop_only]

theorem associatedTokenAddress_only (w m t : List Char) : Only V (associatedTokenAddress w m t) := by
  unfold associatedTokenAddress
  only_auto [solDecode_only, findPda_only]

/-! ### Monero wallet accessors -/

theorem xmrFromBip44Priv_only (k : Bytes) : Only KV (xmrFromBip44Priv k) :=
  ⟨fun _ h => MoneroLemmas.xmrFromSpend_error h⟩

theorem xmrPrivateSpend_only (w : XmrWallet) : Only (fun e => e = .key) (xmrPrivateSpend w) := by
  unfold xmrPrivateSpend
  only_auto

theorem xmrAddrEncode_only (nv : Bytes) (pid : Option Bytes) (s v : Bytes) : Only V (xmrAddrEncode nv pid s v) :=
  Only.of_ov (xmrAddrEncode_ov nv pid s v) rfl

theorem xmrPrimaryAddress_only (w : XmrWallet) (nv : Bytes) : Only V (xmrPrimaryAddress w nv) :=
  xmrAddrEncode_only _ _ _ _

theorem xmrIntegratedAddress_only (w : XmrWallet) (nv pid : Bytes) : Only V (xmrIntegratedAddress w nv pid) :=
  xmrAddrEncode_only _ _ _ _

theorem xmrSubaddress_only (w : XmrWallet) (nv snv : Bytes) (minor major : Nat) :
    Only V (xmrSubaddress w nv snv minor major) := by
  have h : Only V (xmrSubaddrKeys w minor major) := ⟨fun _ h => MoneroLemmas.xmrSubaddrKeys_error h⟩
  unfold xmrSubaddress
  only_auto [h, xmrAddrEncode_only, xmrPrimaryAddress_only]

/-! ### Substrate wallets (sr25519 by oracle) -/

theorem askOr_only (o : Oracle) (fn : String) (inp : Bytes) : Only (fun e => e = .oracleMiss) (askOr o fn inp) := by
  unfold askOr
  only_auto

/-- value / oracle miss -/
abbrev VO (e : Err) : Prop := e = .value ∨ e = .oracleMiss
/-- key / oracle miss -/
abbrev KO (e : Err) : Prop := e = .key ∨ e = .oracleMiss
/-- path / value / key / oracle miss -/
abbrev PVKO (e : Err) : Prop := e = .path ∨ e = .value ∨ e = .key ∨ e = .oracleMiss

theorem subFromSeed_only (o : Oracle) (seed : Bytes) : Only VO (subFromSeed o seed) := by
  have h : ∀ fn inp, Only VO (askOr o fn inp) := fun fn inp => (askOr_only o fn inp).mono (fun _ h => Or.inr h)
  unfold subFromSeed
  only_auto [h]

theorem subFromPriv_only (o : Oracle) (priv : Bytes) : Only KO (subFromPriv o priv) := by
  have h : ∀ fn inp, Only KO (askOr o fn inp) := fun fn inp => (askOr_only o fn inp).mono (fun _ h => Or.inr h)
  unfold subFromPriv
  only_auto [h]

theorem subFromPub_only (pub : Bytes) : Only (fun e => e = .key) (subFromPub pub) := by
  unfold subFromPub
  only_auto

theorem subChildKey_only (o : Oracle) (nd : SubNode) (el : SubElem) : Only PVKO (subChildKey o nd el) := by
  have h1 : ∀ fn inp, Only PVKO (askOr o fn inp) := fun fn inp =>
    (askOr_only o fn inp).mono (fun _ h => Or.inr (Or.inr (Or.inr h)))
  have h2 : ∀ el, Only PVKO (subChainCode el) := fun el =>
    ⟨fun _ h => (EscapeLemmas.subChainCode_error h).elim Or.inl (fun h => Or.inr (Or.inl h))⟩
  unfold subChildKey
  only_auto [h1, h2]

theorem subDerivePath_only (o : Oracle) (nd : SubNode) (p : List SubElem) : Only PVKO (subDerivePath o nd p) := by
  unfold subDerivePath
  exact Only.foldlM (subChildKey_only o) _ _

theorem subAddress_only (fmt : Nat) (nd : SubNode) : Only V (subAddress fmt nd) := by
  unfold subAddress
  exact Only.of_ov (OnlyValue.ss58Encode _ _ _) rfl

/-! ### sentence normalisation, `DecodeWithChecksum` -/

theorem normToken_only (o : List (List Char × List Char)) (t : List Char) :
    Only (fun e => e = .oracleMiss) (normToken o t) := by
  unfold normToken
  only_auto

theorem bip39Sentence_only (o : List (List Char × List Char)) (s : List Char) :
    Only (fun e => e = .oracleMiss) (bip39Sentence o s) := by
  unfold bip39Sentence
  apply Only.bind
  · exact Only.mapM (normToken_only o) _
  · intro _ _; exact Only.pure _

theorem bip39DecodeWithChecksum_only (H : Bytes → Bytes) (hH : ∀ x, (H x).length = 32)
    (langs : List (List Nat)) (hlangs : ∀ L ∈ langs, L.length ≤ 2048) (lang : Option (List Nat))
    (hlang : ∀ L, lang = some L → L.length ≤ 2048) (ws : List Nat) :
    Only VC (bip39DecodeWithChecksum H langs lang ws) := by
  have hsome : ∀ wl, wl.length ≤ 2048 → Only VC (bip39DecodeWithChecksum H langs (some wl) ws) := by
    intro wl hwl
    constructor
    intro e he
    rw [bip39DecodeWithChecksum_some_eq H hH langs wl hwl ws] at he
    cases hd : bip39Decode H langs (some wl) ws with
    | ok r => rw [hd] at he; cases he
    | error e' =>
      rw [hd] at he
      cases he
      exact bip39Decode_error_kind H hH langs hlangs (some wl) (fun L hL => by cases hL; exact hwl) ws e hd
  cases lang with
  | some wl => exact hsome wl (hlang wl rfl)
  | none =>
    by_cases hcount : bip39WordNums.contains ws.length = true
    · cases hf : findLanguage langs ws with
      | error e' =>
        constructor
        intro e he
        unfold bip39DecodeWithChecksum at he
        rw [bip39DecodeBits_none_eq H langs ws hcount, hf] at he
        cases he
        exact Or.inl (findLanguage_error langs ws _ hf)
      | ok wl =>
        have hmem : wl ∈ langs := by
          unfold findLanguage at hf
          cases hfind : langs.find? (fun wl => ws.all (fun w => wl.contains w)) with
          | none => rw [hfind] at hf; cases hf
          | some wl' =>
            rw [hfind] at hf
            cases hf
            exact List.mem_of_find?_eq_some hfind
        have heq : bip39DecodeWithChecksum H langs none ws = bip39DecodeWithChecksum H langs (some wl) ws := by
          unfold bip39DecodeWithChecksum
          rw [bip39DecodeBits_none_eq H langs ws hcount, hf]
        rw [heq]
        exact hsome wl (hlangs wl hmem)
    · constructor
      intro e he
      unfold bip39DecodeWithChecksum at he
      rw [bip39DecodeBits_count_error H langs none ws (by simpa using hcount)] at he
      cases he
      exact Or.inl rfl

/-! ### Byron-legacy wallet address, CBOR encoder -/

theorem harden_lt (i : Nat) (h : ¬ i > 2 ^ 32 - 1) : harden i < 2 ^ 64 := by
  unfold harden
  split <;> omega

/-- path / key / value -/
abbrev PKV (e : Err) : Prop := e = .path ∨ e = .key ∨ e = .value

theorem byronLegacyAddress_only (aead : Aead) (master : Node) (first second : Nat) :
    Only PKV (byronLegacyAddress aead master first second) := by
  unfold byronLegacyAddress
  by_cases hr : (first > 2 ^ 32 - 1 || second > 2 ^ 32 - 1) = true
  · rw [if_pos hr]
    exact Only.bind (Only.throw (Or.inl rfl)) (fun _ h => by cases h)
  · rw [if_neg hr]
    have hr' : ¬ first > 2 ^ 32 - 1 ∧ ¬ second > 2 ^ 32 - 1 := by
      simp only [Bool.or_eq_true, decide_eq_true_eq, not_or] at hr
      exact hr
    have hfold : ∀ l nd, Only PKV (List.foldlM kholawChildKey nd l) := fun l nd =>
      Only.foldlM (fun nd i => (kholawChildKey_only nd i).mono
        (fun _ h => h.elim (fun h => Or.inr (Or.inl h)) (fun h => Or.inr (Or.inr h)))) l nd
    have henc : ∀ pub cc k, Only PKV (byronLegacyEncode aead pub cc [harden first, harden second] k) := by
      intro pub cc k
      refine Only.of_ov (byronLegacyEncode_ov aead _ _ _ ?_ _) (Or.inr (Or.inr rfl))
      intro n hn
      simp only [List.mem_cons, List.not_mem_nil, or_false] at hn
      rcases hn with rfl | rfl
      · exact harden_lt _ hr'.1
      · exact harden_lt _ hr'.2
    only_auto [hfold, henc]

theorem cborIndefEncode_only (l : List Nat) : Only (fun e => e = .overflow) (cborIndefEncode l) := by
  by_cases h : ∀ n ∈ l, n < 2 ^ 64
  · rw [cborIndefEncode_ok h]; exact Only.ok _
  · have h' : ∃ n ∈ l, 2 ^ 64 ≤ n := by
      by_contra hc
      apply h
      intro n hn
      by_contra hlt
      exact hc ⟨n, hn, by omega⟩
    rw [cborIndefEncode_error h']
    exact Only.error rfl

end BipVerif.Model.C14MoreLemmas
