/-
Algorand mnemonic helpers: `algoConvertBits` (little-endian regrouping of bit groups) as
fixed-width little-endian radix conversion, and the structure of `algoEncode` / `algoDecode`.
-/
import BipVerif.Lemmas.Mnemonics

namespace BipVerif.Model
open BipVerif

/-! ### fixed-width little-endian digits -/

/-- the `cnt` least significant base-`2^t` digits of `N`, least significant first -/
def leDigits (t : Nat) : (cnt : Nat) → (N : Nat) → List Nat
  | 0, _ => []
  | cnt + 1, N => N % 2 ^ t :: leDigits t cnt (N / 2 ^ t)

/-- value of a little-endian list of `f`-bit groups -/
def valLE (f : Nat) : List Nat → Nat
  | [] => 0
  | v :: rest => v + 2 ^ f * valLE f rest

@[simp] theorem leDigits_length (t cnt N : Nat) : (leDigits t cnt N).length = cnt := by
  induction cnt generalizing N with
  | zero => rfl
  | succ c ih => simp [leDigits, ih]

theorem leDigits_lt (t cnt N : Nat) : ∀ d ∈ leDigits t cnt N, d < 2 ^ t := by
  induction cnt generalizing N with
  | zero => intro d hd; cases hd
  | succ c ih =>
    intro d hd
    rw [leDigits, List.mem_cons] at hd
    rcases hd with rfl | hd
    · exact Nat.mod_lt _ (Nat.two_pow_pos t)
    · exact ih _ d hd

theorem leDigits_add (t q c N : Nat) :
    leDigits t (q + c) N = leDigits t q N ++ leDigits t c (N / 2 ^ (t * q)) := by
  induction q generalizing N with
  | zero => simp [leDigits]
  | succ q ih =>
    have e : q + 1 + c = (q + c) + 1 := by omega
    rw [e, leDigits, leDigits, ih, List.cons_append, Nat.div_div_eq_div_mul, ← Nat.pow_add]
    have : t + t * q = t * (q + 1) := by ring
    rw [this]

theorem leDigits_succ' (t c N : Nat) :
    leDigits t (c + 1) N = leDigits t c N ++ [N / 2 ^ (t * c) % 2 ^ t] := by
  rw [leDigits_add t c 1 N]; rfl

/-- the low digits do not see multiples of `2^(t*q)` -/
theorem leDigits_add_mul (t q a b : Nat) :
    leDigits t q (a + 2 ^ (t * q) * b) = leDigits t q a := by
  induction q generalizing a b with
  | zero => rfl
  | succ q ih =>
    have e : 2 ^ (t * (q + 1)) * b = 2 ^ t * (2 ^ (t * q) * b) := by
      rw [← Nat.mul_assoc, ← Nat.pow_add]; congr 2; ring
    rw [leDigits, leDigits, e, Nat.add_mul_mod_self_left,
      Nat.add_mul_div_left _ _ (Nat.two_pow_pos t), ih]

theorem valLE_lt (f : Nat) (data : List Nat) (h : ∀ v ∈ data, v < 2 ^ f) :
    valLE f data < 2 ^ (f * data.length) := by
  induction data with
  | nil => simp [valLE]
  | cons v rest ih =>
    have hv := h v (by simp)
    have hr := ih (fun x hx => h x (by simp [hx]))
    rw [valLE, List.length_cons]
    have e : 2 ^ (f * (rest.length + 1)) = 2 ^ f * 2 ^ (f * rest.length) := by
      rw [← Nat.pow_add]; congr 1; ring
    rw [e]
    calc v + 2 ^ f * valLE f rest < 2 ^ f + 2 ^ f * valLE f rest := by omega
      _ = 2 ^ f * (valLE f rest + 1) := by ring
      _ ≤ 2 ^ f * 2 ^ (f * rest.length) := Nat.mul_le_mul_left _ hr

/-- digits of a value are the groups it was built from -/
theorem leDigits_valLE (t : Nat) (data : List Nat) (h : ∀ v ∈ data, v < 2 ^ t) :
    leDigits t data.length (valLE t data) = data := by
  induction data with
  | nil => rfl
  | cons v rest ih =>
    have hv := h v (by simp)
    rw [List.length_cons, leDigits, valLE, Nat.add_mul_mod_self_left, Nat.mod_eq_of_lt hv,
      Nat.add_mul_div_left _ _ (Nat.two_pow_pos t), Nat.div_eq_of_lt hv, Nat.zero_add,
      ih (fun x hx => h x (by simp [hx]))]

/-- … and conversely -/
theorem valLE_leDigits (t cnt N : Nat) (h : N < 2 ^ (t * cnt)) : valLE t (leDigits t cnt N) = N := by
  induction cnt generalizing N with
  | zero => simp at h; subst h; rfl
  | succ c ih =>
    rw [leDigits, valLE, ih]
    · exact Nat.mod_add_div N (2 ^ t)
    · rw [Nat.div_lt_iff_lt_mul (Nat.two_pow_pos t), ← Nat.pow_add]
      have : t * c + t = t * (c + 1) := by ring
      rwa [this]

theorem valLE_leDigits_mod (t cnt N : Nat) :
    valLE t (leDigits t cnt N) = N % 2 ^ (t * cnt) := by
  have h := leDigits_add_mul t cnt (N % 2 ^ (t * cnt)) (N / 2 ^ (t * cnt))
  rw [Nat.mod_add_div] at h
  rw [h, valLE_leDigits _ _ _ (Nat.mod_lt _ (Nat.two_pow_pos _))]

theorem valLE_eq_ofDigits (t : Nat) (l : List Nat) : valLE t l = Nat.ofDigits (2 ^ t) l := by
  induction l with
  | nil => rfl
  | cons a r ih => rw [valLE, Nat.ofDigits_cons, ih]

theorem valLE_bytes (b : Bytes) : valLE 8 (b.map UInt8.toNat) = Bytes.toNatLE b := by
  induction b with
  | nil => rfl
  | cons x t ih => rw [List.map_cons, valLE, ih, toNatLE_cons]; norm_num

theorem leDigits_bytes (cnt N : Nat) : (leDigits 8 cnt N).map UInt8.ofNat = Bytes.ofNatLE cnt N := by
  induction cnt generalizing N with
  | zero => rfl
  | succ c ih => rw [leDigits, List.map_cons, Bytes.ofNatLE, ih]; norm_num

/-! ### the regrouping loop -/

theorem algo_drain_spec (t : Nat) (ht : 0 < t) :
    ∀ (fuel acc bits : Nat) (ret : List Nat), bits / t < fuel →
      algoConvertBits.drain t (2 ^ t - 1) fuel acc bits ret
        = (acc / 2 ^ (t * (bits / t)), bits % t, ret ++ leDigits t (bits / t) acc) := by
  intro fuel
  induction fuel with
  | zero => intro acc bits ret h; exact absurd h (Nat.not_lt_zero _)
  | succ fuel ih =>
    intro acc bits ret h
    rw [algoConvertBits.drain]
    by_cases hb : bits ≥ t ∧ t > 0
    · rw [if_pos hb]
      have hq : bits / t = (bits - t) / t + 1 := by
        have : bits = (bits - t) + t := by omega
        conv_lhs => rw [this]
        rw [Nat.add_div_right _ ht]
      have hlt : (bits - t) / t < fuel := by rw [hq] at h; exact Nat.lt_of_succ_lt_succ h
      rw [ih (acc >>> t) (bits - t) _ hlt, hq, leDigits, Nat.shiftRight_eq_div_pow,
        Nat.and_two_pow_sub_one_eq_mod, Nat.div_div_eq_div_mul, ← Nat.pow_add]
      have e1 : t + t * ((bits - t) / t) = t * ((bits - t) / t + 1) := by ring
      have e2 : (bits - t) % t = bits % t := by
        have : bits = (bits - t) + t := by omega
        conv_rhs => rw [this]
        rw [Nat.add_mod_right]
      rw [e1, e2, List.append_assoc]; rfl
    · rw [if_neg hb]
      have hlt : bits < t := by omega
      rw [Nat.div_eq_of_lt hlt, Nat.mod_eq_of_lt hlt]
      simp [leDigits]

theorem algo_go_spec (f t : Nat) (ht : 0 < t) :
    ∀ (data : List Nat) (acc bits : Nat) (ret : List Nat), bits < t → acc < 2 ^ bits →
      (∀ v ∈ data, v < 2 ^ f) →
      algoConvertBits.go f t (2 ^ t - 1) data acc bits ret
        = some (ret ++ leDigits t ((bits + f * data.length + t - 1) / t)
            (acc + 2 ^ bits * valLE f data)) := by
  intro data
  induction data with
  | nil =>
    intro acc bits ret hb hacc _
    rw [algoConvertBits.go]
    by_cases h0 : bits = 0
    · subst h0
      have : (0 + f * ([] : List Nat).length + t - 1) / t = 0 := by
        simp only [List.length_nil, Nat.mul_zero, Nat.zero_add]
        exact Nat.div_eq_of_lt (by omega)
      rw [this]; simp [leDigits]
    · have : (bits + f * ([] : List Nat).length + t - 1) / t = 1 := by
        simp only [List.length_nil, Nat.mul_zero, Nat.add_zero]
        have e : bits + t - 1 = (bits - 1) + t := by omega
        rw [e, Nat.add_div_right _ ht, Nat.div_eq_of_lt (by omega)]
      rw [this, if_pos h0, Nat.and_two_pow_sub_one_eq_mod]
      simp [leDigits, valLE]
  | cons v rest ih =>
    intro acc bits ret hb hacc hdata
    have hv : v < 2 ^ f := hdata v (by simp)
    have hrest : ∀ x ∈ rest, x < 2 ^ f := fun x hx => hdata x (by simp [hx])
    rw [algoConvertBits.go]
    have hv0 : ¬ (v >>> f ≠ 0) := by
      rw [Nat.shiftRight_eq_div_pow, Nat.div_eq_of_lt hv]; simp
    rw [if_neg hv0]
    simp only []
    have hor : acc ||| v <<< bits = acc + v * 2 ^ bits := by
      rw [Nat.or_comm, ← Nat.shiftLeft_add_eq_or_of_lt hacc, Nat.shiftLeft_eq]; ring
    rw [hor, algo_drain_spec t ht _ _ _ _ (by
      have := Nat.div_le_self (bits + f) t; omega)]
    simp only []
    set q := (bits + f) / t with hq
    set b' := (bits + f) % t with hb'
    have hsplit : bits + f = t * q + b' := (Nat.div_add_mod (bits + f) t).symm
    have hacc' : acc + v * 2 ^ bits < 2 ^ (bits + f) := by
      rw [Nat.pow_add]
      calc acc + v * 2 ^ bits < 2 ^ bits + v * 2 ^ bits := by omega
        _ = (v + 1) * 2 ^ bits := by ring
        _ ≤ 2 ^ f * 2 ^ bits := Nat.mul_le_mul_right _ hv
        _ = 2 ^ bits * 2 ^ f := Nat.mul_comm _ _
    have hacc'' : (acc + v * 2 ^ bits) / 2 ^ (t * q) < 2 ^ b' := by
      rw [Nat.div_lt_iff_lt_mul (Nat.two_pow_pos _), ← Nat.pow_add, Nat.add_comm b', ← hsplit]
      exact hacc'
    rw [ih _ _ _ (Nat.mod_lt _ ht) hacc'' hrest]
    congr 1
    rw [List.append_assoc]
    congr 1
    -- the total value and the digit count split at the drain point
    have hN : acc + 2 ^ bits * valLE f (v :: rest)
        = (acc + v * 2 ^ bits) + 2 ^ (t * q) * (2 ^ b' * valLE f rest) := by
      rw [valLE, ← Nat.mul_assoc (2 ^ (t * q)), ← Nat.pow_add, ← hsplit, Nat.pow_add]; ring
    have hcnt : (bits + f * (v :: rest).length + t - 1) / t
        = q + (b' + f * rest.length + t - 1) / t := by
      rw [List.length_cons]
      have e : bits + f * (rest.length + 1) + t - 1 = (b' + f * rest.length + t - 1) + t * q := by
        have : f * (rest.length + 1) = f * rest.length + f := by ring
        omega
      rw [e, Nat.add_mul_div_left _ _ ht]; omega
    rw [hN, hcnt, leDigits_add, leDigits_add_mul, Nat.add_mul_div_left _ _ (Nat.two_pow_pos _)]

/-- **`ConvertBits` is little-endian radix conversion**: the output is the
`⌈f·len/t⌉` least significant base-`2^t` digits of the little-endian value of the input -/
theorem algoConvertBits_eq (f t : Nat) (ht : 0 < t) (data : List Nat) (h : ∀ v ∈ data, v < 2 ^ f) :
    algoConvertBits data f t
      = some (leDigits t ((f * data.length + t - 1) / t) (valLE f data)) := by
  unfold algoConvertBits
  simp only [Nat.one_shiftLeft]
  rw [algo_go_spec f t ht data 0 0 [] ht (by simp) h]
  simp

theorem algo_go_none (f t m : Nat) (data : List Nat) (h : ∃ v ∈ data, 2 ^ f ≤ v) :
    ∀ (acc bits : Nat) (ret : List Nat), algoConvertBits.go f t m data acc bits ret = none := by
  induction data with
  | nil => obtain ⟨v, hv, _⟩ := h; cases hv
  | cons x rest ih =>
    intro acc bits ret
    rw [algoConvertBits.go]
    by_cases hx : x >>> f ≠ 0
    · rw [if_pos hx]
    · rw [if_neg hx]
      simp only []
      apply ih
      obtain ⟨v, hv, hle⟩ := h
      rcases List.mem_cons.mp hv with rfl | hv
      · exfalso; apply hx
        rw [Nat.shiftRight_eq_div_pow]
        exact Nat.pos_iff_ne_zero.mp (Nat.div_pos hle (Nat.two_pow_pos f))
      · exact ⟨v, hv, hle⟩

/-- a group that does not fit `f` bits makes the conversion fail -/
theorem algoConvertBits_none (f t : Nat) (data : List Nat) (h : ∃ v ∈ data, 2 ^ f ≤ v) :
    algoConvertBits data f t = none := by
  unfold algoConvertBits
  exact algo_go_none f t _ data h 0 0 []

/-! ### checksum index, encoder, decoder -/

theorem algoChecksumIdx_eq (H : Bytes → Bytes) (ent : Bytes) (hH : 2 ≤ (H ent).length) :
    algoChecksumIdx H ent = .ok (Bytes.toNatLE ((H ent).take 2) % 2048) := by
  unfold algoChecksumIdx
  have hl : (((H ent).take 2).map UInt8.toNat).length = 2 := by
    rw [List.length_map, List.length_take]; omega
  rw [algoConvertBits_eq 8 11 (by omega) _ (by
    intro v hv
    rw [List.mem_map] at hv
    obtain ⟨x, _, rfl⟩ := hv
    exact x.toNat_lt), hl, valLE_bytes]
  rfl

theorem algoChecksumIdx_lt {H : Bytes → Bytes} {ent : Bytes} {c : Nat}
    (hH : 2 ≤ (H ent).length) (h : algoChecksumIdx H ent = .ok c) : c < 2048 := by
  rw [algoChecksumIdx_eq H ent hH] at h; cases h; exact Nat.mod_lt _ (by omega)

theorem algoConvertBits_bytes32 (ent : Bytes) (h : ent.length = 32) :
    algoConvertBits (ent.map UInt8.toNat) 8 11 = some (leDigits 11 24 (Bytes.toNatLE ent)) := by
  rw [algoConvertBits_eq 8 11 (by omega) _ (by
    intro v hv
    rw [List.mem_map] at hv
    obtain ⟨x, _, rfl⟩ := hv
    exact x.toNat_lt), List.length_map, h, valLE_bytes]

theorem algoEncode_eq (H : Bytes → Bytes) (wl : List Nat) (ent : Bytes) (h : ent.length = 32) :
    algoEncode H wl ent = (algoChecksumIdx H ent >>= fun ck =>
      (leDigits 11 24 (Bytes.toNatLE ent) ++ [ck]).mapM (pyIdx wl)) := by
  unfold algoEncode
  simp only [h, ne_eq, not_true_eq_false, if_false, algoConvertBits_bytes32 ent h]

theorem algoEncode_bad_length (H : Bytes → Bytes) (wl : List Nat) (ent : Bytes)
    (h : ent.length ≠ 32) : algoEncode H wl ent = .error .value := by
  unfold algoEncode
  simp only [h, ne_eq, not_false_eq_true, if_true]
  rfl

/-- language selection of `algoDecode` / `electrumV2DecodeIdx` -/
def pickLang (langs : List (List Nat)) (lang : Option (List Nat)) (ws : List Nat) : R (List Nat) :=
  match lang with
  | some wl => pure wl
  | none => findLanguage langs ws

theorem pickLang_some (langs : List (List Nat)) (wl ws : List Nat) :
    pickLang langs (some wl) ws = .ok wl := rfl

theorem pickLang_error {langs : List (List Nat)} {lang : Option (List Nat)} {ws : List Nat} {e : Err}
    (h : pickLang langs lang ws = .error e) : e = .value := by
  cases lang with
  | some wl => cases h
  | none =>
    unfold pickLang findLanguage at h
    simp only at h
    cases hf : langs.find? (fun wl => ws.all (fun w => wl.contains w)) with
    | some l => rw [hf] at h; cases h
    | none => rw [hf] at h; cases h; rfl

theorem pickLang_mem {langs : List (List Nat)} {ws wl : List Nat}
    (h : pickLang langs none ws = .ok wl) : wl ∈ langs := by
  unfold pickLang findLanguage at h
  simp only at h
  cases hf : langs.find? (fun wl => ws.all (fun w => wl.contains w)) with
  | some l => rw [hf] at h; cases h; exact List.mem_of_find?_eq_some hf
  | none => rw [hf] at h; cases h

/-- `algoDecode` after word-count check, language selection and word look-up -/
def algoTail (H : Bytes → Bytes) (idxs : List Nat) : R Bytes :=
  match algoConvertBits (dropLast idxs 1) 11 8 with
  | none => throw .assert
  | some el => do
    if el.getLast? ≠ some 0 then throw .value
    let ent : Bytes := (dropLast el 1).map UInt8.ofNat
    let ck ← algoChecksumIdx H ent
    if some ck ≠ idxs.getLast? then throw .checksum
    pure ent

theorem algoDecode_eq (H : Bytes → Bytes) (langs : List (List Nat)) (lang : Option (List Nat))
    (ws : List Nat) :
    algoDecode H langs lang ws = if ws.length ≠ 25 then .error .value else
      (pickLang langs lang ws >>= fun wl => ws.mapM (wordIdx wl) >>= algoTail H) := by
  unfold algoDecode
  by_cases h : ws.length ≠ 25
  · simp only [if_pos h]; rfl
  · simp only [if_neg h]
    cases lang <;> rfl

/-- the decoder tail in arithmetic form -/
theorem algoTail_eq (H : Bytes → Bytes) (idxs : List Nat) (hl : idxs.length = 25)
    (hlt : ∀ i ∈ idxs, i < 2048) :
    algoTail H idxs =
      if 2 ^ 256 ≤ valLE 11 (dropLast idxs 1) then .error .value
      else algoChecksumIdx H (Bytes.ofNatLE 32 (valLE 11 (dropLast idxs 1))) >>= fun ck =>
        if some ck ≠ idxs.getLast? then .error .checksum
        else .ok (Bytes.ofNatLE 32 (valLE 11 (dropLast idxs 1))) := by
  have hdl : (dropLast idxs 1).length = 24 := by unfold dropLast; rw [List.length_take]; omega
  have hdlt : ∀ i ∈ dropLast idxs 1, i < 2 ^ 11 := by
    intro i hi; unfold dropLast at hi; exact hlt i (List.mem_of_mem_take hi)
  have hV := valLE_lt 11 _ hdlt
  rw [hdl] at hV
  unfold algoTail
  rw [algoConvertBits_eq 11 8 (by omega) _ hdlt, hdl]
  simp only []
  set V := valLE 11 (dropLast idxs 1) with hVdef
  have hcnt : (11 * 24 + 8 - 1) / 8 = 32 + 1 := by norm_num
  rw [hcnt, leDigits_succ', dropLast_append_of_length _ _ 1 rfl, leDigits_bytes]
  have hlast : (leDigits 8 32 V ++ [V / 2 ^ (8 * 32) % 2 ^ 8]).getLast? = some (V / 2 ^ 256 % 256) := by
    simp
  rw [hlast]
  have hq : V / 2 ^ 256 < 256 := by
    rw [Nat.div_lt_iff_lt_mul (Nat.two_pow_pos _)]
    calc V < 2 ^ (11 * 24) := hV
      _ = 2 ^ 8 * 2 ^ 256 := by rw [← Nat.pow_add]
      _ = 256 * 2 ^ 256 := by norm_num
  rw [Nat.mod_eq_of_lt hq]
  by_cases hbig : 2 ^ 256 ≤ V
  · have : V / 2 ^ 256 ≠ 0 := Nat.pos_iff_ne_zero.mp (Nat.div_pos hbig (Nat.two_pow_pos _))
    rw [if_pos hbig, if_pos (by simpa using this)]
    rfl
  · have : V / 2 ^ 256 = 0 := Nat.div_eq_of_lt (by omega)
    rw [if_neg hbig, this, if_neg (by simp)]
    rfl

theorem mapM_wordIdx_of_not_mem (wl ws : List Nat) (h : ∃ w ∈ ws, w ∉ wl) :
    ws.mapM (wordIdx wl) = .error .value := by
  cases hr : ws.mapM (wordIdx wl) with
  | error e => rw [(mapM_wordIdx_error_mn wl ws e hr).1]
  | ok idxs =>
    obtain ⟨h1, h2⟩ := mapM_wordIdx_ok_mn wl ws idxs hr
    obtain ⟨w, hw, hnot⟩ := h
    rw [h2, List.mem_map] at hw
    obtain ⟨i, hi, rfl⟩ := hw
    exfalso; apply hnot
    have := h1 i hi
    simp [List.getD_eq_getElem?_getD, this]

theorem mapM_wordIdx_length {wl ws idxs : List Nat} (h : ws.mapM (wordIdx wl) = .ok idxs) :
    idxs.length = ws.length := by
  rw [(mapM_wordIdx_ok_mn wl ws idxs h).2, List.length_map]

theorem algoTail_error {H : Bytes → Bytes} (hH : ∀ x, 2 ≤ (H x).length) {idxs : List Nat}
    (hl : idxs.length = 25) (hlt : ∀ i ∈ idxs, i < 2048) {e : Err}
    (h : algoTail H idxs = .error e) : e = .value ∨ e = .checksum := by
  rw [algoTail_eq H idxs hl hlt] at h
  split at h
  · cases h; exact Or.inl rfl
  · rw [algoChecksumIdx_eq H _ (hH _), ok_bind] at h
    split at h
    · cases h; exact Or.inr rfl
    · cases h

end BipVerif.Model
