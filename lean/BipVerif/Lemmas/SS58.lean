/- SS58: prefix (address-format) encoding round trip and the full encode/decode round trip. -/
import BipVerif.Lemmas.Base58Check
import BipVerif.Model.SS58

namespace BipVerif.Model
open BipVerif

/-! ### the one/two byte format prefix -/

/-- first prefix byte of the two-byte form (as a number) -/
def ss58B0 (fmt : Nat) : Nat := ((fmt &&& 252) >>> 2) ||| 64
/-- second prefix byte of the two-byte form (as a number) -/
def ss58B1 (fmt : Nat) : Nat := (fmt >>> 8) ||| ((fmt &&& 3) <<< 6)

/-- the decoder's formula for the two-byte form -/
def ss58Fmt2 (b0 b1 : Nat) : Nat := ((b0 &&& 63) <<< 2) ||| (b1 >>> 6) ||| ((b1 &&& 63) <<< 8)

def ss58PrefixOk (fmt : Nat) : Bool :=
  ss58B0 fmt < 256 && ss58B1 fmt < 256 && (ss58B0 fmt &&& 64 != 0) && (ss58B0 fmt &&& 128 == 0) &&
    ss58Fmt2 (ss58B0 fmt) (ss58B1 fmt) == fmt

theorem ss58_two_byte_all :
    (List.range 16384).all (fun fmt => fmt < 64 || ss58PrefixOk fmt) = true := by decide +kernel

theorem ss58_one_byte_all : (List.range 64).all (fun fmt => fmt &&& 64 == 0) = true := by
  decide +kernel

/-- bit facts for the two-byte form, `64 ≤ fmt ≤ 16383`: both bytes fit, bit 6 of the first byte is
set, bit 7 is clear, and the decoder's formula returns `fmt`. -/
theorem ss58_two_byte {fmt : Nat} (h1 : 64 ≤ fmt) (h2 : fmt ≤ 16383) :
    ss58B0 fmt < 256 ∧ ss58B1 fmt < 256 ∧ ss58B0 fmt &&& 64 ≠ 0 ∧ ss58B0 fmt &&& 128 = 0 ∧
      ss58Fmt2 (ss58B0 fmt) (ss58B1 fmt) = fmt := by
  have := List.all_eq_true.mp ss58_two_byte_all fmt (List.mem_range.mpr (by omega))
  have hlt : ¬ fmt < 64 := by omega
  simp only [hlt, decide_false, Bool.false_or, ss58PrefixOk, Bool.and_eq_true, decide_eq_true_eq,
    bne_iff_ne, ne_eq, beq_iff_eq] at this
  obtain ⟨⟨⟨⟨a, b⟩, c⟩, d⟩, e⟩ := this
  exact ⟨a, b, c, d, e⟩

theorem ss58_one_byte {fmt : Nat} (h : fmt ≤ 63) : fmt &&& 64 = 0 := by
  have := List.all_eq_true.mp ss58_one_byte_all fmt (List.mem_range.mpr (by omega))
  simpa using this

theorem natToBytesMin_of_lt_256 {v : Nat} (h0 : v ≠ 0) (h : v < 256) :
    natToBytesMin v = [UInt8.ofNat v] := by
  apply toNatBE_inj_of_length_eq
  · have h1 := (natToBytesMin_length_le_iff v 1).mpr (by omega)
    have h2 : natToBytesMin v ≠ [] := fun e => h0 ((natToBytesMin_eq_nil_iff v).mp e)
    have := List.length_pos_iff.mpr h2
    simp; omega
  · rw [toNatBE_natToBytesMin, toNatBE_singleton]
    simp [UInt8.toNat_ofNat']; omega

theorem toBytesAuto_of_lt_256 {v : Nat} (h : v < 256) : toBytesAuto v = [UInt8.ofNat v] := by
  by_cases h0 : v = 0
  · subst h0; rw [toBytesAuto_zero]; rfl
  · rw [toBytesAuto_of_ne_zero h0, natToBytesMin_of_lt_256 h0 h]

theorem ss58FormatBytes_small {fmt : Nat} (h : fmt ≤ 63) :
    ss58FormatBytes fmt = [UInt8.ofNat fmt] := by
  unfold ss58FormatBytes; rw [if_pos h, toBytesAuto_of_lt_256 (by omega)]

theorem ss58FormatBytes_large {fmt : Nat} (h : 64 ≤ fmt) :
    ss58FormatBytes fmt = [UInt8.ofNat (ss58B0 fmt), UInt8.ofNat (ss58B1 fmt)] := by
  unfold ss58FormatBytes; rw [if_neg (by omega)]; rfl

/-- the prefix decoder (the formula used inline by `ss58Decode`) -/
def ss58PrefixDecode (b : Bytes) : Option (Nat × Nat) :=
  match b with
  | [] => none
  | b0 :: rest =>
    if b0.toNat &&& 64 ≠ 0 then
      match rest with
      | [] => none
      | b1 :: _ => some (2, ss58Fmt2 b0.toNat b1.toNat)
    else some (1, b0.toNat)

/-- **SS58 prefix round trip**: for every admissible format the decoder's formula recovers the
format from the prefix bytes, and tells the prefix length; the one-byte form is used exactly for
`fmt ≤ 63` (first byte `= fmt < 64`, bit 6 clear), the two-byte form has bit 6 of its first byte
set. -/
theorem ss58_prefix_roundtrip {fmt : Nat} (h : fmt ≤ 16383) (tail : Bytes) :
    ss58PrefixDecode (ss58FormatBytes fmt ++ tail) = some ((ss58FormatBytes fmt).length, fmt) ∧
    (ss58FormatBytes fmt).length = (if fmt ≤ 63 then 1 else 2) ∧
    (∃ b0, (ss58FormatBytes fmt).head? = some b0 ∧ (b0.toNat &&& 64 ≠ 0 ↔ 64 ≤ fmt) ∧
      (fmt ≤ 63 → b0.toNat = fmt)) := by
  by_cases hs : fmt ≤ 63
  · have htn : (UInt8.ofNat fmt).toNat = fmt := by simp [UInt8.toNat_ofNat']; omega
    rw [ss58FormatBytes_small hs]
    refine ⟨?_, by simp [hs], UInt8.ofNat fmt, rfl, ?_, fun _ => htn⟩
    · simp only [ss58PrefixDecode, List.cons_append, List.nil_append, htn, ss58_one_byte hs]
      simp
    · rw [htn, ss58_one_byte hs]; simp; omega
  · obtain ⟨a, b, c, d, e⟩ := ss58_two_byte (by omega : 64 ≤ fmt) h
    have h0 : (UInt8.ofNat (ss58B0 fmt)).toNat = ss58B0 fmt := by
      simp [UInt8.toNat_ofNat']; omega
    have h1 : (UInt8.ofNat (ss58B1 fmt)).toNat = ss58B1 fmt := by
      simp [UInt8.toNat_ofNat']; omega
    rw [ss58FormatBytes_large (by omega)]
    refine ⟨?_, by simp [hs], UInt8.ofNat (ss58B0 fmt), rfl, ?_, fun h' => absurd h' hs⟩
    · simp only [ss58PrefixDecode, List.cons_append, List.nil_append, h0, h1, e]
      simp [c]
    · rw [h0]; constructor
      · intro _; omega
      · intro _; exact c

/-! ### full round trip -/

theorem ss58Checksum_length (H : Bytes → Bytes) (hH : ∀ x, 2 ≤ (H x).length) (p : Bytes) :
    (ss58Checksum H p).length = 2 := by
  unfold ss58Checksum; rw [List.length_take]; have := hH (ss58Prefix ++ p); omega

theorem ss58Encode_ok (H : Bytes → Bytes) (data : Bytes) (fmt : Nat) (hd : data.length = 32)
    (hf : fmt ≤ 16383) (h46 : fmt ≠ 46) (h47 : fmt ≠ 47) :
    ss58Encode H data fmt = .ok (b58Encode btcAlphabet
      ((ss58FormatBytes fmt ++ data) ++ ss58Checksum H (ss58FormatBytes fmt ++ data))) := by
  unfold ss58Encode
  have h1 : ¬ data.length ≠ 32 := by omega
  have h2 : ¬ fmt > 16383 := by omega
  simp [h1, h2, h46, h47, pure, Except.pure]

/-- the strict prefix decoder of the repaired `ss58Decode`: reserved first bytes (bit 7 set) and
non-canonical two-byte prefixes (decoded format `≤ 63`) are refused. -/
def ss58PrefixStrict (b : Bytes) : Option (Nat × Nat) :=
  match b with
  | [] => none
  | b0 :: rest =>
    if b0.toNat &&& 128 ≠ 0 then none
    else if b0.toNat &&& 64 ≠ 0 then
      match rest with
      | [] => none
      | b1 :: _ => if ss58Fmt2 b0.toNat b1.toNat ≤ 63 then none else some (2, ss58Fmt2 b0.toNat b1.toNat)
    else some (1, b0.toNat)

/-- the part of `ss58Decode` after the prefix -/
def ss58Tail (H : Bytes → Bytes) (dec : Bytes) (fmtLen fmt : Nat) : R (Nat × Bytes) :=
  if fmt = 46 ∨ fmt = 47 then .error .value
  else
    let dataBytes := if dec.length < fmtLen + 2 then [] else dropLast (dec.drop fmtLen) 2
    if dataBytes.length ≠ 32 then .error .value
    else if takeLast dec 2 ≠ ss58Checksum H (dropLast dec 2) then .error .checksum
    else .ok (fmt, dataBytes)

/-- `ss58Decode` in a flat, match-based form (no monadic plumbing). -/
def ss58DecodeFlat (H : Bytes → Bytes) (s : List Char) : R (Nat × Bytes) :=
  match b58Decode btcAlphabet s with
  | .error e => .error e
  | .ok dec =>
    if dec.length < 2 then .error .value
    else match ss58PrefixStrict dec with
      | none => .error .value
      | some (fmtLen, fmt) => ss58Tail H dec fmtLen fmt

theorem ss58Decode_tail (H : Bytes → Bytes) (dec : Bytes) (fmtLen fmt : Nat) :
    (do
      if fmt = 46 || fmt = 47 then throw Err.value
      let dataBytes := dropLast (dec.drop fmtLen) 2
      let dataBytes := if dec.length < fmtLen + 2 then [] else dataBytes
      let ck := takeLast dec 2
      if dataBytes.length ≠ 32 then throw Err.value
      if ck != ss58Checksum H (dropLast dec 2) then throw Err.checksum
      pure (fmt, dataBytes) : R (Nat × Bytes))
    = ss58Tail H dec fmtLen fmt := by
  unfold ss58Tail
  by_cases h1 : fmt = 46 ∨ fmt = 47
  · rcases h1 with rfl | rfl <;> rfl
  · have h1' : fmt ≠ 46 ∧ fmt ≠ 47 := by omega
    by_cases h2 : (if dec.length < fmtLen + 2 then [] else dropLast (dec.drop fmtLen) 2).length = 32
    · by_cases h3 : takeLast dec 2 = ss58Checksum H (dropLast dec 2)
      · simp [h1'.1, h1'.2, h2, h3, pure, Except.pure]
      · simp [h1'.1, h1'.2, h2, h3, bind, Except.bind, throw, throwThe, MonadExceptOf.throw]
    · simp [h1'.1, h1'.2, h2, bind, Except.bind, throw, throwThe, MonadExceptOf.throw]

theorem ss58Decode_eq_flat (H : Bytes → Bytes) (s : List Char) :
    ss58Decode H s = ss58DecodeFlat H s := by
  unfold ss58Decode ss58DecodeFlat
  cases b58Decode btcAlphabet s with
  | error e => rfl
  | ok dec =>
    cases dec with
    | nil => rfl
    | cons b0 rest =>
      cases rest with
      | nil => rfl
      | cons b1 rest' =>
        have hlen : ¬ (b0 :: b1 :: rest').length < 2 := by simp
        by_cases h7 : b0.toNat &&& 128 ≠ 0
        · simp only [ss58PrefixStrict, if_pos h7, bind, Except.bind, pyIdx, List.getElem?_cons_zero,
            pure, Except.pure, hlen, if_false]
          rfl
        · by_cases hb : b0.toNat &&& 64 ≠ 0
          · by_cases hf : ss58Fmt2 b0.toNat b1.toNat ≤ 63
            · have hf' : (b0.toNat &&& 63) <<< 2 ||| b1.toNat >>> 6 ||| (b1.toNat &&& 63) <<< 8 ≤ 63 := hf
              simp only [ss58PrefixStrict, if_neg h7, if_pos hb, if_pos hf, if_pos hf', bind, Except.bind,
                pyIdx, List.getElem?_cons_zero, pure, Except.pure, hlen, if_false,
                List.getElem?_cons_succ]
              rfl
            · have hf' : ¬ (b0.toNat &&& 63) <<< 2 ||| b1.toNat >>> 6 ||| (b1.toNat &&& 63) <<< 8 ≤ 63 := hf
              have := ss58Decode_tail H (b0 :: b1 :: rest') 2 (ss58Fmt2 b0.toNat b1.toNat)
              simp only [ss58PrefixStrict, if_neg h7, if_pos hb, if_neg hf, hlen, if_false]
              rw [← this]
              simp only [bind, Except.bind, pyIdx, List.getElem?_cons_zero, if_pos hb, pure, Except.pure,
                List.getElem?_cons_succ, hlen, if_false, if_neg h7, if_neg hf']
              rfl
          · have := ss58Decode_tail H (b0 :: b1 :: rest') 1 b0.toNat
            simp only [ss58PrefixStrict, if_neg h7, if_neg hb, hlen, if_false]
            rw [← this]
            simp only [bind, Except.bind, pyIdx, List.getElem?_cons_zero, if_neg hb, pure, Except.pure,
              hlen, if_false, if_neg h7]

theorem ss58_one_byte_all' : (List.range 64).all (fun fmt => fmt &&& 128 == 0) = true := by
  decide +kernel

theorem ss58_one_byte' {fmt : Nat} (h : fmt ≤ 63) : fmt &&& 128 = 0 := by
  have := List.all_eq_true.mp ss58_one_byte_all' fmt (List.mem_range.mpr (by omega))
  simpa using this

/-- the strict prefix decoder accepts every prefix the encoder writes. -/
theorem ss58PrefixStrict_formatBytes {fmt : Nat} (h : fmt ≤ 16383) (tail : Bytes) (ht : tail ≠ []) :
    ss58PrefixStrict (ss58FormatBytes fmt ++ tail) = some ((ss58FormatBytes fmt).length, fmt) := by
  by_cases hs : fmt ≤ 63
  · have htn : (UInt8.ofNat fmt).toNat = fmt := by simp [UInt8.toNat_ofNat']; omega
    rw [ss58FormatBytes_small hs]
    simp only [ss58PrefixStrict, List.cons_append, List.nil_append, htn, ss58_one_byte hs,
      ss58_one_byte' hs]
    simp
  · obtain ⟨a, b, c, d, e⟩ := ss58_two_byte (by omega : 64 ≤ fmt) h
    have h0 : (UInt8.ofNat (ss58B0 fmt)).toNat = ss58B0 fmt := by
      simp [UInt8.toNat_ofNat']; omega
    have h1 : (UInt8.ofNat (ss58B1 fmt)).toNat = ss58B1 fmt := by
      simp [UInt8.toNat_ofNat']; omega
    rw [ss58FormatBytes_large (by omega)]
    simp only [ss58PrefixStrict, List.cons_append, List.nil_append, h0, h1, e, d]
    simp [c, hs]

/-- **SS58 round trip**: for every checksum function with at least 2 output bytes, every 32-byte
payload and every admissible, non-reserved address format. -/
theorem ss58_decode_encode (H : Bytes → Bytes) (hH : ∀ x, 2 ≤ (H x).length) (data : Bytes)
    (fmt : Nat) (hd : data.length = 32) (hf : fmt ≤ 16383) (h46 : fmt ≠ 46) (h47 : fmt ≠ 47) :
    (ss58Encode H data fmt >>= ss58Decode H) = .ok (fmt, data) := by
  rw [ss58Encode_ok H data fmt hd hf h46 h47]
  change ss58Decode H _ = _
  rw [ss58Decode_eq_flat]
  unfold ss58DecodeFlat
  rw [b58_decode_encode btcAlphabet btcAlphabet_nodup btcAlphabet_length]
  set fb := ss58FormatBytes fmt with hfb
  set ck := ss58Checksum H (fb ++ data) with hck
  have hckl : ck.length = 2 := ss58Checksum_length H hH _
  obtain ⟨-, hlen, -⟩ := ss58_prefix_roundtrip hf (data ++ ck)
  have hdne : data ++ ck ≠ [] := by
    intro e; have := congrArg List.length e
    rw [List.length_append, hd] at this; simp at this
  have hpre := ss58PrefixStrict_formatBytes hf (data ++ ck) hdne
  rw [← hfb] at hpre hlen
  have hdl : dropLast ((fb ++ data) ++ ck) 2 = fb ++ data := dropLast_append_of_length _ _ 2 hckl
  have htl : takeLast ((fb ++ data) ++ ck) 2 = ck := takeLast_append_of_length _ _ 2 hckl
  have hdata : dropLast (((fb ++ data) ++ ck).drop fb.length) 2 = data := by
    rw [List.append_assoc, List.drop_left]; exact dropLast_append_of_length _ _ 2 hckl
  have hlen2 : ¬ ((fb ++ data) ++ ck).length < fb.length + 2 := by
    simp only [List.length_append]; omega
  have hlen0 : ¬ ((fb ++ data) ++ ck).length < 2 := by
    simp only [List.length_append, hckl]; omega
  have hne : ¬ (fmt = 46 ∨ fmt = 47) := by omega
  rw [← List.append_assoc] at hpre
  simp only
  rw [if_neg hlen0, hpre]
  simp only [ss58Tail, hne, if_false, hlen2, hdata, hd, htl, hdl, ne_eq, not_true_eq_false, ← hck]

/-! ### canonicity / soundness of the decoder -/

/-- converse of `ss58_two_byte`, checked on all 64 × 256 admissible byte pairs: a two-byte prefix
with bit 6 set and bit 7 clear whose decoded format is `≥ 64` is the prefix the encoder writes. -/
def ss58ConvOk (b0 b1 : Nat) : Bool :=
  ss58Fmt2 b0 b1 ≤ 63 ||
    (ss58Fmt2 b0 b1 ≤ 16383 && ss58B0 (ss58Fmt2 b0 b1) == b0 && ss58B1 (ss58Fmt2 b0 b1) == b1)

theorem ss58_two_byte_conv_all :
    (List.range 64).all (fun i => (List.range 256).all (fun b1 => ss58ConvOk (i + 64) b1)) = true := by
  decide +kernel

theorem ss58_byte_bits_all : (List.range 256).all (fun b =>
    (b &&& 128 != 0 || b &&& 64 != 0 || decide (b ≤ 63)) &&
    (b &&& 128 != 0 || b &&& 64 == 0 || (decide (64 ≤ b) && decide (b < 128)))) = true := by
  decide +kernel

theorem ss58_byte_bits {b : Nat} (hb : b < 256) (h7 : b &&& 128 = 0) :
    (b &&& 64 = 0 → b ≤ 63) ∧ (b &&& 64 ≠ 0 → 64 ≤ b ∧ b < 128) := by
  have := List.all_eq_true.mp ss58_byte_bits_all b (List.mem_range.mpr hb)
  simp only [Bool.and_eq_true, Bool.or_eq_true, bne_iff_ne, ne_eq, decide_eq_true_eq,
    beq_iff_eq] at this
  obtain ⟨h1, h2⟩ := this
  constructor
  · intro h6
    rcases h1 with (h | h) | h
    · exact absurd h7 h
    · exact absurd h6 h
    · exact h
  · intro h6
    rcases h2 with (h | h) | h
    · exact absurd h7 h
    · exact absurd h h6
    · exact h

theorem ss58_two_byte_conv {b0 b1 : Nat} (h0 : 64 ≤ b0) (h0' : b0 < 128) (h1 : b1 < 256)
    (hf : ¬ ss58Fmt2 b0 b1 ≤ 63) :
    ss58Fmt2 b0 b1 ≤ 16383 ∧ ss58B0 (ss58Fmt2 b0 b1) = b0 ∧ ss58B1 (ss58Fmt2 b0 b1) = b1 := by
  have := List.all_eq_true.mp ss58_two_byte_conv_all (b0 - 64) (List.mem_range.mpr (by omega))
  have := List.all_eq_true.mp this b1 (List.mem_range.mpr h1)
  rw [show b0 - 64 + 64 = b0 by omega] at this
  simp only [ss58ConvOk, Bool.or_eq_true, Bool.and_eq_true, decide_eq_true_eq, beq_iff_eq] at this
  rcases this with h | ⟨⟨a, b⟩, c⟩
  · exact absurd h hf
  · exact ⟨a, b, c⟩

/-- an accepted prefix is the prefix the encoder writes for the decoded format. -/
theorem ss58PrefixStrict_sound {dec : Bytes} {fmtLen fmt : Nat}
    (h : ss58PrefixStrict dec = some (fmtLen, fmt)) :
    fmt ≤ 16383 ∧ dec.take fmtLen = ss58FormatBytes fmt ∧ fmtLen ≤ dec.length := by
  cases dec with
  | nil => simp [ss58PrefixStrict] at h
  | cons b0 rest =>
    have hb0 := b0.toNat_lt
    by_cases h7 : b0.toNat &&& 128 ≠ 0
    · simp only [ss58PrefixStrict, if_pos h7] at h; cases h
    · have h7' : b0.toNat &&& 128 = 0 := by simpa using h7
      obtain ⟨hsmall, hlarge⟩ := ss58_byte_bits (by omega) h7'
      by_cases h6 : b0.toNat &&& 64 ≠ 0
      · cases rest with
        | nil => simp only [ss58PrefixStrict, if_neg h7, if_pos h6] at h; cases h
        | cons b1 rest' =>
          have hb1 := b1.toNat_lt
          by_cases hf : ss58Fmt2 b0.toNat b1.toNat ≤ 63
          · simp only [ss58PrefixStrict, if_neg h7, if_pos h6, if_pos hf] at h; cases h
          · simp only [ss58PrefixStrict, if_neg h7, if_pos h6, if_neg hf, Option.some.injEq,
              Prod.mk.injEq] at h
            obtain ⟨rfl, rfl⟩ := h
            obtain ⟨hr0, hr1⟩ := hlarge h6
            obtain ⟨a, b, c⟩ := ss58_two_byte_conv hr0 hr1 (by omega) hf
            refine ⟨a, ?_, by simp⟩
            rw [ss58FormatBytes_large (by omega), b, c]
            simp
      · simp only [ss58PrefixStrict, if_neg h7, if_neg h6, Option.some.injEq, Prod.mk.injEq] at h
        obtain ⟨rfl, rfl⟩ := h
        have h6' : b0.toNat &&& 64 = 0 := by simpa using h6
        have hle := hsmall h6'
        refine ⟨by omega, ?_, by simp⟩
        rw [ss58FormatBytes_small hle]
        simp

/-- what acceptance by `ss58Decode` means, spelled out on the decoded bytes. -/
theorem ss58Decode_ok_inv {H : Bytes → Bytes} {s : List Char} {fmt : Nat} {data : Bytes}
    (h : ss58Decode H s = .ok (fmt, data)) :
    ∃ dec, b58Decode btcAlphabet s = .ok dec ∧ fmt ≤ 16383 ∧ fmt ≠ 46 ∧ fmt ≠ 47 ∧ data.length = 32 ∧
      dec = (ss58FormatBytes fmt ++ data) ++ ss58Checksum H (ss58FormatBytes fmt ++ data) := by
  rw [ss58Decode_eq_flat] at h
  unfold ss58DecodeFlat at h
  cases hdec : b58Decode btcAlphabet s with
  | error e => rw [hdec] at h; cases h
  | ok dec =>
    rw [hdec] at h
    simp only at h
    by_cases hl : dec.length < 2
    · rw [if_pos hl] at h; cases h
    · rw [if_neg hl] at h
      cases hp : ss58PrefixStrict dec with
      | none => rw [hp] at h; cases h
      | some pr =>
        obtain ⟨fmtLen, fmt'⟩ := pr
        rw [hp] at h
        simp only [ss58Tail] at h
        by_cases h1 : fmt' = 46 ∨ fmt' = 47
        · rw [if_pos h1] at h; cases h
        · rw [if_neg h1] at h
          by_cases h2 : (if dec.length < fmtLen + 2 then [] else dropLast (dec.drop fmtLen) 2).length ≠ 32
          · rw [if_pos h2] at h; cases h
          · rw [if_neg h2] at h
            by_cases h3 : takeLast dec 2 ≠ ss58Checksum H (dropLast dec 2)
            · rw [if_pos h3] at h; cases h
            · rw [if_neg h3] at h
              have hfmt : fmt' = fmt := by cases h; rfl
              have hdata : (if dec.length < fmtLen + 2 then [] else dropLast (dec.drop fmtLen) 2) = data := by
                cases h; rfl
              subst hfmt
              obtain ⟨hf, htake, hfl⟩ := ss58PrefixStrict_sound hp
              have h2' : data.length = 32 := by rw [← hdata]; simpa using h2
              have h3' : takeLast dec 2 = ss58Checksum H (dropLast dec 2) := by simpa using h3
              have hlong : ¬ dec.length < fmtLen + 2 := by
                intro hc; rw [if_pos hc] at hdata; rw [← hdata] at h2'; simp at h2'
              rw [if_neg hlong] at hdata
              have hdl : dropLast dec 2 = ss58FormatBytes fmt' ++ data := by
                rw [← htake, ← hdata]
                unfold dropLast
                rw [List.length_drop, List.take_drop]
                have : fmtLen + (dec.length - fmtLen - 2) = dec.length - 2 := by omega
                rw [this]
                conv_lhs => rw [← List.take_append_drop fmtLen (dec.take (dec.length - 2))]
                rw [List.take_take, Nat.min_eq_left (by omega)]
              refine ⟨dec, rfl, hf, by omega, by omega, h2', ?_⟩
              rw [← hdl, ← h3', dropLast_append_takeLast]

/-- **SS58 canonicity**: every accepted address is the encoding of the decoded format and payload
(for any checksum hash; no assumption on its output length is needed because a shorter checksum
can never equal the two trailing bytes). -/
theorem ss58_decode_canonical' (H : Bytes → Bytes) {s : List Char} {fmt : Nat} {data : Bytes}
    (h : ss58Decode H s = .ok (fmt, data)) : ss58Encode H data fmt = .ok s := by
  obtain ⟨dec, hdec, hf, h46, h47, hd, hshape⟩ := ss58Decode_ok_inv h
  rw [ss58Encode_ok H data fmt hd hf h46 h47, ← hshape,
    b58_encode_decode btcAlphabet btcAlphabet_nodup btcAlphabet_length s dec hdec]

/-- the same with the usual hypothesis on the hash (not needed). -/
theorem ss58_decode_canonical (H : Bytes → Bytes) (_hH : ∀ x, (H x).length ≥ 2) {s : List Char}
    {fmt : Nat} {data : Bytes} (h : ss58Decode H s = .ok (fmt, data)) :
    ss58Encode H data fmt = .ok s :=
  ss58_decode_canonical' H h

/-- decoding is injective on accepted addresses. -/
theorem ss58Decode_inj (H : Bytes → Bytes) {s t : List Char} {r : Nat × Bytes}
    (hs : ss58Decode H s = .ok r) (ht : ss58Decode H t = .ok r) : s = t := by
  obtain ⟨fmt, data⟩ := r
  have h1 := ss58_decode_canonical' H hs
  rw [ss58_decode_canonical' H ht] at h1
  exact (Except.ok.inj h1).symm

/-! ### error classes -/

theorem alphaIndex_error {alph : List Char} {c : Char} {e : Err} (h : alphaIndex alph c = .error e) :
    e = .value := by
  unfold alphaIndex at h
  cases hi : alph.idxOf? c with
  | none => rw [hi] at h; cases h; rfl
  | some i => rw [hi] at h; cases h

theorem mapM_error_of {α β} {f : α → R β} {P : Err → Prop} (hf : ∀ a e, f a = .error e → P e)
    (l : List α) {e : Err} (h : l.mapM f = .error e) : P e := by
  induction l with
  | nil => rw [List.mapM_nil] at h; cases h
  | cons a t ih =>
    rw [List.mapM_cons] at h
    cases hfa : f a with
    | error e' => rw [hfa] at h; cases h; exact hf a e hfa
    | ok b =>
      cases ht : t.mapM f with
      | error e' => rw [hfa, ht] at h; cases h; exact ih ht
      | ok bs => rw [hfa, ht] at h; cases h

theorem b58Decode_error {alph : List Char} {s : List Char} {e : Err} (h : b58Decode alph s = .error e) :
    e = .value := by
  unfold b58Decode at h
  cases hm : s.mapM (alphaIndex alph) with
  | error e' =>
    rw [hm] at h
    have : e' = e := by cases h; rfl
    subst this
    exact mapM_error_of (P := fun e => e = .value) (fun a e h => alphaIndex_error h) s hm
  | ok ds => rw [hm] at h; cases h

/-- **SS58 error classes**: the decoder fails only with `ValueError` or the checksum error – in
particular never with `IndexError`. -/
theorem ss58_decode_errors (H : Bytes → Bytes) {s : List Char} {e : Err}
    (h : ss58Decode H s = .error e) : e = .value ∨ e = .checksum := by
  rw [ss58Decode_eq_flat] at h
  unfold ss58DecodeFlat at h
  cases hdec : b58Decode btcAlphabet s with
  | error e' =>
    rw [hdec] at h
    have : e' = e := by cases h; rfl
    subst this
    exact Or.inl (b58Decode_error hdec)
  | ok dec =>
    rw [hdec] at h
    simp only at h
    by_cases hl : dec.length < 2
    · rw [if_pos hl] at h; cases h; exact Or.inl rfl
    · rw [if_neg hl] at h
      cases hp : ss58PrefixStrict dec with
      | none => rw [hp] at h; cases h; exact Or.inl rfl
      | some pr =>
        obtain ⟨fmtLen, fmt'⟩ := pr
        rw [hp] at h
        simp only [ss58Tail] at h
        by_cases h1 : fmt' = 46 ∨ fmt' = 47
        · rw [if_pos h1] at h; cases h; exact Or.inl rfl
        · rw [if_neg h1] at h
          by_cases h2 : (if dec.length < fmtLen + 2 then [] else dropLast (dec.drop fmtLen) 2).length ≠ 32
          · rw [if_pos h2] at h; cases h; exact Or.inl rfl
          · rw [if_neg h2] at h
            by_cases h3 : takeLast dec 2 ≠ ss58Checksum H (dropLast dec 2)
            · rw [if_pos h3] at h; cases h; exact Or.inr rfl
            · rw [if_neg h3] at h; cases h

end BipVerif.Model
