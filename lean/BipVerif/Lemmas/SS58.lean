/- SS58: prefix (address-format) encoding round trip and the full encode/decode round trip. -/
import BipVerif.Lemmas.Base58Check
import BipVerif.Model.SS58

namespace BipVerif.Model
open BipVerif

/-! ### the one/two byte format prefix -/

/-- first prefix byte of the two-byte form (as a number) -/
def ss58B0 (fmt : Nat) : Nat := ((fmt &&& 252) >>> 2) ||| 64
/-- second prefix byte of the two-byte form (as a number) -/
def ss58B1 (fmt : Nat) : Nat := (fmt >>> 8) ||| ((fmt &&& 3) <<< 6)

/-- the decoder's formula for the two-byte form -/
def ss58Fmt2 (b0 b1 : Nat) : Nat := ((b0 &&& 63) <<< 2) ||| (b1 >>> 6) ||| ((b1 &&& 63) <<< 8)

def ss58PrefixOk (fmt : Nat) : Bool :=
  ss58B0 fmt < 256 && ss58B1 fmt < 256 && (ss58B0 fmt &&& 64 != 0) && (ss58B0 fmt &&& 128 == 0) &&
    ss58Fmt2 (ss58B0 fmt) (ss58B1 fmt) == fmt

theorem ss58_two_byte_all :
    (List.range 16384).all (fun fmt => fmt < 64 || ss58PrefixOk fmt) = true := by decide +kernel

theorem ss58_one_byte_all : (List.range 64).all (fun fmt => fmt &&& 64 == 0) = true := by
  decide +kernel

/-- bit facts for the two-byte form, `64 ≤ fmt ≤ 16383`: both bytes fit, bit 6 of the first byte is
set, bit 7 is clear, and the decoder's formula returns `fmt`. -/
theorem ss58_two_byte {fmt : Nat} (h1 : 64 ≤ fmt) (h2 : fmt ≤ 16383) :
    ss58B0 fmt < 256 ∧ ss58B1 fmt < 256 ∧ ss58B0 fmt &&& 64 ≠ 0 ∧ ss58B0 fmt &&& 128 = 0 ∧
      ss58Fmt2 (ss58B0 fmt) (ss58B1 fmt) = fmt := by
  have := List.all_eq_true.mp ss58_two_byte_all fmt (List.mem_range.mpr (by omega))
  have hlt : ¬ fmt < 64 := by omega
  simp only [hlt, decide_false, Bool.false_or, ss58PrefixOk, Bool.and_eq_true, decide_eq_true_eq,
    bne_iff_ne, ne_eq, beq_iff_eq] at this
  obtain ⟨⟨⟨⟨a, b⟩, c⟩, d⟩, e⟩ := this
  exact ⟨a, b, c, d, e⟩

theorem ss58_one_byte {fmt : Nat} (h : fmt ≤ 63) : fmt &&& 64 = 0 := by
  have := List.all_eq_true.mp ss58_one_byte_all fmt (List.mem_range.mpr (by omega))
  simpa using this

theorem natToBytesMin_of_lt_256 {v : Nat} (h0 : v ≠ 0) (h : v < 256) :
    natToBytesMin v = [UInt8.ofNat v] := by
  apply toNatBE_inj_of_length_eq
  · have h1 := (natToBytesMin_length_le_iff v 1).mpr (by omega)
    have h2 : natToBytesMin v ≠ [] := fun e => h0 ((natToBytesMin_eq_nil_iff v).mp e)
    have := List.length_pos_iff.mpr h2
    simp; omega
  · rw [toNatBE_natToBytesMin, toNatBE_singleton]
    simp [UInt8.toNat_ofNat']; omega

theorem toBytesAuto_of_lt_256 {v : Nat} (h : v < 256) : toBytesAuto v = [UInt8.ofNat v] := by
  by_cases h0 : v = 0
  · subst h0; rw [toBytesAuto_zero]; rfl
  · rw [toBytesAuto_of_ne_zero h0, natToBytesMin_of_lt_256 h0 h]

theorem ss58FormatBytes_small {fmt : Nat} (h : fmt ≤ 63) :
    ss58FormatBytes fmt = [UInt8.ofNat fmt] := by
  unfold ss58FormatBytes; rw [if_pos h, toBytesAuto_of_lt_256 (by omega)]

theorem ss58FormatBytes_large {fmt : Nat} (h : 64 ≤ fmt) :
    ss58FormatBytes fmt = [UInt8.ofNat (ss58B0 fmt), UInt8.ofNat (ss58B1 fmt)] := by
  unfold ss58FormatBytes; rw [if_neg (by omega)]; rfl

/-- the prefix decoder (the formula used inline by `ss58Decode`) -/
def ss58PrefixDecode (b : Bytes) : Option (Nat × Nat) :=
  match b with
  | [] => none
  | b0 :: rest =>
    if b0.toNat &&& 64 ≠ 0 then
      match rest with
      | [] => none
      | b1 :: _ => some (2, ss58Fmt2 b0.toNat b1.toNat)
    else some (1, b0.toNat)

/-- **SS58 prefix round trip**: for every admissible format the decoder's formula recovers the
format from the prefix bytes, and tells the prefix length; the one-byte form is used exactly for
`fmt ≤ 63` (first byte `= fmt < 64`, bit 6 clear), the two-byte form has bit 6 of its first byte
set. -/
theorem ss58_prefix_roundtrip {fmt : Nat} (h : fmt ≤ 16383) (tail : Bytes) :
    ss58PrefixDecode (ss58FormatBytes fmt ++ tail) = some ((ss58FormatBytes fmt).length, fmt) ∧
    (ss58FormatBytes fmt).length = (if fmt ≤ 63 then 1 else 2) ∧
    (∃ b0, (ss58FormatBytes fmt).head? = some b0 ∧ (b0.toNat &&& 64 ≠ 0 ↔ 64 ≤ fmt) ∧
      (fmt ≤ 63 → b0.toNat = fmt)) := by
  by_cases hs : fmt ≤ 63
  · have htn : (UInt8.ofNat fmt).toNat = fmt := by simp [UInt8.toNat_ofNat']; omega
    rw [ss58FormatBytes_small hs]
    refine ⟨?_, by simp [hs], UInt8.ofNat fmt, rfl, ?_, fun _ => htn⟩
    · simp only [ss58PrefixDecode, List.cons_append, List.nil_append, htn, ss58_one_byte hs]
      simp
    · rw [htn, ss58_one_byte hs]; simp; omega
  · obtain ⟨a, b, c, d, e⟩ := ss58_two_byte (by omega : 64 ≤ fmt) h
    have h0 : (UInt8.ofNat (ss58B0 fmt)).toNat = ss58B0 fmt := by
      simp [UInt8.toNat_ofNat']; omega
    have h1 : (UInt8.ofNat (ss58B1 fmt)).toNat = ss58B1 fmt := by
      simp [UInt8.toNat_ofNat']; omega
    rw [ss58FormatBytes_large (by omega)]
    refine ⟨?_, by simp [hs], UInt8.ofNat (ss58B0 fmt), rfl, ?_, fun h' => absurd h' hs⟩
    · simp only [ss58PrefixDecode, List.cons_append, List.nil_append, h0, h1, e]
      simp [c]
    · rw [h0]; constructor
      · intro _; omega
      · intro _; exact c

/-! ### full round trip -/

theorem ss58Checksum_length (H : Bytes → Bytes) (hH : ∀ x, 2 ≤ (H x).length) (p : Bytes) :
    (ss58Checksum H p).length = 2 := by
  unfold ss58Checksum; rw [List.length_take]; have := hH (ss58Prefix ++ p); omega

theorem ss58Encode_ok (H : Bytes → Bytes) (data : Bytes) (fmt : Nat) (hd : data.length = 32)
    (hf : fmt ≤ 16383) (h46 : fmt ≠ 46) (h47 : fmt ≠ 47) :
    ss58Encode H data fmt = .ok (b58Encode btcAlphabet
      ((ss58FormatBytes fmt ++ data) ++ ss58Checksum H (ss58FormatBytes fmt ++ data))) := by
  unfold ss58Encode
  have h1 : ¬ data.length ≠ 32 := by omega
  have h2 : ¬ fmt > 16383 := by omega
  simp [h1, h2, h46, h47, pure, Except.pure]

/-- `ss58Decode` in a flat, match-based form (no monadic plumbing). -/
def ss58DecodeFlat (H : Bytes → Bytes) (s : List Char) : R (Nat × Bytes) :=
  match b58Decode btcAlphabet s with
  | .error e => .error e
  | .ok dec =>
    match ss58PrefixDecode dec with
    | none => .error .index
    | some (fmtLen, fmt) =>
      if fmt = 46 ∨ fmt = 47 then .error .value
      else
        let dataBytes := if dec.length < fmtLen + 2 then [] else dropLast (dec.drop fmtLen) 2
        if dataBytes.length ≠ 32 then .error .value
        else if takeLast dec 2 ≠ ss58Checksum H (dropLast dec 2) then .error .checksum
        else .ok (fmt, dataBytes)

theorem ss58Decode_tail (H : Bytes → Bytes) (dec : Bytes) (fmtLen fmt : Nat) :
    (do
      if fmt = 46 || fmt = 47 then throw Err.value
      let dataBytes := dropLast (dec.drop fmtLen) 2
      let dataBytes := if dec.length < fmtLen + 2 then [] else dataBytes
      let ck := takeLast dec 2
      if dataBytes.length ≠ 32 then throw Err.value
      if ck != ss58Checksum H (dropLast dec 2) then throw Err.checksum
      pure (fmt, dataBytes) : R (Nat × Bytes))
    = (if fmt = 46 ∨ fmt = 47 then .error .value
      else
        let dataBytes := if dec.length < fmtLen + 2 then [] else dropLast (dec.drop fmtLen) 2
        if dataBytes.length ≠ 32 then .error .value
        else if takeLast dec 2 ≠ ss58Checksum H (dropLast dec 2) then .error .checksum
        else .ok (fmt, dataBytes)) := by
  by_cases h1 : fmt = 46 ∨ fmt = 47
  · rcases h1 with rfl | rfl <;> rfl
  · have h1' : fmt ≠ 46 ∧ fmt ≠ 47 := by omega
    by_cases h2 : (if dec.length < fmtLen + 2 then [] else dropLast (dec.drop fmtLen) 2).length = 32
    · by_cases h3 : takeLast dec 2 = ss58Checksum H (dropLast dec 2)
      · simp [h1'.1, h1'.2, h2, h3, pure, Except.pure]
      · simp [h1'.1, h1'.2, h2, h3, bind, Except.bind, throw, throwThe, MonadExceptOf.throw]
    · simp [h1'.1, h1'.2, h2, bind, Except.bind, throw, throwThe, MonadExceptOf.throw]

theorem ss58Decode_eq_flat (H : Bytes → Bytes) (s : List Char) :
    ss58Decode H s = ss58DecodeFlat H s := by
  unfold ss58Decode ss58DecodeFlat
  cases b58Decode btcAlphabet s with
  | error e => rfl
  | ok dec =>
    cases dec with
    | nil => rfl
    | cons b0 rest =>
      by_cases hb : b0.toNat &&& 64 ≠ 0
      · cases rest with
        | nil =>
          simp only [ss58PrefixDecode, if_pos hb, bind, Except.bind, pyIdx, List.getElem?_cons_zero, pure, Except.pure, List.getElem?_cons_succ, List.getElem?_nil]; rfl
        | cons b1 rest' =>
          have := ss58Decode_tail H (b0 :: b1 :: rest') 2 (ss58Fmt2 b0.toNat b1.toNat)
          simp only [ss58PrefixDecode, if_pos hb]
          rw [← this]
          simp only [bind, Except.bind, pyIdx, List.getElem?_cons_zero, if_pos hb, pure, Except.pure,
            List.getElem?_cons_succ]
          rfl
      · have := ss58Decode_tail H (b0 :: rest) 1 b0.toNat
        simp only [ss58PrefixDecode, if_neg hb]
        rw [← this]
        simp only [bind, Except.bind, pyIdx, List.getElem?_cons_zero, if_neg hb, pure, Except.pure]

/-- **SS58 round trip**: for every checksum function with at least 2 output bytes, every 32-byte
payload and every admissible, non-reserved address format. -/
theorem ss58_decode_encode (H : Bytes → Bytes) (hH : ∀ x, 2 ≤ (H x).length) (data : Bytes)
    (fmt : Nat) (hd : data.length = 32) (hf : fmt ≤ 16383) (h46 : fmt ≠ 46) (h47 : fmt ≠ 47) :
    (ss58Encode H data fmt >>= ss58Decode H) = .ok (fmt, data) := by
  rw [ss58Encode_ok H data fmt hd hf h46 h47]
  change ss58Decode H _ = _
  rw [ss58Decode_eq_flat]
  unfold ss58DecodeFlat
  rw [b58_decode_encode btcAlphabet btcAlphabet_nodup btcAlphabet_length]
  set fb := ss58FormatBytes fmt with hfb
  set ck := ss58Checksum H (fb ++ data) with hck
  have hckl : ck.length = 2 := ss58Checksum_length H hH _
  obtain ⟨hpre, hlen, -⟩ := ss58_prefix_roundtrip hf (data ++ ck)
  rw [← hfb] at hpre hlen
  have hdl : dropLast ((fb ++ data) ++ ck) 2 = fb ++ data := dropLast_append_of_length _ _ 2 hckl
  have htl : takeLast ((fb ++ data) ++ ck) 2 = ck := takeLast_append_of_length _ _ 2 hckl
  have hdata : dropLast (((fb ++ data) ++ ck).drop fb.length) 2 = data := by
    rw [List.append_assoc, List.drop_left]; exact dropLast_append_of_length _ _ 2 hckl
  have hlen2 : ¬ ((fb ++ data) ++ ck).length < fb.length + 2 := by
    simp only [List.length_append]; omega
  have hne : ¬ (fmt = 46 ∨ fmt = 47) := by omega
  rw [← List.append_assoc] at hpre
  simp only [hpre, hne, if_false, hlen2, hdata, hd, htl, hdl, ne_eq, not_true_eq_false, ← hck]

end BipVerif.Model
