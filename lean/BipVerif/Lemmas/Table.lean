/-
Soundness of the kernel-fast table checkers of `BipVerif.Model.TableCheck`.

Usage pattern for a generated table `tbl : List Nat` (2048 big literals):

    theorem tbl_nodupCheck : nodupCheck tbl = true := by decide +kernel     -- about 1 s
    theorem tbl_nodup : tbl.Nodup := nodupCheck_sound tbl tbl_nodupCheck

The soundness proofs never need that `msort` sorts - only that it permutes - so neither the fuel
of `sortGo` nor the depth argument of `sortD` shows up in any hypothesis.
-/
import BipVerif.Model.TableCheck

namespace BipVerif.Table

/-! ### merge sort is a permutation -/

theorem merge_perm (xs ys : List Nat) : (merge xs ys).Perm (xs ++ ys) := by
  induction xs generalizing ys with
  | nil => rw [merge_nil]; exact List.Perm.refl _
  | cons x xs ihx =>
    induction ys with
    | nil => rw [merge_cons_nil, List.append_nil]
    | cons y ys ihy =>
      rw [merge_cons_cons]
      cases Nat.ble x y with
      | true =>
        rw [bsel_true]
        exact (ihx (y :: ys)).cons x
      | false =>
        rw [bsel_false]
        exact (ihy.cons y).trans List.perm_middle.symm

theorem sortD_perm (d : Nat) (l : List Nat) : ((sortD d l).1 ++ (sortD d l).2).Perm l := by
  induction d generalizing l with
  | zero =>
    cases l with
    | nil => exact List.Perm.refl _
    | cons x xs => exact List.Perm.refl _
  | succ d ih =>
    rw [sortD_succ]
    have h1 := ih l
    cases hr : (sortD d l).2 with
    | nil =>
      rw [hr] at h1
      simpa using h1
    | cons y ys =>
      rw [hr] at h1
      have h2 := ih (y :: ys)
      show (merge (sortD d l).1 (sortD d (y :: ys)).1 ++ (sortD d (y :: ys)).2).Perm l
      refine List.Perm.trans ?_ h1
      refine ((merge_perm _ _).append_right _).trans ?_
      rw [List.append_assoc]
      exact h2.append_left _

theorem sortGo_perm (f d : Nat) (a r : List Nat) : (sortGo f d a r).Perm (a ++ r) := by
  induction f generalizing d a r with
  | zero => rw [sortGo_zero]; exact merge_perm a r
  | succ f ih =>
    cases r with
    | nil => rw [sortGo_succ_nil, List.append_nil]
    | cons y ys =>
      rw [sortGo_succ_cons]
      refine (ih _ _ _).trans ?_
      refine ((merge_perm _ _).append_right _).trans ?_
      rw [List.append_assoc]
      exact (sortD_perm d (y :: ys)).append_left _

theorem msort_perm (l : List Nat) : (msort l).Perm l := by
  cases l with
  | nil => rw [msort_nil]
  | cons x xs => rw [msort_cons]; exact sortGo_perm 64 0 [x] xs

/-! ### strict sortedness -/

theorem strictFrom_sound (t : List Nat) (a : Nat) (h : strictFrom t a = true) :
    List.Pairwise (· < ·) (a :: t) := by
  induction t generalizing a with
  | nil => exact List.pairwise_singleton _ _
  | cons b t ih =>
    rw [strictFrom_cons, band_eq_and, Bool.and_eq_true] at h
    have hab : a < b := by
      have := h.1
      rw [Nat.blt_eq] at this
      exact this
    have hbt := ih b h.2
    rw [List.pairwise_cons] at hbt ⊢
    refine ⟨?_, List.pairwise_cons.mpr hbt⟩
    intro x hx
    rcases List.mem_cons.mp hx with rfl | hx
    · exact hab
    · exact Nat.lt_trans hab (hbt.1 x hx)

theorem strictSorted_sound (l : List Nat) (h : strictSorted l = true) :
    List.Pairwise (· < ·) l := by
  cases l with
  | nil => exact List.Pairwise.nil
  | cons a t => exact strictFrom_sound t a h

theorem strictSorted_nodup (l : List Nat) (h : strictSorted l = true) : l.Nodup :=
  (strictSorted_sound l h).imp (fun hlt => Nat.ne_of_lt hlt)

/-! ### the duplicate-freeness checker -/

/-- **soundness of `nodupCheck`** -/
theorem nodupCheck_sound (l : List Nat) (h : nodupCheck l = true) : l.Nodup :=
  (msort_perm l).nodup_iff.mp (strictSorted_nodup _ h)

/-! ### element-wise checks -/

theorem allB_sound (p : Nat → Bool) (l : List Nat) (h : allB p l = true) :
    ∀ x ∈ l, p x = true := by
  induction l with
  | nil => intro x hx; cases hx
  | cons a t ih =>
    rw [allB_cons, band_eq_and, Bool.and_eq_true] at h
    intro x hx
    rcases List.mem_cons.mp hx with rfl | hx
    · exact h.1
    · exact ih h.2 x hx

theorem allB_complete (p : Nat → Bool) (l : List Nat) (h : ∀ x ∈ l, p x = true) :
    allB p l = true := by
  induction l with
  | nil => rfl
  | cons a t ih =>
    rw [allB_cons, band_eq_and, Bool.and_eq_true]
    exact ⟨h a (List.mem_cons_self ..), ih (fun x hx => h x (List.mem_cons_of_mem _ hx))⟩

theorem allLt_sound (bound : Nat) (l : List Nat) (h : allLt bound l = true) :
    ∀ x ∈ l, x < bound := by
  intro x hx
  have := allB_sound _ l h x hx
  rw [Nat.blt_eq] at this
  exact this

theorem lengthR_eq (l : List Nat) : lengthR l = l.length := by
  induction l with
  | nil => rfl
  | cons a t ih => show Nat.succ (lengthR t) = _; rw [ih]; rfl

theorem mapR_eq_map (f : Nat → Nat) (l : List Nat) : mapR f l = l.map f := by
  induction l with
  | nil => rfl
  | cons a t ih => rw [mapR_cons, ih]; rfl

/-! ### list equality -/

theorem listEqCheck_sound (a b : List Nat) (h : listEqCheck a b = true) : a = b := by
  induction a generalizing b with
  | nil =>
    cases b with
    | nil => rfl
    | cons y ys => rw [listEqCheck_nil_cons] at h; cases h
  | cons x xs ih =>
    cases b with
    | nil => rw [listEqCheck_cons_nil] at h; cases h
    | cons y ys =>
      rw [listEqCheck_cons_cons, band_eq_and, Bool.and_eq_true] at h
      rw [Nat.eq_of_beq_eq_true h.1, ih ys h.2]

theorem listEqCheck_refl (a : List Nat) : listEqCheck a a = true := by
  induction a with
  | nil => rfl
  | cons x xs ih =>
    rw [listEqCheck_cons_cons, band_eq_and, Bool.and_eq_true]
    exact ⟨Nat.beq_refl x, ih⟩

theorem listEqCheck_iff (a b : List Nat) : listEqCheck a b = true ↔ a = b :=
  ⟨listEqCheck_sound a b, fun h => h ▸ listEqCheck_refl a⟩

/-! ### code-point prefixes -/

/-- `Nodup` of an image implies `Nodup` of the pre-image -/
theorem nodup_of_nodup_map {α β : Type} (f : α → β) (m : List α) (h : (m.map f).Nodup) :
    m.Nodup := by
  induction m with
  | nil => exact List.nodup_nil
  | cons a t ih =>
    rw [List.map_cons, List.nodup_cons] at h
    rw [List.nodup_cons]
    exact ⟨fun hmem => h.1 (List.mem_map_of_mem hmem), ih h.2⟩

theorem prefEnc_eq (bytes : List Nat) (k a : Nat) :
    prefEnc bytes k a = encodeFrom (utf8Prefix k bytes) a := by
  induction bytes generalizing k a with
  | nil => rfl
  | cons b t ih =>
    rw [prefEnc_cons]
    by_cases hb : b / 64 = 2
    · rw [utf8Prefix_cons_cont k b t hb, encodeFrom_cons, hb]
      exact ih k _
    · have hbeq : Nat.beq (b / 64) 2 = false := by
        cases hc : Nat.beq (b / 64) 2 with
        | false => rfl
        | true => exact absurd (Nat.eq_of_beq_eq_true hc) hb
      rw [hbeq]
      cases k with
      | zero => rw [utf8Prefix_zero_cons_start b t hb]; rfl
      | succ k =>
        rw [utf8Prefix_succ_cons_start k b t hb, encodeFrom_cons]
        exact ih k _

/-- the sort key is the table encoding of the code-point prefix -/
theorem prefixKey_eq (k w : Nat) : prefixKey k w = encodeBytes (utf8Prefix k (wordBytesNat w)) :=
  prefEnc_eq _ _ _

/-- **soundness of `prefixNodupCheck`**: the byte strings of the first `k` code points of the
table entries are pairwise distinct -/
theorem prefixNodupCheck_sound (k : Nat) (l : List Nat) (h : prefixNodupCheck k l = true) :
    (l.map (fun w => utf8Prefix k (wordBytesNat w))).Nodup := by
  have h1 : (mapR (prefixKey k) l).Nodup := nodupCheck_sound _ h
  rw [mapR_eq_map] at h1
  have h2 : l.map (prefixKey k)
      = (l.map (fun w => utf8Prefix k (wordBytesNat w))).map encodeBytes := by
    rw [List.map_map]
    apply List.map_congr_left
    intro w _
    exact prefixKey_eq k w
  rw [h2] at h1
  exact nodup_of_nodup_map _ _ h1

/-- in particular the entries themselves are distinct -/
theorem prefixNodupCheck_nodup (k : Nat) (l : List Nat) (h : prefixNodupCheck k l = true) :
    l.Nodup :=
  nodup_of_nodup_map _ _ (prefixNodupCheck_sound k l h)

/-! ### the word encoding round-trips -/

theorem encodeFrom_append (bs cs : List Nat) (a : Nat) :
    encodeFrom (bs ++ cs) a = encodeFrom cs (encodeFrom bs a) := by
  induction bs generalizing a with
  | nil => rfl
  | cons b t ih => rw [List.cons_append, encodeFrom_cons, encodeFrom_cons, ih]

theorem encodeFrom_snoc (bs : List Nat) (b a : Nat) :
    encodeFrom (bs ++ [b]) a = encodeFrom bs a * 256 + b := by
  rw [encodeFrom_append]; rfl

theorem le_encodeFrom (bs : List Nat) (a : Nat) : a ≤ encodeFrom bs a := by
  induction bs generalizing a with
  | nil => exact Nat.le_refl _
  | cons b t ih =>
    rw [encodeFrom_cons]
    exact Nat.le_trans (by omega) (ih _)

theorem length_add_le_encodeFrom (bs : List Nat) (a : Nat) (ha : 1 ≤ a) :
    bs.length + a ≤ encodeFrom bs a := by
  induction bs generalizing a with
  | nil => rw [encodeFrom_nil]; simp
  | cons b t ih =>
    rw [encodeFrom_cons, List.length_cons]
    have := ih (a * 256 + b) (by omega)
    omega

theorem length_lt_encodeFrom (bs : List Nat) (a : Nat) (ha : 1 ≤ a) :
    bs.length < encodeFrom bs a := by
  have := length_add_le_encodeFrom bs a ha
  omega

theorem bytesAux_encodeFrom (bs : List Nat) (hbs : ∀ b ∈ bs, b < 256) (a : Nat) (ha : 1 ≤ a)
    (f : Nat) (acc : List Nat) :
    bytesAux (f + bs.length) (encodeFrom bs a) acc = bytesAux f a (bs ++ acc) := by
  induction bs generalizing f a with
  | nil => rfl
  | cons b t ih =>
    have hb : b < 256 := hbs b (List.mem_cons_self ..)
    have ht : ∀ x ∈ t, x < 256 := fun x hx => hbs x (List.mem_cons_of_mem _ hx)
    rw [encodeFrom_cons, List.length_cons]
    have hfuel : f + (t.length + 1) = (f + 1) + t.length := by omega
    rw [hfuel, ih ht (a * 256 + b) (by omega) (f + 1), bytesAux_succ]
    have hble : Nat.ble (a * 256 + b) 1 = false := by
      cases hc : Nat.ble (a * 256 + b) 1 with
      | false => rfl
      | true => have := Nat.le_of_ble_eq_true hc; omega
    have hdiv : (a * 256 + b) / 256 = a := by omega
    have hmod : (a * 256 + b) % 256 = b := by omega
    rw [hble, bsel_false, hdiv, hmod]
    rfl

/-- **decoding inverts the table encoding** (for byte values, i.e. entries below 256) -/
theorem wordBytesNat_encodeBytes (bs : List Nat) (hbs : ∀ b ∈ bs, b < 256) :
    wordBytesNat (encodeBytes bs) = bs := by
  unfold wordBytesNat encodeBytes
  have hlt := length_lt_encodeFrom bs 1 (Nat.le_refl 1)
  obtain ⟨f, hf⟩ : ∃ f, encodeFrom bs 1 = f + bs.length := ⟨encodeFrom bs 1 - bs.length, by omega⟩
  conv => lhs; arg 1; rw [hf]
  rw [bytesAux_encodeFrom bs hbs 1 (Nat.le_refl 1) f [], List.append_nil]
  cases f with
  | zero => rfl
  | succ f => rw [bytesAux_succ]; rfl

/-- the table encoding is injective on byte strings -/
theorem encodeBytes_injective (bs cs : List Nat) (hbs : ∀ b ∈ bs, b < 256)
    (hcs : ∀ b ∈ cs, b < 256) (h : encodeBytes bs = encodeBytes cs) : bs = cs := by
  rw [← wordBytesNat_encodeBytes bs hbs, ← wordBytesNat_encodeBytes cs hcs, h]

/-! ### completeness (`= false` answers are meaningful too)

Needs that `msort` really sorts, hence the (harmless) bound `l.length ≤ 2 ^ 64` coming from the
fuel of `sortGo`. -/

/-- non-strictly increasing -/
def SortedLe (l : List Nat) : Prop := List.Pairwise (· ≤ ·) l

theorem mem_merge {z : Nat} {xs ys : List Nat} : z ∈ merge xs ys ↔ z ∈ xs ∨ z ∈ ys := by
  rw [(merge_perm xs ys).mem_iff, List.mem_append]

theorem merge_sorted (xs ys : List Nat) (hx : SortedLe xs) (hy : SortedLe ys) :
    SortedLe (merge xs ys) := by
  induction xs generalizing ys with
  | nil => rw [merge_nil]; exact hy
  | cons x xs ihx =>
    induction ys with
    | nil => rw [merge_cons_nil]; exact hx
    | cons y ys ihy =>
      rw [merge_cons_cons]
      have hx' := List.pairwise_cons.mp hx
      have hy' := List.pairwise_cons.mp hy
      cases hble : Nat.ble x y with
      | true =>
        rw [bsel_true]
        have hxy : x ≤ y := Nat.le_of_ble_eq_true hble
        refine List.pairwise_cons.mpr ⟨?_, ihx (y :: ys) hx'.2 hy⟩
        intro z hz
        rcases mem_merge.mp hz with h | h
        · exact hx'.1 z h
        · rcases List.mem_cons.mp h with rfl | h
          · exact hxy
          · exact Nat.le_trans hxy (hy'.1 z h)
      | false =>
        rw [bsel_false]
        have hyx : y ≤ x := by
          have : ¬ x ≤ y := fun h => by rw [Nat.ble_eq_true_of_le h] at hble; cases hble
          omega
        refine List.pairwise_cons.mpr ⟨?_, ihy hy'.2⟩
        intro z hz
        rcases mem_merge.mp hz with h | h
        · rcases List.mem_cons.mp h with rfl | h
          · exact hyx
          · exact Nat.le_trans hyx (hx'.1 z h)
        · exact hy'.1 z h

theorem sortD_sorted (d : Nat) (l : List Nat) : SortedLe (sortD d l).1 := by
  induction d generalizing l with
  | zero =>
    cases l with
    | nil => exact List.Pairwise.nil
    | cons x xs => exact List.pairwise_singleton _ _
  | succ d ih =>
    rw [sortD_succ]
    cases hr : (sortD d l).2 with
    | nil => exact ih l
    | cons y ys => exact merge_sorted _ _ (ih l) (ih (y :: ys))

theorem sortD_length_snd (d : Nat) (l : List Nat) : (sortD d l).2.length = l.length - 2 ^ d := by
  induction d generalizing l with
  | zero =>
    cases l with
    | nil => rfl
    | cons x xs => rw [sortD_zero_cons]; simp
  | succ d ih =>
    rw [sortD_succ]
    have h1 := ih l
    have hp : 2 ^ (d + 1) = 2 ^ d * 2 := Nat.pow_succ 2 d
    cases hr : (sortD d l).2 with
    | nil =>
      rw [hr] at h1
      show ([] : List Nat).length = _
      simp only [List.length_nil] at h1 ⊢
      omega
    | cons y ys =>
      rw [hr] at h1
      have h2 := ih (y :: ys)
      show (sortD d (y :: ys)).2.length = _
      omega

theorem sortGo_sorted (f d : Nat) (a r : List Nat) (ha : SortedLe a)
    (hr : r.length + 2 ^ d ≤ 2 ^ (d + f)) : SortedLe (sortGo f d a r) := by
  induction f generalizing d a r with
  | zero =>
    have : r = [] := by
      apply List.eq_nil_of_length_eq_zero
      simp only [Nat.add_zero] at hr
      omega
    subst this
    rw [sortGo_zero]
    exact merge_sorted _ _ ha List.Pairwise.nil
  | succ f ih =>
    cases r with
    | nil => rw [sortGo_succ_nil]; exact ha
    | cons y ys =>
      rw [sortGo_succ_cons]
      refine ih (d + 1) _ _ (merge_sorted _ _ ha (sortD_sorted d (y :: ys))) ?_
      rw [sortD_length_snd]
      have he : d + 1 + f = d + (f + 1) := by omega
      rw [he]
      have hp : 2 ^ (d + 1) = 2 ^ d * 2 := Nat.pow_succ 2 d
      have hmono : 2 ^ (d + 1) ≤ 2 ^ (d + (f + 1)) := Nat.pow_le_pow_right (by omega) (by omega)
      omega

theorem msort_sorted (l : List Nat) (hl : l.length ≤ 2 ^ 64) : SortedLe (msort l) := by
  cases l with
  | nil => exact List.Pairwise.nil
  | cons x xs =>
    rw [msort_cons]
    refine sortGo_sorted 64 0 [x] xs (List.pairwise_singleton _ _) ?_
    simp only [List.length_cons] at hl
    simpa using hl

theorem strictFrom_complete (t : List Nat) (a : Nat) (h : List.Pairwise (· < ·) (a :: t)) :
    strictFrom t a = true := by
  induction t generalizing a with
  | nil => rfl
  | cons b t ih =>
    have h' := List.pairwise_cons.mp h
    rw [strictFrom_cons, band_eq_and, Bool.and_eq_true]
    refine ⟨?_, ih b h'.2⟩
    rw [Nat.blt_eq]
    exact h'.1 b (List.mem_cons_self ..)

theorem strictSorted_complete (l : List Nat) (h : List.Pairwise (· < ·) l) :
    strictSorted l = true := by
  cases l with
  | nil => rfl
  | cons a t => exact strictFrom_complete t a h

/-- **completeness of `nodupCheck`** -/
theorem nodupCheck_complete (l : List Nat) (hl : l.length ≤ 2 ^ 64) (h : l.Nodup) :
    nodupCheck l = true := by
  apply strictSorted_complete
  have hn : (msort l).Nodup := (msort_perm l).nodup_iff.mpr h
  have hs : SortedLe (msort l) := msort_sorted l hl
  exact (List.Pairwise.and hs hn).imp (fun hab => Nat.lt_of_le_of_ne hab.1 hab.2)

theorem nodupCheck_iff (l : List Nat) (hl : l.length ≤ 2 ^ 64) : nodupCheck l = true ↔ l.Nodup :=
  ⟨nodupCheck_sound l, nodupCheck_complete l hl⟩

/-- a `false` answer of the checker refutes duplicate-freeness -/
theorem not_nodup_of_nodupCheck_eq_false (l : List Nat) (hl : l.length ≤ 2 ^ 64)
    (h : nodupCheck l = false) : ¬ l.Nodup := by
  intro hn
  rw [nodupCheck_complete l hl hn] at h
  cases h

theorem bytesAux_lt (f n : Nat) (acc : List Nat) (hacc : ∀ b ∈ acc, b < 256) :
    ∀ b ∈ bytesAux f n acc, b < 256 := by
  induction f generalizing n acc with
  | zero => exact hacc
  | succ f ih =>
    rw [bytesAux_succ]
    cases Nat.ble n 1 with
    | true => rw [bsel_true]; exact hacc
    | false =>
      rw [bsel_false]
      apply ih
      intro b hb
      rcases List.mem_cons.mp hb with rfl | hb
      · exact Nat.mod_lt _ (by omega)
      · exact hacc b hb

theorem wordBytesNat_lt (n : Nat) : ∀ b ∈ wordBytesNat n, b < 256 :=
  bytesAux_lt n n [] (fun _ h => by cases h)

theorem mem_of_mem_utf8Prefix (k : Nat) (l : List Nat) : ∀ b ∈ utf8Prefix k l, b ∈ l := by
  induction l generalizing k with
  | nil => intro b hb; rw [utf8Prefix_nil] at hb; cases hb
  | cons c t ih =>
    intro b hb
    by_cases hc : c / 64 = 2
    · rw [utf8Prefix_cons_cont k c t hc] at hb
      rcases List.mem_cons.mp hb with rfl | hb
      · exact List.mem_cons_self ..
      · exact List.mem_cons_of_mem _ (ih k b hb)
    · cases k with
      | zero => rw [utf8Prefix_zero_cons_start c t hc] at hb; cases hb
      | succ k =>
        rw [utf8Prefix_succ_cons_start k c t hc] at hb
        rcases List.mem_cons.mp hb with rfl | hb
        · exact List.mem_cons_self ..
        · exact List.mem_cons_of_mem _ (ih k b hb)

theorem nodup_map_of_injOn {α β : Type} (f : α → β) (m : List α)
    (hinj : ∀ a ∈ m, ∀ b ∈ m, f a = f b → a = b) (h : m.Nodup) : (m.map f).Nodup := by
  induction m with
  | nil => exact List.nodup_nil
  | cons a t ih =>
    rw [List.nodup_cons] at h
    rw [List.map_cons, List.nodup_cons]
    refine ⟨?_, ih (fun x hx y hy => hinj x (List.mem_cons_of_mem _ hx) y (List.mem_cons_of_mem _ hy)) h.2⟩
    intro hmem
    obtain ⟨b, hb, hfb⟩ := List.mem_map.mp hmem
    have : b = a := hinj b (List.mem_cons_of_mem _ hb) a (List.mem_cons_self ..) hfb
    exact h.1 (this ▸ hb)

/-- **completeness of `prefixNodupCheck`** -/
theorem prefixNodupCheck_complete (k : Nat) (l : List Nat) (hl : l.length ≤ 2 ^ 64)
    (h : (l.map (fun w => utf8Prefix k (wordBytesNat w))).Nodup) : prefixNodupCheck k l = true := by
  unfold prefixNodupCheck
  apply nodupCheck_complete
  · rw [mapR_eq_map, List.length_map]; exact hl
  · rw [mapR_eq_map]
    have h2 : l.map (prefixKey k)
        = (l.map (fun w => utf8Prefix k (wordBytesNat w))).map encodeBytes := by
      rw [List.map_map]
      apply List.map_congr_left
      intro w _
      exact prefixKey_eq k w
    rw [h2]
    apply nodup_map_of_injOn _ _ _ h
    intro a ha b hb hab
    obtain ⟨w, _, rfl⟩ := List.mem_map.mp ha
    obtain ⟨v, _, rfl⟩ := List.mem_map.mp hb
    exact encodeBytes_injective _ _
      (fun x hx => wordBytesNat_lt w x (mem_of_mem_utf8Prefix k _ x hx))
      (fun x hx => wordBytesNat_lt v x (mem_of_mem_utf8Prefix k _ x hx)) hab

theorem prefixNodupCheck_iff (k : Nat) (l : List Nat) (hl : l.length ≤ 2 ^ 64) :
    prefixNodupCheck k l = true ↔ (l.map (fun w => utf8Prefix k (wordBytesNat w))).Nodup :=
  ⟨prefixNodupCheck_sound k l, prefixNodupCheck_complete k l hl⟩

/-- a `false` answer refutes the unique-prefix claim -/
theorem not_prefix_nodup_of_check_eq_false (k : Nat) (l : List Nat) (hl : l.length ≤ 2 ^ 64)
    (h : prefixNodupCheck k l = false) :
    ¬ (l.map (fun w => utf8Prefix k (wordBytesNat w))).Nodup := by
  intro hn
  rw [prefixNodupCheck_complete k l hl hn] at h
  cases h

/-! ### link to `String` (specification level; strings are never evaluated in the kernel) -/

/-- the UTF-8 bytes of a string as numbers -/
def utf8Bytes (s : String) : List Nat := s.toUTF8.data.toList.map UInt8.toNat

theorem utf8Bytes_lt (s : String) : ∀ b ∈ utf8Bytes s, b < 256 := by
  intro b hb
  obtain ⟨u, _, rfl⟩ := List.mem_map.mp hb
  exact UInt8.toNat_lt u

theorem utf8Bytes_injective (s t : String) (h : utf8Bytes s = utf8Bytes t) : s = t := by
  have h1 : s.toUTF8.data.toList = t.toUTF8.data.toList :=
    (List.map_inj_right (fun a b hab => UInt8.toNat_inj.mp hab)).mp h
  exact String.toByteArray_inj.mp (ByteArray.ext (Array.toList_inj.mp h1))

/-- the table entry of a word: Python `int.from_bytes(b"\x01" + w.encode("utf-8"), "big")` -/
noncomputable def encodeWord (s : String) : Nat := encodeBytes (utf8Bytes s)

theorem wordBytesNat_encodeWord (s : String) : wordBytesNat (encodeWord s) = utf8Bytes s :=
  wordBytesNat_encodeBytes _ (utf8Bytes_lt s)

theorem encodeWord_injective (s t : String) (h : encodeWord s = encodeWord t) : s = t :=
  utf8Bytes_injective s t (encodeBytes_injective _ _ (utf8Bytes_lt s) (utf8Bytes_lt t) h)

/-! ### sanity vectors (values computed with Python, NFKD forms as in the bip_utils lists) -/

-- "académie" (NFKD: `e` + U+0301): bytes, 4 / 5 / 6 code points, re-encoded 4-prefix
example : wordBytesNat 1668828613962330375285093 = [97, 99, 97, 100, 101, 204, 129, 109, 105, 101] := by
  decide +kernel
example : utf8Prefix 4 (wordBytesNat 1668828613962330375285093) = [97, 99, 97, 100] := by
  decide +kernel
example : utf8Prefix 5 (wordBytesNat 1668828613962330375285093) = [97, 99, 97, 100, 101] := by
  decide +kernel
example : utf8Prefix 6 (wordBytesNat 1668828613962330375285093) = [97, 99, 97, 100, 101, 204, 129] := by
  decide +kernel
example : utf8Prefix 0 (wordBytesNat 1668828613962330375285093) = [] := by decide +kernel
example : utf8Prefix 99 (wordBytesNat 1668828613962330375285093)
    = [97, 99, 97, 100, 101, 204, 129, 109, 105, 101] := by decide +kernel
example : prefixKey 4 1668828613962330375285093 = 5928870244 := by decide +kernel
-- "가격" (NFKD: five jamo of three bytes each), first two code points
example : prefixKey 2 2500182278023414740534765660179367592 = 529434190906785 := by decide +kernel
example : nodupCheck [5, 3, 9, 1, 7] = true := by decide +kernel
example : nodupCheck [5, 3, 9, 5, 7] = false := by decide +kernel
example : msort [5, 3, 9, 1, 7, 3] = [1, 3, 3, 5, 7, 9] := by decide +kernel

end BipVerif.Table
