/-
Bech32 / Bech32m (SegWit) / CashAddr: decoding an encoding gives the input back.
Built on `ConvertBits.lean` (bit regrouping) and `Polymod.lean` (checksum identities).
-/
import BipVerif.Lemmas.ConvertBits
import BipVerif.Lemmas.Polymod
import BipVerif.Lemmas.Chunks

namespace BipVerif.Model
open BipVerif

/-! ### characters -/

/-- a character that `asciiCase` does not regard as upper case. -/
def NotUpper (c : Char) : Prop := ¬ ('A' ≤ c ∧ c ≤ 'Z') ∧ c.toNat ≠ 0x212A

/-- the HRPs for which the round trip holds: non-empty, printable ASCII `[33,126]`, no `A`–`Z`. -/
def ValidHrp (hrp : List Char) : Prop :=
  hrp ≠ [] ∧ ∀ c ∈ hrp, 33 ≤ c.toNat ∧ c.toNat ≤ 126 ∧ ¬ ('A' ≤ c ∧ c ≤ 'Z')

theorem isUpper_of_notUpper (c : Char) (h : NotUpper c) : asciiCase.isUpper c = false := by
  simp only [asciiCase, decide_eq_false_iff_not]
  intro hc
  rcases hc with hc | hc
  · exact h.1 hc
  · exact h.2 hc

theorem lower_of_notUpper (c : Char) (h : NotUpper c) : asciiCase.lower c = [c] := by
  simp only [asciiCase]
  rw [if_neg h.1, if_neg h.2]

theorem charset_notUpper : ∀ c ∈ bech32Charset, NotUpper c := by
  unfold NotUpper; decide

theorem charset_nodup : bech32Charset.Nodup := by decide

theorem charset_length : bech32Charset.length = 32 := by decide

theorem sep_notUpper (k : BechKind) : NotUpper k.sep := by
  cases k <;> (unfold NotUpper BechKind.sep; decide)

theorem sep_not_mem_charset (k : BechKind) : k.sep ∉ bech32Charset := by
  cases k <;> (unfold BechKind.sep; decide)

theorem hrp_notUpper (hrp : List Char) (h : ValidHrp hrp) : ∀ c ∈ hrp, NotUpper c := by
  intro c hc
  obtain ⟨_, h2, h3⟩ := h.2 c hc
  exact ⟨h3, by omega⟩

theorem any_isUpper_false (s : List Char) (h : ∀ c ∈ s, NotUpper c) :
    s.any asciiCase.isUpper = false := by
  rw [List.any_eq_false]
  intro c hc
  simp [isUpper_of_notUpper c (h c hc)]

theorem flatMap_lower (s : List Char) (h : ∀ c ∈ s, NotUpper c) :
    s.flatMap asciiCase.lower = s := by
  induction s with
  | nil => rfl
  | cons a t ih =>
    rw [List.flatMap_cons, lower_of_notUpper a (h a (by simp)), ih (fun c hc => h c (by simp [hc]))]
    rfl

/-! ### alphabet lookups -/

theorem getD_mem_charset (x : Nat) (hx : x < 32) : bech32Charset.getD x '?' ∈ bech32Charset := by
  have hx' : x < bech32Charset.length := by rw [charset_length]; exact hx
  rw [List.getD_eq_getElem?_getD, List.getElem?_eq_getElem hx']
  exact List.getElem_mem hx'

theorem idxOf?_getD_charset (x : Nat) (hx : x < 32) :
    bech32Charset.idxOf? (bech32Charset.getD x '?') = some x := by
  have hx' : x < bech32Charset.length := by rw [charset_length]; exact hx
  have hget : bech32Charset.getD x '?' = bech32Charset[x] := by
    simp [List.getD_eq_getElem?_getD, hx']
  rw [hget, List.idxOf?, List.findIdx?_eq_some_iff_getElem]
  refine ⟨hx', by simp, ?_⟩
  intro j hj
  simp only [beq_iff_eq]
  intro h
  have := (List.Nodup.getElem_inj_iff charset_nodup (hi := by omega) (hj := hx')).mp h
  omega

theorem map_idxOf?_map_getD (d : List Nat) (hd : ∀ x ∈ d, x < 32) :
    (d.map (fun x => bech32Charset.getD x '?')).map
      (fun x => (bech32Charset.idxOf? x).getD 0) = d := by
  induction d with
  | nil => rfl
  | cons a t ih =>
    simp only [List.map_cons]
    rw [idxOf?_getD_charset a (hd a (by simp))]
    simp only [List.map_map] at ih
    simp only [List.map_map, Option.getD_some]
    rw [ih (fun x hx => hd x (by simp [hx]))]

/-! ### `rfind` -/

theorem idxOf?_append_of_not_mem (sep : Char) (l r : List Char) (h : sep ∉ l) :
    (l ++ sep :: r).idxOf? sep = some l.length := by
  induction l with
  | nil => simp [List.idxOf?_cons]
  | cons a t ih =>
    have hne : ¬ a = sep := fun e => h (by simp [e])
    have ht : sep ∉ t := fun e => h (by simp [e])
    rw [List.cons_append, List.idxOf?_cons, ih ht]
    simp [hne]

theorem rfind_append (sep : Char) (a b : List Char) (h : sep ∉ b) :
    rfind (a ++ [sep] ++ b) sep = some a.length := by
  unfold rfind
  have hr : (a ++ [sep] ++ b).reverse = b.reverse ++ sep :: a.reverse := by simp
  rw [hr, idxOf?_append_of_not_mem sep b.reverse a.reverse (by simpa using h)]
  simp only [List.length_append, List.length_cons, List.length_nil, List.length_reverse]
  congr 1
  omega

/-- every symbol of the charset and both separators are ASCII -/
theorem charset_ascii : ∀ c ∈ bech32Charset, c.toNat < 128 := by decide

theorem sep_ascii (k : BechKind) : k.sep.toNat < 128 := by cases k <;> decide

theorem any_nonAscii_false (k : BechKind) (hrp chars : List Char) (hv : ValidHrp hrp)
    (hc : ∀ c ∈ chars, c ∈ bech32Charset) :
    ((hrp ++ [k.sep] ++ chars).any fun c => decide (c.toNat ≥ 128)) = false := by
  rw [List.any_eq_false]
  intro c hcm
  simp only [List.mem_append, List.mem_singleton] at hcm
  simp only [decide_eq_true_eq, not_le]
  rcases hcm with (h | h) | h
  · have := (hv.2 c h).2.1; omega
  · rw [h]; exact sep_ascii k
  · exact charset_ascii c (hc c h)

/-! ### raw round trip -/

/-- decoding `hrp ++ sep ++ symbols` where the symbols `d` already carry a valid checksum. -/
theorem bechDecodeRaw_of_verify (k : BechKind) (hrp : List Char) (d : List Nat)
    (hv : ValidHrp hrp) (hd : ∀ x ∈ d, x < 32) (hlen : k.ckLen + 1 ≤ d.length)
    (hver : k.verify hrp d = true) :
    bechDecodeRaw asciiCase k (hrp ++ [k.sep] ++ d.map (fun x => bech32Charset.getD x '?'))
      = .ok (hrp, dropLast d k.ckLen) := by
  set chars := d.map (fun x => bech32Charset.getD x '?') with hchars
  set s := hrp ++ [k.sep] ++ chars with hs
  have hcmem : ∀ c ∈ chars, c ∈ bech32Charset := by
    intro c hc
    simp only [hchars, List.mem_map] at hc
    obtain ⟨x, hx, rfl⟩ := hc
    exact getD_mem_charset x (hd x hx)
  have hnu : ∀ c ∈ s, NotUpper c := by
    intro c hc
    simp only [hs, List.mem_append, List.mem_singleton] at hc
    rcases hc with (hc | hc) | hc
    · exact hrp_notUpper hrp hv c hc
    · rw [hc]; exact sep_notUpper k
    · exact charset_notUpper c (hcmem c hc)
  have hU : s.any asciiCase.isUpper = false := any_isUpper_false s hnu
  have hA : (s.any fun c => decide (c.toNat ≥ 128)) = false := any_nonAscii_false k hrp chars hv hcmem
  have hL : s.flatMap asciiCase.lower = s := flatMap_lower s hnu
  have hR : rfind s k.sep = some hrp.length :=
    rfind_append k.sep hrp chars (fun h => sep_not_mem_charset k (hcmem _ h))
  have hT : s.take hrp.length = hrp := by simp [hs]
  have hD : s.drop (hrp.length + 1) = chars := by
    simp [hs]
  have hne : (hrp.length = 0) = False := by
    have := List.length_pos_iff.mpr hv.1
    exact eq_false (by omega)
  have hany : (hrp.any fun x => decide (x.toNat < 33) || decide (x.toNat > 126)) = false := by
    rw [List.any_eq_false]
    intro c hc
    obtain ⟨h1, h2, _⟩ := hv.2 c hc
    simp; omega
  have hclen : (chars.length < k.ckLen + 1) = False := by
    have : chars.length = d.length := by simp [hchars]
    exact eq_false (by omega)
  have hall : (chars.all fun x => bech32Charset.contains x) = true := by
    rw [List.all_eq_true]
    intro c hc
    simpa using hcmem c hc
  have hmap : chars.map (fun x => (bech32Charset.idxOf? x).getD 0) = d :=
    map_idxOf?_map_getD d hd
  unfold bechDecodeRaw
  simp only [hA, hU, hL, hR, Bool.and_false, Bool.or_false, Bool.false_eq_true, if_false, pure_bind,
    hT, hD, hne, hany, hclen, hall, hmap, hver, decide_false, Bool.not_true]
  rfl

/-- a data part with fewer than `ckLen + 1` symbols is rejected with `ValueError`. -/
theorem bechDecodeRaw_short (k : BechKind) (hrp : List Char) (d : List Nat)
    (hv : ValidHrp hrp) (hd : ∀ x ∈ d, x < 32) (hlen : d.length < k.ckLen + 1) :
    bechDecodeRaw asciiCase k (hrp ++ [k.sep] ++ d.map (fun x => bech32Charset.getD x '?'))
      = .error .value := by
  set chars := d.map (fun x => bech32Charset.getD x '?') with hchars
  set s := hrp ++ [k.sep] ++ chars with hs
  have hcmem : ∀ c ∈ chars, c ∈ bech32Charset := by
    intro c hc
    simp only [hchars, List.mem_map] at hc
    obtain ⟨x, hx, rfl⟩ := hc
    exact getD_mem_charset x (hd x hx)
  have hnu : ∀ c ∈ s, NotUpper c := by
    intro c hc
    simp only [hs, List.mem_append, List.mem_singleton] at hc
    rcases hc with (hc | hc) | hc
    · exact hrp_notUpper hrp hv c hc
    · rw [hc]; exact sep_notUpper k
    · exact charset_notUpper c (hcmem c hc)
  have hU : s.any asciiCase.isUpper = false := any_isUpper_false s hnu
  have hA : (s.any fun c => decide (c.toNat ≥ 128)) = false := any_nonAscii_false k hrp chars hv hcmem
  have hL : s.flatMap asciiCase.lower = s := flatMap_lower s hnu
  have hR : rfind s k.sep = some hrp.length :=
    rfind_append k.sep hrp chars (fun h => sep_not_mem_charset k (hcmem _ h))
  have hT : s.take hrp.length = hrp := by simp [hs]
  have hD : s.drop (hrp.length + 1) = chars := by
    simp [hs]
  have hne : (hrp.length = 0) = False := by
    have := List.length_pos_iff.mpr hv.1
    exact eq_false (by omega)
  have hany : (hrp.any fun x => decide (x.toNat < 33) || decide (x.toNat > 126)) = false := by
    rw [List.any_eq_false]
    intro c hc
    obtain ⟨h1, h2, _⟩ := hv.2 c hc
    simp; omega
  have hclen : (chars.length < k.ckLen + 1) = True := by
    have : chars.length = d.length := by simp [hchars]
    exact eq_true (by omega)
  have hall : (chars.all fun x => bech32Charset.contains x) = true := by
    rw [List.all_eq_true]
    intro c hc
    simpa using hcmem c hc
  have hmap : chars.map (fun x => (bech32Charset.idxOf? x).getD 0) = d :=
    map_idxOf?_map_getD d hd
  unfold bechDecodeRaw
  simp only [hA, hU, hL, hR, Bool.and_false, Bool.or_false, Bool.false_eq_true, if_false, pure_bind,
    hT, hD, hne, hany, hclen, decide_false, decide_true, Bool.true_or, if_true]
  rfl

theorem length_checksum (k : BechKind) (hrp : List Char) (data : List Nat) :
    (k.checksum hrp data).length = k.ckLen := by
  cases k <;> simp [BechKind.checksum, BechKind.ckLen, length_bech32Checksum, length_bchChecksum]

theorem checksum_lt (k : BechKind) (hrp : List Char) (data : List Nat) :
    ∀ x ∈ k.checksum hrp data, x < 32 := by
  cases k
  · exact bech32Checksum_lt hrp data _
  · exact bech32Checksum_lt hrp data _
  · exact bchChecksum_lt hrp data

/-- data followed by its checksum verifies, for all three flavours (SegWit chooses Bech32 or
Bech32m from the first data symbol, which is why `data` must be non-empty there). -/
theorem verify_checksum (k : BechKind) (hrp : List Char) (data : List Nat) (hne : data ≠ []) :
    k.verify hrp (data ++ k.checksum hrp data) = true := by
  cases k
  · exact bech32Verify_checksum hrp data false
  · have hh : (data ++ bech32Checksum hrp data (data.head? != some 0)).head? = data.head? := by
      cases data with
      | nil => exact absurd rfl hne
      | cons a t => rfl
    simp only [BechKind.verify, BechKind.checksum, hh]
    exact bech32Verify_checksum hrp data _
  · exact bchVerify_checksum hrp data

theorem dropLast_append_length {α} (a b : List α) : dropLast (a ++ b) b.length = a := by
  simp [dropLast]

/-- **2. Raw round trip** for Bech32, SegWit (Bech32 / Bech32m) and CashAddr.
`data ≠ []` is necessary: `_DecodeBech32` rejects a data part that consists of the checksum only. -/
theorem bechDecodeRaw_encodeRaw (k : BechKind) (hrp : List Char) (data : List Nat)
    (hv : ValidHrp hrp) (hd : ∀ x ∈ data, x < 32) (hne : data ≠ []) :
    bechDecodeRaw asciiCase k (bechEncodeRaw k hrp data) = .ok (hrp, data) := by
  unfold bechEncodeRaw
  simp only []
  have hlen : k.ckLen + 1 ≤ (data ++ k.checksum hrp data).length := by
    have := List.length_pos_iff.mpr hne
    rw [List.length_append, length_checksum]; omega
  rw [bechDecodeRaw_of_verify k hrp (data ++ k.checksum hrp data) hv
    (by
      intro x hx
      rcases List.mem_append.mp hx with h | h
      · exact hd x h
      · exact checksum_lt k hrp data x h)
    hlen (verify_checksum k hrp data hne)]
  rw [← length_checksum k hrp data, dropLast_append_length]

/-- the empty data part does not round-trip: the decoder wants at least one data symbol. -/
theorem bechDecodeRaw_encodeRaw_nil (k : BechKind) (hrp : List Char) (hv : ValidHrp hrp) :
    bechDecodeRaw asciiCase k (bechEncodeRaw k hrp []) = .error .value := by
  unfold bechEncodeRaw
  simp only [List.nil_append]
  exact bechDecodeRaw_short k hrp _ hv (checksum_lt k hrp []) (by rw [length_checksum]; omega)

/-! ### 3. the public coders -/

theorem regroup_8_5_ne_nil (data : List Nat) (h : data ≠ []) : regroup 8 5 data ≠ [] := by
  intro e
  have h1 := length_regroup_8_5 data
  have h2 := List.length_pos_iff.mpr h
  rw [e] at h1
  simp at h1
  omega

theorem bytesToNats_ne_nil (b : Bytes) (h : b ≠ []) : bytesToNats b ≠ [] := by
  simpa [bytesToNats] using h

theorem natsToBytes_bytesToNats (b : Bytes) : natsToBytes (bytesToNats b) = b :=
  uint8_ofNat_toNat_map b

/-- **Bech32 round trip** (non-empty payload; the empty one is rejected by the decoder). -/
theorem bech32_decode_encode (hrp : List Char) (hv : ValidHrp hrp) (b : Bytes) (hb : b ≠ []) :
    (bech32Encode hrp b >>= bech32Decode asciiCase hrp) = .ok b := by
  have henc : bech32Encode hrp b
      = .ok (bechEncodeRaw .bech32 hrp (regroup 8 5 (bytesToNats b))) := by
    unfold bech32Encode; rw [toBase32_eq]; rfl
  rw [henc]
  show bech32Decode asciiCase hrp _ = _
  unfold bech32Decode
  rw [bechDecodeRaw_encodeRaw .bech32 hrp _ hv (regroup_lt 8 5 _)
    (regroup_8_5_ne_nil _ (bytesToNats_ne_nil b hb))]
  simp only [bind, Except.bind, fromBase32_regroup, bne_self_eq_false, Bool.false_eq_true, if_false,
    natsToBytes_bytesToNats]
  rfl

/-- **SegWit round trip** (witness version ≤ 16, program of 2..40 bytes, 20 or 32 for version 0). -/
theorem segwit_decode_encode (hrp : List Char) (hv : ValidHrp hrp) (witVer : Nat) (prog : Bytes)
    (hw : witVer ≤ 16) (h2 : 2 ≤ prog.length) (h40 : prog.length ≤ 40)
    (h0 : witVer = 0 → prog.length = 20 ∨ prog.length = 32) :
    (segwitEncode hrp witVer prog >>= segwitDecode asciiCase hrp) = .ok (witVer, prog) := by
  have henc : segwitEncode hrp witVer prog
      = .ok (bechEncodeRaw .segwit hrp (witVer :: regroup 8 5 (bytesToNats prog))) := by
    unfold segwitEncode; rw [toBase32_eq]; rfl
  rw [henc]
  show segwitDecode asciiCase hrp _ = _
  unfold segwitDecode
  rw [bechDecodeRaw_encodeRaw .segwit hrp _ hv
    (by
      intro x hx
      rcases List.mem_cons.mp hx with rfl | hx
      · omega
      · exact regroup_lt 8 5 _ x hx)
    (by simp)]
  have hlen : (bytesToNats prog).length = prog.length := by simp [bytesToNats]
  have c1 : (decide ((bytesToNats prog).length < 2) || decide ((bytesToNats prog).length > 40))
      = false := by
    rw [hlen]; simp; omega
  have c2 : (decide (witVer = 0) &&
      !(decide ((bytesToNats prog).length = 20) || decide ((bytesToNats prog).length = 32)))
      = false := by
    rw [hlen]
    by_cases hz : witVer = 0
    · rcases h0 hz with h | h <;> simp [h]
    · simp [hz]
  have c3 : (witVer > 16) = False := eq_false (by omega)
  simp only [bind, Except.bind, List.drop_one, List.tail_cons, fromBase32_regroup,
    bne_self_eq_false, Bool.false_eq_true, if_false, pyIdx, List.getElem?_cons_zero, c1,
    natsToBytes_bytesToNats, pure, Except.pure, c2, c3]

theorem toBytesAuto_byte (nv : UInt8) : toBytesAuto nv.toNat = [nv] := by
  have h := natToBytesMin_toNatBE [nv]
  have hv : Bytes.toNatBE [nv] = nv.toNat := by simp [Bytes.toNatBE]
  rw [hv] at h
  unfold toBytesAuto
  simp only [h]
  by_cases hz : nv = 0
  · subst hz; rfl
  · have : (nv == 0) = false := by simpa using hz
    simp [this]

/-- **CashAddr round trip** (one-byte net version, arbitrary payload). -/
theorem bch_decode_encode (hrp : List Char) (hv : ValidHrp hrp) (nv : UInt8) (data : Bytes) :
    (bchEncode hrp [nv] data >>= bchDecode asciiCase hrp) = .ok ([nv], data) := by
  have henc : bchEncode hrp [nv] data
      = .ok (bechEncodeRaw .bch hrp (regroup 8 5 (bytesToNats ([nv] ++ data)))) := by
    unfold bchEncode; rw [toBase32_eq]; rfl
  rw [henc]
  show bchDecode asciiCase hrp _ = _
  unfold bchDecode
  rw [bechDecodeRaw_encodeRaw .bch hrp _ hv (regroup_lt 8 5 _)
    (regroup_8_5_ne_nil _ (bytesToNats_ne_nil _ (by simp)))]
  have hcons : bytesToNats ([nv] ++ data) = nv.toNat :: bytesToNats data := rfl
  simp only [bind, Except.bind, fromBase32_regroup, bne_self_eq_false, Bool.false_eq_true, if_false]
  simp only [hcons, pyIdx, List.getElem?_cons_zero, List.drop_one, List.tail_cons,
    natsToBytes_bytesToNats, pure, Except.pure, toBytesAuto_byte]

/-- the empty byte string is encodable but its encoding is rejected by the decoder. -/
theorem bech32_decode_encode_nil (hrp : List Char) (hv : ValidHrp hrp) :
    (bech32Encode hrp [] >>= bech32Decode asciiCase hrp) = .error .value := by
  have henc : bech32Encode hrp [] = .ok (bechEncodeRaw .bech32 hrp []) := by
    unfold bech32Encode; rw [toBase32_eq]; rfl
  rw [henc]
  show bech32Decode asciiCase hrp _ = _
  unfold bech32Decode
  rw [bechDecodeRaw_encodeRaw_nil .bech32 hrp hv]
  rfl

/-! ### soundness: an accepted string, lower-cased, is the encoding of its parse -/

/-- `bechDecodeRaw` in flat form. -/
def bechDecodeRawFlat (U : CaseOracle) (k : BechKind) (s : List Char) : R (List Char × List Nat) :=
  if (s.any fun c => decide (c.toNat ≥ 128)) = true then .error .value
  else if (s.any U.isLower && s.any U.isUpper) = true then .error .value
  else match rfind (s.flatMap U.lower) k.sep with
    | none => .error .value
    | some p =>
      let hrp := (s.flatMap U.lower).take p
      let dp := (s.flatMap U.lower).drop (p + 1)
      if (hrp.length = 0 || hrp.any (fun x => x.toNat < 33 || x.toNat > 126)) = true then .error .value
      else if (dp.length < k.ckLen + 1 || !(dp.all (fun x => bech32Charset.contains x))) = true then
        .error .value
      else if (!(k.verify hrp (dp.map (fun x => (bech32Charset.idxOf? x).getD 0)))) = true then
        .error .checksum
      else .ok (hrp, dropLast (dp.map (fun x => (bech32Charset.idxOf? x).getD 0)) k.ckLen)

theorem bechDecodeRaw_eq_flat (U : CaseOracle) (k : BechKind) (s : List Char) :
    bechDecodeRaw U k s = bechDecodeRawFlat U k s := by
  unfold bechDecodeRaw bechDecodeRawFlat
  simp only [Bool.or_false]
  cases hA : (s.any fun c => decide (c.toNat ≥ 128))
  case true => rfl
  cases hM : (s.any U.isLower && s.any U.isUpper)
  case true => rfl
  · simp only [Bool.false_eq_true, if_false, bind, Except.bind, pure, Except.pure]
    cases rfind (s.flatMap U.lower) k.sep with
    | none => rfl
    | some p =>
      simp only
      split
      · rfl
      · split
        · rfl
        · split <;> rfl

/-- `rfind` returns a position that holds the separator. -/
theorem rfind_some {s : List Char} {sep : Char} {p : Nat} (h : rfind s sep = some p) :
    s = s.take p ++ [sep] ++ s.drop (p + 1) := by
  unfold rfind at h
  cases hi : s.reverse.idxOf? sep with
  | none => rw [hi] at h; cases h
  | some i =>
    rw [hi] at h
    have hp : p = s.length - 1 - i := by cases h; rfl
    rw [List.idxOf?, List.findIdx?_eq_some_iff_getElem] at hi
    obtain ⟨hlt, heq, _⟩ := hi
    rw [List.length_reverse] at hlt
    have hget : s[s.length - 1 - i]'(by omega) = sep := by
      rw [List.getElem_reverse] at heq
      simpa using heq
    have hplt : p < s.length := by omega
    conv_lhs => rw [← List.take_append_drop p s, List.drop_eq_getElem_cons hplt]
    subst hp
    rw [hget]
    simp

/-- on charset symbols, symbol → index → symbol is the identity, and indices are below 32. -/
theorem charset_idx_getD {c : Char} (h : c ∈ bech32Charset) :
    bech32Charset.getD ((bech32Charset.idxOf? c).getD 0) '?' = c ∧
      (bech32Charset.idxOf? c).getD 0 < 32 := by
  obtain ⟨i, hi, hci⟩ := List.mem_iff_getElem.mp h
  have hi32 : i < 32 := by rw [charset_length] at hi; exact hi
  have hg : bech32Charset.getD i '?' = c := by
    simp [List.getD_eq_getElem?_getD, hi, hci]
  have := idxOf?_getD_charset i hi32
  rw [hg] at this
  rw [this]
  exact ⟨hg, hi32⟩

theorem map_getD_map_idxOf? (dp : List Char) (h : ∀ c ∈ dp, c ∈ bech32Charset) :
    (dp.map (fun x => (bech32Charset.idxOf? x).getD 0)).map (fun x => bech32Charset.getD x '?') = dp := by
  induction dp with
  | nil => rfl
  | cons a t ih =>
    simp only [List.map_cons]
    rw [(charset_idx_getD (h a (by simp))).1, ih (fun c hc => h c (by simp [hc]))]

/-- **checksum uniqueness** for the three flavours: trailing symbols that make a non-empty data
part verify are its checksum. -/
theorem verify_unique (k : BechKind) (hrp : List Char) (data t : List Nat) (hne : data ≠ [])
    (hl : t.length = k.ckLen) (ht : ∀ x ∈ t, x < 32) (h : k.verify hrp (data ++ t) = true) :
    t = k.checksum hrp data := by
  cases k
  · exact bech32Verify_unique hrp data t false hl ht h
  · have hh : (data ++ t).head? = data.head? := by
      cases data with
      | nil => exact absurd rfl hne
      | cons a r => rfl
    simp only [BechKind.verify, hh] at h
    exact bech32Verify_unique hrp data t _ hl ht h
  · exact bchVerify_unique hrp data t hl ht h

/-- **Bech32 / SegWit / CashAddr soundness** (any case oracle): an accepted string, lower-cased, is
exactly the encoding of the returned HRP and data — in particular its checksum symbols are the
checksum of the returned parse and no other spelling is accepted. -/
theorem bechDecodeRaw_sound (U : CaseOracle) (k : BechKind) {s hrp : List Char} {data : List Nat}
    (h : bechDecodeRaw U k s = .ok (hrp, data)) : bechEncodeRaw k hrp data = s.flatMap U.lower := by
  rw [bechDecodeRaw_eq_flat] at h
  unfold bechDecodeRawFlat at h
  split at h
  · cases h
  split at h
  · cases h
  · cases hr : rfind (s.flatMap U.lower) k.sep with
    | none => rw [hr] at h; cases h
    | some p =>
      rw [hr] at h
      simp only at h
      set s' := s.flatMap U.lower with hs'
      set dp := s'.drop (p + 1) with hdp
      set intData := dp.map (fun x => (bech32Charset.idxOf? x).getD 0) with hint
      split at h
      · cases h
      · split at h
        · cases h
        · rename_i hc3
          split at h
          · cases h
          · rename_i hc4
            have hhrp : hrp = s'.take p := by cases h; rfl
            have hdata : data = dropLast intData k.ckLen := by cases h; rfl
            simp only [Bool.or_eq_true, decide_eq_true_eq, Bool.not_eq_true', not_or,
              Bool.not_eq_false] at hc3
            obtain ⟨hlen, hall⟩ := hc3
            have hver : k.verify (s'.take p) intData = true := by simpa using hc4
            have hmem : ∀ c ∈ dp, c ∈ bech32Charset := by
              intro c hc
              have := List.all_eq_true.mp hall c hc
              simpa using this
            have hilen : intData.length = dp.length := by rw [hint, List.length_map]
            have hlt : ∀ x ∈ intData, x < 32 := by
              intro x hx
              rw [hint, List.mem_map] at hx
              obtain ⟨c, hc, rfl⟩ := hx
              exact (charset_idx_getD (hmem c hc)).2
            have hsplit := dropLast_append_takeLast intData k.ckLen
            have htl : (takeLast intData k.ckLen).length = k.ckLen := by
              unfold takeLast; rw [List.length_drop]; omega
            have hdne : dropLast intData k.ckLen ≠ [] := by
              intro e
              have := congrArg List.length e
              unfold dropLast at this
              rw [List.length_take] at this
              simp at this
              omega
            rw [← hsplit] at hver
            have huniq := verify_unique k (s'.take p) _ _ hdne htl
              (fun x hx => hlt x (by unfold takeLast at hx; exact List.mem_of_mem_drop hx)) hver
            unfold bechEncodeRaw
            simp only
            rw [hhrp, hdata, ← huniq, hsplit, hint, map_getD_map_idxOf? dp hmem, hdp]
            exact (rfind_some hr).symm

/-- the requested form for the library's (ASCII + KELVIN SIGN) case table. -/
theorem bech_decode_sound (k : BechKind) {s hrp : List Char} {data : List Nat}
    (h : bechDecodeRaw asciiCase k s = .ok (hrp, data)) :
    bechEncodeRaw k hrp data = s.flatMap asciiCase.lower :=
  bechDecodeRaw_sound asciiCase k h

end BipVerif.Model
