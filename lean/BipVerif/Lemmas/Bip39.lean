/-
BIP-39 mnemonic codec: the model's bit-string manipulations (`bin(...)`, `zfill`, slices,
`int(s, 2)`) are arithmetic on the integer `entropy ‖ checksum`; encode and decode are mutually
inverse, the decoder accepts exactly the sentences of the BIP-39 definition and its errors are
`ValueError` / `MnemonicChecksumError` only.
-/
import Mathlib.Tactic.Ring
import BipVerif.Lemmas.IntBytes
import BipVerif.Lemmas.Chunks
import BipVerif.Lemmas.ConvertBits
import BipVerif.Model.Bip39

namespace BipVerif.Model
open BipVerif

/-! ### arithmetic helpers -/

theorem div_mod_of_eq {V A P C : Nat} (h : V = A * P + C) (hC : C < P) : V / P = A ∧ V % P = C := by
  subst h
  constructor
  · rw [Nat.add_comm, Nat.add_mul_div_right _ _ (by omega), Nat.div_eq_of_lt hC, Nat.zero_add]
  · rw [Nat.add_comm, Nat.add_mul_mod_self_right, Nat.mod_eq_of_lt hC]

theorem pow_2048 (n : Nat) : 2048 ^ n = 2 ^ (11 * n) := by
  rw [Nat.pow_mul]

theorem pow_256 (n : Nat) : 256 ^ n = 2 ^ (8 * n) := by
  rw [Nat.pow_mul]

/-! ### bit strings are determined by length and value -/

theorem ofBinStr_eq_ofBitsBE (l : List Bool) : ofBinStr l = ofBitsBE l := by
  unfold ofBinStr ofBitsBE
  congr 1
  funext a b
  cases b <;> simp <;> omega

theorem ofBinStr_lt (l : List Bool) : ofBinStr l < 2 ^ l.length := by
  rw [ofBinStr_eq_ofBitsBE]; exact ofBitsBE_lt l

theorem ofBinStr_bitsBE (w n : Nat) : ofBinStr (bitsBE w n) = n % 2 ^ w := by
  rw [ofBinStr_eq_ofBitsBE]; exact ofBitsBE_bitsBE w n

theorem ofBinStr_bitsBE_of_lt {w n : Nat} (h : n < 2 ^ w) : ofBinStr (bitsBE w n) = n := by
  rw [ofBinStr_bitsBE, Nat.mod_eq_of_lt h]

theorem bitsBE_ofBinStr (l : List Bool) : bitsBE l.length (ofBinStr l) = l := by
  rw [ofBinStr_eq_ofBitsBE]; exact bitsBE_ofBitsBE l

/-- a bit string is its length and its value -/
theorem bits_ext {a b : List Bool} (hl : a.length = b.length) (hv : ofBinStr a = ofBinStr b) :
    a = b := by
  rw [← bitsBE_ofBinStr a, ← bitsBE_ofBinStr b, hl, hv]

theorem eq_bitsBE {l : List Bool} {w v : Nat} (hl : l.length = w) (hv : ofBinStr l = v) :
    l = bitsBE w v := by
  rw [← bitsBE_ofBinStr l, hl, hv]

/-- `bin(v)[2:].zfill(w)` for a value that fits in `w ≥ 1` bits -/
theorem toBinStr_eq_bitsBE {v w : Nat} (hw : 1 ≤ w) (h : v < 2 ^ w) : toBinStr v w = bitsBE w v :=
  eq_bitsBE (toBinStr_length_of_lt hw h) (ofBinStr_toBinStr v w)

/-- `int(s[:k], 2)` -/
theorem ofBinStr_take (l : List Bool) (k : Nat) :
    ofBinStr (l.take k) = ofBinStr l / 2 ^ (l.length - k) := by
  have h := ofBinStr_append (l.take k) (l.drop k)
  rw [List.take_append_drop, List.length_drop] at h
  have hlt := ofBinStr_lt (l.drop k)
  rw [List.length_drop] at hlt
  exact (div_mod_of_eq h hlt).1.symm

/-- `int(s[k:], 2)` -/
theorem ofBinStr_drop (l : List Bool) (k : Nat) :
    ofBinStr (l.drop k) = ofBinStr l % 2 ^ (l.length - k) := by
  have h := ofBinStr_append (l.take k) (l.drop k)
  rw [List.take_append_drop, List.length_drop] at h
  have hlt := ofBinStr_lt (l.drop k)
  rw [List.length_drop] at hlt
  exact (div_mod_of_eq h hlt).2.symm

/-- `int(s[a:a+b], 2)`: a window of a bit string is `/ 2^k % 2^b` on its value -/
theorem ofBinStr_drop_take (l : List Bool) (a b : Nat) (h : a + b ≤ l.length) :
    ofBinStr ((l.drop a).take b) = ofBinStr l / 2 ^ (l.length - a - b) % 2 ^ b := by
  rw [ofBinStr_take, ofBinStr_drop, List.length_drop]
  have : 2 ^ (l.length - a) = 2 ^ (l.length - a - b) * 2 ^ b := by
    rw [← Nat.pow_add]; congr 1; omega
  rw [this, Nat.mod_mul_right_div_self]

theorem ofBinStr_dropLast (l : List Bool) (k : Nat) (h : k ≤ l.length) :
    ofBinStr (dropLast l k) = ofBinStr l / 2 ^ k := by
  unfold dropLast; rw [ofBinStr_take]; congr 2; omega

theorem ofBinStr_takeLast (l : List Bool) (k : Nat) (h : k ≤ l.length) :
    ofBinStr (takeLast l k) = ofBinStr l % 2 ^ k := by
  unfold takeLast; rw [ofBinStr_drop]; congr 2; omega

theorem bitsBE_append (a wa b wb : Nat) (hb : b < 2 ^ wb) :
    bitsBE wa a ++ bitsBE wb b = bitsBE (wa + wb) (a % 2 ^ wa * 2 ^ wb + b) := by
  apply eq_bitsBE
  · simp
  · rw [ofBinStr_append, ofBinStr_bitsBE, ofBinStr_bitsBE, length_bitsBE, Nat.mod_eq_of_lt hb]

/-! ### `mapM` in `Except` -/

theorem mapM_ok_of_forall {α β} (f : α → R β) (g : α → β) (l : List α)
    (h : ∀ a ∈ l, f a = .ok (g a)) : l.mapM f = .ok (l.map g) := by
  induction l with
  | nil => rfl
  | cons a t ih =>
    have ha := h a (by simp)
    have ht := ih (fun x hx => h x (by simp [hx]))
    simp only [List.map_cons, List.mapM_cons, ha, ht]
    rfl

theorem mapM_error_of_exists {α β} (f : α → R β) (e : Err) (l : List α)
    (hall : ∀ a ∈ l, (∃ b, f a = .ok b) ∨ f a = .error e)
    (hex : ∃ a ∈ l, f a = .error e) : l.mapM f = .error e := by
  induction l with
  | nil => obtain ⟨a, ha, _⟩ := hex; simp at ha
  | cons a t ih =>
    rw [List.mapM_cons]
    rcases hall a (by simp) with ⟨b, hb⟩ | hb
    · have ht : t.mapM f = .error e := by
        apply ih (fun x hx => hall x (by simp [hx]))
        obtain ⟨x, hx, hxe⟩ := hex
        rcases List.mem_cons.mp hx with rfl | hx
        · rw [hb] at hxe; cases hxe
        · exact ⟨x, hx, hxe⟩
      rw [hb, ht]; rfl
    · rw [hb]; rfl

/-! ### encoder -/

theorem bytesToBits_eq (b : Bytes) (hb : 1 ≤ b.length) :
    bytesToBits b = bitsBE (b.length * 8) (Bytes.toNatBE b) := by
  unfold bytesToBits
  apply toBinStr_eq_bitsBE (by omega)
  have := toNatBE_lt b
  rwa [pow_256, Nat.mul_comm] at this

/-- the first `cs` bits of the 256-bit hash string -/
theorem hashBits_eq (h cs : Nat) (hh : h < 2 ^ 256) (hcs : cs ≤ 256) :
    (toBinStr h 256).take cs = bitsBE cs (h / 2 ^ (256 - cs)) := by
  have hl : (toBinStr h 256).length = 256 := toBinStr_length_of_lt (by omega) hh
  apply eq_bitsBE
  · rw [List.length_take, hl]; omega
  · rw [ofBinStr_take, hl, ofBinStr_toBinStr]

theorem hash_lt (H : Bytes → Bytes) (hH : ∀ x, (H x).length = 32) (x : Bytes) :
    Bytes.toNatBE (H x) < 2 ^ 256 := by
  have := toNatBE_lt (H x)
  rwa [hH, pow_256] at this

theorem hash_div_lt (H : Bytes → Bytes) (hH : ∀ x, (H x).length = 32) (x : Bytes) (cs : Nat)
    (hcs : cs ≤ 256) : Bytes.toNatBE (H x) / 2 ^ (256 - cs) < 2 ^ cs := by
  rw [Nat.div_lt_iff_lt_mul (Nat.pow_pos (by omega)), ← Nat.pow_add]
  have : cs + (256 - cs) = 256 := by omega
  rw [this]; exact hash_lt H hH x

/-- the integer `entropy ‖ checksum` of the BIP-39 definition: the entropy followed by the first
`len/4` bits of its hash. -/
def bip39Int (H : Bytes → Bytes) (ent : Bytes) : Nat :=
  Bytes.toNatBE ent * 2 ^ (ent.length / 4) + Bytes.toNatBE (H ent) / 2 ^ (256 - ent.length / 4)

/-- number of words of the sentence of `ent` -/
def bip39WordCount (ent : Bytes) : Nat := (ent.length * 8 + ent.length / 4) / 11

/-- the `i`-th 11-bit group (most significant first) of `bip39Int` -/
def bip39Group (H : Bytes → Bytes) (ent : Bytes) (i : Nat) : Nat :=
  bip39Int H ent / 2 ^ (11 * (bip39WordCount ent - 1 - i)) % 2048

theorem bip39Group_lt (H : Bytes → Bytes) (ent : Bytes) (i : Nat) : bip39Group H ent i < 2048 :=
  Nat.mod_lt _ (by omega)

/-- the encoder's bit string in normal form -/
theorem encBits_eq (H : Bytes → Bytes) (hH : ∀ x, (H x).length = 32) (ent : Bytes)
    (h1 : 1 ≤ ent.length) (h2 : ent.length / 4 ≤ 256) :
    bytesToBits ent ++ (toBinStr (Bytes.toNatBE (H ent)) 256).take (ent.length / 4)
      = bitsBE (ent.length * 8 + ent.length / 4) (bip39Int H ent) := by
  rw [bytesToBits_eq ent h1, hashBits_eq _ _ (hash_lt H hH ent) h2,
    bitsBE_append _ _ _ _ (hash_div_lt H hH ent _ h2)]
  have := toNatBE_lt ent
  rw [pow_256, Nat.mul_comm] at this
  rw [Nat.mod_eq_of_lt this]; rfl

theorem bip39Int_lt (H : Bytes → Bytes) (hH : ∀ x, (H x).length = 32) (ent : Bytes)
    (h2 : ent.length / 4 ≤ 256) : bip39Int H ent < 2 ^ (ent.length * 8 + ent.length / 4) := by
  unfold bip39Int
  have h1 := toNatBE_lt ent
  rw [pow_256, Nat.mul_comm] at h1
  have h3 := hash_div_lt H hH ent _ h2
  rw [Nat.pow_add]
  have hp : 0 < 2 ^ (ent.length / 4) := Nat.pow_pos (by omega)
  nlinarith

theorem entLens_cases {n : Nat} (h : bip39EntLens.contains n = true) :
    n = 16 ∨ n = 20 ∨ n = 24 ∨ n = 28 ∨ n = 32 := by
  simpa [bip39EntLens] using h

theorem entLens_iff (n : Nat) :
    bip39EntLens.contains n = true ↔ ∃ cs, 4 ≤ cs ∧ cs ≤ 8 ∧ n = 4 * cs := by
  constructor
  · intro h; have := entLens_cases h; exact ⟨n / 4, by omega, by omega, by omega⟩
  · rintro ⟨cs, h1, h2, rfl⟩
    have : cs = 4 ∨ cs = 5 ∨ cs = 6 ∨ cs = 7 ∨ cs = 8 := by omega
    rcases this with rfl | rfl | rfl | rfl | rfl <;> decide

theorem wordNums_iff (n : Nat) :
    bip39WordNums.contains n = true ↔ ∃ cs, 4 ≤ cs ∧ cs ≤ 8 ∧ n = 3 * cs := by
  constructor
  · intro h
    have : n = 12 ∨ n = 15 ∨ n = 18 ∨ n = 21 ∨ n = 24 := by simpa [bip39WordNums] using h
    exact ⟨n / 3, by omega, by omega, by omega⟩
  · rintro ⟨cs, h1, h2, rfl⟩
    have : cs = 4 ∨ cs = 5 ∨ cs = 6 ∨ cs = 7 ∨ cs = 8 := by omega
    rcases this with rfl | rfl | rfl | rfl | rfl <;> decide

/-- **the encoder computes the BIP-39 definition**: for an admissible entropy the sentence is
`wl[g 0], …, wl[g (n-1)]`, the 11-bit groups of `entropy ‖ checksum`. -/
theorem bip39Encode_eq (H : Bytes → Bytes) (hH : ∀ x, (H x).length = 32) (wl : List Nat)
    (hwl : 2048 ≤ wl.length) (ent : Bytes) (hlen : bip39EntLens.contains ent.length = true) :
    bip39Encode H wl ent
      = .ok ((List.range (bip39WordCount ent)).map fun i => wl.getD (bip39Group H ent i) 0) := by
  obtain ⟨cs, hc1, hc2, hl⟩ := (entLens_iff _).mp hlen
  have hcs : ent.length / 4 = cs := by omega
  unfold bip39Encode
  simp only [hlen, Bool.not_true, Bool.false_eq_true, if_false]
  rw [encBits_eq H hH ent (by omega) (by omega), length_bitsBE]
  apply mapM_ok_of_forall
  intro i hi
  have hi' : i < bip39WordCount ent := List.mem_range.mp hi
  unfold bip39WordCount at hi'
  have hv : ofBinStr (List.take 11 (List.drop (i * 11)
      (bitsBE (ent.length * 8 + ent.length / 4) (bip39Int H ent)))) = bip39Group H ent i := by
    rw [ofBinStr_drop_take _ _ _ (by rw [length_bitsBE]; omega), length_bitsBE,
      ofBinStr_bitsBE_of_lt (bip39Int_lt H hH ent (by omega))]
    unfold bip39Group bip39WordCount
    congr 3
    omega
  rw [hv]
  unfold pyIdx
  have hlt : bip39Group H ent i < wl.length := by have := bip39Group_lt H ent i; omega
  have hg : wl.getD (bip39Group H ent i) 0 = wl[bip39Group H ent i] := by
    simp [List.getD_eq_getElem?_getD, hlt]
  rw [List.getElem?_eq_getElem hlt, hg]
  rfl

theorem bip39Encode_error (H : Bytes → Bytes) (wl : List Nat) (ent : Bytes)
    (hlen : bip39EntLens.contains ent.length = false) : bip39Encode H wl ent = .error .value := by
  unfold bip39Encode
  simp only [hlen, Bool.not_false, if_true]
  rfl

theorem bip39WordCount_eq {ent : Bytes} (hlen : bip39EntLens.contains ent.length = true) :
    bip39WordCount ent = 3 * (ent.length / 4) := by
  obtain ⟨cs, hc1, hc2, hl⟩ := (entLens_iff _).mp hlen
  unfold bip39WordCount; omega

/-! ### word lookup and the digit string of a sentence -/

theorem idxOf?_eq_some_idxOf {l : List Nat} {a : Nat} (h : a ∈ l) : l.idxOf? a = some (l.idxOf a) := by
  induction l with
  | nil => simp at h
  | cons x xs ih =>
    rw [List.idxOf?_cons, List.idxOf_cons]
    by_cases hx : x = a
    · simp [hx]
    · have hxs : a ∈ xs := by
        rcases List.mem_cons.mp h with h | h
        · exact absurd h.symm hx
        · exact h
      have hb : (x == a) = false := by simpa using hx
      simp [hb, ih hxs]

theorem wordIdx_of_mem {wl : List Nat} {w : Nat} (h : w ∈ wl) : wordIdx wl w = .ok (wl.idxOf w) := by
  unfold wordIdx; rw [idxOf?_eq_some_idxOf h]; rfl

theorem wordIdx_of_not_mem {wl : List Nat} {w : Nat} (h : w ∉ wl) : wordIdx wl w = .error .value := by
  unfold wordIdx; rw [List.idxOf?_eq_none_iff.mpr h]; rfl

theorem mapM_wordIdx_ok {wl ws : List Nat} (h : ∀ w ∈ ws, w ∈ wl) :
    ws.mapM (wordIdx wl) = .ok (ws.map (wl.idxOf ·)) :=
  mapM_ok_of_forall _ _ _ (fun w hw => wordIdx_of_mem (h w hw))

theorem mapM_wordIdx_error {wl ws : List Nat} (h : ∃ w ∈ ws, w ∉ wl) :
    ws.mapM (wordIdx wl) = .error .value := by
  apply mapM_error_of_exists
  · intro w _
    by_cases hw : w ∈ wl
    · exact Or.inl ⟨_, wordIdx_of_mem hw⟩
    · exact Or.inr (wordIdx_of_not_mem hw)
  · obtain ⟨w, hw, hn⟩ := h
    exact ⟨w, hw, wordIdx_of_not_mem hn⟩

theorem ofDigitsBE_cons (r d : Nat) (ds : List Nat) :
    ofDigitsBE r (d :: ds) = d * r ^ ds.length + ofDigitsBE r ds := by
  have := ofDigitsBE_append r [d] ds
  simpa [ofDigitsBE] using this

theorem ofDigitsBE_lt (r : Nat) (ds : List Nat) (h : ∀ d ∈ ds, d < r) :
    ofDigitsBE r ds < r ^ ds.length := by
  induction ds with
  | nil => simp [ofDigitsBE]
  | cons d t ih =>
    have hd : d < r := h d (by simp)
    have ht := ih (fun x hx => h x (by simp [hx]))
    rw [ofDigitsBE_cons, List.length_cons, Nat.pow_succ]
    nlinarith

/-- digit `i` of a base-`r` digit string is `/ r^(len-1-i) % r` of its value -/
theorem ofDigitsBE_digit (r : Nat) (ds : List Nat) (h : ∀ d ∈ ds, d < r) (i : Nat)
    (hi : i < ds.length) : ofDigitsBE r ds / r ^ (ds.length - 1 - i) % r = ds[i] := by
  have hsplit : ds = ds.take i ++ (ds[i] :: ds.drop (i + 1)) := by
    rw [List.cons_getElem_drop_succ, List.take_append_drop]
  have hlen : (ds.drop (i + 1)).length = ds.length - 1 - i := by rw [List.length_drop]; omega
  have hv : ofDigitsBE r ds
      = (ofDigitsBE r (ds.take i) * r + ds[i]) * r ^ (ds.length - 1 - i)
        + ofDigitsBE r (ds.drop (i + 1)) := by
    conv_lhs => rw [hsplit]
    rw [ofDigitsBE_append, ofDigitsBE_cons, List.length_cons, hlen, Nat.pow_succ]
    ring
  have hlt : ofDigitsBE r (ds.drop (i + 1)) < r ^ (ds.length - 1 - i) := by
    have := ofDigitsBE_lt r (ds.drop (i + 1)) (fun d hd => h d (List.mem_of_mem_drop hd))
    rwa [hlen] at this
  rw [(div_mod_of_eq hv hlt).1, Nat.mul_comm, Nat.mul_add_mod]
  exact Nat.mod_eq_of_lt (h _ (List.getElem_mem hi))

/-- a number below `r^n` is the value of its `n` base-`r` digits -/
theorem ofDigitsBE_groups (r : Nat) (hr : 0 < r) (n V : Nat) (hV : V < r ^ n) :
    ofDigitsBE r ((List.range n).map fun i => V / r ^ (n - 1 - i) % r) = V := by
  induction n generalizing V with
  | zero => simp at hV; subst hV; rfl
  | succ n ih =>
    rw [List.range_succ, List.map_append, ofDigitsBE_append]
    have hdiv : V / r < r ^ n := by
      rw [Nat.div_lt_iff_lt_mul hr]; rwa [Nat.pow_succ] at hV
    have hmap : (List.range n).map (fun i => V / r ^ (n + 1 - 1 - i) % r)
        = (List.range n).map (fun i => V / r / r ^ (n - 1 - i) % r) := by
      apply List.map_congr_left
      intro i hi
      have hi' := List.mem_range.mp hi
      rw [Nat.div_div_eq_div_mul, ← Nat.pow_succ']
      congr 3; omega
    rw [hmap, ih _ hdiv]
    have hz : n + 1 - 1 - n = 0 := by omega
    simp only [List.map_cons, List.map_nil, List.length_cons, List.length_nil, hz,
      Nat.pow_zero, Nat.div_one, Nat.zero_add, Nat.pow_one]
    have : ofDigitsBE r [V % r] = V % r := by simp [ofDigitsBE]
    rw [this]; exact Nat.div_add_mod' V r

/-- the concatenated 11-bit strings of the word indexes, in normal form -/
theorem flatMap_toBinStr_eq (ds : List Nat) (h : ∀ d ∈ ds, d < 2048) :
    ds.flatMap (fun i => toBinStr i 11) = bitsBE (11 * ds.length) (ofDigitsBE 2048 ds) := by
  induction ds with
  | nil => rfl
  | cons d t ih =>
    have hd : d < 2 ^ 11 := h d (by simp)
    have ht : ∀ x ∈ t, x < 2048 := fun x hx => h x (by simp [hx])
    have hlt := ofDigitsBE_lt 2048 t ht
    rw [pow_2048] at hlt
    rw [List.flatMap_cons, ih ht, toBinStr_eq_bitsBE (by omega) hd, bitsBE_append _ _ _ _ hlt,
      Nat.mod_eq_of_lt hd, ofDigitsBE_cons, pow_2048, List.length_cons]
    congr 1
    omega

/-- the big integer of the 11-bit word indexes of a sentence -/
def bip39B (wl ws : List Nat) : Nat := ofDigitsBE 2048 (ws.map (wl.idxOf ·))

theorem idxOf_lt_2048 {wl : List Nat} (hwl : wl.length ≤ 2048) {ws : List Nat}
    (hall : ∀ w ∈ ws, w ∈ wl) : ∀ d ∈ ws.map (wl.idxOf ·), d < 2048 := by
  intro d hd
  obtain ⟨w, hw, rfl⟩ := List.mem_map.mp hd
  have := List.idxOf_lt_length_of_mem (hall w hw)
  omega

theorem bip39B_lt {wl : List Nat} (hwl : wl.length ≤ 2048) {ws : List Nat}
    (hall : ∀ w ∈ ws, w ∈ wl) : bip39B wl ws < 2 ^ (11 * ws.length) := by
  have := ofDigitsBE_lt 2048 _ (idxOf_lt_2048 hwl hall)
  rwa [pow_2048, List.length_map] at this

/-! ### decoder -/

theorem bitsBE_inj {w a b : Nat} (ha : a < 2 ^ w) (hb : b < 2 ^ w) (h : bitsBE w a = bitsBE w b) :
    a = b := by
  have := congrArg ofBinStr h
  rwa [ofBinStr_bitsBE_of_lt ha, ofBinStr_bitsBE_of_lt hb] at this

/-- the part of `__DecodeAndVerifyBinaryStr` after the word lookup, on a bit string in normal form:
split off the last `cs` bits, rebuild the entropy bytes, compare the checksum bits. -/
theorem decodeTail_eq (H : Bytes → Bytes) (hH : ∀ x, (H x).length = 32) (cs B : Nat) (hcs : cs ≤ 256)
    (hB : B < 2 ^ (33 * cs)) :
    let bits := bitsBE (33 * cs) B
    let e := Bytes.ofNatBE (cs * 4) (B / 2 ^ cs)
    (toBytesBE (ofBinStr (dropLast bits cs)) (cs * 4) = .ok e)
    ∧ ((takeLast bits cs != (toBinStr (Bytes.toNatBE (H e)) 256).take cs) = true
        ↔ B % 2 ^ cs ≠ Bytes.toNatBE (H e) / 2 ^ (256 - cs)) := by
  intro bits e
  have hlen : bits.length = 33 * cs := length_bitsBE _ _
  have hval : ofBinStr bits = B := ofBinStr_bitsBE_of_lt hB
  constructor
  · rw [ofBinStr_dropLast _ _ (by omega), hval]
    apply toBytesBE_eq_ofNatBE
    rw [pow_256, Nat.div_lt_iff_lt_mul (Nat.pow_pos (by omega)), ← Nat.pow_add]
    have : 8 * (cs * 4) + cs = 33 * cs := by omega
    rwa [this]
  · have h1 : takeLast bits cs = bitsBE cs (B % 2 ^ cs) := by
      apply eq_bitsBE
      · unfold takeLast; rw [List.length_drop]; omega
      · rw [ofBinStr_takeLast _ _ (by omega), hval]
    rw [h1, hashBits_eq _ _ (hash_lt H hH e) hcs, bne_iff_ne]
    constructor
    · intro h heq; exact h (by rw [heq])
    · intro h heq
      exact h (bitsBE_inj (Nat.mod_lt _ (Nat.pow_pos (by omega))) (hash_div_lt H hH e cs hcs) heq)

/-- `__DecodeAndVerifyBinaryStr` with an explicit language, on a sentence of legal length whose
words are all in the list. -/
theorem bip39DecodeBits_some_eq (H : Bytes → Bytes) (hH : ∀ x, (H x).length = 32)
    (langs : List (List Nat)) (wl : List Nat) (hwl : wl.length ≤ 2048) (ws : List Nat) (cs : Nat)
    (hc1 : 4 ≤ cs) (hc2 : cs ≤ 8) (hn : ws.length = 3 * cs) (hall : ∀ w ∈ ws, w ∈ wl) :
    bip39DecodeBits H langs (some wl) ws
      = if bip39B wl ws % 2 ^ cs
            = Bytes.toNatBE (H (Bytes.ofNatBE (cs * 4) (bip39B wl ws / 2 ^ cs))) / 2 ^ (256 - cs)
        then .ok (bitsBE (33 * cs) (bip39B wl ws)) else .error .checksum := by
  have hcount : bip39WordNums.contains ws.length = true := (wordNums_iff _).mpr ⟨cs, hc1, hc2, hn⟩
  have hB : bip39B wl ws < 2 ^ (33 * cs) := by
    have := bip39B_lt hwl hall
    have h2 : 11 * ws.length = 33 * cs := by omega
    rwa [h2] at this
  have hbits : (ws.map (wl.idxOf ·)).flatMap (fun i => toBinStr i 11)
      = bitsBE (33 * cs) (bip39B wl ws) := by
    rw [flatMap_toBinStr_eq _ (idxOf_lt_2048 hwl hall), List.length_map]
    have h2 : 11 * ws.length = 33 * cs := by omega
    rw [h2]; rfl
  have hck : (33 * cs) / 33 = cs := by omega
  obtain ⟨ht1, ht2⟩ := decodeTail_eq H hH cs (bip39B wl ws) (by omega) hB
  unfold bip39DecodeBits
  simp only [hcount, Bool.not_true, Bool.false_eq_true, if_false, pure_bind, mapM_wordIdx_ok hall]
  simp only [bind, Except.bind, hbits, length_bitsBE, hck, ht1]
  by_cases hc : bip39B wl ws % 2 ^ cs
      = Bytes.toNatBE (H (Bytes.ofNatBE (cs * 4) (bip39B wl ws / 2 ^ cs))) / 2 ^ (256 - cs)
  · have : ¬ ((takeLast (bitsBE (33 * cs) (bip39B wl ws)) cs
        != (toBinStr (Bytes.toNatBE (H (Bytes.ofNatBE (cs * 4) (bip39B wl ws / 2 ^ cs)))) 256).take cs)
          = true) := fun h => ht2.mp h hc
    rw [if_neg this, if_pos hc]; rfl
  · rw [if_pos (ht2.mpr hc), if_neg hc]; rfl

theorem bip39DecodeBits_count_error (H : Bytes → Bytes) (langs : List (List Nat))
    (lang : Option (List Nat)) (ws : List Nat) (h : bip39WordNums.contains ws.length = false) :
    bip39DecodeBits H langs lang ws = .error .value := by
  unfold bip39DecodeBits
  simp only [h, Bool.not_false, if_true]
  rfl

theorem bip39DecodeBits_word_error (H : Bytes → Bytes) (langs : List (List Nat)) (wl ws : List Nat)
    (h : ∃ w ∈ ws, w ∉ wl) : bip39DecodeBits H langs (some wl) ws = .error .value := by
  by_cases hcount : bip39WordNums.contains ws.length = true
  · unfold bip39DecodeBits
    simp only [hcount, Bool.not_true, Bool.false_eq_true, if_false, pure_bind, mapM_wordIdx_error h]
    rfl
  · exact bip39DecodeBits_count_error H langs _ ws (by simpa using hcount)

/-- auto-detection is decoding with the language `_FindLanguageGeneric` returns -/
theorem bip39DecodeBits_none_eq (H : Bytes → Bytes) (langs : List (List Nat)) (ws : List Nat)
    (hcount : bip39WordNums.contains ws.length = true) :
    bip39DecodeBits H langs none ws
      = match findLanguage langs ws with
        | .ok wl => bip39DecodeBits H langs (some wl) ws
        | .error e => .error e := by
  unfold bip39DecodeBits
  simp only [hcount, Bool.not_true, Bool.false_eq_true, if_false, pure_bind]
  cases findLanguage langs ws with
  | ok wl => rfl
  | error e => rfl

/-- the arithmetic specification of `Bip39MnemonicDecoder.Decode` for an explicit language -/
def bip39DecodeSpec (H : Bytes → Bytes) (wl ws : List Nat) : R Bytes :=
  if bip39WordNums.contains ws.length = false then .error .value
  else if ws.all (fun w => wl.contains w) = false then .error .value
  else
    let B := bip39B wl ws
    let cs := ws.length * 11 / 33
    let e := Bytes.ofNatBE (cs * 4) (B / 2 ^ cs)
    if B % 2 ^ cs = Bytes.toNatBE (H e) / 2 ^ (256 - cs) then .ok e else .error .checksum

theorem all_contains_iff (wl ws : List Nat) :
    ws.all (fun w => wl.contains w) = true ↔ ∀ w ∈ ws, w ∈ wl := by
  simp [List.all_eq_true]

theorem bip39Decode_some_eq (H : Bytes → Bytes) (hH : ∀ x, (H x).length = 32)
    (langs : List (List Nat)) (wl : List Nat) (hwl : wl.length ≤ 2048) (ws : List Nat) :
    bip39Decode H langs (some wl) ws = bip39DecodeSpec H wl ws := by
  unfold bip39DecodeSpec
  by_cases hcount : bip39WordNums.contains ws.length = true
  · obtain ⟨cs, hc1, hc2, hn⟩ := (wordNums_iff _).mp hcount
    have hcs : ws.length * 11 / 33 = cs := by omega
    by_cases hall : ws.all (fun w => wl.contains w) = true
    · have hall' := (all_contains_iff wl ws).mp hall
      have hB : bip39B wl ws < 2 ^ (33 * cs) := by
        have := bip39B_lt hwl hall'
        have h2 : 11 * ws.length = 33 * cs := by omega
        rwa [h2] at this
      obtain ⟨ht1, -⟩ := decodeTail_eq H hH cs (bip39B wl ws) (by omega) hB
      have hck : (33 * cs) / 33 = cs := by omega
      unfold bip39Decode
      rw [bip39DecodeBits_some_eq H hH langs wl hwl ws cs hc1 hc2 hn hall']
      simp only [hcount, hall, hcs, Bool.true_eq_false, if_false]
      by_cases hc : bip39B wl ws % 2 ^ cs
          = Bytes.toNatBE (H (Bytes.ofNatBE (cs * 4) (bip39B wl ws / 2 ^ cs))) / 2 ^ (256 - cs)
      · simp only [if_pos hc, bind, Except.bind, length_bitsBE, hck, ht1]
      · simp only [if_neg hc, bind, Except.bind]
    · have hex : ∃ w ∈ ws, w ∉ wl := by
        by_contra hne
        apply hall
        rw [all_contains_iff]
        intro w hw
        by_contra hw'
        exact hne ⟨w, hw, hw'⟩
      unfold bip39Decode
      rw [bip39DecodeBits_word_error H langs wl ws hex]
      have hall' : ws.all (fun w => wl.contains w) = false := by simpa using hall
      simp only [hcount, hall', Bool.true_eq_false, if_false, if_true]
      rfl
  · have hcount' : bip39WordNums.contains ws.length = false := by simpa using hcount
    unfold bip39Decode
    rw [bip39DecodeBits_count_error H langs _ ws hcount']
    simp only [hcount', if_true]
    rfl

/-! ### consequences for the encoder -/

theorem getD_mem {wl : List Nat} {k : Nat} (h : k < wl.length) : wl.getD k 0 ∈ wl := by
  have : wl.getD k 0 = wl[k] := by simp [List.getD_eq_getElem?_getD, h]
  rw [this]; exact List.getElem_mem h

theorem bip39Encode_ok (H : Bytes → Bytes) (hH : ∀ x, (H x).length = 32) (wl : List Nat)
    (hwl : wl.length = 2048) (ent : Bytes) (hlen : bip39EntLens.contains ent.length = true) :
    ∃ ws, bip39Encode H wl ent = .ok ws
      ∧ ws.length = (ent.length * 8 + ent.length / 4) / 11 ∧ ∀ w ∈ ws, w ∈ wl := by
  refine ⟨_, bip39Encode_eq H hH wl (by omega) ent hlen, ?_, ?_⟩
  · simp [bip39WordCount]
  · intro w hw
    obtain ⟨i, -, rfl⟩ := List.mem_map.mp hw
    exact getD_mem (by have := bip39Group_lt H ent i; omega)

/-- index form of `bip39Encode_eq` -/
theorem bip39Encode_getElem? (H : Bytes → Bytes) (hH : ∀ x, (H x).length = 32) (wl : List Nat)
    (hwl : wl.length = 2048) (ent : Bytes) (ws : List Nat) (h : bip39Encode H wl ent = .ok ws) :
    ws.length = bip39WordCount ent
      ∧ ∀ i, i < ws.length → ws[i]? = wl[bip39Group H ent i]? := by
  by_cases hlen : bip39EntLens.contains ent.length = true
  · rw [bip39Encode_eq H hH wl (by omega) ent hlen] at h
    have hws := (Except.ok.inj h).symm
    subst hws
    refine ⟨by simp, ?_⟩
    intro i hi
    have hi' : i < bip39WordCount ent := by simpa using hi
    have hlt : bip39Group H ent i < wl.length := by have := bip39Group_lt H ent i; omega
    simp [hi', List.getD_eq_getElem?_getD, hlt]
  · rw [bip39Encode_error H wl ent (by simpa using hlen)] at h; cases h

/-! ### consequences for the decoder -/

theorem bip39DecodeSpec_error_kind (H : Bytes → Bytes) (wl ws : List Nat) (e : Err)
    (h : bip39DecodeSpec H wl ws = .error e) : e = .value ∨ e = .checksum := by
  unfold bip39DecodeSpec at h
  split at h
  · cases h; exact Or.inl rfl
  · split at h
    · cases h; exact Or.inl rfl
    · simp only at h
      split at h
      · cases h
      · cases h; exact Or.inr rfl

/-- accept-iff for the arithmetic specification -/
theorem bip39DecodeSpec_ok_iff (H : Bytes → Bytes) (wl : List Nat) (hwl : wl.length ≤ 2048)
    (ws : List Nat) (e : Bytes) :
    bip39DecodeSpec H wl ws = .ok e ↔
      bip39WordNums.contains ws.length = true ∧ (∀ w ∈ ws, w ∈ wl)
      ∧ e.length = ws.length * 11 / 33 * 4
      ∧ Bytes.toNatBE e = bip39B wl ws / 2 ^ (ws.length * 11 / 33)
      ∧ bip39B wl ws % 2 ^ (ws.length * 11 / 33)
          = Bytes.toNatBE (H e) / 2 ^ (256 - ws.length * 11 / 33) := by
  unfold bip39DecodeSpec
  by_cases hcount : bip39WordNums.contains ws.length = true
  · by_cases hall : ws.all (fun w => wl.contains w) = true
    · have hall' := (all_contains_iff wl ws).mp hall
      obtain ⟨cs, hc1, hc2, hn⟩ := (wordNums_iff _).mp hcount
      have hcs : ws.length * 11 / 33 = cs := by omega
      have hfit : bip39B wl ws / 2 ^ cs < 256 ^ (cs * 4) := by
        have := bip39B_lt hwl hall'
        rw [pow_256, Nat.div_lt_iff_lt_mul (Nat.pow_pos (by omega)), ← Nat.pow_add]
        have h2 : 8 * (cs * 4) + cs = 11 * ws.length := by omega
        rwa [h2]
      simp only [hcount, hall, hcs, Bool.true_eq_false, if_false]
      constructor
      · intro h
        split at h
        · rename_i hc
          have he := (Except.ok.inj h).symm
          subst he
          exact ⟨trivial, hall', length_ofNatBE _ _, toNatBE_ofNatBE hfit, hc⟩
        · cases h
      · rintro ⟨-, -, h1, h2, h3⟩
        have he : Bytes.ofNatBE (cs * 4) (bip39B wl ws / 2 ^ cs) = e :=
          toNatBE_inj_of_length_eq (by rw [length_ofNatBE, h1]) (by rw [toNatBE_ofNatBE hfit, h2])
        rw [he, if_pos h3]
    · have hall' : ws.all (fun w => wl.contains w) = false := by simpa using hall
      simp only [hcount, hall', Bool.true_eq_false, if_false, if_true]
      constructor
      · intro h; cases h
      · rintro ⟨-, h, -⟩; exact absurd ((all_contains_iff wl ws).mpr h) hall
  · have hcount' : bip39WordNums.contains ws.length = false := by simpa using hcount
    simp only [hcount', if_true]
    constructor
    · intro h; cases h
    · rintro ⟨h, -⟩; cases h

theorem bip39DecodeSpec_checksum (H : Bytes → Bytes) (wl ws : List Nat)
    (hcount : bip39WordNums.contains ws.length = true) (hall : ∀ w ∈ ws, w ∈ wl)
    (hck : bip39B wl ws % 2 ^ (ws.length * 11 / 33)
        ≠ Bytes.toNatBE (H (Bytes.ofNatBE (ws.length * 11 / 33 * 4)
            (bip39B wl ws / 2 ^ (ws.length * 11 / 33)))) / 2 ^ (256 - ws.length * 11 / 33)) :
    bip39DecodeSpec H wl ws = .error .checksum := by
  unfold bip39DecodeSpec
  simp only [hcount, (all_contains_iff wl ws).mpr hall, Bool.true_eq_false, if_false, if_neg hck]

/-! ### round trips -/

theorem idxOf_getD_of_nodup {wl : List Nat} (hnd : wl.Nodup) {k : Nat} (h : k < wl.length) :
    wl.idxOf (wl.getD k 0) = k := by
  have : wl.getD k 0 = wl[k] := by simp [List.getD_eq_getElem?_getD, h]
  rw [this]; exact hnd.idxOf_getElem k h

theorem getD_idxOf_of_mem {wl : List Nat} {w : Nat} (h : w ∈ wl) : wl.getD (wl.idxOf w) 0 = w := by
  have hlt := List.idxOf_lt_length_of_mem h
  have : wl.getD (wl.idxOf w) 0 = wl[wl.idxOf w] := by simp [List.getD_eq_getElem?_getD, hlt]
  rw [this]; exact List.getElem_idxOf hlt

theorem bip39Int_div_mod (H : Bytes → Bytes) (hH : ∀ x, (H x).length = 32) (ent : Bytes)
    (h2 : ent.length / 4 ≤ 256) :
    bip39Int H ent / 2 ^ (ent.length / 4) = Bytes.toNatBE ent
      ∧ bip39Int H ent % 2 ^ (ent.length / 4)
          = Bytes.toNatBE (H ent) / 2 ^ (256 - ent.length / 4) :=
  div_mod_of_eq rfl (hash_div_lt H hH ent _ h2)

/-- the digit string of the encoded sentence is the integer `entropy ‖ checksum` -/
theorem bip39B_encode (H : Bytes → Bytes) (hH : ∀ x, (H x).length = 32) (wl : List Nat)
    (hwl : wl.length = 2048) (hnd : wl.Nodup) (ent : Bytes)
    (hlen : bip39EntLens.contains ent.length = true) :
    bip39B wl ((List.range (bip39WordCount ent)).map fun i => wl.getD (bip39Group H ent i) 0)
      = bip39Int H ent := by
  obtain ⟨cs, hc1, hc2, hl⟩ := (entLens_iff _).mp hlen
  unfold bip39B
  rw [List.map_map]
  have hmap : (List.range (bip39WordCount ent)).map
        ((fun x => wl.idxOf x) ∘ fun i => wl.getD (bip39Group H ent i) 0)
      = (List.range (bip39WordCount ent)).map
          fun i => bip39Int H ent / 2048 ^ (bip39WordCount ent - 1 - i) % 2048 := by
    apply List.map_congr_left
    intro i _
    simp only [Function.comp]
    rw [idxOf_getD_of_nodup hnd (by have := bip39Group_lt H ent i; omega), pow_2048]
    rfl
  rw [hmap]
  apply ofDigitsBE_groups 2048 (by omega)
  have := bip39Int_lt H hH ent (by omega)
  rw [pow_2048]
  have h2 : 11 * bip39WordCount ent = ent.length * 8 + ent.length / 4 := by
    unfold bip39WordCount; omega
  rwa [h2]

/-- **decode ∘ encode = id** on the admissible entropies, explicit language. -/
theorem bip39_decode_encode (H : Bytes → Bytes) (hH : ∀ x, (H x).length = 32) (wl : List Nat)
    (hwl : wl.length = 2048) (hnd : wl.Nodup) (langs : List (List Nat)) (ent : Bytes)
    (hlen : bip39EntLens.contains ent.length = true) :
    (bip39Encode H wl ent >>= bip39Decode H langs (some wl)) = .ok ent := by
  obtain ⟨cs, hc1, hc2, hl⟩ := (entLens_iff _).mp hlen
  rw [bip39Encode_eq H hH wl (by omega) ent hlen]
  show bip39Decode H langs (some wl) _ = .ok ent
  rw [bip39Decode_some_eq H hH langs wl (by omega), bip39DecodeSpec_ok_iff H wl (by omega),
    bip39B_encode H hH wl hwl hnd ent hlen]
  have hwc : bip39WordCount ent = 3 * cs := by unfold bip39WordCount; omega
  have hcs : ent.length / 4 = cs := by omega
  simp only [List.length_map, List.length_range, hwc]
  have hck : 3 * cs * 11 / 33 = cs := by omega
  obtain ⟨hd, hm⟩ := bip39Int_div_mod H hH ent (by omega)
  rw [hcs] at hd hm
  refine ⟨(wordNums_iff _).mpr ⟨cs, hc1, hc2, rfl⟩, ?_, by omega, by rw [hck, hd], by rw [hck, hm]⟩
  intro w hw
  obtain ⟨i, -, rfl⟩ := List.mem_map.mp hw
  exact getD_mem (by have := bip39Group_lt H ent i; omega)

/-- **encode ∘ decode = id** on the accepted sentences: the sentence of the decoded entropy is the
sentence that was decoded (no second spelling is accepted). -/
theorem bip39_encode_decode (H : Bytes → Bytes) (hH : ∀ x, (H x).length = 32) (wl : List Nat)
    (hwl : wl.length = 2048) (langs : List (List Nat)) (ws : List Nat) (e : Bytes)
    (h : bip39Decode H langs (some wl) ws = .ok e) : bip39Encode H wl e = .ok ws := by
  rw [bip39Decode_some_eq H hH langs wl (by omega), bip39DecodeSpec_ok_iff H wl (by omega)] at h
  obtain ⟨hcount, hall, h1, h2, h3⟩ := h
  obtain ⟨cs, hc1, hc2, hn⟩ := (wordNums_iff _).mp hcount
  have hcs : ws.length * 11 / 33 = cs := by omega
  rw [hcs] at h1 h2 h3
  have hlen : bip39EntLens.contains e.length = true := (entLens_iff _).mpr ⟨cs, hc1, hc2, by omega⟩
  have hcs' : e.length / 4 = cs := by omega
  have hwc : bip39WordCount e = ws.length := by unfold bip39WordCount; omega
  have hint : bip39Int H e = bip39B wl ws := by
    unfold bip39Int
    rw [hcs', h2, ← h3]
    exact Nat.div_add_mod' _ _
  rw [bip39Encode_eq H hH wl (by omega) e hlen]
  congr 1
  apply List.ext_getElem
  · simp [hwc]
  · intro i hi1 hi2
    have hdig := ofDigitsBE_digit 2048 (ws.map (wl.idxOf ·)) (idxOf_lt_2048 (by omega) hall) i
      (by simpa using hi2)
    simp only [List.getElem_map, List.getElem_range, List.length_map] at hdig ⊢
    unfold bip39Group
    rw [hint, hwc, ← pow_2048]
    unfold bip39B
    rw [hdig]
    exact getD_idxOf_of_mem (hall _ (List.getElem_mem hi2))

/-! ### language auto-detection -/

theorem findLanguage_first (pre post : List (List Nat)) (L ws : List Nat)
    (hL : ∀ w ∈ ws, w ∈ L) (hpre : ∀ M ∈ pre, ∃ w ∈ ws, w ∉ M) :
    findLanguage (pre ++ L :: post) ws = .ok L := by
  unfold findLanguage
  have : (pre ++ L :: post).find? (fun wl => ws.all (fun w => wl.contains w)) = some L := by
    rw [List.find?_eq_some_iff_append]
    refine ⟨(all_contains_iff L ws).mpr hL, pre, post, rfl, ?_⟩
    intro M hM
    obtain ⟨w, hw, hn⟩ := hpre M hM
    have : ¬ ws.all (fun w => M.contains w) = true := by
      rw [all_contains_iff]; intro h; exact hn (h w hw)
    simpa using this
  rw [this]; rfl

theorem findLanguage_none (langs : List (List Nat)) (ws : List Nat)
    (h : ∀ M ∈ langs, ∃ w ∈ ws, w ∉ M) : findLanguage langs ws = .error .value := by
  unfold findLanguage
  have : langs.find? (fun wl => ws.all (fun w => wl.contains w)) = none := by
    rw [List.find?_eq_none]
    intro M hM
    obtain ⟨w, hw, hn⟩ := h M hM
    rw [all_contains_iff]; intro h; exact hn (h w hw)
  rw [this]; rfl

theorem findLanguage_mem (langs : List (List Nat)) (ws L : List Nat)
    (h : findLanguage langs ws = .ok L) : L ∈ langs := by
  unfold findLanguage at h
  split at h
  · rename_i wl hf
    cases h
    exact List.mem_of_find?_eq_some hf
  · cases h

theorem findLanguage_error (langs : List (List Nat)) (ws : List Nat) (e : Err)
    (h : findLanguage langs ws = .error e) : e = .value := by
  unfold findLanguage at h
  split at h
  · cases h
  · cases h; rfl

theorem bip39Decode_count_error (H : Bytes → Bytes) (langs : List (List Nat))
    (lang : Option (List Nat)) (ws : List Nat) (h : bip39WordNums.contains ws.length = false) :
    bip39Decode H langs lang ws = .error .value := by
  unfold bip39Decode; rw [bip39DecodeBits_count_error H langs lang ws h]; rfl

theorem bip39Decode_none_eq (H : Bytes → Bytes) (langs : List (List Nat)) (ws : List Nat)
    (hcount : bip39WordNums.contains ws.length = true) :
    bip39Decode H langs none ws
      = match findLanguage langs ws with
        | .ok wl => bip39Decode H langs (some wl) ws
        | .error e => .error e := by
  unfold bip39Decode
  rw [bip39DecodeBits_none_eq H langs ws hcount]
  cases findLanguage langs ws with
  | ok wl => rfl
  | error e => rfl

/-- auto-detection = decoding with the first language that contains every word -/
theorem bip39Decode_none_first (H : Bytes → Bytes) (pre post : List (List Nat)) (L ws : List Nat)
    (hL : ∀ w ∈ ws, w ∈ L) (hpre : ∀ M ∈ pre, ∃ w ∈ ws, w ∉ M) :
    bip39Decode H (pre ++ L :: post) none ws = bip39Decode H (pre ++ L :: post) (some L) ws := by
  by_cases hcount : bip39WordNums.contains ws.length = true
  · rw [bip39Decode_none_eq H _ ws hcount, findLanguage_first pre post L ws hL hpre]
  · have hcount' : bip39WordNums.contains ws.length = false := by simpa using hcount
    rw [bip39Decode_count_error H _ _ ws hcount', bip39Decode_count_error H _ _ ws hcount']

theorem bip39Decode_none_nolang (H : Bytes → Bytes) (langs : List (List Nat)) (ws : List Nat)
    (h : ∀ M ∈ langs, ∃ w ∈ ws, w ∉ M) : bip39Decode H langs none ws = .error .value := by
  by_cases hcount : bip39WordNums.contains ws.length = true
  · rw [bip39Decode_none_eq H _ ws hcount, findLanguage_none langs ws h]
  · exact bip39Decode_count_error H _ _ ws (by simpa using hcount)

theorem bip39_decode_encode_autodetect (H : Bytes → Bytes) (hH : ∀ x, (H x).length = 32)
    (wl : List Nat) (hwl : wl.length = 2048) (hnd : wl.Nodup) (pre post : List (List Nat))
    (ent : Bytes) (hlen : bip39EntLens.contains ent.length = true)
    (hpre : ∀ ws, bip39Encode H wl ent = .ok ws → ∀ M ∈ pre, ∃ w ∈ ws, w ∉ M) :
    (bip39Encode H wl ent >>= bip39Decode H (pre ++ wl :: post) none) = .ok ent := by
  obtain ⟨ws, hws, -, hall⟩ := bip39Encode_ok H hH wl hwl ent hlen
  have hrt := bip39_decode_encode H hH wl hwl hnd (pre ++ wl :: post) ent hlen
  rw [hws] at hrt ⊢
  show bip39Decode H (pre ++ wl :: post) none ws = .ok ent
  rw [bip39Decode_none_first H pre post wl ws hall (hpre ws hws)]
  exact hrt

/-- error kinds, any language argument: only `ValueError` and `MnemonicChecksumError`
(all word lists have at most 2048 entries). -/
theorem bip39Decode_error_kind (H : Bytes → Bytes) (hH : ∀ x, (H x).length = 32)
    (langs : List (List Nat)) (hlangs : ∀ L ∈ langs, L.length ≤ 2048) (lang : Option (List Nat))
    (hlang : ∀ L, lang = some L → L.length ≤ 2048) (ws : List Nat) (e : Err)
    (h : bip39Decode H langs lang ws = .error e) : e = .value ∨ e = .checksum := by
  cases lang with
  | some wl =>
    rw [bip39Decode_some_eq H hH langs wl (hlang wl rfl)] at h
    exact bip39DecodeSpec_error_kind H wl ws e h
  | none =>
    by_cases hcount : bip39WordNums.contains ws.length = true
    · rw [bip39Decode_none_eq H _ ws hcount] at h
      cases hf : findLanguage langs ws with
      | ok wl =>
        rw [hf] at h
        simp only at h
        rw [bip39Decode_some_eq H hH langs wl (hlangs wl (findLanguage_mem langs ws wl hf))] at h
        exact bip39DecodeSpec_error_kind H wl ws e h
      | error e' =>
        rw [hf] at h
        simp only at h
        cases h
        exact Or.inl (findLanguage_error langs ws _ hf)
    · rw [bip39Decode_count_error H _ _ ws (by simpa using hcount)] at h
      cases h; exact Or.inl rfl

/-! ### `DecodeWithChecksum` -/

theorem bip39DecodeBits_some_spec (H : Bytes → Bytes) (hH : ∀ x, (H x).length = 32)
    (langs : List (List Nat)) (wl : List Nat) (hwl : wl.length ≤ 2048) (ws : List Nat) :
    bip39DecodeBits H langs (some wl) ws
      = match bip39DecodeSpec H wl ws with
        | .ok _ => .ok (bitsBE (11 * ws.length) (bip39B wl ws))
        | .error e => .error e := by
  by_cases hcount : bip39WordNums.contains ws.length = true
  · obtain ⟨cs, hc1, hc2, hn⟩ := (wordNums_iff _).mp hcount
    have hcs : ws.length * 11 / 33 = cs := by omega
    have h11 : 11 * ws.length = 33 * cs := by omega
    by_cases hall : ws.all (fun w => wl.contains w) = true
    · have hall' := (all_contains_iff wl ws).mp hall
      rw [bip39DecodeBits_some_eq H hH langs wl hwl ws cs hc1 hc2 hn hall']
      unfold bip39DecodeSpec
      simp only [hcount, hall, hcs, h11, Bool.true_eq_false, if_false]
      split <;> rfl
    · have hex : ∃ w ∈ ws, w ∉ wl := by
        by_contra hne
        apply hall
        rw [all_contains_iff]
        intro w hw
        by_contra hw'
        exact hne ⟨w, hw, hw'⟩
      have hall' : ws.all (fun w => wl.contains w) = false := by simpa using hall
      rw [bip39DecodeBits_word_error H langs wl ws hex]
      unfold bip39DecodeSpec
      simp only [hcount, hall', Bool.true_eq_false, if_false, if_true]
  · have hcount' : bip39WordNums.contains ws.length = false := by simpa using hcount
    rw [bip39DecodeBits_count_error H langs _ ws hcount']
    unfold bip39DecodeSpec
    simp only [hcount', if_true]

/-- `DecodeWithChecksum` accepts exactly what `Decode` accepts and returns the whole bit string
`entropy ‖ checksum` as a big-endian integer on `⌈11·n / 8⌉` bytes. -/
theorem bip39DecodeWithChecksum_some_eq (H : Bytes → Bytes) (hH : ∀ x, (H x).length = 32)
    (langs : List (List Nat)) (wl : List Nat) (hwl : wl.length ≤ 2048) (ws : List Nat) :
    bip39DecodeWithChecksum H langs (some wl) ws
      = match bip39Decode H langs (some wl) ws with
        | .ok _ => .ok (Bytes.ofNatBE ((11 * ws.length + 7) / 8) (bip39B wl ws))
        | .error e => .error e := by
  unfold bip39DecodeWithChecksum
  rw [bip39DecodeBits_some_spec H hH langs wl hwl ws, bip39Decode_some_eq H hH langs wl hwl ws]
  cases hs : bip39DecodeSpec H wl ws with
  | error e => rfl
  | ok r =>
    obtain ⟨-, hall, -⟩ := (bip39DecodeSpec_ok_iff H wl hwl ws r).mp hs
    have hB := bip39B_lt hwl hall
    simp only [bind, Except.bind, length_bitsBE, ofBinStr_bitsBE_of_lt hB]
    have hpad : (if 11 * ws.length % 8 = 0 then 11 * ws.length
        else 11 * ws.length + (8 - 11 * ws.length % 8)) / 8 = (11 * ws.length + 7) / 8 := by
      split <;> omega
    rw [hpad]
    apply toBytesBE_eq_ofNatBE
    rw [pow_256]
    exact Nat.lt_of_lt_of_le hB (Nat.pow_le_pow_right (by omega) (by omega))

theorem bip39DecodeWithChecksum_ok (H : Bytes → Bytes) (hH : ∀ x, (H x).length = 32)
    (langs : List (List Nat)) (wl : List Nat) (hwl : wl.length ≤ 2048) (ws : List Nat) (r : Bytes)
    (h : bip39DecodeWithChecksum H langs (some wl) ws = .ok r) :
    (∃ e, bip39Decode H langs (some wl) ws = .ok e)
      ∧ r.length = (33 * (ws.length * 11 / 33) + 7) / 8 ∧ Bytes.toNatBE r = bip39B wl ws := by
  rw [bip39DecodeWithChecksum_some_eq H hH langs wl hwl ws] at h
  cases hd : bip39Decode H langs (some wl) ws with
  | error e => rw [hd] at h; cases h
  | ok e =>
    rw [hd] at h
    have hr := (Except.ok.inj h).symm
    rw [bip39Decode_some_eq H hH langs wl hwl ws] at hd
    obtain ⟨hcount, hall, -⟩ := (bip39DecodeSpec_ok_iff H wl hwl ws e).mp hd
    obtain ⟨cs, hc1, hc2, hn⟩ := (wordNums_iff _).mp hcount
    have hB := bip39B_lt hwl hall
    subst hr
    refine ⟨⟨e, rfl⟩, ?_, ?_⟩
    · rw [length_ofNatBE]; omega
    · apply toNatBE_ofNatBE
      rw [pow_256]
      exact Nat.lt_of_lt_of_le hB (Nat.pow_le_pow_right (by omega) (by omega))

theorem bip39DecodeWithChecksum_none_first (H : Bytes → Bytes) (pre post : List (List Nat))
    (L ws : List Nat) (hL : ∀ w ∈ ws, w ∈ L) (hpre : ∀ M ∈ pre, ∃ w ∈ ws, w ∉ M) :
    bip39DecodeWithChecksum H (pre ++ L :: post) none ws
      = bip39DecodeWithChecksum H (pre ++ L :: post) (some L) ws := by
  unfold bip39DecodeWithChecksum
  by_cases hcount : bip39WordNums.contains ws.length = true
  · rw [bip39DecodeBits_none_eq H _ ws hcount, findLanguage_first pre post L ws hL hpre]
  · have hcount' : bip39WordNums.contains ws.length = false := by simpa using hcount
    rw [bip39DecodeBits_count_error H _ _ ws hcount', bip39DecodeBits_count_error H _ _ ws hcount']

/-! ### further corollaries used by `Props/C01` -/

theorem bip39Encode_word_count (H : Bytes → Bytes) (hH : ∀ x, (H x).length = 32) (wl : List Nat)
    (hwl : wl.length = 2048) (ent : Bytes) (ws : List Nat) (h : bip39Encode H wl ent = .ok ws) :
    bip39WordNums.contains ws.length = true ∧ ws.length * 4 = ent.length * 3 := by
  by_cases hlen : bip39EntLens.contains ent.length = true
  · obtain ⟨cs, hc1, hc2, hl⟩ := (entLens_iff _).mp hlen
    obtain ⟨hn, -⟩ := bip39Encode_getElem? H hH wl hwl ent ws h
    have hwc : bip39WordCount ent = 3 * cs := by unfold bip39WordCount; omega
    exact ⟨(wordNums_iff _).mpr ⟨cs, hc1, hc2, by omega⟩, by omega⟩
  · rw [bip39Encode_error H wl ent (by simpa using hlen)] at h; cases h

theorem bip39Decode_word_error (H : Bytes → Bytes) (langs : List (List Nat)) (wl ws : List Nat)
    (h : ∃ w ∈ ws, w ∉ wl) : bip39Decode H langs (some wl) ws = .error .value := by
  unfold bip39Decode; rw [bip39DecodeBits_word_error H langs wl ws h]; rfl

theorem bip39Decode_checksum_error (H : Bytes → Bytes) (hH : ∀ x, (H x).length = 32)
    (langs : List (List Nat)) (wl : List Nat) (hwl : wl.length ≤ 2048) (ws : List Nat)
    (hcount : bip39WordNums.contains ws.length = true) (hall : ∀ w ∈ ws, w ∈ wl) (e' : Bytes)
    (he1 : e'.length = ws.length * 11 / 33 * 4)
    (he2 : Bytes.toNatBE e' = bip39B wl ws / 2 ^ (ws.length * 11 / 33))
    (hck : bip39B wl ws % 2 ^ (ws.length * 11 / 33)
        ≠ Bytes.toNatBE (H e') / 2 ^ (256 - ws.length * 11 / 33)) :
    bip39Decode H langs (some wl) ws = .error .checksum := by
  rw [bip39Decode_some_eq H hH langs wl hwl]
  apply bip39DecodeSpec_checksum H wl ws hcount hall
  have he : Bytes.ofNatBE (ws.length * 11 / 33 * 4) (bip39B wl ws / 2 ^ (ws.length * 11 / 33)) = e' := by
    have := ofNatBE_toNatBE e'
    rwa [he1, he2] at this
  rw [he]; exact hck

theorem bip39_decode_iff_encode (H : Bytes → Bytes) (hH : ∀ x, (H x).length = 32) (wl : List Nat)
    (hwl : wl.length = 2048) (hnd : wl.Nodup) (langs : List (List Nat)) (ws : List Nat) (e : Bytes) :
    bip39Decode H langs (some wl) ws = .ok e ↔ bip39Encode H wl e = .ok ws := by
  constructor
  · exact bip39_encode_decode H hH wl hwl langs ws e
  · intro h
    by_cases hlen : bip39EntLens.contains e.length = true
    · have := bip39_decode_encode H hH wl hwl hnd langs e hlen
      rwa [h] at this
    · rw [bip39Encode_error H wl e (by simpa using hlen)] at h; cases h

/-! ### auto-detection, general form; languages that agree on the indexes of the words -/

/-- unconditional form of auto-detection -/
theorem bip39Decode_none_find (H : Bytes → Bytes) (langs : List (List Nat)) (ws : List Nat) :
    bip39Decode H langs none ws
      = match langs.find? (fun L => ws.all (fun w => L.contains w)) with
        | some L => bip39Decode H langs (some L) ws
        | none => .error .value := by
  by_cases hcount : bip39WordNums.contains ws.length = true
  · rw [bip39Decode_none_eq H langs ws hcount]
    unfold findLanguage
    cases langs.find? (fun L => ws.all (fun w => L.contains w)) with
    | some L => rfl
    | none => rfl
  · have hcount' : bip39WordNums.contains ws.length = false := by simpa using hcount
    rw [bip39Decode_count_error H _ _ ws hcount']
    cases langs.find? (fun L => ws.all (fun w => L.contains w)) with
    | some L => simp only; rw [bip39Decode_count_error H _ _ ws hcount']
    | none => rfl

/-- two lists that contain the words of a sentence at the same indexes decode it alike -/
theorem bip39Decode_same_index (H : Bytes → Bytes) (hH : ∀ x, (H x).length = 32)
    (langs : List (List Nat)) (L wl : List Nat) (hL : L.length ≤ 2048) (hwl : wl.length ≤ 2048)
    (ws : List Nat) (hallL : ∀ w ∈ ws, w ∈ L) (hall : ∀ w ∈ ws, w ∈ wl)
    (hidx : ∀ w ∈ ws, L.idxOf w = wl.idxOf w) :
    bip39Decode H langs (some L) ws = bip39Decode H langs (some wl) ws := by
  rw [bip39Decode_some_eq H hH langs L hL, bip39Decode_some_eq H hH langs wl hwl]
  have hB : bip39B L ws = bip39B wl ws := by
    unfold bip39B
    congr 1
    exact List.map_congr_left hidx
  unfold bip39DecodeSpec
  rw [(all_contains_iff L ws).mpr hallL, (all_contains_iff wl ws).mpr hall, hB]

theorem findLanguage_split (pre post : List (List Nat)) (wl ws : List Nat)
    (hall : ∀ w ∈ ws, w ∈ wl) :
    findLanguage (pre ++ wl :: post) ws = .ok wl
      ∨ ∃ L ∈ pre, (∀ w ∈ ws, w ∈ L) ∧ findLanguage (pre ++ wl :: post) ws = .ok L := by
  unfold findLanguage
  rw [List.find?_append]
  cases hp : pre.find? (fun L => ws.all (fun w => L.contains w)) with
  | some L =>
    right
    refine ⟨L, List.mem_of_find?_eq_some hp, ?_, rfl⟩
    have := List.find?_some hp
    exact (all_contains_iff L ws).mp this
  | none =>
    left
    have : (wl :: post).find? (fun L => ws.all (fun w => L.contains w)) = some wl := by
      rw [List.find?_cons_of_pos]; exact (all_contains_iff wl ws).mpr hall
    simp only [Option.none_or, this]
    rfl

/-- round trip with auto-detection when every earlier language either misses a word of the
sentence or has all its words at the same indexes as `wl`. -/
theorem bip39_decode_encode_autodetect_idx (H : Bytes → Bytes) (hH : ∀ x, (H x).length = 32)
    (wl : List Nat) (hwl : wl.length = 2048) (hnd : wl.Nodup) (pre post : List (List Nat))
    (ent : Bytes) (hlen : bip39EntLens.contains ent.length = true)
    (hpre : ∀ ws, bip39Encode H wl ent = .ok ws → ∀ M ∈ pre,
      (∃ w ∈ ws, w ∉ M) ∨ (M.length ≤ 2048 ∧ ∀ w ∈ ws, M.idxOf w = wl.idxOf w)) :
    (bip39Encode H wl ent >>= bip39Decode H (pre ++ wl :: post) none) = .ok ent := by
  obtain ⟨ws, hws, -, hall⟩ := bip39Encode_ok H hH wl hwl ent hlen
  have hrt := bip39_decode_encode H hH wl hwl hnd (pre ++ wl :: post) ent hlen
  have hcount := (bip39Encode_word_count H hH wl hwl ent ws hws).1
  rw [hws] at hrt ⊢
  show bip39Decode H (pre ++ wl :: post) none ws = .ok ent
  rw [bip39Decode_none_eq H _ ws hcount]
  rcases findLanguage_split pre post wl ws hall with hf | ⟨L, hLm, hLall, hf⟩
  · rw [hf]; exact hrt
  · rw [hf]
    simp only
    rcases hpre ws hws L hLm with ⟨w, hw, hn⟩ | ⟨hLlen, hidx⟩
    · exact absurd (hLall w hw) hn
    · rw [bip39Decode_same_index H hH _ L wl hLlen (by omega) ws hLall hall hidx]
      exact hrt

end BipVerif.Model
