/-
Encoder side of the address layer: invalid key bytes are refused with `ValueError` by every
encoder (`…_invalid_key`), the remaining documented parameter errors, and — for non-vacuity of the
round trips — what the encoders output for an accepted key (`…_of_key`).
-/
import BipVerif.Lemmas.AddrBase58
import BipVerif.Lemmas.AddrBech32
import BipVerif.Lemmas.AddrEth
import BipVerif.Lemmas.AddrBase32
import BipVerif.Lemmas.AddrMisc

namespace BipVerif.Model
open BipVerif BipVerif.Prim

theorem addrKey_none {c : CurveT} {pub : Bytes} (h : pubFromBytes c pub = none) :
    addrKey c pub = .error .value := by
  unfold addrKey; rw [h]; rfl

/-! ### invalid key bytes -/

theorem p2pkhEncode_invalid_key (nv : Bytes) (alph : List Char) (compressed : Bool) (pub : Bytes) (h : pubFromBytes .secp256k1 pub = none) :
    p2pkhEncode nv alph compressed pub = .error .value := by
  unfold p2pkhEncode; rw [addrKey_none h]; rfl

theorem p2shEncode_invalid_key (nv : Bytes) (pub : Bytes) (h : pubFromBytes .secp256k1 pub = none) :
    p2shEncode nv pub = .error .value := by
  unfold p2shEncode; rw [addrKey_none h]; rfl

theorem bchP2pkhEncode_invalid_key (hrp : List Char) (nv : Bytes) (pub : Bytes) (h : pubFromBytes .secp256k1 pub = none) :
    bchP2pkhEncode hrp nv pub = .error .value := by
  unfold bchP2pkhEncode; rw [addrKey_none h]; rfl

theorem bchP2shEncode_invalid_key (hrp : List Char) (nv : Bytes) (pub : Bytes) (h : pubFromBytes .secp256k1 pub = none) :
    bchP2shEncode hrp nv pub = .error .value := by
  unfold bchP2shEncode; rw [addrKey_none h]; rfl

theorem p2wpkhEncode_invalid_key (hrp : List Char) (pub : Bytes) (h : pubFromBytes .secp256k1 pub = none) :
    p2wpkhEncode hrp pub = .error .value := by
  unfold p2wpkhEncode; rw [addrKey_none h]; rfl

theorem p2trEncode_invalid_key (hrp : List Char) (pub : Bytes) (h : pubFromBytes .secp256k1 pub = none) :
    p2trEncode hrp pub = .error .value := by
  unfold p2trEncode; rw [addrKey_none h]; rfl

theorem atomEncode_invalid_key (hrp : List Char) (pub : Bytes) (h : pubFromBytes .secp256k1 pub = none) :
    atomEncode hrp pub = .error .value := by
  unfold atomEncode; rw [addrKey_none h]; rfl

theorem avaxEncode_invalid_key (pfx hrp : List Char) (pub : Bytes) (h : pubFromBytes .secp256k1 pub = none) :
    avaxEncode pfx hrp pub = .error .value := by
  unfold avaxEncode; rw [atomEncode_invalid_key hrp pub h]; rfl

theorem ethEncode_invalid_key (pfx : List Char) (skipChk : Bool) (pub : Bytes) (h : pubFromBytes .secp256k1 pub = none) :
    ethEncode pfx skipChk pub = .error .value := by
  unfold ethEncode; rw [addrKey_none h]; rfl

theorem ethBech32Encode_invalid_key (hrp : List Char) (pub : Bytes) (h : pubFromBytes .secp256k1 pub = none) :
    ethBech32Encode hrp pub = .error .value := by
  unfold ethBech32Encode; rw [addrKey_none h]; rfl

theorem trxEncode_invalid_key (pfx : Bytes) (pub : Bytes) (h : pubFromBytes .secp256k1 pub = none) :
    trxEncode pfx pub = .error .value := by
  unfold trxEncode; rw [addrKey_none h]; rfl

theorem aptosEncode_invalid_key (pfx : List Char) (trim : Bool) (pub : Bytes) (h : pubFromBytes .ed25519 pub = none) :
    aptosEncode pfx trim pub = .error .value := by
  unfold aptosEncode; rw [addrKey_none h]; rfl

theorem suiEncode_invalid_key (pfx : List Char) (pub : Bytes) (h : pubFromBytes .ed25519 pub = none) :
    suiEncode pfx pub = .error .value := by
  unfold suiEncode; rw [addrKey_none h]; rfl

theorem icxEncode_invalid_key (pfx : List Char) (pub : Bytes) (h : pubFromBytes .secp256k1 pub = none) :
    icxEncode pfx pub = .error .value := by
  unfold icxEncode; rw [addrKey_none h]; rfl

theorem nearEncode_invalid_key (pub : Bytes) (h : pubFromBytes .ed25519 pub = none) :
    nearEncode pub = .error .value := by
  unfold nearEncode; rw [addrKey_none h]; rfl

theorem eosEncode_invalid_key (pfx : List Char) (pub : Bytes) (h : pubFromBytes .secp256k1 pub = none) :
    eosEncode pfx pub = .error .value := by
  unfold eosEncode; rw [addrKey_none h]; rfl

theorem ergoEncode_invalid_key (netType : Nat) (pub : Bytes) (h : pubFromBytes .secp256k1 pub = none) :
    ergoEncode netType pub = .error .value := by
  unfold ergoEncode; rw [addrKey_none h]; rfl

theorem solEncode_invalid_key (pub : Bytes) (h : pubFromBytes .ed25519 pub = none) :
    solEncode pub = .error .value := by
  unfold solEncode; rw [addrKey_none h]; rfl

theorem xtzEncode_invalid_key (pfx : Bytes) (pub : Bytes) (h : pubFromBytes .ed25519 pub = none) :
    xtzEncode pfx pub = .error .value := by
  unfold xtzEncode; rw [addrKey_none h]; rfl

theorem neoEncode_invalid_key (ver pfx sfx : Bytes) (pub : Bytes) (h : pubFromBytes .nist256p1 pub = none) :
    neoEncode ver pfx sfx pub = .error .value := by
  unfold neoEncode; rw [addrKey_none h]; rfl

theorem algoEncodeAddr_invalid_key (pub : Bytes) (h : pubFromBytes .ed25519 pub = none) :
    algoEncodeAddr pub = .error .value := by
  unfold algoEncodeAddr; rw [addrKey_none h]; rfl

theorem xlmEncode_invalid_key (addrType : Nat) (pub : Bytes) (h : pubFromBytes .ed25519 pub = none) :
    xlmEncode addrType pub = .error .value := by
  unfold xlmEncode; rw [addrKey_none h]; rfl

theorem filEncode_invalid_key (pfx : List Char) (pub : Bytes) (h : pubFromBytes .secp256k1 pub = none) :
    filEncode pfx pub = .error .value := by
  unfold filEncode; rw [addrKey_none h]; rfl

theorem nanoEncode_invalid_key (pfx : List Char) (pub : Bytes) (h : pubFromBytes .ed25519Blake2b pub = none) :
    nanoEncode pfx pub = .error .value := by
  unfold nanoEncode; rw [addrKey_none h]; rfl

theorem nimEncode_invalid_key (pfx : List Char) (pub : Bytes) (h : pubFromBytes .ed25519 pub = none) :
    nimEncode pfx pub = .error .value := by
  unfold nimEncode; rw [addrKey_none h]; rfl

theorem egldEncode_invalid_key (hrp : List Char) (pub : Bytes) (h : pubFromBytes .ed25519 pub = none) :
    egldEncode hrp pub = .error .value := by
  unfold egldEncode; rw [addrKey_none h]; rfl

theorem zilEncode_invalid_key (hrp : List Char) (pub : Bytes) (h : pubFromBytes .secp256k1 pub = none) :
    zilEncode hrp pub = .error .value := by
  unfold zilEncode; rw [addrKey_none h]; rfl

theorem substrateEdEncode_invalid_key (fmt : Nat) (pub : Bytes) (h : pubFromBytes .ed25519 pub = none) :
    substrateEdEncode fmt pub = .error .value := by
  unfold substrateEdEncode; rw [addrKey_none h]; rfl

/-- Monero: the payment-id length is checked first, then the spend key, then the view key -/
theorem xmrAddrEncode_invalid_spend (netVer : Bytes) (payId : Option Bytes) (spend view : Bytes)
    (h : pubFromBytes .ed25519Monero spend = none) :
    xmrAddrEncode netVer payId spend view = .error .value := by
  unfold xmrAddrEncode
  rw [addrKey_none h]
  cases payId with
  | none => rfl
  | some p => dsimp only; split <;> rfl

theorem xmrAddrEncode_invalid_view (netVer : Bytes) (payId : Option Bytes) (spend view : Bytes)
    (h : pubFromBytes .ed25519Monero view = none) :
    xmrAddrEncode netVer payId spend view = .error .value := by
  cases hr : xmrAddrEncode netVer payId spend view with
  | error e => rw [(xmrAddrEncode_ov netVer payId spend view).h e hr]
  | ok a =>
    obtain ⟨_, v, _, hv, _⟩ := xmrAddrEncode_ok_inv hr
    rw [addrKey_none h] at hv; cases hv

theorem xmrAddrEncode_bad_payment_id (netVer pid spend view : Bytes) (h : pid.length ≠ 8) :
    xmrAddrEncode netVer (some pid) spend view = .error .value := by
  unfold xmrAddrEncode
  dsimp only
  rw [if_pos h]; rfl

/-- Substrate: out-of-range and reserved SS58 formats -/
theorem substrateEdEncode_bad_format (fmt : Nat) (pub : Bytes)
    (h : fmt > 16383 ∨ fmt = 46 ∨ fmt = 47) : substrateEdEncode fmt pub = .error .value := by
  cases hr : substrateEdEncode fmt pub with
  | error e => rw [(substrateEdEncode_ov fmt pub).h e hr]
  | ok a =>
    exfalso
    unfold substrateEdEncode at hr
    obtain ⟨k, _, hr⟩ := bind_ok_inv hr
    obtain ⟨_, h1, h2, h3⟩ := ss58Encode_ok_pre hr
    omega

/-! ### what the encoders output for an accepted key (non-vacuity of the round trips)

Every encoder succeeds on an accepted key, except where a further partial operation is involved:
decompression (`uncompressedOf`, which needs the hypothesis that it succeeds — curve arithmetic),
the Taproot tweak, and the SS58 format check. -/

theorem bech32Encode_eq (hrp : List Char) (b : Bytes) :
    bech32Encode hrp b = .ok (bechEncodeRaw .bech32 hrp (regroup 8 5 (bytesToNats b))) := by
  unfold bech32Encode; rw [toBase32_eq]; rfl

theorem segwitEncode_eq (hrp : List Char) (v : Nat) (b : Bytes) :
    segwitEncode hrp v b = .ok (bechEncodeRaw .segwit hrp (v :: regroup 8 5 (bytesToNats b))) := by
  unfold segwitEncode; rw [toBase32_eq]; rfl

theorem bchEncode_eq (hrp : List Char) (nv b : Bytes) :
    bchEncode hrp nv b = .ok (bechEncodeRaw .bch hrp (regroup 8 5 (bytesToNats (nv ++ b)))) := by
  unfold bchEncode; rw [toBase32_eq]; rfl

section
variable {pub k u : Bytes}

theorem p2pkhEncode_of_key (nv : Bytes) (alph : List Char) (hk : addrKey .secp256k1 pub = .ok k) :
    p2pkhEncode nv alph true pub = .ok (b58CheckEncode sha256d alph (nv ++ hash160 k)) := by
  unfold p2pkhEncode; rw [bind_ok_eq hk]; rfl

theorem p2pkhEncode_of_key_uncompressed (nv : Bytes) (alph : List Char)
    (hk : addrKey .secp256k1 pub = .ok k) (hu : uncompressedOf .secp256k1 k = .ok u) :
    p2pkhEncode nv alph false pub = .ok (b58CheckEncode sha256d alph (nv ++ hash160 u)) := by
  unfold p2pkhEncode; rw [bind_ok_eq hk]
  simp only [bind, Except.bind, Bool.false_eq_true, if_false, hu]; rfl

theorem p2shEncode_of_key (nv : Bytes) (hk : addrKey .secp256k1 pub = .ok k) :
    p2shEncode nv pub = .ok (b58CheckEncode sha256d btcAlphabet (nv ++ p2shScriptHash k)) := by
  unfold p2shEncode; rw [bind_ok_eq hk]; rfl

theorem bchP2pkhEncode_of_key (hrp : List Char) (nv : Bytes) (hk : addrKey .secp256k1 pub = .ok k) :
    bchP2pkhEncode hrp nv pub
      = .ok (bechEncodeRaw .bch hrp (regroup 8 5 (bytesToNats (nv ++ hash160 k)))) := by
  unfold bchP2pkhEncode; rw [bind_ok_eq hk]; exact bchEncode_eq _ _ _

theorem bchP2shEncode_of_key (hrp : List Char) (nv : Bytes) (hk : addrKey .secp256k1 pub = .ok k) :
    bchP2shEncode hrp nv pub
      = .ok (bechEncodeRaw .bch hrp (regroup 8 5 (bytesToNats (nv ++ p2shScriptHash k)))) := by
  unfold bchP2shEncode; rw [bind_ok_eq hk]; exact bchEncode_eq _ _ _

theorem p2wpkhEncode_of_key (hrp : List Char) (hk : addrKey .secp256k1 pub = .ok k) :
    p2wpkhEncode hrp pub
      = .ok (bechEncodeRaw .segwit hrp (0 :: regroup 8 5 (bytesToNats (hash160 k)))) := by
  unfold p2wpkhEncode; rw [bind_ok_eq hk]; exact segwitEncode_eq _ _ _

theorem p2trEncode_of_key (hrp : List Char) {t : Bytes} (hk : addrKey .secp256k1 pub = .ok k)
    (ht : p2trTweak k = .ok t) :
    p2trEncode hrp pub = .ok (bechEncodeRaw .segwit hrp (1 :: regroup 8 5 (bytesToNats t))) := by
  unfold p2trEncode; rw [bind_ok_eq hk]
  simp only [bind, Except.bind, ht]; exact segwitEncode_eq _ _ _

theorem atomEncode_of_key (hrp : List Char) (hk : addrKey .secp256k1 pub = .ok k) :
    atomEncode hrp pub = .ok (bechEncodeRaw .bech32 hrp (regroup 8 5 (bytesToNats (hash160 k)))) := by
  unfold atomEncode; rw [bind_ok_eq hk]; exact bech32Encode_eq _ _

theorem avaxEncode_of_key (pfx hrp : List Char) (hk : addrKey .secp256k1 pub = .ok k) :
    avaxEncode pfx hrp pub
      = .ok (pfx ++ bechEncodeRaw .bech32 hrp (regroup 8 5 (bytesToNats (hash160 k)))) := by
  unfold avaxEncode; rw [atomEncode_of_key hrp hk]; rfl

theorem zilEncode_of_key (hrp : List Char) (hk : addrKey .secp256k1 pub = .ok k) :
    zilEncode hrp pub
      = .ok (bechEncodeRaw .bech32 hrp (regroup 8 5 (bytesToNats (takeLast (sha256 k) 20)))) := by
  unfold zilEncode; rw [bind_ok_eq hk]; exact bech32Encode_eq _ _

theorem egldEncode_of_key (hrp : List Char) (hk : addrKey .ed25519 pub = .ok k) :
    egldEncode hrp pub = .ok (bechEncodeRaw .bech32 hrp (regroup 8 5 (bytesToNats (k.drop 1)))) := by
  unfold egldEncode; rw [bind_ok_eq hk]; exact bech32Encode_eq _ _

theorem ethRaw_of_uncompressed (hu : uncompressedOf .secp256k1 k = .ok u) :
    ethRaw k = .ok (hexOfBytes (ethAddrBytes u)) := by
  unfold ethRaw; rw [hu]
  exact congrArg Except.ok (hexOfBytes_drop _ 12)

theorem ethEncode_of_key (pfx : List Char) (skipChk : Bool) (hk : addrKey .secp256k1 pub = .ok k)
    (hu : uncompressedOf .secp256k1 k = .ok u) :
    ethEncode pfx skipChk pub = .ok (pfx ++ (if skipChk then hexOfBytes (ethAddrBytes u)
      else ethChecksumEncode (hexOfBytes (ethAddrBytes u)))) := by
  unfold ethEncode; rw [bind_ok_eq hk]
  simp only [bind, Except.bind, ethRaw_of_uncompressed hu]; rfl

theorem trxEncode_of_key (pfx : Bytes) (hk : addrKey .secp256k1 pub = .ok k)
    (hu : uncompressedOf .secp256k1 k = .ok u) :
    trxEncode pfx pub = .ok (b58CheckEncode sha256d btcAlphabet (pfx ++ ethAddrBytes u)) := by
  unfold trxEncode; rw [bind_ok_eq hk]
  simp only [bind, Except.bind, ethRaw_of_uncompressed hu, bytesOfHex_checksummed]; rfl

theorem ethBech32Encode_of_key (hrp : List Char) (hk : addrKey .secp256k1 pub = .ok k)
    (hu : uncompressedOf .secp256k1 k = .ok u) :
    ethBech32Encode hrp pub
      = .ok (bechEncodeRaw .bech32 hrp (regroup 8 5 (bytesToNats (ethAddrBytes u)))) := by
  unfold ethBech32Encode; rw [bind_ok_eq hk]
  simp only [bind, Except.bind, ethRaw_of_uncompressed hu, bytesOfHex_checksummed]
  exact bech32Encode_eq _ _

theorem icxEncode_of_key (pfx : List Char) (hk : addrKey .secp256k1 pub = .ok k)
    (hu : uncompressedOf .secp256k1 k = .ok u) :
    icxEncode pfx pub = .ok (pfx ++ hexOfBytes (takeLast (sha3_256 (u.drop 1)) 20)) := by
  unfold icxEncode; rw [bind_ok_eq hk]
  simp only [bind, Except.bind, hu]; rfl

theorem filEncode_of_key (pfx : List Char) (hk : addrKey .secp256k1 pub = .ok k)
    (hu : uncompressedOf .secp256k1 k = .ok u) :
    filEncode pfx pub = .ok (pfx ++ ['1'] ++
      base32EncodeNoPad (blake2b160 u ++ blake2b32 ([1] ++ blake2b160 u)) (some filAlphabet)) := by
  unfold filEncode; rw [bind_ok_eq hk]
  simp only [bind, Except.bind, hu]; rfl

theorem aptosEncode_of_key (pfx : List Char) (trim : Bool) (hk : addrKey .ed25519 pub = .ok k) :
    aptosEncode pfx trim pub = .ok (pfx ++ (if trim
      then (hexOfBytes (sha3_256 (k.drop 1 ++ [0]))).dropWhile (· == '0')
      else hexOfBytes (sha3_256 (k.drop 1 ++ [0])))) := by
  unfold aptosEncode; rw [bind_ok_eq hk]; rfl

theorem suiEncode_of_key (pfx : List Char) (hk : addrKey .ed25519 pub = .ok k) :
    suiEncode pfx pub = .ok (pfx ++ hexOfBytes (blake2b256 ([0] ++ k.drop 1))) := by
  unfold suiEncode; rw [bind_ok_eq hk]; rfl

theorem nearEncode_of_key (hk : addrKey .ed25519 pub = .ok k) :
    nearEncode pub = .ok (hexOfBytes (k.drop 1)) := by
  unfold nearEncode; rw [bind_ok_eq hk]; rfl

theorem eosEncode_of_key (pfx : List Char) (hk : addrKey .secp256k1 pub = .ok k) :
    eosEncode pfx pub = .ok (pfx ++ b58Encode btcAlphabet (k ++ (ripemd160 k).take 4)) := by
  unfold eosEncode; rw [bind_ok_eq hk]; rfl

theorem ergoEncode_of_key (netType : Nat) (hk : addrKey .secp256k1 pub = .ok k) :
    ergoEncode netType pub = .ok (b58Encode btcAlphabet ((toBytesAuto (1 + netType) ++ k) ++
      (blake2b256 (toBytesAuto (1 + netType) ++ k)).take 4)) := by
  unfold ergoEncode; rw [bind_ok_eq hk]; rfl

theorem solEncode_of_key (hk : addrKey .ed25519 pub = .ok k) :
    solEncode pub = .ok (b58Encode btcAlphabet (k.drop 1)) := by
  unfold solEncode; rw [bind_ok_eq hk]; rfl

theorem xtzEncode_of_key (pfx : Bytes) (hk : addrKey .ed25519 pub = .ok k) :
    xtzEncode pfx pub = .ok (b58CheckEncode sha256d btcAlphabet (pfx ++ blake2b160 (k.drop 1))) := by
  unfold xtzEncode; rw [bind_ok_eq hk]; rfl

theorem neoEncode_of_key (ver pfx sfx : Bytes) (hk : addrKey .nist256p1 pub = .ok k) :
    neoEncode ver pfx sfx pub
      = .ok (b58CheckEncode sha256d btcAlphabet (ver ++ hash160 (pfx ++ k ++ sfx))) := by
  unfold neoEncode; rw [bind_ok_eq hk]; rfl

theorem algoEncodeAddr_of_key (hk : addrKey .ed25519 pub = .ok k) :
    algoEncodeAddr pub
      = .ok (base32EncodeNoPad (k.drop 1 ++ takeLast (sha512_256 (k.drop 1)) 4) none) := by
  unfold algoEncodeAddr; rw [bind_ok_eq hk]; rfl

theorem xlmEncode_of_key (addrType : Nat) (hk : addrKey .ed25519 pub = .ok k) :
    xlmEncode addrType pub = .ok (base32EncodeNoPad ((toBytesAuto addrType ++ k.drop 1) ++
      xlmCrc (toBytesAuto addrType ++ k.drop 1)) none) := by
  unfold xlmEncode; rw [bind_ok_eq hk]; rfl

theorem nanoEncode_of_key (pfx : List Char) (hk : addrKey .ed25519Blake2b pub = .ok k) :
    nanoEncode pfx pub = .ok (pfx ++ (base32EncodeNoPad
      ([0, 0, 0] ++ k.drop 1 ++ (blake2b40 (k.drop 1)).reverse) (some nanoAlphabet)).drop 4) := by
  unfold nanoEncode; rw [bind_ok_eq hk]; rfl

theorem nimEncode_of_key (pfx : List Char) (hk : addrKey .ed25519 pub = .ok k) :
    nimEncode pfx pub = .ok (
      let enc := base32EncodeNoPad ((blake2b256 (k.drop 1)).take 20) (some nimAlphabet)
      pfx ++ nimChecksum (fun _ => false) enc ++ [' '] ++
        ((chunksOf 4 enc).intersperse [' ']).flatten) := by
  unfold nimEncode; rw [bind_ok_eq hk]; rfl

theorem substrateEdEncode_of_key (fmt : Nat) (hf : fmt ≤ 16383) (h46 : fmt ≠ 46) (h47 : fmt ≠ 47)
    (hk : addrKey .ed25519 pub = .ok k) :
    substrateEdEncode fmt pub = .ok (b58Encode btcAlphabet
      ((ss58FormatBytes fmt ++ k.drop 1) ++ ss58Checksum blake2b512 (ss58FormatBytes fmt ++ k.drop 1))) := by
  unfold substrateEdEncode; rw [bind_ok_eq hk]
  obtain ⟨_, h32, _⟩ := addrKey_ed_inv (c := .ed25519) rfl hk
  exact ss58Encode_ok blake2b512 _ fmt h32 hf h46 h47

theorem xmrAddrEncode_of_keys (netVer : Bytes) {spend view s v : Bytes}
    (hs : addrKey .ed25519Monero spend = .ok s) (hv : addrKey .ed25519Monero view = .ok v) :
    xmrAddrEncode netVer none spend view
      = .ok (xmrEncode ((netVer ++ s ++ v ++ []) ++ (keccak256 (netVer ++ s ++ v ++ [])).take 4)) := by
  unfold xmrAddrEncode; rw [bind_ok_eq hs, bind_ok_eq hv]; rfl

theorem xmrAddrEncode_of_keys_int (netVer pid : Bytes) (hp : pid.length = 8)
    {spend view s v : Bytes}
    (hs : addrKey .ed25519Monero spend = .ok s) (hv : addrKey .ed25519Monero view = .ok v) :
    xmrAddrEncode netVer (some pid) spend view
      = .ok (xmrEncode ((netVer ++ s ++ v ++ pid) ++ (keccak256 (netVer ++ s ++ v ++ pid)).take 4)) := by
  unfold xmrAddrEncode; rw [bind_ok_eq hs, bind_ok_eq hv]
  dsimp only
  rw [if_neg (by simpa using hp)]; rfl

end

end BipVerif.Model
