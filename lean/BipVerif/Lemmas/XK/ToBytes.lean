/- Fixed-width integer <-> bytes lemmas: `toBytesBE` (`int.to_bytes`), `Bytes.ofNatBE`. -/
import BipVerif.Lemmas.Bytes

namespace BipVerif.Model.XK
open BipVerif

theorem ofNatLE_length (n v : Nat) : (Bytes.ofNatLE n v).length = n := by
  induction n generalizing v with
  | zero => rfl
  | succ n ih => simp [Bytes.ofNatLE, ih]

theorem ofNatBE_length (n v : Nat) : (Bytes.ofNatBE n v).length = n := by
  simp [Bytes.ofNatBE, ofNatLE_length]

theorem ofDigits_ofNatLE (n v : Nat) :
    Nat.ofDigits 256 ((Bytes.ofNatLE n v).map UInt8.toNat) = v % 256 ^ n := by
  induction n generalizing v with
  | zero => simp [Bytes.ofNatLE, Nat.mod_one]
  | succ n ih =>
    simp only [Bytes.ofNatLE, List.map_cons, Nat.ofDigits_cons, ih]
    rw [UInt8.toNat_ofNat']
    have h1 : v % 256 % 2 ^ 8 = v % 256 := Nat.mod_eq_of_lt (by omega)
    rw [h1, pow_succ, Nat.mul_comm (256 ^ n) 256, Nat.mod_mul]

theorem toNatBE_ofNatBE (n v : Nat) : Bytes.toNatBE (Bytes.ofNatBE n v) = v % 256 ^ n := by
  rw [toNatBE_eq, ofDigitsBE_eq, Bytes.ofNatBE, ← List.map_reverse, List.reverse_reverse]
  exact ofDigits_ofNatLE n v

theorem natToBytesMin_length (v : Nat) : (natToBytesMin v).length = (Nat.digits 256 v).length := by
  unfold natToBytesMin
  rw [digitsBE_eq 256 (by omega)]; simp

theorem natToBytesMin_length_le_iff (v n : Nat) : (natToBytesMin v).length ≤ n ↔ v < 256 ^ n := by
  rw [natToBytesMin_length]; exact Nat.digits_length_le_iff (by omega) v

theorem toBytesBE_overflow (v n : Nat) (h : ¬ v < 256 ^ n) : toBytesBE v n = .error .overflow := by
  unfold toBytesBE
  simp only
  rw [if_neg (by rw [natToBytesMin_length_le_iff]; exact h)]; rfl

/-- re-encoding the value of a byte string at its own width gives it back. -/
theorem toBytesBE_toNatBE (b : Bytes) : toBytesBE (Bytes.toNatBE b) b.length = .ok b := by
  have hs := split_leading (0 : UInt8) b
  have hm := natToBytesMin_toNatBE b
  have hlen : b.length = leadingCount (0 : UInt8) b + (b.dropWhile (· == (0 : UInt8))).length := by
    conv_lhs => rw [hs]
    simp
  unfold toBytesBE
  simp only [hm]
  rw [if_pos (by omega)]
  have : b.length - (b.dropWhile (· == (0 : UInt8))).length = leadingCount (0 : UInt8) b := by omega
  rw [this]
  exact congrArg Except.ok hs.symm

theorem toBytesBE_eq (v n : Nat) (h : v < 256 ^ n) : toBytesBE v n = .ok (Bytes.ofNatBE n v) := by
  have h1 := toBytesBE_toNatBE (Bytes.ofNatBE n v)
  rwa [toNatBE_ofNatBE, ofNatBE_length, Nat.mod_eq_of_lt h] at h1

theorem toBytesBE_ok_iff (v n : Nat) : (∃ b, toBytesBE v n = .ok b) ↔ v < 256 ^ n := by
  constructor
  · rintro ⟨b, hb⟩
    by_contra hn
    rw [toBytesBE_overflow v n hn] at hb; cases hb
  · intro h; exact ⟨_, toBytesBE_eq v n h⟩

theorem toBytesBE_error (v n : Nat) (e : Err) (h : toBytesBE v n = .error e) : e = .overflow := by
  by_cases hv : v < 256 ^ n
  · rw [toBytesBE_eq v n hv] at h; cases h
  · rw [toBytesBE_overflow v n hv] at h; exact (Except.error.inj h).symm

theorem ofNatBE_one (v : Nat) (h : v < 256) : Bytes.ofNatBE 1 v = [UInt8.ofNat v] := by
  simp [Bytes.ofNatBE, Bytes.ofNatLE, Nat.mod_eq_of_lt h]

/-- `ofNatBE` undoes `toNatBE` at the right width. -/
theorem ofNatBE_toNatBE (b : Bytes) : Bytes.ofNatBE b.length (Bytes.toNatBE b) = b := by
  have h1 := toBytesBE_toNatBE b
  by_cases hv : Bytes.toNatBE b < 256 ^ b.length
  · rw [toBytesBE_eq _ _ hv] at h1; exact Except.ok.inj h1
  · rw [toBytesBE_overflow _ _ hv] at h1; cases h1

theorem toNatBE_lt (b : Bytes) : Bytes.toNatBE b < 256 ^ b.length :=
  (toBytesBE_ok_iff _ _).mp ⟨b, toBytesBE_toNatBE b⟩

end BipVerif.Model.XK
