/- Base58Check: round trip, shape of accepted strings, error kinds. -/
import BipVerif.Lemmas.Base58

namespace BipVerif.Model.XK
open BipVerif

theorem btcAlphabet_nodup : btcAlphabet.Nodup := by decide
theorem btcAlphabet_length : btcAlphabet.length = 58 := by decide

theorem dropLast_append_of_length {α} (a b : List α) (k : Nat) (h : b.length = k) :
    dropLast (a ++ b) k = a := by
  unfold dropLast; simp [h]

theorem takeLast_append_of_length {α} (a b : List α) (k : Nat) (h : b.length = k) :
    takeLast (a ++ b) k = b := by
  unfold takeLast; simp [h]

theorem dropLast_append_takeLast {α} (l : List α) (k : Nat) :
    dropLast l k ++ takeLast l k = l := by
  unfold dropLast takeLast; exact List.take_append_drop _ _

/-- `b58CheckDecode` in terms of the plain decoder. -/
theorem b58CheckDecode_of_decode (H : Bytes → Bytes) (alph : List Char) (s : List Char) (dec : Bytes)
    (h : b58Decode alph s = .ok dec) :
    b58CheckDecode H alph s =
      if takeLast dec 4 != (H (dropLast dec 4)).take 4 then .error .checksum
      else .ok (dropLast dec 4) := by
  unfold b58CheckDecode
  rw [h]
  simp only [bind, Except.bind]
  split <;> rfl

theorem b58CheckDecode_of_decode_error (H : Bytes → Bytes) (alph : List Char) (s : List Char) (e : Err)
    (h : b58Decode alph s = .error e) : b58CheckDecode H alph s = .error e := by
  unfold b58CheckDecode
  rw [h]; rfl

/-- the plain decoder fails only with `.value` (a symbol outside the alphabet). -/
theorem mapM_alphaIndex_error (alph : List Char) (s : List Char) (e : Err)
    (h : s.mapM (alphaIndex alph) = .error e) : e = .value := by
  induction s generalizing e with
  | nil => simp [pure, Except.pure] at h
  | cons c t ih =>
    rw [List.mapM_cons] at h
    unfold alphaIndex at h
    cases hc : alph.idxOf? c with
    | none =>
      rw [hc] at h
      simp only [bind, Except.bind, throw, throwThe, MonadExceptOf.throw] at h
      exact (Except.error.inj h).symm
    | some i =>
      rw [hc] at h
      cases ht : t.mapM (alphaIndex alph) with
      | error e' =>
        have := ih e' ht
        unfold alphaIndex at ht
        rw [ht] at h
        simp only [bind, Except.bind, pure, Except.pure] at h
        rw [← Except.error.inj h]; exact this
      | ok ds =>
        unfold alphaIndex at ht
        rw [ht] at h
        simp [bind, Except.bind, pure, Except.pure] at h

theorem b58Decode_error (alph : List Char) (s : List Char) (e : Err)
    (h : b58Decode alph s = .error e) : e = .value := by
  unfold b58Decode at h
  cases hm : s.mapM (alphaIndex alph) with
  | error e' =>
    rw [hm] at h
    simp only [bind, Except.bind] at h
    rw [← Except.error.inj h]; exact mapM_alphaIndex_error alph s e' hm
  | ok ds =>
    rw [hm] at h
    simp [bind, Except.bind, pure, Except.pure] at h

/-- the plain decoder fails exactly when some symbol is outside the alphabet. -/
theorem mapM_alphaIndex_ok_iff (alph : List Char) (s : List Char) :
    (∃ ds, s.mapM (alphaIndex alph) = .ok ds) ↔ ∀ c ∈ s, c ∈ alph := by
  induction s with
  | nil => simp [pure, Except.pure]
  | cons c t ih =>
    rw [List.mapM_cons]
    constructor
    · rintro ⟨ds, h⟩
      unfold alphaIndex at h
      cases hc : alph.idxOf? c with
      | none =>
        rw [hc] at h
        simp [bind, Except.bind, throw, throwThe, MonadExceptOf.throw] at h
      | some i =>
        rw [hc] at h
        cases ht : t.mapM (alphaIndex alph) with
        | error e' =>
          unfold alphaIndex at ht
          rw [ht] at h
          simp [bind, Except.bind, pure, Except.pure] at h
        | ok ds' =>
          have hall := ih.mp ⟨ds', ht⟩
          intro x hx
          rcases List.mem_cons.mp hx with rfl | hx
          · by_contra hn
            have : alph.idxOf? x = none := List.idxOf?_eq_none_iff.mpr hn
            rw [this] at hc; cases hc
          · exact hall x hx
    · intro hall
      have hc : c ∈ alph := hall c (by simp)
      obtain ⟨ds', ht⟩ := ih.mpr (fun x hx => hall x (by simp [hx]))
      have : ∃ i, alph.idxOf? c = some i := by
        cases hi : alph.idxOf? c with
        | some i => exact ⟨i, rfl⟩
        | none =>
          exact absurd hc (List.idxOf?_eq_none_iff.mp hi)
      obtain ⟨i, hi⟩ := this
      refine ⟨i :: ds', ?_⟩
      unfold alphaIndex at ht ⊢
      rw [hi, ht]; rfl

theorem b58Decode_ok_iff (alph : List Char) (s : List Char) :
    (∃ b, b58Decode alph s = .ok b) ↔ ∀ c ∈ s, c ∈ alph := by
  rw [← mapM_alphaIndex_ok_iff]
  unfold b58Decode
  constructor
  · rintro ⟨b, h⟩
    cases hm : s.mapM (alphaIndex alph) with
    | error e' => rw [hm] at h; simp [bind, Except.bind] at h
    | ok ds => exact ⟨ds, rfl⟩
  · rintro ⟨ds, h⟩
    rw [h]; exact ⟨_, rfl⟩

/-- **Base58Check round trip** for any checksum function with at least 4 output bytes. -/
theorem b58Check_decode_encode (H : Bytes → Bytes) (alph : List Char) (hn : alph.Nodup)
    (hl : alph.length = 58) (hH : ∀ x, (H x).length ≥ 4) (data : Bytes) :
    b58CheckDecode H alph (b58CheckEncode H alph data) = .ok data := by
  have hck : ((H data).take 4).length = 4 := by
    rw [List.length_take]; have := hH data; omega
  have hdec : b58Decode alph (b58CheckEncode H alph data) = .ok (data ++ (H data).take 4) :=
    b58_decode_encode alph hn hl _
  rw [b58CheckDecode_of_decode H alph _ _ hdec,
    dropLast_append_of_length _ _ 4 hck, takeLast_append_of_length _ _ 4 hck]
  simp

theorem b58CheckDecode_btc_encode (H : Bytes → Bytes) (hH : ∀ x, (H x).length ≥ 4) (data : Bytes) :
    b58CheckDecode H btcAlphabet (b58CheckEncode H btcAlphabet data) = .ok data :=
  b58Check_decode_encode H btcAlphabet btcAlphabet_nodup btcAlphabet_length hH data

/-- error kinds of `b58CheckDecode`: only `.value` (alphabet) or `.checksum`. -/
theorem b58CheckDecode_error (H : Bytes → Bytes) (alph : List Char) (s : List Char) (e : Err)
    (h : b58CheckDecode H alph s = .error e) : e = .value ∨ e = .checksum := by
  cases hd : b58Decode alph s with
  | error e' =>
    rw [b58CheckDecode_of_decode_error H alph s e' hd] at h
    rw [← Except.error.inj h]; exact Or.inl (b58Decode_error alph s e' hd)
  | ok dec =>
    rw [b58CheckDecode_of_decode H alph s dec hd] at h
    split at h
    · exact Or.inr (Except.error.inj h).symm
    · cases h

/-- `.value` exactly for alphabet damage -/
theorem b58CheckDecode_value_iff (H : Bytes → Bytes) (alph : List Char) (s : List Char) :
    b58CheckDecode H alph s = .error .value ↔ ¬ ∀ c ∈ s, c ∈ alph := by
  rw [← b58Decode_ok_iff]
  cases hd : b58Decode alph s with
  | error e' =>
    have he := b58Decode_error alph s e' hd
    subst he
    rw [b58CheckDecode_of_decode_error H alph s _ hd]
    simp
  | ok dec =>
    rw [b58CheckDecode_of_decode H alph s dec hd]
    constructor
    · intro h; split at h <;> cases h
    · intro h; exact absurd ⟨dec, rfl⟩ h

/-- `.checksum` exactly when the string decodes but the last four bytes are not the hash prefix -/
theorem b58CheckDecode_checksum_iff (H : Bytes → Bytes) (alph : List Char) (s : List Char) :
    b58CheckDecode H alph s = .error .checksum ↔
      ∃ dec, b58Decode alph s = .ok dec ∧ takeLast dec 4 ≠ (H (dropLast dec 4)).take 4 := by
  cases hd : b58Decode alph s with
  | error e' =>
    have he := b58Decode_error alph s e' hd
    subst he
    rw [b58CheckDecode_of_decode_error H alph s _ hd]
    simp
  | ok dec =>
    rw [b58CheckDecode_of_decode H alph s dec hd]
    constructor
    · intro h
      refine ⟨dec, rfl, ?_⟩
      split at h
      · rename_i hne; simpa using hne
      · cases h
    · rintro ⟨dec', h1, h2⟩
      cases h1
      rw [if_pos (by simpa using h2)]

/-- success: the string decodes to `data ++ H(data)[:4]`. -/
theorem b58CheckDecode_ok_iff (H : Bytes → Bytes) (alph : List Char) (hH : ∀ x, (H x).length ≥ 4)
    (s : List Char) (data : Bytes) :
    b58CheckDecode H alph s = .ok data ↔ b58Decode alph s = .ok (data ++ (H data).take 4) := by
  have hck : ((H data).take 4).length = 4 := by
    rw [List.length_take]; have := hH data; omega
  cases hd : b58Decode alph s with
  | error e' =>
    rw [b58CheckDecode_of_decode_error H alph s _ hd]
    simp
  | ok dec =>
    rw [b58CheckDecode_of_decode H alph s dec hd]
    constructor
    · intro h
      split at h
      · cases h
      · rename_i hne
        have hd' : dropLast dec 4 = data := Except.ok.inj h
        have ht : takeLast dec 4 = (H (dropLast dec 4)).take 4 := by simpa using hne
        rw [hd'] at ht
        rw [← dropLast_append_takeLast dec 4, hd', ht]
    · intro h
      have : dec = data ++ (H data).take 4 := Except.ok.inj h
      subst this
      rw [dropLast_append_of_length _ _ 4 hck, takeLast_append_of_length _ _ 4 hck]
      simp

end BipVerif.Model.XK
