/- Base58 canonicity: every accepted string is the encoding of its decoding. -/
import BipVerif.Lemmas.Base58

namespace BipVerif.Model.XK
open BipVerif

theorem map_toNat_ofNat (ds : List Nat) (h : ∀ d ∈ ds, d < 256) :
    (ds.map UInt8.ofNat).map UInt8.toNat = ds := by
  induction ds with
  | nil => rfl
  | cons a t ih =>
    have ha : a < 256 := h a (by simp)
    simp only [List.map_cons, UInt8.toNat_ofNat']
    rw [Nat.mod_eq_of_lt (by omega), ih (fun d hd => h d (by simp [hd]))]

theorem toNatBE_natToBytesMin (v : Nat) : Bytes.toNatBE (natToBytesMin v) = v := by
  rw [toNatBE_eq]
  unfold natToBytesMin
  rw [map_toNat_ofNat _ (digitsBE_lt 256 (by omega) v)]
  exact ofDigitsBE_digitsBE 256 (by omega) v

theorem natToBytesMin_head (v : Nat) : (natToBytesMin v).head? ≠ some 0 := by
  unfold natToBytesMin
  have hne := digitsBE_head_ne_zero 256 (by omega) v
  have hlt := digitsBE_lt 256 (by omega) v
  cases hds : digitsBE 256 v [] with
  | nil => simp
  | cons a t =>
    rw [hds] at hne hlt
    have ha : a < 256 := hlt a (by simp)
    simp only [List.map_cons, List.head?_cons, ne_eq, Option.some.injEq] at hne ⊢
    intro h0
    apply hne
    have := congrArg UInt8.toNat h0
    rw [UInt8.toNat_ofNat', Nat.mod_eq_of_lt (by omega)] at this
    simpa using this

theorem toNatBE_zeros_append (n : Nat) (b : Bytes) :
    Bytes.toNatBE (List.replicate n 0 ++ b) = Bytes.toNatBE b := by
  rw [toNatBE_eq, toNatBE_eq, List.map_append, List.map_replicate]
  exact ofDigitsBE_zeros_append 256 n _

/-- what an accepted symbol list looks like: it is the image of its index list, and every
index is the *first* position of its symbol. -/
theorem mapM_alphaIndex_ok (alph : List Char) (s : List Char) (ds : List Nat)
    (h : s.mapM (alphaIndex alph) = .ok ds) :
    s = ds.map (fun d => alph.getD d 'x') ∧
      ∀ d ∈ ds, d < alph.length ∧ alph.idxOf? (alph.getD d 'x') = some d := by
  induction s generalizing ds with
  | nil =>
    simp only [List.mapM_nil, pure, Except.pure] at h
    cases h; simp
  | cons c t ih =>
    rw [List.mapM_cons] at h
    unfold alphaIndex at h
    cases hc : alph.idxOf? c with
    | none =>
      rw [hc] at h
      simp [bind, Except.bind, throw, throwThe, MonadExceptOf.throw] at h
    | some i =>
      rw [hc] at h
      cases ht : t.mapM (alphaIndex alph) with
      | error e' =>
        unfold alphaIndex at ht
        rw [ht] at h
        simp [bind, Except.bind, pure, Except.pure] at h
      | ok ds' =>
        have ht' := ht
        unfold alphaIndex at ht'
        rw [ht'] at h
        simp only [bind, Except.bind, pure, Except.pure] at h
        cases h
        obtain ⟨hs, hall⟩ := ih ds' ht
        have hi : ∃ hlt : i < alph.length, alph[i] = c := by
          rw [List.idxOf?, List.findIdx?_eq_some_iff_getElem] at hc
          obtain ⟨hlt, hp, _⟩ := hc
          exact ⟨hlt, by simpa using hp⟩
        obtain ⟨hlt, hci⟩ := hi
        have hget : alph.getD i 'x' = c := by
          simp [List.getD_eq_getElem?_getD, hlt, hci]
        refine ⟨by simp only [List.map_cons, hget]; rw [← hs], ?_⟩
        intro d hd
        rcases List.mem_cons.mp hd with rfl | hd
        · exact ⟨hlt, by rw [hget]; exact hc⟩
        · exact hall d hd

theorem leadingCount_map {α β} [BEq α] [BEq β] (f : α → β) (x : β) (y : α) (l : List α)
    (h : ∀ a ∈ l, (f a == x) = (a == y)) : leadingCount x (l.map f) = leadingCount y l := by
  unfold leadingCount
  induction l with
  | nil => rfl
  | cons a t ih =>
    have ha := h a (by simp)
    simp only [List.map_cons, List.takeWhile_cons, ha]
    cases hay : a == y
    · simp
    · simp only [if_true, List.length_cons]
      rw [ih (fun b hb => h b (by simp [hb]))]

/-- **Base58 canonicity**: an accepted string is exactly the encoding of what it decodes to
(so decoding is injective on accepted strings). -/
theorem b58_encode_decode (alph : List Char) (hl : alph.length = 58) (s : List Char) (b : Bytes)
    (h : b58Decode alph s = .ok b) : b58Encode alph b = s := by
  unfold b58Decode at h
  cases hm : s.mapM (alphaIndex alph) with
  | error e' => rw [hm] at h; simp [bind, Except.bind] at h
  | ok ds =>
    rw [hm] at h
    simp only [bind, Except.bind, pure, Except.pure] at h
    have hb := (Except.ok.inj h).symm
    obtain ⟨hs, hall⟩ := mapM_alphaIndex_ok alph s ds hm
    -- leading pad symbols correspond to leading zero digits
    have h0 : alph.idxOf? (alph.getD 0 'x') = some 0 := by
      cases alph with
      | nil => simp at hl
      | cons a t => simp [List.idxOf?, List.findIdx?_cons]
    have hpad : leadingCount (alph.getD 0 'x') s = leadingCount 0 ds := by
      rw [hs]
      apply leadingCount_map
      intro d hd
      obtain ⟨_, hidx⟩ := hall d hd
      by_cases hd0 : d = 0
      · subst hd0; simp
      · have : alph.getD d 'x' ≠ alph.getD 0 'x' := by
          intro e
          rw [e, h0] at hidx
          exact hd0 (Option.some.inj hidx).symm
        rw [beq_eq_false_iff_ne.mpr this, beq_eq_false_iff_ne.mpr hd0]
    rw [hpad] at hb
    -- the digit list splits into zeros and a canonical tail
    have hsplit := split_leading (0 : Nat) ds
    set r := ds.dropWhile (· == (0 : Nat)) with hr
    have hv : ofDigitsBE 58 ds = ofDigitsBE 58 r := by
      conv_lhs => rw [hsplit]
      exact ofDigitsBE_zeros_append 58 _ _
    have hrlt : ∀ d ∈ r, d < 58 := by
      intro d hd
      have : d ∈ ds := by rw [hsplit]; exact List.mem_append_right _ hd
      rw [← hl]; exact (hall d this).1
    have hdig : digitsBE 58 (ofDigitsBE 58 ds) [] = r := by
      rw [hv]
      exact digitsBE_ofDigitsBE 58 (by omega) r hrlt (dropWhile_head_ne (0 : Nat) ds)
    have hval : Bytes.toNatBE b = ofDigitsBE 58 ds := by
      rw [hb, toNatBE_zeros_append, toNatBE_natToBytesMin]
    have hlead : leadingCount (0 : UInt8) b = leadingCount 0 ds := by
      rw [hb]
      exact leadingCount_replicate_append (0 : UInt8) _ _ (natToBytesMin_head _)
    unfold b58Encode
    simp only [hval, hlead, hdig]
    conv_rhs => rw [hs, hsplit]
    simp

/-- decoding is injective on accepted strings -/
theorem b58Decode_inj (alph : List Char) (hl : alph.length = 58) (s t : List Char) (b : Bytes)
    (hs : b58Decode alph s = .ok b) (ht : b58Decode alph t = .ok b) : s = t := by
  rw [← b58_encode_decode alph hl s b hs, ← b58_encode_decode alph hl t b ht]

end BipVerif.Model.XK
