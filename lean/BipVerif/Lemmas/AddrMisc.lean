/-
Hex-text addresses (Icon, Sui, Aptos, Near), Substrate (ed25519 keys in SS58) and Monero.
-/
import BipVerif.Lemmas.Addr
import BipVerif.Lemmas.AddrBase58
import BipVerif.Lemmas.Base58Xmr
import BipVerif.Lemmas.SS58

namespace BipVerif.Model
open BipVerif BipVerif.Prim

/-! ### Icon -/

theorem icxDecode_canon (pfx : List Char) (b : Bytes) (hb : b.length = 20) :
    icxDecode pfx (pfx ++ hexOfBytes b) = .ok b := by
  unfold icxDecode
  rw [removePrefix_append]
  simp only [bind, Except.bind]
  rw [bytesOfHex_hexOfBytes]
  simp only
  rw [validateLength_ok _ _ hb]
  rfl

theorem icx_decode_encode (pfx : List Char) (pub : Bytes) (addr : List Char)
    (h : icxEncode pfx pub = .ok addr) :
    ∃ k u, addrKey .secp256k1 pub = .ok k ∧ uncompressedOf .secp256k1 k = .ok u ∧
      icxDecode pfx addr = .ok (takeLast (sha3_256 (u.drop 1)) 20) := by
  unfold icxEncode at h
  obtain ⟨k, hk, h⟩ := bind_ok_inv h
  obtain ⟨u, hu, h⟩ := bind_ok_inv h
  refine ⟨k, u, hk, hu, ?_⟩
  rw [← pure_ok_inv h]
  exact icxDecode_canon pfx _ (takeLast_length_of_le _ _ (by rw [sha3_256_length]; omega))

theorem icxEncode_ov (pfx : List Char) (pub : Bytes) : OnlyValue (icxEncode pfx pub) := by
  unfold icxEncode; ov
theorem icxDecode_ov (pfx addr : List Char) : OnlyValue (icxDecode pfx addr) := by
  unfold icxDecode; ov

/-! ### Sui -/

theorem suiDecode_canon (pfx : List Char) (b : Bytes) (hb : b.length = 32) :
    suiDecode pfx (pfx ++ hexOfBytes b) = .ok b := by
  unfold suiDecode
  rw [removePrefix_append]
  simp only [bind, Except.bind]
  rw [validateLength_ok _ _ (by rw [hexOfBytes_length, hb])]
  exact bytesOfHex_hexOfBytes b

theorem sui_decode_encode (pfx : List Char) (pub : Bytes) (addr : List Char)
    (h : suiEncode pfx pub = .ok addr) :
    ∃ k, addrKey .ed25519 pub = .ok k ∧
      suiDecode pfx addr = .ok (blake2b256 ([0] ++ k.drop 1)) := by
  unfold suiEncode at h
  obtain ⟨k, hk, h⟩ := bind_ok_inv h
  refine ⟨k, hk, ?_⟩
  rw [← pure_ok_inv h]
  exact suiDecode_canon pfx _ (blake2b256_length _)

theorem suiEncode_ov (pfx : List Char) (pub : Bytes) : OnlyValue (suiEncode pfx pub) := by
  unfold suiEncode; ov
theorem suiDecode_ov (pfx addr : List Char) : OnlyValue (suiDecode pfx addr) := by
  unfold suiDecode; ov

/-! ### Aptos (optionally trimmed: the decoder re-pads with `0`) -/

/-- left-padding the zero-trimmed text restores it -/
theorem rjust_dropWhile_zero (h : List Char) (n : Nat) (hn : h.length = n) :
    rjust n '0' (h.dropWhile (· == '0')) = h := by
  unfold rjust
  have hs := split_leading '0' h
  have hl := congrArg List.length hs
  rw [List.length_append, List.length_replicate] at hl
  have : n - (h.dropWhile (· == '0')).length = leadingCount '0' h := by omega
  rw [this]
  exact hs.symm

theorem rjust_of_length (h : List Char) (n : Nat) (hn : h.length = n) : rjust n '0' h = h := by
  unfold rjust; rw [hn]; simp

theorem aptosDecode_canon (pfx : List Char) (trim : Bool) (b : Bytes) (hb : b.length = 32) :
    aptosDecode pfx
      (pfx ++ (if trim then (hexOfBytes b).dropWhile (· == '0') else hexOfBytes b)) = .ok b := by
  have hl : (hexOfBytes b).length = 64 := by rw [hexOfBytes_length, hb]
  have hr : rjust 64 '0' (if trim then (hexOfBytes b).dropWhile (· == '0') else hexOfBytes b)
      = hexOfBytes b := by
    cases trim with
    | true => exact rjust_dropWhile_zero _ 64 hl
    | false => exact rjust_of_length _ 64 hl
  unfold aptosDecode
  rw [removePrefix_append]
  simp only [bind, Except.bind, hr]
  rw [validateLength_ok _ _ hl]
  exact bytesOfHex_hexOfBytes b

theorem aptos_decode_encode (pfx : List Char) (trim : Bool) (pub : Bytes) (addr : List Char)
    (h : aptosEncode pfx trim pub = .ok addr) :
    ∃ k, addrKey .ed25519 pub = .ok k ∧
      aptosDecode pfx addr = .ok (sha3_256 (k.drop 1 ++ [0])) := by
  unfold aptosEncode at h
  obtain ⟨k, hk, h⟩ := bind_ok_inv h
  refine ⟨k, hk, ?_⟩
  rw [← pure_ok_inv h]
  exact aptosDecode_canon pfx trim _ (sha3_256_length _)

theorem aptosEncode_ov (pfx : List Char) (trim : Bool) (pub : Bytes) :
    OnlyValue (aptosEncode pfx trim pub) := by
  unfold aptosEncode; ov
theorem aptosDecode_ov (pfx addr : List Char) : OnlyValue (aptosDecode pfx addr) := by
  unfold aptosDecode; ov

/-! ### Near -/

theorem nearDecode_canon (kb : Bytes) (hk : kb.length = 32) (hv : pubValid .ed25519 kb = true) :
    nearDecode (hexOfBytes kb) = .ok kb := by
  unfold nearDecode
  rw [bytesOfHex_hexOfBytes]
  simp only [bind, Except.bind]
  rw [validateLength_ok _ _ hk]
  simp only [validatePubKey_ok _ _ hv]
  rfl

theorem near_decode_encode (pub : Bytes) (addr : List Char) (h : nearEncode pub = .ok addr) :
    ∃ k, addrKey .ed25519 pub = .ok k ∧ nearDecode addr = .ok (k.drop 1) := by
  unfold nearEncode at h
  obtain ⟨k, hk, h⟩ := bind_ok_inv h
  obtain ⟨_, h32, _, _, hval⟩ := addrKey_ed_inv (c := .ed25519) rfl hk
  refine ⟨k, hk, ?_⟩
  rw [← pure_ok_inv h]
  exact nearDecode_canon _ h32 hval

theorem nearEncode_ov (pub : Bytes) : OnlyValue (nearEncode pub) := by unfold nearEncode; ov
theorem nearDecode_ov (addr : List Char) : OnlyValue (nearDecode addr) := by unfold nearDecode; ov

/-! ### Substrate, ed25519 keys -/

theorem blake2b512_ge2 : ∀ x, 2 ≤ (blake2b512 x).length := fun x => by
  rw [blake2b512_length]; omega

/-- a successful SS58 encoding certifies its own preconditions -/
theorem ss58Encode_ok_pre {H : Bytes → Bytes} {data : Bytes} {fmt : Nat} {s : List Char}
    (h : ss58Encode H data fmt = .ok s) :
    data.length = 32 ∧ fmt ≤ 16383 ∧ fmt ≠ 46 ∧ fmt ≠ 47 := by
  unfold ss58Encode at h
  by_cases h1 : data.length = 32
  · by_cases h2 : fmt ≤ 16383
    · by_cases h3 : fmt = 46 ∨ fmt = 47
      · exfalso
        have h2' : ¬ fmt > 16383 := by omega
        simp only [h1, ne_eq, not_true_eq_false, if_false, h2', bind, Except.bind, pure,
          Except.pure] at h
        rw [if_pos (by simpa using h3)] at h
        cases h
      · exact ⟨h1, h2, fun e => h3 (Or.inl e), fun e => h3 (Or.inr e)⟩
    · exfalso
      have h2' : fmt > 16383 := by omega
      simp only [h1, ne_eq, not_true_eq_false, if_false, h2', if_true, bind, Except.bind] at h
      cases h
  · exfalso
    simp only [ne_eq, h1, not_false_eq_true, if_true, bind, Except.bind] at h
    cases h

theorem OnlyValue.ss58Encode (H : Bytes → Bytes) (data : Bytes) (fmt : Nat) :
    OnlyValue (ss58Encode H data fmt) := by
  unfold Model.ss58Encode; ov

theorem OnlyValue.ss58 (H : Bytes → Bytes) (s : List Char) :
    OnlyValue (Model.ckToValue (ss58Decode H s)) :=
  OnlyValue.ckToValue (fun _ h => ss58_decode_errors H h)

theorem substrateEd_decode_encode (fmt : Nat) (pub : Bytes) (addr : List Char)
    (h : substrateEdEncode fmt pub = .ok addr) :
    ∃ k, addrKey .ed25519 pub = .ok k ∧ substrateEdDecode fmt addr = .ok (k.drop 1) := by
  unfold substrateEdEncode at h
  obtain ⟨k, hk, h⟩ := bind_ok_inv h
  obtain ⟨_, h32, _, _, hval⟩ := addrKey_ed_inv (c := .ed25519) rfl hk
  obtain ⟨_, hf, h46, h47⟩ := ss58Encode_ok_pre h
  refine ⟨k, hk, ?_⟩
  have hd := ss58_decode_encode blake2b512 blake2b512_ge2 (k.drop 1) fmt h32 hf h46 h47
  rw [bind_ok_eq h] at hd
  unfold substrateEdDecode
  rw [hd, ckToValue_ok]
  simp only [bind, Except.bind, ne_eq, not_true_eq_false, if_false, validatePubKey_ok _ _ hval]
  rfl

/-- the documented parameter error of the encoder: an out-of-range or reserved SS58 format is
refused with `ValueError` as well. -/
theorem substrateEdEncode_ov (fmt : Nat) (pub : Bytes) : OnlyValue (substrateEdEncode fmt pub) := by
  unfold substrateEdEncode
  exact OnlyValue.bind (OnlyValue.addrKey _ _) (fun _ _ => OnlyValue.ss58Encode _ _ _)

theorem substrateEdDecode_ov (fmt : Nat) (addr : List Char) :
    OnlyValue (substrateEdDecode fmt addr) := by
  unfold substrateEdDecode
  apply OnlyValue.bind (OnlyValue.ss58 _ _)
  intro _ _
  ov

/-! ### Monero -/

theorem OnlyValue.xmrDecBlk (i : Nat) (blk : List Char) : OnlyValue (xmrDecBlk i blk) := by
  unfold Model.xmrDecBlk; ov

theorem OnlyValue.xmrDecode (s : List Char) : OnlyValue (xmrDecode s) := by
  rw [xmrDecode_eq]
  cases xmrBlockEncLens.idxOf? (s.length % 11) with
  | none => exact .throw
  | some i =>
    simp only
    exact OnlyValue.bind (OnlyValue.mapM (OnlyValue.xmrDecBlk i) _) (fun _ _ => .pure _)

theorem keccak_ck_length (p : Bytes) : ((keccak256 p).take 4).length = 4 := by
  rw [List.length_take, keccak256_length]; rfl

/-- decoding the canonical text of `netVer ‖ s ‖ v` (standard address) -/
theorem xmrAddrDecode_canon_std (netVer s v : Bytes) (hs : s.length = 32) (hv : v.length = 32)
    (hsv : pubValid .ed25519Monero s = true) (hvv : pubValid .ed25519Monero v = true) :
    xmrAddrDecode netVer none
      (xmrEncode ((netVer ++ s ++ v ++ []) ++ (keccak256 (netVer ++ s ++ v ++ [])).take 4))
      = .ok (s ++ v) := by
  unfold xmrAddrDecode
  rw [xmr_decode_encode]
  simp only [bind, Except.bind]
  rw [splitCkEnd_append _ _ 4 (keccak_ck_length _)]
  simp only [ne_eq, not_true_eq_false, if_false]
  rw [List.append_nil, List.append_assoc, removePrefix_append]
  simp only
  have hl : (s ++ v).length = 64 := by rw [List.length_append, hs, hv]
  have h1 : (s ++ v).take 32 = s := by rw [List.take_append_of_le_length (by omega), List.take_of_length_le (by omega)]
  have h2 : ((s ++ v).drop 32).take 32 = v := by
    rw [List.drop_append_of_le_length (by omega), List.drop_of_length_le (by omega)]
    simp [List.take_of_length_le, hv]
  simp only [validateLength_ok _ _ hl, h1, h2, validatePubKey_ok _ _ hsv, validatePubKey_ok _ _ hvv]
  rfl

/-- decoding the canonical text of `netVer ‖ s ‖ v ‖ paymentId` (integrated address) -/
theorem xmrAddrDecode_canon_int (netVer s v pid : Bytes) (hs : s.length = 32) (hv : v.length = 32)
    (hp : pid.length = 8)
    (hsv : pubValid .ed25519Monero s = true) (hvv : pubValid .ed25519Monero v = true) :
    xmrAddrDecode netVer (some pid)
      (xmrEncode ((netVer ++ s ++ v ++ pid) ++ (keccak256 (netVer ++ s ++ v ++ pid)).take 4))
      = .ok (s ++ v) := by
  unfold xmrAddrDecode
  rw [xmr_decode_encode]
  simp only [bind, Except.bind]
  rw [splitCkEnd_append _ _ 4 (keccak_ck_length _)]
  simp only [ne_eq, not_true_eq_false, if_false]
  rw [List.append_assoc, List.append_assoc, removePrefix_append]
  simp only
  have hl : (s ++ (v ++ pid)).length = 72 := by simp [hs, hv, hp]
  have h0 : takeLast (s ++ (v ++ pid)) 8 = pid := by
    rw [← List.append_assoc]; exact takeLast_append_of_length _ _ 8 hp
  have h1 : (s ++ (v ++ pid)).take 32 = s := by
    rw [List.take_append_of_le_length (by omega), List.take_of_length_le (by omega)]
  have h2 : ((s ++ (v ++ pid)).drop 32).take 32 = v := by
    rw [List.drop_append_of_le_length (by omega), List.drop_of_length_le (by omega)]
    simp only [List.nil_append]
    rw [List.take_append_of_le_length (by omega), List.take_of_length_le (by omega)]
  simp only [validateLength_ok _ _ hl, hp, h0, h1, h2, not_true_eq_false, if_false,
    validatePubKey_ok _ _ hsv, validatePubKey_ok _ _ hvv]
  rfl

theorem xmrAddrEncode_ok_inv {netVer : Bytes} {payId : Option Bytes} {spend view : Bytes}
    {addr : List Char} (h : xmrAddrEncode netVer payId spend view = .ok addr) :
    ∃ s v, addrKey .ed25519Monero spend = .ok s ∧ addrKey .ed25519Monero view = .ok v ∧
      (∀ p, payId = some p → p.length = 8) ∧
      addr = xmrEncode ((netVer ++ s ++ v ++ payId.getD []) ++
        (keccak256 (netVer ++ s ++ v ++ payId.getD [])).take 4) := by
  unfold xmrAddrEncode at h
  dsimp only at h
  have key : ∀ {r : R (List Char)}, (do
        let s ← addrKey .ed25519Monero spend
        let v ← addrKey .ed25519Monero view
        pure (xmrEncode ((netVer ++ s ++ v ++ payId.getD []) ++
          (keccak256 (netVer ++ s ++ v ++ payId.getD [])).take 4))) = r → r = .ok addr →
      ∃ s v, addrKey .ed25519Monero spend = .ok s ∧ addrKey .ed25519Monero view = .ok v ∧
        addr = xmrEncode ((netVer ++ s ++ v ++ payId.getD []) ++
          (keccak256 (netVer ++ s ++ v ++ payId.getD [])).take 4) := by
    intro r hr h
    rw [← hr] at h
    obtain ⟨s, hs, h⟩ := bind_ok_inv h
    obtain ⟨v, hv, h⟩ := bind_ok_inv h
    exact ⟨s, v, hs, hv, (pure_ok_inv h).symm⟩
  cases payId with
  | none =>
    obtain ⟨s, v, hs, hv, ha⟩ := key rfl h
    exact ⟨s, v, hs, hv, (fun p hp => by cases hp), ha⟩
  | some p =>
    simp only at h
    by_cases hl : p.length = 8
    · rw [if_neg (by simpa using hl)] at h
      obtain ⟨s, v, hs, hv, ha⟩ := key rfl h
      exact ⟨s, v, hs, hv, (fun p' hp => by cases hp; exact hl), ha⟩
    · rw [if_pos hl] at h; cases h

/-- **Monero round trip**, standard (`payId = none`) and integrated (`payId = some pid`, where a
successful encoding certifies the 8-byte payment id): the decoder returns `s ‖ v`. -/
theorem xmr_decode_encode_addr (netVer : Bytes) (payId : Option Bytes) (spend view : Bytes)
    (addr : List Char) (h : xmrAddrEncode netVer payId spend view = .ok addr) :
    ∃ s v, addrKey .ed25519Monero spend = .ok s ∧ addrKey .ed25519Monero view = .ok v ∧
      xmrAddrDecode netVer payId addr = .ok (s ++ v) := by
  obtain ⟨s, v, hs, hv, hp, rfl⟩ := xmrAddrEncode_ok_inv h
  obtain ⟨hsl, _, hsv⟩ := addrKey_monero_inv hs
  obtain ⟨hvl, _, hvv⟩ := addrKey_monero_inv hv
  refine ⟨s, v, hs, hv, ?_⟩
  cases payId with
  | none => exact xmrAddrDecode_canon_std netVer s v hsl hvl hsv hvv
  | some pid => exact xmrAddrDecode_canon_int netVer s v pid hsl hvl (hp pid rfl) hsv hvv

/-- errors of the encoder: invalid keys and a payment id that is not 8 bytes long, all `ValueError` -/
theorem xmrAddrEncode_ov (netVer : Bytes) (payId : Option Bytes) (spend view : Bytes) :
    OnlyValue (xmrAddrEncode netVer payId spend view) := by
  unfold xmrAddrEncode; ov

theorem xmrAddrDecode_ov (netVer : Bytes) (payId : Option Bytes) (addr : List Char) :
    OnlyValue (xmrAddrDecode netVer payId addr) := by
  unfold xmrAddrDecode
  apply OnlyValue.bind (OnlyValue.xmrDecode _)
  intro _ _
  ov

end BipVerif.Model
