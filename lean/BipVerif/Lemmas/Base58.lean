/- Base58 round trips for an arbitrary duplicate-free 58-symbol alphabet. -/
import BipVerif.Lemmas.Bytes
import BipVerif.Model.Base58

namespace BipVerif.Model
open BipVerif

theorem idxOf?_getD_of_nodup (alph : List Char) (hn : alph.Nodup) (d : Nat) (hd : d < alph.length) :
    alph.idxOf? (alph.getD d 'x') = some d := by
  have hget : alph.getD d 'x' = alph[d] := by simp [List.getD_eq_getElem?_getD, hd]
  rw [hget, List.idxOf?, List.findIdx?_eq_some_iff_getElem]
  refine ⟨hd, by simp, ?_⟩
  intro j hj
  simp only [beq_iff_eq, Bool.not_eq_true, beq_eq_false_iff_ne, ne_eq]
  intro h
  have := (List.Nodup.getElem_inj_iff hn (hi := by omega) (hj := hd)).mp h
  omega

theorem alphaIndex_getD (alph : List Char) (hn : alph.Nodup) (d : Nat) (hd : d < alph.length) :
    alphaIndex alph (alph.getD d 'x') = .ok d := by
  unfold alphaIndex; rw [idxOf?_getD_of_nodup alph hn d hd]; rfl

theorem mapM_alphaIndex_map (alph : List Char) (hn : alph.Nodup) (ds : List Nat)
    (h : ∀ d ∈ ds, d < alph.length) :
    (ds.map (fun d => alph.getD d 'x')).mapM (alphaIndex alph) = .ok ds := by
  induction ds with
  | nil => rfl
  | cons a t ih =>
    have ha := alphaIndex_getD alph hn a (h a (by simp))
    have ht := ih (fun d hd => h d (by simp [hd]))
    simp only [List.map_cons, List.mapM_cons, ha, ht]
    rfl

theorem getD_inj_of_nodup (alph : List Char) (hn : alph.Nodup) (i j : Nat) (hi : i < alph.length)
    (hj : j < alph.length) (h : alph.getD i 'x' = alph.getD j 'x') : i = j := by
  have h1 := idxOf?_getD_of_nodup alph hn i hi
  have h2 := idxOf?_getD_of_nodup alph hn j hj
  rw [h] at h1; rw [h1] at h2; exact Option.some.inj h2

/-- **Base58 round trip**: decoding the encoding of any byte string returns it, for every
58-symbol alphabet without repeated symbols. -/
theorem b58_decode_encode (alph : List Char) (hn : alph.Nodup) (hl : alph.length = 58) (b : Bytes) :
    b58Decode alph (b58Encode alph b) = .ok b := by
  have hlt : ∀ d ∈ digitsBE 58 (Bytes.toNatBE b) [], d < alph.length := by
    intro d hd; rw [hl]; exact digitsBE_lt 58 (by omega) _ d hd
  have hmap : (List.replicate (leadingCount (0 : UInt8) b) (alph.getD 0 'x')
        ++ (digitsBE 58 (Bytes.toNatBE b) []).map (fun d => alph.getD d 'x')).mapM (alphaIndex alph)
      = .ok (List.replicate (leadingCount (0 : UInt8) b) 0 ++ digitsBE 58 (Bytes.toNatBE b) []) := by
    have : List.replicate (leadingCount (0 : UInt8) b) (alph.getD 0 'x')
          ++ (digitsBE 58 (Bytes.toNatBE b) []).map (fun d => alph.getD d 'x')
        = (List.replicate (leadingCount (0 : UInt8) b) 0 ++ digitsBE 58 (Bytes.toNatBE b) []).map
            (fun d => alph.getD d 'x') := by simp
    rw [this]
    apply mapM_alphaIndex_map alph hn
    intro d hd
    rcases List.mem_append.mp hd with h | h
    · rw [(List.mem_replicate.mp h).2, hl]; omega
    · exact hlt d h
  have hv : ofDigitsBE 58 (List.replicate (leadingCount (0 : UInt8) b) 0
      ++ digitsBE 58 (Bytes.toNatBE b) []) = Bytes.toNatBE b := by
    rw [ofDigitsBE_zeros_append]; exact ofDigitsBE_digitsBE 58 (by omega) _
  have hpad : leadingCount (alph.getD 0 'x')
      (List.replicate (leadingCount (0 : UInt8) b) (alph.getD 0 'x')
        ++ (digitsBE 58 (Bytes.toNatBE b) []).map (fun d => alph.getD d 'x'))
      = leadingCount (0 : UInt8) b := by
    apply leadingCount_replicate_append
    have hne := digitsBE_head_ne_zero 58 (by omega) (Bytes.toNatBE b)
    cases hds : digitsBE 58 (Bytes.toNatBE b) [] with
    | nil => simp
    | cons a t =>
      rw [hds] at hne
      simp only [List.map_cons, List.head?_cons, ne_eq, Option.some.injEq]
      intro h
      apply hne
      have ha : a < alph.length := hlt a (by simp [hds])
      simp [getD_inj_of_nodup alph hn a 0 ha (by omega) h]
  unfold b58Decode b58Encode
  simp only [hmap, bind, Except.bind, pure, Except.pure, hv, hpad]
  exact congrArg _ (replicate_natToBytesMin b)

end BipVerif.Model
