/-
Monero wallet lemmas (C16): scalar reduction, the wallet constructors as decision trees,
sub-address message layout, address codec round trip.
Hashes (`keccak256`) and curve arithmetic (`edMulBase`, `edAdd`, `edMul`) are never unfolded, except
for two representation facts (`edAdd` returns reduced coordinates, `edMul` reduces its operand) and
the point-by-point check that the eight small-order points are refused by `edMulNoclamp`.
-/
import BipVerif.Model.Monero
import BipVerif.Lemmas.IntBytes
import BipVerif.Lemmas.Base58Xmr

namespace BipVerif.Model.MoneroLemmas
open BipVerif BipVerif.Prim BipVerif.Model

/-! ### scalar reduction -/

theorem edL_pos : 0 < edL := by unfold edL; omega

theorem edL_lt : edL < 256 ^ 32 := by unfold edL; norm_num

theorem scReduce_length (b : Bytes) : (scReduce b).length = 32 := by
  unfold scReduce; exact length_ofNatLE 32 _

theorem scReduce_toNatLE (b : Bytes) : Bytes.toNatLE (scReduce b) = Bytes.toNatLE b % edL := by
  unfold scReduce
  exact toNatLE_ofNatLE (Nat.lt_trans (Nat.mod_lt _ edL_pos) edL_lt)

theorem scReduce_lt (b : Bytes) : Bytes.toNatLE (scReduce b) < edL := by
  rw [scReduce_toNatLE]; exact Nat.mod_lt _ edL_pos

theorem privValid_monero_iff (k : Bytes) :
    privValid .ed25519Monero k = true ↔ k.length = 32 ∧ Bytes.toNatLE k < edL := by
  unfold privValid; simp

theorem scReduce_valid (b : Bytes) : privValid .ed25519Monero (scReduce b) = true :=
  (privValid_monero_iff _).mpr ⟨scReduce_length b, scReduce_lt b⟩

/-- reduction is the identity on valid Monero private keys -/
theorem scReduce_of_valid (k : Bytes) (h : privValid .ed25519Monero k = true) : scReduce k = k := by
  obtain ⟨hl, hlt⟩ := (privValid_monero_iff k).mp h
  unfold scReduce
  rw [Nat.mod_eq_of_lt hlt, ← hl]
  exact ofNatLE_toNatLE k

theorem scReduce_idem (b : Bytes) : scReduce (scReduce b) = scReduce b :=
  scReduce_of_valid _ (scReduce_valid b)

/-! ### `xmrPubOfPriv` as a decision tree -/

theorem xmrPubOfPriv_eq (k : Bytes) :
    xmrPubOfPriv k =
      if privValid .ed25519Monero k = true then
        (if edMulBase (edNoClampScalar k) = edIdentity then .error .value
         else .ok (edEncode (edMulBase (edNoClampScalar k))))
      else .error .key := by
  unfold xmrPubOfPriv pubOfPriv
  cases hv : privValid .ed25519Monero k
  · simp [throw, throwThe, MonadExceptOf.throw]
  · by_cases hp : edMulBase (edNoClampScalar k) = edIdentity
    · simp [hp, throw, throwThe, MonadExceptOf.throw]
    · simp [hp, pure, Except.pure]

theorem edEncode_length (P : EdPoint) : (edEncode P).length = 32 := by
  unfold edEncode; exact length_ofNatLE 32 _

theorem xmrPubOfPriv_ok {k p : Bytes} (h : xmrPubOfPriv k = .ok p) :
    privValid .ed25519Monero k = true ∧ edMulBase (edNoClampScalar k) ≠ edIdentity ∧
      p = edEncode (edMulBase (edNoClampScalar k)) := by
  rw [xmrPubOfPriv_eq] at h
  split at h
  · rename_i hv
    split at h
    · cases h
    · rename_i hp
      exact ⟨hv, hp, (Except.ok.inj h).symm⟩
  · cases h

theorem xmrPubOfPriv_length {k p : Bytes} (h : xmrPubOfPriv k = .ok p) : p.length = 32 := by
  rw [(xmrPubOfPriv_ok h).2.2]; exact edEncode_length _

theorem xmrPubOfPriv_error {k : Bytes} {e : Err} (h : xmrPubOfPriv k = .error e) :
    e = .key ∨ e = .value := by
  rw [xmrPubOfPriv_eq] at h
  split at h
  · split at h
    · exact Or.inr (Except.error.inj h).symm
    · cases h
  · exact Or.inl (Except.error.inj h).symm

/-! ### `xmrFromSpend` -/

/-- the constructor without monadic plumbing -/
theorem xmrFromSpend_eq (k : Bytes) :
    xmrFromSpend k =
      if privValid .ed25519Monero k = true then
        match xmrPubOfPriv k with
        | .error e => .error e
        | .ok ps =>
          match xmrPubOfPriv (scReduce (keccak256 k)) with
          | .error e => .error e
          | .ok pv => .ok { privSpend := some k, privView := scReduce (keccak256 k),
                            pubSpend := ps, pubView := pv }
      else .error .key := by
  unfold xmrFromSpend
  cases hv : privValid .ed25519Monero k
  · simp [bind, Except.bind, throw, throwThe, MonadExceptOf.throw]
  · simp only [scReduce_valid, Bool.not_true, Bool.false_eq_true, if_false, if_true, bind,
      Except.bind, pure, Except.pure]
    cases xmrPubOfPriv k with
    | error e => rfl
    | ok ps =>
      cases xmrPubOfPriv (scReduce (keccak256 k)) with
      | error e => rfl
      | ok pv => rfl

theorem xmrFromSpend_ok {k : Bytes} {w : XmrWallet} (h : xmrFromSpend k = .ok w) :
    privValid .ed25519Monero k = true ∧ w.privSpend = some k ∧
      w.privView = scReduce (keccak256 k) ∧ xmrPubOfPriv k = .ok w.pubSpend ∧
      xmrPubOfPriv w.privView = .ok w.pubView := by
  rw [xmrFromSpend_eq] at h
  split at h
  · rename_i hv
    split at h
    · cases h
    · rename_i ps hps
      split at h
      · cases h
      · rename_i pv hpv
        cases Except.ok.inj h
        exact ⟨hv, rfl, rfl, hps, hpv⟩
  · cases h

theorem xmrFromSpend_error {k : Bytes} {e : Err} (h : xmrFromSpend k = .error e) :
    e = .key ∨ e = .value := by
  rw [xmrFromSpend_eq] at h
  split at h
  · split at h
    · rename_i e' he
      cases Except.error.inj h
      exact xmrPubOfPriv_error he
    · split at h
      · rename_i e' he
        cases Except.error.inj h
        exact xmrPubOfPriv_error he
      · cases h
  · exact Or.inl (Except.error.inj h).symm

/-! ### `xmrWatchOnly` -/

theorem edStripPrefix_of_length {b : Bytes} (h : b.length = 32) : edStripPrefix b = b := by
  unfold edStripPrefix; simp [h]

/-- the Monero public-key parser returns its input with the optional `00` prefix stripped -/
theorem pubFromBytes_monero_eq (b : Bytes) :
    pubFromBytes .ed25519Monero b =
      if edBytesOnCurve (edStripPrefix b) = some true ∧ (edStripPrefix b).length = 32
      then some (edStripPrefix b) else none := by
  unfold pubFromBytes
  by_cases h : edBytesOnCurve (edStripPrefix b) = some true ∧ (edStripPrefix b).length = 32
  · simp [h.1, h.2]
  · rw [if_neg h]
    simp only [Bool.and_eq_true, decide_eq_true_eq]
    rw [if_neg h]

theorem pubFromBytes_monero_some {b k : Bytes} (h : pubFromBytes .ed25519Monero b = some k) :
    k = edStripPrefix b ∧ k.length = 32 ∧ edBytesOnCurve k = some true := by
  rw [pubFromBytes_monero_eq] at h
  split at h
  · rename_i hc
    cases Option.some.inj h
    exact ⟨rfl, hc.2, hc.1⟩
  · cases h

/-- canonical keys re-validate: the output of the parser is a fixed point of the parser -/
theorem pubFromBytes_monero_idem {b k : Bytes} (h : pubFromBytes .ed25519Monero b = some k) :
    pubFromBytes .ed25519Monero k = some k := by
  obtain ⟨_, hl, hc⟩ := pubFromBytes_monero_some h
  rw [pubFromBytes_monero_eq, edStripPrefix_of_length hl, if_pos ⟨hc, hl⟩]

theorem pubFromBytes_monero_of_length {b k : Bytes} (hb : b.length = 32)
    (h : pubFromBytes .ed25519Monero b = some k) : k = b := by
  rw [(pubFromBytes_monero_some h).1, edStripPrefix_of_length hb]

theorem xmrWatchOnly_eq (view pubSpend : Bytes) :
    xmrWatchOnly view pubSpend =
      if privValid .ed25519Monero view = true then
        match pubFromBytes .ed25519Monero pubSpend with
        | none => .error .key
        | some ps =>
          match xmrPubOfPriv view with
          | .error e => .error e
          | .ok pv => .ok { privSpend := none, privView := view, pubSpend := ps, pubView := pv }
      else .error .key := by
  unfold xmrWatchOnly
  cases hv : privValid .ed25519Monero view
  · simp [bind, Except.bind, throw, throwThe, MonadExceptOf.throw]
  · simp only [Bool.not_true, Bool.false_eq_true, if_false, if_true, bind, Except.bind, pure,
      Except.pure]
    cases pubFromBytes .ed25519Monero pubSpend with
    | none => rfl
    | some ps =>
      cases xmrPubOfPriv view with
      | error e => rfl
      | ok pv => rfl

theorem xmrWatchOnly_ok {view pubSpend : Bytes} {w : XmrWallet}
    (h : xmrWatchOnly view pubSpend = .ok w) :
    privValid .ed25519Monero view = true ∧ w.privSpend = none ∧ w.privView = view ∧
      pubFromBytes .ed25519Monero pubSpend = some w.pubSpend ∧
      xmrPubOfPriv view = .ok w.pubView := by
  rw [xmrWatchOnly_eq] at h
  split at h
  · rename_i hv
    split at h
    · cases h
    · rename_i ps hps
      split at h
      · cases h
      · rename_i pv hpv
        cases Except.ok.inj h
        exact ⟨hv, rfl, rfl, hps, hpv⟩
  · cases h

theorem xmrWatchOnly_error {view pubSpend : Bytes} {e : Err}
    (h : xmrWatchOnly view pubSpend = .error e) : e = .key ∨ e = .value := by
  rw [xmrWatchOnly_eq] at h
  split at h
  · split at h
    · exact Or.inl (Except.error.inj h).symm
    · split at h
      · rename_i e' he
        cases Except.error.inj h
        exact xmrPubOfPriv_error he
      · cases h
  · exact Or.inl (Except.error.inj h).symm

/-! ### address functions only read `(privView, pubSpend, pubView)` -/

/-- the view of a wallet used by every address function -/
def addrView (w : XmrWallet) : Bytes × Bytes × Bytes := (w.privView, w.pubSpend, w.pubView)

theorem xmrSubaddrKeys_congr {w w' : XmrWallet} (h : addrView w = addrView w') (minor major : Nat) :
    xmrSubaddrKeys w minor major = xmrSubaddrKeys w' minor major := by
  obtain ⟨s, v, ps, pv⟩ := w
  obtain ⟨s', v', ps', pv'⟩ := w'
  simp only [addrView, Prod.mk.injEq] at h
  obtain ⟨rfl, rfl, rfl⟩ := h
  unfold xmrSubaddrKeys
  dsimp only

theorem xmrPrimaryAddress_congr {w w' : XmrWallet} (h : addrView w = addrView w') (nv : Bytes) :
    xmrPrimaryAddress w nv = xmrPrimaryAddress w' nv := by
  obtain ⟨s, v, ps, pv⟩ := w
  obtain ⟨s', v', ps', pv'⟩ := w'
  simp only [addrView, Prod.mk.injEq] at h
  obtain ⟨rfl, rfl, rfl⟩ := h
  rfl

theorem xmrSubaddress_congr {w w' : XmrWallet} (h : addrView w = addrView w') (nv snv : Bytes)
    (minor major : Nat) : xmrSubaddress w nv snv minor major = xmrSubaddress w' nv snv minor major := by
  unfold xmrSubaddress
  rw [xmrSubaddrKeys_congr h, xmrPrimaryAddress_congr h]

theorem xmrIntegratedAddress_congr {w w' : XmrWallet} (h : addrView w = addrView w')
    (nv pid : Bytes) : xmrIntegratedAddress w nv pid = xmrIntegratedAddress w' nv pid := by
  obtain ⟨s, v, ps, pv⟩ := w
  obtain ⟨s', v', ps', pv'⟩ := w'
  simp only [addrView, Prod.mk.injEq] at h
  obtain ⟨rfl, rfl, rfl⟩ := h
  rfl

/-! ### sub-address derivation message -/

/-- the message hashed by `MoneroSubaddress.ComputeKeys`:
`"SubAddr" ‖ 00 ‖ a ‖ le32(major) ‖ le32(minor)` -/
def subaddrMsg (a : Bytes) (major minor : Nat) : Bytes :=
  "SubAddr".toUTF8.toList ++ [0] ++ a ++ Bytes.ofNatLE 4 major ++ Bytes.ofNatLE 4 minor

theorem ofNatLE4_inj {m m' : Nat} (hm : m < 2 ^ 32) (hm' : m' < 2 ^ 32)
    (h : Bytes.ofNatLE 4 m = Bytes.ofNatLE 4 m') : m = m' := by
  have h1 := toNatLE_ofNatLE (n := 4) (v := m) (by omega)
  have h2 := toNatLE_ofNatLE (n := 4) (v := m') (by omega)
  rw [← h1, ← h2, h]

theorem subaddrMsg_inj {a a' : Bytes} {major minor major' minor' : Nat} (hl : a.length = a'.length)
    (hM : major < 2 ^ 32) (hm : minor < 2 ^ 32) (hM' : major' < 2 ^ 32) (hm' : minor' < 2 ^ 32)
    (h : subaddrMsg a major minor = subaddrMsg a' major' minor') :
    a = a' ∧ major = major' ∧ minor = minor' := by
  unfold subaddrMsg at h
  simp only [List.append_assoc] at h
  have h1 := List.append_cancel_left h
  have h2 := List.append_cancel_left h1
  obtain ⟨ha, h3⟩ := List.append_inj h2 hl
  obtain ⟨hA, hB⟩ := List.append_inj h3 (by simp)
  exact ⟨ha, ofNatLE4_inj hM hM' hA, ofNatLE4_inj hm hm' hB⟩

/-! ### `edMulNoclamp` (libsodium `crypto_scalarmult_ed25519_noclamp`) -/

theorem edNorm_idem (P : EdPoint) : edNorm (edNorm P) = edNorm P := by
  simp [edNorm]

/-- the addition law returns reduced coordinates -/
theorem edNorm_edAdd (P Q : EdPoint) : edNorm (edAdd P Q) = edAdd P Q := by
  simp [edNorm, edAdd]

/-- scalar multiplication reduces its operand first -/
theorem edMul_edNorm (k : Nat) (P : EdPoint) : edMul k (edNorm P) = edMul k P := by
  have h : edExtOfAffine (edNorm P) = edExtOfAffine P := by
    simp [edExtOfAffine, edNorm]
  unfold edMul
  rw [h]

/-- `edMulNoclamp` without the `let`s: the three refusals, in order -/
theorem edMulNoclamp_eq (k : Nat) (P : EdPoint) :
    edMulNoclamp k P =
      if edNorm P = edIdentity then none
      else if edMul edL P ≠ edIdentity then none
      else if edMul (k % 2 ^ 255) P = edIdentity then none
      else some (edMul (k % 2 ^ 255) P) := by
  unfold edMulNoclamp
  simp only [edMul_edNorm]

/-- success: the operand is a non-identity point of the prime-order subgroup and the product is
not the identity -/
theorem edMulNoclamp_eq_some_iff (k : Nat) (P r : EdPoint) :
    edMulNoclamp k P = some r ↔
      edNorm P ≠ edIdentity ∧ edMul edL P = edIdentity ∧
        edMul (k % 2 ^ 255) P ≠ edIdentity ∧ r = edMul (k % 2 ^ 255) P := by
  rw [edMulNoclamp_eq]
  by_cases h1 : edNorm P = edIdentity
  · simp [h1]
  by_cases h2 : edMul edL P = edIdentity
  · by_cases h3 : edMul (k % 2 ^ 255) P = edIdentity
    · rw [if_neg h1, if_neg (not_not.mpr h2), if_pos h3]
      constructor
      · intro h; cases h
      · intro h; exact absurd h3 h.2.2.1
    · rw [if_neg h1, if_neg (not_not.mpr h2), if_neg h3]
      constructor
      · intro h; exact ⟨h1, h2, h3, (Option.some.inj h).symm⟩
      · intro h; rw [h.2.2.2]
  · rw [if_neg h1, if_pos h2]
    constructor
    · intro h; cases h
    · intro h; exact absurd h.2.1 h2

/-- refusal: identity operand, operand outside the prime-order subgroup, or identity product -/
theorem edMulNoclamp_eq_none_iff (k : Nat) (P : EdPoint) :
    edMulNoclamp k P = none ↔
      edNorm P = edIdentity ∨ edMul edL P ≠ edIdentity ∨ edMul (k % 2 ^ 255) P = edIdentity := by
  rw [edMulNoclamp_eq]
  by_cases h1 : edNorm P = edIdentity
  · simp [h1]
  by_cases h2 : edMul edL P = edIdentity
  · by_cases h3 : edMul (k % 2 ^ 255) P = edIdentity
    · rw [if_neg h1, if_neg (not_not.mpr h2), if_pos h3]
      exact ⟨fun _ => Or.inr (Or.inr h3), fun _ => rfl⟩
    · rw [if_neg h1, if_neg (not_not.mpr h2), if_neg h3]
      constructor
      · intro h; cases h
      · intro h
        rcases h with h | h | h
        · exact absurd h h1
        · exact absurd h2 h
        · exact absurd h h3
  · rw [if_neg h1, if_pos h2]
    exact ⟨fun _ => Or.inr (Or.inl h2), fun _ => rfl⟩

/-- an operand that is not a non-identity point of the prime-order subgroup is refused whatever
the scalar -/
theorem edMulNoclamp_off_subgroup (k : Nat) {P : EdPoint}
    (h : edNorm P = edIdentity ∨ edMul edL P ≠ edIdentity) : edMulNoclamp k P = none := by
  rw [edMulNoclamp_eq_none_iff]
  rcases h with h | h
  · exact Or.inl h
  · exact Or.inr (Or.inl h)

/-- the eight points of small order (the multiples of the order-8 point with encoding
`c7176a70…ac037a`): identity, order 8, 4, 8, 2, 8, 4, 8 -/
def edSmallOrder : List EdPoint := [
  ⟨0, 1⟩,
  ⟨14399317868200118260347934320527232580618823971194345261214217575416788799818,
   55188659117513257062467267217118295137698188065244968500265048394206261417927⟩,
  ⟨38214883241950591754978413199355411911188925816896391856984770930832735035197, 0⟩,
  ⟨14399317868200118260347934320527232580618823971194345261214217575416788799818,
   2707385501144840649318225287225658788936804267575313519463743609750303402022⟩,
  ⟨0, 57896044618658097711785492504343953926634992332820282019728792003956564819948⟩,
  ⟨43496726750457979451437558183816721346016168361625936758514574428539776020131,
   2707385501144840649318225287225658788936804267575313519463743609750303402022⟩,
  ⟨19681161376707505956807079304988542015446066515923890162744021073123829784752, 0⟩,
  ⟨43496726750457979451437558183816721346016168361625936758514574428539776020131,
   55188659117513257062467267217118295137698188065244968500265048394206261417927⟩]

/-- they are on the curve and killed by 8 -/
theorem edSmallOrder_spec :
    ∀ T ∈ edSmallOrder, edOnCurve T = true ∧ edMul 8 T = edIdentity := by decide +kernel

/-- `L` is odd, so `L·T ≠ (0,1)` for the seven non-identity small-order points: checked by
evaluation -/
theorem edSmallOrder_off_subgroup :
    ∀ T ∈ edSmallOrder, edNorm T = edIdentity ∨ edMul edL T ≠ edIdentity := by decide +kernel

/-- **no small-order point is accepted as an operand**, whatever the scalar -/
theorem edMulNoclamp_small_order (k : Nat) {T : EdPoint} (h : T ∈ edSmallOrder) :
    edMulNoclamp k T = none :=
  edMulNoclamp_off_subgroup k (edSmallOrder_off_subgroup T h)

/-! ### `xmrSubaddrKeys` -/

theorem xmrSubaddrKeys_minor_range (w : XmrWallet) (minor major : Nat) (h : minor > 2 ^ 32 - 1) :
    xmrSubaddrKeys w minor major = .error .value := by
  unfold xmrSubaddrKeys
  dsimp only
  rw [if_pos h]; rfl

theorem xmrSubaddrKeys_major_range (w : XmrWallet) (minor major : Nat) (h : major > 2 ^ 32 - 1) :
    xmrSubaddrKeys w minor major = .error .value := by
  unfold xmrSubaddrKeys
  dsimp only
  by_cases hm : minor > 2 ^ 32 - 1
  · rw [if_pos hm]; rfl
  · rw [if_neg hm, if_pos h]; rfl

theorem xmrSubaddrKeys_zero (w : XmrWallet) : xmrSubaddrKeys w 0 0 = .ok (w.pubSpend, w.pubView) := by
  unfold xmrSubaddrKeys
  dsimp only
  rw [if_neg (by omega), if_neg (by omega), if_pos (by simp)]; rfl

/-- the non-trivial branch: what is computed for `(major, minor) ≠ (0, 0)` in range.  The last step
`C = a·D` is libsodium's `crypto_scalarmult_ed25519_noclamp` (`edMulNoclamp`). -/
theorem xmrSubaddrKeys_eq (w : XmrWallet) (minor major : Nat) (hm : minor ≤ 2 ^ 32 - 1)
    (hM : major ≤ 2 ^ 32 - 1) (hne : ¬ (minor = 0 ∧ major = 0)) :
    xmrSubaddrKeys w minor major =
      match edDecodeLenient w.pubSpend with
      | none => .error .value
      | some b =>
        let mInt := Bytes.toNatLE (scReduce (keccak256 (subaddrMsg w.privView major minor)))
        if mInt = 0 then .error .value
        else
          let d := edAdd b (edMulBase mInt)
          match edMulNoclamp (Bytes.toNatLE w.privView % 2 ^ 255) d with
          | none => .error .value
          | some c => .ok (edEncode d, edEncode c) := by
  unfold xmrSubaddrKeys subaddrMsg
  have h1 : ¬ minor > 2 ^ 32 - 1 := by omega
  have h2 : ¬ major > 2 ^ 32 - 1 := by omega
  have h3 : ¬ (decide (minor = 0) && decide (major = 0)) = true := by
    simp only [Bool.and_eq_true, decide_eq_true_eq]; exact hne
  dsimp only
  rw [if_neg h1, if_neg h2, if_neg h3]
  cases edDecodeLenient w.pubSpend with
  | none => rfl
  | some b =>
    dsimp only
    split
    · rfl
    · generalize edMulNoclamp _ _ = o
      cases o <;> rfl

theorem xmrSubaddrKeys_error {w : XmrWallet} {minor major : Nat} {e : Err}
    (h : xmrSubaddrKeys w minor major = .error e) : e = .value := by
  by_cases hm : minor > 2 ^ 32 - 1
  · rw [xmrSubaddrKeys_minor_range w minor major hm] at h; exact (Except.error.inj h).symm
  by_cases hM : major > 2 ^ 32 - 1
  · rw [xmrSubaddrKeys_major_range w minor major hM] at h; exact (Except.error.inj h).symm
  by_cases h0 : minor = 0 ∧ major = 0
  · obtain ⟨rfl, rfl⟩ := h0
    rw [xmrSubaddrKeys_zero] at h; cases h
  · rw [xmrSubaddrKeys_eq w minor major (by omega) (by omega) h0] at h
    split at h
    · exact (Except.error.inj h).symm
    · dsimp only at h
      split at h
      · exact (Except.error.inj h).symm
      · split at h
        · exact (Except.error.inj h).symm
        · cases h


/-! ### address codec -/

theorem addrKey_ok_iff (c : CurveT) (pub k : Bytes) :
    addrKey c pub = .ok k ↔ pubFromBytes c pub = some k := by
  unfold addrKey
  cases pubFromBytes c pub with
  | none => constructor <;> intro h <;> cases h
  | some k' =>
    constructor
    · intro h; cases Except.ok.inj h; rfl
    · intro h; cases Option.some.inj h; rfl

theorem addrKey_error {c : CurveT} {pub : Bytes} {e : Err} (h : addrKey c pub = .error e) :
    e = .value := by
  unfold addrKey at h
  cases hp : pubFromBytes c pub with
  | none => rw [hp] at h; exact (Except.error.inj h).symm
  | some k => rw [hp] at h; cases h

/-- the address payload: `netVer ‖ spend ‖ view ‖ [payment id]` -/
def addrPayload (netVer : Bytes) (payId : Option Bytes) (s v : Bytes) : Bytes :=
  netVer ++ s ++ v ++ payId.getD []

theorem xmrAddrEncode_ok {netVer : Bytes} {payId : Option Bytes} {spend view : Bytes}
    {a : List Char} (h : xmrAddrEncode netVer payId spend view = .ok a) :
    (∀ p, payId = some p → p.length = 8) ∧
    ∃ s v, addrKey .ed25519Monero spend = .ok s ∧ addrKey .ed25519Monero view = .ok v ∧
      a = xmrEncode (addrPayload netVer payId s v ++
            (keccak256 (addrPayload netVer payId s v)).take 4) := by
  unfold xmrAddrEncode at h
  dsimp only at h
  have key : ∀ (h' : (do
      let s ← addrKey CurveT.ed25519Monero spend
      let v ← addrKey CurveT.ed25519Monero view
      (pure (xmrEncode (netVer ++ s ++ v ++ payId.getD [] ++
        List.take 4 (keccak256 (netVer ++ s ++ v ++ payId.getD [])))) : R (List Char))) = .ok a),
      ∃ s v, addrKey .ed25519Monero spend = .ok s ∧ addrKey .ed25519Monero view = .ok v ∧
      a = xmrEncode (addrPayload netVer payId s v ++
            (keccak256 (addrPayload netVer payId s v)).take 4) := by
    intro h'
    cases hs : addrKey .ed25519Monero spend with
    | error e => rw [hs] at h'; cases h'
    | ok s =>
      cases hv : addrKey .ed25519Monero view with
      | error e => rw [hs, hv] at h'; cases h'
      | ok v =>
        rw [hs, hv] at h'
        exact ⟨s, v, rfl, rfl, (Except.ok.inj h').symm⟩
  cases payId with
  | none => exact ⟨fun p hp => (by cases hp), key h⟩
  | some p =>
    dsimp only at h
    by_cases hl : p.length ≠ 8
    · rw [if_pos hl] at h; cases h
    · rw [if_neg hl] at h
      refine ⟨fun p' hp' => ?_, key h⟩
      cases Option.some.inj hp'
      exact Decidable.not_not.mp hl

theorem xmrAddrEncode_error {netVer : Bytes} {payId : Option Bytes} {spend view : Bytes}
    {e : Err} (h : xmrAddrEncode netVer payId spend view = .error e) : e = .value := by
  unfold xmrAddrEncode at h
  dsimp only at h
  have key : ∀ (h' : (do
      let s ← addrKey CurveT.ed25519Monero spend
      let v ← addrKey CurveT.ed25519Monero view
      (pure (xmrEncode (netVer ++ s ++ v ++ payId.getD [] ++
        List.take 4 (keccak256 (netVer ++ s ++ v ++ payId.getD [])))) : R (List Char))) = .error e),
      e = .value := by
    intro h'
    cases hs : addrKey .ed25519Monero spend with
    | error e' => rw [hs] at h'; cases Except.error.inj h'; exact addrKey_error hs
    | ok s =>
      cases hv : addrKey .ed25519Monero view with
      | error e' => rw [hs, hv] at h'; cases Except.error.inj h'; exact addrKey_error hv
      | ok v => rw [hs, hv] at h'; cases h'
  cases payId with
  | none => exact key h
  | some p =>
    dsimp only at h
    by_cases hl : p.length ≠ 8
    · rw [if_pos hl] at h; exact (Except.error.inj h).symm
    · rw [if_neg hl] at h; exact key h

theorem validatePubKey_of_valid {c : CurveT} {b : Bytes} (h : pubValid c b = true) :
    validatePubKey c b = .ok () := by
  unfold validatePubKey; rw [if_pos h]; rfl

theorem removePrefix_append {α} [DecidableEq α] (pre rest : List α) :
    removePrefix (pre ++ rest) pre = .ok rest := by
  unfold removePrefix
  rw [if_neg (by simp)]
  simp [pure, Except.pure]

/-! ### inversion of the `Except` monad (generic) -/

theorem bind_ok_inv {α β} {x : R α} {f : α → R β} {b : β} (h : (x >>= f) = .ok b) :
    ∃ a, x = .ok a ∧ f a = .ok b := by
  cases x with
  | error e => cases h
  | ok a => exact ⟨a, rfl, h⟩

theorem ok_bind {α β} (a : α) (f : α → R β) : ((Except.ok a : R α) >>= f) = f a := rfl

theorem throw_bind {α β} (e : Err) (f : α → R β) : ((throw e : R α) >>= f) = .error e := rfl

theorem guard_ok_inv {c : Prop} [Decidable c] {α β} {e : Err} {f : α → R β} {body : R β} {b : β}
    (h : (if c then ((throw e : R α) >>= f) else body) = .ok b) : ¬ c ∧ body = .ok b := by
  by_cases hc : c
  · rw [if_pos hc, throw_bind] at h; cases h
  · rw [if_neg hc] at h; exact ⟨hc, h⟩

theorem guard_neg {c : Prop} [Decidable c] {α β} {e : Err} {f : α → R β} {body : R β} (hc : ¬ c) :
    (if c then ((throw e : R α) >>= f) else body) = body := if_neg hc

theorem validateLength_ok {α} {a : List α} {n : Nat} (h : a.length = n) : validateLength a n = .ok () := by
  unfold validateLength; rw [if_neg (by simp [h])]; rfl

theorem validateLength_ok_inv {α} {a : List α} {n : Nat} {u : Unit} (h : validateLength a n = .ok u) :
    a.length = n := by
  unfold validateLength at h
  by_cases hl : a.length ≠ n
  · rw [if_pos hl] at h; cases h
  · exact Decidable.not_not.mp hl

theorem validateLength_error {α} {a : List α} {n : Nat} (h : a.length ≠ n) :
    validateLength a n = .error .value := by
  unfold validateLength; rw [if_pos h]; rfl

/-- decoding the encoding of a payload with valid 32-byte keys -/
theorem xmrAddrDecode_payload (netVer : Bytes) (payId : Option Bytes) (s v : Bytes)
    (hs : s.length = 32) (hv : v.length = 32)
    (hsv : pubValid .ed25519Monero s = true) (hvv : pubValid .ed25519Monero v = true)
    (hp : ∀ p, payId = some p → p.length = 8) :
    xmrAddrDecode netVer payId (xmrEncode (addrPayload netVer payId s v ++
      (keccak256 (addrPayload netVer payId s v)).take 4)) = .ok (s ++ v) := by
  unfold xmrAddrDecode
  rw [xmr_decode_encode, ok_bind]
  have hck : ((keccak256 (addrPayload netVer payId s v)).take 4).length = 4 := by
    rw [List.length_take, keccak256_length]; rfl
  dsimp only [splitCkEnd]
  rw [dropLast_append_of_length _ _ 4 hck, takeLast_append_of_length _ _ 4 hck,
    guard_neg (by simp)]
  have hpay : addrPayload netVer payId s v = netVer ++ (s ++ v ++ payId.getD []) := by
    unfold addrPayload; simp
  rw [hpay, removePrefix_append, ok_bind]
  have hts : List.take 32 (s ++ v ++ payId.getD []) = s := by
    rw [List.append_assoc, List.take_append_of_le_length (by omega), List.take_of_length_le (by omega)]
  have htv : List.take 32 (List.drop 32 (s ++ v ++ payId.getD [])) = v := by
    rw [List.append_assoc, List.drop_append_of_le_length (by omega), List.drop_of_length_le (by omega),
      List.nil_append, List.take_append_of_le_length (by omega), List.take_of_length_le (by omega)]
  rw [hts, htv, validatePubKey_of_valid hsv, validatePubKey_of_valid hvv]
  cases payId with
  | none =>
    have : (s ++ v ++ (none : Option Bytes).getD []).length = 64 := by
      simp only [List.length_append, Option.getD_none, List.length_nil]; omega
    dsimp only
    rw [validateLength_ok this]
    rfl
  | some p =>
    have hp8 := hp p rfl
    have : (s ++ v ++ (some p).getD []).length = 72 := by
      simp only [List.length_append, Option.getD_some]; omega
    have htl : takeLast (s ++ v ++ (some p).getD []) 8 = p :=
      takeLast_append_of_length _ _ 8 hp8
    dsimp only
    rw [validateLength_ok this, ok_bind, guard_neg (by rw [hp8]; decide), htl, guard_neg (by simp)]
    rfl

/-- what a successful decode has checked about the payload length -/
theorem xmrAddrDecode_length {netVer : Bytes} {payId : Option Bytes} {a : List Char} {r : Bytes}
    (h : xmrAddrDecode netVer payId a = .ok r) :
    ∃ dec p, xmrDecode a = .ok dec ∧ removePrefix (dropLast dec 4) netVer = .ok p ∧
      p.length = (match payId with | none => 64 | some _ => 72) := by
  unfold xmrAddrDecode at h
  obtain ⟨dec, hdec, h⟩ := bind_ok_inv h
  dsimp only [splitCkEnd] at h
  obtain ⟨_, h⟩ := guard_ok_inv h
  obtain ⟨p, hp, h⟩ := bind_ok_inv h
  refine ⟨dec, p, hdec, hp, ?_⟩
  cases payId with
  | none =>
    dsimp only at h ⊢
    obtain ⟨u, hu, _⟩ := bind_ok_inv h
    exact validateLength_ok_inv hu
  | some pid =>
    dsimp only at h ⊢
    obtain ⟨u, hu, _⟩ := bind_ok_inv h
    exact validateLength_ok_inv hu

/-- the standard and the integrated decoder are mutually exclusive (after the repair of
F-xmrint-std): an address accepted without payment id is refused when one is expected -/
theorem xmrAddrDecode_none_some {netVer : Bytes} {a : List Char} {r : Bytes}
    (pid : Bytes) (h : xmrAddrDecode netVer none a = .ok r) :
    xmrAddrDecode netVer (some pid) a = .error .value := by
  obtain ⟨dec, p, hdec, hp, hl⟩ := xmrAddrDecode_length h
  dsimp only at hl
  unfold xmrAddrDecode at h ⊢
  obtain ⟨dec', hdec', h⟩ := bind_ok_inv h
  rw [hdec] at hdec'; cases Except.ok.inj hdec'
  rw [hdec, ok_bind]
  dsimp only [splitCkEnd] at h ⊢
  obtain ⟨hck, _⟩ := guard_ok_inv h
  rw [guard_neg hck, hp, ok_bind]
  rw [validateLength_error (by rw [hl]; decide)]
  rfl

end BipVerif.Model.MoneroLemmas
