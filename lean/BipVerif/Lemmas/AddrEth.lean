/-
Ethereum-style addresses: the EIP-55 checksum casing (`ethChecksumEncode`) on lower-case hex text
is idempotent, is undone by lower-casing and is invisible to the hex parser.  From this: Ethereum,
Tron, and the Bech32-wrapped Ethereum addresses (Injective / OKEx / Harmony One).
keccak-256 is opaque (only its length is used).
-/
import BipVerif.Lemmas.Addr
import BipVerif.Lemmas.AddrBase58
import BipVerif.Lemmas.AddrBech32

namespace BipVerif.Model
open BipVerif BipVerif.Prim

/-! ### lower-case hex characters -/

def lowerHexChars : List Char := "0123456789abcdef".toList

theorem hexDigit_mem (n : Nat) (h : n < 16) : Bytes.hexDigit n ∈ lowerHexChars := by
  interval_cases n <;> decide

theorem hexOfBytes_lowerHex (b : Bytes) : ∀ c ∈ hexOfBytes b, c ∈ lowerHexChars := by
  intro c hc
  rw [hexOfBytes_eq, List.mem_flatMap] at hc
  obtain ⟨x, _, hx⟩ := hc
  simp only [List.mem_cons, List.not_mem_nil, or_false] at hx
  rcases hx with rfl | rfl
  · exact hexDigit_mem _ (by have := x.toNat_lt; omega)
  · exact hexDigit_mem _ (by omega)

/-- the per-character action of the EIP-55 casing, given the hex digest -/
def ethCaseChar (digest : List Char) (p : Char × Nat) : Char :=
  match Bytes.hexVal (digest.getD p.2 '0') with
  | some v => if v ≥ 8 then ethChecksumEncode.asciiUpper p.1 else (asciiCase.lower p.1).headD p.1
  | none => p.1

def ethDigest (addr : List Char) : List Char :=
  hexOfBytes (keccak256 (String.ofList (addr.flatMap asciiCase.lower)).toUTF8.toList)

theorem ethChecksumEncode_eq (addr : List Char) :
    ethChecksumEncode addr = addr.zipIdx.map (ethCaseChar (ethDigest addr)) := by
  unfold ethChecksumEncode
  apply List.map_congr_left
  rintro ⟨c, i⟩ _
  simp only [ethCaseChar, ethDigest]
  generalize Bytes.hexVal _ = o
  cases o <;> rfl

theorem ethChecksumEncode_length (addr : List Char) :
    (ethChecksumEncode addr).length = addr.length := by
  rw [ethChecksumEncode_eq]; simp

/-- the three candidate images of a lower-case hex character -/
theorem ethCaseChar_cases (D : List Char) (c : Char) (i : Nat) :
    ethCaseChar D (c, i) = ethChecksumEncode.asciiUpper c ∨
      ethCaseChar D (c, i) = (asciiCase.lower c).headD c ∨ ethCaseChar D (c, i) = c := by
  unfold ethCaseChar
  simp only
  split
  · split
    · exact Or.inl rfl
    · exact Or.inr (Or.inl rfl)
  · exact Or.inr (Or.inr rfl)

theorem lowerHex_f1 : ∀ c ∈ lowerHexChars, asciiCase.lower c = [c] := by decide
theorem lowerHex_f2 : ∀ c ∈ lowerHexChars,
    asciiCase.lower (ethChecksumEncode.asciiUpper c) = [c] := by decide
theorem lowerHex_f3 : ∀ c ∈ lowerHexChars,
    Bytes.hexVal (ethChecksumEncode.asciiUpper c) = Bytes.hexVal c := by decide
theorem lowerHex_f4 : ∀ c ∈ lowerHexChars,
    ethChecksumEncode.asciiUpper (ethChecksumEncode.asciiUpper c)
      = ethChecksumEncode.asciiUpper c := by decide

theorem lowerHex_facts : ∀ c ∈ lowerHexChars,
    asciiCase.lower c = [c] ∧
    asciiCase.lower (ethChecksumEncode.asciiUpper c) = [c] ∧
    Bytes.hexVal (ethChecksumEncode.asciiUpper c) = Bytes.hexVal c ∧
    ethChecksumEncode.asciiUpper (ethChecksumEncode.asciiUpper c) = ethChecksumEncode.asciiUpper c ∧
    (asciiCase.lower (ethChecksumEncode.asciiUpper c)).headD (ethChecksumEncode.asciiUpper c) = c := by
  intro c hc
  refine ⟨lowerHex_f1 c hc, lowerHex_f2 c hc, lowerHex_f3 c hc, lowerHex_f4 c hc, ?_⟩
  rw [lowerHex_f2 c hc]; rfl

theorem lower_ethCaseChar (D : List Char) (c : Char) (hc : c ∈ lowerHexChars) (i : Nat) :
    asciiCase.lower (ethCaseChar D (c, i)) = [c] := by
  obtain ⟨h1, h2, _⟩ := lowerHex_facts c hc
  rcases ethCaseChar_cases D c i with h | h | h <;> rw [h]
  · exact h2
  · rw [h1]; exact h1
  · exact h1

theorem hexVal_ethCaseChar (D : List Char) (c : Char) (hc : c ∈ lowerHexChars) (i : Nat) :
    Bytes.hexVal (ethCaseChar D (c, i)) = Bytes.hexVal c := by
  obtain ⟨h1, _, h3, _⟩ := lowerHex_facts c hc
  rcases ethCaseChar_cases D c i with h | h | h <;> rw [h]
  · exact h3
  · rw [h1]; rfl

theorem ethCaseChar_idem (D : List Char) (c : Char) (hc : c ∈ lowerHexChars) (i : Nat) :
    ethCaseChar D (ethCaseChar D (c, i), i) = ethCaseChar D (c, i) := by
  obtain ⟨h1, _, _, h4, h5⟩ := lowerHex_facts c hc
  unfold ethCaseChar
  simp only
  cases Bytes.hexVal (D.getD i '0') with
  | none => rfl
  | some v =>
    simp only
    by_cases hv : v ≥ 8
    · simp only [hv, if_true]; exact h4
    · simp only [hv, if_false, h1, List.headD_cons]

/-! ### list-level consequences (induction over `zipIdx` with its offset) -/

theorem flatMap_lower_ethCase (D : List Char) (l : List Char) (hl : ∀ c ∈ l, c ∈ lowerHexChars)
    (n : Nat) : ((l.zipIdx n).map (ethCaseChar D)).flatMap asciiCase.lower = l := by
  induction l generalizing n with
  | nil => rfl
  | cons c t ih =>
    rw [List.zipIdx_cons, List.map_cons, List.flatMap_cons,
      lower_ethCaseChar D c (hl c (by simp)) n, ih (fun x hx => hl x (by simp [hx]))]
    rfl

theorem ethCase_idem_list (D : List Char) (l : List Char) (hl : ∀ c ∈ l, c ∈ lowerHexChars)
    (n : Nat) : ((((l.zipIdx n).map (ethCaseChar D)).zipIdx n).map (ethCaseChar D))
      = (l.zipIdx n).map (ethCaseChar D) := by
  induction l generalizing n with
  | nil => rfl
  | cons c t ih =>
    rw [List.zipIdx_cons, List.map_cons, List.zipIdx_cons, List.map_cons,
      ethCaseChar_idem D c (hl c (by simp)) n, ih (fun x hx => hl x (by simp [hx]))]

theorem ofHexChars_congr : ∀ (l l' : List Char),
    List.Forall₂ (fun x y => Bytes.hexVal x = Bytes.hexVal y) l l' →
    Bytes.ofHexChars l = Bytes.ofHexChars l'
  | [], _, h => by cases h; rfl
  | [_], _, h => by
    cases h with
    | cons _ ht => cases ht; rfl
  | x :: y :: rest, _, h => by
    cases h with
    | cons hx ht =>
      cases ht with
      | cons hy hr =>
        unfold Bytes.ofHexChars
        rw [hx, hy, ofHexChars_congr rest _ hr]

theorem forall₂_ethCase (D : List Char) (l : List Char) (hl : ∀ c ∈ l, c ∈ lowerHexChars) (n : Nat) :
    List.Forall₂ (fun x y => Bytes.hexVal x = Bytes.hexVal y)
      ((l.zipIdx n).map (ethCaseChar D)) l := by
  induction l generalizing n with
  | nil => exact .nil
  | cons c t ih =>
    rw [List.zipIdx_cons, List.map_cons]
    exact .cons (hexVal_ethCaseChar D c (hl c (by simp)) n) (ih (fun x hx => hl x (by simp [hx])) _)

theorem flatMap_lower_lowerHex (l : List Char) (hl : ∀ c ∈ l, c ∈ lowerHexChars) :
    l.flatMap asciiCase.lower = l := by
  induction l with
  | nil => rfl
  | cons c t ih =>
    rw [List.flatMap_cons, (lowerHex_facts c (hl c (by simp))).1, ih (fun x hx => hl x (by simp [hx]))]
    rfl

/-- lower-casing the checksummed text gives the lower-case text back -/
theorem lower_ethChecksumEncode (a : List Char) (ha : ∀ c ∈ a, c ∈ lowerHexChars) :
    (ethChecksumEncode a).flatMap asciiCase.lower = a := by
  rw [ethChecksumEncode_eq]; exact flatMap_lower_ethCase _ a ha 0

/-- **EIP-55 casing is idempotent** on lower-case hex text: the digest is taken of the lower-cased
text, which casing does not change. -/
theorem ethChecksumEncode_idem (a : List Char) (ha : ∀ c ∈ a, c ∈ lowerHexChars) :
    ethChecksumEncode (ethChecksumEncode a) = ethChecksumEncode a := by
  have hd : ethDigest (ethChecksumEncode a) = ethDigest a := by
    unfold ethDigest; rw [lower_ethChecksumEncode a ha, flatMap_lower_lowerHex a ha]
  rw [ethChecksumEncode_eq (ethChecksumEncode a), hd, ethChecksumEncode_eq a]
  exact ethCase_idem_list _ a ha 0

/-- the hex parser does not see the casing -/
theorem bytesOfHex_ethChecksumEncode (a : List Char) (ha : ∀ c ∈ a, c ∈ lowerHexChars) :
    bytesOfHex (ethChecksumEncode a) = bytesOfHex a := by
  unfold bytesOfHex
  rw [ethChecksumEncode_eq, ofHexChars_congr _ _ (forall₂_ethCase _ a ha 0)]

/-! ### the raw Ethereum address -/

/-- the 20 address bytes of an uncompressed key -/
def ethAddrBytes (u : Bytes) : Bytes := (keccak256 (u.drop 1)).drop 12

theorem ethAddrBytes_length (u : Bytes) : (ethAddrBytes u).length = 20 := by
  unfold ethAddrBytes; rw [List.length_drop, keccak256_length]

theorem ethRaw_ok_inv {k : Bytes} {a : List Char} (h : ethRaw k = .ok a) :
    ∃ u, uncompressedOf .secp256k1 k = .ok u ∧ a = hexOfBytes (ethAddrBytes u) := by
  unfold ethRaw at h
  obtain ⟨u, hu, h⟩ := bind_ok_inv h
  refine ⟨u, hu, ?_⟩
  rw [← pure_ok_inv h]
  exact hexOfBytes_drop _ 12

theorem ethRaw_ov (k : Bytes) : OnlyValue (ethRaw k) := by unfold ethRaw; ov

theorem bytesOfHex_checksummed (b : Bytes) :
    bytesOfHex (ethChecksumEncode (hexOfBytes b)) = .ok b := by
  rw [bytesOfHex_ethChecksumEncode _ (hexOfBytes_lowerHex b), bytesOfHex_hexOfBytes]

/-! ### Ethereum -/

theorem ethDecode_canon (pfx : List Char) (skipChk : Bool) (b : Bytes) (hb : b.length = 20) :
    ethDecode pfx skipChk
      (pfx ++ (if skipChk then hexOfBytes b else ethChecksumEncode (hexOfBytes b))) = .ok b := by
  unfold ethDecode
  rw [removePrefix_append]
  simp only [bind, Except.bind]
  cases skipChk with
  | true =>
    simp only [if_true]
    rw [validateLength_ok _ _ (by rw [hexOfBytes_length, hb])]
    simp only [Bool.not_true, Bool.false_and, Bool.false_eq_true, if_false]
    exact bytesOfHex_hexOfBytes b
  | false =>
    simp only [Bool.false_eq_true, if_false]
    rw [validateLength_ok _ _ (by rw [ethChecksumEncode_length, hexOfBytes_length, hb])]
    simp only [ethChecksumEncode_idem _ (hexOfBytes_lowerHex b), ne_eq, not_true_eq_false,
      decide_false, Bool.and_false, Bool.false_eq_true, if_false]
    exact bytesOfHex_checksummed b

theorem eth_decode_encode (pfx : List Char) (skipChk : Bool) (pub : Bytes) (addr : List Char)
    (h : ethEncode pfx skipChk pub = .ok addr) :
    ∃ k u, addrKey .secp256k1 pub = .ok k ∧ uncompressedOf .secp256k1 k = .ok u ∧
      ethDecode pfx skipChk addr = .ok (ethAddrBytes u) := by
  unfold ethEncode at h
  obtain ⟨k, hk, h⟩ := bind_ok_inv h
  obtain ⟨a, ha, h⟩ := bind_ok_inv h
  obtain ⟨u, hu, rfl⟩ := ethRaw_ok_inv ha
  refine ⟨k, u, hk, hu, ?_⟩
  rw [← pure_ok_inv h]
  exact ethDecode_canon pfx skipChk _ (ethAddrBytes_length u)

theorem ethEncode_ov (pfx : List Char) (skipChk : Bool) (pub : Bytes) :
    OnlyValue (ethEncode pfx skipChk pub) := by
  unfold ethEncode; ov
theorem ethDecode_ov (pfx : List Char) (skipChk : Bool) (addr : List Char) :
    OnlyValue (ethDecode pfx skipChk addr) := by
  unfold ethDecode; ov

/-! ### Tron -/

theorem trxDecode_canon (pfx b : Bytes) (hb : b.length = 20) :
    trxDecode pfx (b58CheckEncode sha256d btcAlphabet (pfx ++ b)) = .ok b := by
  unfold trxDecode
  rw [b58Check_decode_encode sha256d sha256d_ge4 _ btcAlphabet_nodup btcAlphabet_length,
    ckToValue_ok]
  simp only [bind, Except.bind]
  rw [validateLength_ok _ _ (by simp [hb]; omega), removePrefix_append]
  simp only
  rw [validateLength_ok _ _ (by rw [hexOfBytes_length, hb])]
  rfl

theorem trx_decode_encode (pfx pub : Bytes) (addr : List Char) (h : trxEncode pfx pub = .ok addr) :
    ∃ k u, addrKey .secp256k1 pub = .ok k ∧ uncompressedOf .secp256k1 k = .ok u ∧
      trxDecode pfx addr = .ok (ethAddrBytes u) := by
  unfold trxEncode at h
  obtain ⟨k, hk, h⟩ := bind_ok_inv h
  obtain ⟨a, ha, h⟩ := bind_ok_inv h
  obtain ⟨u, hu, rfl⟩ := ethRaw_ok_inv ha
  obtain ⟨b, hb, h⟩ := bind_ok_inv h
  rw [bytesOfHex_checksummed] at hb
  have : ethAddrBytes u = b := by cases hb; rfl
  subst this
  refine ⟨k, u, hk, hu, ?_⟩
  rw [← pure_ok_inv h]
  exact trxDecode_canon pfx _ (ethAddrBytes_length u)

theorem trxEncode_ov (pfx pub : Bytes) : OnlyValue (trxEncode pfx pub) := by
  unfold trxEncode; ov
theorem trxDecode_ov (pfx : Bytes) (addr : List Char) : OnlyValue (trxDecode pfx addr) := by
  unfold trxDecode; ov

/-! ### Bech32-wrapped Ethereum addresses (Injective, OKEx Chain, Harmony One) -/

theorem ethBech32Encode_ok_inv {hrp : List Char} {pub : Bytes} {addr : List Char}
    (h : ethBech32Encode hrp pub = .ok addr) :
    ∃ k u, addrKey .secp256k1 pub = .ok k ∧ uncompressedOf .secp256k1 k = .ok u ∧
      bech32Encode hrp (ethAddrBytes u) = .ok addr := by
  unfold ethBech32Encode at h
  obtain ⟨k, hk, h⟩ := bind_ok_inv h
  obtain ⟨a, ha, h⟩ := bind_ok_inv h
  obtain ⟨u, hu, rfl⟩ := ethRaw_ok_inv ha
  obtain ⟨b, hb, h⟩ := bind_ok_inv h
  rw [bytesOfHex_checksummed] at hb
  have : ethAddrBytes u = b := by cases hb; rfl
  subst this
  exact ⟨k, u, hk, hu, h⟩

/-- OKEx / Harmony One decoder -/
theorem ethBech32_decode_encode (hrp : List Char) (hv : ValidHrp hrp) (pub : Bytes)
    (addr : List Char) (h : ethBech32Encode hrp pub = .ok addr) :
    ∃ k u, addrKey .secp256k1 pub = .ok k ∧ uncompressedOf .secp256k1 k = .ok u ∧
      ethBech32Decode hrp addr = .ok (ethAddrBytes u) := by
  obtain ⟨k, u, hk, hu, he⟩ := ethBech32Encode_ok_inv h
  refine ⟨k, u, hk, hu, ?_⟩
  have hl := ethAddrBytes_length u
  unfold ethBech32Decode
  rw [bech32Decode_of_encode hrp hv _ (ne_nil_of_length_pos hl (by omega)) he, ckToValue_ok]
  simp only [bind, Except.bind]
  rw [validateLength_ok _ _ (by rw [hexOfBytes_length, hl])]
  rfl

/-- Injective decoder -/
theorem inj_decode_encode (hrp : List Char) (hv : ValidHrp hrp) (pub : Bytes)
    (addr : List Char) (h : ethBech32Encode hrp pub = .ok addr) :
    ∃ k u, addrKey .secp256k1 pub = .ok k ∧ uncompressedOf .secp256k1 k = .ok u ∧
      injDecode hrp addr = .ok (ethAddrBytes u) := by
  obtain ⟨k, u, hk, hu, he⟩ := ethBech32Encode_ok_inv h
  refine ⟨k, u, hk, hu, ?_⟩
  have hl := ethAddrBytes_length u
  unfold injDecode
  rw [bech32Decode_of_encode hrp hv _ (ne_nil_of_length_pos hl (by omega)) he, ckToValue_ok]
  simp only [bind, Except.bind, validateLength_ok _ _ hl]
  rfl

theorem ethBech32Encode_ov (hrp : List Char) (pub : Bytes) : OnlyValue (ethBech32Encode hrp pub) := by
  unfold ethBech32Encode; ov_bech

end BipVerif.Model
