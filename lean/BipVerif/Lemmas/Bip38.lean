/-
BIP-38 lemmas (C13): XOR masks, payload slicing, the encrypt/decrypt functions as decision
trees.  `scrypt`, `sha256d`, AES and secp256k1 arithmetic are never unfolded; the AES inverse
property and the group law enter the property theorems as explicit hypotheses.
-/
import BipVerif.Model.Bip38
import BipVerif.Lemmas.IntBytes
import BipVerif.Lemmas.XK.Base58Check

namespace BipVerif.Model.Bip38Lemmas
open BipVerif BipVerif.Prim BipVerif.Model

/-! ### XOR masks -/

theorem xorBytes_cons (x y : UInt8) (a b : Bytes) :
    xorBytes (x :: a) (y :: b) = (x ^^^ y) :: xorBytes a b := rfl

theorem xorBytes_length (a b : Bytes) : (xorBytes a b).length = min a.length b.length := by
  unfold xorBytes; simp

/-- XOR with the same mask twice is the identity (the mask must be at least as long) -/
theorem xorBytes_xorBytes : ∀ (a b : Bytes), a.length ≤ b.length → xorBytes (xorBytes a b) b = a
  | [], _, _ => rfl
  | x :: a, [], h => by simp at h
  | x :: a, y :: b, h => by
    rw [xorBytes_cons, xorBytes_cons, xorBytes_xorBytes a b (by simpa using h)]
    congr 1
    rw [UInt8.xor_assoc, UInt8.xor_self, UInt8.xor_zero]

theorem xorBytes_append : ∀ (a1 a2 b1 b2 : Bytes), a1.length = b1.length →
    xorBytes (a1 ++ a2) (b1 ++ b2) = xorBytes a1 b1 ++ xorBytes a2 b2
  | [], _, [], _, _ => rfl
  | [], _, _ :: _, _, h => by simp at h
  | _ :: _, _, [], _, h => by simp at h
  | x :: a1, a2, y :: b1, b2, h => by
    simp only [List.cons_append, xorBytes_cons]
    rw [xorBytes_append a1 a2 b1 b2 (by simpa using h)]

/-! ### slicing a concatenation -/

theorem take_append_len {α} {n : Nat} (a b : List α) (h : a.length = n) : (a ++ b).take n = a := by
  subst h; simp

theorem drop_append_len {α} {n : Nat} (a b : List α) (h : a.length = n) : (a ++ b).drop n = b := by
  subst h; simp

theorem drop_take_mid {α} {n k : Nat} (a m c : List α) (ha : a.length = n) (hm : m.length = k) :
    ((a ++ (m ++ c)).drop n).take k = m := by
  rw [drop_append_len a _ ha, take_append_len m c hm]

theorem pyIdx_eq_ok {α} {l : List α} {i : Nat} {x : α} (h : l[i]? = some x) : pyIdx l i = .ok x := by
  unfold pyIdx; rw [h]; rfl

theorem pyIdx_of_lt {α} (l : List α) (i : Nat) (h : i < l.length) : ∃ x, pyIdx l i = .ok x ∧ l[i]? = some x :=
  ⟨l[i], pyIdx_eq_ok (List.getElem?_eq_getElem h), List.getElem?_eq_getElem h⟩

theorem pyIdx_ok {α} {l : List α} {i : Nat} {x : α} (h : pyIdx l i = .ok x) : l[i]? = some x := by
  unfold pyIdx at h
  cases hx : l[i]? with
  | none => rw [hx] at h; cases h
  | some y => rw [hx] at h; cases Except.ok.inj h; rfl

/-! ### secp256k1 adapters: error kinds and the link `PublicKey(priv) = priv·G` -/

theorem secp_n_pos : 0 < Prim.secp256k1.n := by unfold Prim.secp256k1; norm_num
theorem secp_n_lt : Prim.secp256k1.n < 256 ^ 32 := by unfold Prim.secp256k1; norm_num

theorem secpPubOfPriv_error {k : Bytes} {e : Err} (h : secpPubOfPriv k = .error e) : e = .value := by
  unfold secpPubOfPriv at h
  split at h
  · exact (Except.error.inj h).symm
  · split at h
    · cases h
    · exact (Except.error.inj h).symm

theorem secpPubOfPriv_ok {k p : Bytes} (h : secpPubOfPriv k = .ok p) :
    privValid .secp256k1 k = true ∧ pubOfPriv .secp256k1 k = some p := by
  unfold secpPubOfPriv at h
  split at h
  · cases h
  · rename_i hv
    split at h
    · rename_i p' hp
      cases Except.ok.inj h
      exact ⟨by simpa using hv, hp⟩
    · cases h

theorem secpMulG_error {s : Nat} {e : Err} (h : secpMulG s = .error e) : e = .value := by
  unfold secpMulG at h
  dsimp only at h
  split at h
  · exact (Except.error.inj h).symm
  · split at h
    · cases h
    · exact (Except.error.inj h).symm

theorem secpMul_error {p : Bytes} {s : Nat} {e : Err} (h : secpMul p s = .error e) : e = .value := by
  unfold secpMul at h
  dsimp only at h
  split at h
  · exact (Except.error.inj h).symm
  · split at h
    · split at h
      · cases h
      · exact (Except.error.inj h).symm
    · exact (Except.error.inj h).symm

theorem privValid_secp_ofNatBE {x : Nat} (hx : x < Prim.secp256k1.n) :
    privValid .secp256k1 (Bytes.ofNatBE 32 x) = decide (x ≠ 0) := by
  unfold privValid
  have hv : Bytes.toNatBE (Bytes.ofNatBE 32 x) = x := toNatBE_ofNatBE (Nat.lt_trans hx secp_n_lt)
  rw [hv]
  show (decide ((Bytes.ofNatBE 32 x).length = 32) && decide (0 < x) && decide (x < Prim.secp256k1.n))
    = decide (x ≠ 0)
  rw [length_ofNatBE]
  by_cases h0 : x = 0
  · simp [h0]
  · simp [h0, hx, Nat.pos_of_ne_zero h0]

/-- the public key of the private key `x` (32 bytes big-endian, `x < n`) is `x·G` -/
theorem secpPubOfPriv_ofNatBE {x : Nat} (hx : x < Prim.secp256k1.n) :
    secpPubOfPriv (Bytes.ofNatBE 32 x) = secpMulG x := by
  unfold secpPubOfPriv secpMulG
  dsimp only
  rw [privValid_secp_ofNatBE hx, Nat.mod_eq_of_lt hx]
  have hv : Bytes.toNatBE (Bytes.ofNatBE 32 x) = x := toNatBE_ofNatBE (Nat.lt_trans hx secp_n_lt)
  by_cases h0 : x = 0
  · simp [h0]
  · rw [if_neg (by simp [h0]), if_neg h0]
    unfold pubOfPriv
    show (match Prim.secp256k1.compress (Prim.secp256k1.mulG (Bytes.toNatBE (Bytes.ofNatBE 32 x))) with
      | some p => pure p | none => throw Err.value) = _
    rw [hv]
    rfl

/-! ### address hash -/

theorem addrKey_error {c : CurveT} {pub : Bytes} {e : Err} (h : addrKey c pub = .error e) :
    e = .value := by
  unfold addrKey at h
  cases hp : pubFromBytes c pub with
  | none => rw [hp] at h; exact (Except.error.inj h).symm
  | some k => rw [hp] at h; cases h

theorem uncompressedOf_error {c : CurveT} {k : Bytes} {e : Err} (h : uncompressedOf c k = .error e) :
    e = .value := by
  unfold uncompressedOf at h
  cases hp : pubUncompressed c k with
  | none => rw [hp] at h; exact (Except.error.inj h).symm
  | some k => rw [hp] at h; cases h

theorem p2pkhEncode_error {nv : Bytes} {alph : List Char} {c : Bool} {pub : Bytes} {e : Err}
    (h : p2pkhEncode nv alph c pub = .error e) : e = .value := by
  unfold p2pkhEncode at h
  cases hk : addrKey .secp256k1 pub with
  | error e' => rw [hk] at h; cases Except.error.inj h; exact addrKey_error hk
  | ok k =>
    rw [hk] at h
    cases c with
    | true => cases h
    | false =>
      simp only [bind, Except.bind, Bool.false_eq_true, if_false] at h
      cases hu : uncompressedOf .secp256k1 k with
      | error e' => rw [hu] at h; cases Except.error.inj h; exact uncompressedOf_error hu
      | ok u => rw [hu] at h; cases h

theorem bip38AddrHash_eq (pub : Bytes) (c : Bool) :
    bip38AddrHash pub c = match p2pkhEncode [0] btcAlphabet c pub with
      | .error e => .error e
      | .ok addr => .ok ((sha256d (String.ofList addr).toUTF8.toList).take 4) := by
  unfold bip38AddrHash
  cases p2pkhEncode [0] btcAlphabet c pub <;> rfl

theorem bip38AddrHash_error {pub : Bytes} {c : Bool} {e : Err} (h : bip38AddrHash pub c = .error e) :
    e = .value := by
  rw [bip38AddrHash_eq] at h
  split at h
  · rename_i e' he; cases Except.error.inj h; exact p2pkhEncode_error he
  · cases h

theorem bip38AddrHash_length {pub : Bytes} {c : Bool} {ah : Bytes} (h : bip38AddrHash pub c = .ok ah) :
    ah.length = 4 := by
  rw [bip38AddrHash_eq] at h
  split at h
  · cases h
  · cases Except.ok.inj h
    rw [List.length_take, sha256d_length]; rfl

/-! ### Base58Check with double SHA-256 -/

theorem sha256d_ge4 : ∀ x, (sha256d x).length ≥ 4 := by
  intro x; rw [sha256d_length]; omega

theorem b58c_decode_encode (data : Bytes) :
    b58CheckDecode sha256d btcAlphabet (b58CheckEncode sha256d btcAlphabet data) = .ok data :=
  XK.b58CheckDecode_btc_encode sha256d sha256d_ge4 data

theorem b58c_error {s : List Char} {e : Err} (h : b58CheckDecode sha256d btcAlphabet s = .error e) :
    e = .value ∨ e = .checksum := XK.b58CheckDecode_error sha256d btcAlphabet s e h

/-! ### no-EC mode -/

/-- the scrypt-derived 64-byte key of the no-EC mode -/
def noEcKey (pass ah : Bytes) : Bytes := scrypt pass ah 16384 8 8 64

theorem noEcKey_length (pass ah : Bytes) : (noEcKey pass ah).length = 64 := scrypt_length _ _ _ _ _ _

/-- the 39-byte payload written by `Bip38NoEcEncrypter` -/
def noEcPayload (priv pass : Bytes) (c : Bool) (ah : Bytes) : Bytes :=
  [0x01, 0x42, (if c then 0xe0 else 0xc0)] ++ ah
    ++ aes256EncryptBlock ((noEcKey pass ah).drop 32)
        (xorBytes (priv.take 16) (((noEcKey pass ah).take 32).take 16))
    ++ aes256EncryptBlock ((noEcKey pass ah).drop 32)
        (xorBytes (priv.drop 16) (((noEcKey pass ah).take 32).drop 16))

theorem bip38NoEcEncrypt_eq (priv pass : Bytes) (c : Bool) :
    bip38NoEcEncrypt priv pass c = match secpPubOfPriv priv with
      | .error e => .error e
      | .ok pub => match bip38AddrHash pub c with
        | .error e => .error e
        | .ok ah => .ok (b58CheckEncode sha256d btcAlphabet (noEcPayload priv pass c ah)) := by
  unfold bip38NoEcEncrypt
  cases secpPubOfPriv priv with
  | error e => rfl
  | ok pub =>
    dsimp only [bind, Except.bind]
    cases bip38AddrHash pub c <;> rfl

/-- the key recovered by `Bip38NoEcDecrypter` from a 39-byte payload -/
def noEcPriv (b pass : Bytes) : Bytes :=
  xorBytes
    (aes256DecryptBlock ((noEcKey pass ((b.drop 3).take 4)).drop 32) ((b.drop 7).take 16)
      ++ aes256DecryptBlock ((noEcKey pass ((b.drop 3).take 4)).drop 32) (b.drop 23))
    ((noEcKey pass ((b.drop 3).take 4)).take 32)

/-- the decrypter after the Base58Check layer, as a decision tree -/
def noEcParse (b pass : Bytes) : R (Bytes × Bool) :=
  if b.length ≠ 39 then .error .value
  else match pyIdx b 2 with
    | .error e => .error e
    | .ok flag =>
      if b.take 2 ≠ [0x01, 0x42] then .error .value
      else if (!(decide (flag = 0xe0) || decide (flag = 0xc0))) = true then .error .value
      else match secpPubOfPriv (noEcPriv b pass) with
        | .error e => .error e
        | .ok pub => match bip38AddrHash pub (decide (flag = 0xe0)) with
          | .error e => .error e
          | .ok ah' =>
            if (b.drop 3).take 4 ≠ ah' then .error .value
            else .ok (noEcPriv b pass, decide (flag = 0xe0))

theorem bip38NoEcDecrypt_eq (s : List Char) (pass : Bytes) :
    bip38NoEcDecrypt s pass = match b58CheckDecode sha256d btcAlphabet s with
      | .error e => .error e
      | .ok b => noEcParse b pass := by
  unfold bip38NoEcDecrypt
  cases b58CheckDecode sha256d btcAlphabet s with
  | error e => rfl
  | ok b =>
    unfold noEcParse noEcPriv noEcKey
    simp only [bind, Except.bind]
    by_cases hl : b.length ≠ 39
    · simp only [if_pos hl]; rfl
    · simp only [if_neg hl]
      cases pyIdx b 2 with
      | error e => rfl
      | ok flag =>
        dsimp only
        by_cases hp : b.take 2 ≠ [0x01, 0x42]
        · simp only [if_pos hp]; rfl
        · simp only [if_neg hp]
          by_cases hf : (!(decide (flag = 0xe0) || decide (flag = 0xc0))) = true
          · simp only [if_pos hf]; rfl
          · simp only [if_neg hf]
            generalize secpPubOfPriv _ = r
            cases r with
            | error e => rfl
            | ok pub =>
              dsimp only
              cases bip38AddrHash pub (decide (flag = 0xe0)) with
              | error e => rfl
              | ok ah' =>
                dsimp only
                by_cases ha : (b.drop 3).take 4 ≠ ah'
                · simp only [if_pos ha]; rfl
                · simp only [if_neg ha]; rfl

theorem noEcParse_error {b pass : Bytes} {e : Err} (h : noEcParse b pass = .error e) : e = .value := by
  unfold noEcParse at h
  split at h
  · exact (Except.error.inj h).symm
  · rename_i hl
    split at h
    · rename_i e' he
      obtain ⟨x, hx, _⟩ := pyIdx_of_lt b 2 (by omega)
      rw [hx] at he; cases he
    · split at h
      · exact (Except.error.inj h).symm
      · split at h
        · exact (Except.error.inj h).symm
        · split at h
          · rename_i e' he; cases Except.error.inj h; exact secpPubOfPriv_error he
          · split at h
            · rename_i e' he; cases Except.error.inj h; exact bip38AddrHash_error he
            · split at h
              · exact (Except.error.inj h).symm
              · cases h

theorem noEcParse_ok {b pass k : Bytes} {c : Bool} (h : noEcParse b pass = .ok (k, c)) :
    b.length = 39 ∧ b.take 2 = [0x01, 0x42] ∧ b[2]? = some (if c then 0xe0 else 0xc0) ∧
      k = noEcPriv b pass ∧
      ∃ pub, secpPubOfPriv k = .ok pub ∧ bip38AddrHash pub c = .ok ((b.drop 3).take 4) := by
  unfold noEcParse at h
  split at h
  · cases h
  · rename_i hl
    split at h
    · cases h
    · rename_i flag hflag
      split at h
      · cases h
      · rename_i hp
        split at h
        · cases h
        · rename_i hf
          split at h
          · cases h
          · rename_i pub hpub
            split at h
            · cases h
            · rename_i ah' hah
              split at h
              · cases h
              · rename_i ha
                have := Except.ok.inj h
                simp only [Prod.mk.injEq] at this
                obtain ⟨rfl, rfl⟩ := this
                refine ⟨by omega, by simpa using hp, ?_, rfl, pub, hpub, ?_⟩
                · rw [pyIdx_ok hflag]
                  by_cases h1 : flag = 0xe0
                  · simp [h1]
                  · have h2 : flag = 0xc0 := by simpa [h1] using hf
                    simp [h2]
                · rw [hah]; simp only [ne_eq, Decidable.not_not] at ha; rw [ha]


/-! ### no-EC: fields of the payload and the round trip -/

/-- first AES block of the no-EC payload -/
def noEcE1 (priv pass ah : Bytes) : Bytes :=
  aes256EncryptBlock ((noEcKey pass ah).drop 32)
    (xorBytes (priv.take 16) (((noEcKey pass ah).take 32).take 16))

/-- second AES block of the no-EC payload -/
def noEcE2 (priv pass ah : Bytes) : Bytes :=
  aes256EncryptBlock ((noEcKey pass ah).drop 32)
    (xorBytes (priv.drop 16) (((noEcKey pass ah).take 32).drop 16))

theorem noEcPayload_def (priv pass : Bytes) (c : Bool) (ah : Bytes) :
    noEcPayload priv pass c ah =
      [0x01, 0x42, (if c then 0xe0 else 0xc0)] ++ (ah ++ (noEcE1 priv pass ah ++ noEcE2 priv pass ah)) := by
  unfold noEcPayload noEcE1 noEcE2; simp only [List.append_assoc]

theorem noEcPayload_fields (priv pass : Bytes) (c : Bool) (ah : Bytes) (hah : ah.length = 4) :
    (noEcPayload priv pass c ah).length = 39 ∧
    (noEcPayload priv pass c ah)[2]? = some (if c then 0xe0 else 0xc0) ∧
    (noEcPayload priv pass c ah).take 2 = [0x01, 0x42] ∧
    ((noEcPayload priv pass c ah).drop 3).take 4 = ah ∧
    ((noEcPayload priv pass c ah).drop 7).take 16 = noEcE1 priv pass ah ∧
    (noEcPayload priv pass c ah).drop 23 = noEcE2 priv pass ah := by
  have l1 : (noEcE1 priv pass ah).length = 16 := aes256EncryptBlock_length _ _
  have l2 : (noEcE2 priv pass ah).length = 16 := aes256EncryptBlock_length _ _
  rw [noEcPayload_def]
  refine ⟨?_, rfl, rfl, ?_, ?_, ?_⟩
  · simp only [List.length_append, List.length_cons, List.length_nil]; omega
  · exact drop_take_mid _ _ _ rfl hah
  · rw [← List.append_assoc]
    exact drop_take_mid _ _ _ (by simp [hah]) l1
  · rw [← List.append_assoc, ← List.append_assoc]
    exact drop_append_len _ _ (by simp [hah, l1])

/-- masking the two halves and unmasking the concatenation -/
theorem xor_split_roundtrip (p m : Bytes) (hp : p.length = 32) (hm : m.length = 32) :
    xorBytes (xorBytes (p.take 16) (m.take 16) ++ xorBytes (p.drop 16) (m.drop 16)) m = p := by
  have hm' : m = m.take 16 ++ m.drop 16 := (List.take_append_drop 16 m).symm
  conv_lhs => arg 2; rw [hm']
  rw [xorBytes_append _ _ _ _ (by rw [xorBytes_length, List.length_take, List.length_take, hp, hm]; rfl),
    xorBytes_xorBytes _ _ (by rw [List.length_take, List.length_take, hp, hm]),
    xorBytes_xorBytes _ _ (by rw [List.length_drop, List.length_drop, hp, hm]),
    List.take_append_drop]

/-- decrypting the payload of a valid key with the same passphrase recovers the key bytes -/
theorem noEcPriv_payload (AesInv : ∀ k b : Bytes, k.length = 32 → b.length = 16 →
      aes256DecryptBlock k (aes256EncryptBlock k b) = b)
    (priv pass : Bytes) (c : Bool) (ah : Bytes) (hah : ah.length = 4) (hp : priv.length = 32) :
    noEcPriv (noEcPayload priv pass c ah) pass = priv := by
  obtain ⟨_, _, _, f1, f2, f3⟩ := noEcPayload_fields priv pass c ah hah
  unfold noEcPriv
  rw [f1, f2, f3]
  unfold noEcE1 noEcE2
  have hk := noEcKey_length pass ah
  have hdh2 : ((noEcKey pass ah).drop 32).length = 32 := by rw [List.length_drop, hk]
  have hdh1 : ((noEcKey pass ah).take 32).length = 32 := by rw [List.length_take, hk]; rfl
  have hx1 : (xorBytes (priv.take 16) (((noEcKey pass ah).take 32).take 16)).length = 16 := by
    rw [xorBytes_length, List.length_take, List.length_take, hp, hdh1]; rfl
  have hx2 : (xorBytes (priv.drop 16) (((noEcKey pass ah).take 32).drop 16)).length = 16 := by
    rw [xorBytes_length, List.length_drop, List.length_drop, hp, hdh1]; rfl
  rw [AesInv _ _ hdh2 hx1, AesInv _ _ hdh2 hx2]
  exact xor_split_roundtrip priv _ hp hdh1

theorem privValid_secp_length {k : Bytes} (h : privValid .secp256k1 k = true) : k.length = 32 := by
  unfold privValid at h
  simp only [Bool.and_eq_true, decide_eq_true_eq] at h
  exact h.1.1

/-- **round trip after the Base58Check layer** -/
theorem noEcParse_payload (AesInv : ∀ k b : Bytes, k.length = 32 → b.length = 16 →
      aes256DecryptBlock k (aes256EncryptBlock k b) = b)
    (priv pass : Bytes) (c : Bool) (pub ah : Bytes) (hpub : secpPubOfPriv priv = .ok pub)
    (hah : bip38AddrHash pub c = .ok ah) :
    noEcParse (noEcPayload priv pass c ah) pass = .ok (priv, c) := by
  have hl4 := bip38AddrHash_length hah
  have hp32 := privValid_secp_length (secpPubOfPriv_ok hpub).1
  obtain ⟨f0, fflag, fpre, f1, _, _⟩ := noEcPayload_fields priv pass c ah hl4
  unfold noEcParse
  rw [if_neg (by rw [f0]; decide), pyIdx_eq_ok fflag]
  dsimp only
  rw [if_neg (by rw [fpre]; decide), noEcPriv_payload AesInv priv pass c ah hl4 hp32, hpub]
  dsimp only
  cases c with
  | true =>
    rw [if_neg (by decide)]
    simp only [if_true, decide_true]
    rw [hah]
    dsimp only
    rw [if_neg (by rw [f1]; simp)]
  | false =>
    rw [if_neg (by decide)]
    have : decide ((if false = true then (0xe0 : UInt8) else 0xc0) = 0xe0) = false := by decide
    rw [this, hah]
    dsimp only
    rw [if_neg (by rw [f1]; simp)]


end BipVerif.Model.Bip38Lemmas
