/-
Helper lemmas for the Monero / Electrum-v1 word-triple codec (`chunkToIdx`, `idxToChunk`,
`chunksEncode`, `chunksDecode`) of `Model/Mnemonics.lean`.
-/
import Mathlib.Tactic.Ring
import Mathlib.Tactic.Linarith
import BipVerif.Lemmas.IntBytes
import BipVerif.Lemmas.Chunks
import BipVerif.Model.Mnemonics

namespace BipVerif.Model
open BipVerif

/-! ### modular arithmetic of the "difference" encoding -/

/-- `((b - a) mod n + a) mod n = b` -/
theorem sub_mod_add_mod {n a b : Nat} (ha : a < n) (hb : b < n) :
    ((b + n - a) % n + a) % n = b := by
  by_cases h : a ≤ b
  · have e : b + n - a = (b - a) + n := by omega
    rw [e, Nat.add_mod_right, Nat.mod_eq_of_lt (by omega : b - a < n)]
    have e' : b - a + a = b := by omega
    rw [e', Nat.mod_eq_of_lt hb]
  · rw [Nat.mod_eq_of_lt (by omega : b + n - a < n)]
    have e : b + n - a + a = b + n := by omega
    rw [e, Nat.add_mod_right, Nat.mod_eq_of_lt hb]

/-- `((y + w) mod n - w) mod n = y mod n` -/
theorem add_mod_sub_mod {n w : Nat} (y : Nat) (hw : w < n) :
    ((y + w) % n + n - w) % n = y % n := by
  have hn : 0 < n := by omega
  have hy : y % n < n := Nat.mod_lt _ hn
  have e1 : (y + w) % n = (y % n + w) % n := by rw [Nat.add_mod, Nat.mod_eq_of_lt hw]
  rw [e1]
  by_cases h : y % n + w < n
  · rw [Nat.mod_eq_of_lt h]
    have e : y % n + w + n - w = y % n + n := by omega
    rw [e, Nat.add_mod_right, Nat.mod_mod]
  · have e : y % n + w = (y % n + w - n) + n := by omega
    rw [e, Nat.add_mod_right, Nat.mod_eq_of_lt (by omega : y % n + w - n < n)]
    have e2 : y % n + w - n + n - w = y % n := by omega
    rw [e2, Nat.mod_mod]

/-- the packed value of an index triple (before the range check) -/
def packIdx (n a b c : Nat) : Nat :=
  a + n * ((b % n + n - a % n) % n) + n * n * ((c % n + n - b % n) % n)

theorem idxToChunk_eq (n a b c : Nat) :
    idxToChunk n a b c = if 2 ^ 32 ≤ packIdx n a b c then .error .value else .ok (packIdx n a b c) := by
  unfold idxToChunk packIdx
  simp only []
  by_cases h : a + n * ((b % n + n - a % n) % n) + n * n * ((c % n + n - b % n) % n) > 0xFFFFFFFF
  · rw [if_pos h, if_pos (by omega)]; rfl
  · rw [if_neg h, if_neg (by omega)]; rfl

theorem idxToChunk_ok_iff (n a b c x : Nat) :
    idxToChunk n a b c = .ok x ↔ x = packIdx n a b c ∧ x < 2 ^ 32 := by
  rw [idxToChunk_eq]
  by_cases h : 2 ^ 32 ≤ packIdx n a b c
  · rw [if_pos h]
    constructor
    · intro e; cases e
    · rintro ⟨rfl, h2⟩; omega
  · rw [if_neg h]
    constructor
    · intro e; cases e; exact ⟨rfl, by omega⟩
    · rintro ⟨rfl, _⟩; rfl

/-- `idxToChunk` errors only with `.value`, exactly when the packed value is `≥ 2^32` -/
theorem idxToChunk_error_iff (n a b c : Nat) (e : Err) :
    idxToChunk n a b c = .error e ↔ e = .value ∧ 2 ^ 32 ≤ packIdx n a b c := by
  rw [idxToChunk_eq]
  by_cases h : 2 ^ 32 ≤ packIdx n a b c
  · rw [if_pos h]
    constructor
    · intro h'; cases h'; exact ⟨rfl, h⟩
    · rintro ⟨rfl, _⟩; rfl
  · rw [if_neg h]
    constructor
    · intro h'; cases h'
    · rintro ⟨_, h2⟩; exact absurd h2 h

theorem chunkToIdx_eq (n x : Nat) :
    chunkToIdx n x = [x % n, (x / n + x % n) % n, (x / n / n + (x / n + x % n) % n) % n] := rfl

theorem chunkToIdx_lt {n : Nat} (hn : 0 < n) (x : Nat) : ∀ i ∈ chunkToIdx n x, i < n := by
  intro i hi
  rw [chunkToIdx_eq] at hi
  simp only [List.mem_cons, List.not_mem_nil, or_false] at hi
  rcases hi with rfl | rfl | rfl <;> exact Nat.mod_lt _ hn

theorem chunkToIdx_length (n x : Nat) : (chunkToIdx n x).length = 3 := rfl

theorem div_div_lt_of_cube {n x : Nat} (hn : 0 < n) (hcube : 2 ^ 32 ≤ n ^ 3) (hx : x < 2 ^ 32) :
    x / n / n < n := by
  rw [Nat.div_div_eq_div_mul, Nat.div_lt_iff_lt_mul (Nat.mul_pos hn hn)]
  have : n ^ 3 = n * (n * n) := by ring
  omega

/-- packing the indices of a chunk value gives the value back -/
theorem packIdx_chunkToIdx {n x : Nat} (hn : 0 < n) (hcube : 2 ^ 32 ≤ n ^ 3) (hx : x < 2 ^ 32) :
    packIdx n (x % n) ((x / n + x % n) % n) ((x / n / n + (x / n + x % n) % n) % n) = x := by
  have h1 : x % n < n := Nat.mod_lt _ hn
  have h2 : (x / n + x % n) % n < n := Nat.mod_lt _ hn
  have h3 : x / n / n < n := div_div_lt_of_cube hn hcube hx
  unfold packIdx
  rw [Nat.mod_mod, Nat.mod_mod, Nat.mod_mod, add_mod_sub_mod (x / n) h1, add_mod_sub_mod (x / n / n) h2,
    Nat.mod_eq_of_lt h3]
  have e1 := Nat.div_add_mod x n
  have e2 := Nat.div_add_mod (x / n) n
  calc x % n + n * (x / n % n) + n * n * (x / n / n)
      = x % n + n * (n * (x / n / n) + x / n % n) := by ring
    _ = x := by rw [e2]; omega

/-- the indices of a packed triple are the triple -/
theorem chunkToIdx_packIdx {n a b c : Nat} (ha : a < n) (hb : b < n) (hc : c < n) :
    chunkToIdx n (packIdx n a b c) = [a, b, c] := by
  have hn : 0 < n := by omega
  have hd1 : (b + n - a) % n < n := Nat.mod_lt _ hn
  have hd2 : (c + n - b) % n < n := Nat.mod_lt _ hn
  have hp : packIdx n a b c = a + n * ((b + n - a) % n + n * ((c + n - b) % n)) := by
    unfold packIdx
    rw [Nat.mod_eq_of_lt ha, Nat.mod_eq_of_lt hb, Nat.mod_eq_of_lt hc]; ring
  have hm : packIdx n a b c % n = a := by
    rw [hp, Nat.add_mul_mod_self_left, Nat.mod_eq_of_lt ha]
  have hq : packIdx n a b c / n = (b + n - a) % n + n * ((c + n - b) % n) := by
    rw [hp, Nat.add_mul_div_left _ _ hn, Nat.div_eq_of_lt ha, Nat.zero_add]
  have hq2 : packIdx n a b c / n / n = (c + n - b) % n := by
    rw [hq, Nat.add_mul_div_left _ _ hn, Nat.div_eq_of_lt hd1, Nat.zero_add]
  have hw2 : (packIdx n a b c / n + a) % n = b := by
    rw [hq]
    have : (b + n - a) % n + n * ((c + n - b) % n) + a
        = ((b + n - a) % n + a) + n * ((c + n - b) % n) := by ring
    rw [this, Nat.add_mul_mod_self_left, sub_mod_add_mod ha hb]
  rw [chunkToIdx_eq, hm, hw2, hq2, sub_mod_add_mod hb hc]

/-! ### `Except` plumbing, `pyIdx`, `wordIdx` -/

theorem bind_eq_ok_iff {α β} (x : R α) (f : α → R β) (b : β) :
    (x >>= f) = .ok b ↔ ∃ a, x = .ok a ∧ f a = .ok b := by
  cases x with
  | error e => constructor
               · intro h; cases h
               · rintro ⟨a, h, _⟩; cases h
  | ok a => constructor
            · intro h; exact ⟨a, rfl, h⟩
            · rintro ⟨a', h, h'⟩; cases h; exact h'

theorem bind_eq_error_iff {α β} (x : R α) (f : α → R β) (e : Err) :
    (x >>= f) = .error e ↔ x = .error e ∨ ∃ a, x = .ok a ∧ f a = .error e := by
  cases x with
  | error e' => constructor
                · intro h; cases h; exact Or.inl rfl
                · rintro (h | ⟨a, h, _⟩)
                  · cases h; rfl
                  · cases h
  | ok a => constructor
            · intro h; exact Or.inr ⟨a, rfl, h⟩
            · rintro (h | ⟨a', h, h'⟩)
              · cases h
              · cases h; exact h'

theorem ok_bind {α β} (a : α) (f : α → R β) : ((Except.ok a : R α) >>= f) = f a := rfl
theorem error_bind {α β} (e : Err) (f : α → R β) : ((Except.error e : R α) >>= f) = .error e := rfl
theorem pure_eq_ok {α} (a : α) : (pure a : R α) = .ok a := rfl
theorem throw_eq_error {α} (e : Err) : (throw e : R α) = .error e := rfl

theorem pyIdx_lt {α} (l : List α) (i : Nat) (h : i < l.length) : pyIdx l i = .ok l[i] := by
  unfold pyIdx; simp [h]; rfl

theorem pyIdx_getD (wl : List Nat) (i : Nat) (h : i < wl.length) : pyIdx wl i = .ok (wl.getD i 0) := by
  rw [pyIdx_lt wl i h]; simp [List.getD_eq_getElem?_getD, h]

theorem pyIdx_ok_iff (wl : List Nat) (i w : Nat) :
    pyIdx wl i = .ok w ↔ i < wl.length ∧ wl.getD i 0 = w := by
  by_cases h : i < wl.length
  · rw [pyIdx_getD wl i h]
    constructor
    · intro e; cases e; exact ⟨h, rfl⟩
    · rintro ⟨_, rfl⟩; rfl
  · have : pyIdx wl i = .error .index := by
      unfold pyIdx; rw [List.getElem?_eq_none (by omega)]; rfl
    rw [this]
    constructor
    · intro e; cases e
    · rintro ⟨h', _⟩; exact absurd h' h

theorem pyIdx_error {α} (l : List α) (i : Nat) (e : Err) (h : pyIdx l i = .error e) :
    e = .index ∧ l.length ≤ i := by
  by_cases hi : i < l.length
  · rw [pyIdx_lt l i hi] at h; cases h
  · have : pyIdx l i = .error .index := by
      unfold pyIdx; rw [List.getElem?_eq_none (by omega)]; rfl
    rw [this] at h; cases h; exact ⟨rfl, by omega⟩

theorem mapM_pyIdx (wl : List Nat) (idxs : List Nat) (h : ∀ i ∈ idxs, i < wl.length) :
    idxs.mapM (pyIdx wl) = .ok (idxs.map (fun i => wl.getD i 0)) := by
  induction idxs with
  | nil => rfl
  | cons a t ih =>
    rw [List.mapM_cons, pyIdx_getD wl a (h a (by simp)), ih (fun i hi => h i (by simp [hi]))]
    rfl

theorem mapM_pyIdx_ok (wl : List Nat) (idxs ws : List Nat) (h : idxs.mapM (pyIdx wl) = .ok ws) :
    (∀ i ∈ idxs, i < wl.length) ∧ ws = idxs.map (fun i => wl.getD i 0) := by
  induction idxs generalizing ws with
  | nil => cases h; simp
  | cons a t ih =>
    rw [List.mapM_cons, bind_eq_ok_iff] at h
    obtain ⟨w, hw, h⟩ := h
    rw [bind_eq_ok_iff] at h
    obtain ⟨ws', hws, h⟩ := h
    cases h
    obtain ⟨h1, h2⟩ := ih ws' hws
    obtain ⟨h3, h4⟩ := (pyIdx_ok_iff wl a w).mp hw
    refine ⟨?_, by rw [← h4, h2]; rfl⟩
    intro i hi
    rcases List.mem_cons.mp hi with rfl | hi
    · exact h3
    · exact h1 i hi

theorem mapM_pyIdx_error (wl : List Nat) (idxs : List Nat) (e : Err)
    (h : idxs.mapM (pyIdx wl) = .error e) : e = .index ∧ ∃ i ∈ idxs, wl.length ≤ i := by
  induction idxs with
  | nil => cases h
  | cons a t ih =>
    rw [List.mapM_cons, bind_eq_error_iff] at h
    rcases h with h | ⟨w, _, h⟩
    · obtain ⟨h1, h2⟩ := pyIdx_error wl a e h
      exact ⟨h1, a, by simp, h2⟩
    · rw [bind_eq_error_iff] at h
      rcases h with h | ⟨_, _, h⟩
      · obtain ⟨h1, i, hi, h2⟩ := ih h
        exact ⟨h1, i, by simp [hi], h2⟩
      · cases h

theorem idxOf?_getD_nat (wl : List Nat) (hn : wl.Nodup) (d : Nat) (hd : d < wl.length) :
    wl.idxOf? (wl.getD d 0) = some d := by
  have hget : wl.getD d 0 = wl[d] := by simp [List.getD_eq_getElem?_getD, hd]
  rw [hget, List.idxOf?, List.findIdx?_eq_some_iff_getElem]
  refine ⟨hd, by simp, ?_⟩
  intro j hj
  simp only [beq_iff_eq]
  intro h
  have := (List.Nodup.getElem_inj_iff hn (hi := by omega) (hj := hd)).mp h
  omega

theorem wordIdx_getD (wl : List Nat) (hn : wl.Nodup) (d : Nat) (hd : d < wl.length) :
    wordIdx wl (wl.getD d 0) = .ok d := by
  unfold wordIdx; rw [idxOf?_getD_nat wl hn d hd]; rfl

theorem wordIdx_ok {wl : List Nat} {w i : Nat} (h : wordIdx wl w = .ok i) :
    i < wl.length ∧ wl.getD i 0 = w := by
  unfold wordIdx at h
  cases hi : wl.idxOf? w with
  | none => rw [hi] at h; cases h
  | some j =>
    rw [hi] at h; cases h
    rw [List.idxOf?, List.findIdx?_eq_some_iff_getElem] at hi
    obtain ⟨hlt, heq, _⟩ := hi
    refine ⟨hlt, ?_⟩
    simp only [beq_iff_eq] at heq
    simp [List.getD_eq_getElem?_getD, hlt, heq]

theorem wordIdx_error {wl : List Nat} {w : Nat} {e : Err} (h : wordIdx wl w = .error e) :
    e = .value ∧ w ∉ wl := by
  unfold wordIdx at h
  cases hi : wl.idxOf? w with
  | none => rw [hi] at h; cases h; exact ⟨rfl, List.idxOf?_eq_none_iff.mp hi⟩
  | some j => rw [hi] at h; cases h

theorem wordIdx_of_not_mem_mn {wl : List Nat} {w : Nat} (h : w ∉ wl) : wordIdx wl w = .error .value := by
  unfold wordIdx; rw [List.idxOf?_eq_none_iff.mpr h]; rfl

theorem wordIdx_of_mem_mn {wl : List Nat} {w : Nat} (h : w ∈ wl) : ∃ i, wordIdx wl w = .ok i := by
  cases hw : wordIdx wl w with
  | ok i => exact ⟨i, rfl⟩
  | error e => exact absurd h (wordIdx_error hw).2

theorem mapM_wordIdx_map (wl : List Nat) (hn : wl.Nodup) (ds : List Nat)
    (h : ∀ d ∈ ds, d < wl.length) :
    (ds.map (fun d => wl.getD d 0)).mapM (wordIdx wl) = .ok ds := by
  induction ds with
  | nil => rfl
  | cons a t ih =>
    rw [List.map_cons, List.mapM_cons, wordIdx_getD wl hn a (h a (by simp)),
      ih (fun d hd => h d (by simp [hd]))]
    rfl

theorem mapM_wordIdx_ok_mn (wl : List Nat) (ws idxs : List Nat) (h : ws.mapM (wordIdx wl) = .ok idxs) :
    (∀ i ∈ idxs, i < wl.length) ∧ ws = idxs.map (fun i => wl.getD i 0) := by
  induction ws generalizing idxs with
  | nil => cases h; simp
  | cons a t ih =>
    rw [List.mapM_cons, bind_eq_ok_iff] at h
    obtain ⟨i, hi, h⟩ := h
    rw [bind_eq_ok_iff] at h
    obtain ⟨is, his, h⟩ := h
    cases h
    obtain ⟨h1, h2⟩ := ih is his
    obtain ⟨h3, h4⟩ := wordIdx_ok hi
    refine ⟨?_, by rw [List.map_cons, h4, ← h2]⟩
    intro j hj
    rcases List.mem_cons.mp hj with rfl | hj
    · exact h3
    · exact h1 j hj

theorem mapM_wordIdx_error_mn (wl : List Nat) (ws : List Nat) (e : Err)
    (h : ws.mapM (wordIdx wl) = .error e) : e = .value ∧ ∃ w ∈ ws, w ∉ wl := by
  induction ws with
  | nil => cases h
  | cons a t ih =>
    rw [List.mapM_cons, bind_eq_error_iff] at h
    rcases h with h | ⟨w, _, h⟩
    · obtain ⟨h1, h2⟩ := wordIdx_error h
      exact ⟨h1, a, by simp, h2⟩
    · rw [bind_eq_error_iff] at h
      rcases h with h | ⟨_, _, h⟩
      · obtain ⟨h1, i, hi, h2⟩ := ih h
        exact ⟨h1, i, by simp [hi], h2⟩
      · cases h

/-! ### `chunkBytes` / `chunkValue` -/

theorem chunkBytes_length (little : Bool) (x : Nat) : (chunkBytes little x).length = 4 := by
  unfold chunkBytes; cases little <;> simp

theorem chunkValue_chunkBytes (little : Bool) {x : Nat} (hx : x < 2 ^ 32) :
    chunkValue little (chunkBytes little x) = x := by
  have hx' : x < 256 ^ 4 := by omega
  unfold chunkValue chunkBytes
  cases little
  · simp only [Bool.false_eq_true, if_false]; exact toNatBE_ofNatBE hx'
  · simp only [if_true]; exact toNatLE_ofNatLE hx'

theorem chunkBytes_chunkValue (little : Bool) (c : Bytes) (hc : c.length = 4) :
    chunkBytes little (chunkValue little c) = c := by
  unfold chunkValue chunkBytes
  cases little
  · simp only [Bool.false_eq_true, if_false]; rw [← hc]; exact ofNatBE_toNatBE c
  · simp only [if_true]; rw [← hc]; exact ofNatLE_toNatLE c

theorem chunkValue_lt (little : Bool) (c : Bytes) (hc : c.length = 4) :
    chunkValue little c < 2 ^ 32 := by
  unfold chunkValue
  cases little
  · simp only [Bool.false_eq_true, if_false]; have := toNatBE_lt c; rw [hc] at this; omega
  · simp only [if_true]; have := toNatLE_lt c; rw [hc] at this; omega

/-! ### the index-level encoder -/

/-- the index list produced by `chunksEncode` before the word look-up -/
def encIdx (n : Nat) (little : Bool) (ent : Bytes) : List Nat :=
  (chunksOf 4 ent).flatMap fun c => chunkToIdx n (chunkValue little c)

theorem chunksEncode_eq (wl : List Nat) (little : Bool) (ent : Bytes) :
    chunksEncode wl little ent = (encIdx wl.length little ent).mapM (pyIdx wl) := rfl

theorem encIdx_nil (n : Nat) (little : Bool) : encIdx n little [] = [] := by
  unfold encIdx; simp

theorem encIdx_append (n : Nat) (little : Bool) (c rest : Bytes) (hc : c.length = 4) :
    encIdx n little (c ++ rest) = chunkToIdx n (chunkValue little c) ++ encIdx n little rest := by
  unfold encIdx
  rw [chunksOf_append_of_length 4 (by omega) c rest hc, List.flatMap_cons]

theorem encIdx_lt {n : Nat} (hn : 0 < n) (little : Bool) (ent : Bytes) :
    ∀ i ∈ encIdx n little ent, i < n := by
  intro i hi
  unfold encIdx at hi
  rw [List.mem_flatMap] at hi
  obtain ⟨c, _, hi⟩ := hi
  exact chunkToIdx_lt hn _ i hi

theorem encIdx_length (n : Nat) (little : Bool) (k : Nat) :
    ∀ ent : Bytes, ent.length = 4 * k → (encIdx n little ent).length = 3 * k := by
  induction k with
  | zero =>
    intro ent h
    have : ent = [] := List.length_eq_zero_iff.mp (by omega)
    subst this; rw [encIdx_nil]; rfl
  | succ k ih =>
    intro ent h
    rw [← List.take_append_drop 4 ent, encIdx_append n little _ _ (by rw [List.length_take]; omega),
      List.length_append, chunkToIdx_length, ih _ (by rw [List.length_drop]; omega)]
    omega

/-- `chunksEncode` never fails on a non-empty word list; its only possible error is the
(unreachable) `IndexError` of an empty list. -/
theorem chunksEncode_ok (wl : List Nat) (hwl : 0 < wl.length) (little : Bool) (ent : Bytes) :
    chunksEncode wl little ent = .ok ((encIdx wl.length little ent).map (fun i => wl.getD i 0)) := by
  rw [chunksEncode_eq]; exact mapM_pyIdx wl _ (encIdx_lt hwl little ent)

/-! ### the decoder: recursion equations -/

/-- one word triple -/
def decTriple (wl : List Nat) (little : Bool) (a b c : Nat) : R Bytes := do
  let i ← wordIdx wl a
  let j ← wordIdx wl b
  let k ← wordIdx wl c
  let x ← idxToChunk wl.length i j k
  pure (chunkBytes little x)

theorem take_cons3 (a b c : Nat) (rest : List Nat) :
    (a :: b :: c :: rest).take ((a :: b :: c :: rest).length / 3 * 3)
      = a :: b :: c :: rest.take (rest.length / 3 * 3) := by
  have : (a :: b :: c :: rest).length / 3 * 3 = rest.length / 3 * 3 + 3 := by
    simp only [List.length_cons]; omega
  rw [this]; rfl

theorem chunksDecode_nil (wl : List Nat) (little : Bool) : chunksDecode wl little [] = .ok [] := by
  unfold chunksDecode; simp; rfl

theorem chunksDecode_short (wl : List Nat) (little : Bool) (ws : List Nat) (h : ws.length < 3) :
    chunksDecode wl little ws = .ok [] := by
  unfold chunksDecode
  have : ws.length / 3 * 3 = 0 := by omega
  rw [this]; simp; rfl

theorem chunksDecode_cons3 (wl : List Nat) (little : Bool) (a b c : Nat) (rest : List Nat) :
    chunksDecode wl little (a :: b :: c :: rest)
      = (decTriple wl little a b c >>= fun p => chunksDecode wl little rest >>= fun r =>
          pure (p ++ r)) := by
  unfold chunksDecode
  rw [take_cons3]
  have e : a :: b :: c :: rest.take (rest.length / 3 * 3)
      = [a, b, c] ++ rest.take (rest.length / 3 * 3) := rfl
  rw [e, chunksOf_append_of_length 3 (by omega) _ _ rfl, List.mapM_cons]
  simp only [decTriple, bind_assoc, pure_bind, List.flatten_cons]

/-- the trailing `len % 3` words (the Monero checksum word) are ignored -/
theorem chunksDecode_take (wl : List Nat) (little : Bool) :
    ∀ ws : List Nat, chunksDecode wl little ws = chunksDecode wl little (ws.take (ws.length / 3 * 3))
  | [] => rfl
  | [a] => by
    rw [chunksDecode_short _ _ _ (by simp)]
    exact (chunksDecode_short _ _ _ (by simp)).symm
  | [a, b] => by
    rw [chunksDecode_short _ _ _ (by simp)]
    exact (chunksDecode_short _ _ _ (by simp)).symm
  | a :: b :: c :: rest => by
    rw [take_cons3, chunksDecode_cons3, chunksDecode_cons3, ← chunksDecode_take wl little rest]

theorem chunksDecode_append_short (wl : List Nat) (little : Bool) (ws t : List Nat)
    (h : ws.length % 3 = 0) (ht : t.length < 3) :
    chunksDecode wl little (ws ++ t) = chunksDecode wl little ws := by
  rw [chunksDecode_take wl little (ws ++ t)]
  have : (ws ++ t).length / 3 * 3 = ws.length := by rw [List.length_append]; omega
  rw [this, List.take_left' rfl]

theorem decTriple_getD (wl : List Nat) (hn : wl.Nodup) (little : Bool) {i j k : Nat}
    (hi : i < wl.length) (hj : j < wl.length) (hk : k < wl.length) :
    decTriple wl little (wl.getD i 0) (wl.getD j 0) (wl.getD k 0)
      = (idxToChunk wl.length i j k >>= fun x => pure (chunkBytes little x)) := by
  unfold decTriple
  rw [wordIdx_getD wl hn i hi, wordIdx_getD wl hn j hj, wordIdx_getD wl hn k hk]
  rfl

theorem decTriple_ok {wl : List Nat} {little : Bool} {a b c : Nat} {p : Bytes}
    (h : decTriple wl little a b c = .ok p) :
    ∃ i j k x, i < wl.length ∧ j < wl.length ∧ k < wl.length ∧ wl.getD i 0 = a ∧ wl.getD j 0 = b
      ∧ wl.getD k 0 = c ∧ x = packIdx wl.length i j k ∧ x < 2 ^ 32 ∧ p = chunkBytes little x := by
  unfold decTriple at h
  rw [bind_eq_ok_iff] at h; obtain ⟨i, hi, h⟩ := h
  rw [bind_eq_ok_iff] at h; obtain ⟨j, hj, h⟩ := h
  rw [bind_eq_ok_iff] at h; obtain ⟨k, hk, h⟩ := h
  rw [bind_eq_ok_iff] at h; obtain ⟨x, hx, h⟩ := h
  cases h
  obtain ⟨hx1, hx2⟩ := (idxToChunk_ok_iff _ _ _ _ _).mp hx
  exact ⟨i, j, k, x, (wordIdx_ok hi).1, (wordIdx_ok hj).1, (wordIdx_ok hk).1, (wordIdx_ok hi).2,
    (wordIdx_ok hj).2, (wordIdx_ok hk).2, hx1, hx2, rfl⟩

theorem decTriple_error {wl : List Nat} {little : Bool} {a b c : Nat} {e : Err}
    (h : decTriple wl little a b c = .error e) : e = .value := by
  unfold decTriple at h
  rw [bind_eq_error_iff] at h
  rcases h with h | ⟨i, _, h⟩
  · exact (wordIdx_error h).1
  rw [bind_eq_error_iff] at h
  rcases h with h | ⟨j, _, h⟩
  · exact (wordIdx_error h).1
  rw [bind_eq_error_iff] at h
  rcases h with h | ⟨k, _, h⟩
  · exact (wordIdx_error h).1
  rw [bind_eq_error_iff] at h
  rcases h with h | ⟨x, _, h⟩
  · exact ((idxToChunk_error_iff _ _ _ _ _).mp h).1
  · cases h

/-- an unknown word inside a triple is always refused with `ValueError` -/
theorem decTriple_of_not_mem {wl : List Nat} {little : Bool} {a b c : Nat}
    (h : a ∉ wl ∨ b ∉ wl ∨ c ∉ wl) : decTriple wl little a b c = .error .value := by
  cases hr : decTriple wl little a b c with
  | error e => rw [decTriple_error hr]
  | ok p =>
    obtain ⟨i, j, k, x, hi, hj, hk, ha, hb, hc, _⟩ := decTriple_ok hr
    have mem : ∀ i, i < wl.length → wl.getD i 0 ∈ wl := by
      intro i hi; simp [List.getD_eq_getElem?_getD, hi]
    rcases h with h | h | h
    · exact absurd (ha ▸ mem i hi) h
    · exact absurd (hb ▸ mem j hj) h
    · exact absurd (hc ▸ mem k hk) h

/-- `chunksDecode` can only fail with `ValueError` (the `.fuel` branch is dead) -/
theorem chunksDecode_error (wl : List Nat) (little : Bool) :
    ∀ (ws : List Nat) (e : Err), chunksDecode wl little ws = .error e → e = .value
  | [], e, h => by rw [chunksDecode_nil] at h; cases h
  | [a], e, h => by rw [chunksDecode_short _ _ _ (by simp)] at h; cases h
  | [a, b], e, h => by rw [chunksDecode_short _ _ _ (by simp)] at h; cases h
  | a :: b :: c :: rest, e, h => by
    rw [chunksDecode_cons3, bind_eq_error_iff] at h
    rcases h with h | ⟨p, _, h⟩
    · exact decTriple_error h
    rw [bind_eq_error_iff] at h
    rcases h with h | ⟨r, _, h⟩
    · exact chunksDecode_error wl little rest e h
    · cases h

/-- an unknown word among the decoded ones makes `chunksDecode` fail -/
theorem chunksDecode_of_not_mem (wl : List Nat) (little : Bool) :
    ∀ (ws : List Nat), (∃ w ∈ ws.take (ws.length / 3 * 3), w ∉ wl) →
      chunksDecode wl little ws = .error .value
  | [], h => by simp at h
  | [a], h => by simp at h
  | [a, b], h => by simp at h
  | a :: b :: c :: rest, h => by
    rw [take_cons3] at h
    obtain ⟨w, hw, hnot⟩ := h
    rw [chunksDecode_cons3]
    by_cases habc : a ∉ wl ∨ b ∉ wl ∨ c ∉ wl
    · rw [decTriple_of_not_mem habc]; rfl
    · have hrest : w ∈ rest.take (rest.length / 3 * 3) := by
        simp only [List.mem_cons] at hw
        rcases hw with rfl | rfl | rfl | hw
        · exact absurd (Or.inl hnot) habc
        · exact absurd (Or.inr (Or.inl hnot)) habc
        · exact absurd (Or.inr (Or.inr hnot)) habc
        · exact hw
      have ih := chunksDecode_of_not_mem wl little rest ⟨w, hrest, hnot⟩
      cases hp : decTriple wl little a b c with
      | error e => rw [decTriple_error hp]; rfl
      | ok p => rw [ih]; rfl

/-! ### round trips -/

/-- decoding the encoded indices returns the bytes -/
theorem chunksDecode_encIdx (wl : List Nat) (hn : wl.Nodup) (hpos : 0 < wl.length)
    (hcube : 2 ^ 32 ≤ wl.length ^ 3) (little : Bool) (k : Nat) :
    ∀ ent : Bytes, ent.length = 4 * k →
      chunksDecode wl little ((encIdx wl.length little ent).map (fun i => wl.getD i 0)) = .ok ent := by
  induction k with
  | zero =>
    intro ent h
    have : ent = [] := List.length_eq_zero_iff.mp (by omega)
    subst this; rw [encIdx_nil]; exact chunksDecode_nil wl little
  | succ k ih =>
    intro ent h
    have hc : (ent.take 4).length = 4 := by rw [List.length_take]; omega
    have hr : (ent.drop 4).length = 4 * k := by rw [List.length_drop]; omega
    have hx := chunkValue_lt little _ hc
    conv_lhs => rw [← List.take_append_drop 4 ent]
    rw [encIdx_append _ _ _ _ hc, chunkToIdx_eq, List.map_append]
    simp only [List.map_cons, List.map_nil, List.cons_append, List.nil_append]
    rw [chunksDecode_cons3, decTriple_getD wl hn little (Nat.mod_lt _ hpos) (Nat.mod_lt _ hpos)
      (Nat.mod_lt _ hpos), (idxToChunk_ok_iff _ _ _ _ _).mpr
        ⟨(packIdx_chunkToIdx hpos hcube hx).symm, hx⟩, ih _ hr]
    simp only [ok_bind, pure_eq_ok, chunkBytes_chunkValue little _ hc, List.take_append_drop]

/-- every accepted phrase is the encoding of its decoding (up to the ignored trailing words) -/
theorem chunksDecode_canonical (wl : List Nat) (little : Bool) :
    ∀ (ws : List Nat) (e : Bytes), chunksDecode wl little ws = .ok e →
      e.length = ws.length / 3 * 4 ∧
      (encIdx wl.length little e).map (fun i => wl.getD i 0) = ws.take (ws.length / 3 * 3)
  | [], e, h => by rw [chunksDecode_nil] at h; cases h; exact ⟨rfl, by rw [encIdx_nil]; rfl⟩
  | [a], e, h => by
    rw [chunksDecode_short _ _ _ (by simp)] at h; cases h; exact ⟨by simp, by rw [encIdx_nil]; simp⟩
  | [a, b], e, h => by
    rw [chunksDecode_short _ _ _ (by simp)] at h; cases h; exact ⟨by simp, by rw [encIdx_nil]; simp⟩
  | a :: b :: c :: rest, e, h => by
    rw [chunksDecode_cons3, bind_eq_ok_iff] at h
    obtain ⟨p, hp, h⟩ := h
    rw [bind_eq_ok_iff] at h
    obtain ⟨r, hr, h⟩ := h
    cases h
    obtain ⟨i, j, k, x, hi, hj, hk, ha, hb, hc, hx1, hx2, rfl⟩ := decTriple_ok hp
    obtain ⟨ih1, ih2⟩ := chunksDecode_canonical wl little rest r hr
    have hlen := chunkBytes_length little x
    refine ⟨?_, ?_⟩
    · rw [List.length_append, hlen, ih1]; simp only [List.length_cons]; omega
    · rw [take_cons3, encIdx_append _ _ _ _ hlen, chunkValue_chunkBytes little hx2, hx1,
        chunkToIdx_packIdx hi hj hk, List.map_append, ih2, ← ha, ← hb, ← hc]
      rfl

/-! ### Monero: checksum word, structure of encoder and decoder -/

theorem moneroChecksumWord_eq (crc : Bytes → Nat) (k : Nat) (ws : List Nat) (h : ws ≠ []) :
    moneroChecksumWord crc k ws
      = .ok (ws.getD (crc (ws.flatMap (wordPrefixBytes k)) % ws.length) 0) := by
  unfold moneroChecksumWord
  have hpos : 0 < ws.length := List.length_pos_iff.mpr h
  have he : ws.isEmpty = false := by cases ws with
    | nil => exact absurd rfl h
    | cons a t => rfl
  simp only [he, Bool.false_eq_true, if_false]
  exact pyIdx_getD ws _ (Nat.mod_lt _ hpos)

theorem moneroChecksumWord_nil (crc : Bytes → Nat) (k : Nat) :
    moneroChecksumWord crc k [] = .error .assert := rfl

/-- the checksum word is one of the words -/
theorem moneroChecksumWord_mem {crc : Bytes → Nat} {k : Nat} {ws : List Nat} {c : Nat}
    (h : moneroChecksumWord crc k ws = .ok c) : c ∈ ws := by
  by_cases hws : ws = []
  · subst hws; cases h
  · rw [moneroChecksumWord_eq crc k ws hws] at h
    cases h
    have hpos : 0 < ws.length := List.length_pos_iff.mpr hws
    have := Nat.mod_lt (crc (ws.flatMap (wordPrefixBytes k))) hpos
    simp [List.getD_eq_getElem?_getD, this]

theorem moneroEncode_eq (crc : Bytes → Nat) (wl : List Nat) (k : Nat) (ck : Bool) (ent : Bytes)
    (h : ent.length = 16 ∨ ent.length = 32) :
    moneroEncode crc wl k ck ent = (chunksEncode wl true ent >>= fun ws =>
      if ck then (moneroChecksumWord crc k ws >>= fun c => pure (ws ++ [c])) else pure ws) := by
  unfold moneroEncode
  have : (!(decide (ent.length = 16) || decide (ent.length = 32))) = false := by
    rcases h with h | h <;> simp [h]
  simp only [this, Bool.false_eq_true, if_false]

theorem moneroEncode_bad_length (crc : Bytes → Nat) (wl : List Nat) (k : Nat) (ck : Bool) (ent : Bytes)
    (h : ¬ (ent.length = 16 ∨ ent.length = 32)) : moneroEncode crc wl k ck ent = .error .value := by
  unfold moneroEncode
  have : (!(decide (ent.length = 16) || decide (ent.length = 32))) = true := by
    simp only [not_or] at h; simp [h.1, h.2]
  simp only [this, if_true]
  rfl

/-- language selection of `moneroDecode` -/
def moneroLang (langs : List (List Nat × Nat)) (lang : Option (List Nat × Nat)) (ws : List Nat) :
    R (List Nat × Nat) :=
  match lang with
  | some l => pure l
  | none => match langs.find? (fun l => ws.all (fun w => l.1.contains w)) with
    | some l => pure l
    | none => throw .value

/-- `moneroDecode` after the word-count check and the language selection -/
def moneroBody (crc : Bytes → Nat) (wl : List Nat) (k : Nat) (ws : List Nat) : R Bytes :=
  if ws.length = 13 ∨ ws.length = 25 then
    moneroChecksumWord crc k (dropLast ws 1) >>= fun ck =>
      if ws.getLast? ≠ some ck then .error .checksum else chunksDecode wl true ws
  else chunksDecode wl true ws

theorem moneroInner_eq (crc : Bytes → Nat) (wl : List Nat) (k : Nat) (ws : List Nat) :
    (if (decide (ws.length = 13) || decide (ws.length = 25)) = true then do
        let ck ← moneroChecksumWord crc k (dropLast ws 1)
        if ws.getLast? ≠ some ck then do
            throw Err.checksum
            chunksDecode wl true ws
          else chunksDecode wl true ws
      else chunksDecode wl true ws) = moneroBody crc wl k ws := by
  unfold moneroBody
  by_cases hc : ws.length = 13 ∨ ws.length = 25
  · have : (decide (ws.length = 13) || decide (ws.length = 25)) = true := by
      rcases hc with hc | hc <;> simp [hc]
    simp only [this, if_true, if_pos hc]
    rfl
  · have : (decide (ws.length = 13) || decide (ws.length = 25)) = false := by
      simp only [not_or] at hc; simp [hc.1, hc.2]
    simp only [this, Bool.false_eq_true, if_false, if_neg hc]

theorem moneroDecode_eq (crc : Bytes → Nat) (langs : List (List Nat × Nat))
    (lang : Option (List Nat × Nat)) (ws : List Nat)
    (h : ws.length = 12 ∨ ws.length = 13 ∨ ws.length = 24 ∨ ws.length = 25) :
    moneroDecode crc langs lang ws
      = (moneroLang langs lang ws >>= fun l => moneroBody crc l.1 l.2 ws) := by
  unfold moneroDecode
  have : (!([12, 13, 24, 25].contains ws.length)) = false := by
    rcases h with h | h | h | h <;> simp [h]
  simp only [this, Bool.false_eq_true, if_false]
  unfold moneroLang
  cases lang with
  | some l => simp only [pure_bind]; exact moneroInner_eq crc l.1 l.2 ws
  | none =>
    simp only []
    cases hf : langs.find? (fun l => ws.all (fun w => l.1.contains w)) with
    | some l => simp only [pure_bind]; exact moneroInner_eq crc l.1 l.2 ws
    | none => rfl

theorem moneroDecode_bad_count (crc : Bytes → Nat) (langs : List (List Nat × Nat))
    (lang : Option (List Nat × Nat)) (ws : List Nat)
    (h : ¬ (ws.length = 12 ∨ ws.length = 13 ∨ ws.length = 24 ∨ ws.length = 25)) :
    moneroDecode crc langs lang ws = .error .value := by
  unfold moneroDecode
  have : (!([12, 13, 24, 25].contains ws.length)) = true := by
    simp only [not_or] at h; simp [h.1, h.2.1, h.2.2.1, h.2.2.2]
  simp only [this, if_true]
  rfl

theorem moneroLang_some (langs : List (List Nat × Nat)) (l : List Nat × Nat) (ws : List Nat) :
    moneroLang langs (some l) ws = .ok l := rfl

theorem moneroLang_error {langs : List (List Nat × Nat)} {lang : Option (List Nat × Nat)}
    {ws : List Nat} {e : Err} (h : moneroLang langs lang ws = .error e) : e = .value := by
  unfold moneroLang at h
  cases lang with
  | some l => cases h
  | none =>
    simp only at h
    cases hf : langs.find? (fun l => ws.all (fun w => l.1.contains w)) with
    | some l => rw [hf] at h; cases h
    | none => rw [hf] at h; cases h; rfl

theorem dropLast_one_ne_nil {ws : List Nat} (h : 2 ≤ ws.length) : dropLast ws 1 ≠ [] := by
  intro e
  have := congrArg List.length e
  unfold dropLast at this
  rw [List.length_take, List.length_nil] at this
  omega

theorem moneroBody_error {crc : Bytes → Nat} {wl : List Nat} {k : Nat} {ws : List Nat} {e : Err}
    (hlen : 2 ≤ ws.length) (h : moneroBody crc wl k ws = .error e) : e = .value ∨ e = .checksum := by
  unfold moneroBody at h
  by_cases hc : ws.length = 13 ∨ ws.length = 25
  · rw [if_pos hc, moneroChecksumWord_eq crc k _ (dropLast_one_ne_nil hlen), ok_bind] at h
    split at h
    · cases h; exact Or.inr rfl
    · exact Or.inl (chunksDecode_error wl true ws e h)
  · rw [if_neg hc] at h
    exact Or.inl (chunksDecode_error wl true ws e h)

end BipVerif.Model
