/-
`Prim/Weierstrass.lean` realises Mathlib's elliptic-curve group law.

* `WGroup/Basic.lean`    — the Mathlib curve `W c`, cast lemmas, `toM`, correctness of `WCurve.add`
* `WGroup/Jacobian.lean` — Jacobian doubling / mixed addition, `toM (c.mul k P) = k • toM P`
* `WGroup/Concrete.lean` — secp256k1 and NIST P-256: `G` has order exactly `n`
* `WGroup/Ecdsa.lean`    — `EcdsaGroupModel` instances; `EcdsaLaw` / `EcdsaInfLaw` without hypotheses
-/
import BipVerif.Lemmas.WGroup.Basic
import BipVerif.Lemmas.WGroup.Jacobian
import BipVerif.Lemmas.WGroup.Concrete
import BipVerif.Lemmas.WGroup.Ecdsa
