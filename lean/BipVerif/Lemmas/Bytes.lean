/- Byte-string <-> natural number lemmas (`int.from_bytes` / `int.to_bytes`). -/
import BipVerif.Lemmas.Digits

namespace BipVerif.Model
open BipVerif

theorem toNatBE_eq (b : Bytes) : Bytes.toNatBE b = ofDigitsBE 256 (b.map UInt8.toNat) := by
  unfold Bytes.toNatBE ofDigitsBE
  rw [List.foldl_map]

theorem takeWhile_eq_replicate {α} [BEq α] [LawfulBEq α] (x : α) (l : List α) :
    l.takeWhile (· == x) = List.replicate (leadingCount x l) x := by
  unfold leadingCount
  induction l with
  | nil => simp
  | cons a t ih =>
    simp only [List.takeWhile_cons]
    by_cases h : a == x
    · simp only [h, if_true, List.length_cons, List.replicate_succ]
      rw [← ih]; simp [eq_of_beq h]
    · simp [h]

theorem split_leading {α} [BEq α] [LawfulBEq α] (x : α) (l : List α) :
    l = List.replicate (leadingCount x l) x ++ l.dropWhile (· == x) := by
  rw [← takeWhile_eq_replicate]; simp

theorem leadingCount_replicate_append {α} [BEq α] [LawfulBEq α] (x : α) (n : Nat) (l : List α)
    (h : l.head? ≠ some x) : leadingCount x (List.replicate n x ++ l) = n := by
  unfold leadingCount
  induction n with
  | zero =>
    cases l with
    | nil => simp
    | cons a t =>
      have : (a == x) = false := by
        apply Bool.eq_false_iff.mpr
        intro e; apply h; simp [eq_of_beq e]
      simp [this]
  | succ n ih =>
    rw [List.replicate_succ, List.cons_append, List.takeWhile_cons]
    simp only [beq_self_eq_true, if_true, List.length_cons, ih]

theorem dropWhile_head_ne {α} [BEq α] [LawfulBEq α] (x : α) (l : List α) :
    (l.dropWhile (· == x)).head? ≠ some x := by
  induction l with
  | nil => simp
  | cons a t ih =>
    simp only [List.dropWhile_cons]
    by_cases h : a == x
    · simp [h, ih]
    · simp only [h]; simp; intro e; exact h (by simp [e])

theorem uint8_ofNat_toNat_map (b : Bytes) : (b.map UInt8.toNat).map UInt8.ofNat = b := by
  induction b with
  | nil => rfl
  | cons a t ih => simp [List.map_cons] at ih ⊢; exact ih

/-- `natToBytesMin` undoes `toNatBE` up to leading zero bytes. -/
theorem natToBytesMin_toNatBE (b : Bytes) :
    natToBytesMin (Bytes.toNatBE b) = b.dropWhile (· == 0) := by
  have hs := split_leading (0 : UInt8) b
  set r := b.dropWhile (· == (0 : UInt8)) with hr
  have hv : Bytes.toNatBE b = ofDigitsBE 256 (r.map UInt8.toNat) := by
    rw [toNatBE_eq]
    conv_lhs => rw [hs]
    rw [List.map_append, List.map_replicate]
    exact ofDigitsBE_zeros_append 256 _ _
  unfold natToBytesMin
  rw [hv, digitsBE_ofDigitsBE 256 (by omega)]
  · exact uint8_ofNat_toNat_map r
  · intro d hd
    simp only [List.mem_map] at hd
    obtain ⟨a, _, rfl⟩ := hd
    exact a.toNat_lt
  · have := dropWhile_head_ne (0 : UInt8) b
    rw [← hr] at this
    cases hrr : r with
    | nil => simp
    | cons a t =>
      rw [hrr] at this
      simp only [List.head?_cons, ne_eq, Option.some.injEq] at this
      simp only [List.map_cons, List.head?_cons, ne_eq, Option.some.injEq]
      intro h0
      apply this
      exact UInt8.toNat_inj.mp (by simpa using h0)

/-- minimal-width round trip: bytes with leading zeros re-attached. -/
theorem replicate_natToBytesMin (b : Bytes) :
    List.replicate (leadingCount (0 : UInt8) b) 0 ++ natToBytesMin (Bytes.toNatBE b) = b := by
  rw [natToBytesMin_toNatBE]; exact (split_leading (0 : UInt8) b).symm

end BipVerif.Model
