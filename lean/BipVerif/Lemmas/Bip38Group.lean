/-
The two curve hypotheses of the BIP-38 EC-multiplied round trip (`Props/C13.lean`) are theorems:
`CompressCanon` (a compressed point produced by `secpMulG` re-validates to itself) and `GroupLaw`
(`b·(a·G) = (a·b mod n)·G` for the point adapters, including both refusals of the point at
infinity) follow from the fact that the executable secp256k1 arithmetic is Mathlib's group law
(`Lemmas/WGroup/*`, `Props/C12Group.lean`) and that `n` is prime.
-/
import BipVerif.Props.C13
import BipVerif.Props.C12Group

namespace BipVerif.Bip38Group
open BipVerif BipVerif.Prim BipVerif.Model BipVerif.WGroup

/-- `k·G` depends only on `k mod n` -/
theorem mulG_mod (k : ℕ) : secp256k1.mulG (k % secp256k1.n) = secp256k1.mulG k := by
  apply toM_injOn (c := secp256k1) (onCurve_mulG _ secp256k1_G_onCurve)
    (onCurve_mulG _ secp256k1_G_onCurve)
  rw [toM_mulG _ secp256k1_G_onCurve, toM_mulG _ secp256k1_G_onCurve]
  exact GroupModel.mod_nsmul secp256k1_hasOrder k

theorem mulG_congr {j k : ℕ} (h : j % secp256k1.n = k % secp256k1.n) :
    secp256k1.mulG j = secp256k1.mulG k := by
  rw [← mulG_mod j, h, mulG_mod]

/-- the adapter `secpMulG` in closed form -/
theorem secpMulG_ok_iff {s : ℕ} {p : Bytes} :
    secpMulG s = .ok p ↔
      s % secp256k1.n ≠ 0 ∧ secp256k1.compress (secp256k1.mulG s) = some p := by
  unfold secpMulG
  dsimp only
  rw [mulG_mod]
  by_cases h0 : s % secp256k1.n = 0
  · rw [if_pos h0]
    constructor
    · intro h; cases h
    · intro h; exact absurd h0 h.1
  · rw [if_neg h0]
    cases hc : secp256k1.compress (secp256k1.mulG s) with
    | none =>
      constructor
      · intro h; cases h
      · intro h; cases h.2
    | some c =>
      constructor
      · intro h; exact ⟨h0, by rw [Except.ok.inj h]⟩
      · intro h; rw [Option.some.inj h.2]; rfl

/-- `secpMulG` fails exactly at the multiples of `n` (always with `ValueError`) -/
theorem secpMulG_error_iff (s : ℕ) :
    secpMulG s = .error .value ↔ s % secp256k1.n = 0 := by
  unfold secpMulG
  dsimp only
  rw [mulG_mod]
  by_cases h0 : s % secp256k1.n = 0
  · rw [if_pos h0]; exact ⟨fun _ => h0, fun _ => rfl⟩
  · rw [if_neg h0]
    cases hc : secp256k1.compress (secp256k1.mulG s) with
    | none =>
      exfalso
      rw [compress_eq_none_iff, Props.C12Group.secp256k1_mulG_inf_iff] at hc
      exact h0 (Nat.mod_eq_zero_of_dvd hc)
    | some c =>
      constructor
      · intro h; cases h
      · intro h; exact absurd h h0

/-- **`CompressCanon` holds**: the public-key class accepts a compressed point produced by
`secpMulG` as it is -/
theorem compressCanon : BipVerif.Props.C13.CompressCanon := by
  intro s p h
  obtain ⟨_, hc⟩ := secpMulG_ok_iff.mp h
  have hcan := ecdsaGroupModel_secp256k1.canon s p (by
    unfold enc secp256k1G
    rw [ofM_nsmul_G secp256k1_G_onCurve]; exact hc)
  unfold addrKey
  rw [hcan]; rfl

/-- **`GroupLaw` holds**: `b·(a·G) = (a·b mod n)·G` through the point adapters, with the refusal
of the point at infinity on both sides -/
theorem groupLaw : BipVerif.Props.C13.GroupLaw := by
  intro a b
  have hn := Pratt.secp256k1_n_prime
  have hnpos : 0 < secp256k1.n := hn.pos
  by_cases ha : a % secp256k1.n = 0
  · -- both sides refuse
    have hr : secpMulG (a * b % secp256k1.n) = .error .value := by
      rw [secpMulG_error_iff, Nat.mod_mod, Nat.mul_mod, ha, Nat.zero_mul, Nat.zero_mod]
    rw [hr, (secpMulG_error_iff a).mpr ha]; rfl
  · have hGa := onCurve_mulG (c := secp256k1) a secp256k1_G_onCurve
    cases hca : secp256k1.compress (secp256k1.mulG a) with
    | none =>
      exfalso
      rw [compress_eq_none_iff, Props.C12Group.secp256k1_mulG_inf_iff] at hca
      exact ha (Nat.mod_eq_zero_of_dvd hca)
    | some c =>
      have hl : secpMulG a = .ok c := secpMulG_ok_iff.mpr ⟨ha, hca⟩
      rw [hl]
      show secpMul c b = _
      by_cases hb : b % secp256k1.n = 0
      · have hr : secpMulG (a * b % secp256k1.n) = .error .value := by
          rw [secpMulG_error_iff, Nat.mod_mod, Nat.mul_mod, hb, Nat.mul_zero, Nat.zero_mod]
        rw [hr]
        unfold secpMul
        dsimp only
        rw [if_pos hb]; rfl
      · -- the generic case
        have hab : a * b % secp256k1.n ≠ 0 := by
          intro h
          rcases (Nat.Prime.dvd_mul hn).mp (Nat.dvd_of_mod_eq_zero h) with h | h
          · exact ha (Nat.mod_eq_zero_of_dvd h)
          · exact hb (Nat.mod_eq_zero_of_dvd h)
        have hdec : secp256k1.decode c = some (secp256k1.mulG a) :=
          decode_of_compress (by decide +kernel) hGa hca
        have hmul : secp256k1.mul (b % secp256k1.n) (secp256k1.mulG a)
            = secp256k1.mulG (a * b % secp256k1.n) := by
          unfold WCurve.mulG
          rw [Props.C12Group.mul_mul_scalar _ _ secp256k1_G_onCurve]
          apply mulG_congr
          rw [Nat.mod_mod, Nat.mul_comm a b, Nat.mul_mod (b % secp256k1.n), Nat.mod_mod,
            ← Nat.mul_mod]
        unfold secpMul
        dsimp only
        rw [if_neg hb, hdec]
        dsimp only
        rw [hmul]
        unfold secpMulG
        dsimp only
        rw [Nat.mod_mod, if_neg hab]

end BipVerif.Bip38Group
