/-
`KeyCanon` (the key-layer hypothesis of the EOS / Ergo round trips of C09: the canonical compressed
key returned by `PublicKey.FromBytes` re-validates to itself) is a theorem for secp256k1 and
NIST P-256, now that `decode ∘ compress = id` on curve points is proved (`WGroup.decode_of_compress`).
-/
import BipVerif.Lemmas.WGroup
import BipVerif.Lemmas.Addr

namespace BipVerif.KeyCanonProof
open BipVerif BipVerif.Prim BipVerif.Model BipVerif.WGroup

/-- every point the SEC1 decoder returns is on the curve (for `p ≡ 3 mod 4`, any parameters) -/
theorem decode_onCurve (c : WCurve) (hp : 0 < c.p) {b : Bytes} {P : WPoint} (h : c.decode b = some P) :
    c.onCurve P = true := by
  unfold WCurve.decode at h
  cases b with
  | nil => cases h
  | cons t rest =>
    simp only at h
    split at h
    · -- compressed
      split at h
      · next hx =>
        cases hs : sqrtMod3mod4 (c.rhs (Bytes.toNatBE rest)) c.p with
        | none => rw [hs] at h; cases h
        | some y =>
          rw [hs] at h
          simp only at h
          -- `y` is a root of `rhs x`
          have hroot : y * y % c.p = c.rhs (Bytes.toNatBE rest) ∧ y < c.p := by
            unfold sqrtMod3mod4 at hs
            simp only at hs
            split at hs
            · next hr =>
              cases hs
              have hrhs : c.rhs (Bytes.toNatBE rest) % c.p = c.rhs (Bytes.toNatBE rest) := by
                unfold WCurve.rhs; exact Nat.mod_mod _ _
              exact ⟨hr.trans hrhs, powMod_lt _ _ hp⟩
            · cases hs
          obtain ⟨hroot, hylt⟩ := hroot
          split at h
          · try simp only [if_pos hylt] at h
            cases h
            unfold WCurve.onCurve
            simp only [Bool.and_eq_true, decide_eq_true_eq, beq_iff_eq]
            exact ⟨⟨hx, hylt⟩, hroot⟩
          · split at h
            · next hy' =>
              cases h
              unfold WCurve.onCurve
              simp only [Bool.and_eq_true, decide_eq_true_eq, beq_iff_eq]
              refine ⟨⟨hx, hy'⟩, ?_⟩
              have hrlt : y ≤ c.p := hylt.le
              rw [← hroot]
              have hz : (((c.p - y) * (c.p - y) : ℕ) : ZMod c.p) = ((y * y : ℕ) : ZMod c.p) := by
                push_cast
                rw [Nat.cast_sub hrlt, ZMod.natCast_self]; ring
              exact (ZMod.natCast_eq_natCast_iff _ _ _).mp hz
            · cases h
      · cases h
    · split at h
      · split at h
        · next hon => cases h; exact hon
        · cases h
      · cases h

theorem wDecodePub_onCurve (ct : CurveT) (hp : 0 < ct.wcurve.p) {b : Bytes} {P : WPoint}
    (h : wDecodePub ct b = some P) : ct.wcurve.onCurve P = true := by
  unfold wDecodePub at h
  cases hd : ct.wcurve.decode b with
  | some p => rw [hd] at h; cases h; exact decode_onCurve _ hp hd
  | none =>
    rw [hd] at h
    simp only at h
    split at h
    · cases b with
      | nil => cases h
      | cons pfx rest =>
        simp only at h
        split at h
        · cases hd4 : ct.wcurve.decode (4 :: rest) with
          | none => rw [hd4] at h; cases h
          | some q =>
            rw [hd4] at h
            cases q with
            | inf => cases h
            | aff x y =>
              simp only at h
              split at h
              · cases h; exact decode_onCurve _ hp hd4
              · cases h
        · cases h
    · split at h
      · exact decode_onCurve _ hp h
      · cases h

theorem keyCanon_of (ct : CurveT) (hct : ct = .secp256k1 ∨ ct = .nist256p1) [Valid ct.wcurve]
    (h34 : ct.wcurve.p % 4 = 3) : KeyCanon ct := by
  intro pub k h
  have hp : 0 < ct.wcurve.p := by have := (Valid.two_lt (c := ct.wcurve)); omega
  have hpub : ∀ b, pubFromBytes ct b =
      (match wDecodePub ct b with | some p => ct.wcurve.compress p | none => none) := by
    intro b; rcases hct with rfl | rfl <;> rfl
  rw [hpub] at h ⊢
  cases hd : wDecodePub ct pub with
  | none => rw [hd] at h; cases h
  | some P =>
    rw [hd] at h
    simp only at h
    have hon := wDecodePub_onCurve ct hp hd
    have hdec := decode_of_compress h34 hon h
    have : wDecodePub ct k = some P := by unfold wDecodePub; rw [hdec]
    rw [this]; exact h

/-- **`KeyCanon` for secp256k1 and P-256, without hypotheses** -/
theorem keyCanon_secp256k1 : KeyCanon .secp256k1 :=
  @keyCanon_of .secp256k1 (Or.inl rfl) valid_secp256k1 (by decide +kernel)

theorem keyCanon_nist256p1 : KeyCanon .nist256p1 :=
  @keyCanon_of .nist256p1 (Or.inr rfl) valid_nist256p1 (by decide +kernel)

end BipVerif.KeyCanonProof
