/-
BIP-38, EC-multiplied mode (C13): intermediate passphrase codes, key generation, decryption.

Proof-engineering note.  Several sub-terms here have the shape `secpMulG (toNatBE (scrypt …))`.
Neither the elaborator nor the kernel must ever be asked to *evaluate* such a term (weak-head
normalising `secpMulG x` forces `x % n`, hence `toNatBE (scrypt …)`, hence a symbolic scrypt run).
Therefore this file never unfolds the monadic plumbing with `match`: it inverts `>>=` through the
generic lemmas `bind_ok_inv` / `bind_error_inv`, and computes forward with `ok_bind`.
-/
import BipVerif.Lemmas.Bip38

namespace BipVerif.Model.Bip38Lemmas
open BipVerif BipVerif.Prim BipVerif.Model

/-! ### inversion of the `Except` monad -/

theorem bind_ok_inv {α β} {x : R α} {f : α → R β} {b : β} (h : (x >>= f) = .ok b) :
    ∃ a, x = .ok a ∧ f a = .ok b := by
  cases x with
  | error e => cases h
  | ok a => exact ⟨a, rfl, h⟩

theorem bind_error_inv {α β} {x : R α} {f : α → R β} {e : Err} (h : (x >>= f) = .error e) :
    x = .error e ∨ ∃ a, x = .ok a ∧ f a = .error e := by
  cases x with
  | error e' =>
    have h' : (Except.error e' : R β) = .error e := h
    cases Except.error.inj h'
    exact Or.inl rfl
  | ok a => exact Or.inr ⟨a, rfl, h⟩

theorem ok_bind {α β} (a : α) (f : α → R β) : ((Except.ok a : R α) >>= f) = f a := rfl

theorem pure_bind' {α β} (a : α) (f : α → R β) : ((pure a : R α) >>= f) = f a := rfl

theorem error_bind {α β} (e : Err) (f : α → R β) : ((Except.error e : R α) >>= f) = .error e := rfl

theorem throw_bind {α β} (e : Err) (f : α → R β) : ((throw e : R α) >>= f) = .error e := rfl

/-- `if c: raise e` followed by `body` succeeded: the test was false -/
theorem guard_ok_inv {c : Prop} [Decidable c] {α β} {e : Err} {f : α → R β} {body : R β} {b : β}
    (h : (if c then ((throw e : R α) >>= f) else body) = .ok b) : ¬ c ∧ body = .ok b := by
  by_cases hc : c
  · rw [if_pos hc, throw_bind] at h; cases h
  · rw [if_neg hc] at h; exact ⟨hc, h⟩

theorem guard_error_inv {c : Prop} [Decidable c] {α β} {e e' : Err} {f : α → R β} {body : R β}
    (h : (if c then ((throw e : R α) >>= f) else body) = .error e') :
    (c ∧ e' = e) ∨ (¬ c ∧ body = .error e') := by
  by_cases hc : c
  · rw [if_pos hc, throw_bind] at h; exact Or.inl ⟨hc, (Except.error.inj h).symm⟩
  · rw [if_neg hc] at h; exact Or.inr ⟨hc, h⟩

theorem guard_neg {c : Prop} [Decidable c] {α β} {e : Err} {f : α → R β} {body : R β} (hc : ¬ c) :
    (if c then ((throw e : R α) >>= f) else body) = body := if_neg hc

theorem guard_pos {c : Prop} [Decidable c] {α β} {e : Err} {f : α → R β} {body : R β} (hc : c) :
    (if c then ((throw e : R α) >>= f) else body) = .error e := by
  rw [if_pos hc, throw_bind]

/-! ### lot / sequence packing -/

theorem lotseq_lt {lot seq : Nat} (hl : lot ≤ 1048575) (hs : seq ≤ 4095) :
    lot * 4096 + seq < 2 ^ 32 := by omega

theorem lotseq_value {lot seq : Nat} (hl : lot ≤ 1048575) (hs : seq ≤ 4095) :
    Bytes.toNatBE (Bytes.ofNatBE 4 (lot * 4096 + seq)) = lot * 4096 + seq :=
  toNatBE_ofNatBE (by have := lotseq_lt hl hs; omega)

/-! ### intermediate passphrase code -/

/-- owner entropy: `salt[:4] ‖ be32(lot·4096 + seq)` with lot/sequence, the 8-byte salt without -/
def ownerEntropy (salt : Bytes) : Option (Nat × Nat) → Bytes
  | some (lot, seq) => salt.take 4 ++ Bytes.ofNatBE 4 (lot * 4096 + seq)
  | none => salt

theorem bip38Intermediate_lot_range (pass salt : Bytes) (lot seq : Nat) (h : lot > 1048575) :
    bip38Intermediate pass salt (some (lot, seq)) = .error .value := by
  unfold bip38Intermediate
  dsimp only
  rw [guard_pos h]

theorem bip38Intermediate_seq_range (pass salt : Bytes) (lot seq : Nat) (h : seq > 4095) :
    bip38Intermediate pass salt (some (lot, seq)) = .error .value := by
  unfold bip38Intermediate
  dsimp only
  by_cases hl : lot > 1048575
  · rw [guard_pos hl]
  · rw [guard_neg hl, guard_pos h]

theorem bip38Intermediate_ok {pass salt : Bytes} {ls : Option (Nat × Nat)} {ip : List Char}
    (h : bip38Intermediate pass salt ls = .ok ip) :
    (∀ lot seq, ls = some (lot, seq) → lot ≤ 1048575 ∧ seq ≤ 4095) ∧
    ∃ pp, secpMulG (Bytes.toNatBE (bip38PassFactor pass (ownerEntropy salt ls) ls.isSome)) = .ok pp ∧
      ip = b58CheckEncode sha256d btcAlphabet
        ((if ls.isSome = true then magicLotSeq else magicNoLotSeq) ++ ownerEntropy salt ls ++ pp) := by
  unfold bip38Intermediate at h
  cases ls with
  | none =>
    dsimp only at h
    rw [pure_bind'] at h
    obtain ⟨pp, hpp, h⟩ := bind_ok_inv h
    refine ⟨fun _ _ hc => (by cases hc), pp, hpp, (Except.ok.inj h).symm⟩
  | some p =>
    obtain ⟨lot, seq⟩ := p
    dsimp only at h
    obtain ⟨hl, h⟩ := guard_ok_inv h
    obtain ⟨hs, h⟩ := guard_ok_inv h
    rw [pure_bind'] at h
    obtain ⟨pp, hpp, h⟩ := bind_ok_inv h
    refine ⟨fun l s hc => ?_, pp, hpp, (Except.ok.inj h).symm⟩
    cases Option.some.inj hc
    omega

/-! ### key generation from an intermediate code -/

def ecKey (pp ah oe : Bytes) : Bytes := scrypt pp (ah ++ oe) 1024 1 1 64

theorem ecKey_length (pp ah oe : Bytes) : (ecKey pp ah oe).length = 64 := scrypt_length _ _ _ _ _ _

def ecE1 (key seedb : Bytes) : Bytes :=
  aes256EncryptBlock (key.drop 32) (xorBytes (seedb.take 16) ((key.take 32).take 16))

def ecE2 (key seedb : Bytes) : Bytes :=
  aes256EncryptBlock (key.drop 32)
    (xorBytes ((ecE1 key seedb).drop 8 ++ seedb.drop 16) ((key.take 32).drop 16))

/-- the flag value: bit 5 = compressed, bit 2 = lot/sequence present -/
def ecFlag (compressed lotSeq : Bool) : Nat := (if compressed then 32 else 0) + (if lotSeq then 4 else 0)

/-- the flag as the generator computes it from the magic bytes of the intermediate code -/
def ecFlagOf (c : Bool) (magic : Bytes) : Nat :=
  (if c = true then 32 else 0) + if magic = magicLotSeq then 4 else 0

theorem ecFlagOf_eq (c : Bool) (magic : Bytes) :
    ecFlagOf c magic = ecFlag c (decide (magic = magicLotSeq)) := by
  unfold ecFlagOf ecFlag
  by_cases h : magic = magicLotSeq <;> simp [h]

/-- the 39-byte payload written by `Bip38EcKeysGenerator.GeneratePrivateKey` -/
def ecPayload (flag : Nat) (ah oe key seedb : Bytes) : Bytes :=
  [0x01, 0x43] ++ toBytesAuto flag ++ ah ++ oe ++ (ecE1 key seedb).take 8 ++ ecE2 key seedb

theorem bip38EcGenerate_ok {ip : List Char} {seedb : Bytes} {c : Bool} {s : List Char}
    (h : bip38EcGenerate ip seedb c = .ok s) :
    ∃ b pp pt ah, b58CheckDecode sha256d btcAlphabet ip = .ok b ∧ b.length = 49 ∧
      addrKey .secp256k1 (b.drop 16) = .ok pp ∧
      (b.take 8 = magicNoLotSeq ∨ b.take 8 = magicLotSeq) ∧
      secpMul pp (Bytes.toNatBE (sha256d seedb)) = .ok pt ∧ bip38AddrHash pt c = .ok ah ∧
      s = b58CheckEncode sha256d btcAlphabet
        (ecPayload (ecFlagOf c (b.take 8)) ah ((b.drop 8).take 8) (ecKey pp ah ((b.drop 8).take 8)) seedb) := by
  unfold bip38EcGenerate at h
  obtain ⟨b, hb, h⟩ := bind_ok_inv h
  dsimp only at h
  obtain ⟨hl, h⟩ := guard_ok_inv h
  obtain ⟨pp, hpp, h⟩ := bind_ok_inv h
  obtain ⟨hm, h⟩ := guard_ok_inv h
  obtain ⟨pt, hpt, h⟩ := bind_ok_inv h
  obtain ⟨ah, hah, h⟩ := bind_ok_inv h
  refine ⟨b, pp, pt, ah, hb, by omega, hpp, ?_, hpt, hah, ?_⟩
  · by_cases h1 : b.take 8 = magicNoLotSeq
    · exact Or.inl h1
    · by_cases h2 : b.take 8 = magicLotSeq
      · exact Or.inr h2
      · exact absurd (by simp [h1, h2]) hm
  · unfold ecPayload ecFlagOf ecE2 ecE1 ecKey
    exact (Except.ok.inj h).symm

/-! ### fields of the EC payload -/

theorem toBytesAuto_byte (b : Nat) (h : b < 256) : toBytesAuto b = [UInt8.ofNat b] := by
  by_cases h0 : b = 0
  · subst h0; exact toBytesAuto_zero
  · rw [toBytesAuto_of_ne_zero h0]
    unfold natToBytesMin
    rw [digitsBE, dif_neg (by omega), digitsBE, dif_pos (Or.inl (by omega))]
    simp [Nat.mod_eq_of_lt h]

theorem ecPayload_def (flag : Nat) (ah oe key seedb : Bytes) (hf : flag < 256) :
    ecPayload flag ah oe key seedb =
      [0x01, 0x43, UInt8.ofNat flag] ++ (ah ++ (oe ++ ((ecE1 key seedb).take 8 ++ ecE2 key seedb))) := by
  unfold ecPayload
  rw [toBytesAuto_byte flag hf]
  simp only [List.append_assoc, List.cons_append, List.nil_append]

theorem ecE1_length (key seedb : Bytes) : (ecE1 key seedb).length = 16 := aes256EncryptBlock_length _ _
theorem ecE2_length (key seedb : Bytes) : (ecE2 key seedb).length = 16 := aes256EncryptBlock_length _ _

theorem ecPayload_fields (flag : Nat) (ah oe key seedb : Bytes) (hf : flag < 256)
    (hah : ah.length = 4) (hoe : oe.length = 8) :
    (ecPayload flag ah oe key seedb).length = 39 ∧
    (ecPayload flag ah oe key seedb)[2]? = some (UInt8.ofNat flag) ∧
    (ecPayload flag ah oe key seedb).take 2 = [0x01, 0x43] ∧
    ((ecPayload flag ah oe key seedb).drop 3).take 4 = ah ∧
    ((ecPayload flag ah oe key seedb).drop 7).take 8 = oe ∧
    ((ecPayload flag ah oe key seedb).drop 15).take 8 = (ecE1 key seedb).take 8 ∧
    (ecPayload flag ah oe key seedb).drop 23 = ecE2 key seedb := by
  have l1 : ((ecE1 key seedb).take 8).length = 8 := by rw [List.length_take, ecE1_length]; rfl
  have l2 := ecE2_length key seedb
  rw [ecPayload_def flag ah oe key seedb hf]
  refine ⟨?_, rfl, rfl, ?_, ?_, ?_, ?_⟩
  · simp only [List.length_append, List.length_cons, List.length_nil]; omega
  · exact drop_take_mid _ _ _ rfl hah
  · rw [← List.append_assoc]
    exact drop_take_mid _ _ _ (by simp [hah]) hoe
  · rw [← List.append_assoc, ← List.append_assoc]
    exact drop_take_mid _ _ _ (by simp [hah, hoe]) l1
  · rw [← List.append_assoc, ← List.append_assoc, ← List.append_assoc]
    exact drop_append_len _ _ (by simp [hah, hoe, l1])

/-! ### the flag byte -/

/-- the flag-byte test of the decrypter: something besides bits 2 and 5 is set -/
def ecFlagBad (f : Nat) : Prop :=
  ((f - if f / 4 % 2 = 1 then 4 else 0) - if f / 32 % 2 = 1 then 32 else 0) ≠ 0

instance (f : Nat) : Decidable (ecFlagBad f) := by unfold ecFlagBad; infer_instance

theorem ecFlagBad_iff (f : Nat) : ecFlagBad f ↔ ¬ (f = 0 ∨ f = 4 ∨ f = 32 ∨ f = 36) := by
  unfold ecFlagBad
  constructor
  · intro h; split at h <;> split at h <;> omega
  · intro h; split <;> split <;> omega

theorem ecFlag_cases (c l : Bool) :
    ecFlag c l < 256 ∧ ¬ ecFlagBad (ecFlag c l) ∧
      decide (ecFlag c l / 4 % 2 = 1) = l ∧ decide (ecFlag c l / 32 % 2 = 1) = c ∧
      (UInt8.ofNat (ecFlag c l)).toNat = ecFlag c l := by
  cases c <;> cases l <;> decide

/-! ### decryption -/

/-- `seedb` as recovered by the decrypter from the two AES blocks -/
def ecRecoverSeed (key e1lo e2 : Bytes) : Bytes :=
  xorBytes (aes256DecryptBlock (key.drop 32)
      (e1lo ++ (xorBytes (aes256DecryptBlock (key.drop 32) e2) ((key.take 32).drop 16)).take 8))
    ((key.take 32).take 16)
  ++ (xorBytes (aes256DecryptBlock (key.drop 32) e2) ((key.take 32).drop 16)).drop 8

theorem toBytesBE_mod_n (v : Nat) :
    toBytesBE (v % Prim.secp256k1.n) 32 = .ok (Bytes.ofNatBE 32 (v % Prim.secp256k1.n)) :=
  toBytesBE_eq_ofNatBE (Nat.lt_trans (Nat.mod_lt _ secp_n_pos) secp_n_lt)

/-- everything a successful EC decryption has established -/
theorem bip38EcDecrypt_ok {s : List Char} {pass k : Bytes} {c : Bool}
    (h : bip38EcDecrypt s pass = .ok (k, c)) :
    ∃ b flag pp pub, b58CheckDecode sha256d btcAlphabet s = .ok b ∧ b.length = 39 ∧
      b[2]? = some flag ∧ b.take 2 = [0x01, 0x43] ∧ ¬ ecFlagBad flag.toNat ∧
      c = decide (flag.toNat / 32 % 2 = 1) ∧
      secpMulG (Bytes.toNatBE (bip38PassFactor pass ((b.drop 7).take 8)
        (decide (flag.toNat / 4 % 2 = 1)))) = .ok pp ∧
      k = Bytes.ofNatBE 32
        (Bytes.toNatBE (bip38PassFactor pass ((b.drop 7).take 8) (decide (flag.toNat / 4 % 2 = 1)))
          * Bytes.toNatBE (sha256d (ecRecoverSeed (ecKey pp ((b.drop 3).take 4) ((b.drop 7).take 8))
              ((b.drop 15).take 8) (b.drop 23)))
          % Prim.secp256k1.n) ∧
      secpPubOfPriv k = .ok pub ∧ bip38AddrHash pub c = .ok ((b.drop 3).take 4) := by
  unfold bip38EcDecrypt at h
  obtain ⟨b, hb, h⟩ := bind_ok_inv h
  dsimp only at h
  obtain ⟨hl, h⟩ := guard_ok_inv h
  obtain ⟨flag, hflag, h⟩ := bind_ok_inv h
  obtain ⟨hp, h⟩ := guard_ok_inv h
  obtain ⟨hf, h⟩ := guard_ok_inv h
  obtain ⟨pp, hpp, h⟩ := bind_ok_inv h
  obtain ⟨priv, hpriv, h⟩ := bind_ok_inv h
  obtain ⟨pub, hpub, h⟩ := bind_ok_inv h
  obtain ⟨ah', hah, h⟩ := bind_ok_inv h
  obtain ⟨ha, h⟩ := guard_ok_inv h
  have hk := Except.ok.inj h
  simp only [Prod.mk.injEq] at hk
  obtain ⟨rfl, rfl⟩ := hk
  rw [toBytesBE_mod_n] at hpriv
  have hpriv' := (Except.ok.inj hpriv).symm
  refine ⟨b, flag, pp, pub, hb, by omega, pyIdx_ok hflag, by simpa using hp, hf, rfl, hpp, ?_, hpub, ?_⟩
  · rw [hpriv']; rfl
  · rw [hah]; simp only [ne_eq, Decidable.not_not] at ha; rw [ha]

/-- **error kinds** of the EC decrypter -/
theorem bip38EcDecrypt_error {s : List Char} {pass : Bytes} {e : Err}
    (h : bip38EcDecrypt s pass = .error e) : e = .value ∨ e = .checksum := by
  unfold bip38EcDecrypt at h
  rcases bind_error_inv h with hb | ⟨b, hb, h⟩
  · exact b58c_error hb
  dsimp only at h
  rcases guard_error_inv h with ⟨_, he⟩ | ⟨hl, h⟩
  · exact Or.inl he
  rcases bind_error_inv h with hflag | ⟨flag, hflag, h⟩
  · obtain ⟨x, hx, _⟩ := pyIdx_of_lt b 2 (by omega)
    rw [hx] at hflag; cases hflag
  rcases guard_error_inv h with ⟨_, he⟩ | ⟨hp, h⟩
  · exact Or.inl he
  rcases guard_error_inv h with ⟨_, he⟩ | ⟨hf, h⟩
  · exact Or.inl he
  rcases bind_error_inv h with hpp | ⟨pp, hpp, h⟩
  · exact Or.inl (secpMulG_error hpp)
  rcases bind_error_inv h with hpriv | ⟨priv, hpriv, h⟩
  · rw [toBytesBE_mod_n] at hpriv; cases hpriv
  rcases bind_error_inv h with hpub | ⟨pub, hpub, h⟩
  · exact Or.inl (secpPubOfPriv_error hpub)
  rcases bind_error_inv h with hah | ⟨ah', hah, h⟩
  · exact Or.inl (bip38AddrHash_error hah)
  rcases guard_error_inv h with ⟨_, he⟩ | ⟨ha, h⟩
  · exact Or.inl he
  · cases h

/-- a flag byte with any bit other than 2 and 5 set is refused -/
theorem bip38EcDecrypt_badflag {s : List Char} {pass b : Bytes} {flag : UInt8}
    (hb : b58CheckDecode sha256d btcAlphabet s = .ok b) (hflag : b[2]? = some flag)
    (hbad : ecFlagBad flag.toNat) : bip38EcDecrypt s pass = .error .value := by
  unfold ecFlagBad at hbad
  unfold bip38EcDecrypt
  rw [hb, ok_bind]
  dsimp only
  by_cases hl : b.length ≠ 39
  · rw [guard_pos hl]
  · rw [guard_neg hl, pyIdx_eq_ok hflag, ok_bind]
    by_cases hp : b.take 2 ≠ [0x01, 0x43]
    · rw [guard_pos hp]
    · rw [guard_neg hp, guard_pos hbad]

/-! ### round trip of the seed and of the whole payload -/

/-- under the AES inverse property the decrypter recovers `seedb` from the generator's blocks -/
theorem ecRecoverSeed_blocks (AesInv : ∀ k b : Bytes, k.length = 32 → b.length = 16 →
      aes256DecryptBlock k (aes256EncryptBlock k b) = b)
    (key seedb : Bytes) (hk : key.length = 64) (hs : seedb.length = 24) :
    ecRecoverSeed key ((ecE1 key seedb).take 8) (ecE2 key seedb) = seedb := by
  have hdh2 : (key.drop 32).length = 32 := by rw [List.length_drop, hk]
  have hdh1 : (key.take 32).length = 32 := by rw [List.length_take, hk]; rfl
  have he1 := ecE1_length key seedb
  have hm2 : ((key.take 32).drop 16).length = 16 := by rw [List.length_drop, hdh1]
  have hm1 : ((key.take 32).take 16).length = 16 := by rw [List.length_take, hdh1]; rfl
  have hx2 : ((ecE1 key seedb).drop 8 ++ seedb.drop 16).length = 16 := by
    rw [List.length_append, List.length_drop, List.length_drop, he1, hs]
  have hd2 : xorBytes (aes256DecryptBlock (key.drop 32) (ecE2 key seedb)) ((key.take 32).drop 16)
      = (ecE1 key seedb).drop 8 ++ seedb.drop 16 := by
    unfold ecE2
    rw [AesInv _ _ hdh2 (by rw [xorBytes_length, hx2, hm2]; rfl),
      xorBytes_xorBytes _ _ (by rw [hx2, hm2])]
  unfold ecRecoverSeed
  rw [hd2]
  have hl8 : ((ecE1 key seedb).drop 8).length = 8 := by rw [List.length_drop, he1]
  rw [take_append_len _ _ hl8, drop_append_len _ _ hl8, List.take_append_drop]
  have hx1 : (xorBytes (seedb.take 16) ((key.take 32).take 16)).length = 16 := by
    rw [xorBytes_length, List.length_take, hs, hm1]; rfl
  unfold ecE1
  rw [AesInv _ _ hdh2 hx1,
    xorBytes_xorBytes _ _ (by rw [List.length_take, hs, hm1]; decide), List.take_append_drop]

/-- **decrypting a generated payload**, stated on the fields so that nothing heavy is evaluated:
`pp` is the pass point, `pt` the public key of the product scalar, `ah` its address hash -/
theorem ecDecrypt_payload (AesInv : ∀ k b : Bytes, k.length = 32 → b.length = 16 →
      aes256DecryptBlock k (aes256EncryptBlock k b) = b)
    (pass oe seedb ah pp pt : Bytes) (c l : Bool)
    (hah : ah.length = 4) (hoe : oe.length = 8) (hseed : seedb.length = 24)
    (hpp : secpMulG (Bytes.toNatBE (bip38PassFactor pass oe l)) = .ok pp)
    (hpub : secpPubOfPriv (Bytes.ofNatBE 32 (Bytes.toNatBE (bip38PassFactor pass oe l)
        * Bytes.toNatBE (sha256d seedb) % Prim.secp256k1.n)) = .ok pt)
    (hahash : bip38AddrHash pt c = .ok ah) :
    bip38EcDecrypt (b58CheckEncode sha256d btcAlphabet
        (ecPayload (ecFlag c l) ah oe (ecKey pp ah oe) seedb)) pass
      = .ok (Bytes.ofNatBE 32 (Bytes.toNatBE (bip38PassFactor pass oe l)
          * Bytes.toNatBE (sha256d seedb) % Prim.secp256k1.n), c) := by
  obtain ⟨fl, fnb, fl4, fc32, fnat⟩ := ecFlag_cases c l
  obtain ⟨f0, f1, f2, f3, f4, f5, f6⟩ :=
    ecPayload_fields (ecFlag c l) ah oe (ecKey pp ah oe) seedb fl hah hoe
  have hrec := ecRecoverSeed_blocks AesInv (ecKey pp ah oe) seedb (ecKey_length _ _ _) hseed
  unfold ecFlagBad at fnb
  unfold ecRecoverSeed at hrec
  unfold bip38EcDecrypt
  rw [b58c_decode_encode, ok_bind]
  generalize ecPayload (ecFlag c l) ah oe (ecKey pp ah oe) seedb = P at *
  dsimp only
  rw [guard_neg (by rw [f0]; decide), pyIdx_eq_ok f1, ok_bind, guard_neg (by rw [f2]; decide)]
  rw [fnat, guard_neg fnb, fl4, fc32, f3, f4, f5, f6, hpp, ok_bind]
  rw [show scrypt pp (ah ++ oe) 1024 1 1 64 = ecKey pp ah oe from rfl]
  rw [hrec, toBytesBE_mod_n, ok_bind, hpub, ok_bind, hahash, ok_bind, guard_neg (by simp)]
  rfl


/-! ### magic bytes -/

theorem magic_length (l : Bool) : (if l = true then magicLotSeq else magicNoLotSeq).length = 8 := by
  cases l <;> rfl

theorem magic_flag (l : Bool) :
    decide ((if l = true then magicLotSeq else magicNoLotSeq) = magicLotSeq) = l := by
  cases l <;> decide

end BipVerif.Model.Bip38Lemmas
