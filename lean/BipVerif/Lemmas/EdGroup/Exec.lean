/-
The executable ed25519 arithmetic of `Prim/Edwards.lean` computes in the group `EdPt`:
`toE`, correctness of the affine law `edAdd`, of the extended-coordinate addition / doubling
and of the double-and-add loop `edMul`.
-/
import BipVerif.Lemmas.EdGroup.Field

set_option linter.unusedSimpArgs false

namespace BipVerif.EdGroup
open BipVerif BipVerif.Prim BipVerif.WGroup EdCurve

/-! ## affine points -/

theorem edOnCurveModP_iff (P : EdPoint) :
    edOnCurveModP P = true ↔ edC.On (P.x : F) (P.y : F) := by
  unfold edOnCurveModP EdCurve.On
  simp only [beq_iff_eq]
  rw [← natCast_inj_of_lt (p := edP) (subMod_lt _ _ edP_pos) (Nat.mod_lt _ edP_pos)]
  simp only [cast_subMod, cast_mod, Nat.cast_mul, Nat.cast_add, Nat.cast_one, edC_d, dF]
  constructor <;> intro h <;> linear_combination h

theorem edOnCurve_iff (P : EdPoint) :
    edOnCurve P = true ↔ P.x < edP ∧ P.y < edP ∧ edC.On (P.x : F) (P.y : F) := by
  unfold edOnCurve
  simp only [Bool.and_eq_true, decide_eq_true_eq, edOnCurveModP_iff, and_assoc]

open Classical in
/-- The group element of an `EdPoint`; pairs that are not on the curve are sent to `0`
(all lemmas are about on-curve points). -/
noncomputable def toE (P : EdPoint) : EdPt :=
  if h : edC.On (P.x : F) (P.y : F) then ⟨P.x, P.y, h⟩ else 0

/-- The canonical `EdPoint` of a group element (coordinates reduced). -/
def ofE (P : EdPt) : EdPoint := ⟨P.x.val, P.y.val⟩

theorem toE_of_cast {x y : ℕ} {P : EdPt} (hx : (x : F) = P.x) (hy : (y : F) = P.y) :
    toE ⟨x, y⟩ = P := by
  unfold toE
  have h : edC.On ((x : ℕ) : F) ((y : ℕ) : F) := by rw [hx, hy]; exact P.on
  rw [dif_pos h]
  ext <;> simp [hx, hy]

theorem edOnCurve_of_cast {x y : ℕ} {P : EdPt} (hx : x < edP) (hy : y < edP)
    (hX : (x : F) = P.x) (hY : (y : F) = P.y) : edOnCurve ⟨x, y⟩ = true := by
  rw [edOnCurve_iff]
  refine ⟨hx, hy, ?_⟩
  show edC.On ((x : ℕ) : F) ((y : ℕ) : F)
  rw [hX, hY]; exact P.on

theorem toE_x {P : EdPoint} (h : edOnCurve P = true) : (toE P).x = (P.x : F) := by
  unfold toE; rw [dif_pos ((edOnCurve_iff P).mp h).2.2]

theorem toE_y {P : EdPoint} (h : edOnCurve P = true) : (toE P).y = (P.y : F) := by
  unfold toE; rw [dif_pos ((edOnCurve_iff P).mp h).2.2]

/-- `toE` is injective on on-curve points. -/
theorem toE_injOn {P Q : EdPoint} (hP : edOnCurve P = true) (hQ : edOnCurve Q = true)
    (h : toE P = toE Q) : P = Q := by
  obtain ⟨hx, hy, -⟩ := (edOnCurve_iff P).mp hP
  obtain ⟨hx', hy', -⟩ := (edOnCurve_iff Q).mp hQ
  have h1 : (P.x : F) = Q.x := by rw [← toE_x hP, ← toE_x hQ, h]
  have h2 : (P.y : F) = Q.y := by rw [← toE_y hP, ← toE_y hQ, h]
  cases P; cases Q
  simp only [EdPoint.mk.injEq]
  exact ⟨(natCast_inj_of_lt hx hx').mp h1, (natCast_inj_of_lt hy hy').mp h2⟩

theorem ofE_onCurve (P : EdPt) : edOnCurve (ofE P) = true :=
  edOnCurve_of_cast (ZMod.val_lt _) (ZMod.val_lt _) (ZMod.natCast_zmod_val _)
    (ZMod.natCast_zmod_val _)

theorem toE_ofE (P : EdPt) : toE (ofE P) = P :=
  toE_of_cast (ZMod.natCast_zmod_val _) (ZMod.natCast_zmod_val _)

theorem ofE_toE {P : EdPoint} (h : edOnCurve P = true) : ofE (toE P) = P :=
  toE_injOn (ofE_onCurve _) h (toE_ofE _)

theorem ofE_injective : Function.Injective ofE := fun P Q h => by
  rw [← toE_ofE P, ← toE_ofE Q, h]

theorem edIdentity_onCurve : edOnCurve edIdentity = true := by decide +kernel

theorem toE_identity : toE edIdentity = 0 :=
  toE_of_cast (by simp) (by simp)

theorem ofE_zero : ofE 0 = edIdentity := by
  rw [← toE_identity, ofE_toE edIdentity_onCurve]

theorem toE_eq_zero_iff {P : EdPoint} (h : edOnCurve P = true) : toE P = 0 ↔ P = edIdentity := by
  rw [← toE_identity]
  exact ⟨toE_injOn h edIdentity_onCurve, fun h => by rw [h]⟩

/-! ## the affine law `edAdd` -/

/-- **Correctness of `edAdd`**: on on-curve points it is the group law. -/
theorem edAdd_correct {P Q : EdPoint} (hP : edOnCurve P = true) (hQ : edOnCurve Q = true) :
    edOnCurve (edAdd P Q) = true ∧ toE (edAdd P Q) = toE P + toE Q := by
  have hp := edP_pos
  have hp2 := edP_two_lt
  have hX : (((P.x * Q.y % edP + P.y * Q.x % edP) *
      invMod (1 + edD * (P.x * Q.y % edP * (P.y * Q.x % edP) % edP) % edP) edP % edP : ℕ) : F) =
      (toE P + toE Q).x := by
    rw [Pt.add_x, toE_x hP, toE_y hP, toE_x hQ, toE_y hQ]
    simp only [cast_mod, Nat.cast_mul, Nat.cast_add, Nat.cast_one, cast_invMod hp2, edC_d, dF]
    unfold addX
    ring
  have hY : (((P.y * Q.y + P.x * Q.x) % edP *
      invMod (subMod 1 (edD * (P.x * Q.y % edP * (P.y * Q.x % edP) % edP) % edP) edP) edP % edP : ℕ) :
        F) = (toE P + toE Q).y := by
    rw [Pt.add_y, toE_x hP, toE_y hP, toE_x hQ, toE_y hQ]
    simp only [cast_mod, cast_subMod, Nat.cast_mul, Nat.cast_add, Nat.cast_one, cast_invMod hp2,
      edC_d, dF]
    unfold addY
    ring
  exact ⟨edOnCurve_of_cast (Nat.mod_lt _ hp) (Nat.mod_lt _ hp) hX hY, toE_of_cast hX hY⟩

theorem edOnCurve_edAdd {P Q : EdPoint} (hP : edOnCurve P = true) (hQ : edOnCurve Q = true) :
    edOnCurve (edAdd P Q) = true := (edAdd_correct hP hQ).1

theorem toE_edAdd {P Q : EdPoint} (hP : edOnCurve P = true) (hQ : edOnCurve Q = true) :
    toE (edAdd P Q) = toE P + toE Q := (edAdd_correct hP hQ).2

theorem edNeg_correct {P : EdPoint} (hP : edOnCurve P = true) :
    edOnCurve (edNeg P) = true ∧ toE (edNeg P) = -toE P := by
  obtain ⟨-, hy, -⟩ := (edOnCurve_iff P).mp hP
  have hX : ((negMod P.x edP : ℕ) : F) = (-toE P).x := by
    rw [cast_negMod, Pt.neg_x, toE_x hP]
  have hY : (P.y : F) = (-toE P).y := by rw [Pt.neg_y, toE_y hP]
  exact ⟨edOnCurve_of_cast (negMod_lt _ edP_pos) hy hX hY, toE_of_cast hX hY⟩

/-! ## extended coordinates -/

/-- The extended quadruple `E` (reduced coordinates) represents the group element `P`:
`Z ≠ 0`, `X = x·Z`, `Y = y·Z`, `T = x·y·Z`. -/
def ERep (E : EdExt) (P : EdPt) : Prop :=
  E.X < edP ∧ E.Y < edP ∧ E.Z < edP ∧ E.T < edP ∧ (E.Z : F) ≠ 0 ∧
    (E.X : F) = P.x * E.Z ∧ (E.Y : F) = P.y * E.Z ∧ (E.T : F) = P.x * P.y * E.Z

theorem ERep.id : ERep edExtId 0 := by
  have := edP_two_lt
  refine ⟨by show 0 < edP; omega, by show 1 < edP; omega, by show 1 < edP; omega,
    by show 0 < edP; omega, ?_, ?_, ?_, ?_⟩ <;> simp [edExtId]

theorem ERep.ofAffine {P : EdPoint} (hP : edOnCurve P = true) :
    ERep (edExtOfAffine P) (toE P) := by
  obtain ⟨hx, hy, -⟩ := (edOnCurve_iff P).mp hP
  have := edP_two_lt
  unfold edExtOfAffine
  rw [Nat.mod_eq_of_lt hx, Nat.mod_eq_of_lt hy]
  refine ⟨hx, hy, by show 1 < edP; omega, Nat.mod_lt _ edP_pos, ?_, ?_, ?_, ?_⟩ <;>
    simp [toE_x hP, toE_y hP, cast_mod]

/-- Conversion back to affine coordinates. -/
theorem ERep.toAffine {E : EdExt} {P : EdPt} (h : ERep E P) :
    edOnCurve (edExtToAffine E) = true ∧ toE (edExtToAffine E) = P := by
  obtain ⟨-, -, -, -, hz, eX, eY, -⟩ := h
  have hp := edP_pos
  have hX : ((E.X * invMod E.Z edP % edP : ℕ) : F) = P.x := by
    simp only [cast_mod, Nat.cast_mul, cast_invMod edP_two_lt, eX]
    rw [mul_assoc, mul_inv_cancel₀ hz, mul_one]
  have hY : ((E.Y * invMod E.Z edP % edP : ℕ) : F) = P.y := by
    simp only [cast_mod, Nat.cast_mul, cast_invMod edP_two_lt, eY]
    rw [mul_assoc, mul_inv_cancel₀ hz, mul_one]
  exact ⟨edOnCurve_of_cast (Nat.mod_lt _ hp) (Nat.mod_lt _ hp) hX hY, toE_of_cast hX hY⟩

/-- **Unified extended addition** (`add-2008-hwcd-3`) computes `P + Q`. -/
theorem edExtAdd_rep {E1 E2 : EdExt} {P Q : EdPt} (h1 : ERep E1 P) (h2 : ERep E2 Q) :
    ERep (edExtAdd E1 E2) (P + Q) := by
  obtain ⟨-, -, -, -, hz1, eX1, eY1, eT1⟩ := h1
  obtain ⟨-, -, -, -, hz2, eX2, eY2, eT2⟩ := h2
  have hp := edP_pos
  have hD1 := edC.one_add_t_ne P.on Q.on
  have hD2 := edC.one_sub_t_ne P.on Q.on
  have h2' := two_ne_zero_F
  unfold edExtAdd
  dsimp only
  refine ⟨Nat.mod_lt _ hp, Nat.mod_lt _ hp, Nat.mod_lt _ hp, Nat.mod_lt _ hp, ?_, ?_, ?_, ?_⟩
  · simp only [cast_subMod, cast_mod, Nat.cast_mul, Nat.cast_add, Nat.cast_ofNat, eX1, eY1, eT1,
      eX2, eY2, eT2]
    have : (2 * (E1.Z : F) * E2.Z - 2 * (edD : F) * (P.x * P.y * E1.Z * (Q.x * Q.y * E2.Z))) *
        (2 * (E1.Z : F) * E2.Z + 2 * (edD : F) * (P.x * P.y * E1.Z * (Q.x * Q.y * E2.Z))) =
        2 * 2 * (E1.Z * E1.Z) * (E2.Z * E2.Z) *
          ((1 - edC.d * P.x * Q.x * P.y * Q.y) * (1 + edC.d * P.x * Q.x * P.y * Q.y)) := by
      simp only [edC_d, dF]; ring
    rw [this]
    exact mul_ne_zero (mul_ne_zero (mul_ne_zero (mul_ne_zero h2' h2') (mul_ne_zero hz1 hz1))
      (mul_ne_zero hz2 hz2)) (mul_ne_zero hD2 hD1)
  · rw [Pt.add_x, addX, div_mul_eq_mul_div, eq_div_iff hD1]
    simp only [cast_subMod, cast_mod, Nat.cast_mul, Nat.cast_add, Nat.cast_ofNat, eX1, eY1, eT1,
      eX2, eY2, eT2, edC_d, dF]
    ring
  · rw [Pt.add_y, addY, div_mul_eq_mul_div, eq_div_iff hD2]
    simp only [cast_subMod, cast_mod, Nat.cast_mul, Nat.cast_add, Nat.cast_ofNat, eX1, eY1, eT1,
      eX2, eY2, eT2, edC_d, dF]
    ring
  · rw [Pt.add_x, Pt.add_y, addX, addY, div_mul_div_comm, div_mul_eq_mul_div,
      eq_div_iff (mul_ne_zero hD1 hD2)]
    simp only [cast_subMod, cast_mod, Nat.cast_mul, Nat.cast_add, Nat.cast_ofNat, eX1, eY1, eT1,
      eX2, eY2, eT2, edC_d, dF]
    ring

/-- **Extended doubling** (`dbl-2008-hwcd`, `a = -1`) computes `P + P`. -/
theorem edExtDouble_rep {E : EdExt} {P : EdPt} (h : ERep E P) :
    ERep (edExtDouble E) (P + P) := by
  obtain ⟨-, -, -, -, hz, eX, eY, -⟩ := h
  have hp := edP_pos
  have hD1 := edC.one_add_t_ne P.on P.on
  have hD2 := edC.one_sub_t_ne P.on P.on
  have hon := P.on
  unfold EdCurve.On at hon
  unfold edExtDouble
  dsimp only
  refine ⟨Nat.mod_lt _ hp, Nat.mod_lt _ hp, Nat.mod_lt _ hp, Nat.mod_lt _ hp, ?_, ?_, ?_, ?_⟩
  · simp only [cast_subMod, cast_negMod, cast_mod, Nat.cast_mul, Nat.cast_add, Nat.cast_ofNat,
      eX, eY]
    have : (P.y * (E.Z : F) * (P.y * E.Z) - P.x * E.Z * (P.x * E.Z) - 2 * E.Z * E.Z) *
        (P.y * E.Z * (P.y * E.Z) - P.x * E.Z * (P.x * E.Z)) =
        -((E.Z : F) * E.Z * (E.Z * E.Z) *
          ((1 - edC.d * P.x * P.x * P.y * P.y) * (1 + edC.d * P.x * P.x * P.y * P.y))) := by
      linear_combination ((E.Z : F) ^ 4 * (edC.d * P.x ^ 2 * P.y ^ 2 - P.x ^ 2 + P.y ^ 2 - 1)) * hon
    rw [this]
    exact neg_ne_zero.mpr (mul_ne_zero (mul_ne_zero (mul_ne_zero hz hz) (mul_ne_zero hz hz))
      (mul_ne_zero hD2 hD1))
  · rw [Pt.add_x, addX, div_mul_eq_mul_div, eq_div_iff hD1]
    simp only [cast_subMod, cast_negMod, cast_mod, Nat.cast_mul, Nat.cast_add, Nat.cast_ofNat,
      eX, eY]
    linear_combination (2 * (E.Z : F) ^ 4 * P.x * P.y * (P.x ^ 2 - P.y ^ 2 + 2)) * hon
  · rw [Pt.add_y, addY, div_mul_eq_mul_div, eq_div_iff hD2]
    simp only [cast_subMod, cast_negMod, cast_mod, Nat.cast_mul, Nat.cast_add, Nat.cast_ofNat,
      eX, eY]
    linear_combination ((E.Z : F) ^ 4 * (P.x - P.y) * (P.x + P.y) * (P.x ^ 2 + P.y ^ 2)) * hon
  · rw [Pt.add_x, Pt.add_y, addX, addY, div_mul_div_comm, div_mul_eq_mul_div,
      eq_div_iff (mul_ne_zero hD1 hD2)]
    simp only [cast_subMod, cast_negMod, cast_mod, Nat.cast_mul, Nat.cast_add, Nat.cast_ofNat,
      eX, eY]
    linear_combination (-2 * (E.Z : F) ^ 4 * P.x * P.y * (P.x ^ 2 + P.y ^ 2) * (edC.d * P.x ^ 2 * P.y ^ 2 - P.x ^ 2 + P.y ^ 2 - 1)) * hon

/-! ## scalar multiplication -/

theorem edMulLoop_succ (k : ℕ) (Q : EdExt) (i : ℕ) (acc : EdExt) :
    edMulLoop k Q (i + 1) acc =
      edMulLoop k Q i
        (if k / 2 ^ i % 2 = 1 then edExtAdd (edExtDouble acc) Q else edExtDouble acc) := rfl

/-- Loop invariant of the MSB-first double-and-add. -/
theorem edMulLoop_rep (k : ℕ) {Q : EdExt} {P : EdPt} (hQ : ERep Q P) :
    ∀ (i : ℕ) (acc : EdExt) (A : EdPt), ERep acc A →
      ERep (edMulLoop k Q i acc) (2 ^ i • A + (k % 2 ^ i) • P)
  | 0, acc, A, h => by
    simpa [edMulLoop, Nat.mod_one] using h
  | i + 1, acc, A, h => by
    rw [edMulLoop_succ]
    have hd := edExtDouble_rep h
    have hmod : k % 2 ^ (i + 1) = k % 2 ^ i + 2 ^ i * (k / 2 ^ i % 2) := Nat.mod_pow_succ
    by_cases hb : k / 2 ^ i % 2 = 1
    · rw [if_pos hb]
      have := edMulLoop_rep k hQ i _ _ (edExtAdd_rep hd hQ)
      convert this using 1
      rw [hmod, hb, mul_one, pow_succ, mul_nsmul, add_nsmul, nsmul_add, nsmul_add, two_nsmul]
      abel
    · rw [if_neg hb]
      have hb0 : k / 2 ^ i % 2 = 0 := by omega
      have := edMulLoop_rep k hQ i _ _ hd
      convert this using 1
      rw [hmod, hb0, mul_zero, add_zero, pow_succ, mul_nsmul, two_nsmul, nsmul_add]

/-- **Correctness of `edMul`**: it is `k • P` in the group, for every `k`. -/
theorem edMul_correct (k : ℕ) {P : EdPoint} (hP : edOnCurve P = true) :
    toE (edMul k P) = k • toE P ∧ edOnCurve (edMul k P) = true := by
  unfold edMul
  by_cases hk : k = 0
  · rw [if_pos hk, hk, zero_nsmul]; exact ⟨toE_identity, edIdentity_onCurve⟩
  · rw [if_neg hk]
    have h := edMulLoop_rep k (ERep.ofAffine hP) (Nat.log2 k + 1) edExtId 0 ERep.id
    have hlt : k < 2 ^ (Nat.log2 k + 1) := by
      rw [Nat.log2_eq_log_two]; exact Nat.lt_pow_succ_log_self (by norm_num) k
    rw [nsmul_zero, zero_add, Nat.mod_eq_of_lt hlt] at h
    exact ⟨h.toAffine.2, h.toAffine.1⟩

theorem toE_edMul (k : ℕ) {P : EdPoint} (hP : edOnCurve P = true) :
    toE (edMul k P) = k • toE P := (edMul_correct k hP).1

theorem edOnCurve_edMul (k : ℕ) {P : EdPoint} (hP : edOnCurve P = true) :
    edOnCurve (edMul k P) = true := (edMul_correct k hP).2

end BipVerif.EdGroup
