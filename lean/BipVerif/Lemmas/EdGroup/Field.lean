/-
The field `F = ZMod (2^255 - 19)` of ed25519 and the two facts that make the addition law of
`-x² + y² = 1 + d·x²·y²` complete: `-1` is a square and `d` is not.  Both come from kernel
evaluations of `powMod` (Fermat / Euler).  Result: the curve `edC : EdCurve F` and its group of
points `EdPt`.
-/
import BipVerif.Lemmas.WGroup.Basic
import BipVerif.Lemmas.EdGroup.Curve

namespace BipVerif.EdGroup
open BipVerif BipVerif.Prim BipVerif.WGroup

instance edP_prime : Fact (Nat.Prime edP) := ⟨Pratt.p25519_prime⟩

/-- the prime field of ed25519 -/
abbrev F : Type := ZMod edP

theorem edP_two_lt : 2 < edP := by decide +kernel

theorem edP_pos : 0 < edP := by have := edP_two_lt; omega

instance : Fact (1 < edP) := ⟨by have := edP_two_lt; omega⟩

theorem two_ne_zero_F : (2 : F) ≠ 0 := by
  have : ((2 : ℕ) : F) ≠ 0 := by
    rw [Ne, natCast_eq_zero_of_lt edP_two_lt]; decide
  simpa using this

theorem neg_one_ne_one_F : (-1 : F) ≠ 1 := by
  intro h
  apply two_ne_zero_F
  linear_combination -h

/-- `d` as a field element -/
def dF : F := (edD : F)

/-- `√-1 = 2^((p-1)/4)` as a number -/
def sqrtM1 : ℕ := powMod 2 ((edP - 1) / 4) edP

/-- `√-1` as a field element -/
def iF : F := (sqrtM1 : F)

theorem sqrtM1_sq : sqrtM1 * sqrtM1 % edP = edP - 1 := by decide +kernel

theorem sqrtM1_lt : sqrtM1 < edP := powMod_lt _ _ edP_pos

theorem cast_edP_sub_one : ((edP - 1 : ℕ) : F) = -1 := by
  rw [Nat.cast_sub (by have := edP_two_lt; omega), ZMod.natCast_self]; simp

/-- **`-1` is a square in `F`.** -/
theorem iF_sq : iF * iF = -1 := by
  have h := congrArg (fun n : ℕ => (n : F)) sqrtM1_sq
  simp only [cast_mod, Nat.cast_mul] at h
  rw [cast_edP_sub_one] at h
  exact h

theorem edD_euler : powMod edD ((edP - 1) / 2) edP = edP - 1 := by decide +kernel

/-- Euler: `d^((p-1)/2) = -1`. -/
theorem dF_pow : dF ^ ((edP - 1) / 2) = -1 := by
  have h := congrArg (fun n : ℕ => (n : F)) edD_euler
  simp only [cast_powMod] at h
  rw [cast_edP_sub_one] at h
  exact h

/-- **`d` is not a square in `F`.** -/
theorem dF_nonsq (z : F) : z * z ≠ dF := by
  intro h
  have hd := dF_pow
  have hz : z ≠ 0 := by
    rintro rfl
    rw [← h, mul_zero, zero_pow (by decide +kernel)] at hd
    exact two_ne_zero_F (by linear_combination 2 * hd)
  have h1 : z ^ (edP - 1) = 1 := ZMod.pow_card_sub_one_eq_one hz
  have h2 : dF ^ ((edP - 1) / 2) = z ^ (edP - 1) := by
    rw [← h, ← pow_two, ← pow_mul, show 2 * ((edP - 1) / 2) = edP - 1 by decide +kernel]
  rw [h2, h1] at hd
  exact neg_one_ne_one_F hd.symm

/-- The curve of ed25519. -/
def edC : EdCurve F where
  d := dF
  i := iF
  i_sq := iF_sq
  d_nonsq := dF_nonsq
  two_ne := two_ne_zero_F

/-- **The group of points of ed25519** (all `F`-rational points, order `8·L`). -/
abbrev EdPt : Type := edC.Pt

@[simp] theorem edC_d : edC.d = dF := rfl

example : AddCommGroup EdPt := inferInstance

end BipVerif.EdGroup
