/-
`KholawLaw` without hypotheses: the executable Edwards layer is a faithful model of the group
`EdPt` (`GroupModel.EdGroupModel edB ofE`).  The remaining ingredient is the decoder: the
`p ≡ 5 (mod 8)` square root `sqrtCand5mod8` finds a root of every square, hence
`edDecodeLenient (edEncode P) = some P` for every reduced on-curve point.
-/
import BipVerif.Lemmas.EdGroup.Concrete

namespace BipVerif.EdGroup
open BipVerif BipVerif.Prim BipVerif.Model BipVerif.WGroup EdCurve

/-! ## the square root for `p ≡ 5 (mod 8)` -/

theorem sqrtCand5mod8_lt (a : ℕ) : sqrtCand5mod8 a edP < edP := by
  unfold sqrtCand5mod8
  dsimp only
  split
  · exact powMod_lt _ _ edP_pos
  · exact Nat.mod_lt _ edP_pos

/-- `x^((p-1)/2) = ±1` for `x ≠ 0` -/
theorem pow_half_F {x : F} (hx : x ≠ 0) :
    x ^ ((edP - 1) / 2) = 1 ∨ x ^ ((edP - 1) / 2) = -1 := by
  have h1 : x ^ (edP - 1) = 1 := ZMod.pow_card_sub_one_eq_one hx
  have h2 : x ^ ((edP - 1) / 2) * x ^ ((edP - 1) / 2) = 1 := by
    rw [← pow_add, show (edP - 1) / 2 + (edP - 1) / 2 = edP - 1 by decide +kernel, h1]
  exact mul_self_eq_one_iff.mp h2

/-- The root candidate is a root of every square. -/
theorem sqrtCand5mod8_sq {a : ℕ} {x : F} (h : (a : F) = x * x) :
    ((sqrtCand5mod8 a edP : ℕ) : F) * (sqrtCand5mod8 a edP : ℕ) = x * x := by
  have hr : ((powMod (a % edP) ((edP + 3) / 8) edP : ℕ) : F) *
      (powMod (a % edP) ((edP + 3) / 8) edP : ℕ) = x * x * x ^ ((edP - 1) / 2) := by
    rw [cast_powMod, cast_mod, h, ← pow_add, ← pow_two, ← pow_mul, ← pow_add]
    congr 1
  unfold sqrtCand5mod8
  dsimp only
  have hcond : powMod (a % edP) ((edP + 3) / 8) edP * powMod (a % edP) ((edP + 3) / 8) edP % edP =
      a % edP ↔ ((powMod (a % edP) ((edP + 3) / 8) edP : ℕ) : F) *
        (powMod (a % edP) ((edP + 3) / 8) edP : ℕ) = x * x := by
    rw [← natCast_inj_of_lt (p := edP) (Nat.mod_lt _ edP_pos) (Nat.mod_lt _ edP_pos), cast_mod,
      cast_mod, Nat.cast_mul, h]
  by_cases hc : powMod (a % edP) ((edP + 3) / 8) edP * powMod (a % edP) ((edP + 3) / 8) edP % edP =
      a % edP
  · rw [if_pos hc]; exact hcond.mp hc
  · rw [if_neg hc]
    have hne : ((powMod (a % edP) ((edP + 3) / 8) edP : ℕ) : F) *
        (powMod (a % edP) ((edP + 3) / 8) edP : ℕ) ≠ x * x := fun h => hc (hcond.mpr h)
    have hx : x ≠ 0 := by
      rintro rfl
      apply hne
      rw [hr]; simp
    have hm1 : x ^ ((edP - 1) / 2) = -1 := by
      rcases pow_half_F hx with h1 | h1
      · exact absurd (by rw [hr, h1, mul_one]) hne
      · exact h1
    rw [hm1] at hr
    have hi : ((powMod 2 ((edP - 1) / 4) edP : ℕ) : F) = iF := rfl
    rw [cast_mod, Nat.cast_mul, hi]
    linear_combination iF * iF * hr + (x * x * -1) * iF_sq

/-! ## decoding inverts encoding -/

theorem dy2_add_one_ne (y : F) : dF * (y * y) + 1 ≠ 0 := by
  intro h
  have hy : y ≠ 0 := by
    rintro rfl
    simp at h
  apply dF_nonsq (iF / y)
  rw [div_mul_div_comm, iF_sq, div_eq_iff (mul_ne_zero hy hy)]
  linear_combination -h

theorem edXSquared_cast {x y : F} (h : edC.On x y) {n : ℕ} (hn : (n : F) = y) :
    ((edXSquared n : ℕ) : F) = x * x := by
  unfold edXSquared
  dsimp only
  simp only [cast_mod, cast_subMod, Nat.cast_mul, Nat.cast_add, Nat.cast_one,
    cast_invMod edP_two_lt, hn]
  have hd := dy2_add_one_ne y
  change (y * y - 1) * (dF * (y * y) + 1)⁻¹ = x * x
  rw [← div_eq_mul_inv, div_eq_iff hd]
  unfold EdCurve.On at h
  rw [edC_d] at h
  linear_combination h

theorem edP_odd : edP % 2 = 1 := by decide +kernel

theorem edP_lt : edP < 2 ^ 255 := by decide +kernel

/-- `_x_recover` with the sign fix-up returns the `x` coordinate of an on-curve point. -/
theorem edXRecoverRaw_eq {P : EdPoint} (hP : edOnCurve P = true) :
    edXRecoverRaw P.y (P.x % 2) = P.x := by
  obtain ⟨hx, hy, hon⟩ := (edOnCurve_iff P).mp hP
  have hsq := sqrtCand5mod8_sq (edXSquared_cast hon rfl)
  have hlt := sqrtCand5mod8_lt (edXSquared P.y)
  have hodd := edP_odd
  unfold edXRecoverRaw
  dsimp only
  generalize sqrtCand5mod8 (edXSquared P.y) edP = r at hsq hlt
  have hcases : r = P.x ∨ (P.x ≠ 0 ∧ r = edP - P.x) := by
    have : ((r : F) - P.x) * ((r : F) + P.x) = 0 := by linear_combination hsq
    rcases mul_eq_zero.mp this with h | h
    · left
      exact (natCast_inj_of_lt hlt hx).mp (sub_eq_zero.mp h)
    · by_cases h0 : P.x = 0
      · left
        rw [h0, Nat.cast_zero, add_zero] at h
        rw [h0]; exact (natCast_eq_zero_of_lt hlt).mp h
      · right
        refine ⟨h0, ?_⟩
        apply (natCast_inj_of_lt hlt (by omega)).mp
        rw [Nat.cast_sub hx.le, ZMod.natCast_self]
        linear_combination h
  clear hsq hon
  generalize edP = p at *
  rcases hcases with rfl | ⟨h0, rfl⟩
  · split_ifs <;> omega
  · split_ifs <;> omega

theorem edDecodeNoCheck_edEncode {P : EdPoint} (hP : edOnCurve P = true) :
    edDecodeNoCheck (edEncode P) = some P := by
  obtain ⟨hx, hy, -⟩ := (edOnCurve_iff P).mp hP
  have hp := edP_lt
  unfold edDecodeNoCheck
  rw [if_neg (by rw [edEncode_length]; decide)]
  dsimp only
  have hy' : P.y % 2 ^ 255 = P.y := Nat.mod_eq_of_lt (by omega)
  have hv : Bytes.toNatLE (edEncode P) = P.y + P.x % 2 * 2 ^ 255 := by
    unfold edEncode
    rw [toNatLE_ofNatLE (by rw [hy']; have := Nat.mod_lt P.x (by decide : 0 < 2); omega), hy']
  have h1 : (P.y + P.x % 2 * 2 ^ 255) % 2 ^ 255 = P.y := by
    rw [Nat.add_mul_mod_self_right]; exact hy'
  have h2 : (P.y + P.x % 2 * 2 ^ 255) / 2 ^ 255 = P.x % 2 := by
    rw [Nat.add_mul_div_right _ _ (by decide : 0 < 2 ^ 255), Nat.div_eq_of_lt (by omega),
      Nat.zero_add]
  rw [hv, h1, h2, edXRecoverRaw_eq hP]

/-- **The lenient decoder inverts the encoder** on every reduced on-curve point. -/
theorem edDecodeLenient_edEncode {P : EdPoint} (hP : edOnCurve P = true) :
    edDecodeLenient (edEncode P) = some P := by
  obtain ⟨hx, hy, hon⟩ := (edOnCurve_iff P).mp hP
  unfold edDecodeLenient edDecodeLib
  rw [edDecodeNoCheck_edEncode hP]
  simp only [Option.bind_some, (edOnCurveModP_iff P).mpr hon, if_true, Option.map_some,
    Nat.mod_eq_of_lt hx, Nat.mod_eq_of_lt hy]

theorem edBytesOnCurve_edEncode {P : EdPoint} (hP : edOnCurve P = true) :
    edBytesOnCurve (edEncode P) = some true := by
  obtain ⟨-, -, hon⟩ := (edOnCurve_iff P).mp hP
  unfold edBytesOnCurve
  rw [if_neg (by rw [edEncode_length]; decide), if_pos (edEncode_length P),
    edDecodeNoCheck_edEncode hP, Option.map_some, (edOnCurveModP_iff P).mpr hon]

/-! ## the group model and the law -/

/-- **The executable Edwards layer is a faithful model of the group `EdPt`.** -/
theorem edGroupModel : GroupModel.EdGroupModel edB ofE where
  order := edB_hasOrder
  pt_id k := by rw [← ofE_zero]; exact ofE_injective.eq_iff
  mul_base s _ := by rw [← toE_edMulBase, ofE_toE (edOnCurve_edMulBase s)]
  add a b := by
    have h := edAdd_correct (ofE_onCurve (a • edB)) (ofE_onCurve (b • edB))
    rw [← ofE_toE h.1, h.2, toE_ofE, toE_ofE]
  dec_enc k _ := edDecodeLenient_edEncode (ofE_onCurve _)
  on_curve k _ := edBytesOnCurve_edEncode (ofE_onCurve _)

/-- **`KholawLaw` holds** (no hypotheses): the Edwards point layer of the model is the
mathematical one. -/
theorem kholawLaw : KholawLaw := GroupModel.kholawLaw_of_group_model edGroupModel

end BipVerif.EdGroup
