/-
Twisted Edwards curves `-x² + y² = 1 + d·x²·y²` (`a = -1`) over a field in which `-1` is a square
and `d` is not: the complete addition law makes the set of points a commutative group.
Mathlib has no Edwards curves, so the group is built here from scratch:

* completeness (Bernstein–Lange): the denominators `1 ± d·x₁x₂y₁y₂` never vanish;
* closure, identity `(0, 1)`, negation `(-x, y)`, commutativity;
* associativity: after clearing denominators it is a polynomial identity modulo the three curve
  equations; the cofactors were computed with a Gröbner-style reduction (sympy) and are checked by `ring`.
-/
import Mathlib.Algebra.Field.Basic
import Mathlib.Algebra.Group.Basic
import Mathlib.Tactic.FieldSimp
import Mathlib.Tactic.LinearCombination
import Mathlib.Tactic.Ring

namespace BipVerif.EdGroup

/-- Parameters of a complete twisted Edwards curve with `a = -1`. -/
structure EdCurve (K : Type*) [Field K] where
  d : K
  /-- a square root of `-1` -/
  i : K
  i_sq : i * i = -1
  d_nonsq : ∀ z : K, z * z ≠ d
  two_ne : (2 : K) ≠ 0

/-! ## polynomial identities (any commutative ring) -/

section Poly
variable {R : Type*} [CommRing R] {d x1 y1 x2 y2 x3 y3 : R}

/-- closure of the addition law, denominators cleared -/
theorem closure_poly (e1 : -x1 ^ 2 + y1 ^ 2 = 1 + d * x1 ^ 2 * y1 ^ 2)
    (e2 : -x2 ^ 2 + y2 ^ 2 = 1 + d * x2 ^ 2 * y2 ^ 2) :
    -(x1 * y2 + x2 * y1) ^ 2 * (1 - d * x1 * x2 * y1 * y2) ^ 2 +
        (y1 * y2 + x1 * x2) ^ 2 * (1 + d * x1 * x2 * y1 * y2) ^ 2 =
      (1 + d * x1 * x2 * y1 * y2) ^ 2 * (1 - d * x1 * x2 * y1 * y2) ^ 2 +
        d * (x1 * y2 + x2 * y1) ^ 2 * (y1 * y2 + x1 * x2) ^ 2 := by
  linear_combination
    (d^3*x1^2*x2^4*y1^2*y2^4 - d^2*x1^2*x2^4*y2^4 + d^2*x2^4*y1^2*y2^4 - d^2*x2^4*y2^4 - d*x1^2*x2^4*y2^2 + d*x1^2*x2^2*y2^4 + d*x2^4*y1^2*y2^2 - 2*d*x2^4*y2^4 - d*x2^2*y1^2*y2^4 - 2*d*x2^2*y2^2 - 2*x2^4*y2^2 + x2^4 + 2*x2^2*y2^4 - 4*x2^2*y2^2 + y2^4) * e1 +
    (d*x1^4*x2^2*y2^2 + 2*d*x1^2*x2^2*y2^2 + d*x2^2*y1^4*y2^2 - 2*d*x2^2*y1^2*y2^2 + d*x2^2*y2^2 + 2*x1^2*x2^2*y2^2 - x1^2*x2^2 + x1^2*y2^2 - 2*x2^2*y1^2*y2^2 + x2^2*y1^2 + 2*x2^2*y2^2 - x2^2 - y1^2*y2^2 + y2^2 + 1) * e2

/-- associativity, `x` coordinate, denominators cleared:
`X((P₁+P₂)+P₃) · Z(P₁+(P₂+P₃)) = X(P₁+(P₂+P₃)) · Z((P₁+P₂)+P₃)` -/
theorem assoc_x_poly (e1 : -x1 ^ 2 + y1 ^ 2 = 1 + d * x1 ^ 2 * y1 ^ 2)
    (e2 : -x2 ^ 2 + y2 ^ 2 = 1 + d * x2 ^ 2 * y2 ^ 2)
    (e3 : -x3 ^ 2 + y3 ^ 2 = 1 + d * x3 ^ 2 * y3 ^ 2) :
    ((x1 * y2 + x2 * y1) * y3 * (1 - d * x1 * x2 * y1 * y2) +
        x3 * (y1 * y2 + x1 * x2) * (1 + d * x1 * x2 * y1 * y2)) *
      ((1 + d * x2 * x3 * y2 * y3) * (1 - d * x2 * x3 * y2 * y3) +
        d * x1 * (x2 * y3 + x3 * y2) * y1 * (y2 * y3 + x2 * x3)) =
    (x1 * (y2 * y3 + x2 * x3) * (1 + d * x2 * x3 * y2 * y3) +
        (x2 * y3 + x3 * y2) * y1 * (1 - d * x2 * x3 * y2 * y3)) *
      ((1 + d * x1 * x2 * y1 * y2) * (1 - d * x1 * x2 * y1 * y2) +
        d * (x1 * y2 + x2 * y1) * (y1 * y2 + x1 * x2) * x3 * y3) := by
  linear_combination
    (-d^2*x1*x2^4*x3^2*y2^3*y3 - d^2*x1*x2^3*x3*y2^4*y3^2 + d^2*x2^4*x3*y1*y2^3*y3^2 + d^2*x2^3*x3^2*y1*y2^4*y3 - d*x1*x2^4*x3^2*y2*y3 - d*x1*x2^3*x3^3*y2^2 - d*x1*x2^3*x3*y2^2 + d*x1*x2^2*y2^3*y3^3 - d*x1*x2^2*y2^3*y3 + d*x1*x2*x3*y2^4*y3^2 + d*x2^4*x3*y1*y2*y3^2 + d*x2^3*y1*y2^2*y3^3 - d*x2^3*y1*y2^2*y3 - d*x2^2*x3^3*y1*y2^3 - d*x2^2*x3*y1*y2^3 - d*x2*x3^2*y1*y2^4*y3) * e1 +
    (d^2*x1^2*x2^2*x3^3*y1*y2*y3^2 - d^2*x1^2*x2*x3^2*y1*y2^2*y3^3 - d^2*x1*x2^2*x3^2*y1^2*y2*y3^3 + d^2*x1*x2*x3^3*y1^2*y2^2*y3^2 + d*x1^3*x2^2*x3^2*y2*y3 + d*x1^3*x2*x3^3*y3^2 + d*x1^3*x2*x3*y2^2*y3^2 + d*x1^3*x3^2*y2*y3^3 - d*x1^2*x2^2*x3*y1*y2*y3^2 - d*x1^2*x2*x3^2*y1*y2^2*y3 + d*x1^2*x2*x3^2*y1*y3^3 + d*x1^2*x3^3*y1*y2*y3^2 - d*x1*x2^2*x3^2*y1^2*y2*y3 + d*x1*x2^2*x3^2*y2*y3 - d*x1*x2*x3^3*y1^2*y3^2 + d*x1*x2*x3^3*y3^2 - d*x1*x2*x3*y1^2*y2^2*y3^2 + d*x1*x2*x3*y2^2*y3^2 - d*x1*x3^2*y1^2*y2*y3^3 + d*x1*x3^2*y2*y3^3 + d*x2^2*x3*y1^3*y2*y3^2 - d*x2^2*x3*y1*y2*y3^2 + d*x2*x3^2*y1^3*y2^2*y3 - d*x2*x3^2*y1^3*y3^3 - d*x2*x3^2*y1*y2^2*y3 + d*x2*x3^2*y1*y3^3 - d*x3^3*y1^3*y2*y3^2 + d*x3^3*y1*y2*y3^2 + x1^3*x2*x3^3 - x1^3*x2*x3*y3^2 + x1^3*x2*x3 + x1^3*x3^2*y2*y3 - x1^3*y2*y3^3 + x1^3*y2*y3 + x1^2*x2*x3^2*y1*y3 - x1^2*x2*y1*y3^3 + x1^2*x2*y1*y3 + x1^2*x3^3*y1*y2 - x1^2*x3*y1*y2*y3^2 + x1^2*x3*y1*y2 - x1*x2*x3^3*y1^2 + x1*x2*x3^3 + x1*x2*x3*y1^2*y3^2 - x1*x2*x3*y1^2 - x1*x2*x3*y3^2 + x1*x2*x3 - x1*x3^2*y1^2*y2*y3 + x1*x3^2*y2*y3 + x1*y1^2*y2*y3^3 - x1*y1^2*y2*y3 - x1*y2*y3^3 + x1*y2*y3 - x2*x3^2*y1^3*y3 + x2*x3^2*y1*y3 + x2*y1^3*y3^3 - x2*y1^3*y3 - x2*y1*y3^3 + x2*y1*y3 - x3^3*y1^3*y2 + x3^3*y1*y2 + x3*y1^3*y2*y3^2 - x3*y1^3*y2 - x3*y1*y2*y3^2 + x3*y1*y2) * e2 +
    (-d*x1^2*x2^2*x3*y1*y2 + d*x1^2*x2*y1*y2^2*y3 + d*x1*x2^2*y1^2*y2*y3 - d*x1*x2*x3*y1^2*y2^2 - x1^3*x2^3*x3 - x1^3*x2^2*y2*y3 + x1^3*x2*x3*y2^2 - x1^3*x2*x3 + x1^3*y2^3*y3 - x1^3*y2*y3 - x1^2*x2^3*y1*y3 - x1^2*x2^2*x3*y1*y2 + x1^2*x2*y1*y2^2*y3 - x1^2*x2*y1*y3 + x1^2*x3*y1*y2^3 - x1^2*x3*y1*y2 + x1*x2^3*x3*y1^2 - x1*x2^3*x3 + x1*x2^2*y1^2*y2*y3 - x1*x2^2*y2*y3 - x1*x2*x3*y1^2*y2^2 + x1*x2*x3*y1^2 + x1*x2*x3*y2^2 - x1*x2*x3 - x1*y1^2*y2^3*y3 + x1*y1^2*y2*y3 + x1*y2^3*y3 - x1*y2*y3 + x2^3*y1^3*y3 - x2^3*y1*y3 + x2^2*x3*y1^3*y2 - x2^2*x3*y1*y2 - x2*y1^3*y2^2*y3 + x2*y1^3*y3 + x2*y1*y2^2*y3 - x2*y1*y3 - x3*y1^3*y2^3 + x3*y1^3*y2 + x3*y1*y2^3 - x3*y1*y2) * e3

/-- associativity, `y` coordinate, denominators cleared -/
theorem assoc_y_poly (e1 : -x1 ^ 2 + y1 ^ 2 = 1 + d * x1 ^ 2 * y1 ^ 2)
    (e2 : -x2 ^ 2 + y2 ^ 2 = 1 + d * x2 ^ 2 * y2 ^ 2)
    (e3 : -x3 ^ 2 + y3 ^ 2 = 1 + d * x3 ^ 2 * y3 ^ 2) :
    ((y1 * y2 + x1 * x2) * y3 * (1 + d * x1 * x2 * y1 * y2) +
        (x1 * y2 + x2 * y1) * x3 * (1 - d * x1 * x2 * y1 * y2)) *
      ((1 + d * x2 * x3 * y2 * y3) * (1 - d * x2 * x3 * y2 * y3) -
        d * x1 * (x2 * y3 + x3 * y2) * y1 * (y2 * y3 + x2 * x3)) =
    (y1 * (y2 * y3 + x2 * x3) * (1 + d * x2 * x3 * y2 * y3) +
        x1 * (x2 * y3 + x3 * y2) * (1 - d * x2 * x3 * y2 * y3)) *
      ((1 + d * x1 * x2 * y1 * y2) * (1 - d * x1 * x2 * y1 * y2) -
        d * (x1 * y2 + x2 * y1) * (y1 * y2 + x1 * x2) * x3 * y3) := by
  linear_combination
    (d^2*x1*x2^4*x3*y2^3*y3^2 + d^2*x1*x2^3*x3^2*y2^4*y3 - d^2*x2^4*x3^2*y1*y2^3*y3 - d^2*x2^3*x3*y1*y2^4*y3^2 + d*x1*x2^4*x3*y2*y3^2 + d*x1*x2^3*y2^2*y3^3 - d*x1*x2^3*y2^2*y3 - d*x1*x2^2*x3^3*y2^3 - d*x1*x2^2*x3*y2^3 - d*x1*x2*x3^2*y2^4*y3 - d*x2^4*x3^2*y1*y2*y3 - d*x2^3*x3^3*y1*y2^2 - d*x2^3*x3*y1*y2^2 + d*x2^2*y1*y2^3*y3^3 - d*x2^2*y1*y2^3*y3 + d*x2*x3*y1*y2^4*y3^2) * e1 +
    (d^2*x1^2*x2^2*x3^2*y1*y2*y3^3 - d^2*x1^2*x2*x3^3*y1*y2^2*y3^2 - d^2*x1*x2^2*x3^3*y1^2*y2*y3^2 + d^2*x1*x2*x3^2*y1^2*y2^2*y3^3 - d*x1^3*x2^2*x3*y2*y3^2 - d*x1^3*x2*x3^2*y2^2*y3 + d*x1^3*x2*x3^2*y3^3 + d*x1^3*x3^3*y2*y3^2 + d*x1^2*x2^2*x3^2*y1*y2*y3 + d*x1^2*x2*x3^3*y1*y3^2 + d*x1^2*x2*x3*y1*y2^2*y3^2 + d*x1^2*x3^2*y1*y2*y3^3 + d*x1*x2^2*x3*y1^2*y2*y3^2 - d*x1*x2^2*x3*y2*y3^2 + d*x1*x2*x3^2*y1^2*y2^2*y3 - d*x1*x2*x3^2*y1^2*y3^3 - d*x1*x2*x3^2*y2^2*y3 + d*x1*x2*x3^2*y3^3 - d*x1*x3^3*y1^2*y2*y3^2 + d*x1*x3^3*y2*y3^2 - d*x2^2*x3^2*y1^3*y2*y3 + d*x2^2*x3^2*y1*y2*y3 - d*x2*x3^3*y1^3*y3^2 + d*x2*x3^3*y1*y3^2 - d*x2*x3*y1^3*y2^2*y3^2 + d*x2*x3*y1*y2^2*y3^2 - d*x3^2*y1^3*y2*y3^3 + d*x3^2*y1*y2*y3^3 + x1^3*x2*x3^2*y3 - x1^3*x2*y3^3 + x1^3*x2*y3 + x1^3*x3^3*y2 - x1^3*x3*y2*y3^2 + x1^3*x3*y2 + x1^2*x2*x3^3*y1 - x1^2*x2*x3*y1*y3^2 + x1^2*x2*x3*y1 + x1^2*x3^2*y1*y2*y3 - x1^2*y1*y2*y3^3 + x1^2*y1*y2*y3 - x1*x2*x3^2*y1^2*y3 + x1*x2*x3^2*y3 + x1*x2*y1^2*y3^3 - x1*x2*y1^2*y3 - x1*x2*y3^3 + x1*x2*y3 - x1*x3^3*y1^2*y2 + x1*x3^3*y2 + x1*x3*y1^2*y2*y3^2 - x1*x3*y1^2*y2 - x1*x3*y2*y3^2 + x1*x3*y2 - x2*x3^3*y1^3 + x2*x3^3*y1 + x2*x3*y1^3*y3^2 - x2*x3*y1^3 - x2*x3*y1*y3^2 + x2*x3*y1 - x3^2*y1^3*y2*y3 + x3^2*y1*y2*y3 + y1^3*y2*y3^3 - y1^3*y2*y3 - y1*y2*y3^3 + y1*y2*y3) * e2 +
    (-d*x1^2*x2^2*y1*y2*y3 + d*x1^2*x2*x3*y1*y2^2 + d*x1*x2^2*x3*y1^2*y2 - d*x1*x2*y1^2*y2^2*y3 - x1^3*x2^3*y3 - x1^3*x2^2*x3*y2 + x1^3*x2*y2^2*y3 - x1^3*x2*y3 + x1^3*x3*y2^3 - x1^3*x3*y2 - x1^2*x2^3*x3*y1 - x1^2*x2^2*y1*y2*y3 + x1^2*x2*x3*y1*y2^2 - x1^2*x2*x3*y1 + x1^2*y1*y2^3*y3 - x1^2*y1*y2*y3 + x1*x2^3*y1^2*y3 - x1*x2^3*y3 + x1*x2^2*x3*y1^2*y2 - x1*x2^2*x3*y2 - x1*x2*y1^2*y2^2*y3 + x1*x2*y1^2*y3 + x1*x2*y2^2*y3 - x1*x2*y3 - x1*x3*y1^2*y2^3 + x1*x3*y1^2*y2 + x1*x3*y2^3 - x1*x3*y2 + x2^3*x3*y1^3 - x2^3*x3*y1 + x2^2*y1^3*y2*y3 - x2^2*y1*y2*y3 - x2*x3*y1^3*y2^2 + x2*x3*y1^3 + x2*x3*y1*y2^2 - x2*x3*y1 - y1^3*y2^3*y3 + y1^3*y2*y3 + y1*y2^3*y3 - y1*y2*y3) * e3

end Poly
/-! ## the curve over a field -/

variable {K : Type*} [Field K]

/-- `(x, y)` satisfies `-x² + y² = 1 + d·x²·y²` -/
def EdCurve.On (C : EdCurve K) (x y : K) : Prop := -x ^ 2 + y ^ 2 = 1 + C.d * x ^ 2 * y ^ 2

namespace EdCurve
variable (C : EdCurve K) {x1 y1 x2 y2 x3 y3 : K}

/-- **Completeness** (Bernstein–Lange): `d·x₁x₂y₁y₂ ≠ ±1` for two points of the curve. -/
theorem t_sq_ne_one (e1 : C.On x1 y1) (e2 : C.On x2 y2) : (C.d * x1 * x2 * y1 * y2) ^ 2 ≠ 1 := by
  intro ht
  unfold On at e1 e2
  have hi := C.i_sq
  have hx1 : x1 ≠ 0 := by rintro rfl; simp at ht
  have hy1 : y1 ≠ 0 := by rintro rfl; simp at ht
  have hy2 : y2 ≠ 0 := by rintro rfl; simp at ht
  have k1 : (C.i * x1 + C.d * x1 * x2 * y1 * y2 * y1) ^ 2 =
      C.d * (x1 * y1 * (C.i * x2 + y2)) ^ 2 := by
    linear_combination (x1 ^ 2 - C.d * x1 ^ 2 * y1 ^ 2 * x2 ^ 2) * hi + (y1 ^ 2 - 1) * ht + e1 -
      C.d * x1 ^ 2 * y1 ^ 2 * e2
  have k2 : (C.i * x1 - C.d * x1 * x2 * y1 * y2 * y1) ^ 2 =
      C.d * (x1 * y1 * (C.i * x2 - y2)) ^ 2 := by
    linear_combination (x1 ^ 2 - C.d * x1 ^ 2 * y1 ^ 2 * x2 ^ 2) * hi + (y1 ^ 2 - 1) * ht + e1 -
      C.d * x1 ^ 2 * y1 ^ 2 * e2
  by_cases h1 : C.i * x2 + y2 = 0
  · by_cases h2 : C.i * x2 - y2 = 0
    · have : (2 : K) * y2 = 0 := by linear_combination h1 - h2
      rcases mul_eq_zero.mp this with h | h
      exacts [C.two_ne h, hy2 h]
    · have hne : x1 * y1 * (C.i * x2 - y2) ≠ 0 := mul_ne_zero (mul_ne_zero hx1 hy1) h2
      apply C.d_nonsq ((C.i * x1 - C.d * x1 * x2 * y1 * y2 * y1) / (x1 * y1 * (C.i * x2 - y2)))
      rw [div_mul_div_comm, div_eq_iff (mul_ne_zero hne hne)]
      linear_combination k2
  · have hne : x1 * y1 * (C.i * x2 + y2) ≠ 0 := mul_ne_zero (mul_ne_zero hx1 hy1) h1
    apply C.d_nonsq ((C.i * x1 + C.d * x1 * x2 * y1 * y2 * y1) / (x1 * y1 * (C.i * x2 + y2)))
    rw [div_mul_div_comm, div_eq_iff (mul_ne_zero hne hne)]
    linear_combination k1

theorem one_add_t_ne (e1 : C.On x1 y1) (e2 : C.On x2 y2) : 1 + C.d * x1 * x2 * y1 * y2 ≠ 0 := by
  intro h
  apply C.t_sq_ne_one e1 e2
  linear_combination (C.d * x1 * x2 * y1 * y2 - 1) * h

theorem one_sub_t_ne (e1 : C.On x1 y1) (e2 : C.On x2 y2) : 1 - C.d * x1 * x2 * y1 * y2 ≠ 0 := by
  intro h
  apply C.t_sq_ne_one e1 e2
  linear_combination (-(C.d * x1 * x2 * y1 * y2) - 1) * h

end EdCurve

theorem frac_on {d A B D1 D2 : K} (h1 : D1 ≠ 0) (h2 : D2 ≠ 0)
    (h : -A ^ 2 * D2 ^ 2 + B ^ 2 * D1 ^ 2 = D1 ^ 2 * D2 ^ 2 + d * A ^ 2 * B ^ 2) :
    -(A / D1) ^ 2 + (B / D2) ^ 2 = 1 + d * (A / D1) ^ 2 * (B / D2) ^ 2 := by
  field_simp
  linear_combination h

theorem frac_ne_add {d a b c e u v : K} (hb : b ≠ 0) (he : e ≠ 0)
    (h : 1 + d * (a / b) * u * (c / e) * v ≠ 0) : b * e + d * a * c * u * v ≠ 0 := by
  intro h0; apply h; field_simp; linear_combination h0

theorem frac_ne_sub {d a b c e u v : K} (hb : b ≠ 0) (he : e ≠ 0)
    (h : 1 - d * (a / b) * u * (c / e) * v ≠ 0) : b * e - d * a * c * u * v ≠ 0 := by
  intro h0; apply h; field_simp; linear_combination h0

theorem frac_ne_add_r {d a b c e u v : K} (hb : b ≠ 0) (he : e ≠ 0)
    (h : 1 + d * u * (a / b) * v * (c / e) ≠ 0) : b * e + d * u * a * v * c ≠ 0 := by
  intro h0; apply h; field_simp; linear_combination h0

theorem frac_ne_sub_r {d a b c e u v : K} (hb : b ≠ 0) (he : e ≠ 0)
    (h : 1 - d * u * (a / b) * v * (c / e) ≠ 0) : b * e - d * u * a * v * c ≠ 0 := by
  intro h0; apply h; field_simp; linear_combination h0

/-- `x₃ = (x₁y₂ + x₂y₁)/(1 + d·x₁x₂y₁y₂)` -/
def addX (d x1 y1 x2 y2 : K) : K := (x1 * y2 + x2 * y1) / (1 + d * x1 * x2 * y1 * y2)

/-- `y₃ = (y₁y₂ + x₁x₂)/(1 - d·x₁x₂y₁y₂)` -/
def addY (d x1 y1 x2 y2 : K) : K := (y1 * y2 + x1 * x2) / (1 - d * x1 * x2 * y1 * y2)

namespace EdCurve
variable (C : EdCurve K) {x1 y1 x2 y2 x3 y3 : K}

/-- **Closure**: the sum of two points of the curve is on the curve. -/
theorem on_add (e1 : C.On x1 y1) (e2 : C.On x2 y2) :
    C.On (addX C.d x1 y1 x2 y2) (addY C.d x1 y1 x2 y2) := by
  have h1 := C.one_add_t_ne e1 e2
  have h2 := C.one_sub_t_ne e1 e2
  unfold On at *
  unfold addX addY
  exact frac_on h1 h2 (closure_poly e1 e2)

theorem on_zero : C.On 0 1 := by simp [On]

theorem on_neg (e1 : C.On x1 y1) : C.On (-x1) y1 := by
  unfold On at *; linear_combination e1

/-- both coordinates of `(P₁ + P₂) + P₃` as a single fraction -/
theorem addX_frac_left {a b c e : K} (hb : b ≠ 0) (he : e ≠ 0)
    (h : 1 + C.d * (a / b) * x3 * (c / e) * y3 ≠ 0) :
    addX C.d (a / b) (c / e) x3 y3 =
      (a * y3 * e + x3 * c * b) / (b * e + C.d * a * c * x3 * y3) := by
  have h' : b * e + C.d * a * c * x3 * y3 ≠ 0 := by
    intro h0; apply h; field_simp; linear_combination h0
  unfold addX
  field_simp

theorem addY_frac_left {a b c e : K} (hb : b ≠ 0) (he : e ≠ 0)
    (h : 1 - C.d * (a / b) * x3 * (c / e) * y3 ≠ 0) :
    addY C.d (a / b) (c / e) x3 y3 =
      (c * y3 * b + a * x3 * e) / (b * e - C.d * a * c * x3 * y3) := by
  have h' : b * e - C.d * a * c * x3 * y3 ≠ 0 := by
    intro h0; apply h; field_simp; linear_combination h0
  unfold addY
  field_simp

theorem addX_frac_right {a b c e : K} (hb : b ≠ 0) (he : e ≠ 0)
    (h : 1 + C.d * x1 * (a / b) * y1 * (c / e) ≠ 0) :
    addX C.d x1 y1 (a / b) (c / e) =
      (x1 * c * b + a * y1 * e) / (b * e + C.d * x1 * a * y1 * c) := by
  have h' : b * e + C.d * x1 * a * y1 * c ≠ 0 := by
    intro h0; apply h; field_simp; linear_combination h0
  unfold addX
  field_simp

theorem addY_frac_right {a b c e : K} (hb : b ≠ 0) (he : e ≠ 0)
    (h : 1 - C.d * x1 * (a / b) * y1 * (c / e) ≠ 0) :
    addY C.d x1 y1 (a / b) (c / e) =
      (y1 * c * b + x1 * a * e) / (b * e - C.d * x1 * a * y1 * c) := by
  have h' : b * e - C.d * x1 * a * y1 * c ≠ 0 := by
    intro h0; apply h; field_simp; linear_combination h0
  unfold addY
  field_simp

/-- **Associativity**, `x` coordinate. -/
theorem assoc_x (e1 : C.On x1 y1) (e2 : C.On x2 y2) (e3 : C.On x3 y3) :
    addX C.d (addX C.d x1 y1 x2 y2) (addY C.d x1 y1 x2 y2) x3 y3 =
      addX C.d x1 y1 (addX C.d x2 y2 x3 y3) (addY C.d x2 y2 x3 y3) := by
  have hL := C.one_add_t_ne (C.on_add e1 e2) e3
  have hR := C.one_add_t_ne e1 (C.on_add e2 e3)
  have a1 := C.one_add_t_ne e1 e2
  have a2 := C.one_sub_t_ne e1 e2
  have b1 := C.one_add_t_ne e2 e3
  have b2 := C.one_sub_t_ne e2 e3
  unfold addX addY at hL hR
  have hL' : (1 + C.d * x1 * x2 * y1 * y2) * (1 - C.d * x1 * x2 * y1 * y2) +
      C.d * (x1 * y2 + x2 * y1) * (y1 * y2 + x1 * x2) * x3 * y3 ≠ 0 := frac_ne_add a1 a2 hL
  have hR' : (1 + C.d * x2 * x3 * y2 * y3) * (1 - C.d * x2 * x3 * y2 * y3) +
      C.d * x1 * (x2 * y3 + x3 * y2) * y1 * (y2 * y3 + x2 * x3) ≠ 0 := frac_ne_add_r b1 b2 hR
  conv_lhs => arg 2; unfold addX
  conv_lhs => arg 3; unfold addY
  conv_rhs => arg 4; unfold addX
  conv_rhs => arg 5; unfold addY
  rw [C.addX_frac_left a1 a2 hL, C.addX_frac_right b1 b2 hR, div_eq_div_iff hL' hR']
  exact assoc_x_poly e1 e2 e3

/-- **Associativity**, `y` coordinate. -/
theorem assoc_y (e1 : C.On x1 y1) (e2 : C.On x2 y2) (e3 : C.On x3 y3) :
    addY C.d (addX C.d x1 y1 x2 y2) (addY C.d x1 y1 x2 y2) x3 y3 =
      addY C.d x1 y1 (addX C.d x2 y2 x3 y3) (addY C.d x2 y2 x3 y3) := by
  have hL := C.one_sub_t_ne (C.on_add e1 e2) e3
  have hR := C.one_sub_t_ne e1 (C.on_add e2 e3)
  have a1 := C.one_add_t_ne e1 e2
  have a2 := C.one_sub_t_ne e1 e2
  have b1 := C.one_add_t_ne e2 e3
  have b2 := C.one_sub_t_ne e2 e3
  unfold addX addY at hL hR
  have hL' : (1 + C.d * x1 * x2 * y1 * y2) * (1 - C.d * x1 * x2 * y1 * y2) -
      C.d * (x1 * y2 + x2 * y1) * (y1 * y2 + x1 * x2) * x3 * y3 ≠ 0 := frac_ne_sub a1 a2 hL
  have hR' : (1 + C.d * x2 * x3 * y2 * y3) * (1 - C.d * x2 * x3 * y2 * y3) -
      C.d * x1 * (x2 * y3 + x3 * y2) * y1 * (y2 * y3 + x2 * x3) ≠ 0 := frac_ne_sub_r b1 b2 hR
  conv_lhs => arg 2; unfold addX
  conv_lhs => arg 3; unfold addY
  conv_rhs => arg 4; unfold addX
  conv_rhs => arg 5; unfold addY
  rw [C.addY_frac_left a1 a2 hL, C.addY_frac_right b1 b2 hR, div_eq_div_iff hL' hR']
  exact assoc_y_poly e1 e2 e3

/-- The points of the curve. -/
@[ext] structure Pt (C : EdCurve K) where
  x : K
  y : K
  on : C.On x y

namespace Pt

instance : Zero C.Pt := ⟨⟨0, 1, C.on_zero⟩⟩
instance : Neg C.Pt := ⟨fun P => ⟨-P.x, P.y, C.on_neg P.on⟩⟩
instance : Add C.Pt :=
  ⟨fun P Q => ⟨addX C.d P.x P.y Q.x Q.y, addY C.d P.x P.y Q.x Q.y, C.on_add P.on Q.on⟩⟩

variable {C}

@[simp] theorem zero_x : (0 : C.Pt).x = 0 := rfl
@[simp] theorem zero_y : (0 : C.Pt).y = 1 := rfl
@[simp] theorem neg_x (P : C.Pt) : (-P).x = -P.x := rfl
@[simp] theorem neg_y (P : C.Pt) : (-P).y = P.y := rfl
theorem add_x (P Q : C.Pt) : (P + Q).x = addX C.d P.x P.y Q.x Q.y := rfl
theorem add_y (P Q : C.Pt) : (P + Q).y = addY C.d P.x P.y Q.x Q.y := rfl

protected theorem add_comm (P Q : C.Pt) : P + Q = Q + P := by
  ext
  · rw [add_x, add_x]; unfold addX; ring
  · rw [add_y, add_y]; unfold addY; ring

protected theorem add_assoc (P Q R : C.Pt) : P + Q + R = P + (Q + R) := by
  ext
  · exact C.assoc_x P.on Q.on R.on
  · exact C.assoc_y P.on Q.on R.on

protected theorem zero_add (P : C.Pt) : 0 + P = P := by
  ext
  · rw [add_x]; simp [addX]
  · rw [add_y]; simp [addY]

protected theorem neg_add_cancel (P : C.Pt) : -P + P = 0 := by
  have h := P.on
  unfold On at h
  have h2 := C.one_sub_t_ne (C.on_neg P.on) P.on
  ext
  · rw [add_x]; simp only [addX, neg_x, neg_y, zero_x]
    rw [div_eq_zero_iff]; left; ring
  · rw [add_y]; simp only [addY, neg_x, neg_y, zero_y]
    rw [div_eq_one_iff_eq h2]
    linear_combination h

/-- **The points of a complete twisted Edwards curve form a commutative group.** -/
instance : AddCommGroup C.Pt where
  add_assoc := Pt.add_assoc
  zero_add := Pt.zero_add
  add_zero P := by rw [Pt.add_comm]; exact Pt.zero_add P
  neg_add_cancel := Pt.neg_add_cancel
  add_comm := Pt.add_comm
  nsmul := nsmulRec
  zsmul := zsmulRec

end Pt
end EdCurve

end BipVerif.EdGroup
