/-
Concrete ed25519 facts by kernel evaluation: the base point is on the curve and `L·B = (0, 1)`;
with the primality of `L`, the base point has order exactly `L` in the group `EdPt`.
-/
import Mathlib.GroupTheory.OrderOfElement
import BipVerif.Lemmas.EdGroup.Exec
import BipVerif.Lemmas.GroupModel

namespace BipVerif.EdGroup
open BipVerif BipVerif.Prim

theorem edBase_onCurve : edOnCurve edBase = true := by decide +kernel

theorem edMul_edL_edBase : edMul edL edBase = edIdentity := by decide +kernel

/-- The ed25519 base point as a group element. -/
noncomputable def edB : EdPt := toE edBase

theorem edB_ne_zero : edB ≠ 0 := by
  intro h
  have := (toE_eq_zero_iff edBase_onCurve).mp h
  revert this
  decide +kernel

theorem edL_nsmul_edB : edL • edB = 0 := by
  unfold edB
  rw [← toE_edMul _ edBase_onCurve, edMul_edL_edBase, toE_identity]

/-- **ed25519**: the base point has order exactly `L` in the group of points. -/
theorem edB_hasOrder : GroupModel.HasOrder edB edL := by
  have hord : addOrderOf edB = edL := by
    rcases (Nat.dvd_prime Pratt.edL_prime).mp (addOrderOf_dvd_of_nsmul_eq_zero edL_nsmul_edB)
      with h | h
    · exact absurd (AddMonoid.addOrderOf_eq_one_iff.mp h) edB_ne_zero
    · exact h
  intro k
  rw [← hord]
  exact addOrderOf_dvd_iff_nsmul_eq_zero.symm

theorem toE_edMulBase (k : ℕ) : toE (edMulBase k) = k • edB := toE_edMul k edBase_onCurve

theorem edOnCurve_edMulBase (k : ℕ) : edOnCurve (edMulBase k) = true :=
  edOnCurve_edMul k edBase_onCurve

end BipVerif.EdGroup
