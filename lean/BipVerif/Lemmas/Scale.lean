/- SCALE compact / fixed-width integers and the CBOR indefinite-length array of unsigned ints. -/
import BipVerif.Lemmas.IntBytes
import BipVerif.Model.Scale

namespace BipVerif.Model
open BipVerif

/-! ### helpers -/

theorem shl2_or (v k : Nat) (hk : k < 4) : (v <<< 2) ||| k = 4 * v + k := by
  rw [← Nat.shiftLeft_add_eq_or_of_lt (by simpa using hk), Nat.shiftLeft_eq]; omega

theorem shl2 (v : Nat) : v <<< 2 = 4 * v := by rw [Nat.shiftLeft_eq]; omega

theorem uint8_toNat_ofNat_lt {n : Nat} (h : n < 256) : (UInt8.ofNat n).toNat = n := by
  simp [UInt8.toNat_ofNat']; omega

theorem ofNatLE_succ (n x : Nat) :
    Bytes.ofNatLE (n + 1) x = UInt8.ofNat (x % 256) :: Bytes.ofNatLE n (x / 256) := rfl

/-! ### compact integers -/

theorem scaleCompact_mode0 {v : Nat} (h : v ≤ 2 ^ 6 - 1) :
    scaleCompact v = .ok [UInt8.ofNat (4 * v)] := by
  unfold scaleCompact
  rw [if_pos h, shl2, toBytesLE_eq_ofNatLE (by omega)]
  simp only [Bytes.ofNatLE]
  rw [Nat.mod_eq_of_lt (by omega)]

theorem scaleCompact_mode1 {v : Nat} (h0 : ¬ v ≤ 2 ^ 6 - 1) (h : v ≤ 2 ^ 14 - 1) :
    scaleCompact v = .ok (Bytes.ofNatLE 2 (4 * v + 1)) := by
  unfold scaleCompact
  rw [if_neg h0, if_pos h, shl2_or v 1 (by omega), toBytesLE_eq_ofNatLE (by omega)]

theorem scaleCompact_mode2 {v : Nat} (h0 : ¬ v ≤ 2 ^ 6 - 1) (h1 : ¬ v ≤ 2 ^ 14 - 1)
    (h : v ≤ 2 ^ 30 - 1) : scaleCompact v = .ok (Bytes.ofNatLE 4 (4 * v + 2)) := by
  unfold scaleCompact
  rw [if_neg h0, if_neg h1, if_pos h, shl2_or v 2 (by omega), toBytesLE_eq_ofNatLE (by omega)]

/-- byte length of a big-mode value is between 4 and 67 -/
theorem toBytesAuto_length_big {v : Nat} (h2 : ¬ v ≤ 2 ^ 30 - 1) (h : v ≤ 2 ^ 536 - 1) :
    4 ≤ (toBytesAuto v).length ∧ (toBytesAuto v).length ≤ 67 := by
  have hv0 : v ≠ 0 := by omega
  rw [toBytesAuto_of_ne_zero hv0]
  constructor
  · by_contra hc
    have := (natToBytesMin_length_le_iff v 3).mp (by omega)
    omega
  · exact (natToBytesMin_length_le_iff v 67).mpr (by omega)

set_option exponentiation.threshold 600 in
theorem scaleCompact_mode3 {v : Nat} (h0 : ¬ v ≤ 2 ^ 6 - 1) (h1 : ¬ v ≤ 2 ^ 14 - 1)
    (h2 : ¬ v ≤ 2 ^ 30 - 1) (h : v ≤ 2 ^ 536 - 1) :
    scaleCompact v = .ok (UInt8.ofNat (4 * ((toBytesAuto v).length - 4) + 3)
      :: (toBytesAuto v).reverse) := by
  obtain ⟨hl1, hl2⟩ := toBytesAuto_length_big h2 h
  unfold scaleCompact
  rw [if_neg h0, if_neg h1, if_neg h2, if_pos h]
  simp only [List.length_reverse]
  rw [shl2_or _ 3 (by omega), toBytesLE_eq_ofNatLE (by omega)]
  simp only [Bytes.ofNatLE, bind, Except.bind, pure, Except.pure]
  rw [Nat.mod_eq_of_lt (by omega)]
  rfl

theorem scaleCompact_error {v : Nat} (h : 2 ^ 536 ≤ v) : scaleCompact v = .error .value := by
  unfold scaleCompact
  rw [if_neg (by omega), if_neg (by omega), if_neg (by omega), if_neg (by omega)]
  rfl

/-! #### decoding what was encoded -/

theorem scd_mode0 (b0 : UInt8) (rest : Bytes) (h : b0.toNat % 4 = 0) :
    scaleCompactDecode (b0 :: rest) = some (b0.toNat / 4, 1) := by
  simp only [scaleCompactDecode, h]

theorem scd_mode1 (b0 : UInt8) (rest : Bytes) (h : b0.toNat % 4 = 1) :
    scaleCompactDecode (b0 :: rest) = if (b0 :: rest).length < 2 then none
      else some (Bytes.toNatLE ((b0 :: rest).take 2) / 4, 2) := by
  simp only [scaleCompactDecode, h]

theorem scd_mode2 (b0 : UInt8) (rest : Bytes) (h : b0.toNat % 4 = 2) :
    scaleCompactDecode (b0 :: rest) = if (b0 :: rest).length < 4 then none
      else some (Bytes.toNatLE ((b0 :: rest).take 4) / 4, 4) := by
  simp only [scaleCompactDecode, h]

theorem scd_mode3 (b0 : UInt8) (rest : Bytes) (h : b0.toNat % 4 = 3) :
    scaleCompactDecode (b0 :: rest) = if rest.length < b0.toNat / 4 + 4 then none
      else some (Bytes.toNatLE (rest.take (b0.toNat / 4 + 4)), b0.toNat / 4 + 4 + 1) := by
  simp only [scaleCompactDecode, h]

theorem scaleCompactDecode_mode0 {v : Nat} (h : v ≤ 2 ^ 6 - 1) :
    scaleCompactDecode [UInt8.ofNat (4 * v)] = some (v, 1) := by
  have ht := uint8_toNat_ofNat_lt (n := 4 * v) (by omega)
  rw [scd_mode0 _ _ (by rw [ht]; omega), ht]
  have h2 : 4 * v / 4 = v := by omega
  rw [h2]

theorem scaleCompactDecode_mode1 {v : Nat} (h : v ≤ 2 ^ 14 - 1) :
    scaleCompactDecode (Bytes.ofNatLE 2 (4 * v + 1)) = some (v, 2) := by
  have hval := toNatLE_ofNatLE (n := 2) (v := 4 * v + 1) (by omega)
  have hlen := length_ofNatLE 2 (4 * v + 1)
  have htake : (Bytes.ofNatLE 2 (4 * v + 1)).take 2 = Bytes.ofNatLE 2 (4 * v + 1) :=
    List.take_of_length_le (by omega)
  have hnlt : ¬ (Bytes.ofNatLE 2 (4 * v + 1)).length < 2 := by omega
  rw [ofNatLE_succ] at hval hlen htake hnlt ⊢
  have ht := uint8_toNat_ofNat_lt (n := (4 * v + 1) % 256) (by omega)
  rw [scd_mode1 _ _ (by rw [ht]; omega), if_neg hnlt, htake, hval]
  have h2 : (4 * v + 1) / 4 = v := by omega
  rw [h2]

theorem scaleCompactDecode_mode2 {v : Nat} (h : v ≤ 2 ^ 30 - 1) :
    scaleCompactDecode (Bytes.ofNatLE 4 (4 * v + 2)) = some (v, 4) := by
  have hval := toNatLE_ofNatLE (n := 4) (v := 4 * v + 2) (by omega)
  have hlen := length_ofNatLE 4 (4 * v + 2)
  have htake : (Bytes.ofNatLE 4 (4 * v + 2)).take 4 = Bytes.ofNatLE 4 (4 * v + 2) :=
    List.take_of_length_le (by omega)
  have hnlt : ¬ (Bytes.ofNatLE 4 (4 * v + 2)).length < 4 := by omega
  rw [ofNatLE_succ] at hval hlen htake hnlt ⊢
  have ht := uint8_toNat_ofNat_lt (n := (4 * v + 2) % 256) (by omega)
  rw [scd_mode2 _ _ (by rw [ht]; omega), if_neg hnlt, htake, hval]
  have h2 : (4 * v + 2) / 4 = v := by omega
  rw [h2]

theorem scaleCompactDecode_mode3 {v : Nat} (h2 : ¬ v ≤ 2 ^ 30 - 1) (h : v ≤ 2 ^ 536 - 1) :
    scaleCompactDecode (UInt8.ofNat (4 * ((toBytesAuto v).length - 4) + 3)
      :: (toBytesAuto v).reverse) = some (v, (toBytesAuto v).length + 1) := by
  obtain ⟨hl1, hl2⟩ := toBytesAuto_length_big h2 h
  have ht := uint8_toNat_ofNat_lt (n := 4 * ((toBytesAuto v).length - 4) + 3) (by omega)
  have h3 : (4 * ((toBytesAuto v).length - 4) + 3) / 4 + 4 = (toBytesAuto v).length := by omega
  rw [scd_mode3 _ _ (by rw [ht]; omega), ht]
  have hnlt : ¬ (toBytesAuto v).reverse.length < (toBytesAuto v).length := by simp
  have htake : (toBytesAuto v).reverse.take (toBytesAuto v).length = (toBytesAuto v).reverse :=
    List.take_of_length_le (by simp)
  simp only [h3, hnlt, if_false, htake, toNatLE_reverse, toNatBE_toBytesAuto]

/-- **SCALE compact round trip** against the specification decoder: every value below `2^536`
is encoded, and decoding returns the value and consumes exactly the encoding. -/
theorem scaleCompact_roundtrip {v : Nat} (h : v < 2 ^ 536) :
    ∃ b, scaleCompact v = .ok b ∧ scaleCompactDecode b = some (v, b.length) := by
  by_cases h0 : v ≤ 2 ^ 6 - 1
  · exact ⟨_, scaleCompact_mode0 h0, scaleCompactDecode_mode0 h0⟩
  by_cases h1 : v ≤ 2 ^ 14 - 1
  · exact ⟨_, scaleCompact_mode1 h0 h1, by rw [scaleCompactDecode_mode1 h1, length_ofNatLE]⟩
  by_cases h2 : v ≤ 2 ^ 30 - 1
  · exact ⟨_, scaleCompact_mode2 h0 h1 h2, by rw [scaleCompactDecode_mode2 h2, length_ofNatLE]⟩
  have h3 : v ≤ 2 ^ 536 - 1 := by omega
  exact ⟨_, scaleCompact_mode3 h0 h1 h2 h3, by
    rw [scaleCompactDecode_mode3 h2 h3]; simp⟩

/-- mode thresholds: 1 byte below `2^6`, 2 below `2^14`, 4 below `2^30`, else `1 + byte length` -/
theorem scaleCompact_length {v : Nat} {b : Bytes} (h : scaleCompact v = .ok b) :
    b.length = if v < 2 ^ 6 then 1 else if v < 2 ^ 14 then 2 else if v < 2 ^ 30 then 4
      else 1 + Bytes.byteLen v := by
  by_cases hbig : 2 ^ 536 ≤ v
  · rw [scaleCompact_error hbig] at h; cases h
  by_cases h0 : v ≤ 2 ^ 6 - 1
  · rw [scaleCompact_mode0 h0] at h; cases h
    rw [if_pos (by omega)]; rfl
  by_cases h1 : v ≤ 2 ^ 14 - 1
  · rw [scaleCompact_mode1 h0 h1] at h; cases h
    rw [if_neg (by omega), if_pos (by omega), length_ofNatLE]
  by_cases h2 : v ≤ 2 ^ 30 - 1
  · rw [scaleCompact_mode2 h0 h1 h2] at h; cases h
    rw [if_neg (by omega), if_neg (by omega), if_pos (by omega), length_ofNatLE]
  have h3 : v ≤ 2 ^ 536 - 1 := by omega
  rw [scaleCompact_mode3 h0 h1 h2 h3] at h; cases h
  rw [if_neg (by omega), if_neg (by omega), if_neg (by omega)]
  have hv0 : v ≠ 0 := by omega
  simp only [List.length_cons, List.length_reverse]
  rw [toBytesAuto_of_ne_zero hv0, natToBytesMin_length_eq_byteLen]; omega

theorem scaleCompact_ok_iff (v : Nat) : (∃ b, scaleCompact v = .ok b) ↔ v < 2 ^ 536 := by
  constructor
  · rintro ⟨b, hb⟩
    by_contra hc
    rw [scaleCompact_error (by omega)] at hb; cases hb
  · intro h; obtain ⟨b, hb, _⟩ := scaleCompact_roundtrip h; exact ⟨b, hb⟩

/-! ### fixed-width unsigned integers -/

theorem one_shl_mul8 (n : Nat) : 1 <<< (n * 8) = 256 ^ n := by
  rw [Nat.one_shiftLeft, Nat.mul_comm, Nat.pow_mul]

theorem scaleUint_roundtrip {v n : Nat} (h : v < 256 ^ n) :
    ∃ b, scaleUint v n = .ok b ∧ b.length = n ∧ Bytes.toNatLE b = v := by
  refine ⟨Bytes.ofNatLE n v, ?_, length_ofNatLE n v, toNatLE_ofNatLE h⟩
  unfold scaleUint
  rw [one_shl_mul8, if_neg (by omega), toBytesLE_eq_ofNatLE h]

theorem scaleUint_error {v n : Nat} (h : 256 ^ n ≤ v) : scaleUint v n = .error .value := by
  unfold scaleUint
  have : 0 < 256 ^ n := Nat.pow_pos (by omega)
  rw [one_shl_mul8, if_pos (by omega)]
  rfl

/-! ### CBOR indefinite-length arrays of unsigned integers -/

/-- the bytes `cbor2.dumps(n)` produces for `n < 2^64` -/
def cborBytes (n : Nat) : Bytes :=
  if n < 24 then [UInt8.ofNat n]
  else if n < 2 ^ 8 then 24 :: Bytes.ofNatBE 1 n
  else if n < 2 ^ 16 then 25 :: Bytes.ofNatBE 2 n
  else if n < 2 ^ 32 then 26 :: Bytes.ofNatBE 4 n
  else 27 :: Bytes.ofNatBE 8 n

theorem cborUint_ok {n : Nat} (h : n < 2 ^ 64) : cborUint n = .ok (cborBytes n) := by
  unfold cborUint cborBytes
  split; · rfl
  split; · rfl
  split; · rfl
  split; · rfl
  rfl

theorem cborUint_error {n : Nat} (h : 2 ^ 64 ≤ n) : cborUint n = .error .overflow := by
  unfold cborUint
  rw [if_neg (by omega), if_neg (by omega), if_neg (by omega), if_neg (by omega), if_neg (by omega)]
  rfl

/-- the length the decoder derives from an initial byte -/
def cborItemLen (cur : UInt8) : Nat :=
  if cur = 24 then 2 else if cur = 25 then 3 else if cur = 26 then 5 else if cur = 27 then 9 else 1

theorem cborBytes_facts {n : Nat} (h : n < 2 ^ 64) :
    ∃ hd tl, cborBytes n = hd :: tl ∧ hd ≠ 255 ∧ cborItemLen hd = (hd :: tl).length ∧
      cborLoadsUint (hd :: tl) = .ok (.uint n) := by
  unfold cborBytes
  split
  · rename_i h24
    refine ⟨_, _, rfl, ?_, ?_, ?_⟩
    · interval_cases n <;> decide
    · interval_cases n <;> rfl
    · have ht := uint8_toNat_ofNat_lt (n := n) (by omega)
      simp [cborLoadsUint, ht, h24, pure, Except.pure]
  split
  · rename_i h8
    refine ⟨_, _, rfl, by decide, by simp [cborItemLen], ?_⟩
    have hv := toNatBE_ofNatBE (n := 1) (v := n) (by omega)
    have htake : (Bytes.ofNatBE 1 n).take 1 = Bytes.ofNatBE 1 n := List.take_of_length_le (by simp)
    simp [cborLoadsUint, hv, htake, pure, Except.pure]
  split
  · rename_i h16
    refine ⟨_, _, rfl, by decide, by simp [cborItemLen], ?_⟩
    have hv := toNatBE_ofNatBE (n := 2) (v := n) (by omega)
    have htake : (Bytes.ofNatBE 2 n).take 2 = Bytes.ofNatBE 2 n := List.take_of_length_le (by simp)
    simp [cborLoadsUint, hv, htake, pure, Except.pure]
  split
  · rename_i h32
    refine ⟨_, _, rfl, by decide, by simp [cborItemLen], ?_⟩
    have hv := toNatBE_ofNatBE (n := 4) (v := n) (by omega)
    have htake : (Bytes.ofNatBE 4 n).take 4 = Bytes.ofNatBE 4 n := List.take_of_length_le (by simp)
    simp [cborLoadsUint, hv, htake, pure, Except.pure]
  · refine ⟨_, _, rfl, by decide, by simp [cborItemLen], ?_⟩
    have hv := toNatBE_ofNatBE (n := 8) (v := n) (by omega)
    have htake : (Bytes.ofNatBE 8 n).take 8 = Bytes.ofNatBE 8 n := List.take_of_length_le (by simp)
    simp [cborLoadsUint, hv, htake, pure, Except.pure]

theorem cborGo_succ (loads : Bytes → R CborItem) (enc : Bytes) (fuel i : Nat) (acc : List CborItem) :
    cborIndefDecode.go loads enc (fuel + 1) i acc =
      if i ≥ enc.length then throw .value
      else if enc.getD i 0 = 255 then pure acc.reverse
      else match loads ((enc.drop i).take (cborItemLen (enc.getD i 0))) with
        | .ok item => cborIndefDecode.go loads enc fuel (i + cborItemLen (enc.getD i 0)) (item :: acc)
        | .error e => throw e := rfl

theorem cbor_go (enc pre : Bytes) (items : List Nat) (h : ∀ n ∈ items, n < 2 ^ 64)
    (henc : enc = pre ++ (items.map cborBytes).flatten ++ [255]) (fuel : Nat)
    (hf : items.length < fuel) (acc : List CborItem) :
    cborIndefDecode.go cborLoadsUint enc fuel pre.length acc
      = .ok (acc.reverse ++ items.map .uint) := by
  induction items generalizing pre fuel acc with
  | nil =>
    cases fuel with
    | zero => omega
    | succ f =>
      rw [cborGo_succ]
      have hlen : ¬ pre.length ≥ enc.length := by rw [henc]; simp
      have hcur : enc.getD pre.length 0 = 255 := by rw [henc]; simp
      rw [if_neg hlen, if_pos hcur]; simp [pure, Except.pure]
  | cons n rest ih =>
    cases fuel with
    | zero => omega
    | succ f =>
      obtain ⟨hd, tl, hb, hne, hlen, hload⟩ := cborBytes_facts (h n (by simp))
      have henc' : enc = (pre ++ (hd :: tl)) ++ (rest.map cborBytes).flatten ++ [255] := by
        rw [henc, List.map_cons, List.flatten_cons, hb]; simp
      have henc2 : enc = pre ++ ((hd :: tl) ++ ((rest.map cborBytes).flatten ++ [255])) := by
        rw [henc']; simp
      rw [cborGo_succ]
      have hl : ¬ pre.length ≥ enc.length := by rw [henc2]; simp
      have hcur : enc.getD pre.length 0 = hd := by rw [henc2]; simp
      have hslice : (enc.drop pre.length).take (cborItemLen hd) = hd :: tl := by
        rw [henc2, List.drop_left, hlen, List.take_left]
      rw [if_neg hl, hcur, if_neg hne, hslice, hload]
      simp only
      have := ih (pre ++ (hd :: tl)) (fun m hm => h m (by simp [hm])) henc' f
        (by simp at hf; omega) (CborItem.uint n :: acc)
      rw [List.length_append, ← hlen] at this
      rw [this]; simp

theorem mapM_cborUint {l : List Nat} (h : ∀ n ∈ l, n < 2 ^ 64) :
    l.mapM cborUint = .ok (l.map cborBytes) := by
  induction l with
  | nil => rfl
  | cons a t ih =>
    rw [List.mapM_cons, cborUint_ok (h a (by simp)), ih (fun m hm => h m (by simp [hm]))]; rfl

theorem cborBytes_ne_nil (n : Nat) : cborBytes n ≠ [] := by
  unfold cborBytes; repeat' split
  all_goals simp

theorem length_le_flatten_cborBytes (l : List Nat) :
    l.length ≤ ((l.map cborBytes).flatten).length := by
  induction l with
  | nil => simp
  | cons a t ih =>
    have := List.length_pos_iff.mpr (cborBytes_ne_nil a)
    simp only [List.map_cons, List.flatten_cons, List.length_append, List.length_cons]; omega

theorem cborIndefEncode_ok {l : List Nat} (h : ∀ n ∈ l, n < 2 ^ 64) :
    cborIndefEncode l = .ok ([159] ++ (l.map cborBytes).flatten ++ [255]) := by
  unfold cborIndefEncode; rw [mapM_cborUint h]; rfl

/-- **CBOR indefinite-length array round trip** for non-empty lists of unsigned 64-bit integers.
(The empty list is *not* round-tripped: its encoding `9f ff` has two bytes and the decoder rejects
inputs shorter than three bytes – see `cborIndef_empty`.) -/
theorem cborIndef_roundtrip {l : List Nat} (hne : l ≠ []) (h : ∀ n ∈ l, n < 2 ^ 64) :
    (cborIndefEncode l >>= cborIndefDecode cborLoadsUint) = .ok (l.map .uint) := by
  rw [cborIndefEncode_ok h]
  change cborIndefDecode cborLoadsUint _ = _
  have hlen := length_le_flatten_cborBytes l
  have hpos := List.length_pos_iff.mpr hne
  unfold cborIndefDecode
  set enc := [159] ++ (l.map cborBytes).flatten ++ [255] with henc
  have hel : enc.length = 1 + ((l.map cborBytes).flatten).length + 1 := by
    rw [henc]; simp only [List.length_append, List.length_cons, List.length_nil]
  have h1 : ¬ enc.length < 3 := by omega
  have h2 : ¬ (enc.head? != some 159) = true := by rw [henc]; simp
  have h3 : ¬ (enc.getLast? != some 255) = true := by
    rw [henc, List.getLast?_concat]; simp
  simp only [h1, h2, h3, if_false, bind, Except.bind]
  have := cbor_go enc [159] l h henc (enc.length + 1) (by omega) []
  simpa using this

/-- the empty array is encoded as `9f ff`, which the decoder rejects (`ValueError`: length < 3). -/
theorem cborIndef_empty :
    (cborIndefEncode [] >>= cborIndefDecode cborLoadsUint) = .error .value := by rfl

theorem cborIndefEncode_error {l : List Nat} (h : ∃ n ∈ l, 2 ^ 64 ≤ n) :
    cborIndefEncode l = .error .overflow := by
  unfold cborIndefEncode
  suffices hs : l.mapM cborUint = .error .overflow by rw [hs]; rfl
  induction l with
  | nil => obtain ⟨n, hn, _⟩ := h; simp at hn
  | cons a t ih =>
    rw [List.mapM_cons]
    by_cases ha : 2 ^ 64 ≤ a
    · rw [cborUint_error ha]; rfl
    · obtain ⟨n, hn, hn2⟩ := h
      have : n ∈ t := by
        rcases List.mem_cons.mp hn with rfl | h'
        · exact absurd hn2 ha
        · exact h'
      rw [cborUint_ok (by omega), ih ⟨n, this, hn2⟩]; rfl

end BipVerif.Model
