/- WIF lemmas: the decoder after the Base58Check layer as a decision tree. -/
import BipVerif.Lemmas.XK.Base58Check
import BipVerif.Lemmas.XK.Base58Canon
import BipVerif.Model.Wif

namespace BipVerif.Model.XK
open BipVerif

theorem privValid_secp_length (k : Bytes) (h : privValid .secp256k1 k = true) : k.length = 32 := by
  unfold privValid at h
  simp only [Bool.and_eq_true, decide_eq_true_eq] at h
  exact h.1.1

theorem privValid_secp_of_length_ne (k : Bytes) (h : k.length ≠ 32) :
    privValid .secp256k1 k = false := by
  cases hv : privValid .secp256k1 k
  · rfl
  · exact absurd (privValid_secp_length k hv) h

/-- `wifDecode` after `b58CheckDecode` (same text as the model). -/
def wifParse (netVer : UInt8) (dec : Bytes) : R (Bytes × Bool) :=
  match dec with
  | [] => throw .value
  | v :: rest => do
    if v ≠ netVer then throw .value
    if privValid .secp256k1 (dropLast rest 1) then
      if rest.getLast? ≠ some 1 then throw .value
      pure (dropLast rest 1, true)
    else
      if !privValid .secp256k1 rest then throw .value
      pure (rest, false)

theorem wifDecode_eq (H : Bytes → Bytes) (s : List Char) (netVer : UInt8) :
    wifDecode H s netVer = b58CheckDecode H btcAlphabet s >>= wifParse netVer := by
  unfold wifDecode
  cases b58CheckDecode H btcAlphabet s with
  | error e => rfl
  | ok dec => cases dec <;> rfl

/-- the WIF payload parser as a decision tree -/
theorem wifParse_cons (netVer v : UInt8) (rest : Bytes) :
    wifParse netVer (v :: rest) =
      if v ≠ netVer then .error .value
      else if privValid .secp256k1 (dropLast rest 1) = true then
        (if rest.getLast? = some 1 then .ok (dropLast rest 1, true) else .error .value)
      else if privValid .secp256k1 rest = true then .ok (rest, false) else .error .value := by
  unfold wifParse
  by_cases hv : v = netVer
  · cases h1 : privValid .secp256k1 (dropLast rest 1)
    · cases h2 : privValid .secp256k1 rest <;>
        simp [hv, h1, h2, bind, Except.bind, pure, Except.pure, throw, throwThe, MonadExceptOf.throw]
    · by_cases h3 : rest.getLast? = some 1 <;>
        simp [hv, h1, h3, bind, Except.bind, pure, Except.pure, throw, throwThe, MonadExceptOf.throw]
  · simp [hv, bind, Except.bind, throw, throwThe, MonadExceptOf.throw]

theorem wifParse_error (netVer : UInt8) (dec : Bytes) (e : Err) (h : wifParse netVer dec = .error e) :
    e = .value := by
  cases dec with
  | nil => exact (Except.error.inj h).symm
  | cons v rest =>
    rw [wifParse_cons] at h
    repeat' split at h
    all_goals (cases h <;> rfl)

theorem dropLast_append_singleton {α} (l : List α) (x : α) : dropLast (l ++ [x]) 1 = l := by
  unfold dropLast; simp

/-- a list with last element `x` is its `[:-1]` followed by `x`. -/
theorem dropLast_append_of_getLast? {α} (l : List α) (x : α) (h : l.getLast? = some x) :
    dropLast l 1 ++ [x] = l := by
  unfold dropLast
  have hne : l ≠ [] := by intro e; rw [e] at h; cases h
  rw [List.getLast?_eq_some_getLast hne] at h
  have hx : l.getLast hne = x := Option.some.inj h
  rw [← hx, ← List.dropLast_eq_take]
  exact List.dropLast_append_getLast hne

end BipVerif.Model.XK
