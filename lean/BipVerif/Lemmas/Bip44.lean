/-
Helper lemmas for the BIP-44 hierarchy model (`b44Admit`, `b44Child`, `b44Step`, `b44Run`):
admissibility as a decidable invariant, every derivation op as "type check, level check, then
`childKey` followed by the admissibility check", and the collapse of the admissibility checks
along level-consistent op sequences.  Cryptography stays opaque: only `childKey_ok` and the
refusal lemmas of `Lemmas/Bip32Nodes.lean` are used.
-/
import BipVerif.Lemmas.Bip32Nodes
import BipVerif.Model.Bip44

namespace BipVerif.Model
open BipVerif

/-! ### `Except` plumbing -/

theorem R.ok_bind {α β} (a : α) (f : α → R β) : (Except.ok a >>= f) = f a := rfl
theorem R.error_bind {α β} (e : Err) (f : α → R β) : ((Except.error e : R α) >>= f) = .error e := rfl

/-- two continuations that agree on the successful result give the same bind -/
theorem R.bind_congr_ok {α β} (x : R α) (f g : α → R β) (h : ∀ a, x = .ok a → f a = g a) :
    (x >>= f) = (x >>= g) := by
  cases x with
  | error e => rfl
  | ok a => exact h a rfl

theorem R.bind_eq_ok {α β} {x : R α} {f : α → R β} {b : β} :
    (x >>= f) = .ok b ↔ ∃ a, x = .ok a ∧ f a = .ok b := by
  cases x with
  | error e => simp [R.error_bind]
  | ok a => simp [R.ok_bind]

theorem Node.isPublicOnly_iff (n : Node) : n.isPublicOnly = true ↔ n.priv = none := by
  unfold Node.isPublicOnly; cases n.priv <;> simp

theorem Node.isPublicOnly_false_iff (n : Node) : n.isPublicOnly = false ↔ n.priv.isSome = true := by
  unfold Node.isPublicOnly; cases n.priv <;> simp

/-! ### public derivation support depends on curve and scheme only -/

theorem pubDerivationSupported_congr {a b : Node} (hc : a.curve = b.curve)
    (hs : a.scheme = b.scheme) : pubDerivationSupported a = pubDerivationSupported b := by
  unfold pubDerivationSupported; rw [hc, hs]

theorem pubDerivationSupported_child {nd idx c} (h : IsChildOf nd idx c) :
    pubDerivationSupported c = pubDerivationSupported nd :=
  pubDerivationSupported_congr h.curve h.scheme

theorem pubDerivationSupported_false_iff (nd : Node) :
    pubDerivationSupported nd = false ↔ nd.scheme = .slip10 ∧ nd.curve.isEcdsa = false := by
  unfold pubDerivationSupported
  cases nd.scheme <;> simp

/-! ### admissibility -/

/-- the invariant of a wrapped object: depth at most 5 (address index level), and a public-only
object sits at the account level or below it -/
def Inv (nd : Node) : Prop := nd.depth ≤ 5 ∧ (nd.isPublicOnly = true → 3 ≤ nd.depth)

instance (nd : Node) : Decidable (Inv nd) := by unfold Inv; infer_instance

theorem b44Admit_eq (nd : Node) : b44Admit nd = if Inv nd then .ok nd else .error .depth := by
  unfold b44Admit Inv
  by_cases hp : nd.isPublicOnly = true
  · by_cases h : nd.depth ≤ 5 ∧ 3 ≤ nd.depth
    · have h1 : ¬ nd.depth < 3 := by omega
      have h2 : ¬ nd.depth > 5 := by omega
      simp [hp, h1, h2, h.1, h.2]; rfl
    · have h1 : nd.depth < 3 ∨ nd.depth > 5 := by omega
      have h2 : ¬ (nd.depth ≤ 5 ∧ 3 ≤ nd.depth) := h
      simp only [hp, if_true, Bool.or_eq_true, decide_eq_true_eq, h1, true_implies, h2, if_false]
      rfl
  · by_cases h5 : nd.depth > 5
    · have : ¬ nd.depth ≤ 5 := by omega
      simp [hp, h5, this]; rfl
    · have : nd.depth ≤ 5 := by omega
      simp [hp, h5, this]; rfl

theorem b44Admit_ok_iff (nd nd' : Node) : b44Admit nd = .ok nd' ↔ nd' = nd ∧ Inv nd := by
  rw [b44Admit_eq]
  by_cases h : Inv nd
  · simp only [h, if_true, Except.ok.injEq, and_true]; exact eq_comm
  · simp [h]

theorem b44Admit_of_inv {nd : Node} (h : Inv nd) : b44Admit nd = .ok nd := by
  rw [b44Admit_eq, if_pos h]

theorem b44Admit_of_not_inv {nd : Node} (h : ¬ Inv nd) : b44Admit nd = .error .depth := by
  rw [b44Admit_eq, if_neg h]

/-- `Inv` spelled as the two-branch test of the constructor -/
theorem inv_iff_ctor (nd : Node) :
    Inv nd ↔ (if nd.isPublicOnly then 3 ≤ nd.depth ∧ nd.depth ≤ 5 else nd.depth ≤ 5) := by
  unfold Inv
  cases nd.isPublicOnly <;> simp <;> omega

/-! ### `b44Child` -/

theorem b44Child_eq (nd : Node) (idx : Nat) : b44Child nd idx = (childKey nd idx >>= b44Admit) := rfl

theorem b44Child_ok_iff {nd idx c} : b44Child nd idx = .ok c ↔ childKey nd idx = .ok c ∧ Inv c := by
  rw [b44Child_eq, R.bind_eq_ok]
  constructor
  · rintro ⟨a, ha, hc⟩
    obtain ⟨rfl, hi⟩ := (b44Admit_ok_iff a c).1 hc
    exact ⟨ha, hi⟩
  · rintro ⟨hc, hi⟩
    exact ⟨c, hc, b44Admit_of_inv hi⟩

/-- a child of a node above the address-index level is admissible unless it is a public-only node
above the account level; the latter cannot arise from a hardened index -/
theorem inv_of_child {nd idx c} (h : childKey nd idx = .ok c) (hd : nd.depth ≤ 4)
    (hp : nd.isPublicOnly = true → 2 ≤ nd.depth ∨ isHardened idx = true) : Inv c := by
  have hc := childKey_ok h
  refine ⟨by rw [hc.depth]; omega, fun hpc => ?_⟩
  rw [hc.isPublicOnly] at hpc
  rcases hp hpc with h2 | hh
  · rw [hc.depth]; omega
  · have := childKey_pub_hardened nd idx ((Node.isPublicOnly_iff nd).1 hpc) hc.idx_lt hh
    rw [this] at h; cases h

/-- the admissibility check after a child derivation is vacuous at levels 0–4, except for a
non-hardened child of a public-only node above the account level -/
theorem b44Child_eq_childKey (nd : Node) (idx : Nat) (hd : nd.depth ≤ 4)
    (hp : nd.isPublicOnly = true → 2 ≤ nd.depth ∨ isHardened idx = true) :
    b44Child nd idx = childKey nd idx := by
  rw [b44Child_eq]
  cases h : childKey nd idx with
  | error e => rfl
  | ok c => exact b44Admit_of_inv (inv_of_child h hd hp)

/-! ### one derivation op = type check, level check, `b44Child` -/

/-- the level (depth of the wrapped object) a derivation op expects -/
def B44Op.level : B44Op → Option Nat
  | .purpose => some 0
  | .coin => some 1
  | .account _ => some 2
  | .change _ => some 3
  | .addrIdx _ => some 4
  | .deriveDefault => some 0
  | _ => none

/-- the `Bip44Changes` enum check -/
def B44Op.typeOk : B44Op → Bool
  | .change c => decide (c ≤ 1)
  | _ => true

/-- the child number a single-level derivation op asks `ChildKey` for (`psup`: whether the
derivator supports public derivation); `none` for the other ops -/
def b44ChildIdx (purpose coinIdx : Nat) (psup : Bool) : B44Op → Option Nat
  | .purpose => some (harden purpose)
  | .coin => some (harden coinIdx)
  | .account i => some (harden i)
  | .change c => some (if psup then c else harden c)
  | .addrIdx i => some (if psup then i else harden i)
  | _ => none

theorem b44Step_child (purpose coinIdx : Nat) (defPath : Path) (nd : Node) (op : B44Op) (idx : Nat)
    (hi : b44ChildIdx purpose coinIdx (pubDerivationSupported nd) op = some idx) :
    b44Step purpose coinIdx defPath nd op =
      if op.typeOk = false then .error .type
      else if op.level ≠ some nd.depth then .error .depth
      else b44Child nd idx := by
  cases op with
  | purpose =>
    cases hi
    by_cases h : nd.depth = 0
    · simp [b44Step, B44Op.typeOk, B44Op.level, h]
    · have : ¬ 0 = nd.depth := fun e => h e.symm
      simp [b44Step, B44Op.typeOk, B44Op.level, h, this]; rfl
  | coin =>
    cases hi
    by_cases h : nd.depth = 1
    · simp [b44Step, B44Op.typeOk, B44Op.level, h]
    · have : ¬ 1 = nd.depth := fun e => h e.symm
      simp [b44Step, B44Op.typeOk, B44Op.level, h, this]; rfl
  | account i =>
    cases hi
    by_cases h : nd.depth = 2
    · simp [b44Step, B44Op.typeOk, B44Op.level, h]
    · have : ¬ 2 = nd.depth := fun e => h e.symm
      simp [b44Step, B44Op.typeOk, B44Op.level, h, this]; rfl
  | change c =>
    simp only [b44ChildIdx, Option.some.injEq] at hi
    subst hi
    by_cases hc : c > 1
    · have : ¬ c ≤ 1 := by omega
      simp [b44Step, B44Op.typeOk, hc, this]; rfl
    · have hc' : c ≤ 1 := by omega
      by_cases h : nd.depth = 3
      · simp [b44Step, B44Op.typeOk, B44Op.level, h, hc, hc']
      · have : ¬ 3 = nd.depth := fun e => h e.symm
        simp [b44Step, B44Op.typeOk, B44Op.level, h, this, hc, hc']; rfl
  | addrIdx i =>
    simp only [b44ChildIdx, Option.some.injEq] at hi
    subst hi
    by_cases h : nd.depth = 4
    · simp [b44Step, B44Op.typeOk, B44Op.level, h]
    · have : ¬ 4 = nd.depth := fun e => h e.symm
      simp [b44Step, B44Op.typeOk, B44Op.level, h, this]; rfl
  | deriveDefault => cases hi
  | neuter => cases hi
  | reimportX => cases hi
  | reimportRaw d => cases hi

/-- a successful single-level derivation op: the object was at the op's level, the result is the
`ChildKey` at the prescribed index, and it is admissible -/
theorem b44Step_child_ok {purpose coinIdx defPath nd op idx nd'}
    (hi : b44ChildIdx purpose coinIdx (pubDerivationSupported nd) op = some idx)
    (h : b44Step purpose coinIdx defPath nd op = .ok nd') :
    op.typeOk = true ∧ op.level = some nd.depth ∧ childKey nd idx = .ok nd' ∧ Inv nd' := by
  rw [b44Step_child purpose coinIdx defPath nd op idx hi] at h
  split at h
  · cases h
  · rename_i ht
    split at h
    · cases h
    · rename_i hl
      have := b44Child_ok_iff.1 h
      exact ⟨by simpa using ht, by simpa using hl, this.1, this.2⟩

/-- at its own level a well-typed single-level derivation op *is* `ChildKey` — the admissibility
check after it never fires, whatever the node (a public-only node above the account level is
refused by `ChildKey` itself, because the index is hardened) -/
theorem b44Step_eq_childKey (purpose coinIdx : Nat) (defPath : Path) (nd : Node) (op : B44Op)
    (idx : Nat) (hi : b44ChildIdx purpose coinIdx (pubDerivationSupported nd) op = some idx)
    (ht : op.typeOk = true) (hl : op.level = some nd.depth) :
    b44Step purpose coinIdx defPath nd op = childKey nd idx := by
  rw [b44Step_child purpose coinIdx defPath nd op idx hi]
  simp only [ht, Bool.true_eq_false, if_false, hl, ne_eq, not_true_eq_false]
  apply b44Child_eq_childKey
  · cases op <;> simp [B44Op.level] at hl <;> omega
  · intro _
    cases op <;> simp only [B44Op.level, Option.some.injEq, reduceCtorEq] at hl <;>
      simp only [b44ChildIdx, Option.some.injEq, reduceCtorEq] at hi
    · right; rw [← hi]; exact isHardened_harden _
    · right; rw [← hi]; exact isHardened_harden _
    · right; rw [← hi]; exact isHardened_harden _
    · left; omega
    · left; omega

/-! ### runs -/

theorem b44Run_nil (purpose coinIdx : Nat) (defPath : Path) (nd : Node) :
    b44Run purpose coinIdx defPath nd [] = .ok nd := rfl

theorem b44Run_cons (purpose coinIdx : Nat) (defPath : Path) (nd : Node) (op : B44Op)
    (ops : List B44Op) :
    b44Run purpose coinIdx defPath nd (op :: ops) =
      (b44Step purpose coinIdx defPath nd op >>= fun x => b44Run purpose coinIdx defPath x ops) := by
  simp [b44Run, List.foldlM_cons]

theorem b44Run_append (purpose coinIdx : Nat) (defPath : Path) (nd : Node) (ops ops' : List B44Op) :
    b44Run purpose coinIdx defPath nd (ops ++ ops') =
      (b44Run purpose coinIdx defPath nd ops >>= fun x => b44Run purpose coinIdx defPath x ops') := by
  simp [b44Run, List.foldlM_append]

/-- `ops` is a level-consistent sequence of well-typed single-level derivation ops starting at
depth `d`, and `idxs` are the child numbers they ask for -/
def LevelSeq (purpose coinIdx : Nat) (psup : Bool) : Nat → List B44Op → List Nat → Prop
  | _, [], [] => True
  | d, op :: ops, i :: is =>
    b44ChildIdx purpose coinIdx psup op = some i ∧ op.typeOk = true ∧ op.level = some d ∧
      LevelSeq purpose coinIdx psup (d + 1) ops is
  | _, _, _ => False

/-- along a level-consistent sequence the hierarchy object is plain path derivation: every
intermediate admissibility check is vacuous and both sides fail at the same step with the same
error -/
theorem b44Run_levelSeq (purpose coinIdx : Nat) (defPath : Path) :
    ∀ (ops : List B44Op) (idxs : List Nat) (nd : Node),
      LevelSeq purpose coinIdx (pubDerivationSupported nd) nd.depth ops idxs →
      b44Run purpose coinIdx defPath nd ops = idxs.foldlM childKey nd
  | [], [], nd, _ => rfl
  | [], _ :: _, _, h => by simp [LevelSeq] at h
  | _ :: _, [], _, h => by simp [LevelSeq] at h
  | op :: ops, i :: is, nd, h => by
    obtain ⟨hi, ht, hl, hrest⟩ := h
    rw [b44Run_cons, List.foldlM_cons, b44Step_eq_childKey purpose coinIdx defPath nd op i hi ht hl]
    apply R.bind_congr_ok
    intro a ha
    have hc := childKey_ok ha
    apply b44Run_levelSeq purpose coinIdx defPath ops is a
    rw [pubDerivationSupported_child hc, hc.depth]
    exact hrest

/-- `ops` are single-level derivation ops and `idxs` the child numbers they ask for (no level or
type condition) -/
def IdxSeq (purpose coinIdx : Nat) (psup : Bool) : List B44Op → List Nat → Prop
  | [], [] => True
  | op :: ops, i :: is => b44ChildIdx purpose coinIdx psup op = some i ∧ IdxSeq purpose coinIdx psup ops is
  | _, _ => False

/-- a successful run of single-level derivation ops was level-consistent and well typed -/
theorem levelSeq_of_run_ok (purpose coinIdx : Nat) (defPath : Path) :
    ∀ (ops : List B44Op) (idxs : List Nat) (nd nd' : Node),
      IdxSeq purpose coinIdx (pubDerivationSupported nd) ops idxs →
      b44Run purpose coinIdx defPath nd ops = .ok nd' →
      LevelSeq purpose coinIdx (pubDerivationSupported nd) nd.depth ops idxs
  | [], [], _, _, _, _ => trivial
  | [], _ :: _, _, _, h, _ => by simp [IdxSeq] at h
  | _ :: _, [], _, _, h, _ => by simp [IdxSeq] at h
  | op :: ops, i :: is, nd, nd', h, hr => by
    obtain ⟨hi, hrest⟩ := h
    rw [b44Run_cons, R.bind_eq_ok] at hr
    obtain ⟨a, ha, hr⟩ := hr
    obtain ⟨ht, hl, hck, _⟩ := b44Step_child_ok hi ha
    have hc := childKey_ok hck
    refine ⟨hi, ht, hl, ?_⟩
    have := levelSeq_of_run_ok purpose coinIdx defPath ops is a nd'
      (by rw [pubDerivationSupported_child hc]; exact hrest) hr
    rwa [pubDerivationSupported_child hc, hc.depth] at this

/-! ### plain derivation along a list of indices -/

theorem foldlM_childKey_ok : ∀ (l : List Nat) (nd nd' : Node), l.foldlM childKey nd = .ok nd' →
    nd'.depth = nd.depth + l.length ∧ nd'.curve = nd.curve ∧ nd'.scheme = nd.scheme ∧
      nd'.isPublicOnly = nd.isPublicOnly ∧ nd'.index = l.getLast?.getD nd.index ∧
      ∀ i ∈ l, i < 2 ^ 32
  | [], nd, nd', h => by
    cases h; simp
  | i :: l, nd, nd', h => by
    rw [List.foldlM_cons, R.bind_eq_ok] at h
    obtain ⟨a, ha, h⟩ := h
    have hc := childKey_ok ha
    obtain ⟨h1, h2, h3, h4, h5, h6⟩ := foldlM_childKey_ok l a nd' h
    refine ⟨by rw [h1, hc.depth, List.length_cons]; omega, h2.trans hc.curve, h3.trans hc.scheme,
      h4.trans hc.isPublicOnly, ?_, ?_⟩
    · rw [h5, hc.index]
      cases l with
      | nil => simp
      | cons j l => rw [List.getLast?_eq_some_getLast (by simp)]; rfl
    · intro j hj
      rcases List.mem_cons.1 hj with rfl | hj
      · exact hc.idx_lt
      · exact h6 j hj

theorem derivePathWith_relative (child : Node → Nat → R Node) (nd : Node) (p : List Nat) :
    derivePathWith child nd ⟨p, false⟩ = p.foldlM child nd := by
  simp [derivePathWith]

theorem derivePathWith_of_relative (child : Node → Nat → R Node) (nd : Node) (p : Path)
    (h : p.absolute = false) : derivePathWith child nd p = p.elems.foldlM child nd := by
  simp [derivePathWith, h]

/-! ### `deriveDefault` -/

theorem b44Step_deriveDefault (purpose coinIdx : Nat) (defPath : Path) (nd : Node) :
    b44Step purpose coinIdx defPath nd .deriveDefault =
      if nd.depth ≠ 0 then .error .depth
      else b44Child nd (harden purpose) >>= fun a => b44Child a (harden coinIdx) >>= fun b =>
        derivePathWith childKey b defPath >>= b44Admit := by
  by_cases h : nd.depth = 0
  · simp [b44Step, h]
  · simp [b44Step, h]; rfl

/-- the default path of a coin derived from a master node is plain derivation along
`purpose' / coin' / default path` (at most three further levels) -/
theorem b44Step_deriveDefault_eq_plain (purpose coinIdx : Nat) (defPath : Path) (nd : Node)
    (h0 : nd.depth = 0) (hrel : defPath.absolute = false) (hlen : defPath.elems.length ≤ 3) :
    b44Step purpose coinIdx defPath nd .deriveDefault =
      (harden purpose :: harden coinIdx :: defPath.elems).foldlM childKey nd := by
  simp only [List.foldlM_cons]
  rw [b44Step_deriveDefault, if_neg (by simp [h0]),
    b44Child_eq_childKey nd _ (by omega) (fun _ => Or.inr (isHardened_harden _))]
  apply R.bind_congr_ok
  intro a ha
  have hca := childKey_ok ha
  rw [b44Child_eq_childKey a _ (by rw [hca.depth]; omega) (fun _ => Or.inr (isHardened_harden _))]
  apply R.bind_congr_ok
  intro b hb
  have hcb := childKey_ok hb
  rw [derivePathWith_of_relative _ _ _ hrel]
  cases hr : defPath.elems.foldlM childKey b with
  | error e => rfl
  | ok r =>
    obtain ⟨hd, _, _, hp, _, _⟩ := foldlM_childKey_ok _ _ _ hr
    apply b44Admit_of_inv
    refine ⟨by rw [hd, hcb.depth, hca.depth]; omega, fun hpr => ?_⟩
    rw [hp, hcb.isPublicOnly, hca.isPublicOnly] at hpr
    have := childKey_pub_hardened nd _ ((Node.isPublicOnly_iff nd).1 hpr) hca.idx_lt
      (isHardened_harden _)
    rw [this] at ha; cases ha

/-! ### the invariant along runs -/

/-- side condition of the run invariant: whenever the run reaches a `.neuter`, the object is at the
account level or below (`ConvertToPublic` on the wrapped BIP-32 object bypasses the constructor) -/
def NeuterSafe (purpose coinIdx : Nat) (defPath : Path) : Node → List B44Op → Prop
  | _, [] => True
  | nd, op :: ops => (op = .neuter → 3 ≤ nd.depth) ∧
      ∀ nd1, b44Step purpose coinIdx defPath nd op = .ok nd1 → NeuterSafe purpose coinIdx defPath nd1 ops

theorem inv_neuter_iff (nd : Node) : Inv nd.neuter ↔ 3 ≤ nd.depth ∧ nd.depth ≤ 5 := by
  unfold Inv Node.neuter Node.isPublicOnly
  simp only [Option.isNone_none, true_implies]
  omega

/-- every successful op other than `.neuter` ends in the constructor's admissibility check -/
theorem b44Step_inv {purpose coinIdx defPath nd op nd'} (hn : op ≠ .neuter)
    (h : b44Step purpose coinIdx defPath nd op = .ok nd') : Inv nd' := by
  cases op with
  | purpose => exact (b44Step_child_ok (idx := harden purpose) rfl h).2.2.2
  | coin => exact (b44Step_child_ok (idx := harden coinIdx) rfl h).2.2.2
  | account i => exact (b44Step_child_ok (idx := harden i) rfl h).2.2.2
  | change c => exact (b44Step_child_ok rfl h).2.2.2
  | addrIdx i => exact (b44Step_child_ok rfl h).2.2.2
  | deriveDefault =>
    rw [b44Step_deriveDefault] at h
    split at h
    · cases h
    · obtain ⟨a, _, h⟩ := R.bind_eq_ok.1 h
      obtain ⟨b, _, h⟩ := R.bind_eq_ok.1 h
      obtain ⟨r, _, h⟩ := R.bind_eq_ok.1 h
      obtain ⟨rfl, hi⟩ := (b44Admit_ok_iff r nd').1 h
      exact hi
  | neuter => exact absurd rfl hn
  | reimportX =>
    obtain ⟨rfl, hi⟩ := (b44Admit_ok_iff nd nd').1 h
    exact hi
  | reimportRaw d =>
    obtain ⟨rfl, hi⟩ := (b44Admit_ok_iff _ nd').1 h
    exact hi

theorem b44Run_inv (purpose coinIdx : Nat) (defPath : Path) :
    ∀ (ops : List B44Op) (nd nd' : Node), Inv nd → NeuterSafe purpose coinIdx defPath nd ops →
      b44Run purpose coinIdx defPath nd ops = .ok nd' → Inv nd'
  | [], nd, nd', hi, _, h => by cases h; exact hi
  | op :: ops, nd, nd', hi, hs, h => by
    rw [b44Run_cons, R.bind_eq_ok] at h
    obtain ⟨a, ha, h⟩ := h
    refine b44Run_inv purpose coinIdx defPath ops a nd' ?_ (hs.2 a ha) h
    by_cases hn : op = .neuter
    · subst hn
      cases ha
      exact (inv_neuter_iff nd).2 ⟨hs.1 rfl, hi.1⟩
    · exact b44Step_inv hn ha

theorem neuterSafe_of_not_mem (purpose coinIdx : Nat) (defPath : Path) :
    ∀ (ops : List B44Op) (nd : Node), B44Op.neuter ∉ ops → NeuterSafe purpose coinIdx defPath nd ops
  | [], _, _ => trivial
  | op :: ops, _, h => by
    refine ⟨fun e => absurd (by simp [e]) h, fun nd1 _ => ?_⟩
    exact neuterSafe_of_not_mem purpose coinIdx defPath ops nd1 (fun e => h (by simp [e]))

end BipVerif.Model
