/-
Address formats of the Base32 family: Algorand, Stellar, Filecoin, Nano, Nimiq.
First some more facts on the unpadded encoder (alphabet membership, no `=`, exact length for whole
quanta) and the error kinds of the Base32 decoder.
-/
import BipVerif.Lemmas.Addr
import BipVerif.Lemmas.AddrBase58
import BipVerif.Lemmas.Base32

namespace BipVerif.Model
open BipVerif BipVerif.Prim

/-! ### the unpadded encoder -/

/-- the alphabet an encoder call uses -/
def base32Alphabet (custom : Option (List Char)) : List Char := custom.getD b32Std

/-- unpadded text: no `=`, only alphabet symbols. -/
theorem base32EncodeNoPad_mem (data : Bytes) (custom : Option (List Char))
    (hc : ∀ a, custom = some a → Base32AlphabetOk a) :
    (∀ x ∈ base32EncodeNoPad data custom, x ≠ '=') ∧
      ∀ x ∈ base32EncodeNoPad data custom, x ∈ base32Alphabet custom := by
  obtain ⟨X, p, he, hX, hlen, hp⟩ := b32encodeStd_shape data
  unfold base32EncodeNoPad base32Encode base32Alphabet
  cases custom with
  | none =>
    simp only [Option.getD_none]
    rw [he, rstripChar_append_replicate '=' X p (fun x hx => (b32Std_ascii x (hX x hx)).1)]
    exact ⟨fun x hx => (b32Std_ascii x (hX x hx)).1, hX⟩
  | some a =>
    obtain ⟨han, hal, haeq⟩ := hc a rfl
    obtain ⟨_, hmem⟩ := translate_translate b32Std a b32Std_nodup han (by rw [hal, b32Std_length]) X hX
    have hne : ∀ x ∈ translate b32Std a X, x ≠ '=' := by
      intro x hx e; rw [e] at hx; exact haeq (hmem _ hx)
    simp only [Option.getD_some]
    rw [he, translate_append, translate_replicate_of_not_mem _ _ _ _ (by decide),
      rstripChar_append_replicate '=' _ p hne]
    exact ⟨hne, hmem⟩

theorem base32EncodeNoPad_not_contains (data : Bytes) (custom : Option (List Char))
    (hc : ∀ a, custom = some a → Base32AlphabetOk a) :
    (base32EncodeNoPad data custom).contains '=' = false := by
  rw [Bool.eq_false_iff]
  intro h
  have := List.contains_iff_mem.mp h
  exact (base32EncodeNoPad_mem data custom hc).1 _ this rfl

theorem length_flatten_of_length {α} (n : Nat) (ls : List (List α)) (h : ∀ l ∈ ls, l.length = n) :
    ls.flatten.length = n * ls.length := by
  induction ls with
  | nil => rfl
  | cons a t ih =>
    rw [List.flatten_cons, List.length_append, h a (by simp), ih (fun l hl => h l (by simp [hl])),
      List.length_cons]
    ring

theorem chunksOf_length_of_mod {α} (n : Nat) (hn : 0 < n) (l : List α) (h : l.length % n = 0) :
    n * (chunksOf n l).length = l.length := by
  have h1 := length_flatten_of_length n (chunksOf n l) (chunksOf_length_eq n hn l h)
  rw [flatten_chunksOf n hn l] at h1
  exact h1.symm

/-- whole quanta: the encoding is the concatenation of the blocks' encodings, unpadded -/
theorem b32encodeStd_full (data : Bytes) (h : data.length % 5 = 0) :
    b32encodeStd data = (chunksOf 5 data).flatMap b32Block := by
  have := b32encodeStd_eq data [] h (by simp)
  simpa [b32Tail] using this

theorem base32EncodeNoPad_full (data : Bytes) (custom : Option (List Char))
    (hc : ∀ a, custom = some a → Base32AlphabetOk a) (h : data.length % 5 = 0) :
    base32EncodeNoPad data custom = base32Encode data custom ∧
    (base32EncodeNoPad data custom).length = 8 * (data.length / 5) := by
  have hstd := b32encodeStd_full data h
  have hmem : ∀ x ∈ b32encodeStd data, x ∈ b32Std := by
    rw [hstd]; exact flatMap_b32Block_mem _
  have hlen : (b32encodeStd data).length = 8 * (data.length / 5) := by
    rw [hstd, flatMap_b32Block_length]
    have := chunksOf_length_of_mod 5 (by omega) data h
    omega
  have hstrip : ∀ X : List Char, (∀ x ∈ X, x ≠ '=') → rstripChar '=' X = X := by
    intro X hX
    have := rstripChar_append_replicate '=' X 0 hX
    simpa using this
  unfold base32EncodeNoPad base32Encode
  cases custom with
  | none =>
    simp only
    rw [hstrip _ (fun x hx => (b32Std_ascii x (hmem x hx)).1)]
    exact ⟨rfl, hlen⟩
  | some a =>
    obtain ⟨han, hal, haeq⟩ := hc a rfl
    obtain ⟨_, hm⟩ := translate_translate b32Std a b32Std_nodup han (by rw [hal, b32Std_length])
      (b32encodeStd data) hmem
    simp only
    rw [hstrip _ (fun x hx e => by rw [e] at hx; exact haeq (hm _ hx))]
    exact ⟨rfl, by rw [translate_length]; exact hlen⟩

/-! ### error kinds of the decoder -/

theorem foldlM_error_of {α β} {f : β → α → R β} {P : Err → Prop}
    (hf : ∀ b a e, f b a = .error e → P e) (l : List α) (b : β) {e : Err}
    (h : l.foldlM f b = .error e) : P e := by
  induction l generalizing b with
  | nil => cases h
  | cons a t ih =>
    rw [List.foldlM_cons] at h
    cases hfa : f b a with
    | error e' =>
      rw [hfa] at h
      have : e = e' := by cases h; rfl
      subst this; exact hf b a _ hfa
    | ok b' => rw [hfa] at h; exact ih b' h

theorem OnlyValue.b32Acc (q : List Char) : OnlyValue (b32Acc q) := by
  constructor
  intro e h
  unfold Model.b32Acc at h
  refine foldlM_error_of (P := fun e => e = .value) ?_ q 0 h
  intro b a e he
  cases hi : b32Std.idxOf? a with
  | none => simp only [hi] at he; cases he; rfl
  | some i => simp only [hi] at he; cases he

theorem OnlyValue.b32decodeStd (s : List Char) : OnlyValue (b32decodeStd s) := by
  rw [b32decodeStd_def]
  ov
  all_goals exact OnlyValue.mapM OnlyValue.b32Acc _

theorem OnlyValue.base32Decode (s : List Char) (custom : Option (List Char)) :
    OnlyValue (base32Decode s custom) := by
  rw [base32Decode_eq]
  have := OnlyValue.b32decodeStd (base32Pre s custom)
  cases hd : Model.b32decodeStd (base32Pre s custom) with
  | error e => rw [hd] at this; simp only; exact ⟨fun e' h => by cases h; exact this.h e rfl⟩
  | ok d => simp only; split <;> ov

/-! ### whole quanta: no padding is accepted -/

/-- a string is its `=`-stripped part followed by `=`s -/
theorem rstripChar_split (c : Char) (s : List Char) :
    ∃ q, s = rstripChar c s ++ List.replicate q c := by
  unfold rstripChar
  have h := split_leading c s.reverse
  refine ⟨leadingCount c s.reverse, ?_⟩
  have := congrArg List.reverse h
  rw [List.reverse_reverse, List.reverse_append, List.reverse_replicate] at this
  exact this

/-- the stdlib decoder only succeeds with 0, 1, 3, 4 or 6 padding characters and a length that is
a multiple of 8 -/
theorem b32decodeStd_ok_pad {s : List Char} {dec : Bytes} (h : b32decodeStd s = .ok dec) :
    s.length % 8 = 0 ∧
      (let p := s.length - (rstripChar '=' s).length
       p = 0 ∨ p = 1 ∨ p = 3 ∨ p = 4 ∨ p = 6) := by
  rw [b32decodeStd_def] at h
  dsimp only at h
  split at h
  · cases h
  · split at h
    · cases h
    · rename_i h2
      obtain ⟨accs, _, h⟩ := bind_ok_inv h
      split at h
      · cases h
      · rename_i h3
        refine ⟨by omega, ?_⟩
        dsimp only
        generalize s.length - (rstripChar '=' s).length = p at h3
        have h3' : ¬p = 0 → ¬p = 1 → ¬p = 3 → ¬p = 4 → p = 6 := by simpa using h3
        by_cases a0 : p = 0
        · exact Or.inl a0
        by_cases a1 : p = 1
        · exact Or.inr (Or.inl a1)
        by_cases a3 : p = 3
        · exact Or.inr (Or.inr (Or.inl a3))
        by_cases a4 : p = 4
        · exact Or.inr (Or.inr (Or.inr (Or.inl a4)))
        exact Or.inr (Or.inr (Or.inr (Or.inr (h3' a0 a1 a3 a4))))

/-- **whole quanta leave no room for padding**: if the decoder accepts `s` and the payload is a
whole number of 5-byte quanta, then `s` carries no trailing `=` — so `s` *is* the canonical
unpadded encoding. -/
theorem base32_decode_canonical_full {s : List Char} {custom : Option (List Char)} {b : Bytes}
    (hc : ∀ a, custom = some a → Base32AlphabetOk a)
    (h : base32Decode s custom = .ok b) (h5 : b.length % 5 = 0) :
    base32EncodeNoPad b custom = s := by
  have hcan := base32_decode_canonical h
  obtain ⟨q, hs⟩ := rstripChar_split '=' s
  set r := rstripChar '=' s with hr
  have hrlen : r.length % 8 = 0 := by
    rw [← hcan, (base32EncodeNoPad_full b custom hc h5).2]; omega
  have hrne : ∀ x ∈ r, x ≠ '=' := by
    rw [← hcan]; exact (base32EncodeNoPad_mem b custom hc).1
  -- the text handed to the stdlib decoder
  rw [base32Decode_eq] at h
  cases hd : b32decodeStd (base32Pre s custom) with
  | error e => rw [hd] at h; cases h
  | ok dec =>
    obtain ⟨hmod, hpad⟩ := b32decodeStd_ok_pad hd
    -- shape of the padded text: `r` followed by a multiple of 8 `=`
    have hadd : ∃ q', addPadding s = r ++ List.replicate q' '=' ∧ q' % 8 = 0 ∧ (q' = 0 → q = 0) := by
      unfold addPadding
      have hsl : s.length = r.length + q := by rw [hs]; simp
      by_cases hw : s.length % 8 ≠ 0
      · rw [if_pos hw]
        refine ⟨q + (8 - s.length % 8), ?_, by omega, by omega⟩
        generalize 8 - s.length % 8 = k
        rw [List.replicate_add, ← List.append_assoc, ← hs]
      · rw [if_neg hw]
        exact ⟨q, hs, by omega, fun h => h⟩
    obtain ⟨q', hq', hq8, hq0⟩ := hadd
    -- translation does not touch `=` and never produces one
    have hpre : ∃ r', base32Pre s custom = r' ++ List.replicate q' '=' ∧ r'.length = r.length ∧
        ∀ x ∈ r', x ≠ '=' := by
      unfold base32Pre
      cases custom with
      | none => exact ⟨r, hq', rfl, hrne⟩
      | some a =>
        obtain ⟨han, hal, haeq⟩ := hc a rfl
        have hmem : ∀ x ∈ r, x ∈ a := by
          rw [← hcan]; exact (base32EncodeNoPad_mem b (some a) hc).2
        obtain ⟨_, hm⟩ := translate_translate a b32Std han b32Std_nodup (by rw [hal, b32Std_length])
          r hmem
        refine ⟨translate a b32Std r, ?_, translate_length _ _ _, ?_⟩
        · simp only
          rw [hq', translate_append, translate_replicate_of_not_mem _ _ _ _ haeq]
        · intro x hx; exact (b32Std_ascii x (hm x hx)).1
    obtain ⟨r', hpre, hr'l, hr'ne⟩ := hpre
    have hstrip : rstripChar '=' (base32Pre s custom) = r' := by
      rw [hpre]; exact rstripChar_append_replicate '=' r' q' hr'ne
    have hq'0 : q' = 0 := by
      simp only [hstrip] at hpad
      rw [hpre, List.length_append, List.length_replicate] at hpad
      omega
    have hq : q = 0 := hq0 hq'0
    rw [hcan, hs, hq]; simp
/-- `ov` with the Base32 leaf -/
macro "ov_b32" : tactic => `(tactic| repeat (any_goals (first
  | exact OnlyValue.base32Decode _ _ | ov_step)))

theorem std_ok : ∀ a, (none : Option (List Char)) = some a → Base32AlphabetOk a := by
  intro a h; cases h

theorem custom_ok {a : List Char} (ha : Base32AlphabetOk a) :
    ∀ a', some a = some a' → Base32AlphabetOk a' := by
  intro a' h; cases h; exact ha

/-! ### Algorand -/

theorem algoDecode_canon (kb : Bytes) (hk : kb.length = 32) (hv : pubValid .ed25519 kb = true) :
    algoDecodeAddr (base32EncodeNoPad (kb ++ takeLast (sha512_256 kb) 4) none) = .ok kb := by
  unfold algoDecodeAddr
  have hck : (takeLast (sha512_256 kb) 4).length = 4 :=
    takeLast_length_of_le _ _ (by rw [sha512_256_length]; omega)
  rw [base32EncodeNoPad_not_contains _ _ std_ok, base32_decode_encodeNoPad]
  simp only [Bool.false_eq_true, if_false, bind, Except.bind, pure, Except.pure]
  rw [validateLength_ok _ _ (by rw [List.length_append, hck, hk])]
  simp only [splitCkEnd_append _ _ 4 hck, ne_eq, not_true_eq_false, if_false,
    validatePubKey_ok _ _ hv]

theorem algo_decode_encode (pub : Bytes) (addr : List Char) (h : algoEncodeAddr pub = .ok addr) :
    ∃ k, addrKey .ed25519 pub = .ok k ∧ algoDecodeAddr addr = .ok (k.drop 1) := by
  unfold algoEncodeAddr at h
  obtain ⟨k, hk, h⟩ := bind_ok_inv h
  obtain ⟨_, h32, _, _, hval⟩ := addrKey_ed_inv (c := .ed25519) rfl hk
  refine ⟨k, hk, ?_⟩
  rw [← pure_ok_inv h]
  exact algoDecode_canon _ h32 hval

theorem algoEncodeAddr_ov (pub : Bytes) : OnlyValue (algoEncodeAddr pub) := by
  unfold algoEncodeAddr; ov
theorem algoDecodeAddr_ov (addr : List Char) : OnlyValue (algoDecodeAddr addr) := by
  unfold algoDecodeAddr; ov_b32

/-! ### Stellar -/

theorem xlmCrc_length (p : Bytes) : (xlmCrc p).length = 2 := by
  unfold xlmCrc; rw [List.length_reverse, length_ofNatBE]

theorem xlmDecode_canon (addrType : Nat) (ht : addrType < 256) (kb : Bytes) (hk : kb.length = 32)
    (hv : pubValid .ed25519 kb = true) :
    xlmDecode addrType (base32EncodeNoPad
      ((toBytesAuto addrType ++ kb) ++ xlmCrc (toBytesAuto addrType ++ kb)) none) = .ok kb := by
  unfold xlmDecode
  rw [toBytesAuto_of_lt_256 ht]
  simp only [List.singleton_append]
  have hck := xlmCrc_length (UInt8.ofNat addrType :: kb)
  rw [base32_decode_encodeNoPad]
  simp only [bind, Except.bind, pure, Except.pure]
  rw [validateLength_ok _ _ (by rw [List.length_append, hck]; simp [hk])]
  have hto : (UInt8.ofNat addrType).toNat = addrType := by
    simp [Nat.mod_eq_of_lt ht]
  simp only [splitCkEnd_append _ _ 2 hck, pyIdx, List.getElem?_cons_zero,
    ne_eq, not_true_eq_false, if_false, List.drop_succ_cons, List.drop_zero,
    validatePubKey_ok _ _ hv]
  simp only [pure, Except.pure, hto, not_true_eq_false, if_false]

theorem xlm_decode_encode (addrType : Nat) (ht : addrType < 256) (pub : Bytes) (addr : List Char)
    (h : xlmEncode addrType pub = .ok addr) :
    ∃ k, addrKey .ed25519 pub = .ok k ∧ xlmDecode addrType addr = .ok (k.drop 1) := by
  unfold xlmEncode at h
  obtain ⟨k, hk, h⟩ := bind_ok_inv h
  obtain ⟨_, h32, _, _, hval⟩ := addrKey_ed_inv (c := .ed25519) rfl hk
  refine ⟨k, hk, ?_⟩
  rw [← pure_ok_inv h]
  exact xlmDecode_canon addrType ht _ h32 hval

theorem xlmEncode_ov (addrType : Nat) (pub : Bytes) : OnlyValue (xlmEncode addrType pub) := by
  unfold xlmEncode; ov

/-- `p[0]` (with `p = dec[:-2]`) is guarded by `len(dec) = 35`: no `IndexError`. -/
theorem xlmDecode_ov (addrType : Nat) (addr : List Char) : OnlyValue (xlmDecode addrType addr) := by
  unfold xlmDecode
  apply OnlyValue.bind (OnlyValue.base32Decode _ _)
  intro dec _
  apply OnlyValue.bind (OnlyValue.validateLength _ _)
  intro _ hlen
  rw [validateLength_ok_iff] at hlen
  have hne : (splitCkEnd dec 2).1 ≠ [] := by
    rw [splitCkEnd_fst]
    exact ne_nil_of_length_pos (n := 33) (by rw [dropLast_length, hlen]) (by omega)
  have := OnlyValue.pyIdx_zero hne
  ov

/-! ### Filecoin (secp256k1, address type 1) -/

theorem filAlphabet_ok : Base32AlphabetOk filAlphabet := by
  unfold Base32AlphabetOk; decide

theorem filDecode_canon (pfx : List Char) (h : Bytes) (hh : h.length = 20) :
    filDecode pfx (pfx ++ ['1'] ++ base32EncodeNoPad (h ++ blake2b32 ([1] ++ h)) (some filAlphabet))
      = .ok h := by
  unfold filDecode
  rw [List.append_assoc, removePrefix_append]
  simp only [List.singleton_append]
  have hno := base32EncodeNoPad_not_contains (h ++ blake2b32 (1 :: h)) (some filAlphabet)
    (custom_ok filAlphabet_ok)
  have hck := blake2b32_length (1 :: h)
  have hc : ('1' :: base32EncodeNoPad (h ++ blake2b32 (1 :: h)) (some filAlphabet)).contains '='
      = false := by
    rw [List.contains_cons, hno]; decide
  simp only [bind, Except.bind, pure, Except.pure, hc]
  simp only [List.isEmpty_cons, Bool.or_self, Bool.false_eq_true, if_false,
    List.headD_cons, List.drop_succ_cons, List.drop_zero]
  rw [if_neg (by decide), base32_decode_encodeNoPad_custom _ _ filAlphabet_ok]
  simp only
  rw [validateLength_ok _ _ (by rw [List.length_append, hck, hh])]
  simp only [splitCkEnd_append _ _ 4 hck, ne_eq, not_true_eq_false, if_false]

theorem fil_decode_encode (pfx : List Char) (pub : Bytes) (addr : List Char)
    (h : filEncode pfx pub = .ok addr) :
    ∃ k u, addrKey .secp256k1 pub = .ok k ∧ uncompressedOf .secp256k1 k = .ok u ∧
      filDecode pfx addr = .ok (blake2b160 u) := by
  unfold filEncode at h
  obtain ⟨k, hk, h⟩ := bind_ok_inv h
  obtain ⟨u, hu, h⟩ := bind_ok_inv h
  refine ⟨k, u, hk, hu, ?_⟩
  rw [← pure_ok_inv h]
  exact filDecode_canon pfx _ (blake2b160_length u)

theorem filEncode_ov (pfx : List Char) (pub : Bytes) : OnlyValue (filEncode pfx pub) := by
  unfold filEncode; ov
theorem filDecode_ov (pfx addr : List Char) : OnlyValue (filDecode pfx addr) := by
  unfold filDecode; ov_b32

/-! ### Nano -/

theorem nanoAlphabet_ok : Base32AlphabetOk nanoAlphabet := by
  unfold Base32AlphabetOk; decide

theorem b32Quantum_small (c : Nat) (hc : c < 2 ^ 20) :
    (b32Quantum c).take 4 = ['A', 'A', 'A', 'A'] := by
  unfold b32Quantum
  rw [b32Digits_eq]
  have h1 : c / 2 ^ 35 % 32 = 0 := by omega
  have h2 : c / 2 ^ 30 % 32 = 0 := by omega
  have h3 : c / 2 ^ 25 % 32 = 0 := by omega
  have h4 : c / 2 ^ 20 % 32 = 0 := by omega
  simp only [List.map_cons, h1, h2, h3, h4, List.take_succ_cons, List.take_zero]
  decide

theorem translate_take (frm tgt s : List Char) (n : Nat) :
    (translate frm tgt s).take n = translate frm tgt (s.take n) := by
  unfold translate; rw [List.map_take]

/-- leading 20 zero bits become four leading `1` symbols (`z < 16`: only the high nibble of the
third byte is covered by them) -/
theorem nano_enc_take (z x y : UInt8) (hz : z.toNat < 16) (rest : Bytes)
    (hr : ([0, 0, z, x, y] ++ rest).length % 5 = 0) :
    (base32EncodeNoPad ([0, 0, z, x, y] ++ rest) (some nanoAlphabet)).take 4 = "1111".toList := by
  rw [(base32EncodeNoPad_full _ _ (custom_ok nanoAlphabet_ok) hr).1]
  unfold base32Encode
  simp only
  rw [translate_take, b32encodeStd_full _ hr,
    chunksOf_append_of_length 5 (by omega) [0, 0, z, x, y] rest rfl, List.flatMap_cons,
    List.take_append_of_le_length (by rw [b32Block, b32Quantum_length]; omega)]
  have hc : Bytes.toNatBE [0, 0, z, x, y] < 2 ^ 20 := by
    have hx := x.toNat_lt
    have hy := y.toNat_lt
    simp [Bytes.toNatBE]
    omega
  rw [b32Block, b32Quantum_small _ hc]
  decide

theorem nanoDecode_canon (pfx : List Char) (kb : Bytes) (hk : kb.length = 32)
    (hv : pubValid .ed25519Blake2b kb = true) :
    nanoDecode pfx (pfx ++
      (base32EncodeNoPad ([0, 0, 0] ++ kb ++ (blake2b40 kb).reverse) (some nanoAlphabet)).drop 4)
      = .ok kb := by
  have hck : ((blake2b40 kb).reverse).length = 5 := by rw [List.length_reverse, blake2b40_length]
  have hlen : ([0, 0, 0] ++ kb ++ (blake2b40 kb).reverse).length = 40 := by
    simp [hk, hck]
  have htake : (base32EncodeNoPad ([0, 0, 0] ++ kb ++ (blake2b40 kb).reverse)
      (some nanoAlphabet)).take 4 = "1111".toList := by
    match kb, hk with
    | x :: y :: t, hk =>
      have := nano_enc_take 0 x y (by decide) (t ++ (blake2b40 (x :: y :: t)).reverse)
        (by simp at hk; simp [hck]; omega)
      simpa using this
  unfold nanoDecode
  rw [removePrefix_append]
  simp only [bind, Except.bind, pure, Except.pure]
  rw [← htake, List.take_append_drop, base32_decode_encodeNoPad_custom _ _ nanoAlphabet_ok]
  simp only
  rw [validateLength_ok _ _ hlen, List.append_assoc, removePrefix_append]
  simp only [splitCkEnd_append _ _ 5 hck, ne_eq, not_true_eq_false, if_false,
    validatePubKey_ok _ _ hv]

theorem nano_decode_encode (pfx : List Char) (pub : Bytes) (addr : List Char)
    (h : nanoEncode pfx pub = .ok addr) :
    ∃ k, addrKey .ed25519Blake2b pub = .ok k ∧ nanoDecode pfx addr = .ok (k.drop 1) := by
  unfold nanoEncode at h
  obtain ⟨k, hk, h⟩ := bind_ok_inv h
  obtain ⟨_, h32, _, _, hval⟩ := addrKey_ed_inv (c := .ed25519Blake2b) rfl hk
  refine ⟨k, hk, ?_⟩
  rw [← pure_ok_inv h]
  exact nanoDecode_canon pfx _ h32 hval

theorem nanoEncode_ov (pfx : List Char) (pub : Bytes) : OnlyValue (nanoEncode pfx pub) := by
  unfold nanoEncode; ov
theorem nanoDecode_ov (pfx addr : List Char) : OnlyValue (nanoDecode pfx addr) := by
  unfold nanoDecode; ov_b32

/-! ### Nimiq -/

theorem nimAlphabet_ok : Base32AlphabetOk nimAlphabet := by
  unfold Base32AlphabetOk; decide

theorem nimAlphabet_facts : ∀ c ∈ nimAlphabet, c ≠ ' ' ∧ c.toNat < 128 := by decide

/-- grouping with single spaces is undone by dropping the spaces -/
theorem filter_flatten_intersperse (ls : List (List Char)) :
    ((ls.intersperse [' ']).flatten).filter (· ≠ ' ') = ls.flatten.filter (· ≠ ' ') := by
  induction ls with
  | nil => rfl
  | cons a t ih =>
    cases t with
    | nil => rfl
    | cons b t' =>
      rw [List.intersperse_cons_cons, List.flatten_cons, List.flatten_cons, List.filter_append,
        List.filter_append, ih, List.flatten_cons (L := b :: t'), List.filter_append]
      simp

theorem filter_eq_self_of {l : List Char} (h : ∀ c ∈ l, c ≠ ' ') : l.filter (· ≠ ' ') = l := by
  rw [List.filter_eq_self]; intro c hc; simpa using h c hc

/-- the checksum does not consult the non-ASCII digit oracle on ASCII text -/
theorem nimChecksum_ascii (f g : Char → Bool) (s : List Char) (h : ∀ c ∈ s, c.toNat < 128) :
    nimChecksum f s = nimChecksum g s := by
  unfold nimChecksum
  have : ∀ (init : Nat),
      s.foldl (fun ck c =>
        let isD := ('0' ≤ c ∧ c ≤ '9') || (c.toNat ≥ 128 && f c)
        let v : Int := if isD then (c.toNat : Int) - 48 else (c.toNat : Int) - 55
        if v ≥ 0 then nimAddChecksum ck v.toNat else ((ck : Int) + v).emod 97 |>.toNat) init =
      s.foldl (fun ck c =>
        let isD := ('0' ≤ c ∧ c ≤ '9') || (c.toNat ≥ 128 && g c)
        let v : Int := if isD then (c.toNat : Int) - 48 else (c.toNat : Int) - 55
        if v ≥ 0 then nimAddChecksum ck v.toNat else ((ck : Int) + v).emod 97 |>.toNat) init := by
    induction s with
    | nil => intro _; rfl
    | cons c t ih =>
      intro init
      have hc : decide (c.toNat ≥ 128) = false := by
        have := h c (by simp); simp; omega
      simp only [List.foldl_cons, hc, Bool.false_and]
      exact ih (fun x hx => h x (by simp [hx])) _
  simp only [this 0]

theorem nimAddChecksum_lt (ck v : Nat) : nimAddChecksum ck v < 97 := by
  unfold nimAddChecksum
  split
  · exact Nat.mod_lt _ (by omega)
  · exact Nat.mod_lt _ (by omega)

/-- the two checksum characters are ASCII digits, in particular not spaces -/
theorem nimChecksum_shape (f : Char → Bool) (s : List Char) :
    (nimChecksum f s).length = 2 ∧ ∀ c ∈ nimChecksum f s, c ≠ ' ' := by
  unfold nimChecksum
  simp only
  generalize (List.foldl _ 0 s) = ck
  have hlt := nimAddChecksum_lt ck 232600
  generalize nimAddChecksum ck 232600 = x at hlt
  refine ⟨rfl, ?_⟩
  intro c hc
  simp only [List.mem_cons, List.not_mem_nil, or_false] at hc
  have hd : ∀ d, d < 10 → Char.ofNat (48 + d) ≠ ' ' := by
    intro d hd; interval_cases d <;> decide
  rcases hc with rfl | rfl
  · exact hd _ (by omega)
  · exact hd _ (by omega)

theorem nimDecode_canon (isD : Char → Bool) (pfx : List Char) (hp : ∀ c ∈ pfx, c ≠ ' ')
    (h : Bytes) (hh : h.length = 20) :
    let enc := base32EncodeNoPad h (some nimAlphabet)
    nimDecode isD pfx (pfx ++ nimChecksum (fun _ => false) enc ++ [' '] ++
      ((chunksOf 4 enc).intersperse [' ']).flatten) = .ok h := by
  intro enc
  have hmem : ∀ c ∈ enc, c ∈ nimAlphabet :=
    (base32EncodeNoPad_mem h (some nimAlphabet) (custom_ok nimAlphabet_ok)).2
  have hns : ∀ c ∈ enc, c ≠ ' ' := fun c hc => (nimAlphabet_facts c (hmem c hc)).1
  have hascii : ∀ c ∈ enc, c.toNat < 128 := fun c hc => (nimAlphabet_facts c (hmem c hc)).2
  have hlen : enc.length = 32 := by
    rw [(base32EncodeNoPad_full h _ (custom_ok nimAlphabet_ok) (by rw [hh])).2, hh]
  obtain ⟨hckl, hckns⟩ := nimChecksum_shape (fun _ => false) enc
  have hfilter : (pfx ++ nimChecksum (fun _ => false) enc ++ [' '] ++
      ((chunksOf 4 enc).intersperse [' ']).flatten).filter (· ≠ ' ')
      = pfx ++ (nimChecksum (fun _ => false) enc ++ enc) := by
    rw [List.filter_append, List.filter_append, List.filter_append, filter_flatten_intersperse,
      flatten_chunksOf 4 (by omega), filter_eq_self_of hp, filter_eq_self_of hckns,
      filter_eq_self_of hns]
    simp
  unfold nimDecode
  simp only [hfilter]
  rw [removePrefix_append]
  simp only [bind, Except.bind]
  rw [validateLength_ok _ _ (by rw [List.length_append, hckl, hlen])]
  have htake : (nimChecksum (fun _ => false) enc ++ enc).take 2 = nimChecksum (fun _ => false) enc := by
    rw [List.take_append_of_le_length (by omega), List.take_of_length_le (by omega)]
  have hdrop : (nimChecksum (fun _ => false) enc ++ enc).drop 2 = enc := by
    rw [List.drop_append_of_le_length (by omega), List.drop_of_length_le (by omega)]; rfl
  simp only [htake, hdrop, nimChecksum_ascii isD (fun _ => false) enc hascii, ne_eq,
    not_true_eq_false, if_false]
  rw [base32_decode_encodeNoPad_custom h _ nimAlphabet_ok]
  simp only [validateLength_ok _ _ hh]
  rfl

theorem nim_decode_encode (isD : Char → Bool) (pfx : List Char) (hp : ∀ c ∈ pfx, c ≠ ' ')
    (pub : Bytes) (addr : List Char) (h : nimEncode pfx pub = .ok addr) :
    ∃ k, addrKey .ed25519 pub = .ok k ∧
      nimDecode isD pfx addr = .ok ((blake2b256 (k.drop 1)).take 20) := by
  unfold nimEncode at h
  obtain ⟨k, hk, h⟩ := bind_ok_inv h
  refine ⟨k, hk, ?_⟩
  rw [← pure_ok_inv h]
  exact nimDecode_canon isD pfx hp _ (by rw [List.length_take, blake2b256_length]; rfl)

theorem nimEncode_ov (pfx : List Char) (pub : Bytes) : OnlyValue (nimEncode pfx pub) := by
  unfold nimEncode; ov
theorem nimDecode_ov (isD : Char → Bool) (pfx addr : List Char) :
    OnlyValue (nimDecode isD pfx addr) := by
  unfold nimDecode; ov_b32

end BipVerif.Model
