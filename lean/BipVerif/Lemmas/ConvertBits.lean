/-
`convertBits` (Bech32 `ConvertBits`) is bit regrouping: the input symbols are written as one flat
most-significant-bit-first bit string which is cut into `toBits`-sized groups.
Consequences: 8 -> 5 (padded) always succeeds, and 5 -> 8 (unpadded) undoes it.
-/
import Mathlib.Tactic.Ring
import BipVerif.Lemmas.Bytes
import BipVerif.Model.Bech32

namespace BipVerif.Model
open BipVerif

/-! ### bit strings -/

/-- the `w` low bits of `n`, most significant first. -/
def bitsBE : Nat → Nat → List Bool
  | 0, _ => []
  | w+1, n => bitsBE w (n / 2) ++ [n % 2 == 1]

/-- value of a most-significant-first bit string. -/
def ofBitsBE (bs : List Bool) : Nat := bs.foldl (fun a b => 2 * a + b.toNat) 0

@[simp] theorem length_bitsBE (w n : Nat) : (bitsBE w n).length = w := by
  induction w generalizing n with
  | zero => rfl
  | succ w ih => simp [bitsBE, ih]

theorem ofBitsBE_foldl (bs : List Bool) (a : Nat) :
    bs.foldl (fun a b => 2 * a + b.toNat) a = a * 2 ^ bs.length + ofBitsBE bs := by
  unfold ofBitsBE
  induction bs generalizing a with
  | nil => simp
  | cons b t ih =>
    simp only [List.foldl_cons, List.length_cons]
    rw [ih, ih (2 * 0 + b.toNat)]
    ring

@[simp] theorem ofBitsBE_nil : ofBitsBE [] = 0 := rfl

theorem ofBitsBE_append (a b : List Bool) :
    ofBitsBE (a ++ b) = ofBitsBE a * 2 ^ b.length + ofBitsBE b := by
  conv_lhs => unfold ofBitsBE
  rw [List.foldl_append, ofBitsBE_foldl]
  rfl

theorem ofBitsBE_singleton (b : Bool) : ofBitsBE [b] = b.toNat := by
  simp [ofBitsBE]

theorem ofBitsBE_lt (l : List Bool) : ofBitsBE l < 2 ^ l.length := by
  induction l using List.reverseRecOn with
  | nil => simp
  | append_singleton l b ih =>
    rw [ofBitsBE_append, ofBitsBE_singleton]
    simp only [List.length_cons, List.length_nil, List.length_append, pow_succ]
    have : b.toNat ≤ 1 := Bool.toNat_le b
    omega

theorem ofBitsBE_bitsBE (w n : Nat) : ofBitsBE (bitsBE w n) = n % 2 ^ w := by
  induction w generalizing n with
  | zero => simp [bitsBE, Nat.mod_one]
  | succ w ih =>
    rw [bitsBE, ofBitsBE_append, ih, ofBitsBE_singleton]
    have h2 : n % 2 ^ (w + 1) = 2 * (n / 2 % 2 ^ w) + n % 2 := by
      rw [pow_succ, Nat.mul_comm, Nat.mod_mul]; omega
    rw [h2]
    rcases Nat.mod_two_eq_zero_or_one n with h | h <;> simp [h] <;> ring

theorem bitsBE_ofBitsBE (l : List Bool) : bitsBE l.length (ofBitsBE l) = l := by
  induction l using List.reverseRecOn with
  | nil => rfl
  | append_singleton l b ih =>
    rw [ofBitsBE_append, ofBitsBE_singleton]
    simp only [List.length_append, List.length_cons, List.length_nil, bitsBE]
    have hb : b.toNat ≤ 1 := Bool.toNat_le b
    have h1 : (ofBitsBE l * 2 ^ (0 + 1) + b.toNat) / 2 = ofBitsBE l := by omega
    have h2 : ((ofBitsBE l * 2 ^ (0 + 1) + b.toNat) % 2 == 1) = b := by
      cases b <;> simp
    rw [h1, h2, ih]

theorem ofBitsBE_replicate_false (n : Nat) : ofBitsBE (List.replicate n false) = 0 := by
  induction n with
  | zero => rfl
  | succ n ih => rw [List.replicate_succ', ofBitsBE_append, ih]; simp [ofBitsBE_singleton]

theorem ofBitsBE_eq_zero_iff (l : List Bool) : ofBitsBE l = 0 ↔ ∀ b ∈ l, b = false := by
  induction l using List.reverseRecOn with
  | nil => simp
  | append_singleton l b ih =>
    rw [ofBitsBE_append, ofBitsBE_singleton]
    simp only [List.length_cons, List.length_nil, List.mem_append, List.mem_singleton]
    constructor
    · intro h
      have h1 : ofBitsBE l = 0 := by omega
      have h2 : b.toNat = 0 := by omega
      intro x hx
      rcases hx with hx | hx
      · exact ih.mp h1 x hx
      · subst hx; cases x <;> simp_all
    · intro h
      have h1 : ofBitsBE l = 0 := ih.mpr (fun x hx => h x (Or.inl hx))
      have h2 : b = false := h b (Or.inr rfl)
      simp [h1, h2]

/-! ### chunking -/

/-- the complete `t`-sized groups of `l` (group `j` is `l[j*t .. (j+1)*t)`). -/
def fullChunks {α} (t : Nat) (l : List α) : List (List α) :=
  (List.range (l.length / t)).map fun j => (l.drop (j * t)).take t

/-- what is left after removing the complete `t`-sized groups. -/
def chunkRem {α} (t : Nat) (l : List α) : List α := l.drop (l.length / t * t)

theorem fullChunks_of_lt {α} (t : Nat) (l : List α) (h : l.length < t) : fullChunks t l = [] := by
  simp [fullChunks, Nat.div_eq_of_lt h]

theorem chunkRem_of_lt {α} (t : Nat) (l : List α) (h : l.length < t) : chunkRem t l = l := by
  simp [chunkRem, Nat.div_eq_of_lt h]

theorem length_chunkRem {α} (t : Nat) (l : List α) : (chunkRem t l).length = l.length % t := by
  simp only [chunkRem, List.length_drop]
  have := Nat.div_add_mod l.length t
  rw [Nat.mul_comm] at this
  omega

theorem fullChunks_step {α} (t : Nat) (ht : 0 < t) (l : List α) (h : t ≤ l.length) :
    fullChunks t l = l.take t :: fullChunks t (l.drop t) := by
  have hd : l.length / t = (l.length - t) / t + 1 := by
    rw [← Nat.add_div_right _ ht]; congr 1; omega
  simp only [fullChunks, List.length_drop]
  rw [hd, List.range_succ_eq_map, List.map_cons, List.map_map]
  congr 1
  · simp
  · apply List.map_congr_left
    intro j _
    simp only [Function.comp, List.drop_drop]
    congr 2
    rw [Nat.succ_eq_add_one]; ring

theorem chunkRem_step {α} (t : Nat) (ht : 0 < t) (l : List α) (h : t ≤ l.length) :
    chunkRem t l = chunkRem t (l.drop t) := by
  have hd : l.length / t = (l.length - t) / t + 1 := by
    rw [← Nat.add_div_right _ ht]; congr 1; omega
  simp only [chunkRem, List.length_drop, List.drop_drop]
  rw [hd]; congr 1; ring

/-- chunking a concatenation: chunk the first part, carry its remainder over. -/
theorem fullChunks_append {α} (t : Nat) (ht : 0 < t) (q B : List α) :
    fullChunks t (q ++ B) = fullChunks t q ++ fullChunks t (chunkRem t q ++ B) ∧
    chunkRem t (q ++ B) = chunkRem t (chunkRem t q ++ B) := by
  induction hn : q.length using Nat.strong_induction_on generalizing q with
  | _ n ih =>
    by_cases h : q.length < t
    · simp [fullChunks_of_lt t q h, chunkRem_of_lt t q h]
    · have h' : t ≤ q.length := by omega
      have h'' : t ≤ (q ++ B).length := by simp; omega
      have hlen : (q.drop t).length < n := by simp; omega
      obtain ⟨ih1, ih2⟩ := ih _ hlen (q.drop t) rfl
      have e1 : (q ++ B).take t = q.take t := by
        rw [List.take_append_of_le_length h']
      have e2 : (q ++ B).drop t = q.drop t ++ B := by
        rw [List.drop_append_of_le_length h']
      rw [fullChunks_step t ht (q ++ B) h'', chunkRem_step t ht (q ++ B) h'', e1, e2, ih1, ih2,
        fullChunks_step t ht q h', chunkRem_step t ht q h']
      simp

theorem flatten_fullChunks {α} (t : Nat) (ht : 0 < t) (l : List α) :
    (fullChunks t l).flatten ++ chunkRem t l = l := by
  induction hn : l.length using Nat.strong_induction_on generalizing l with
  | _ n ih =>
    by_cases h : l.length < t
    · simp [fullChunks_of_lt t l h, chunkRem_of_lt t l h]
    · have h' : t ≤ l.length := by omega
      have hlen : (l.drop t).length < n := by simp; omega
      rw [fullChunks_step t ht l h', chunkRem_step t ht l h', List.flatten_cons, List.append_assoc,
        ih _ hlen (l.drop t) rfl, List.take_append_drop]

theorem length_of_mem_fullChunks {α} (t : Nat) (l c : List α) (h : c ∈ fullChunks t l) :
    c.length = t := by
  simp only [fullChunks, List.mem_map, List.mem_range] at h
  obtain ⟨j, hj, rfl⟩ := h
  simp only [List.length_take, List.length_drop]
  have h1 : (j + 1) * t ≤ l.length / t * t := Nat.mul_le_mul_right t hj
  have h2 : l.length / t * t ≤ l.length := Nat.div_mul_le_self _ _
  have h3 : (j + 1) * t = j * t + t := by ring
  omega

@[simp] theorem length_fullChunks {α} (t : Nat) (l : List α) :
    (fullChunks t l).length = l.length / t := by
  simp [fullChunks]

/-- chunking a list of `t`-sized blocks gives the blocks back. -/
theorem fullChunks_flatten {α} (t : Nat) (ht : 0 < t) (cs : List (List α))
    (h : ∀ c ∈ cs, c.length = t) (r : List α) (hr : r.length < t) :
    fullChunks t (cs.flatten ++ r) = cs ∧ chunkRem t (cs.flatten ++ r) = r := by
  induction cs with
  | nil => simp [fullChunks_of_lt t r hr, chunkRem_of_lt t r hr]
  | cons c cs ih =>
    have hc : c.length = t := h c (by simp)
    obtain ⟨ih1, ih2⟩ := ih (fun c hc => h c (by simp [hc]))
    have hle : t ≤ (c ++ (cs.flatten ++ r)).length := by simp; omega
    have e1 : (c ++ (cs.flatten ++ r)).take t = c := by
      rw [List.take_append_of_le_length (by omega), List.take_of_length_le (by omega)]
    have e2 : (c ++ (cs.flatten ++ r)).drop t = cs.flatten ++ r := by
      rw [List.drop_append_of_le_length (by omega), List.drop_of_length_le (by omega)]; simp
    rw [List.flatten_cons, List.append_assoc, fullChunks_step t ht _ hle, chunkRem_step t ht _ hle,
      e1, e2, ih1, ih2]
    exact ⟨rfl, rfl⟩

/-! ### arithmetic helpers -/

theorem shift_mod (a v k f : Nat) (hv : v < 2 ^ f) :
    (a * 2 ^ f + v) % 2 ^ (k + f) = (a % 2 ^ k) * 2 ^ f + v := by
  have h1 : a * 2 ^ f + v = 2 ^ (k + f) * (a / 2 ^ k) + ((a % 2 ^ k) * 2 ^ f + v) := by
    conv_lhs => rw [← Nat.div_add_mod a (2 ^ k)]
    rw [pow_add]; ring
  have h2 : (a % 2 ^ k) * 2 ^ f + v < 2 ^ (k + f) := by
    have h3 : (a % 2 ^ k + 1) * 2 ^ f ≤ 2 ^ k * 2 ^ f :=
      Nat.mul_le_mul_right _ (Nat.mod_lt _ (Nat.two_pow_pos k))
    rw [pow_add]
    rw [Nat.add_mul] at h3
    omega
  rw [h1, Nat.mul_add_mod, Nat.mod_eq_of_lt h2]

/-- the low bits of an accumulator that ends in `a ++ b` are `b` … -/
theorem mod_suffix (acc : Nat) (a b : List Bool)
    (h : acc % 2 ^ (a ++ b).length = ofBitsBE (a ++ b)) : acc % 2 ^ b.length = ofBitsBE b := by
  have hd : 2 ^ b.length ∣ 2 ^ (a ++ b).length := pow_dvd_pow 2 (by simp)
  rw [← Nat.mod_mod_of_dvd acc hd, h, ofBitsBE_append, Nat.mul_comm, Nat.mul_add_mod,
    Nat.mod_eq_of_lt (ofBitsBE_lt b)]

/-- … and the bits above them are `a`. -/
theorem div_mod_prefix (acc : Nat) (a b : List Bool)
    (h : acc % 2 ^ (a ++ b).length = ofBitsBE (a ++ b)) :
    acc / 2 ^ b.length % 2 ^ a.length = ofBitsBE a := by
  rw [← Nat.mod_mul_right_div_self, ← pow_add, Nat.add_comm, ← List.length_append, h,
    ofBitsBE_append, Nat.mul_comm, Nat.mul_add_div (Nat.two_pow_pos _),
    Nat.div_eq_of_lt (ofBitsBE_lt b), Nat.add_zero]

/-! ### the loop invariants -/

theorem drain_spec (t : Nat) (ht : 0 < t) (acc : Nat) :
    ∀ (fuel : Nat) (q : List Bool) (ret : List Nat), q.length < fuel →
      acc % 2 ^ q.length = ofBitsBE q →
      convertBits.drain t (1 <<< t - 1) fuel acc q.length ret
        = ((chunkRem t q).length, ret ++ (fullChunks t q).map ofBitsBE) := by
  intro fuel
  induction fuel with
  | zero => intro q ret h; omega
  | succ fuel ih =>
    intro q ret hq hacc
    unfold convertBits.drain
    by_cases h : q.length ≥ t ∧ t > 0
    · rw [if_pos h]
      have hle : t ≤ q.length := h.1
      have hsplit : q = q.take t ++ q.drop t := (List.take_append_drop t q).symm
      have hacc' : acc % 2 ^ (q.take t ++ q.drop t).length = ofBitsBE (q.take t ++ q.drop t) := by
        rw [← hsplit]; exact hacc
      have hout : (acc >>> (q.length - t)) &&& (1 <<< t - 1) = ofBitsBE (q.take t) := by
        rw [Nat.one_shiftLeft, Nat.and_two_pow_sub_one_eq_mod, Nat.shiftRight_eq_div_pow]
        have := div_mod_prefix acc _ _ hacc'
        rw [List.length_take, List.length_drop, Nat.min_eq_left hle] at this
        exact this
      have hlow := mod_suffix acc _ _ hacc'
      have hlen : (q.drop t).length < fuel := by rw [List.length_drop]; omega
      have := ih (q.drop t) (ret ++ [ofBitsBE (q.take t)]) hlen hlow
      rw [List.length_drop] at this
      simp only [hout]
      rw [this, fullChunks_step t ht q hle, chunkRem_step t ht q hle]
      simp
    · rw [if_neg h]
      have hlt : q.length < t := by omega
      simp [fullChunks_of_lt t q hlt, chunkRem_of_lt t q hlt]

/-- how `convertBits` ends, given the emitted groups `ret` and the pending bits `q`. -/
def cbFinish (f t : Nat) (pad : Bool) (ret : List Nat) (q : List Bool) : Option (List Nat) :=
  if pad then
    if q.length ≠ 0 then some (ret ++ [ofBitsBE (q ++ List.replicate (t - q.length) false)])
    else some ret
  else if q.length ≥ f ∨ ofBitsBE q ≠ 0 then none else some ret

theorem go_spec (f t : Nat) (ht : 0 < t) (pad : Bool) :
    ∀ (rest : List Nat) (p : List Bool) (acc : Nat) (ret : List Nat),
      p.length < t → acc % 2 ^ p.length = ofBitsBE p → (∀ v ∈ rest, v < 2 ^ f) →
      convertBits.go f t pad (1 <<< t - 1) (1 <<< (f + t - 1) - 1) rest acc p.length ret
        = cbFinish f t pad
            (ret ++ (fullChunks t (p ++ rest.flatMap (bitsBE f))).map ofBitsBE)
            (chunkRem t (p ++ rest.flatMap (bitsBE f))) := by
  intro rest
  induction rest with
  | nil =>
    intro p acc ret hp hacc _
    have key : ∀ k, (acc <<< k) &&& (1 <<< (p.length + k) - 1)
        = ofBitsBE (p ++ List.replicate k false) := by
      intro k
      rw [Nat.one_shiftLeft, Nat.and_two_pow_sub_one_eq_mod, Nat.shiftLeft_eq, ofBitsBE_append,
        ofBitsBE_replicate_false, List.length_replicate, Nat.add_zero, ← hacc, pow_add,
        Nat.mul_mod_mul_right]
    have hpad : (acc <<< (t - p.length)) &&& (1 <<< t - 1)
        = ofBitsBE (p ++ List.replicate (t - p.length) false) := by
      have := key (t - p.length)
      rwa [show p.length + (t - p.length) = t by omega] at this
    have hz : ofBitsBE (p ++ List.replicate (t - p.length) false) ≠ 0 ↔ ofBitsBE p ≠ 0 := by
      rw [ofBitsBE_append, ofBitsBE_replicate_false, Nat.add_zero]
      have := Nat.two_pow_pos (List.replicate (t - p.length) false).length
      constructor
      · intro h h0; apply h; rw [h0]; simp
      · intro h h0; apply h
        rcases Nat.mul_eq_zero.mp h0 with h1 | h1
        · exact h1
        · omega
    unfold convertBits.go
    simp only [List.flatMap_nil, List.append_nil, fullChunks_of_lt t p hp, chunkRem_of_lt t p hp,
      List.map_nil, hpad, cbFinish, hz]
  | cons v rest ih =>
    intro p acc ret hp hacc hv
    have hvlt : v < 2 ^ f := hv v (by simp)
    have hv0 : v >>> f = 0 := by
      rw [Nat.shiftRight_eq_div_pow]; exact Nat.div_eq_of_lt hvlt
    -- the new accumulator and pending bits
    set acc' := ((acc <<< f) ||| v) &&& (1 <<< (f + t - 1) - 1) with hacc'def
    set q := p ++ bitsBE f v with hq
    have hqlen : q.length = p.length + f := by simp [hq]
    have hacc' : acc' % 2 ^ q.length = ofBitsBE q := by
      rw [hacc'def, Nat.one_shiftLeft, Nat.and_two_pow_sub_one_eq_mod,
        ← Nat.shiftLeft_add_eq_or_of_lt hvlt, Nat.shiftLeft_eq]
      have hd : 2 ^ q.length ∣ 2 ^ (f + t - 1) := pow_dvd_pow 2 (by omega)
      rw [Nat.mod_mod_of_dvd _ hd, hqlen, shift_mod _ _ _ _ hvlt, hacc, hq, ofBitsBE_append,
        ofBitsBE_bitsBE, length_bitsBE, Nat.mod_eq_of_lt hvlt]
    have hdrain := drain_spec t ht acc' (q.length + 1) q ret (by omega) hacc'
    rw [hqlen] at hdrain
    -- remaining pending bits
    have hsplit : q = (fullChunks t q).flatten ++ chunkRem t q := (flatten_fullChunks t ht q).symm
    have hrem : acc' % 2 ^ (chunkRem t q).length = ofBitsBE (chunkRem t q) := by
      apply mod_suffix acc' (fullChunks t q).flatten
      rw [← hsplit]; exact hacc'
    have hremlt : (chunkRem t q).length < t := by
      rw [length_chunkRem]; exact Nat.mod_lt _ ht
    have hih := ih (chunkRem t q) acc' (ret ++ (fullChunks t q).map ofBitsBE) hremlt hrem
      (fun x hx => hv x (by simp [hx]))
    obtain ⟨ha1, ha2⟩ := fullChunks_append t ht q (rest.flatMap (bitsBE f))
    unfold convertBits.go
    rw [if_neg (by simp [hv0])]
    simp only []
    rw [← hacc'def, hdrain]
    simp only []
    rw [hih, List.flatMap_cons, ← List.append_assoc, ← hq, ha1, ha2]
    simp

/-! ### specification -/

/-- all symbols of `data` as one bit string, `f` bits each, most significant bit first. -/
def symbolBits (f : Nat) (data : List Nat) : List Bool := data.flatMap (bitsBE f)

/-- zero-pad a bit string to a multiple of `t`. -/
def padBits (t : Nat) (B : List Bool) : List Bool :=
  if B.length % t = 0 then B else B ++ List.replicate (t - B.length % t) false

/-- **Specification of `ConvertBits` with padding**: cut the flat bit string into `t`-bit groups,
zero-padding the last one. -/
def regroup (f t : Nat) (data : List Nat) : List Nat :=
  (fullChunks t (padBits t (symbolBits f data))).map ofBitsBE

theorem length_symbolBits (f : Nat) (data : List Nat) :
    (symbolBits f data).length = f * data.length := by
  unfold symbolBits
  induction data with
  | nil => simp
  | cons a t ih => simp only [List.flatMap_cons, List.length_append, length_bitsBE, ih,
      List.length_cons]; ring

theorem fullChunks_exact {α} (t : Nat) (ht : 0 < t) (l : List α) (h : l.length = t) :
    fullChunks t l = [l] := by
  rw [fullChunks_step t ht l (by omega), List.take_of_length_le (by omega),
    fullChunks_of_lt t _ (by simp; omega)]

theorem fullChunks_padBits (t : Nat) (ht : 0 < t) (B : List Bool) :
    fullChunks t (padBits t B) = fullChunks t B ++
      (if (chunkRem t B).length ≠ 0 then
        [chunkRem t B ++ List.replicate (t - (chunkRem t B).length) false] else []) := by
  unfold padBits
  rw [length_chunkRem]
  by_cases h : B.length % t = 0
  · simp [h]
  · rw [if_neg h, if_pos h, (fullChunks_append t ht B _).1]
    congr 1
    apply fullChunks_exact t ht
    have := Nat.mod_lt B.length ht
    simp [length_chunkRem]; omega

theorem length_padBits (t : Nat) (ht : 0 < t) (B : List Bool) :
    (padBits t B).length % t = 0 ∧ B.length ≤ (padBits t B).length ∧
      (padBits t B).length < B.length + t := by
  unfold padBits
  by_cases h : B.length % t = 0
  · simp [h]; omega
  · rw [if_neg h]
    have := Nat.mod_lt B.length ht
    have h2 := Nat.div_add_mod B.length t
    refine ⟨?_, by simp, by simp; omega⟩
    have : (B ++ List.replicate (t - B.length % t) false).length = t * (B.length / t + 1) := by
      simp only [List.length_append, List.length_replicate, Nat.mul_add, Nat.mul_one]; omega
    rw [this]; simp

theorem all_valid_of_lt (f : Nat) (data : List Nat) (h : ∀ v ∈ data, v < 2 ^ f) :
    data.map (fun v => ofBitsBE (bitsBE f v)) = data := by
  induction data with
  | nil => rfl
  | cons a t ih =>
    rw [List.map_cons, ih (fun v hv => h v (by simp [hv])), ofBitsBE_bitsBE,
      Nat.mod_eq_of_lt (h a (by simp))]

/-- **(b)** `convertBits … pad=true` is bit regrouping (for `toBits ≥ 1` and in-range symbols). -/
theorem convertBits_pad (f t : Nat) (ht : 0 < t) (data : List Nat) (h : ∀ v ∈ data, v < 2 ^ f) :
    convertBits data f t true = some (regroup f t data) := by
  have := go_spec f t ht true data [] 0 [] (by simpa using ht) (by simp) h
  simp only [List.length_nil, List.nil_append] at this
  unfold convertBits
  simp only []
  rw [this, regroup, fullChunks_padBits t ht, symbolBits, cbFinish]
  by_cases hr : (chunkRem t (data.flatMap (bitsBE f))).length ≠ 0
  · simp [hr]
  · simp [hr]

/-- an out-of-range symbol makes `convertBits` fail. -/
theorem convertBits_go_none (f t : Nat) (pad : Bool) (mo ma : Nat) :
    ∀ (rest : List Nat) (acc bits : Nat) (ret : List Nat), (∃ v ∈ rest, ¬ v < 2 ^ f) →
      convertBits.go f t pad mo ma rest acc bits ret = none := by
  intro rest
  induction rest with
  | nil => intro _ _ _ h; simp at h
  | cons v rest ih =>
    intro acc bits ret h
    unfold convertBits.go
    by_cases hv : v >>> f ≠ 0
    · rw [if_pos hv]
    · rw [if_neg hv]
      have hvlt : v < 2 ^ f := by
        rw [Nat.shiftRight_eq_div_pow] at hv
        have := Nat.two_pow_pos f
        exact (Nat.div_eq_zero_iff_lt this).mp (by simpa using hv)
      have h' : ∃ v ∈ rest, ¬ v < 2 ^ f := by
        obtain ⟨w, hw, hw2⟩ := h
        rcases List.mem_cons.mp hw with rfl | hw
        · exact absurd hvlt hw2
        · exact ⟨w, hw, hw2⟩
      simp only []
      generalize convertBits.drain t mo _ _ _ ret = d
      obtain ⟨b, r⟩ := d
      exact ih _ _ _ h'

theorem convertBits_none_of_invalid (f t : Nat) (pad : Bool) (data : List Nat)
    (h : ∃ v ∈ data, ¬ v < 2 ^ f) : convertBits data f t pad = none := by
  unfold convertBits
  exact convertBits_go_none f t pad _ _ data 0 0 [] h

/-- **(c)** `convertBits … pad=false` on in-range symbols: fails iff `fromBits` or more bits are
left over or a left-over bit is set; otherwise returns exactly the complete groups. -/
theorem convertBits_nopad (f t : Nat) (ht : 0 < t) (data : List Nat) (h : ∀ v ∈ data, v < 2 ^ f) :
    convertBits data f t false =
      if (f * data.length) % t ≥ f ∨ ∃ b ∈ chunkRem t (symbolBits f data), b = true then none
      else some ((fullChunks t (symbolBits f data)).map ofBitsBE) := by
  have := go_spec f t ht false data [] 0 [] (by simpa using ht) (by simp) h
  simp only [List.length_nil, List.nil_append] at this
  unfold convertBits
  simp only []
  rw [this, cbFinish, ← symbolBits, length_chunkRem, length_symbolBits]
  simp only [Bool.false_eq_true, if_false]
  have hz : ofBitsBE (chunkRem t (symbolBits f data)) ≠ 0 ↔
      ∃ b ∈ chunkRem t (symbolBits f data), b = true := by
    rw [ne_eq, ofBitsBE_eq_zero_iff]
    simp
  simp only [hz]

theorem length_regroup_8_5 (data : List Nat) :
    (regroup 8 5 data).length = (8 * data.length + 4) / 5 := by
  obtain ⟨h1, h2, h3⟩ := length_padBits 5 (by omega) (symbolBits 8 data)
  rw [length_symbolBits] at h2 h3
  simp only [regroup, List.length_map, length_fullChunks]
  omega

theorem regroup_lt (f t : Nat) (data : List Nat) : ∀ x ∈ regroup f t data, x < 2 ^ t := by
  intro x hx
  simp only [regroup, List.mem_map] at hx
  obtain ⟨c, hc, rfl⟩ := hx
  have := ofBitsBE_lt c
  rwa [length_of_mem_fullChunks t _ c hc] at this

/-- **(a)** 8 → 5 with padding always succeeds on byte values; size and range of the result. -/
theorem convertBits_8_5 (data : List Nat) (h : ∀ v ∈ data, v < 256) :
    ∃ r, convertBits data 8 5 true = some r ∧ r.length = (8 * data.length + 4) / 5 ∧
      ∀ x ∈ r, x < 32 :=
  ⟨regroup 8 5 data, convertBits_pad 8 5 (by omega) data h, length_regroup_8_5 data,
    regroup_lt 8 5 data⟩

theorem flatMap_bitsBE_map_ofBitsBE (t : Nat) (cs : List (List Bool)) (h : ∀ c ∈ cs, c.length = t) :
    (cs.map ofBitsBE).flatMap (bitsBE t) = cs.flatten := by
  induction cs with
  | nil => rfl
  | cons c cs ih =>
    simp only [List.map_cons, List.flatMap_cons, List.flatten_cons]
    rw [ih (fun c hc => h c (by simp [hc]))]
    congr 1
    have := bitsBE_ofBitsBE c
    rwa [h c (by simp)] at this

/-- the bit string of a padded regrouping is the padded bit string. -/
theorem symbolBits_regroup (f t : Nat) (ht : 0 < t) (data : List Nat) :
    symbolBits t (regroup f t data) = padBits t (symbolBits f data) := by
  unfold regroup
  rw [symbolBits, flatMap_bitsBE_map_ofBitsBE t _ (fun c hc => length_of_mem_fullChunks t _ c hc)]
  have h := flatten_fullChunks t ht (padBits t (symbolBits f data))
  have h0 : chunkRem t (padBits t (symbolBits f data)) = [] := by
    apply List.eq_nil_of_length_eq_zero
    rw [length_chunkRem]; exact (length_padBits t ht _).1
  rwa [h0, List.append_nil] at h

theorem padBits_eq (t : Nat) (ht : 0 < t) (B : List Bool) :
    ∃ k, k < t ∧ padBits t B = B ++ List.replicate k false := by
  unfold padBits
  by_cases h : B.length % t = 0
  · exact ⟨0, ht, by simp [h]⟩
  · exact ⟨t - B.length % t, by omega, by rw [if_neg h]⟩

/-- **General round trip**: regrouping `f`-bit symbols into `t ≤ f`-bit groups with padding and
back without padding is the identity. -/
theorem convertBits_regroup_inv (f t : Nat) (ht : 0 < t) (htf : t ≤ f) (data : List Nat)
    (h : ∀ v ∈ data, v < 2 ^ f) : convertBits (regroup f t data) t f false = some data := by
  have hf : 0 < f := by omega
  rw [convertBits_nopad t f hf _ (regroup_lt f t data), symbolBits_regroup f t ht]
  obtain ⟨k, hk, hpad⟩ := padBits_eq t ht (symbolBits f data)
  have hB : symbolBits f data = (data.map (bitsBE f)).flatten := by
    simp [symbolBits, List.flatMap_def]
  obtain ⟨h1, h2⟩ := fullChunks_flatten f hf (data.map (bitsBE f))
    (by intro c hc; simp only [List.mem_map] at hc; obtain ⟨v, _, rfl⟩ := hc; simp)
    (List.replicate k false) (by simp; omega)
  have hlen : (t * (regroup f t data).length) % f = k := by
    have := congrArg List.length h2
    rw [length_chunkRem, ← hB, ← hpad, ← symbolBits_regroup f t ht, length_symbolBits] at this
    simpa using this
  rw [hpad, hB, h1, h2, hlen, if_neg, List.map_map]
  · exact congrArg some (all_valid_of_lt f data h)
  · simp; omega

/-- **1.** `ConvertFromBase32 (ConvertToBase32 b) = b` for every byte string. -/
theorem convertBits_8_5_8' (data : List Nat) (h : ∀ v ∈ data, v < 256) :
    (convertBits data 8 5 true).bind (fun r => convertBits r 5 8 false) = some data := by
  rw [convertBits_pad 8 5 (by omega) data h]
  exact convertBits_regroup_inv 8 5 (by omega) (by omega) data h

theorem bytesToNats_lt (b : Bytes) : ∀ v ∈ bytesToNats b, v < 256 := by
  intro v hv
  simp only [bytesToNats, List.mem_map] at hv
  obtain ⟨a, _, rfl⟩ := hv
  exact a.toNat_lt

theorem toBase32_eq (b : Bytes) : toBase32 (bytesToNats b) = .ok (regroup 8 5 (bytesToNats b)) := by
  unfold toBase32
  rw [convertBits_pad 8 5 (by omega) _ (bytesToNats_lt b)]
  rfl

theorem fromBase32_regroup (b : Bytes) :
    fromBase32 (regroup 8 5 (bytesToNats b)) = .ok (bytesToNats b) := by
  unfold fromBase32
  rw [convertBits_regroup_inv 8 5 (by omega) (by omega) _ (bytesToNats_lt b)]
  rfl

theorem convertBits_8_5_8 (b : Bytes) :
    (toBase32 (bytesToNats b) >>= fromBase32) = .ok (bytesToNats b) := by
  rw [toBase32_eq]
  exact fromBase32_regroup b

end BipVerif.Model
