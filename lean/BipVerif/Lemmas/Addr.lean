/-
Address layer — shared combinator lemmas, the key-layer facts the address proofs rely on, and a
small compositional calculus (`OnlyValue`) for the C14 clause "address decoders only ever raise
`ValueError`".

Hashes and curve arithmetic are opaque here: only output lengths are used.  The key layer enters
through `addrKey c pub = .ok k` (the canonical key of accepted key bytes).  For the ed25519 family
"the canonical key re-validates" is *proved* (the canonical form is `0x00 ‖ 32 bytes` and the
32-byte form is accepted unchanged); for the two ECDSA curves it is the explicit hypothesis
`KeyCanon c` (decompress ∘ compress = id is curve arithmetic, checked by differential testing,
not proved).
-/
import BipVerif.Model.Addr
import BipVerif.Lemmas.IntBytes
import BipVerif.Lemmas.Chunks
import BipVerif.Lemmas.Base58Check
import BipVerif.Lemmas.SS58

namespace BipVerif.Model
open BipVerif BipVerif.Prim

/-! ### `Except` plumbing -/

theorem bind_ok_inv {α β} {x : R α} {f : α → R β} {b : β} (h : (x >>= f) = .ok b) :
    ∃ a, x = .ok a ∧ f a = .ok b := by
  cases x with
  | error e => cases h
  | ok a => exact ⟨a, rfl, h⟩

theorem bind_ok_eq {α β} {x : R α} {f : α → R β} {a : α} (h : x = .ok a) : (x >>= f) = f a := by
  rw [h]; rfl

theorem bind_error_eq {α β} {x : R α} {f : α → R β} {e : Err} (h : x = .error e) :
    (x >>= f) = .error e := by
  rw [h]; rfl

/-- a computation that can only fail with `ValueError` -/
structure OnlyValue {α} (r : R α) : Prop where
  h : ∀ e, r = .error e → e = .value

namespace OnlyValue
universe u
variable {α β : Type u}

theorem ok (a : α) : OnlyValue (Except.ok a : R α) := ⟨fun _ h => by cases h⟩
theorem pure (a : α) : OnlyValue (Pure.pure a : R α) := ⟨fun _ h => by cases h⟩
theorem error : OnlyValue (Except.error .value : R α) := ⟨fun _ h => by cases h; rfl⟩
theorem throw : OnlyValue (MonadExcept.throw Err.value : R α) := ⟨fun _ h => by cases h; rfl⟩

theorem bind {x : R α} {f : α → R β} (hx : OnlyValue x) (hf : ∀ a, x = .ok a → OnlyValue (f a)) :
    OnlyValue (x >>= f) := by
  cases x with
  | error e => exact ⟨fun e' h => by cases h; exact hx.h e rfl⟩
  | ok a => exact hf a rfl

theorem ite {c : Prop} [Decidable c] {a b : R α} (ha : c → OnlyValue a) (hb : ¬ c → OnlyValue b) :
    OnlyValue (if c then a else b) := by
  by_cases h : c
  · rw [if_pos h]; exact ha h
  · rw [if_neg h]; exact hb h

theorem map {x : R α} (f : α → β) (hx : OnlyValue x) : OnlyValue (f <$> x) := by
  cases x with
  | error e => exact ⟨fun e' h => by cases h; exact hx.h e rfl⟩
  | ok a => exact ⟨fun _ h => by cases h⟩

/-- `except XChecksumError: raise ValueError` closes the `{value, checksum}` family to `value`. -/
theorem ckToValue {r : R α} (h : ∀ e, r = .error e → e = .value ∨ e = .checksum) :
    OnlyValue (ckToValue r) := by
  constructor
  intro e he
  unfold Model.ckToValue at he
  split at he
  · cases he; rfl
  · rename_i r' hne
    rcases h e he with h | h
    · exact h
    · subst h; exact absurd he (by intro h'; exact hne h')

theorem ckToValue' {r : R α} (h : OnlyValue r) : OnlyValue (Model.ckToValue r) :=
  ckToValue (fun e he => Or.inl (h.h e he))

end OnlyValue

theorem ckToValue_ok {α} (a : α) : ckToValue (Except.ok a : R α) = .ok a := rfl

theorem ckToValue_ok_inv {α} {r : R α} {a : α} (h : ckToValue r = .ok a) : r = .ok a := by
  unfold ckToValue at h
  split at h
  · cases h
  · exact h

theorem ckToValue_checksum {α} : ckToValue (Except.error .checksum : R α) = .error .value := rfl

/-- no `checksum` error escapes `ckToValue` -/
theorem ckToValue_ne_checksum {α} (r : R α) : ckToValue r ≠ .error .checksum := by
  unfold ckToValue
  split
  · intro h; cases h
  · rename_i hne; exact hne

/-! ### the shared combinators -/

theorem validateLength_ok {α} (a : List α) (n : Nat) (h : a.length = n) :
    validateLength a n = .ok () := by
  unfold validateLength; rw [if_neg (by simpa using h)]; rfl

theorem validateLength_ok_iff {α} (a : List α) (n : Nat) :
    validateLength a n = .ok () ↔ a.length = n := by
  constructor
  · intro h
    unfold validateLength at h
    by_cases hl : a.length = n
    · exact hl
    · rw [if_pos hl] at h; cases h
  · exact validateLength_ok a n

theorem validateLength_error {α} (a : List α) (n : Nat) (h : a.length ≠ n) :
    validateLength a n = .error .value := by
  unfold validateLength; rw [if_pos h]; rfl

theorem OnlyValue.validateLength {α} (a : List α) (n : Nat) : OnlyValue (validateLength a n) := by
  unfold Model.validateLength; apply OnlyValue.ite <;> intro _ <;> first | exact .throw | exact .pure _

theorem removePrefix_append {α} [DecidableEq α] (pfx x : List α) :
    removePrefix (pfx ++ x) pfx = .ok x := by
  unfold removePrefix
  rw [if_neg (by simp)]
  simp [pure, Except.pure]

theorem removePrefix_ok_inv {α} [DecidableEq α] {a pfx x : List α}
    (h : removePrefix a pfx = .ok x) : a = pfx ++ x := by
  unfold removePrefix at h
  by_cases hp : a.take pfx.length = pfx
  · rw [if_neg (by simpa using hp)] at h
    have : x = a.drop pfx.length := by cases h; rfl
    rw [this]
    conv_lhs => rw [← List.take_append_drop pfx.length a, hp]
  · rw [if_pos hp] at h; cases h

theorem removePrefix_nil {α} [DecidableEq α] (a : List α) : removePrefix a [] = .ok a := by
  simpa using removePrefix_append ([] : List α) a

theorem OnlyValue.removePrefix {α} [DecidableEq α] (a pfx : List α) :
    OnlyValue (removePrefix a pfx) := by
  unfold Model.removePrefix; apply OnlyValue.ite <;> intro _ <;> first | exact .throw | exact .pure _

theorem splitCkEnd_append {α} (a b : List α) (n : Nat) (h : b.length = n) :
    splitCkEnd (a ++ b) n = (a, b) := by
  unfold splitCkEnd
  rw [dropLast_append_of_length a b n h, takeLast_append_of_length a b n h]

theorem splitCkEnd_fst {α} (a : List α) (n : Nat) : (splitCkEnd a n).1 = dropLast a n := rfl
theorem splitCkEnd_snd {α} (a : List α) (n : Nat) : (splitCkEnd a n).2 = takeLast a n := rfl

theorem dropLast_length {α} (l : List α) (k : Nat) : (dropLast l k).length = l.length - k := by
  unfold dropLast; rw [List.length_take]; omega

theorem takeLast_length {α} (l : List α) (k : Nat) : (takeLast l k).length = min k l.length := by
  unfold takeLast; rw [List.length_drop]; omega

theorem takeLast_length_of_le {α} (l : List α) (k : Nat) (h : k ≤ l.length) :
    (takeLast l k).length = k := by
  rw [takeLast_length]; omega

theorem ne_nil_of_length_pos {α} {l : List α} {n : Nat} (h : l.length = n) (hn : 0 < n) : l ≠ [] := by
  intro e; rw [e] at h; simp at h; omega

/-! ### hex -/

theorem bytesOfHex_hexOfBytes (b : Bytes) : bytesOfHex (hexOfBytes b) = .ok b := by
  unfold bytesOfHex hexOfBytes
  have := ofHex_toHex b
  unfold Bytes.ofHex at this
  rw [this]; rfl

theorem hexOfBytes_length (b : Bytes) : (hexOfBytes b).length = 2 * b.length := toHex_length b

theorem OnlyValue.bytesOfHex (s : List Char) : OnlyValue (bytesOfHex s) := by
  unfold Model.bytesOfHex
  cases Bytes.ofHexChars s with
  | none => exact .throw
  | some b => exact .pure _

theorem hexOfBytes_eq (b : Bytes) : hexOfBytes b =
    b.flatMap fun x => [Bytes.hexDigit (x.toNat / 16), Bytes.hexDigit (x.toNat % 16)] := by
  unfold hexOfBytes Bytes.toHex; rw [String.toList_ofList]

theorem hexOfBytes_append (a b : Bytes) : hexOfBytes (a ++ b) = hexOfBytes a ++ hexOfBytes b := by
  simp [hexOfBytes_eq]

theorem hexOfBytes_drop (b : Bytes) (n : Nat) : (hexOfBytes b).drop (2 * n) = hexOfBytes (b.drop n) := by
  induction b generalizing n with
  | nil => simp [hexOfBytes_eq]
  | cons a t ih =>
    cases n with
    | zero => simp
    | succ n =>
      have : hexOfBytes (a :: t) = [Bytes.hexDigit (a.toNat / 16), Bytes.hexDigit (a.toNat % 16)]
          ++ hexOfBytes t := by simp [hexOfBytes_eq]
      rw [this, show 2 * (n + 1) = 2 + 2 * n by omega]
      simp only [List.drop_succ_cons, List.cons_append, List.nil_append]
      rw [show (2 : Nat) + 2 * n = (2 * n + 1) + 1 by omega]
      simp only [List.drop_succ_cons]
      exact ih n

/-- a successful hex parse of an even-length text has half its length -/
theorem ofHexChars_length : ∀ (s : List Char) (b : Bytes), Bytes.ofHexChars s = some b →
    s.length = 2 * b.length
  | [], b, h => by
    have : b = [] := by simpa [Bytes.ofHexChars] using h.symm
    subst this; rfl
  | [_], b, h => by simp [Bytes.ofHexChars] at h
  | x :: y :: rest, b, h => by
    unfold Bytes.ofHexChars at h
    cases hx : Bytes.hexVal x with
    | none => simp [hx] at h
    | some vx =>
      cases hy : Bytes.hexVal y with
      | none => simp [hx, hy] at h
      | some vy =>
        cases hr : Bytes.ofHexChars rest with
        | none => simp [hx, hy, hr] at h
        | some r =>
          simp only [hx, hy, hr, Option.bind_eq_bind, Option.bind_some, Option.pure_def,
            Option.some.injEq] at h
          subst h
          have := ofHexChars_length rest r hr
          simp only [List.length_cons]; omega

theorem bytesOfHex_length {s : List Char} {b : Bytes} (h : bytesOfHex s = .ok b) :
    s.length = 2 * b.length := by
  unfold bytesOfHex at h
  cases hs : Bytes.ofHexChars s with
  | none => rw [hs] at h; cases h
  | some r =>
    rw [hs] at h
    have : r = b := by cases h; rfl
    subst this
    exact ofHexChars_length s r hs

/-! ### the key layer -/

theorem addrKey_ok_iff (c : CurveT) (pub k : Bytes) :
    addrKey c pub = .ok k ↔ pubFromBytes c pub = some k := by
  unfold addrKey
  cases pubFromBytes c pub with
  | none => constructor <;> intro h <;> cases h
  | some k' =>
    constructor
    · intro h; cases h; rfl
    · intro h; cases h; rfl

theorem OnlyValue.addrKey (c : CurveT) (pub : Bytes) : OnlyValue (addrKey c pub) := by
  unfold Model.addrKey
  cases pubFromBytes c pub with
  | none => exact .throw
  | some b => exact .pure _

theorem OnlyValue.uncompressedOf (c : CurveT) (k : Bytes) : OnlyValue (uncompressedOf c k) := by
  unfold Model.uncompressedOf
  cases pubUncompressed c k with
  | none => exact .throw
  | some b => exact .pure _

theorem OnlyValue.validatePubKey (c : CurveT) (k : Bytes) : OnlyValue (validatePubKey c k) := by
  unfold Model.validatePubKey; apply OnlyValue.ite <;> intro _ <;> first | exact .throw | exact .pure _

theorem validatePubKey_ok (c : CurveT) (k : Bytes) (h : pubValid c k = true) :
    validatePubKey c k = .ok () := by
  unfold validatePubKey; rw [if_pos h]; rfl

theorem validatePubKey_ok_iff (c : CurveT) (k : Bytes) :
    validatePubKey c k = .ok () ↔ pubValid c k = true := by
  constructor
  · intro h
    unfold validatePubKey at h
    by_cases hv : pubValid c k = true
    · exact hv
    · rw [if_neg hv] at h; cases h
  · exact validatePubKey_ok c k

theorem pubValid_of_some {c : CurveT} {b k : Bytes} (h : pubFromBytes c b = some k) :
    pubValid c b = true := by
  unfold pubValid; rw [h]; rfl

/-- **Key-layer hypothesis (ECDSA curves)** — "canonical keys re-validate": the canonical
compressed encoding returned by `PublicKey.FromBytes` is itself accepted and is its own canonical
form.  This is `decode ∘ compress = id` on curve points, i.e. curve arithmetic (a modular square
root); it is exercised by the differential tests (C12) and is an explicit hypothesis, not a
theorem, wherever a decoder re-validates a secp256k1 / nist256p1 key (EOS, Ergo). -/
def KeyCanon (c : CurveT) : Prop :=
  ∀ pub k, pubFromBytes c pub = some k → pubFromBytes c k = some k

theorem coordLen_secp : (CurveT.secp256k1).wcurve.coordLen = 32 := by decide
theorem coordLen_nist : (CurveT.nist256p1).wcurve.coordLen = 32 := by decide

theorem compress_length (c : WCurve) (p : WPoint) (k : Bytes) (h : c.compress p = some k) :
    k.length = c.coordLen + 1 := by
  cases p with
  | inf => cases h
  | aff x y =>
    simp only [WCurve.compress, Option.some.injEq] at h
    subst h
    simp [length_ofNatBE]

theorem uncompressed_length (c : WCurve) (p : WPoint) (k : Bytes) (h : c.uncompressed p = some k) :
    k.length = 2 * c.coordLen + 1 := by
  cases p with
  | inf => cases h
  | aff x y =>
    simp only [WCurve.uncompressed, Option.some.injEq] at h
    subst h
    simp [length_ofNatBE]; omega

/-- canonical ECDSA keys are 33 bytes long -/
theorem addrKey_secp_length {pub k : Bytes} (h : addrKey .secp256k1 pub = .ok k) : k.length = 33 := by
  rw [addrKey_ok_iff] at h
  unfold pubFromBytes at h
  simp only at h
  cases hd : wDecodePub .secp256k1 pub with
  | none => rw [hd] at h; cases h
  | some p =>
    rw [hd] at h
    have := compress_length _ p k h
    rw [coordLen_secp] at this; exact this

theorem addrKey_nist_length {pub k : Bytes} (h : addrKey .nist256p1 pub = .ok k) : k.length = 33 := by
  rw [addrKey_ok_iff] at h
  unfold pubFromBytes at h
  simp only at h
  cases hd : wDecodePub .nist256p1 pub with
  | none => rw [hd] at h; cases h
  | some p =>
    rw [hd] at h
    have := compress_length _ p k h
    rw [coordLen_nist] at this; exact this

/-- uncompressed secp256k1 keys are 65 bytes long -/
theorem uncompressedOf_secp_length {k u : Bytes} (h : uncompressedOf .secp256k1 k = .ok u) :
    u.length = 65 := by
  unfold uncompressedOf at h
  cases hp : pubUncompressed .secp256k1 k with
  | none => rw [hp] at h; cases h
  | some u' =>
    rw [hp] at h
    have : u' = u := by cases h; rfl
    subst this
    unfold pubUncompressed at hp
    simp only at hp
    cases hd : (CurveT.secp256k1).wcurve.decode k with
    | none => rw [hd] at hp; cases hp
    | some p =>
      rw [hd] at hp
      have := uncompressed_length _ p u' hp
      rw [coordLen_secp] at this; exact this

/-- the ed25519 flavours with the library's `0x00` prefix -/
def CurveT.isEdPrefixed : CurveT → Bool
  | .ed25519 | .ed25519Blake2b | .ed25519Kholaw => true
  | _ => false

theorem edStripPrefix_of_length_32 (b : Bytes) (h : b.length = 32) : edStripPrefix b = b := by
  unfold edStripPrefix; simp [h]

/-- **ed25519 canonical keys** (proved, no hypothesis): the canonical key is `0x00 ‖ k32`, it is
33 bytes long, and the bare 32-byte form `k.drop 1` is accepted with the same canonical key. -/
theorem addrKey_ed_inv {c : CurveT} (hc : c.isEdPrefixed = true) {pub k : Bytes}
    (h : addrKey c pub = .ok k) :
    k.length = 33 ∧ (k.drop 1).length = 32 ∧ k = 0 :: k.drop 1 ∧
      pubFromBytes c (k.drop 1) = some k ∧ pubValid c (k.drop 1) = true := by
  rw [addrKey_ok_iff] at h
  have key : ∀ (k32 : Bytes), edBytesOnCurve k32 = some true → k32.length = 32 → k = 0 :: k32 →
      (∀ b, pubFromBytes c b =
        if (edBytesOnCurve (edStripPrefix b) = some true && (edStripPrefix b).length = 32) = true
        then some (0 :: edStripPrefix b) else none) →
      k.length = 33 ∧ (k.drop 1).length = 32 ∧ k = 0 :: k.drop 1 ∧
        pubFromBytes c (k.drop 1) = some k ∧ pubValid c (k.drop 1) = true := by
    intro k32 hon hlen hk hdef
    subst hk
    have hp : pubFromBytes c k32 = some (0 :: k32) := by
      rw [hdef, edStripPrefix_of_length_32 k32 hlen]
      simp [hon, hlen]
    refine ⟨by simp [hlen], by simpa using hlen, by simp, by simpa using hp, ?_⟩
    simp only [List.drop_succ_cons, List.drop_zero]
    exact pubValid_of_some hp
  have hgen : ∀ b, pubFromBytes c b =
        if (edBytesOnCurve (edStripPrefix b) = some true && (edStripPrefix b).length = 32) = true
        then some (0 :: edStripPrefix b) else none := by
    intro b
    cases c <;> first | (exact absurd hc (by decide)) | rfl
  rw [hgen pub] at h
  split at h
  · rename_i hcond
    simp only [Bool.and_eq_true, decide_eq_true_eq] at hcond
    have hk : k = 0 :: edStripPrefix pub := by cases h; rfl
    exact key _ hcond.1 hcond.2 hk hgen
  · cases h

/-- **Monero keys** (proved): the canonical key is the bare 32-byte string and re-validates. -/
theorem addrKey_monero_inv {pub k : Bytes} (h : addrKey .ed25519Monero pub = .ok k) :
    k.length = 32 ∧ pubFromBytes .ed25519Monero k = some k ∧ pubValid .ed25519Monero k = true := by
  rw [addrKey_ok_iff] at h
  have hgen : ∀ b, pubFromBytes .ed25519Monero b =
        if (edBytesOnCurve (edStripPrefix b) = some true && (edStripPrefix b).length = 32) = true
        then some (edStripPrefix b) else none := fun _ => rfl
  rw [hgen pub] at h
  split at h
  · rename_i hcond
    simp only [Bool.and_eq_true, decide_eq_true_eq] at hcond
    have hk : k = edStripPrefix pub := by cases h; rfl
    have hp : pubFromBytes .ed25519Monero k = some k := by
      rw [hgen, edStripPrefix_of_length_32 k (by rw [hk]; exact hcond.2)]
      rw [hk]; simp [hcond.1, hcond.2]
    exact ⟨by rw [hk]; exact hcond.2, hp, pubValid_of_some hp⟩
  · cases h

/-! ### Base58 error kinds -/

theorem OnlyValue.alphaIndex (alph : List Char) (c : Char) : OnlyValue (alphaIndex alph c) := by
  unfold Model.alphaIndex
  cases alph.idxOf? c with
  | none => exact .throw
  | some b => exact .pure _

theorem OnlyValue.b58Decode (alph : List Char) (s : List Char) : OnlyValue (b58Decode alph s) :=
  ⟨fun _ h => b58Decode_error h⟩

theorem b58CheckDecode_errors (H : Bytes → Bytes) (alph s : List Char) {e : Err}
    (h : b58CheckDecode H alph s = .error e) : e = .value ∨ e = .checksum := by
  unfold b58CheckDecode at h
  cases hd : Model.b58Decode alph s with
  | error e' =>
    rw [hd] at h; cases h; exact Or.inl (b58Decode_error hd)
  | ok dec =>
    rw [hd] at h
    simp only [bind, Except.bind, pure, Except.pure] at h
    split at h
    · cases h; exact Or.inr rfl
    · cases h

theorem OnlyValue.b58Check (H : Bytes → Bytes) (alph s : List Char) :
    OnlyValue (Model.ckToValue (b58CheckDecode H alph s)) :=
  OnlyValue.ckToValue (fun _ h => b58CheckDecode_errors H alph s h)

theorem OnlyValue.mapM {α β} {f : α → R β} (hf : ∀ a, OnlyValue (f a)) (l : List α) :
    OnlyValue (l.mapM f) :=
  ⟨fun _ h => mapM_error_of (P := fun e => e = .value) (fun a e he => (hf a).h e he) l h⟩

/-! ### the `ov` tactic: structural proof of `OnlyValue (do …)` -/

/-- leaves: the combinators and codecs whose only error is `ValueError` -/
syntax "ov_leaf" : tactic
macro_rules | `(tactic| ov_leaf) => `(tactic| first
  | exact OnlyValue.pure _
  | exact OnlyValue.throw
  | exact OnlyValue.ok _
  | exact OnlyValue.error
  | exact OnlyValue.validateLength _ _
  | exact OnlyValue.removePrefix _ _
  | exact OnlyValue.validatePubKey _ _
  | exact OnlyValue.bytesOfHex _
  | exact OnlyValue.addrKey _ _
  | exact OnlyValue.uncompressedOf _ _
  | exact OnlyValue.b58Decode _ _
  | exact OnlyValue.b58Check _ _ _
  | assumption)

syntax "ov_step" : tactic
macro_rules | `(tactic| ov_step) => `(tactic| first
  | ov_leaf
  | apply OnlyValue.bind
  | apply OnlyValue.ite
  | intro _
  | split
  | (dsimp only))

/-- decompose a `do` block into its leaves; what is left are the calls that need a side argument
(`pyIdx`, codecs with their own lemma). -/
macro "ov" : tactic => `(tactic| repeat (any_goals ov_step))

theorem OnlyValue.pyIdx_zero {α} {l : List α} (h : l ≠ []) : OnlyValue (pyIdx l 0) := by
  cases l with
  | nil => exact absurd rfl h
  | cons a t => exact .pure _

end BipVerif.Model
