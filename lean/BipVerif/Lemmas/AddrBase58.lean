/-
Address formats of the Base58 family: P2PKH (Bitcoin alphabet and the Ripple alphabet), P2SH,
Tezos, Neo, EOS, Ergo, Solana.  For each: what the encoder outputs (`…Encode_ok_inv`), that the
decoder accepts the canonical text of a payload (`…Decode_canon`), the round trip, and the error
kinds.
-/
import BipVerif.Lemmas.Addr
import BipVerif.Lemmas.Bech32

namespace BipVerif.Model
open BipVerif BipVerif.Prim

theorem hash160_length (b : Bytes) : (hash160 b).length = 20 := ripemd160_length _

theorem sha256d_ge4 : ∀ x, 4 ≤ (sha256d x).length := fun x => by rw [sha256d_length]; omega

theorem pure_ok_inv {α} {a b : α} (h : (pure a : R α) = .ok b) : a = b := by cases h; rfl

/-! ### P2PKH / P2SH (Base58Check of `netVer ‖ 20-byte hash`) -/

/-- the decoder accepts the Base58Check text of `netVer ‖ h` for every 20-byte `h`. -/
theorem p2pkhDecode_canon (nv : Bytes) (alph : List Char) (hn : alph.Nodup) (hl : alph.length = 58)
    (h : Bytes) (hh : h.length = 20) :
    p2pkhDecode nv alph (b58CheckEncode sha256d alph (nv ++ h)) = .ok h := by
  unfold p2pkhDecode
  rw [b58Check_decode_encode sha256d sha256d_ge4 alph hn hl, ckToValue_ok]
  simp only [bind, Except.bind]
  rw [validateLength_ok _ _ (by simp [hh]; omega)]
  exact removePrefix_append nv h

theorem p2pkhEncode_ok_inv {nv : Bytes} {alph : List Char} {compressed : Bool} {pub : Bytes}
    {addr : List Char} (h : p2pkhEncode nv alph compressed pub = .ok addr) :
    ∃ k kb, addrKey .secp256k1 pub = .ok k ∧
      (if compressed then kb = k else uncompressedOf .secp256k1 k = .ok kb) ∧
      addr = b58CheckEncode sha256d alph (nv ++ hash160 kb) := by
  unfold p2pkhEncode at h
  obtain ⟨k, hk, h⟩ := bind_ok_inv h
  cases compressed with
  | true =>
    simp only [if_true] at h
    obtain ⟨kb, hkb, h⟩ := bind_ok_inv h
    exact ⟨k, kb, hk, by simpa using (pure_ok_inv hkb).symm, (pure_ok_inv h).symm⟩
  | false =>
    simp only [Bool.false_eq_true, if_false] at h
    obtain ⟨kb, hkb, h⟩ := bind_ok_inv h
    exact ⟨k, kb, hk, by simpa using hkb, (pure_ok_inv h).symm⟩

theorem p2pkh_decode_encode (nv : Bytes) (alph : List Char) (hn : alph.Nodup)
    (hl : alph.length = 58) (compressed : Bool) (pub : Bytes) (addr : List Char)
    (h : p2pkhEncode nv alph compressed pub = .ok addr) :
    ∃ k kb, addrKey .secp256k1 pub = .ok k ∧
      (if compressed then kb = k else uncompressedOf .secp256k1 k = .ok kb) ∧
      p2pkhDecode nv alph addr = .ok (hash160 kb) := by
  obtain ⟨k, kb, hk, hkb, rfl⟩ := p2pkhEncode_ok_inv h
  exact ⟨k, kb, hk, hkb, p2pkhDecode_canon nv alph hn hl _ (hash160_length _)⟩

theorem p2pkhEncode_ov (nv : Bytes) (alph : List Char) (compressed : Bool) (pub : Bytes) :
    OnlyValue (p2pkhEncode nv alph compressed pub) := by
  unfold p2pkhEncode; ov

theorem p2pkhDecode_ov (nv : Bytes) (alph addr : List Char) : OnlyValue (p2pkhDecode nv alph addr) := by
  unfold p2pkhDecode; ov

theorem p2shEncode_ok_inv {nv pub : Bytes} {addr : List Char} (h : p2shEncode nv pub = .ok addr) :
    ∃ k, addrKey .secp256k1 pub = .ok k ∧
      addr = b58CheckEncode sha256d btcAlphabet (nv ++ p2shScriptHash k) := by
  unfold p2shEncode at h
  obtain ⟨k, hk, h⟩ := bind_ok_inv h
  exact ⟨k, hk, (pure_ok_inv h).symm⟩

theorem p2shScriptHash_length (k : Bytes) : (p2shScriptHash k).length = 20 := hash160_length _

theorem p2sh_decode_encode (nv pub : Bytes) (addr : List Char) (h : p2shEncode nv pub = .ok addr) :
    ∃ k, addrKey .secp256k1 pub = .ok k ∧
      p2pkhDecode nv btcAlphabet addr = .ok (p2shScriptHash k) := by
  obtain ⟨k, hk, rfl⟩ := p2shEncode_ok_inv h
  exact ⟨k, hk, p2pkhDecode_canon nv _ btcAlphabet_nodup btcAlphabet_length _ (p2shScriptHash_length k)⟩

theorem p2shEncode_ov (nv pub : Bytes) : OnlyValue (p2shEncode nv pub) := by
  unfold p2shEncode; ov

/-! ### Tezos -/

theorem xtzDecode_canon (pfx h : Bytes) (hh : h.length = 20) :
    xtzDecode pfx (b58CheckEncode sha256d btcAlphabet (pfx ++ h)) = .ok h := by
  unfold xtzDecode
  rw [b58Check_decode_encode sha256d sha256d_ge4 _ btcAlphabet_nodup btcAlphabet_length,
    ckToValue_ok]
  simp only [bind, Except.bind]
  rw [validateLength_ok _ _ (by simp [hh])]
  exact removePrefix_append pfx h

theorem xtzEncode_ok_inv {pfx pub : Bytes} {addr : List Char} (h : xtzEncode pfx pub = .ok addr) :
    ∃ k, addrKey .ed25519 pub = .ok k ∧
      addr = b58CheckEncode sha256d btcAlphabet (pfx ++ blake2b160 (k.drop 1)) := by
  unfold xtzEncode at h
  obtain ⟨k, hk, h⟩ := bind_ok_inv h
  exact ⟨k, hk, (pure_ok_inv h).symm⟩

theorem xtz_decode_encode (pfx pub : Bytes) (addr : List Char) (h : xtzEncode pfx pub = .ok addr) :
    ∃ k, addrKey .ed25519 pub = .ok k ∧ xtzDecode pfx addr = .ok (blake2b160 (k.drop 1)) := by
  obtain ⟨k, hk, rfl⟩ := xtzEncode_ok_inv h
  exact ⟨k, hk, xtzDecode_canon pfx _ (blake2b160_length _)⟩

theorem xtzEncode_ov (pfx pub : Bytes) : OnlyValue (xtzEncode pfx pub) := by unfold xtzEncode; ov
theorem xtzDecode_ov (pfx : Bytes) (addr : List Char) : OnlyValue (xtzDecode pfx addr) := by
  unfold xtzDecode; ov

/-! ### Neo (one-byte version) -/

theorem neoDecode_canon (v : UInt8) (h : Bytes) (hh : h.length = 20) :
    neoDecode [v] (b58CheckEncode sha256d btcAlphabet ([v] ++ h)) = .ok h := by
  unfold neoDecode
  rw [b58Check_decode_encode sha256d sha256d_ge4 _ btcAlphabet_nodup btcAlphabet_length,
    ckToValue_ok]
  simp only [bind, Except.bind]
  rw [validateLength_ok _ _ (by simp [hh])]
  simp only [pyIdx, List.singleton_append, List.getElem?_cons_zero, pure, Except.pure,
    toBytesAuto_byte, ne_eq, not_true_eq_false, if_false, List.drop_succ_cons, List.drop_zero]

theorem neoEncode_ok_inv {ver pfx sfx pub : Bytes} {addr : List Char}
    (h : neoEncode ver pfx sfx pub = .ok addr) :
    ∃ k, addrKey .nist256p1 pub = .ok k ∧
      addr = b58CheckEncode sha256d btcAlphabet (ver ++ hash160 (pfx ++ k ++ sfx)) := by
  unfold neoEncode at h
  obtain ⟨k, hk, h⟩ := bind_ok_inv h
  exact ⟨k, hk, (pure_ok_inv h).symm⟩

theorem neo_decode_encode (v : UInt8) (pfx sfx pub : Bytes) (addr : List Char)
    (h : neoEncode [v] pfx sfx pub = .ok addr) :
    ∃ k, addrKey .nist256p1 pub = .ok k ∧ neoDecode [v] addr = .ok (hash160 (pfx ++ k ++ sfx)) := by
  obtain ⟨k, hk, rfl⟩ := neoEncode_ok_inv h
  exact ⟨k, hk, neoDecode_canon v _ (hash160_length _)⟩

theorem neoEncode_ov (ver pfx sfx pub : Bytes) : OnlyValue (neoEncode ver pfx sfx pub) := by
  unfold neoEncode; ov

/-- `dec[0]` is guarded by the length check (`20 + len(ver) ≥ 1`): no `IndexError`. -/
theorem neoDecode_ov (ver : Bytes) (addr : List Char) : OnlyValue (neoDecode ver addr) := by
  unfold neoDecode
  apply OnlyValue.bind (OnlyValue.b58Check _ _ _)
  intro dec _
  apply OnlyValue.bind (OnlyValue.validateLength _ _)
  intro _ hlen
  rw [validateLength_ok_iff] at hlen
  cases dec with
  | nil => simp only [List.length_nil] at hlen; omega
  | cons a t =>
    simp only [pyIdx, List.getElem?_cons_zero]
    ov

/-! ### EOS -/

theorem eosDecode_canon (pfx : List Char) (k : Bytes) (hk : k.length = 33)
    (hv : pubValid .secp256k1 k = true) :
    eosDecode pfx (pfx ++ b58Encode btcAlphabet (k ++ (ripemd160 k).take 4)) = .ok k := by
  unfold eosDecode
  have hck : ((ripemd160 k).take 4).length = 4 := by rw [List.length_take, ripemd160_length]; rfl
  rw [removePrefix_append]
  simp only [bind, Except.bind]
  rw [b58_decode_encode _ btcAlphabet_nodup btcAlphabet_length]
  simp only
  rw [validateLength_ok _ _ (by simp [hk, hck])]
  simp only [splitCkEnd_append _ _ 4 hck, ne_eq, not_true_eq_false, if_false,
    validatePubKey_ok _ _ hv, pure, Except.pure]

theorem eosEncode_ok_inv {pfx : List Char} {pub : Bytes} {addr : List Char}
    (h : eosEncode pfx pub = .ok addr) :
    ∃ k, addrKey .secp256k1 pub = .ok k ∧
      addr = pfx ++ b58Encode btcAlphabet (k ++ (ripemd160 k).take 4) := by
  unfold eosEncode at h
  obtain ⟨k, hk, h⟩ := bind_ok_inv h
  exact ⟨k, hk, (pure_ok_inv h).symm⟩

/-- EOS round trip; the decoder re-validates the key, hence `KeyCanon`. -/
theorem eos_decode_encode (hK : KeyCanon .secp256k1) (pfx : List Char) (pub : Bytes)
    (addr : List Char) (h : eosEncode pfx pub = .ok addr) :
    ∃ k, addrKey .secp256k1 pub = .ok k ∧ eosDecode pfx addr = .ok k := by
  obtain ⟨k, hk, rfl⟩ := eosEncode_ok_inv h
  refine ⟨k, hk, eosDecode_canon pfx k (addrKey_secp_length hk) ?_⟩
  exact pubValid_of_some (hK pub k ((addrKey_ok_iff _ _ _).mp hk))

theorem eosEncode_ov (pfx : List Char) (pub : Bytes) : OnlyValue (eosEncode pfx pub) := by
  unfold eosEncode; ov
theorem eosDecode_ov (pfx addr : List Char) : OnlyValue (eosDecode pfx addr) := by
  unfold eosDecode; ov

/-! ### Ergo -/

theorem ergoDecode_canon (netType : Nat) (hnt : 1 + netType < 256) (k : Bytes) (hk : k.length = 33)
    (hv : pubValid .secp256k1 k = true) :
    ergoDecode netType (b58Encode btcAlphabet
      ((toBytesAuto (1 + netType) ++ k) ++ (blake2b256 (toBytesAuto (1 + netType) ++ k)).take 4))
      = .ok k := by
  unfold ergoDecode
  set p := toBytesAuto (1 + netType) ++ k with hp
  have hpl : (toBytesAuto (1 + netType)).length = 1 := by
    rw [toBytesAuto_of_lt_256 hnt]; rfl
  have hck : ((blake2b256 p).take 4).length = 4 := by
    rw [List.length_take, blake2b256_length]; rfl
  simp only [bind, Except.bind]
  rw [b58_decode_encode _ btcAlphabet_nodup btcAlphabet_length]
  simp only
  rw [validateLength_ok _ _ (by rw [List.length_append, hck, hp, List.length_append, hpl, hk])]
  simp only [splitCkEnd_append _ _ 4 hck, ne_eq, not_true_eq_false, if_false]
  rw [hp, removePrefix_append]
  simp only [validatePubKey_ok _ _ hv, pure, Except.pure]

theorem ergoEncode_ok_inv {netType : Nat} {pub : Bytes} {addr : List Char}
    (h : ergoEncode netType pub = .ok addr) :
    ∃ k, addrKey .secp256k1 pub = .ok k ∧
      addr = b58Encode btcAlphabet ((toBytesAuto (1 + netType) ++ k) ++
        (blake2b256 (toBytesAuto (1 + netType) ++ k)).take 4) := by
  unfold ergoEncode at h
  obtain ⟨k, hk, h⟩ := bind_ok_inv h
  exact ⟨k, hk, (pure_ok_inv h).symm⟩

/-- Ergo round trip (network types 0 / 16, any `1 + netType < 256`); the decoder re-validates the
key, hence `KeyCanon`. -/
theorem ergo_decode_encode (hK : KeyCanon .secp256k1) (netType : Nat) (hnt : 1 + netType < 256)
    (pub : Bytes) (addr : List Char) (h : ergoEncode netType pub = .ok addr) :
    ∃ k, addrKey .secp256k1 pub = .ok k ∧ ergoDecode netType addr = .ok k := by
  obtain ⟨k, hk, rfl⟩ := ergoEncode_ok_inv h
  refine ⟨k, hk, ergoDecode_canon netType hnt k (addrKey_secp_length hk) ?_⟩
  exact pubValid_of_some (hK pub k ((addrKey_ok_iff _ _ _).mp hk))

theorem ergoEncode_ov (netType : Nat) (pub : Bytes) : OnlyValue (ergoEncode netType pub) := by
  unfold ergoEncode; ov
theorem ergoDecode_ov (netType : Nat) (addr : List Char) : OnlyValue (ergoDecode netType addr) := by
  unfold ergoDecode; ov

/-! ### Solana -/

theorem solDecode_canon (k32 : Bytes) (hk : k32.length = 32) (hv : pubValid .ed25519 k32 = true) :
    solDecode (b58Encode btcAlphabet k32) = .ok k32 := by
  unfold solDecode
  simp only [bind, Except.bind]
  rw [b58_decode_encode _ btcAlphabet_nodup btcAlphabet_length]
  simp only
  rw [validateLength_ok _ _ hk]
  simp only [validatePubKey_ok _ _ hv, pure, Except.pure]

theorem solEncode_ok_inv {pub : Bytes} {addr : List Char} (h : solEncode pub = .ok addr) :
    ∃ k, addrKey .ed25519 pub = .ok k ∧ addr = b58Encode btcAlphabet (k.drop 1) := by
  unfold solEncode at h
  obtain ⟨k, hk, h⟩ := bind_ok_inv h
  exact ⟨k, hk, (pure_ok_inv h).symm⟩

theorem sol_decode_encode (pub : Bytes) (addr : List Char) (h : solEncode pub = .ok addr) :
    ∃ k, addrKey .ed25519 pub = .ok k ∧ solDecode addr = .ok (k.drop 1) := by
  obtain ⟨k, hk, rfl⟩ := solEncode_ok_inv h
  obtain ⟨_, h32, _, _, hv⟩ := addrKey_ed_inv (c := .ed25519) rfl hk
  exact ⟨k, hk, solDecode_canon _ h32 hv⟩

theorem solEncode_ov (pub : Bytes) : OnlyValue (solEncode pub) := by unfold solEncode; ov
theorem solDecode_ov (addr : List Char) : OnlyValue (solDecode addr) := by unfold solDecode; ov

end BipVerif.Model
