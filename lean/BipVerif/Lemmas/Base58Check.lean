/-
Base58 canonicity (every accepted string is the encoding of its decoding) and Base58Check
round trip / soundness, for an arbitrary duplicate-free 58-symbol alphabet and an arbitrary
checksum hash `H`.
-/
import BipVerif.Lemmas.Chunks
import BipVerif.Lemmas.IntBytes
import BipVerif.Lemmas.Base58

namespace BipVerif.Model
open BipVerif

/-! ### what a successful symbol lookup means -/

theorem alphaIndex_ok {alph : List Char} {c : Char} {i : Nat} (h : alphaIndex alph c = .ok i) :
    i < alph.length ∧ alph.getD i 'x' = c := by
  unfold alphaIndex at h
  cases hi : alph.idxOf? c with
  | none => rw [hi] at h; cases h
  | some j =>
    rw [hi] at h
    have hj : j = i := by cases h; rfl
    subst hj
    rw [List.idxOf?, List.findIdx?_eq_some_iff_getElem] at hi
    obtain ⟨hlt, heq, _⟩ := hi
    refine ⟨hlt, ?_⟩
    simp only [beq_iff_eq] at heq
    simp [List.getD_eq_getElem?_getD, hlt, heq]

theorem mapM_alphaIndex_ok {alph : List Char} {s : List Char} {ds : List Nat}
    (h : s.mapM (alphaIndex alph) = .ok ds) :
    s = ds.map (fun d => alph.getD d 'x') ∧ ∀ d ∈ ds, d < alph.length := by
  induction s generalizing ds with
  | nil =>
    have : ds = [] := by cases h; rfl
    subst this; simp
  | cons c t ih =>
    rw [List.mapM_cons] at h
    cases hc : alphaIndex alph c with
    | error e => rw [hc] at h; cases h
    | ok i =>
      cases ht : t.mapM (alphaIndex alph) with
      | error e => rw [hc, ht] at h; cases h
      | ok r =>
        rw [hc, ht] at h
        have hds : ds = i :: r := by cases h; rfl
        subst hds
        obtain ⟨h1, h2⟩ := alphaIndex_ok hc
        obtain ⟨h3, h4⟩ := ih ht
        refine ⟨by rw [List.map_cons, h2, ← h3], ?_⟩
        intro d hd
        rcases List.mem_cons.mp hd with rfl | hd
        · exact h1
        · exact h4 d hd

/-- **Base58 canonicity**: a string accepted by the decoder is exactly the encoding of the
decoded bytes – Base58 has no non-canonical spellings. -/
theorem b58_encode_decode (alph : List Char) (hn : alph.Nodup) (hl : alph.length = 58)
    (s : List Char) (b : Bytes) (h : b58Decode alph s = .ok b) : b58Encode alph b = s := by
  unfold b58Decode at h
  cases hm : s.mapM (alphaIndex alph) with
  | error e => rw [hm] at h; cases h
  | ok ds =>
    rw [hm] at h
    obtain ⟨hs, hlt⟩ := mapM_alphaIndex_ok hm
    -- split the digit string into its leading zeros and the rest
    have hsplit := split_leading (0 : Nat) ds
    set k := leadingCount (0 : Nat) ds with hk
    set r := ds.dropWhile (· == 0) with hr
    have hrhead : r.head? ≠ some 0 := dropWhile_head_ne (0 : Nat) ds
    have hrlt : ∀ d ∈ r, d < 58 := by
      intro d hd; rw [← hl]; apply hlt; rw [hsplit]; exact List.mem_append_right _ hd
    have hs' : s = List.replicate k (alph.getD 0 'x') ++ r.map (fun d => alph.getD d 'x') := by
      rw [hs]; conv_lhs => rw [hsplit]
      simp
    have hpad : leadingCount (alph.getD 0 'x') s = k := by
      rw [hs']
      apply leadingCount_replicate_append
      cases hrr : r with
      | nil => simp
      | cons a t =>
        rw [hrr] at hrhead
        simp only [List.map_cons, List.head?_cons, ne_eq, Option.some.injEq] at hrhead ⊢
        intro he
        apply hrhead
        have ha : a < alph.length := by rw [hl]; exact hrlt a (by simp [hrr])
        exact getD_inj_of_nodup alph hn a 0 ha (by omega) he
    have hv : ofDigitsBE 58 ds = ofDigitsBE 58 r := by
      conv_lhs => rw [hsplit]
      exact ofDigitsBE_zeros_append 58 k r
    have hb : b = List.replicate k 0 ++ natToBytesMin (ofDigitsBE 58 r) := by
      simp only [bind, Except.bind, pure, Except.pure, hpad, hv] at h
      cases h; rfl
    subst hb
    unfold b58Encode
    simp only
    rw [toNatBE_zeros_append, toNatBE_natToBytesMin,
      leadingCount_replicate_append (0 : UInt8) k _ (natToBytesMin_head_ne_zero _),
      digitsBE_ofDigitsBE 58 (by omega) r hrlt hrhead]
    exact hs'.symm

/-- decoding is injective: two strings with the same decoding are equal. -/
theorem b58Decode_inj (alph : List Char) (hn : alph.Nodup) (hl : alph.length = 58)
    (s t : List Char) (b : Bytes) (hs : b58Decode alph s = .ok b) (ht : b58Decode alph t = .ok b) :
    s = t := by
  rw [← b58_encode_decode alph hn hl s b hs, ← b58_encode_decode alph hn hl t b ht]

/-- encoding is injective. -/
theorem b58Encode_inj (alph : List Char) (hn : alph.Nodup) (hl : alph.length = 58)
    (a b : Bytes) (h : b58Encode alph a = b58Encode alph b) : a = b := by
  have h1 := b58_decode_encode alph hn hl a
  rw [h, b58_decode_encode alph hn hl b] at h1
  exact (Except.ok.inj h1).symm

/-! ### Base58Check -/

/-- **Base58Check round trip** for any checksum function producing at least 4 bytes. -/
theorem b58Check_decode_encode (H : Bytes → Bytes) (hH : ∀ x, 4 ≤ (H x).length)
    (alph : List Char) (hn : alph.Nodup) (hl : alph.length = 58) (data : Bytes) :
    b58CheckDecode H alph (b58CheckEncode H alph data) = .ok data := by
  unfold b58CheckDecode b58CheckEncode
  rw [b58_decode_encode alph hn hl]
  have hlen : ((H data).take 4).length = 4 := by
    rw [List.length_take]; have := hH data; omega
  simp only [bind, Except.bind, pure, Except.pure]
  rw [dropLast_append_of_length _ _ 4 hlen, takeLast_append_of_length _ _ 4 hlen]
  simp

/-- **Base58Check soundness / canonicity**: whatever `H` is, an accepted string is the
Base58Check encoding of the returned payload (no hypothesis on the length of the decoded
bytes is needed: when fewer than 4 bytes are decoded, `dec[:-4] = b""` and `dec[-4:] = dec`,
and acceptance forces `dec = H(b"")[:4]`). -/
theorem b58Check_encode_decode (H : Bytes → Bytes)
    (alph : List Char) (hn : alph.Nodup) (hl : alph.length = 58) (s : List Char) (d : Bytes)
    (h : b58CheckDecode H alph s = .ok d) : b58CheckEncode H alph d = s := by
  unfold b58CheckDecode at h
  cases hdec : b58Decode alph s with
  | error e => rw [hdec] at h; cases h
  | ok dec =>
    rw [hdec] at h
    simp only [bind, Except.bind, pure, Except.pure] at h
    by_cases hck : (takeLast dec 4 != (H (dropLast dec 4)).take 4) = true
    · rw [if_pos hck] at h; cases h
    · rw [if_neg hck] at h
      have hd : d = dropLast dec 4 := by cases h; rfl
      have hck' : takeLast dec 4 = (H (dropLast dec 4)).take 4 := by simpa using hck
      unfold b58CheckEncode
      rw [hd, ← hck', dropLast_append_takeLast]
      exact b58_encode_decode alph hn hl s dec hdec

/-- the checksum error is raised exactly when the trailing 4 bytes do not match. -/
theorem b58Check_checksum_error (H : Bytes → Bytes) (alph : List Char) (s : List Char) (dec : Bytes)
    (hdec : b58Decode alph s = .ok dec) (hck : takeLast dec 4 ≠ (H (dropLast dec 4)).take 4) :
    b58CheckDecode H alph s = .error .checksum := by
  unfold b58CheckDecode
  rw [hdec]
  simp only [bind, Except.bind, pure, Except.pure]
  rw [if_pos (by simpa using hck)]
  rfl

theorem btcAlphabet_nodup : btcAlphabet.Nodup := by decide
theorem btcAlphabet_length : btcAlphabet.length = 58 := by decide
theorem xrpAlphabet_nodup : xrpAlphabet.Nodup := by decide
theorem xrpAlphabet_length : xrpAlphabet.length = 58 := by decide

end BipVerif.Model
