/-
The algebraic content of the key-layer laws (`EcdsaLaw`, `EcdsaInfLaw`, `KholawLaw`): they hold in
*every* abstract model in which the public keys form a commutative group, the base point `g` has
order `n` and `pub k = k • g`.  Nothing here refers to the concrete curve arithmetic of `Prim`;
the connection to the model's functions is made through explicit "faithful encoding" hypotheses.
-/
import Mathlib.Algebra.Group.Basic
import Mathlib.Data.ZMod.Basic
import BipVerif.Lemmas.Kholaw

namespace BipVerif.GroupModel
open BipVerif BipVerif.Prim BipVerif.Model

section Abstract
variable {G : Type*} [AddCommGroup G]

/-- `g` generates a cyclic group of order exactly `n` -/
def HasOrder (g : G) (n : ℕ) : Prop := ∀ k : ℕ, k • g = 0 ↔ n ∣ k

/-- public key of the private key `k` -/
def pub (g : G) (k : ℕ) : G := k • g

variable {g : G} {n : ℕ}

/-- scalars may be reduced mod the order -/
theorem mod_nsmul (hord : HasOrder g n) (k : ℕ) : (k % n) • g = k • g := by
  conv_rhs => rw [← Nat.div_add_mod k n, add_nsmul, (hord (n * (k / n))).mpr (Nat.dvd_mul_right _ _),
    zero_add]

/-- **BIP-32 / SLIP-0010**: the child public key computed from the parent *public* key,
`K + il·G`, is the public key of the child *private* key `(k + il) mod n` -/
theorem pub_add_mod (hord : HasOrder g n) (k il : ℕ) : pub g ((k + il) % n) = pub g k + il • g := by
  unfold pub; rw [mod_nsmul hord, add_nsmul]

theorem pub_eq_zero_iff (hord : HasOrder g n) (k : ℕ) : pub g k = 0 ↔ n ∣ k := hord k

/-- the public side meets the point at infinity exactly when the private side meets the zero key -/
theorem zero_key_iff_infinity (hord : HasOrder g n) (k il : ℕ) :
    (k + il) % n = 0 ↔ pub g k + il • g = 0 := by
  rw [← pub_add_mod hord, pub_eq_zero_iff hord]
  constructor
  · intro h; rw [h]; exact Nat.dvd_zero _
  · intro h
    rcases Nat.eq_zero_or_pos n with hn | hn
    · subst hn; exact Nat.eq_zero_of_zero_dvd h
    · exact Nat.eq_zero_of_dvd_of_lt h (Nat.mod_lt _ hn)

theorem nonzero_key_iff_finite (hord : HasOrder g n) (k il : ℕ) :
    (k + il) % n ≠ 0 ↔ pub g k + il • g ≠ 0 :=
  not_congr (zero_key_iff_infinity hord k il)

/-- two private keys have the same public key iff they agree mod `n` -/
theorem pub_eq_iff (hord : HasOrder g n) (a b : ℕ) : pub g a = pub g b ↔ a % n = b % n := by
  wlog hab : a ≤ b generalizing a b
  · rw [eq_comm, this b a (Nat.le_of_not_le hab), eq_comm]
  obtain ⟨d, rfl⟩ := Nat.exists_eq_add_of_le hab
  unfold pub
  rw [add_nsmul, eq_comm, add_eq_left, hord d]
  constructor
  · rintro ⟨q, rfl⟩; rw [Nat.add_mul_mod_self_left]
  · intro h
    have h' := (Nat.modEq_iff_dvd' (Nat.le_add_right a d)).mp h
    simpa using h'

/-- **Electrum v1**: `pub((m + s) mod n) = pub m + s·G` (master key `m`, sequence offset `s`) -/
theorem electrumV1_pub (hord : HasOrder g n) (m s : ℕ) : pub g ((m + s) % n) = pub g m + s • g :=
  pub_add_mod hord m s

/-- **Monero sub-address** spend key `D = B + m·G` is the public key of `(b + m) mod n`, and the
sub-address view key `C = a·D` is the public key of `a·((b + m) mod n) mod n` -/
theorem monero_subaddr (hord : HasOrder g n) (a b m : ℕ) :
    pub g b + m • g = pub g ((b + m) % n) ∧
      a • (pub g b + m • g) = pub g (a * ((b + m) % n) % n) := by
  refine ⟨(pub_add_mod hord b m).symm, ?_⟩
  rw [← pub_add_mod hord b m]
  unfold pub
  rw [mod_nsmul hord (a * ((b + m) % n)), mul_nsmul']

end Abstract

/-! ## the hypotheses are satisfiable: `ZMod n` with generator `1` -/

example (n : ℕ) : HasOrder (1 : ZMod n) n := by
  intro k
  rw [nsmul_eq_mul, mul_one]
  exact ZMod.natCast_eq_zero_iff k n


/-! ## group-backed key layers satisfy the laws -/

section Ecdsa
variable {G : Type*} [AddCommGroup G]

/-- A *faithful group encoding* of the ECDSA key layer of curve `c`: an abstract group with a
generator of order `c.order`, and a partial byte encoding `enc` of group elements (undefined
exactly at the neutral element = point at infinity) with which the three key-layer functions of
the model commute.  Only multiples of `g` are ever mentioned. -/
structure EcdsaGroupModel (c : CurveT) (g : G) (enc : G → Option Bytes) : Prop where
  order : HasOrder g c.order
  /-- the point at infinity has no encoding, every other multiple of `g` has one -/
  enc_none : ∀ k : ℕ, enc (k • g) = none ↔ k • g = 0
  /-- `pubOfPriv` is `k ↦ enc (k·G)` on valid private keys -/
  pub_of_priv : ∀ k : Bytes, privValid c k = true → pubOfPriv c k = enc (Bytes.toNatBE k • g)
  /-- `pubAddMulG` is `(enc X, il) ↦ enc (X + il·G)` -/
  add_mul_g : ∀ (k : ℕ) (P : Bytes) (il : ℕ), enc (k • g) = some P →
    pubAddMulG c P il = enc (k • g + il • g)
  /-- encodings are accepted by the public key class and are canonical -/
  canon : ∀ (k : ℕ) (P : Bytes), enc (k • g) = some P → pubFromBytes c P = some P

variable {c : CurveT} {g : G} {enc : G → Option Bytes}

/-- **C** every faithful group encoding of the key layer satisfies `EcdsaLaw` -/
theorem ecdsaLaw_of_group_model (M : EcdsaGroupModel c g enc) : EcdsaLaw c where
  pub_add := by
    intro k P il k' hv hpub _ hnz hv' hval
    rw [M.pub_of_priv k hv] at hpub
    have hadd := M.add_mul_g _ P il hpub
    have hk' : Bytes.toNatBE k' • g = Bytes.toNatBE k • g + il • g := by
      rw [hval, Nat.add_comm il]; exact pub_add_mod M.order _ _
    rw [M.pub_of_priv k' hv', hk', hadd]
    cases he : enc (Bytes.toNatBE k • g + il • g) with
    | some P' => exact ⟨P', rfl, rfl⟩
    | none =>
      exfalso
      rw [← add_nsmul] at he
      have := (M.enc_none _).mp he
      rw [add_nsmul] at this
      exact hnz (by rw [Nat.add_comm]; exact (zero_key_iff_infinity M.order _ _).mpr this)
  pub_canon := by
    intro k P hv hpub
    rw [M.pub_of_priv k hv] at hpub
    exact M.canon _ P hpub

/-- **C** … and `EcdsaInfLaw`: at a zero sum the public side computes the point at infinity -/
theorem ecdsaInfLaw_of_group_model (M : EcdsaGroupModel c g enc) : EcdsaInfLaw c where
  pub_inf := by
    intro k P il hv hpub _ hz
    rw [M.pub_of_priv k hv] at hpub
    rw [M.add_mul_g _ P il hpub, ← add_nsmul, M.enc_none, add_nsmul]
    exact (zero_key_iff_infinity M.order _ _).mp (by rw [Nat.add_comm]; exact hz)

end Ecdsa

section Kholaw
variable {G : Type*} [AddCommGroup G]

/-- A faithful group model of the Edwards point layer: `pt` maps group elements to the model's
affine points, the base point has order `L`. -/
structure EdGroupModel (B : G) (pt : G → EdPoint) : Prop where
  order : HasOrder B edL
  pt_id : ∀ k : ℕ, pt (k • B) = edIdentity ↔ k • B = 0
  /-- `edMulBase s = s·B` for scalars with bit 255 clear -/
  mul_base : ∀ s : ℕ, s < 2 ^ 255 → edMulBase s = pt (s • B)
  /-- `edAdd` is the group law on multiples of `B` -/
  add : ∀ a b : ℕ, edAdd (pt (a • B)) (pt (b • B)) = pt (a • B + b • B)
  /-- `decode ∘ encode = id` on non-identity multiples of `B` -/
  dec_enc : ∀ k : ℕ, k • B ≠ 0 → edDecodeLenient (edEncode (pt (k • B))) = some (pt (k • B))
  on_curve : ∀ k : ℕ, k • B ≠ 0 → edBytesOnCurve (edEncode (pt (k • B))) = some true

variable {B : G} {pt : G → EdPoint}

/-- **C** every faithful group model of the Edwards layer satisfies `KholawLaw` -/
theorem kholawLaw_of_group_model (M : EdGroupModel B pt) : KholawLaw where
  add_mul := by
    intro a b hab
    rw [M.mul_base a (by omega), M.mul_base b (by omega), M.mul_base _ hab, M.add, add_nsmul]
  mul_id := by
    intro s hs
    rw [M.mul_base s hs, M.pt_id, M.order s]
    exact (Nat.dvd_iff_mod_eq_zero ..)
  dec_enc := by
    intro s hs hne
    rw [M.mul_base s hs] at hne ⊢
    exact M.dec_enc s (fun h => hne ((M.pt_id s).mpr h))
  on_curve := by
    intro s hs hne
    rw [M.mul_base s hs] at hne ⊢
    exact M.on_curve s (fun h => hne ((M.pt_id s).mpr h))

end Kholaw


/-! ## a purely abstract key layer (no reference to `CurveT`), with a concrete instance -/

/-- an abstract key layer: public keys of type `K`, private keys are numbers -/
structure KeyLayer (K : Type*) where
  order : ℕ
  pubOfPriv : ℕ → Option K
  pubAddMulG : K → ℕ → Option K

/-- the abstract form of `EcdsaLaw.pub_add` together with `EcdsaInfLaw.pub_inf` -/
def KeyLayer.Law {K : Type*} (L : KeyLayer K) : Prop :=
  ∀ k P il, L.pubOfPriv k = some P →
    ((il + k) % L.order ≠ 0 →
      ∃ P', L.pubOfPriv ((il + k) % L.order) = some P' ∧ L.pubAddMulG P il = some P') ∧
    ((il + k) % L.order = 0 → L.pubAddMulG P il = none)

/-- the key layer of a group with a distinguished element: keys are the non-zero elements -/
def KeyLayer.ofGroup {G : Type*} [AddCommGroup G] [DecidableEq G] (g : G) (n : ℕ) : KeyLayer G where
  order := n
  pubOfPriv k := if k • g = 0 then none else some (k • g)
  pubAddMulG P il := if P + il • g = 0 then none else some (P + il • g)

/-- **C (abstract)** group-backed key layers satisfy the law -/
theorem KeyLayer.ofGroup_law {G : Type*} [AddCommGroup G] [DecidableEq G] {g : G} {n : ℕ}
    (hord : HasOrder g n) : (KeyLayer.ofGroup g n).Law := by
  intro k P il hP
  simp only [KeyLayer.ofGroup] at hP ⊢
  split at hP
  · cases hP
  · cases hP
    have key : ((il + k) % n) • g = k • g + il • g := by
      rw [Nat.add_comm]; exact pub_add_mod hord k il
    constructor
    · intro hnz
      have hne : k • g + il • g ≠ 0 :=
        (nonzero_key_iff_finite hord k il).mp (by rwa [Nat.add_comm] at hnz)
      rw [key, if_neg hne]
      exact ⟨_, rfl, rfl⟩
    · intro hz
      have hzero : k • g + il • g = 0 :=
        (zero_key_iff_infinity hord k il).mp (by rwa [Nat.add_comm] at hz)
      rw [if_pos hzero]

/-- a concrete instance: `ℤ/n` with generator `1` -/
example (n : ℕ) : (KeyLayer.ofGroup (1 : ZMod n) n).Law :=
  KeyLayer.ofGroup_law (fun k => by
    rw [nsmul_eq_mul, mul_one]; exact ZMod.natCast_eq_zero_iff k n)

end BipVerif.GroupModel
