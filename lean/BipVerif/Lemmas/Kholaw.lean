/-
BIP32-Ed25519 (Khovratovich-Law) child key derivation: lemmas about `BipVerif/Model/Kholaw.lean`.
Public/private commutation for scheme `.kholaw` under an explicit law about the Edwards point
layer (`KholawLaw`); the Byron-legacy scheme is deliberately excluded (finding F-byron-pubder).
-/
import BipVerif.Model.Kholaw
import BipVerif.Lemmas.Slip10

namespace BipVerif.Model
open BipVerif BipVerif.Prim

/-! ## the public-side scalar -/

/-- `8·zl[:28] < 2^227` whatever `zl` is -/
theorem kholaw_scalar_lt (zl : Bytes) : kholawPubScalar .kholaw zl < 2 ^ 227 := by
  unfold kholawPubScalar
  rw [if_neg (by decide)]
  have h1 := toNatLE_lt (zl.take 28)
  have h2 : (zl.take 28).length ≤ 28 := by rw [List.length_take]; exact Nat.min_le_left _ _
  have h3 : 256 ^ (zl.take 28).length ≤ 256 ^ 28 := Nat.pow_le_pow_right (by decide) h2
  have h4 : (256 : Nat) ^ 28 * 8 = 2 ^ 227 := by decide
  omega

/-- hence clearing bit 255 (libsodium's no-clamp multiplication) does not change it -/
theorem kholaw_scalar_mod (zl : Bytes) :
    kholawPubScalar .kholaw zl % 2 ^ 255 = kholawPubScalar .kholaw zl :=
  Nat.mod_eq_of_lt (Nat.lt_trans (kholaw_scalar_lt zl) (by decide))

/-- Byron-legacy: the byte-wise scalar reaches bit 255 … -/
theorem byron_scalar_reaches_bit255 :
    ∃ zl : Bytes, zl.length = 32 ∧ 2 ^ 255 ≤ kholawPubScalar .byronLegacy zl :=
  ⟨List.replicate 31 0 ++ [16], by decide, by decide⟩

/-- … and the scalar the public side then multiplies by (bit 255 cleared) is *not* congruent
mod `L` to the scalar the private side adds: in any group where the base point has order `L` the
two sides produce different points.  (Arithmetic core of F-byron-pubder; no commutation theorem
is claimed for `.byronLegacy`.) -/
theorem byron_scalar_mismatch :
    ∃ zl : Bytes, zl.length = 32 ∧
      (kholawPubScalar .byronLegacy zl % 2 ^ 255) % edL ≠ kholawPubScalar .byronLegacy zl % edL :=
  ⟨List.replicate 31 0 ++ [16], by decide, by decide⟩

/-! ## `kholawChildKey`: case split -/

theorem kholawChildKey_range (nd : Node) (idx : Nat) (h : 2 ^ 32 ≤ idx) :
    kholawChildKey nd idx = .error .value := by
  unfold kholawChildKey
  have : idx > 2 ^ 32 - 1 := by omega
  simp only [this, if_true, bind, Except.bind, throw, throwThe, MonadExceptOf.throw]

theorem kholawChildKey_priv (nd : Node) (idx : Nat) (priv : Bytes) (hi : idx < 2 ^ 32)
    (hp : nd.priv = some priv) :
    kholawChildKey nd idx =
      (kholawCkdPriv nd priv idx >>= fun x =>
        if nd.depth ≥ 255 then .error .value
        else nodeOfPriv nd.curve nd.scheme x.1 (nd.depth + 1) idx x.2 nd.fingerprint) := by
  unfold kholawChildKey
  have : ¬ idx > 2 ^ 32 - 1 := by omega
  simp only [this, if_false, hp, bind, Except.bind]
  cases kholawCkdPriv nd priv idx with
  | error e => rfl
  | ok x => simp only []; split <;> rfl

theorem kholawChildKey_pub (nd : Node) (idx : Nat) (hi : idx < 2 ^ 32)
    (hp : nd.priv = none) (hh : isHardened idx = false) :
    kholawChildKey nd idx =
      (kholawCkdPub nd idx >>= fun x =>
        if nd.depth ≥ 255 then .error .value
        else nodeOfPub nd.curve nd.scheme x.1 (nd.depth + 1) idx x.2 nd.fingerprint) := by
  unfold kholawChildKey
  have : ¬ idx > 2 ^ 32 - 1 := by omega
  simp only [this, if_false, hp, hh, bind, Except.bind]
  cases kholawCkdPub nd idx with
  | error e => rfl
  | ok x => simp only [Bool.false_eq_true, if_false]; split <;> rfl

/-- below the depth limit the guard disappears (the pre-guard form of `kholawChildKey_priv`) -/
theorem kholawChildKey_priv_of_depth_lt (nd : Node) (idx : Nat) (priv : Bytes) (hi : idx < 2 ^ 32)
    (hp : nd.priv = some priv) (hd : nd.depth < 255) :
    kholawChildKey nd idx =
      (kholawCkdPriv nd priv idx >>= fun x =>
        nodeOfPriv nd.curve nd.scheme x.1 (nd.depth + 1) idx x.2 nd.fingerprint) := by
  rw [kholawChildKey_priv nd idx priv hi hp]
  simp only [ge_iff_le, Nat.not_le.mpr hd, if_false]

theorem kholawChildKey_pub_of_depth_lt (nd : Node) (idx : Nat) (hi : idx < 2 ^ 32)
    (hp : nd.priv = none) (hh : isHardened idx = false) (hd : nd.depth < 255) :
    kholawChildKey nd idx =
      (kholawCkdPub nd idx >>= fun x =>
        nodeOfPub nd.curve nd.scheme x.1 (nd.depth + 1) idx x.2 nd.fingerprint) := by
  rw [kholawChildKey_pub nd idx hi hp hh]
  simp only [ge_iff_le, Nat.not_le.mpr hd, if_false]

theorem kholawChildKey_pub_hard (nd : Node) (idx : Nat) (hi : idx < 2 ^ 32)
    (hp : nd.priv = none) (hh : isHardened idx = true) :
    kholawChildKey nd idx = .error .key := by
  unfold kholawChildKey
  have : ¬ idx > 2 ^ 32 - 1 := by omega
  simp only [this, if_false, hp, hh, if_true, bind, Except.bind, throw, throwThe, MonadExceptOf.throw]

theorem kholawChildKey_idx_lt (nd : Node) (idx : Nat) (c : Node) (h : kholawChildKey nd idx = .ok c) :
    idx < 2 ^ 32 := by
  by_contra hn
  rw [kholawChildKey_range nd idx (by omega)] at h; cases h

/-- depth limit for the BIP32-Ed25519 schemes: a successful `ChildKey` call was made on a node of
depth `< 255`, and the child is one level deeper -/
theorem kholawChildKey_depth (nd : Node) (idx : Nat) (c : Node) (h : kholawChildKey nd idx = .ok c) :
    nd.depth < 255 ∧ c.depth = nd.depth + 1 := by
  have hi := kholawChildKey_idx_lt nd idx c h
  cases hp : nd.priv with
  | some priv =>
    rw [kholawChildKey_priv nd idx priv hi hp, Slip10.bind_ok_iff] at h
    obtain ⟨x, _, hx⟩ := h
    obtain ⟨hd, hx⟩ := (Slip10.guard_ok_iff ..).mp hx
    obtain ⟨_, pub, _, rfl⟩ := (nodeOfPriv_ok_iff ..).mp hx
    exact ⟨hd, rfl⟩
  | none =>
    cases hh : isHardened idx
    · rw [kholawChildKey_pub nd idx hi hp hh, Slip10.bind_ok_iff] at h
      obtain ⟨x, _, hx⟩ := h
      obtain ⟨hd, hx⟩ := (Slip10.guard_ok_iff ..).mp hx
      obtain ⟨pub, _, rfl⟩ := (nodeOfPub_ok_iff ..).mp hx
      exact ⟨hd, rfl⟩
    · rw [kholawChildKey_pub_hard nd idx hi hp hh] at h; cases h

/-- the same for the scheme-generic `ChildKey` dispatch -/
theorem childKey_depth (nd : Node) (idx : Nat) (c : Node) (h : childKey nd idx = .ok c) :
    nd.depth < 255 ∧ c.depth = nd.depth + 1 := by
  unfold childKey at h
  split at h
  · exact ⟨slip10ChildKey_depth_lt nd idx c h, (child_metadata nd idx c h).1⟩
  · exact kholawChildKey_depth nd idx c h

theorem childKey_depth_le (nd : Node) (idx : Nat) (c : Node) (h : childKey nd idx = .ok c) :
    c.depth ≤ 255 := by
  have := childKey_depth nd idx c h; omega

/-- a node of depth 255 (or more) has no child, whatever the scheme -/
theorem childKey_depth_limit (nd : Node) (idx : Nat) (hd : 255 ≤ nd.depth) :
    ∃ e, childKey nd idx = .error e := by
  cases h : childKey nd idx with
  | error e => exact ⟨e, rfl⟩
  | ok c => exact absurd (childKey_depth nd idx c h).1 (Nat.not_lt.mpr hd)

/-- `DerivePath` (any scheme) adds the number of path elements to the depth -/
theorem derive_depth_any (nd : Node) (p : Path) (c : Node) (h : derivePathWith childKey nd p = .ok c) :
    c.depth = nd.depth + p.elems.length := by
  rw [derivePathWith_eq] at h
  split at h
  · cases h
  · exact foldlM_depth _ (fun nd i c hc => (childKey_depth nd i c hc).2) _ _ _ h

/-- `public_hardened_refused` for every scheme (`ChildKey` dispatch) -/
theorem childKey_public_hardened_refused (nd : Node) (idx : Nat) (hp : nd.priv = none)
    (hh : isHardened idx = true) (hi : idx < 2 ^ 32) : childKey nd idx = .error .key := by
  unfold childKey
  cases nd.scheme
  · exact slip10ChildKey_pub_hard nd idx hi hp hh
  · exact kholawChildKey_pub_hard nd idx hi hp hh
  · exact kholawChildKey_pub_hard nd idx hi hp hh

theorem childKey_index_range (nd : Node) (idx : Nat) (h : 2 ^ 32 ≤ idx) :
    childKey nd idx = .error .value := by
  unfold childKey
  cases nd.scheme
  · exact slip10ChildKey_range nd idx h
  · exact kholawChildKey_range nd idx h
  · exact kholawChildKey_range nd idx h

/-! ## the non-hardened derivations as binds -/

/-- `Z = HMAC-SHA512(cc, 0x02 ‖ A ‖ i)` -/
def kholawZ (nd : Node) (idx : Nat) : Bytes :=
  hmacSha512 nd.chainCode ([2] ++ nd.pub.drop 1 ++ kholawIndexBytes nd.scheme idx)

/-- child chain code of a non-hardened derivation: right half of `HMAC(cc, 0x03 ‖ A ‖ i)` -/
def kholawCC (nd : Node) (idx : Nat) : Bytes :=
  (hmacSha512Halves nd.chainCode ([3] ++ nd.pub.drop 1 ++ kholawIndexBytes nd.scheme idx)).2

theorem kholawCkdPriv_soft (nd : Node) (priv : Bytes) (idx : Nat) (hh : isHardened idx = false) :
    kholawCkdPriv nd priv idx =
      (kholawNewLeft nd.scheme ((kholawZ nd idx).take 32) (priv.take 32) >>= fun kl =>
       kholawNewRight nd.scheme ((kholawZ nd idx).drop 32) (priv.drop 32) >>= fun kr =>
       .ok (kl ++ kr, kholawCC nd idx)) := by
  unfold kholawCkdPriv kholawZ kholawCC
  simp only [hh, Bool.false_eq_true, if_false, bind, Except.bind, pure, Except.pure]

theorem kholawCkdPub_eq (nd : Node) (idx : Nat) :
    kholawCkdPub nd idx =
      match edDecodeLenient (nd.pub.drop 1) with
      | none => .error .key
      | some p =>
        if edAdd p (edMulBase (kholawPubScalar nd.scheme ((kholawZ nd idx).take 32) % 2 ^ 255)) = edIdentity
        then .error .key
        else .ok (0 :: edEncode (edAdd p (edMulBase
                (kholawPubScalar nd.scheme ((kholawZ nd idx).take 32) % 2 ^ 255))), kholawCC nd idx) := by
  unfold kholawCkdPub kholawZ kholawCC
  simp only [bind, Except.bind, pure, Except.pure, throw, throwThe, MonadExceptOf.throw]
  cases edDecodeLenient (nd.pub.drop 1) with
  | none => rfl
  | some p => simp only []


/-! ## the point-layer law -/

/-- What the BIP32-Ed25519 commutation proof needs to know about the Edwards point layer
(`edMulBase`, `edAdd`, `edEncode`, `edDecodeLenient`, `edBytesOnCurve` — the functions
`pubOfPriv .ed25519Kholaw`, `kholawCkdPub` and `pubFromBytes .ed25519Kholaw` are built from).
All scalars are below `2^255` (bit 255 clear), the only range in which the library's no-clamp
multiplication is the mathematical one.  Every field follows from "the base point generates a
cyclic group of order `L`, `edMulBase s = s·B` in canonical affine form, `edAdd` is the group
law on such points, `decode ∘ encode = id`" — see `kholawLaw_of_group_model`. -/
structure KholawLaw : Prop where
  /-- `a·B + b·B = (a+b)·B` -/
  add_mul : ∀ a b, a + b < 2 ^ 255 → edAdd (edMulBase a) (edMulBase b) = edMulBase (a + b)
  /-- `B` has order `L` -/
  mul_id : ∀ s, s < 2 ^ 255 → (edMulBase s = edIdentity ↔ s % edL = 0)
  /-- the (lenient) decoder inverts the encoder on non-identity multiples of `B` -/
  dec_enc : ∀ s, s < 2 ^ 255 → edMulBase s ≠ edIdentity →
    edDecodeLenient (edEncode (edMulBase s)) = some (edMulBase s)
  /-- and `point_is_on_curve` accepts those encodings -/
  on_curve : ∀ s, s < 2 ^ 255 → edMulBase s ≠ edIdentity →
    edBytesOnCurve (edEncode (edMulBase s)) = some true

theorem edEncode_length (P : EdPoint) : (edEncode P).length = 32 := by
  unfold edEncode; exact length_ofNatLE _ _


theorem pubOfPriv_kholaw_eq (k : Bytes) (hk : Bytes.toNatLE (k.take 32) < 2 ^ 255) :
    pubOfPriv .ed25519Kholaw k =
      if edMulBase (Bytes.toNatLE (k.take 32)) = edIdentity then none
      else some (0 :: edEncode (edMulBase (Bytes.toNatLE (k.take 32)))) := by
  unfold pubOfPriv edNoClampScalar
  simp only [Nat.mod_eq_of_lt hk]

/-- public key of a BIP32-Ed25519 private key whose left half is below `2^255` -/
theorem pubOfPriv_kholaw (k : Bytes) (P : Bytes) (hk : Bytes.toNatLE (k.take 32) < 2 ^ 255)
    (h : pubOfPriv .ed25519Kholaw k = some P) :
    edMulBase (Bytes.toNatLE (k.take 32)) ≠ edIdentity ∧
      P = 0 :: edEncode (edMulBase (Bytes.toNatLE (k.take 32))) := by
  rw [pubOfPriv_kholaw_eq k hk] at h
  split at h
  · cases h
  · next hne => cases h; exact ⟨hne, rfl⟩

theorem pubFromBytes_kholaw_enc (law : KholawLaw) (s : Nat) (hs : s < 2 ^ 255)
    (hne : edMulBase s ≠ edIdentity) :
    pubFromBytes .ed25519Kholaw (0 :: edEncode (edMulBase s)) = some (0 :: edEncode (edMulBase s)) := by
  unfold pubFromBytes
  have hstrip : edStripPrefix (0 :: edEncode (edMulBase s)) = edEncode (edMulBase s) := by
    unfold edStripPrefix; simp [edEncode_length]
  simp only [hstrip, law.on_curve s hs hne, edEncode_length]
  rfl

theorem kholawPubScalar_kholaw (zl : Bytes) :
    kholawPubScalar .kholaw zl = Bytes.toNatLE (zl.take 28) * 8 := by
  unfold kholawPubScalar; rw [if_neg (by decide)]

theorem kholawNewLeft_kholaw (zl kl : Bytes) :
    kholawNewLeft .kholaw zl kl =
      if (Bytes.toNatLE kl + kholawPubScalar .kholaw zl) % edL = 0 then .error .key
      else if 2 ^ 255 ≤ Bytes.toNatLE kl + kholawPubScalar .kholaw zl then .error .key
      else toBytesLE (Bytes.toNatLE kl + kholawPubScalar .kholaw zl) 32 := by
  rw [kholawPubScalar_kholaw, Nat.add_comm]
  unfold kholawNewLeft
  rw [if_neg (by decide)]
  simp only [throw, throwThe, MonadExceptOf.throw]

theorem kholawNewRight_kholaw (zr kr : Bytes) :
    ∃ r, kholawNewRight .kholaw zr kr = .ok r ∧ r.length = 32 := by
  unfold kholawNewRight
  rw [if_neg (by decide)]
  have : (Bytes.toNatLE zr + Bytes.toNatLE kr) % 2 ^ 256 < 256 ^ 32 := Nat.mod_lt _ (by decide)
  obtain ⟨r, hr⟩ := (toBytesLE_ok_iff _ _).mpr this
  exact ⟨r, hr, (toBytesLE_toNatLE hr).2⟩

/-- **B (BIP32-Ed25519)** `CKDpub(N(parent), i) = N(CKDpriv(parent, i))` for non-hardened `i` and
scheme `.kholaw`, as an equation between results, under `KholawLaw` and the explicit range
hypothesis `kL + 8·zl[:28] < 2^255` (the child's left half keeps bit 255 clear; beyond that the
private side is refused with `Bip32KeyError` — since the second library repair the size test of
`_NewPrivateKeyLeftPart` is `≥ 2^255`, no longer `≥ 2^256` — while the public side, which knows
nothing about `kL`, still returns a key; so the hypothesis is exactly "the private side is not
refused for size", see `kholaw_ckdPub_comm_of_ok`). -/
theorem kholaw_ckdPub_comm (law : KholawLaw) (nd : Node) (k : Bytes) (idx : Nat)
    (hcur : nd.curve = .ed25519Kholaw) (hsch : nd.scheme = .kholaw)
    (hp : nd.priv = some k)
    (hpub : pubOfPriv .ed25519Kholaw k = some nd.pub) (hh : isHardened idx = false)
    (hrange : Bytes.toNatLE (k.take 32) + kholawPubScalar .kholaw ((kholawZ nd idx).take 32) < 2 ^ 255) :
    kholawChildKey nd.neuter idx = (kholawChildKey nd idx).map Node.neuter := by
  by_cases hi : idx < 2 ^ 32
  swap
  · rw [kholawChildKey_range _ _ (Nat.le_of_not_lt hi), kholawChildKey_range _ _ (Nat.le_of_not_lt hi)]
    rfl
  have hkL : Bytes.toNatLE (k.take 32) < 2 ^ 255 := by omega
  obtain ⟨hPne, hP⟩ := pubOfPriv_kholaw k nd.pub hkL hpub
  have hdrop : nd.pub.drop 1 = edEncode (edMulBase (Bytes.toNatLE (k.take 32))) := by rw [hP]; rfl
  rw [kholawChildKey_pub nd.neuter idx hi rfl hh, kholawChildKey_priv nd idx k hi hp,
    kholawCkdPub_eq, kholawCkdPriv_soft nd k idx hh]
  show (match edDecodeLenient (nd.pub.drop 1) with
        | none => Except.error Err.key
        | some p =>
          if edAdd p (edMulBase (kholawPubScalar nd.scheme ((kholawZ nd idx).take 32) % 2 ^ 255)) = edIdentity
          then .error .key
          else .ok (0 :: edEncode (edAdd p (edMulBase
                (kholawPubScalar nd.scheme ((kholawZ nd idx).take 32) % 2 ^ 255))), kholawCC nd idx)) >>= _ = _
  have hs1 : ∀ z, kholawPubScalar nd.scheme z = kholawPubScalar .kholaw z := by rw [hsch]; intro _; rfl
  have hs2 : ∀ z kl, kholawNewLeft nd.scheme z kl = kholawNewLeft .kholaw z kl := by rw [hsch]; intro _ _; rfl
  have hs3 : ∀ z kr, kholawNewRight nd.scheme z kr = kholawNewRight .kholaw z kr := by rw [hsch]; intro _ _; rfl
  rw [hdrop, law.dec_enc _ hkL hPne, hs1, hs2, hs3, kholaw_scalar_mod]
  simp only []
  rw [law.add_mul _ _ hrange]
  -- the private side
  rw [kholawNewLeft_kholaw]
  by_cases hnz : (Bytes.toNatLE (k.take 32) + kholawPubScalar .kholaw ((kholawZ nd idx).take 32)) % edL = 0
  · rw [if_pos hnz, if_pos ((law.mul_id _ hrange).mpr hnz)]; rfl
  · have hlt : Bytes.toNatLE (k.take 32) + kholawPubScalar .kholaw ((kholawZ nd idx).take 32) < 256 ^ 32 :=
      Nat.lt_trans hrange (by decide)
    have hlt' : ¬ 2 ^ 255 ≤ Bytes.toNatLE (k.take 32) + kholawPubScalar .kholaw ((kholawZ nd idx).take 32) := by
      omega
    rw [if_neg hnz, if_neg hlt', if_neg (fun e => hnz ((law.mul_id _ hrange).mp e))]
    obtain ⟨kl, hkl⟩ := (toBytesLE_ok_iff _ _).mpr hlt
    obtain ⟨hklv, hkll⟩ := toBytesLE_toNatLE hkl
    obtain ⟨kr, hkr, hkrl⟩ := kholawNewRight_kholaw ((kholawZ nd idx).drop 32) (k.drop 32)
    rw [hkl, Slip10.bind_ok, hkr, Slip10.bind_ok, Slip10.bind_ok, Slip10.bind_ok]
    have htake : (kl ++ kr).take 32 = kl := by rw [← hkll]; exact List.take_left
    have hne : edMulBase (Bytes.toNatLE (k.take 32) +
        kholawPubScalar .kholaw ((kholawZ nd idx).take 32)) ≠ edIdentity :=
      fun e => hnz ((law.mul_id _ hrange).mp e)
    have hpriv : pubOfPriv .ed25519Kholaw (kl ++ kr) =
        some (0 :: edEncode (edMulBase (Bytes.toNatLE (k.take 32) +
          kholawPubScalar .kholaw ((kholawZ nd idx).take 32)))) := by
      rw [pubOfPriv_kholaw_eq _ (by rw [htake, hklv]; exact hrange), htake, hklv, if_neg hne]
    have hvalid : privValid nd.curve (kl ++ kr) = true := by
      rw [hcur]; simp [privValid, hkll, hkrl]
    have h1 := (nodeOfPub_ok_iff nd.neuter.curve nd.neuter.scheme
      (0 :: edEncode (edMulBase (Bytes.toNatLE (k.take 32) +
          kholawPubScalar .kholaw ((kholawZ nd idx).take 32))))
      (nd.neuter.depth + 1) idx (kholawCC nd idx) nd.neuter.fingerprint _).mpr
      ⟨_, (by show pubFromBytes nd.curve _ = _
              rw [hcur]; exact pubFromBytes_kholaw_enc law _ hrange hne), rfl⟩
    have h2 := (nodeOfPriv_ok_iff nd.curve nd.scheme (kl ++ kr) (nd.depth + 1) idx (kholawCC nd idx)
      nd.fingerprint _).mpr ⟨hvalid, _, (by rw [hcur]; exact hpriv), rfl⟩
    show (if nd.depth ≥ 255 then _ else _) = Except.map Node.neuter (if nd.depth ≥ 255 then _ else _)
    split
    · rfl
    show nodeOfPub nd.neuter.curve nd.neuter.scheme _ (nd.neuter.depth + 1) idx (kholawCC nd idx) _ =
      Except.map Node.neuter (nodeOfPriv nd.curve nd.scheme (kl ++ kr) (nd.depth + 1) idx (kholawCC nd idx) _)
    rw [h1, h2]
    rfl

/-- a successful Khovratovich-Law left half is below `2^255` (the size test of the second library
repair), and is the sum itself -/
theorem kholawNewLeft_kholaw_ok_lt (zl kl r : Bytes) (h : kholawNewLeft .kholaw zl kl = .ok r) :
    Bytes.toNatLE kl + kholawPubScalar .kholaw zl < 2 ^ 255 ∧
      Bytes.toNatLE r = Bytes.toNatLE kl + kholawPubScalar .kholaw zl ∧ r.length = 32 := by
  rw [kholawNewLeft_kholaw] at h
  split at h
  · cases h
  · split at h
    · cases h
    · next hlt => exact ⟨Nat.lt_of_not_le hlt, toBytesLE_toNatLE h⟩

/-- **B (BIP32-Ed25519), success form**: with the size test at `2^255` the range hypothesis of
`kholaw_ckdPub_comm` is implied by the success of the private derivation, so: whenever a private
`.kholaw` node (hand-supplied keys included — nothing is assumed about `kL`) has a non-hardened
child `c`, the neutered node has the child `c.neuter`. -/
theorem kholaw_ckdPub_comm_of_ok (law : KholawLaw) (nd : Node) (k : Bytes) (idx : Nat)
    (hcur : nd.curve = .ed25519Kholaw) (hsch : nd.scheme = .kholaw)
    (hp : nd.priv = some k)
    (hpub : pubOfPriv .ed25519Kholaw k = some nd.pub) (hh : isHardened idx = false)
    (c : Node) (hc : kholawChildKey nd idx = .ok c) :
    kholawChildKey nd.neuter idx = .ok c.neuter := by
  have hi := kholawChildKey_idx_lt nd idx c hc
  have hc' := hc
  rw [kholawChildKey_priv nd idx k hi hp] at hc'
  obtain ⟨x, h1, _⟩ := (Slip10.bind_ok_iff _ _ _).mp hc'
  rw [kholawCkdPriv_soft nd k idx hh, hsch] at h1
  obtain ⟨kl, hleft, _⟩ := (Slip10.bind_ok_iff _ _ _).mp h1
  have hrange := (kholawNewLeft_kholaw_ok_lt _ _ _ hleft).1
  rw [kholaw_ckdPub_comm law nd k idx hcur hsch hp hpub hh hrange, hc]
  rfl


end BipVerif.Model
