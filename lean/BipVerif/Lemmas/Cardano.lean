/-
Cardano / BIP32-Ed25519 lemmas for C18: master-key bit tweaking, the three master key generators,
the child-key formulas, CBOR heads and the Byron / Shelley address round trips.
Hashes are opaque: only their output lengths are used.
-/
import BipVerif.Model.Cardano
import BipVerif.Lemmas.IntBytes
import BipVerif.Lemmas.Bech32
import BipVerif.Lemmas.Base58
import BipVerif.Lemmas.Scale
import BipVerif.Lemmas.SS58
import BipVerif.Lemmas.Kholaw
import BipVerif.Prim.ChaCha20Poly1305

namespace BipVerif.Model.CardanoLemmas
open BipVerif BipVerif.Prim BipVerif.Model

/-! ## `setByte` -/
theorem setByte_length (b : Bytes) (i : Nat) (f : Nat → Nat) : (setByte b i f).length = b.length := by
  unfold setByte; simp

theorem setByte_getD_ne (b : Bytes) (i j : Nat) (f : Nat → Nat) (d : UInt8) (h : j ≠ i) :
    (setByte b i f).getD j d = b.getD j d := by
  unfold setByte
  simp only [List.getD_eq_getElem?_getD, List.getElem?_mapIdx]
  cases b[j]? with
  | none => rfl
  | some x => simp [h]

theorem setByte_getD_eq (b : Bytes) (i : Nat) (f : Nat → Nat) (d : UInt8) (h : i < b.length) :
    (setByte b i f).getD i d = UInt8.ofNat (f (b.getD i d).toNat) := by
  unfold setByte
  simp only [List.getD_eq_getElem?_getD, List.getElem?_mapIdx]
  rw [List.getElem?_eq_getElem h]; simp
/-! ## little-endian values -/
theorem toNatLE_nil : Bytes.toNatLE [] = 0 := rfl

theorem toNatLE_append (a b : Bytes) :
    Bytes.toNatLE (a ++ b) = Bytes.toNatLE a + 256 ^ a.length * Bytes.toNatLE b := by
  unfold Bytes.toNatLE
  rw [List.reverse_append, toNatBE_append, List.length_reverse]; ring

theorem toNatLE_mod_256 (b : Bytes) : Bytes.toNatLE b % 256 = (b.getD 0 0).toNat := by
  cases b with
  | nil => rfl
  | cons x t =>
    rw [toNatLE_cons]; simp only [List.getD_cons_zero]
    have := x.toNat_lt; omega

theorem toNatLE_mod_8 (b : Bytes) : Bytes.toNatLE b % 8 = (b.getD 0 0).toNat % 8 := by
  rw [← toNatLE_mod_256]; omega

theorem eq_take_append_getD (b : Bytes) (n : Nat) (h : b.length = n + 1) :
    b = b.take n ++ [b.getD n 0] := by
  conv_lhs => rw [← List.take_append_drop n b]
  congr 1
  have hlt : n < b.length := by omega
  rw [List.drop_eq_getElem_cons hlt, List.drop_of_length_le (by omega)]
  simp [List.getD_eq_getElem?_getD, List.getElem?_eq_getElem hlt]

theorem toNatLE_split_last (b : Bytes) (n : Nat) (h : b.length = n + 1) :
    Bytes.toNatLE b = Bytes.toNatLE (b.take n) + 256 ^ n * (b.getD n 0).toNat := by
  conv_lhs => rw [eq_take_append_getD b n h]
  rw [toNatLE_append]
  have : (b.take n).length = n := by rw [List.length_take]; omega
  rw [this]
  congr 2
  unfold Bytes.toNatLE; simp [Bytes.toNatBE]

theorem toNatLE_top_byte (b : Bytes) (n : Nat) (h : b.length = n + 1) :
    Bytes.toNatLE b / 256 ^ n = (b.getD n 0).toNat := by
  rw [toNatLE_split_last b n h]
  have h1 := toNatLE_lt (b.take n)
  have : (b.take n).length = n := by rw [List.length_take]; omega
  rw [this] at h1
  rw [Nat.add_mul_div_left _ _ (Nat.pow_pos (by norm_num)), Nat.div_eq_of_lt h1, Nat.zero_add]

def tweakByte (mask x : Nat) : Nat := ((x % 256 - (x &&& mask)) ||| 64) % 256

def tweakByteOk128 (x : Nat) : Bool :=
  decide (64 ≤ tweakByte 128 x) && decide (tweakByte 128 x < 128) &&
    (tweakByte 128 x % 64 == x % 64) && (tweakByte 128 x &&& 32 == x &&& 32)

def tweakByteOk224 (x : Nat) : Bool :=
  decide (64 ≤ tweakByte 224 x) && decide (tweakByte 224 x < 96) && (tweakByte 224 x % 32 == x % 32)

theorem tweakByte_128_all : (List.range 256).all tweakByteOk128 = true := by decide +kernel
theorem tweakByte_224_all : (List.range 256).all tweakByteOk224 = true := by decide +kernel

/-- byte 31 under mask 128: bit 7 cleared, bit 6 set, bits 0..5 untouched -/
theorem tweakByte_128 (x : Nat) (hx : x < 256) :
    64 ≤ tweakByte 128 x ∧ tweakByte 128 x < 128 ∧ tweakByte 128 x % 64 = x % 64 ∧
      tweakByte 128 x &&& 32 = x &&& 32 := by
  have := List.all_eq_true.mp tweakByte_128_all x (List.mem_range.mpr hx)
  simpa [tweakByteOk128, and_assoc] using this

/-- byte 31 under mask 224: bits 7 and 5 cleared, bit 6 set, bits 0..4 untouched -/
theorem tweakByte_224 (x : Nat) (hx : x < 256) :
    64 ≤ tweakByte 224 x ∧ tweakByte 224 x < 96 ∧ tweakByte 224 x % 32 = x % 32 := by
  have := List.all_eq_true.mp tweakByte_224_all x (List.mem_range.mpr hx)
  simpa [tweakByteOk224, and_assoc] using this


/-! ## `tweakMasterBits` -/

theorem uint8_ofNat_toNat (n : Nat) : (UInt8.ofNat n).toNat = n % 256 := by
  simp [UInt8.toNat_ofNat']

theorem tweak_length (mask : Nat) (k : Bytes) : (tweakMasterBits mask k).length = k.length := by
  unfold tweakMasterBits; simp only [setByte_length]

theorem tweak_getD_other (mask : Nat) (k : Bytes) (j : Nat) (h0 : j ≠ 0) (h31 : j ≠ 31) :
    (tweakMasterBits mask k).getD j 0 = k.getD j 0 := by
  unfold tweakMasterBits
  simp only []
  rw [setByte_getD_ne _ _ _ _ _ h31, setByte_getD_ne _ _ _ _ _ h0]

theorem tweak_getD_zero (mask : Nat) (k : Bytes) (hk : 1 ≤ k.length) :
    ((tweakMasterBits mask k).getD 0 0).toNat = (k.getD 0 0).toNat / 8 * 8 := by
  unfold tweakMasterBits
  simp only []
  rw [setByte_getD_ne _ _ _ _ _ (by decide), setByte_getD_eq _ _ _ _ (by omega), uint8_ofNat_toNat]
  have := (k.getD 0 0).toNat_lt
  omega

theorem tweak_getD_31 (mask : Nat) (k : Bytes) (hk : 32 ≤ k.length) :
    ((tweakMasterBits mask k).getD 31 0).toNat = tweakByte mask (k.getD 31 0).toNat := by
  unfold tweakMasterBits
  simp only []
  rw [setByte_getD_eq _ _ _ _ (by rw [setByte_length]; omega), uint8_ofNat_toNat,
    setByte_getD_ne _ _ _ _ _ (by decide)]
  rfl

/-- **tweak_bits** (general mask): same length, byte 0 loses its three low bits, byte 31 becomes
`((x - (x & mask)) | 64)`, every other byte is unchanged. -/
theorem tweak_bits (mask : Nat) (k : Bytes) (hk : 32 ≤ k.length) :
    (tweakMasterBits mask k).length = k.length ∧
    ((tweakMasterBits mask k).getD 0 0).toNat % 8 = 0 ∧
    ((tweakMasterBits mask k).getD 0 0).toNat / 8 = (k.getD 0 0).toNat / 8 ∧
    ((tweakMasterBits mask k).getD 31 0).toNat = tweakByte mask (k.getD 31 0).toNat ∧
    ∀ j, j ≠ 0 → j ≠ 31 → (tweakMasterBits mask k).getD j 0 = k.getD j 0 := by
  refine ⟨tweak_length mask k, ?_, ?_, tweak_getD_31 mask k hk, tweak_getD_other mask k⟩
  · rw [tweak_getD_zero mask k (by omega)]; omega
  · rw [tweak_getD_zero mask k (by omega)]; omega

/-- **tweak_bits**, mask `0x80` (Khovratovich-Law and Byron legacy): byte 31 has bit 7 clear, bit 6
set and its six low bits (in particular bit 5) unchanged. -/
theorem tweak_bits_128 (k : Bytes) (hk : 32 ≤ k.length) :
    (tweakMasterBits 128 k).length = k.length ∧
    ((tweakMasterBits 128 k).getD 0 0).toNat % 8 = 0 ∧
    ((tweakMasterBits 128 k).getD 0 0).toNat / 8 = (k.getD 0 0).toNat / 8 ∧
    64 ≤ ((tweakMasterBits 128 k).getD 31 0).toNat ∧ ((tweakMasterBits 128 k).getD 31 0).toNat < 128 ∧
    ((tweakMasterBits 128 k).getD 31 0).toNat % 64 = (k.getD 31 0).toNat % 64 ∧
    ((tweakMasterBits 128 k).getD 31 0).toNat &&& 32 = (k.getD 31 0).toNat &&& 32 ∧
    ∀ j, j ≠ 0 → j ≠ 31 → (tweakMasterBits 128 k).getD j 0 = k.getD j 0 := by
  obtain ⟨h1, h2, h3, h4, h5⟩ := tweak_bits 128 k hk
  obtain ⟨a, b, c, d⟩ := tweakByte_128 _ (k.getD 31 0).toNat_lt
  rw [← h4] at a b c d
  exact ⟨h1, h2, h3, a, b, c, d, h5⟩

/-- **tweak_bits**, mask `0xE0` (Icarus): byte 31 has bits 7 and 5 clear, bit 6 set and its five
low bits unchanged. -/
theorem tweak_bits_224 (k : Bytes) (hk : 32 ≤ k.length) :
    (tweakMasterBits 224 k).length = k.length ∧
    ((tweakMasterBits 224 k).getD 0 0).toNat % 8 = 0 ∧
    ((tweakMasterBits 224 k).getD 0 0).toNat / 8 = (k.getD 0 0).toNat / 8 ∧
    64 ≤ ((tweakMasterBits 224 k).getD 31 0).toNat ∧ ((tweakMasterBits 224 k).getD 31 0).toNat < 96 ∧
    ((tweakMasterBits 224 k).getD 31 0).toNat % 32 = (k.getD 31 0).toNat % 32 ∧
    ∀ j, j ≠ 0 → j ≠ 31 → (tweakMasterBits 224 k).getD j 0 = k.getD j 0 := by
  obtain ⟨h1, h2, h3, h4, h5⟩ := tweak_bits 224 k hk
  obtain ⟨a, b, c⟩ := tweakByte_224 _ (k.getD 31 0).toNat_lt
  rw [← h4] at a b c
  exact ⟨h1, h2, h3, a, b, c, h5⟩

/-! ## clamped scalars -/

/-- the shape of a BIP32-Ed25519 master secret scalar `kL` (32 little-endian bytes):
multiple of 8, bit 255 clear, bit 254 set, bit 253 clear. -/
structure Clamped (kL : Bytes) : Prop where
  len : kL.length = 32
  low : Bytes.toNatLE kL % 8 = 0
  ge254 : 2 ^ 254 ≤ Bytes.toNatLE kL
  lt255 : Bytes.toNatLE kL < 2 ^ 255
  bit253 : Bytes.toNatLE kL / 2 ^ 253 % 2 = 0

theorem Clamped.lt (h : Clamped kL) : Bytes.toNatLE kL < 2 ^ 254 + 2 ^ 253 := by
  have := h.ge254; have := h.lt255; have := h.bit253; omega

theorem clamped_of_bytes (b : Bytes) (hl : b.length = 32) (h0 : (b.getD 0 0).toNat % 8 = 0)
    (h1 : 64 ≤ (b.getD 31 0).toNat) (h2 : (b.getD 31 0).toNat < 96) : Clamped b := by
  have hs := toNatLE_split_last b 31 hl
  have hlow := toNatLE_lt (b.take 31)
  have : (b.take 31).length = 31 := by rw [List.length_take]; omega
  rw [this] at hlow
  have h8 := toNatLE_mod_8 b
  have e1 : (256 : Nat) ^ 31 = 452312848583266388373324160190187140051835877600158453279131187530910662656 := by
    norm_num
  rw [e1] at hs hlow
  refine ⟨hl, by omega, ?_, ?_, ?_⟩
  · norm_num; omega
  · norm_num; omega
  · norm_num; omega

theorem and32_eq_zero_lt (y : Nat) (h1 : y < 128) (h : y &&& 32 = 0) (h64 : 64 ≤ y) : y < 96 := by
  have : (List.range 128).all (fun y => !(y &&& 32 == 0) || !(decide (64 ≤ y)) || decide (y < 96)) = true := by
    decide +kernel
  have := List.all_eq_true.mp this y (List.mem_range.mpr h1)
  simp [h, h64] at this
  exact this

/-! ## master key generators -/

theorem kholawHashRepeatedly_succ (fuel : Nat) (data : Bytes) :
    kholawHashRepeatedly (fuel + 1) data =
      if ((hmacSha512Halves kholawHmacKey data).1.getD 31 0).toNat &&& 32 ≠ 0 then
        kholawHashRepeatedly fuel ((hmacSha512Halves kholawHmacKey data).1 ++ (hmacSha512Halves kholawHmacKey data).2)
      else .ok (hmacSha512Halves kholawHmacKey data) := by
  rw [kholawHashRepeatedly]
  rfl

/-- exit condition of the Khovratovich-Law re-hash loop: bit 5 of byte 31 of the *untweaked* `kL`
is clear; both halves have 32 bytes -/
theorem kholawHashRepeatedly_ok (fuel : Nat) (data kl kr : Bytes)
    (h : kholawHashRepeatedly fuel data = .ok (kl, kr)) :
    kl.length = 32 ∧ kr.length = 32 ∧ (kl.getD 31 0).toNat &&& 32 = 0 := by
  induction fuel generalizing data with
  | zero => cases h
  | succ n ih =>
    rw [kholawHashRepeatedly_succ] at h
    split at h
    · exact ih _ h
    · next hc =>
      have e := Except.ok.inj h
      have e1 : (hmacSha512Halves kholawHmacKey data).1 = kl := congrArg Prod.fst e
      have e2 : (hmacSha512Halves kholawHmacKey data).2 = kr := congrArg Prod.snd e
      rw [← e1, ← e2]
      exact ⟨hmacSha512Halves_fst_length _ _, hmacSha512Halves_snd_length _ _, by
        simpa using hc⟩

theorem kholawHashRepeatedly_error (fuel : Nat) (data : Bytes) (e : Err)
    (h : kholawHashRepeatedly fuel data = .error e) : e = .fuel := by
  induction fuel generalizing data with
  | zero => cases h; rfl
  | succ n ih =>
    rw [kholawHashRepeatedly_succ] at h
    split at h
    · exact ih _ h
    · cases h

theorem kholawMasterKey_eq (seed : Bytes) :
    kholawMasterKey seed =
      if seed.length < 16 then .error .value
      else kholawHashRepeatedly 4096 seed >>= fun p =>
        .ok (tweakMasterBits 128 p.1 ++ p.2, hmacSha256 kholawHmacKey ([1] ++ seed)) := by
  unfold kholawMasterKey
  by_cases h : seed.length < 16
  · simp only [h, if_true]; rfl
  · simp only [h, if_false]
    show (kholawHashRepeatedly 4096 seed >>= _) = _
    cases kholawHashRepeatedly 4096 seed with
    | error e => rfl
    | ok p => rfl

theorem take_append_of_length {α} (a b : List α) (n : Nat) (h : a.length = n) : (a ++ b).take n = a := by
  subst h; exact List.take_left

theorem drop_append_of_length {α} (a b : List α) (n : Nat) (h : a.length = n) : (a ++ b).drop n = b := by
  subst h; exact List.drop_left

/-- **master_clamped** (Khovratovich-Law): 64-byte key `kL ‖ kR` with clamped `kL`, 32-byte chain
code `HMAC-SHA256(key, 0x01 ‖ seed)`. Bit 253 is clear by the loop's exit test on the untweaked
`kL`, and the `0x80` tweak does not touch bit 5 of byte 31. -/
theorem kholawMasterKey_ok (seed k cc : Bytes) (h : kholawMasterKey seed = .ok (k, cc)) :
    16 ≤ seed.length ∧ k.length = 64 ∧ cc.length = 32 ∧ Clamped (k.take 32) ∧
      cc = hmacSha256 kholawHmacKey ([1] ++ seed) := by
  rw [kholawMasterKey_eq] at h
  split at h
  · cases h
  · next hs =>
    obtain ⟨⟨kl, kr⟩, hp, hk⟩ := (Slip10.bind_ok_iff _ _ _).mp h
    obtain ⟨h1, h2, h3⟩ := kholawHashRepeatedly_ok _ _ _ _ hp
    have e := Except.ok.inj hk
    have ek : tweakMasterBits 128 kl ++ kr = k := congrArg Prod.fst e
    have ec : hmacSha256 kholawHmacKey ([1] ++ seed) = cc := congrArg Prod.snd e
    obtain ⟨t1, t2, _, t4, t5, _, t7, _⟩ := tweak_bits_128 kl (by omega)
    have htl : (tweakMasterBits 128 kl).length = 32 := by rw [t1, h1]
    refine ⟨by omega, ?_, by rw [← ec]; exact hmacSha256_length _ _, ?_, ec.symm⟩
    · rw [← ek, List.length_append, htl, h2]
    · rw [← ek, take_append_of_length _ _ 32 htl]
      exact clamped_of_bytes _ htl t2 t4 (and32_eq_zero_lt _ t5 (by rw [t7]; exact h3) t4)

theorem kholawMasterKey_short (seed : Bytes) (h : seed.length < 16) :
    kholawMasterKey seed = .error .value := by
  rw [kholawMasterKey_eq, if_pos h]

theorem kholawMasterKey_error (seed : Bytes) (e : Err) (h : kholawMasterKey seed = .error e) :
    (e = .value ∧ seed.length < 16) ∨ (e = .fuel ∧ 16 ≤ seed.length) := by
  rw [kholawMasterKey_eq] at h
  split at h
  · next hs => cases h; exact Or.inl ⟨rfl, hs⟩
  · next hs =>
    rcases (Slip10.bind_error_iff _ _ _).mp h with h' | ⟨p, _, h'⟩
    · exact Or.inr ⟨kholawHashRepeatedly_error _ _ _ h', by omega⟩
    · cases h'

theorem getD_take {α} (l : List α) (n i : Nat) (d : α) (h : i < n) : (l.take n).getD i d = l.getD i d := by
  simp only [List.getD_eq_getElem?_getD, List.getElem?_take, h, if_true]

/-- a tweaked key of at least 32 bytes starts with a clamped scalar, provided bit 5 of byte 31 is
clear after the tweak -/
theorem clamped_take_tweak_128 (k : Bytes) (hk : 32 ≤ k.length)
    (h5 : ((tweakMasterBits 128 k).getD 31 0).toNat &&& 32 = 0) :
    Clamped ((tweakMasterBits 128 k).take 32) := by
  obtain ⟨t1, t2, _, t4, t5, _, _, _⟩ := tweak_bits_128 k hk
  apply clamped_of_bytes
  · rw [List.length_take, t1]; omega
  · rw [getD_take _ _ _ _ (by decide)]; exact t2
  · rw [getD_take _ _ _ _ (by decide)]; exact t4
  · rw [getD_take _ _ _ _ (by decide)]; exact and32_eq_zero_lt _ t5 h5 t4

theorem clamped_take_tweak_224 (k : Bytes) (hk : 32 ≤ k.length) :
    Clamped ((tweakMasterBits 224 k).take 32) := by
  obtain ⟨t1, t2, _, t4, t5, _, _⟩ := tweak_bits_224 k hk
  apply clamped_of_bytes
  · rw [List.length_take, t1]; omega
  · rw [getD_take _ _ _ _ (by decide)]; exact t2
  · rw [getD_take _ _ _ _ (by decide)]; exact t4
  · rw [getD_take _ _ _ _ (by decide)]; exact t5

theorem icarusMasterKey_eq (seed : Bytes) :
    icarusMasterKey seed =
      if seed.length < 16 then .error .value
      else .ok ((tweakMasterBits 224 (pbkdf2HmacSha512 [] seed 4096 96)).take 64,
                (tweakMasterBits 224 (pbkdf2HmacSha512 [] seed 4096 96)).drop 64) := by
  unfold icarusMasterKey
  by_cases h : seed.length < 16
  · simp only [h, if_true]; rfl
  · simp only [h, if_false]; rfl

/-- **master_clamped** (Icarus): PBKDF2 output (96 bytes) tweaked with mask `0xE0`; key = first 64
bytes, chain code = last 32. -/
theorem icarusMasterKey_ok (seed k cc : Bytes) (h : icarusMasterKey seed = .ok (k, cc)) :
    16 ≤ seed.length ∧ k.length = 64 ∧ cc.length = 32 ∧ Clamped (k.take 32) := by
  rw [icarusMasterKey_eq] at h
  split at h
  · cases h
  · next hs =>
    have e := Except.ok.inj h
    have ek := congrArg Prod.fst e
    have ec := congrArg Prod.snd e
    simp only at ek ec
    have hl : (tweakMasterBits 224 (pbkdf2HmacSha512 [] seed 4096 96)).length = 96 := by
      rw [tweak_length, pbkdf2HmacSha512_length]
    refine ⟨by omega, ?_, ?_, ?_⟩
    · rw [← ek, List.length_take, hl]; rfl
    · rw [← ec, List.length_drop, hl]
    · rw [← ek, List.take_take]
      exact clamped_take_tweak_224 _ (by rw [pbkdf2HmacSha512_length]; decide)

theorem icarusMasterKey_short (seed : Bytes) (h : seed.length < 16) :
    icarusMasterKey seed = .error .value := by
  rw [icarusMasterKey_eq, if_pos h]

/-- Icarus generation never fails on a long enough seed -/
theorem icarusMasterKey_total (seed : Bytes) (h : 16 ≤ seed.length) :
    ∃ k cc, icarusMasterKey seed = .ok (k, cc) := by
  rw [icarusMasterKey_eq, if_neg (by omega)]; exact ⟨_, _, rfl⟩

theorem byronLegacyHashRepeatedly_succ (data : Bytes) (fuel itr : Nat) :
    byronLegacyHashRepeatedly data (fuel + 1) itr =
      if ((tweakMasterBits 128 (sha512 (hmacSha512Halves data
            ("Root Seed Chain " ++ toString itr).toUTF8.toList).1)).getD 31 0).toNat &&& 32 ≠ 0
      then byronLegacyHashRepeatedly data fuel (itr + 1)
      else .ok (tweakMasterBits 128 (sha512 (hmacSha512Halves data
            ("Root Seed Chain " ++ toString itr).toUTF8.toList).1),
          (hmacSha512Halves data ("Root Seed Chain " ++ toString itr).toUTF8.toList).2) := by
  rw [byronLegacyHashRepeatedly]
  rfl

/-- exit condition of the Byron-legacy loop: bit 5 of byte 31 of the *tweaked* key is clear -/
theorem byronLegacyHashRepeatedly_ok (data : Bytes) (fuel itr : Nat) (k cc : Bytes)
    (h : byronLegacyHashRepeatedly data fuel itr = .ok (k, cc)) :
    k.length = 64 ∧ cc.length = 32 ∧ Clamped (k.take 32) := by
  induction fuel generalizing itr with
  | zero => cases h
  | succ n ih =>
    rw [byronLegacyHashRepeatedly_succ] at h
    split at h
    · exact ih _ h
    · next hc =>
      have e := Except.ok.inj h
      have ek := congrArg Prod.fst e
      have ec := congrArg Prod.snd e
      simp only at ek ec
      rw [← ek, ← ec]
      refine ⟨by rw [tweak_length, sha512_length], hmacSha512Halves_snd_length _ _, ?_⟩
      exact clamped_take_tweak_128 _ (by rw [sha512_length]; decide) (by simpa using hc)

theorem byronLegacyHashRepeatedly_error (data : Bytes) (fuel itr : Nat) (e : Err)
    (h : byronLegacyHashRepeatedly data fuel itr = .error e) : e = .fuel := by
  induction fuel generalizing itr with
  | zero => cases h; rfl
  | succ n ih =>
    rw [byronLegacyHashRepeatedly_succ] at h
    split at h
    · exact ih _ h
    · cases h

theorem byronLegacyMasterKey_eq (seed : Bytes) :
    byronLegacyMasterKey seed =
      if seed.length ≠ 32 then .error .value
      else byronLegacyHashRepeatedly (cborBytes32 seed) 4096 1 := by
  unfold byronLegacyMasterKey
  by_cases h : seed.length = 32
  · simp only [h, ne_eq, not_true_eq_false, if_false]
  · simp only [h, ne_eq, not_false_eq_true, if_true]; rfl

/-- **master_clamped** (Byron legacy) -/
theorem byronLegacyMasterKey_ok (seed k cc : Bytes) (h : byronLegacyMasterKey seed = .ok (k, cc)) :
    seed.length = 32 ∧ k.length = 64 ∧ cc.length = 32 ∧ Clamped (k.take 32) := by
  rw [byronLegacyMasterKey_eq] at h
  split at h
  · cases h
  · next hs => exact ⟨by omega, byronLegacyHashRepeatedly_ok _ _ _ _ _ h⟩

theorem byronLegacyMasterKey_badlen (seed : Bytes) (h : seed.length ≠ 32) :
    byronLegacyMasterKey seed = .error .value := by
  rw [byronLegacyMasterKey_eq, if_pos h]

theorem byronLegacyMasterKey_error (seed : Bytes) (e : Err) (h : byronLegacyMasterKey seed = .error e) :
    (e = .value ∧ seed.length ≠ 32) ∨ (e = .fuel ∧ seed.length = 32) := by
  rw [byronLegacyMasterKey_eq] at h
  split at h
  · next hs => cases h; exact Or.inl ⟨rfl, hs⟩
  · next hs => exact Or.inr ⟨byronLegacyHashRepeatedly_error _ _ _ _ h, by omega⟩

/-! ## child key formulas (BIP32-Ed25519 and the Byron-legacy variant) -/

theorem pow256_32 : (256 : Nat) ^ 32 = 2 ^ 256 := by norm_num

/-- the integer the Khovratovich-Law scheme stores as the child's left half: `8·zL[:28] + kL` -/
def childLeftVal (zl kl : Bytes) : Nat := Bytes.toNatLE (zl.take 28) * 8 + Bytes.toNatLE kl

theorem kholawNewLeft_kholaw_eq (zl kl : Bytes) :
    kholawNewLeft .kholaw zl kl =
      if childLeftVal zl kl % edL = 0 then .error .key
      else if 2 ^ 255 ≤ childLeftVal zl kl then .error .key
      else toBytesLE (childLeftVal zl kl) 32 := by
  unfold kholawNewLeft childLeftVal
  rw [if_neg (by decide)]
  rfl

/-- `8·zL[:28] < 2^227` -/
theorem childLeftVal_lt (zl kl : Bytes) : childLeftVal zl kl < Bytes.toNatLE kl + 2 ^ 227 := by
  have := kholaw_scalar_lt zl
  rw [kholawPubScalar_kholaw] at this
  unfold childLeftVal; omega

/-- **kholaw_child_left_spec**: value and width of the new left half -/
theorem kholaw_child_left_spec (zl kl r : Bytes) (h : kholawNewLeft .kholaw zl kl = .ok r) :
    Bytes.toNatLE r = Bytes.toNatLE (zl.take 28) * 8 + Bytes.toNatLE kl ∧ r.length = 32 := by
  rw [kholawNewLeft_kholaw_eq] at h
  split at h
  · cases h
  · split at h
    · cases h
    · exact toBytesLE_toNatLE h

/-- it succeeds exactly when the sum is `≢ 0 (mod L)` and below `2^255` (the bound of the second
library repair; `2^256` after the first) -/
theorem kholaw_child_left_ok_iff (zl kl : Bytes) :
    (∃ r, kholawNewLeft .kholaw zl kl = .ok r) ↔
      childLeftVal zl kl % edL ≠ 0 ∧ childLeftVal zl kl < 2 ^ 255 := by
  rw [kholawNewLeft_kholaw_eq]
  by_cases hz : childLeftVal zl kl % edL = 0
  · rw [if_pos hz]; simp [hz]
  · rw [if_neg hz]
    by_cases hv : 2 ^ 255 ≤ childLeftVal zl kl
    · rw [if_pos hv]
      constructor
      · rintro ⟨r, h⟩; cases h
      · rintro ⟨_, h⟩; omega
    · rw [if_neg hv, toBytesLE_ok_iff, pow256_32]
      constructor
      · intro _; exact ⟨hz, by omega⟩
      · intro _; omega

/-- **new_left_below_2_255**: a successful new left half is below `2^255` — bit 255 is clear, so
libsodium's no-clamp multiplication (which ignores bit 255) multiplies by the stored value itself -/
theorem kholaw_child_left_lt_2_255 (zl kl r : Bytes) (h : kholawNewLeft .kholaw zl kl = .ok r) :
    Bytes.toNatLE r < 2 ^ 255 := by
  have hv := (kholaw_child_left_spec zl kl r h).1
  have := ((kholaw_child_left_ok_iff zl kl).mp ⟨r, h⟩).2
  unfold childLeftVal at this; omega

/-- every failure of the Khovratovich-Law left half is a `Bip32KeyError` (since the first library
fix there is no `OverflowError` any more) -/
theorem kholaw_child_left_errors (zl kl : Bytes) (e : Err) (h : kholawNewLeft .kholaw zl kl = .error e) :
    e = .key := by
  rw [kholawNewLeft_kholaw_eq] at h
  split at h
  · cases h; rfl
  · split at h
    · cases h; rfl
    · next hv =>
      rw [toBytesLE_eq_ok _ _ (by rw [pow256_32]; omega)] at h; cases h

/-- it raises `Bip32KeyError` exactly when the sum is `≡ 0 (mod L)` or is `≥ 2^255` (has bit 255
set or needs more than 32 bytes; the bound was `2^256` before the second library repair) -/
theorem kholaw_child_left_key_iff (zl kl : Bytes) :
    kholawNewLeft .kholaw zl kl = .error .key ↔
      childLeftVal zl kl % edL = 0 ∨ 2 ^ 255 ≤ childLeftVal zl kl := by
  constructor
  · intro h
    by_contra hn
    have hok := (kholaw_child_left_ok_iff zl kl).mpr ⟨fun hz => hn (Or.inl hz), by omega⟩
    obtain ⟨r, hr⟩ := hok
    rw [hr] at h; cases h
  · intro h
    rw [kholawNewLeft_kholaw_eq]
    by_cases hz : childLeftVal zl kl % edL = 0
    · rw [if_pos hz]
    · rw [if_neg hz, if_pos (h.resolve_left hz)]

/-- any failure at all is equivalent to that condition -/
theorem kholaw_child_left_error_iff (zl kl : Bytes) (e : Err) :
    kholawNewLeft .kholaw zl kl = .error e ↔
      e = .key ∧ (childLeftVal zl kl % edL = 0 ∨ 2 ^ 255 ≤ childLeftVal zl kl) := by
  constructor
  · intro h
    have he := kholaw_child_left_errors zl kl e h
    subst he
    exact ⟨rfl, (kholaw_child_left_key_iff zl kl).mp h⟩
  · rintro ⟨rfl, h⟩; exact (kholaw_child_left_key_iff zl kl).mpr h

/-- `OverflowError` (`int.to_bytes`) is never raised: a sum `≥ 2^255` (a fortiori `≥ 2^256`) is
refused with `Bip32KeyError` before the conversion -/
theorem kholaw_child_left_never_overflow (zl kl : Bytes) :
    kholawNewLeft .kholaw zl kl ≠ .error .overflow := by
  intro h
  cases kholaw_child_left_errors zl kl _ h

/-- **kholaw_child_invariant**: divisibility by 8 is inherited, each level adds less than `2^227`
(the last clause is kept from the time of the `2^256` bound; its conclusion now holds without the
hypothesis, see `kholaw_child_left_lt_2_255`) -/
theorem kholaw_child_invariant (zl kl r : Bytes) (h : kholawNewLeft .kholaw zl kl = .ok r) :
    (8 ∣ Bytes.toNatLE kl → 8 ∣ Bytes.toNatLE r) ∧
    Bytes.toNatLE kl ≤ Bytes.toNatLE r ∧
    Bytes.toNatLE r < Bytes.toNatLE kl + 2 ^ 227 ∧
    (Bytes.toNatLE kl < 2 ^ 255 - 2 ^ 227 → Bytes.toNatLE r < 2 ^ 255) := by
  obtain ⟨hv, _⟩ := kholaw_child_left_spec zl kl r h
  have hlt := childLeftVal_lt zl kl
  unfold childLeftVal at hlt
  refine ⟨fun hd => ?_, by omega, by omega, fun hk => by omega⟩
  rw [hv]; exact Nat.dvd_add (Dvd.intro_left _ rfl) hd

/-- `d` successive left-half updates (one per derivation level) -/
def kholawLeftChain (zs : List Bytes) (kl : Bytes) : R Bytes :=
  zs.foldlM (fun k z => kholawNewLeft .kholaw z k) kl

theorem kholawLeftChain_cons (z : Bytes) (zs : List Bytes) (kl : Bytes) :
    kholawLeftChain (z :: zs) kl = kholawNewLeft .kholaw z kl >>= kholawLeftChain zs := by
  unfold kholawLeftChain; rw [List.foldlM_cons]

/-- **kholaw_depth_bound**: after `d` levels `kL < kL₀ + d·2^227`, and divisibility by 8 persists -/
theorem kholaw_depth_bound (zs : List Bytes) (kl r : Bytes) (h : kholawLeftChain zs kl = .ok r) :
    Bytes.toNatLE r < Bytes.toNatLE kl + zs.length * 2 ^ 227 + 1 ∧
    (8 ∣ Bytes.toNatLE kl → 8 ∣ Bytes.toNatLE r) ∧ r.length = (if zs = [] then kl.length else 32) := by
  induction zs generalizing kl with
  | nil =>
    have : kl = r := by simpa [kholawLeftChain, pure, Except.pure] using h
    subst this; simp
  | cons z zs ih =>
    rw [kholawLeftChain_cons] at h
    obtain ⟨k1, h1, h2⟩ := (Slip10.bind_ok_iff _ _ _).mp h
    obtain ⟨a, _, c, _⟩ := kholaw_child_invariant z kl k1 h1
    obtain ⟨i1, i2, i3⟩ := ih k1 h2
    have hl := (kholaw_child_left_spec z kl k1 h1).2
    refine ⟨?_, fun hd => i2 (a hd), ?_⟩
    · simp only [List.length_cons]; rw [Nat.add_mul]; omega
    · rw [i3, hl]; simp

/-- from a clamped master (`kL < 2^255`) the scalar stays below `2^255 + d·2^227` -/
theorem kholaw_depth_bound_master (zs : List Bytes) (kl r : Bytes) (hm : Bytes.toNatLE kl < 2 ^ 255)
    (h : kholawLeftChain zs kl = .ok r) : Bytes.toNatLE r < 2 ^ 255 + zs.length * 2 ^ 227 := by
  have := (kholaw_depth_bound zs kl r h).1; omega

/-- since the second library repair (size test at `2^255`) a chain that succeeds stays below `2^255`
at every depth: each successful level is below `2^255` by the test itself -/
theorem kholawLeftChain_lt_2_255 (zs : List Bytes) (kl r : Bytes) (hm : Bytes.toNatLE kl < 2 ^ 255)
    (h : kholawLeftChain zs kl = .ok r) : Bytes.toNatLE r < 2 ^ 255 := by
  induction zs generalizing kl with
  | nil =>
    have : kl = r := by simpa [kholawLeftChain, pure, Except.pure] using h
    subst this; exact hm
  | cons z zs ih =>
    rw [kholawLeftChain_cons] at h
    obtain ⟨k1, h1, h2⟩ := (Slip10.bind_ok_iff _ _ _).mp h
    exact ih k1 (kholaw_child_left_lt_2_255 z kl k1 h1) h2

/-- hence below `2^255` (before the second library repair: `2^256`) for every depth the library
allows (`≤ 255`; the depth hypothesis is kept for the callers but is no longer used) -/
theorem kholaw_depth_bound_256 (zs : List Bytes) (kl r : Bytes) (hm : Bytes.toNatLE kl < 2 ^ 255)
    (_hd : zs.length ≤ 255) (h : kholawLeftChain zs kl = .ok r) : Bytes.toNatLE r < 2 ^ 255 :=
  kholawLeftChain_lt_2_255 zs kl r hm h

theorem kholawLeftChain_append (pre post : List Bytes) (kl : Bytes) :
    kholawLeftChain (pre ++ post) kl = kholawLeftChain pre kl >>= kholawLeftChain post := by
  unfold kholawLeftChain; rw [List.foldlM_append]

/-- … so the size refusal (the sum `≥ 2^255`; originally `OverflowError` for `≥ 2^256`, then
`Bip32KeyError` for `≥ 2^256`, and since the second library repair `Bip32KeyError` for `≥ 2^255`)
never happens along a chain with `kL₀ + d·2^227 ≤ 2^255` — in particular (`kholaw_no_overflow_master`)
from a master scalar, which is below `2^254 + 2^253`, for up to `2^26` levels (the library's depth
limit is 255): at every level of the chain — after any prefix `pre` that succeeded with `r`, for the
next `z` — the sum is below `2^255` -/
theorem kholaw_no_overflow (zs : List Bytes) (kl : Bytes)
    (hm : Bytes.toNatLE kl + zs.length * 2 ^ 227 ≤ 2 ^ 255)
    (pre : List Bytes) (z : Bytes) (post : List Bytes) (hzs : zs = pre ++ z :: post) (r : Bytes)
    (hr : kholawLeftChain pre kl = .ok r) : childLeftVal z r < 2 ^ 255 := by
  have hb := (kholaw_depth_bound pre kl r hr).1
  have hlt := childLeftVal_lt z r
  subst hzs
  simp only [List.length_append, List.length_cons, Nat.add_mul, Nat.one_mul] at hm
  omega

/-- hence along such a chain the only reason for a level to fail is `≡ 0 (mod L)` -/
theorem kholaw_chain_step_error_iff (zs : List Bytes) (kl : Bytes)
    (hm : Bytes.toNatLE kl + zs.length * 2 ^ 227 ≤ 2 ^ 255)
    (pre : List Bytes) (z : Bytes) (post : List Bytes) (hzs : zs = pre ++ z :: post) (r : Bytes)
    (hr : kholawLeftChain pre kl = .ok r) (e : Err) :
    kholawNewLeft .kholaw z r = .error e ↔ e = .key ∧ childLeftVal z r % edL = 0 := by
  have hv := kholaw_no_overflow zs kl hm pre z post hzs r hr
  rw [kholaw_child_left_error_iff]
  constructor
  · rintro ⟨he, h | h⟩
    · exact ⟨he, h⟩
    · omega
  · rintro ⟨he, h⟩; exact ⟨he, Or.inl h⟩

/-- … and a failing chain fails with `Bip32KeyError` at a level whose sum is `≡ 0 (mod L)` (and
below `2^255`) -/
theorem kholaw_chain_error (zs : List Bytes) (kl : Bytes)
    (hm : Bytes.toNatLE kl + zs.length * 2 ^ 227 ≤ 2 ^ 255) (e : Err)
    (h : kholawLeftChain zs kl = .error e) :
    e = .key ∧ ∃ pre z post r, zs = pre ++ z :: post ∧ kholawLeftChain pre kl = .ok r ∧
      childLeftVal z r % edL = 0 ∧ childLeftVal z r < 2 ^ 255 := by
  induction zs generalizing kl with
  | nil => simp [kholawLeftChain, pure, Except.pure] at h
  | cons z zs ih =>
    rw [kholawLeftChain_cons] at h
    rcases (Slip10.bind_error_iff _ _ _).mp h with h1 | ⟨k1, h1, h2⟩
    · have hv := kholaw_no_overflow (z :: zs) kl hm [] z zs rfl kl rfl
      obtain ⟨he, hc⟩ := (kholaw_child_left_error_iff z kl e).mp h1
      refine ⟨he, [], z, zs, kl, rfl, rfl, ?_, hv⟩
      rcases hc with hc | hc
      · exact hc
      · omega
    · obtain ⟨_, _, c, _⟩ := kholaw_child_invariant z kl k1 h1
      simp only [List.length_cons, Nat.add_mul, Nat.one_mul] at hm
      obtain ⟨he, pre, z', post, r, hzs, hr, hmod, hlt⟩ := ih k1 (by omega) h2
      refine ⟨he, z :: pre, z', post, r, by rw [hzs]; rfl, ?_, hmod, hlt⟩
      rw [kholawLeftChain_cons, h1]; exact hr

/-- from a master scalar (`< 2^254 + 2^253`: bit 255 clear, bit 253 clear — `Clamped.lt`) and for
at most 255 levels.  The hypothesis `kL < 2^255` that sufficed for the `2^256` bound does not suffice
for the `2^255` one (`kholaw_size_refusal_below_2_255`). -/
theorem kholaw_no_overflow_master (zs : List Bytes) (kl : Bytes)
    (hm : Bytes.toNatLE kl < 2 ^ 254 + 2 ^ 253)
    (hd : zs.length ≤ 255)
    (pre : List Bytes) (z : Bytes) (post : List Bytes) (hzs : zs = pre ++ z :: post) (r : Bytes)
    (hr : kholawLeftChain pre kl = .ok r) : childLeftVal z r < 2 ^ 255 := by
  apply kholaw_no_overflow zs kl _ pre z post hzs r hr
  have : zs.length * 2 ^ 227 ≤ 255 * 2 ^ 227 := Nat.mul_le_mul_right _ hd
  omega

theorem kholaw_chain_error_master (zs : List Bytes) (kl : Bytes)
    (hm : Bytes.toNatLE kl < 2 ^ 254 + 2 ^ 253)
    (hd : zs.length ≤ 255) (e : Err) (h : kholawLeftChain zs kl = .error e) :
    e = .key ∧ ∃ pre z post r, zs = pre ++ z :: post ∧ kholawLeftChain pre kl = .ok r ∧
      childLeftVal z r % edL = 0 ∧ childLeftVal z r < 2 ^ 255 := by
  apply kholaw_chain_error zs kl _ e h
  have : zs.length * 2 ^ 227 ≤ 255 * 2 ^ 227 := Nat.mul_le_mul_right _ hd
  omega

/-- both reasons for refusal can hold at once: a sum of exactly `8·L > 2^255` (the `% L` test is
the one that fires, it comes first) is reported as `Bip32KeyError`.  Witness: `zL = (L - 2^252) + 1`,
`kL = 2^255 - 8`, so `8·zL + kL = 2^255 + 8·(L - 2^252) = 8·L`.  (The name dates from the `2^256`
bound of the first library repair, when the witness was `16·L`.) -/
theorem kholaw_child_left_key_above_2_256 :
    ∃ zl kl : Bytes, zl.length = 32 ∧ kl.length = 32 ∧ 2 ^ 255 ≤ childLeftVal zl kl ∧
      childLeftVal zl kl % edL = 0 ∧ kholawNewLeft .kholaw zl kl = .error .key := by
  refine ⟨Bytes.ofNatLE 32 27742317777372353535851937790883648494, Bytes.ofNatLE 32 (2 ^ 255 - 8),
    by simp, by simp, ?_, ?_, ?_⟩
  · decide +kernel
  · decide +kernel
  · rw [kholaw_child_left_key_iff]; exact Or.inl (by decide +kernel)

/-- the size refusal on its own: a sum `≥ 2^255` that is *not* a multiple of `L` is reported as
`Bip32KeyError` too (sums `≥ 2^256` raised `OverflowError` before the first library fix; sums in
`[2^255, 2^256)` were accepted until the second one).  Witness: `zL = 1`, `kL = 2^255 - 8`, sum
exactly `2^255`. -/
theorem kholaw_child_left_key_size_only :
    ∃ zl kl : Bytes, zl.length = 32 ∧ kl.length = 32 ∧ 2 ^ 255 ≤ childLeftVal zl kl ∧
      childLeftVal zl kl % edL ≠ 0 ∧ kholawNewLeft .kholaw zl kl = .error .key := by
  refine ⟨Bytes.ofNatLE 32 1, Bytes.ofNatLE 32 (2 ^ 255 - 8), by simp, by simp, ?_, ?_, ?_⟩
  · decide +kernel
  · decide +kernel
  · rw [kholaw_child_left_key_iff]; exact Or.inr (by decide +kernel)

/-- the same witness read the other way: a hand-supplied parent scalar below `2^255` and a multiple
of 8, but with bit 253 set (which no master key generator produces), *can* meet the size refusal at
its first child — so `kL < 2^255` alone no longer excludes it, `kL < 2^254 + 2^253` does -/
theorem kholaw_size_refusal_below_2_255 :
    ∃ zl kl : Bytes, zl.length = 32 ∧ kl.length = 32 ∧ Bytes.toNatLE kl < 2 ^ 255 ∧
      8 ∣ Bytes.toNatLE kl ∧ childLeftVal zl kl % edL ≠ 0 ∧ 2 ^ 255 ≤ childLeftVal zl kl ∧
      kholawNewLeft .kholaw zl kl = .error .key := by
  refine ⟨Bytes.ofNatLE 32 1, Bytes.ofNatLE 32 (2 ^ 255 - 8), by simp, by simp, ?_, ?_, ?_, ?_, ?_⟩
  · decide +kernel
  · decide +kernel
  · decide +kernel
  · decide +kernel
  · rw [kholaw_child_left_key_iff]; exact Or.inr (by decide +kernel)

/-! ### Byron-legacy variant -/

theorem edL_lt : edL < 256 ^ 32 := by unfold edL; norm_num
theorem edL_pos : 0 < edL := by unfold edL; norm_num

theorem kholawNewLeft_legacy_eq (zl kl : Bytes) :
    kholawNewLeft .byronLegacy zl kl =
      toBytesLE ((Bytes.toNatLE (mulNoCarry8 zl) + Bytes.toNatLE kl) % edL) 32 := by
  unfold kholawNewLeft; rw [if_pos rfl]

/-- **legacy_variant_spec**: `(8 ⊙ zL + kL) mod L` with the byte-wise multiplication -/
theorem legacy_variant_spec (zl kl r : Bytes) (h : kholawNewLeft .byronLegacy zl kl = .ok r) :
    Bytes.toNatLE r = (Bytes.toNatLE (mulNoCarry8 zl) + Bytes.toNatLE kl) % edL ∧ r.length = 32 := by
  rw [kholawNewLeft_legacy_eq] at h; exact toBytesLE_toNatLE h

/-- … and it never fails (`< L < 2^256`) -/
theorem legacy_variant_total (zl kl : Bytes) : ∃ r, kholawNewLeft .byronLegacy zl kl = .ok r := by
  rw [kholawNewLeft_legacy_eq, toBytesLE_ok_iff]
  exact Nat.lt_trans (Nat.mod_lt _ edL_pos) edL_lt

theorem mulNoCarry8_length (b : Bytes) : (mulNoCarry8 b).length = b.length := by
  unfold mulNoCarry8; simp

theorem mulNoCarry8_getD (b : Bytes) (i : Nat) :
    ((mulNoCarry8 b).getD i 0).toNat = (b.getD i 0).toNat * 8 % 256 := by
  unfold mulNoCarry8
  simp only [List.getD_eq_getElem?_getD, List.getElem?_map]
  cases b[i]? with
  | none => rfl
  | some x => simp

/-- the byte-wise product is *not* `8·zL` in general (carries are dropped) -/
theorem mulNoCarry8_not_mul :
    ∃ zl : Bytes, zl.length = 32 ∧ Bytes.toNatLE (mulNoCarry8 zl) ≠ Bytes.toNatLE zl * 8 % 2 ^ 256 :=
  ⟨32 :: List.replicate 31 0, by decide, by decide +kernel⟩

/-! ### right halves -/

theorem kholawNewRight_kholaw_eq (zr kr : Bytes) :
    kholawNewRight .kholaw zr kr = toBytesLE ((Bytes.toNatLE zr + Bytes.toNatLE kr) % 2 ^ 256) 32 := by
  unfold kholawNewRight; rw [if_neg (by decide)]

/-- Khovratovich-Law right half: `(zR + kR) mod 2^256`, always defined -/
theorem kholaw_right_spec (zr kr : Bytes) :
    ∃ r, kholawNewRight .kholaw zr kr = .ok r ∧
      Bytes.toNatLE r = (Bytes.toNatLE zr + Bytes.toNatLE kr) % 2 ^ 256 ∧ r.length = 32 := by
  rw [kholawNewRight_kholaw_eq]
  have : (Bytes.toNatLE zr + Bytes.toNatLE kr) % 2 ^ 256 < 256 ^ 32 := by
    rw [pow256_32]; exact Nat.mod_lt _ (by norm_num)
  obtain ⟨r, hr⟩ := (toBytesLE_ok_iff _ _).mpr this
  exact ⟨r, hr, toBytesLE_toNatLE hr⟩

theorem kholawNewRight_legacy_eq (zr kr : Bytes) :
    kholawNewRight .byronLegacy zr kr = .ok (addNoCarry zr kr) := by
  unfold kholawNewRight; rw [if_pos rfl]; rfl

theorem addNoCarry_length (a b : Bytes) : (addNoCarry a b).length = min a.length b.length := by
  unfold addNoCarry; simp

theorem addNoCarry_getD (a b : Bytes) (i : Nat) (ha : i < a.length) (hb : i < b.length) :
    ((addNoCarry a b).getD i 0).toNat = ((a.getD i 0).toNat + (b.getD i 0).toNat) % 256 := by
  unfold addNoCarry
  simp only [List.getD_eq_getElem?_getD, List.getElem?_map,
    List.getElem?_eq_getElem ha, List.getElem?_eq_getElem hb]
  rw [List.getElem?_eq_getElem (by simp; omega)]
  simp

/-- Byron-legacy right half: byte-wise addition without carry (32 bytes for 32-byte inputs) -/
theorem legacy_right_spec (zr kr : Bytes) :
    kholawNewRight .byronLegacy zr kr = .ok (addNoCarry zr kr) ∧
    (addNoCarry zr kr).length = min zr.length kr.length ∧
    ∀ i, i < zr.length → i < kr.length →
      ((addNoCarry zr kr).getD i 0).toNat = ((zr.getD i 0).toNat + (kr.getD i 0).toNat) % 256 :=
  ⟨kholawNewRight_legacy_eq zr kr, addNoCarry_length zr kr, addNoCarry_getD zr kr⟩

/-- the two right-half rules differ -/
theorem legacy_right_not_modular :
    ∃ zr kr : Bytes, zr.length = 32 ∧ kr.length = 32 ∧
      Bytes.toNatLE (addNoCarry zr kr) ≠ (Bytes.toNatLE zr + Bytes.toNatLE kr) % 2 ^ 256 :=
  ⟨255 :: List.replicate 31 0, 1 :: List.replicate 31 0, by decide, by decide, by decide +kernel⟩

/-! ### index serialisation -/

/-- little-endian for Khovratovich-Law / Icarus, big-endian for Byron legacy -/
theorem kholawIndexBytes_spec (s : Scheme) (idx : Nat) :
    (kholawIndexBytes s idx).length = 4 ∧
    (s = .byronLegacy → kholawIndexBytes s idx = Bytes.ofNatBE 4 idx) ∧
    (s ≠ .byronLegacy → kholawIndexBytes s idx = Bytes.ofNatLE 4 idx) ∧
    (idx < 2 ^ 32 → s = .byronLegacy → Bytes.toNatBE (kholawIndexBytes s idx) = idx) ∧
    (idx < 2 ^ 32 → s ≠ .byronLegacy → Bytes.toNatLE (kholawIndexBytes s idx) = idx) := by
  unfold kholawIndexBytes
  refine ⟨by split <;> simp, fun h => by rw [if_pos h], fun h => by rw [if_neg h], ?_, ?_⟩
  · intro hi h; rw [if_pos h]; exact toNatBE_ofNatBE (by norm_num; omega)
  · intro hi h; rw [if_neg h]; exact toNatLE_ofNatLE (by norm_num; omega)

/-- the two serialisations are byte reversals of each other -/
theorem kholawIndexBytes_reverse (idx : Nat) :
    kholawIndexBytes .byronLegacy idx = (kholawIndexBytes .kholaw idx).reverse := by
  unfold kholawIndexBytes; rw [if_pos rfl, if_neg (by decide)]; rfl

/-! ### the node level: `kholawCkdPriv`, `kholawChildKey` and whole paths -/

/-- `Z` of a private derivation (hardened: `0x00 ‖ k ‖ i`, soft: `0x02 ‖ A ‖ i`) -/
def ckdZ (nd : Node) (priv : Bytes) (idx : Nat) : Bytes :=
  if isHardened idx then hmacSha512 nd.chainCode ([0] ++ priv ++ kholawIndexBytes nd.scheme idx)
  else hmacSha512 nd.chainCode ([2] ++ nd.pub.drop 1 ++ kholawIndexBytes nd.scheme idx)

/-- child chain code of a private derivation -/
def ckdCC (nd : Node) (priv : Bytes) (idx : Nat) : Bytes :=
  if isHardened idx then (hmacSha512Halves nd.chainCode ([1] ++ priv ++ kholawIndexBytes nd.scheme idx)).2
  else (hmacSha512Halves nd.chainCode ([3] ++ nd.pub.drop 1 ++ kholawIndexBytes nd.scheme idx)).2

theorem kholawCkdPriv_eq (nd : Node) (priv : Bytes) (idx : Nat) :
    kholawCkdPriv nd priv idx =
      (kholawNewLeft nd.scheme ((ckdZ nd priv idx).take 32) (priv.take 32) >>= fun kl =>
       kholawNewRight nd.scheme ((ckdZ nd priv idx).drop 32) (priv.drop 32) >>= fun kr =>
       .ok (kl ++ kr, ckdCC nd priv idx)) := by
  unfold kholawCkdPriv ckdZ ckdCC
  cases isHardened idx <;>
    simp only [Bool.false_eq_true, if_false, if_true, bind, Except.bind, pure, Except.pure]

theorem ckdCC_length (nd : Node) (priv : Bytes) (idx : Nat) : (ckdCC nd priv idx).length = 32 := by
  unfold ckdCC; split <;> exact hmacSha512Halves_snd_length _ _

/-- the scalar held in the left half of a 64-byte extended private key -/
def leftVal (k : Bytes) : Nat := Bytes.toNatLE (k.take 32)

/-- one private derivation step of the Khovratovich-Law scheme: the key stays 64 bytes, the chain
code 32, and the left scalar is `kL + 8·zL[:28]` -/
theorem kholawCkdPriv_kholaw_ok (nd : Node) (priv : Bytes) (idx : Nat) (k cc : Bytes)
    (hs : nd.scheme = .kholaw) (h : kholawCkdPriv nd priv idx = .ok (k, cc)) :
    k.length = 64 ∧ cc.length = 32 ∧
    kholawNewLeft .kholaw ((ckdZ nd priv idx).take 32) (priv.take 32) = .ok (k.take 32) ∧
    leftVal k = childLeftVal ((ckdZ nd priv idx).take 32) (priv.take 32) := by
  rw [kholawCkdPriv_eq, hs] at h
  obtain ⟨kl, h1, h⟩ := (Slip10.bind_ok_iff _ _ _).mp h
  obtain ⟨kr, h2, h⟩ := (Slip10.bind_ok_iff _ _ _).mp h
  obtain ⟨v1, l1⟩ := kholaw_child_left_spec _ _ _ h1
  obtain ⟨r, hr, _, l2⟩ := kholaw_right_spec ((ckdZ nd priv idx).drop 32) (priv.drop 32)
  rw [hr] at h2
  have hkr : r = kr := Except.ok.inj h2
  subst hkr
  cases h
  have ht : (kl ++ r).take 32 = kl := take_append_of_length _ _ _ l1
  refine ⟨by rw [List.length_append, l1, l2], ckdCC_length _ _ _, by rw [ht]; exact h1, ?_⟩
  unfold leftVal; rw [ht, v1]; rfl

theorem kholawCkdPriv_kholaw_error (nd : Node) (priv : Bytes) (idx : Nat) (e : Err)
    (hs : nd.scheme = .kholaw) (h : kholawCkdPriv nd priv idx = .error e) :
    kholawNewLeft .kholaw ((ckdZ nd priv idx).take 32) (priv.take 32) = .error e := by
  rw [kholawCkdPriv_eq, hs] at h
  rcases (Slip10.bind_error_iff _ _ _).mp h with h1 | ⟨kl, h1, h⟩
  · exact h1
  · obtain ⟨r, hr, _, l2⟩ := kholaw_right_spec ((ckdZ nd priv idx).drop 32) (priv.drop 32)
    rw [hr] at h; cases h

/-- `ChildKey` on a private Khovratovich-Law node -/
theorem kholawChildKey_kholaw_priv_ok (nd c : Node) (idx : Nat) (k : Bytes)
    (hs : nd.scheme = .kholaw) (hp : nd.priv = some k) (h : kholawChildKey nd idx = .ok c) :
    ∃ k', c.priv = some k' ∧ c.scheme = .kholaw ∧ c.curve = nd.curve ∧ k'.length = 64 ∧
      c.chainCode.length = 32 ∧
      leftVal k' = childLeftVal ((ckdZ nd k idx).take 32) (k.take 32) := by
  have hi := kholawChildKey_idx_lt nd idx c h
  rw [kholawChildKey_priv nd idx k hi hp] at h
  obtain ⟨⟨k', cc⟩, h1, h2⟩ := (Slip10.bind_ok_iff _ _ _).mp h
  obtain ⟨_, h2⟩ := (Slip10.guard_ok_iff _ _ _).mp h2
  obtain ⟨_, pub, _, rfl⟩ := (nodeOfPriv_ok_iff ..).mp h2
  obtain ⟨a, b, _, d⟩ := kholawCkdPriv_kholaw_ok nd k idx k' cc hs h1
  exact ⟨k', rfl, hs, rfl, a, b, d⟩

/-- the child of a private Khovratovich-Law node — whatever the parent key is, hand-supplied ones
included — has a left scalar below `2^255` (the size test of the second library repair), so the
scalar libsodium's no-clamp multiplication uses for the child's public key (`edNoClampScalar`, the
value mod `2^255`) is the stored left half itself -/
theorem kholawChildKey_kholaw_child_lt_2_255 (nd c : Node) (idx : Nat) (k : Bytes)
    (hs : nd.scheme = .kholaw) (hp : nd.priv = some k) (h : kholawChildKey nd idx = .ok c) :
    ∃ k', c.priv = some k' ∧ leftVal k' < 2 ^ 255 ∧ edNoClampScalar k' = leftVal k' ∧
      pubOfPriv .ed25519Kholaw k' =
        (if edMulBase (leftVal k') = edIdentity then none
         else some (0 :: edEncode (edMulBase (leftVal k')))) := by
  have hi := kholawChildKey_idx_lt nd idx c h
  rw [kholawChildKey_priv nd idx k hi hp] at h
  obtain ⟨⟨k', cc⟩, h1, h2⟩ := (Slip10.bind_ok_iff _ _ _).mp h
  obtain ⟨_, h2⟩ := (Slip10.guard_ok_iff _ _ _).mp h2
  obtain ⟨_, pub, _, rfl⟩ := (nodeOfPriv_ok_iff ..).mp h2
  obtain ⟨_, _, hleft, _⟩ := kholawCkdPriv_kholaw_ok nd k idx k' cc hs h1
  have hlt : leftVal k' < 2 ^ 255 := kholaw_child_left_lt_2_255 _ _ _ hleft
  refine ⟨k', rfl, hlt, ?_, pubOfPriv_kholaw_eq k' hlt⟩
  unfold edNoClampScalar; exact Nat.mod_eq_of_lt hlt

/-- a private Khovratovich-Law derivation step fails only with `Bip32KeyError`, and exactly when
the new left half is `≡ 0 (mod L)` or is `≥ 2^255` -/
theorem kholawCkdPriv_kholaw_error_iff (nd : Node) (priv : Bytes) (idx : Nat) (e : Err)
    (hs : nd.scheme = .kholaw) :
    kholawCkdPriv nd priv idx = .error e ↔
      e = .key ∧ (childLeftVal ((ckdZ nd priv idx).take 32) (priv.take 32) % edL = 0 ∨
        2 ^ 255 ≤ childLeftVal ((ckdZ nd priv idx).take 32) (priv.take 32)) := by
  rw [← kholaw_child_left_error_iff]
  constructor
  · exact kholawCkdPriv_kholaw_error nd priv idx e hs
  · intro h
    rw [kholawCkdPriv_eq, hs, h]; rfl

/-- `ChildKey` never raises `OverflowError` on a private Khovratovich-Law node (at any size of the
left scalar: a sum `≥ 2^255`, in particular one that needs more than 32 bytes, is refused with
`Bip32KeyError`) -/
theorem kholawChildKey_kholaw_never_overflow (nd : Node) (idx : Nat) (k : Bytes)
    (hs : nd.scheme = .kholaw) (hp : nd.priv = some k) :
    kholawChildKey nd idx ≠ .error .overflow := by
  intro h
  by_cases hi : idx < 2 ^ 32
  swap
  · rw [kholawChildKey_range nd idx (by omega)] at h; cases h
  rw [kholawChildKey_priv nd idx k hi hp] at h
  rcases (Slip10.bind_error_iff _ _ _).mp h with h1 | ⟨x, _, h2⟩
  · have := kholawCkdPriv_kholaw_error nd k idx _ hs h1
    exact kholaw_child_left_never_overflow _ _ this
  · split at h2
    · cases h2
    · rcases nodeOfPriv_error _ _ _ _ _ _ _ _ h2 with ⟨e, _⟩ | ⟨e, _⟩ <;> cases e

/-- while the left scalar is at most `2^255 - 2^227` the new left half is below `2^255`, so the size
refusal of `ChildKey` cannot happen … -/
theorem kholawChildKey_kholaw_no_overflow (nd : Node) (idx : Nat) (k : Bytes)
    (hk : leftVal k + 2 ^ 227 ≤ 2 ^ 255) :
    childLeftVal ((ckdZ nd k idx).take 32) (k.take 32) < 2 ^ 255 := by
  have := childLeftVal_lt ((ckdZ nd k idx).take 32) (k.take 32)
  unfold leftVal at hk; omega

/-- … and the derivation step fails only for `≡ 0 (mod L)` -/
theorem kholawCkdPriv_kholaw_error_iff_of_lt (nd : Node) (k : Bytes) (idx : Nat) (e : Err)
    (hs : nd.scheme = .kholaw) (hk : leftVal k + 2 ^ 227 ≤ 2 ^ 255) :
    kholawCkdPriv nd k idx = .error e ↔
      e = .key ∧ childLeftVal ((ckdZ nd k idx).take 32) (k.take 32) % edL = 0 := by
  have hv := kholawChildKey_kholaw_no_overflow nd idx k hk
  rw [kholawCkdPriv_kholaw_error_iff nd k idx e hs]
  constructor
  · rintro ⟨he, h | h⟩
    · exact ⟨he, h⟩
    · omega
  · rintro ⟨he, h⟩; exact ⟨he, Or.inl h⟩

/-- **kholaw_depth_bound** at the path level: deriving `l` (any mix of hardened and soft indices)
from a private Khovratovich-Law node yields a private node whose left scalar grew by less than
`|l|·2^227` and is still a multiple of 8 if it was. -/
theorem kholaw_path_bound (l : List Nat) (nd c : Node) (k : Bytes)
    (hs : nd.scheme = .kholaw) (hp : nd.priv = some k)
    (h : l.foldlM kholawChildKey nd = .ok c) :
    ∃ k', c.priv = some k' ∧ c.scheme = .kholaw ∧
      leftVal k ≤ leftVal k' ∧ leftVal k' < leftVal k + l.length * 2 ^ 227 + 1 ∧
      (8 ∣ leftVal k → 8 ∣ leftVal k') := by
  induction l generalizing nd k with
  | nil =>
    simp only [List.foldlM_nil, pure, Except.pure] at h; cases h
    exact ⟨k, hp, hs, Nat.le_refl _, by omega, id⟩
  | cons i l ih =>
    rw [List.foldlM_cons] at h
    obtain ⟨n1, h1, h2⟩ := (Slip10.bind_ok_iff _ _ _).mp h
    obtain ⟨k1, p1, s1, _, _, _, v1⟩ := kholawChildKey_kholaw_priv_ok nd n1 i k hs hp h1
    obtain ⟨k', p', s', a, b, d⟩ := ih n1 k1 s1 p1 h2
    have hlt := childLeftVal_lt ((ckdZ nd k i).take 32) (k.take 32)
    have hv : leftVal k1 = Bytes.toNatLE ((ckdZ nd k i).take 32 |>.take 28) * 8 + leftVal k := by
      rw [v1]; rfl
    refine ⟨k', p', s', ?_, ?_, ?_⟩
    · unfold leftVal at *; omega
    · simp only [List.length_cons, Nat.add_mul, Nat.one_mul]
      unfold leftVal at *; omega
    · intro h8; apply d; rw [hv]; exact Nat.dvd_add (Dvd.intro_left _ rfl) h8

/-- `OverflowError` is never raised anywhere along a path from a private Khovratovich-Law node -/
theorem kholaw_path_never_overflow (l : List Nat) (nd : Node) (k : Bytes)
    (hs : nd.scheme = .kholaw) (hp : nd.priv = some k) :
    l.foldlM kholawChildKey nd ≠ .error .overflow := by
  induction l generalizing nd k with
  | nil => simp [pure, Except.pure]
  | cons i l ih =>
    rw [List.foldlM_cons]
    intro h
    rcases (Slip10.bind_error_iff _ _ _).mp h with h1 | ⟨n1, h1, h2⟩
    · exact kholawChildKey_kholaw_never_overflow nd i k hs hp h1
    · obtain ⟨k1, p1, s1, _⟩ := kholawChildKey_kholaw_priv_ok nd n1 i k hs hp h1
      exact ih n1 k1 s1 p1 h2

/-- the size refusal never happens anywhere along a path `l` from a left scalar `kL` with
`kL + |l|·2^227 ≤ 2^255`: at every node `n` reached by a prefix `pre` of the path, the next
derivation step (index `i`) computes a left half below `2^255`, so it can fail only with
`Bip32KeyError` and only for `≡ 0 (mod L)` … -/
theorem kholaw_path_no_overflow (l : List Nat) (nd : Node) (k : Bytes)
    (hs : nd.scheme = .kholaw) (hp : nd.priv = some k)
    (hk : leftVal k + l.length * 2 ^ 227 ≤ 2 ^ 255)
    (pre : List Nat) (i : Nat) (post : List Nat) (hl : l = pre ++ i :: post) (n : Node)
    (hn : pre.foldlM kholawChildKey nd = .ok n) :
    ∃ k', n.priv = some k' ∧ n.scheme = .kholaw ∧
      childLeftVal ((ckdZ n k' i).take 32) (k'.take 32) < 2 ^ 255 ∧
      ∀ e, kholawCkdPriv n k' i = .error e ↔
        e = .key ∧ childLeftVal ((ckdZ n k' i).take 32) (k'.take 32) % edL = 0 := by
  obtain ⟨k', p', s', -, b, -⟩ := kholaw_path_bound pre nd n k hs hp hn
  have hlen : pre.length + 1 ≤ l.length := by
    rw [hl, List.length_append, List.length_cons]; omega
  have hmul : (pre.length + 1) * 2 ^ 227 ≤ l.length * 2 ^ 227 := Nat.mul_le_mul_right _ hlen
  rw [Nat.add_mul, Nat.one_mul] at hmul
  have hk' : leftVal k' + 2 ^ 227 ≤ 2 ^ 255 := by
    unfold leftVal at *; omega
  exact ⟨k', p', s', kholawChildKey_kholaw_no_overflow n i k' hk',
    fun e => kholawCkdPriv_kholaw_error_iff_of_lt n k' i e s' hk'⟩

theorem kholawMaster_ok (s : Scheme) (gen : Bytes → R (Bytes × Bytes)) (seed : Bytes) (m : Node)
    (h : kholawMaster s gen seed = .ok m) :
    ∃ k cc, gen seed = .ok (k, cc) ∧ m.priv = some k ∧ m.chainCode = cc ∧ m.scheme = s ∧
      m.curve = .ed25519Kholaw ∧ m.depth = 0 ∧ m.index = 0 ∧ pubOfPriv .ed25519Kholaw k = some m.pub := by
  unfold kholawMaster at h
  obtain ⟨⟨k, cc⟩, h1, h2⟩ := (Slip10.bind_ok_iff _ _ _).mp h
  obtain ⟨_, pub, hpub, rfl⟩ := (nodeOfPriv_ok_iff ..).mp h2
  exact ⟨k, cc, h1, rfl, rfl, rfl, rfl, rfl, rfl, hpub⟩

/-- a Khovratovich-Law (or Icarus) master node followed by any path of at most 255 levels (the
library's depth limit) never meets the size refusal: at every node reached along the path the next
left half is below `2^255` (a master scalar is below `2^254 + 2^253` and 255 levels add less than
`255·2^227 < 2^253`), so a derivation step can fail only with `Bip32KeyError`, and only because
the new left half is `≡ 0 (mod L)` -/
theorem kholaw_master_path_no_overflow (gen : Bytes → R (Bytes × Bytes)) (seed : Bytes) (m : Node)
    (hgen : ∀ k cc, gen seed = .ok (k, cc) → Clamped (k.take 32))
    (h : kholawMaster .kholaw gen seed = .ok m) (l : List Nat) (hl : l.length ≤ 255)
    (pre : List Nat) (i : Nat) (post : List Nat) (hsplit : l = pre ++ i :: post) (n : Node)
    (hn : pre.foldlM kholawChildKey m = .ok n) :
    ∃ k', n.priv = some k' ∧ n.scheme = .kholaw ∧
      childLeftVal ((ckdZ n k' i).take 32) (k'.take 32) < 2 ^ 255 ∧
      ∀ e, kholawCkdPriv n k' i = .error e ↔
        e = .key ∧ childLeftVal ((ckdZ n k' i).take 32) (k'.take 32) % edL = 0 := by
  obtain ⟨k, cc, hg, hp, _, hs, _⟩ := kholawMaster_ok _ _ _ _ h
  have hc := hgen k cc hg
  apply kholaw_path_no_overflow l m k hs hp _ pre i post hsplit n hn
  have := hc.lt
  have : l.length * 2 ^ 227 ≤ 255 * 2 ^ 227 := Nat.mul_le_mul_right _ hl
  unfold leftVal; omega

/-- … and `OverflowError` is never raised along any path from such a master -/
theorem kholaw_master_path_never_overflow (gen : Bytes → R (Bytes × Bytes)) (seed : Bytes) (m : Node)
    (h : kholawMaster .kholaw gen seed = .ok m) (l : List Nat) :
    l.foldlM kholawChildKey m ≠ .error .overflow := by
  obtain ⟨k, cc, hg, hp, _, hs, _⟩ := kholawMaster_ok _ _ _ _ h
  exact kholaw_path_never_overflow l m k hs hp

/-! ## Shelley addresses -/

theorem shelleyPrefix_eq (hdrType netTag : Nat) (h : hdrType * 16 + netTag < 256) :
    shelleyPrefix hdrType netTag = [UInt8.ofNat (hdrType * 16 + netTag)] := by
  unfold shelleyPrefix; exact toBytesAuto_of_lt_256 h

theorem removePrefix_append {α} [DecidableEq α] (pre rest : List α) :
    removePrefix (pre ++ rest) pre = .ok rest := by
  unfold removePrefix
  rw [List.take_left, List.drop_left]
  simp only [ne_eq, not_true_eq_false, if_false]; rfl

theorem validateLength_ok {α} (a : List α) (n : Nat) (h : a.length = n) : validateLength a n = .ok () := by
  unfold validateLength; simp only [h, ne_eq, not_true_eq_false, if_false]; rfl

theorem bech32Decode_of_encode (hrp : List Char) (hv : ValidHrp hrp) (b : Bytes) (hb : b ≠ [])
    (a : List Char) (h : bech32Encode hrp b = .ok a) : bech32Decode asciiCase hrp a = .ok b := by
  have := bech32_decode_encode hrp hv b hb
  rw [h] at this; exact this

theorem addrKey_ok_iff (c : CurveT) (pub k : Bytes) : addrKey c pub = .ok k ↔ pubFromBytes c pub = some k := by
  unfold addrKey
  cases pubFromBytes c pub with
  | none => simp [throw, throwThe, MonadExceptOf.throw]
  | some x => simp [pure, Except.pure]

/-- **shelley_decode_encode**: the payment address is Bech32 of `header ‖ H(pub) ‖ H(stake)`
(57 bytes, header = network tag for type 0) and decodes back to the two 28-byte key hashes. -/
theorem shelley_decode_encode (hrp : List Char) (hv : ValidHrp hrp) (netTag : Nat) (hn : netTag < 256)
    (pub stake : Bytes) (a : List Char) (h : shelleyEncode hrp netTag pub stake = .ok a) :
    ∃ k s, addrKey .ed25519 pub = .ok k ∧ addrKey .ed25519 stake = .ok s ∧
      bech32Encode hrp ([UInt8.ofNat netTag] ++ blake2b224 (k.drop 1) ++ blake2b224 (s.drop 1)) = .ok a ∧
      shelleyDecode hrp netTag a = .ok (blake2b224 (k.drop 1) ++ blake2b224 (s.drop 1)) := by
  unfold shelleyEncode at h
  obtain ⟨k, hk, h⟩ := (Slip10.bind_ok_iff _ _ _).mp h
  obtain ⟨s, hs, h⟩ := (Slip10.bind_ok_iff _ _ _).mp h
  have hp : shelleyPrefix 0 netTag = [UInt8.ofNat netTag] := by
    rw [shelleyPrefix_eq 0 netTag (by omega)]; simp
  rw [hp] at h
  refine ⟨k, s, hk, hs, h, ?_⟩
  have hdec := bech32Decode_of_encode hrp hv _ (by simp) a h
  unfold shelleyDecode
  rw [hdec, hp]
  have hlen : ([UInt8.ofNat netTag] ++ blake2b224 (k.drop 1) ++ blake2b224 (s.drop 1)).length = 57 := by
    simp [blake2b224_length]
  simp only [ckToValue, bind, Except.bind, validateLength_ok _ 57 hlen]
  rw [List.append_assoc]
  exact removePrefix_append _ _

/-- **staking_decode_encode**: header `0xE0 + netTag`, 29-byte payload -/
theorem staking_decode_encode (hrp : List Char) (hv : ValidHrp hrp) (netTag : Nat) (hn : netTag < 32)
    (pub : Bytes) (a : List Char) (h : shelleyStakingEncode hrp netTag pub = .ok a) :
    ∃ k, addrKey .ed25519 pub = .ok k ∧
      bech32Encode hrp ([UInt8.ofNat (0xE0 + netTag)] ++ blake2b224 (k.drop 1)) = .ok a ∧
      shelleyStakingDecode hrp netTag a = .ok (blake2b224 (k.drop 1)) := by
  unfold shelleyStakingEncode at h
  obtain ⟨k, hk, h⟩ := (Slip10.bind_ok_iff _ _ _).mp h
  have hp : shelleyPrefix 14 netTag = [UInt8.ofNat (0xE0 + netTag)] := by
    rw [shelleyPrefix_eq 14 netTag (by omega)]
  rw [hp] at h
  refine ⟨k, hk, h, ?_⟩
  have hdec := bech32Decode_of_encode hrp hv _ (by simp) a h
  unfold shelleyStakingDecode
  rw [hdec, hp]
  have hlen : ([UInt8.ofNat (0xE0 + netTag)] ++ blake2b224 (k.drop 1)).length = 29 := by
    simp [blake2b224_length]
  simp only [ckToValue, bind, Except.bind, validateLength_ok _ 29 hlen]
  exact removePrefix_append _ _

/-- Shelley encoders only fail through the key validation (`ValueError`) -/
theorem shelleyEncode_ok_iff (hrp : List Char) (netTag : Nat) (pub stake : Bytes) :
    (∃ a, shelleyEncode hrp netTag pub stake = .ok a) ↔
      (∃ k, pubFromBytes .ed25519 pub = some k) ∧ (∃ s, pubFromBytes .ed25519 stake = some s) := by
  unfold shelleyEncode
  constructor
  · rintro ⟨a, h⟩
    obtain ⟨k, hk, h⟩ := (Slip10.bind_ok_iff _ _ _).mp h
    obtain ⟨s, hs, h⟩ := (Slip10.bind_ok_iff _ _ _).mp h
    exact ⟨⟨k, (addrKey_ok_iff _ _ _).mp hk⟩, ⟨s, (addrKey_ok_iff _ _ _).mp hs⟩⟩
  · rintro ⟨⟨k, hk⟩, ⟨s, hs⟩⟩
    rw [(addrKey_ok_iff _ _ _).mpr hk, (addrKey_ok_iff _ _ _).mpr hs]
    simp only [Slip10.bind_ok]
    unfold bech32Encode
    rw [toBase32_eq]
    exact ⟨_, rfl⟩

/-! ## Byron addresses: CBOR heads -/
theorem cborReadHead_small (m k : Nat) (hm : m < 8) (hk : k < 24) (rest : Bytes) :
    cborReadHead (UInt8.ofNat (m * 32 + k) :: rest) = some (m, k, rest) := by
  unfold cborReadHead
  have e : (UInt8.ofNat (m * 32 + k)).toNat = m * 32 + k := uint8_toNat_ofNat_lt (by omega)
  have e1 : (m * 32 + k) / 32 = m := by omega
  have e2 : (m * 32 + k) % 32 = k := by omega
  simp only [e, e1, e2, hk, if_true]

theorem cborReadHead_arg (m k : Nat) (hm : m < 8) (hk1 : 24 ≤ k) (hk2 : k ≤ 27) (arg rest : Bytes)
    (harg : arg.length = 1 <<< (k - 24)) :
    cborReadHead (UInt8.ofNat (m * 32 + k) :: (arg ++ rest)) = some (m, Bytes.toNatBE arg, rest) := by
  unfold cborReadHead
  have e : (UInt8.ofNat (m * 32 + k)).toNat = m * 32 + k := uint8_toNat_ofNat_lt (by omega)
  have e1 : (m * 32 + k) / 32 = m := by omega
  have e2 : (m * 32 + k) % 32 = k := by omega
  have h3 : ¬ k < 24 := by omega
  have h4 : ¬ (arg ++ rest).length < 1 <<< (k - 24) := by rw [List.length_append, harg]; omega
  simp only [e, e1, e2, h3, if_false, hk2, if_true, h4]
  rw [← harg, List.take_left, List.drop_left]

theorem cborHead_length_le (m n : Nat) : (cborHead m n).length ≤ 9 := by
  unfold cborHead; simp only; split_ifs <;> simp

theorem cborReadHead_cborHead (m n : Nat) (hm : m < 8) (hn : n < 2 ^ 64) (rest : Bytes) :
    cborReadHead (cborHead m n ++ rest) = some (m, n, rest) := by
  unfold cborHead
  simp only
  split_ifs with h1 h2 h3 h4
  · exact cborReadHead_small m n hm h1 rest
  · rw [List.cons_append, cborReadHead_arg m 24 hm (by omega) (by omega) _ _ (by simp),
      toNatBE_ofNatBE (by omega)]
  · rw [List.cons_append, cborReadHead_arg m 25 hm (by omega) (by omega) _ _ (by simp),
      toNatBE_ofNatBE (by omega)]
  · rw [List.cons_append, cborReadHead_arg m 26 hm (by omega) (by omega) _ _ (by simp),
      toNatBE_ofNatBE (by omega)]
  · rw [List.cons_append, cborReadHead_arg m 27 hm (by omega) (by omega) _ _ (by simp),
      toNatBE_ofNatBE (by omega)]

theorem cborReadBytes_item (b rest : Bytes) (hb : b.length < 2 ^ 64) :
    cborReadBytes (cborBytesItem b ++ rest) = some (b, rest) := by
  unfold cborReadBytes cborBytesItem
  rw [List.append_assoc, cborReadHead_cborHead 2 _ (by omega) hb]
  simp

/-- the CBOR-serialised address root `[0, [0, pub ‖ cc], attrs]` -/
def byronRoot (pub cc : Bytes) (hdEnc : Option Bytes) : Bytes :=
  cborHead 4 3 ++ cborHead 0 0 ++ (cborHead 4 2 ++ cborHead 0 0 ++ cborBytesItem (pub ++ cc)) ++ byronAttrs hdEnc

/-- `blake2b-224(sha3-256(root))` -/
def byronRootHash (pub cc : Bytes) (hdEnc : Option Bytes) : Bytes :=
  blake2b224 (sha3_256 (byronRoot pub cc hdEnc))

/-- the address payload `[rootHash, attrs, 0]` -/
def byronPayload (pub cc : Bytes) (hdEnc : Option Bytes) : Bytes :=
  cborHead 4 3 ++ cborBytesItem (byronRootHash pub cc hdEnc) ++ byronAttrs hdEnc ++ cborHead 0 0

theorem byronAddrBytes_eq (pub cc : Bytes) (hdEnc : Option Bytes) :
    byronAddrBytes pub cc hdEnc =
      cborHead 4 2 ++ (cborHead 6 24 ++ cborBytesItem (byronPayload pub cc hdEnc)) ++
        cborHead 0 (crc32 (byronPayload pub cc hdEnc)) := rfl

theorem byronRootHash_length (pub cc : Bytes) (hdEnc : Option Bytes) :
    (byronRootHash pub cc hdEnc).length = 28 := blake2b224_length _

theorem cborBytesItem_length_le (b : Bytes) : (cborBytesItem b).length ≤ b.length + 9 := by
  unfold cborBytesItem; rw [List.length_append]; have := cborHead_length_le 2 b.length; omega

theorem byronAttrs_length_le (hdEnc : Option Bytes) :
    (byronAttrs hdEnc).length ≤ (hdEnc.getD []).length + 36 := by
  cases hdEnc with
  | none => unfold byronAttrs; have := cborHead_length_le 5 0; simp only [Option.getD_none]; omega
  | some e =>
    unfold byronAttrs
    simp only [List.length_append, Option.getD_some]
    have := cborHead_length_le 5 1
    have := cborHead_length_le 0 1
    have := cborBytesItem_length_le (cborBytesItem e)
    have := cborBytesItem_length_le e
    omega

theorem byronPayload_length_le (pub cc : Bytes) (hdEnc : Option Bytes) :
    (byronPayload pub cc hdEnc).length ≤ (hdEnc.getD []).length + 100 := by
  unfold byronPayload
  simp only [List.length_append]
  have := cborHead_length_le 4 3
  have := cborHead_length_le 0 0
  have := cborBytesItem_length_le (byronRootHash pub cc hdEnc)
  have := byronRootHash_length pub cc hdEnc
  have := byronAttrs_length_le hdEnc
  omega

/-- **byron_decode_encode**: the decoder returns `rootHash ‖ encrypted path` (or just the root hash
when there is no path attribute); the CRC-32 of the payload verifies on the way.  Holds for every
`pub`, `cc` (they are only hashed) and every encrypted path of less than `2^64 - 200` bytes. -/
theorem byron_decode_encode (pub cc : Bytes) (hdEnc : Option Bytes)
    (hl : (hdEnc.getD []).length + 200 < 2 ^ 64) :
    byronDecode (b58Encode btcAlphabet (byronAddrBytes pub cc hdEnc)) =
      .ok (byronRootHash pub cc hdEnc ++ hdEnc.getD []) := by
  have hpl := byronPayload_length_le pub cc hdEnc
  unfold byronDecode
  rw [b58_decode_encode btcAlphabet (by decide) (by decide)]
  simp only [bind, Except.bind]
  rw [byronAddrBytes_eq, List.append_assoc,
    cborReadHead_cborHead 4 2 (by omega) (by norm_num)]
  simp only []
  rw [List.append_assoc, cborReadHead_cborHead 6 24 (by omega) (by norm_num)]
  simp only []
  rw [cborReadBytes_item _ _ (by omega)]
  simp only []
  have hcrc := crc32_lt (byronPayload pub cc hdEnc)
  have : cborHead 0 (crc32 (byronPayload pub cc hdEnc)) = cborHead 0 (crc32 (byronPayload pub cc hdEnc)) ++ [] := by simp
  rw [this, cborReadHead_cborHead 0 _ (by omega) (by omega)]
  simp only [ne_eq, not_true_eq_false, if_false]
  unfold byronPayload
  rw [List.append_assoc, List.append_assoc, cborReadHead_cborHead 4 3 (by omega) (by norm_num)]
  simp only []
  rw [cborReadBytes_item _ _ (by rw [byronRootHash_length]; norm_num)]
  simp only [byronRootHash_length, not_true_eq_false, if_false]
  cases hdEnc with
  | none =>
    unfold byronAttrs
    simp only []
    rw [cborReadHead_cborHead 5 0 (by omega) (by norm_num)]
    simp only [Option.getD_none, List.append_nil]
    rfl
  | some e =>
    simp only [Option.getD_some] at hl
    unfold byronAttrs
    simp only []
    rw [List.append_assoc, List.append_assoc, cborReadHead_cborHead 5 1 (by omega) (by norm_num)]
    simp only []
    rw [cborReadHead_cborHead 0 1 (by omega) (by norm_num)]
    simp only []
    have := cborBytesItem_length_le e
    rw [cborReadBytes_item _ _ (by omega)]
    simp only []
    have h2 : cborBytesItem e = cborBytesItem e ++ [] := by simp
    rw [h2, cborReadBytes_item _ _ (by omega)]
    simp only [Option.getD_some]
    rfl


/-- **byron_addr_structure**: `82 d8 18 <bytes payload> <uint crc32(payload)>` – a two-element
array of the tag-24 wrapped payload and its CRC-32 in CBOR's shortest unsigned form -/
theorem byron_addr_structure (pub cc : Bytes) (hdEnc : Option Bytes) :
    byronAddrBytes pub cc hdEnc =
      [0x82, 0xd8, 0x18] ++ cborBytesItem (byronPayload pub cc hdEnc) ++
        cborHead 0 (crc32 (byronPayload pub cc hdEnc)) ∧
    cborUint (crc32 (byronPayload pub cc hdEnc)) = .ok (cborHead 0 (crc32 (byronPayload pub cc hdEnc))) ∧
    byronPayload pub cc hdEnc =
      [0x83, 0x58, 0x1c] ++ byronRootHash pub cc hdEnc ++ byronAttrs hdEnc ++ [0x00] := by
  refine ⟨by rw [byronAddrBytes_eq]; rfl, ?_, ?_⟩
  · have h := crc32_lt (byronPayload pub cc hdEnc)
    generalize crc32 (byronPayload pub cc hdEnc) = n at h
    unfold cborUint cborHead
    simp only [Nat.zero_mul, Nat.zero_add]
    have h64 : n < 2 ^ 64 := by omega
    split_ifs <;> rfl
  · unfold byronPayload cborBytesItem
    rw [byronRootHash_length]; rfl

/-- **byron_crc_verifies**: an address whose trailing CRC differs from `crc32(payload)` is
refused with `ValueError` (whatever the payload is) -/
theorem byron_crc_mismatch (payload : Bytes) (crc : Nat) (hp : payload.length < 2 ^ 64)
    (hc : crc < 2 ^ 64) (hne : crc ≠ crc32 payload) :
    byronDecode (b58Encode btcAlphabet
      (cborHead 4 2 ++ (cborHead 6 24 ++ cborBytesItem payload) ++ cborHead 0 crc)) = .error .value := by
  unfold byronDecode
  rw [b58_decode_encode btcAlphabet (by decide) (by decide)]
  simp only [bind, Except.bind]
  rw [List.append_assoc, cborReadHead_cborHead 4 2 (by omega) (by norm_num)]
  simp only []
  rw [List.append_assoc, cborReadHead_cborHead 6 24 (by omega) (by norm_num)]
  simp only []
  rw [cborReadBytes_item _ _ hp]
  simp only []
  have : cborHead 0 crc = cborHead 0 crc ++ [] := by simp
  rw [this, cborReadHead_cborHead 0 _ (by omega) hc]
  simp only [ne_eq, hne, not_false_eq_true, if_true]
  rfl

/-! ## Byron encoders and the encrypted derivation path -/

theorem byronIcarusEncode_ok (pub cc : Bytes) (a : List Char) (h : byronIcarusEncode pub cc = .ok a) :
    ∃ k, pubFromBytes .ed25519 pub = some k ∧ cc.length = 32 ∧
      a = b58Encode btcAlphabet (byronAddrBytes (k.drop 1) cc none) := by
  unfold byronIcarusEncode at h
  obtain ⟨k, hk, h⟩ := (Slip10.bind_ok_iff _ _ _).mp h
  by_cases hc : cc.length = 32
  · simp only [hc, ne_eq, not_true_eq_false, if_false] at h
    exact ⟨k, (addrKey_ok_iff _ _ _).mp hk, hc, (Except.ok.inj h).symm⟩
  · simp only [hc, ne_eq, not_false_eq_true, if_true] at h; cases h

/-- Icarus addresses decode to their root hash -/
theorem byron_icarus_decode_encode (pub cc : Bytes) (a : List Char) (h : byronIcarusEncode pub cc = .ok a) :
    ∃ k, pubFromBytes .ed25519 pub = some k ∧ byronDecode a = .ok (byronRootHash (k.drop 1) cc none) := by
  obtain ⟨k, hk, _, rfl⟩ := byronIcarusEncode_ok pub cc a h
  refine ⟨k, hk, ?_⟩
  have := byron_decode_encode (k.drop 1) cc none (by simp)
  simpa using this

theorem byronLegacyEncode_some (aead : Aead) (pub cc : Bytes) (path : List Nat) (key : Bytes) :
    byronLegacyEncode aead pub cc path (some key) =
      if key.length ≠ 32 then .error .value
      else addrKey .ed25519 pub >>= fun k =>
        if cc.length ≠ 32 then .error .value
        else cborIndefEncode path >>= fun plain =>
          .ok (b58Encode btcAlphabet (byronAddrBytes (k.drop 1) cc (some (aead key byronNonce [] plain)))) := by
  unfold byronLegacyEncode
  by_cases hk : key.length = 32
  · simp only [hk, ne_eq, not_true_eq_false, if_false, bind, Except.bind, pure, Except.pure]
    cases addrKey .ed25519 pub with
    | error e => rfl
    | ok k =>
      simp only []
      by_cases hc : cc.length = 32
      · simp only [hc, not_true_eq_false, if_false]
      · simp only [hc, not_false_eq_true, if_true]; rfl
  · simp only [hk, ne_eq, not_false_eq_true, if_true, bind, Except.bind]; rfl

theorem byronLegacyEncode_none (aead : Aead) (pub cc : Bytes) (path : List Nat) :
    byronLegacyEncode aead pub cc path none = byronIcarusEncode pub cc := by
  unfold byronLegacyEncode byronIcarusEncode
  simp only [bind, Except.bind, pure, Except.pure]

/-- Byron-legacy addresses (with an encrypted path) decode to `rootHash ‖ ciphertext` -/
theorem byron_legacy_decode_encode (aead : Aead) (pub cc : Bytes) (path : List Nat) (key : Bytes)
    (a : List Char) (h : byronLegacyEncode aead pub cc path (some key) = .ok a)
    (hlen : ∀ p, (aead key byronNonce [] p).length + 200 < 2 ^ 64) :
    ∃ k plain, pubFromBytes .ed25519 pub = some k ∧ cborIndefEncode path = .ok plain ∧
      key.length = 32 ∧ cc.length = 32 ∧
      byronDecode a = .ok (byronRootHash (k.drop 1) cc (some (aead key byronNonce [] plain)) ++
        aead key byronNonce [] plain) := by
  rw [byronLegacyEncode_some] at h
  split at h
  · cases h
  next hk =>
  obtain ⟨k, hkk, h⟩ := (Slip10.bind_ok_iff _ _ _).mp h
  split at h
  · cases h
  next hc =>
  obtain ⟨plain, hplain, h⟩ := (Slip10.bind_ok_iff _ _ _).mp h
  have ha := (Except.ok.inj h).symm
  refine ⟨k, plain, (addrKey_ok_iff _ _ _).mp hkk, hplain, by omega, by omega, ?_⟩
  rw [ha]
  have := byron_decode_encode (k.drop 1) cc (some (aead key byronNonce [] plain))
    (by simpa using hlen plain)
  simpa using this

/-- AEAD decryption as the decoder calls it: `(key, nonce, aad, ciphertext, tag)` -/
abbrev AeadDec := Bytes → Bytes → Bytes → Bytes → Bytes → Option Bytes

/-- what the path recovery needs from the AEAD pair (both are third-party code in the library):
decrypting `ciphertext ‖ tag` split 16 bytes from the end returns the plaintext, and the
ciphertext is 16 bytes longer than the plaintext -/
structure AeadLaw (aead : Aead) (dec : AeadDec) : Prop where
  dec_enc : ∀ key nonce aad p,
    dec key nonce aad (dropLast (aead key nonce aad p) 16) (takeLast (aead key nonce aad p) 16) = some p
  length : ∀ key nonce aad p, (aead key nonce aad p).length = p.length + 16

/-- `CardanoByronLegacy.HdPathFromAddress` (the model in `Driver/Cardano.lean`, with the decryption
function as a parameter) -/
def byronRecoverPathWith (dec : AeadDec) (master : Node) (addr : List Char) : R (List Nat) := do
  let d ← byronDecode addr
  let enc := d.drop 28
  let key := byronHdPathKey master
  match dec key byronNonce [] (dropLast enc 16) (takeLast enc 16) with
  | none => throw .value
  | some plain =>
    let items ← cborIndefDecode cborLoadsUint plain
    let vals ← items.mapM fun it => match it with
      | .uint n => pure n
      | .other => throw Err.path
    if vals.any (· > 2 ^ 32 - 1) then throw .path
    pure vals

theorem harden_le (i : Nat) (h : i ≤ 2 ^ 32 - 1) : harden i ≤ 2 ^ 32 - 1 := by
  unfold harden; split <;> omega

theorem mapM_uint (l : List Nat) :
    (l.map CborItem.uint).mapM (fun it => match it with
      | .uint n => (pure n : R Nat)
      | .other => throw Err.path) = .ok l := by
  induction l with
  | nil => rfl
  | cons a t ih => rw [List.map_cons, List.mapM_cons, ih]; rfl

theorem byronLegacyAddress_ok (aead : Aead) (master : Node) (first second : Nat) (addr : List Char)
    (h : byronLegacyAddress aead master first second = .ok addr) :
    first ≤ 2 ^ 32 - 1 ∧ second ≤ 2 ^ 32 - 1 ∧
    ∃ nd, [harden first, harden second].foldlM kholawChildKey master = .ok nd ∧
      byronLegacyEncode aead nd.pub nd.chainCode [harden first, harden second]
        (some (byronHdPathKey master)) = .ok addr := by
  unfold byronLegacyAddress at h
  by_cases hc : first > 2 ^ 32 - 1 || second > 2 ^ 32 - 1
  · simp only [hc, if_true] at h; cases h
  · simp only [hc, Bool.false_eq_true, if_false] at h
    obtain ⟨nd, h1, h2⟩ := (Slip10.bind_ok_iff _ _ _).mp h
    simp only [Bool.or_eq_true, decide_eq_true_eq, not_or, Nat.not_lt] at hc
    exact ⟨by omega, by omega, nd, h1, h2⟩

/-- **byron_path_recover**: under the AEAD law, the path recovered from a Byron-legacy address of
the wallet is the hardened pair it was built from -/
theorem byron_path_recover (aead : Aead) (dec : AeadDec) (law : AeadLaw aead dec) (master : Node)
    (first second : Nat) (addr : List Char)
    (h : byronLegacyAddress aead master first second = .ok addr) :
    byronRecoverPathWith dec master addr = .ok [harden first, harden second] := by
  obtain ⟨hf, hs, nd, _, henc⟩ := byronLegacyAddress_ok aead master first second addr h
  rw [byronLegacyEncode_some] at henc
  split at henc
  · cases henc
  obtain ⟨k, _, henc⟩ := (Slip10.bind_ok_iff _ _ _).mp henc
  split at henc
  · cases henc
  obtain ⟨plain, hplain, henc⟩ := (Slip10.bind_ok_iff _ _ _).mp henc
  have haddr := (Except.ok.inj henc).symm
  have hlt : ∀ n ∈ [harden first, harden second], n < 2 ^ 64 := by
    intro n hn
    have h1 := harden_le first hf
    have h2 := harden_le second hs
    simp only [List.mem_cons, List.mem_nil_iff, or_false] at hn
    rcases hn with rfl | rfl <;> omega
  have hrt := cborIndef_roundtrip (l := [harden first, harden second]) (by simp) hlt
  rw [hplain] at hrt
  have hpl : plain.length ≤ 20 := by
    rw [cborIndefEncode_ok hlt] at hplain
    have := Except.ok.inj hplain
    rw [← this]
    have c1 := cborHead_length_le 0 (harden first)
    have c2 := cborHead_length_le 0 (harden second)
    have e : ∀ n, cborBytes n = cborHead 0 n := by
      intro n; unfold cborBytes cborHead; simp only [Nat.zero_mul, Nat.zero_add]
      split_ifs <;> rfl
    simp only [List.map_cons, List.map_nil, List.flatten_cons, List.flatten_nil, List.length_append,
      List.length_cons, List.length_nil, e]
    omega
  set ct := aead (byronHdPathKey master) byronNonce [] plain with hct
  have hctl : ct.length = plain.length + 16 := law.length _ _ _ _
  have hdec := byron_decode_encode (k.drop 1) nd.chainCode (some ct) (by simp; omega)
  unfold byronRecoverPathWith
  rw [haddr, hdec]
  simp only [Slip10.bind_ok, Option.getD_some]
  rw [drop_append_of_length _ _ 28 (byronRootHash_length _ _ _), hct, law.dec_enc]
  simp only []
  change (cborIndefDecode cborLoadsUint plain >>= _) = _
  have hrt' : cborIndefDecode cborLoadsUint plain = .ok ([harden first, harden second].map .uint) := hrt
  rw [hrt', Slip10.bind_ok, mapM_uint, Slip10.bind_ok]
  have h1 := harden_le first hf
  have h2 := harden_le second hs
  have hany : ([harden first, harden second].any (· > 2 ^ 32 - 1)) = false := by
    simp only [List.any_cons, List.any_nil, Bool.or_false, Bool.or_eq_false_iff, decide_eq_false_iff_not]
    omega
  simp only [hany, Bool.false_eq_true, if_false]
  rfl

/-! ## ChaCha20-Poly1305: the AEAD law holds for the reference implementation

Only the *structure* of the construction is used (xor with a key stream that depends on key,
nonce, counter and position only; tag recomputed from the ciphertext) — no property of the
ChaCha20 block function or of Poly1305 beyond their output lengths. -/

theorem zipWith_xor_cancel (a B : Bytes) (h : a.length ≤ B.length) :
    List.zipWith (· ^^^ ·) (List.zipWith (· ^^^ ·) a B) B = a := by
  induction a generalizing B with
  | nil => simp
  | cons x t ih =>
    cases B with
    | nil => simp at h
    | cons y s =>
      simp only [List.zipWith_cons_cons, List.cons.injEq]
      refine ⟨by rw [UInt8.xor_assoc, UInt8.xor_self, UInt8.xor_zero], ih s (by simpa using h)⟩

theorem xorLoop_succ (key nonce : Array UInt8) (k c : Nat) (data : Bytes) :
    ChaCha.xorLoop key nonce (k + 1) c data =
      List.zipWith (· ^^^ ·) (data.take 64) (ChaCha.block key (UInt32.ofNat c) nonce) ++
        ChaCha.xorLoop key nonce k (c + 1) (data.drop 64) := rfl

theorem xorLoop_nil (key nonce : Array UInt8) (k c : Nat) : ChaCha.xorLoop key nonce k c [] = [] := by
  induction k generalizing c with
  | zero => rfl
  | succ n ih => rw [xorLoop_succ]; simp [ih]

theorem xorLoop_length (key nonce : Array UInt8) (k c : Nat) (data : Bytes) :
    (ChaCha.xorLoop key nonce k c data).length = min data.length (64 * k) := by
  induction k generalizing c data with
  | zero => simp [ChaCha.xorLoop]
  | succ n ih =>
    rw [xorLoop_succ, List.length_append, ih, List.length_zipWith, ChaCha.block_length,
      List.length_take, List.length_drop]
    omega

theorem xorLoop_involutive (key nonce : Array UInt8) (k c : Nat) (data : Bytes)
    (h : data.length ≤ 64 * k) :
    ChaCha.xorLoop key nonce k c (ChaCha.xorLoop key nonce k c data) = data := by
  induction k generalizing c data with
  | zero =>
    have : data = [] := List.eq_nil_of_length_eq_zero (by omega)
    subst this; rfl
  | succ n ih =>
    rw [xorLoop_succ key nonce n c data]
    set B := ChaCha.block key (UInt32.ofNat c) nonce with hB
    have hBl : B.length = 64 := ChaCha.block_length _ _ _
    set Z := List.zipWith (· ^^^ ·) (data.take 64) B with hZ
    set R := ChaCha.xorLoop key nonce n (c + 1) (data.drop 64) with hR
    have hZl : Z.length = min 64 data.length := by
      rw [hZ, List.length_zipWith, hBl, List.length_take]; omega
    have htake : (Z ++ R).take 64 = Z ∧ (Z ++ R).drop 64 = R := by
      by_cases hd : 64 ≤ data.length
      · have : Z.length = 64 := by omega
        exact ⟨List.take_left' this, List.drop_left' this⟩
      · have hR0 : R = [] := by
          rw [hR, List.drop_of_length_le (by omega), xorLoop_nil]
        rw [hR0, List.append_nil]
        exact ⟨List.take_of_length_le (by omega), List.drop_of_length_le (by omega)⟩
    rw [xorLoop_succ, htake.1, htake.2, ← hB, hZ,
      zipWith_xor_cancel _ _ (by rw [hBl, List.length_take]; omega), hR,
      ih (c + 1) (data.drop 64) (by rw [List.length_drop]; omega), List.take_append_drop]

/-- ChaCha20 encryption is its own inverse (same key, counter, nonce) -/
theorem chacha20Xor_involutive (key : Bytes) (counter : Nat) (nonce data : Bytes) :
    chacha20Xor key counter nonce (chacha20Xor key counter nonce data) = data := by
  unfold chacha20Xor
  have hk : data.length ≤ 64 * ((data.length + 63) / 64) := by omega
  have hl : (ChaCha.xorLoop key.toArray nonce.toArray ((data.length + 63) / 64) counter data).length
      = data.length := by rw [xorLoop_length]; omega
  rw [hl]
  exact xorLoop_involutive _ _ _ _ _ hk

theorem chacha20Xor_length (key : Bytes) (counter : Nat) (nonce data : Bytes) :
    (chacha20Xor key counter nonce data).length = data.length := by
  unfold chacha20Xor; rw [xorLoop_length]; omega

theorem aeadTag_length (key nonce aad cipher : Bytes) : (ChaCha.aeadTag key nonce aad cipher).length = 16 := by
  unfold ChaCha.aeadTag poly1305; exact length_ofNatLE _ _

/-- RFC 8439 decryption inverts encryption (the tag is recomputed from the same ciphertext) -/
theorem chacha20Poly1305_decrypt_encrypt (key nonce aad plain : Bytes) :
    chacha20Poly1305Decrypt key nonce aad (chacha20Poly1305Encrypt key nonce aad plain).1
      (chacha20Poly1305Encrypt key nonce aad plain).2 = some plain := by
  unfold chacha20Poly1305Decrypt chacha20Poly1305Encrypt
  simp only [if_true, chacha20Xor_involutive]

/-- the AEAD as the library applies it: `ciphertext ‖ tag` (identical to `Driver.chachaAead`) -/
def chachaAead : Aead := fun key nonce aad plain =>
  (chacha20Poly1305Encrypt key nonce aad plain).1 ++ (chacha20Poly1305Encrypt key nonce aad plain).2

/-- **the AEAD law is a theorem for the reference ChaCha20-Poly1305** -/
theorem chacha_aeadLaw : AeadLaw chachaAead chacha20Poly1305Decrypt where
  dec_enc key nonce aad p := by
    have ht : (chacha20Poly1305Encrypt key nonce aad p).2.length = 16 := aeadTag_length _ _ _ _
    have h1 : dropLast (chachaAead key nonce aad p) 16 = (chacha20Poly1305Encrypt key nonce aad p).1 := by
      unfold chachaAead; rw [← ht]; exact dropLast_append_length _ _
    have h2 : takeLast (chachaAead key nonce aad p) 16 = (chacha20Poly1305Encrypt key nonce aad p).2 := by
      unfold chachaAead takeLast
      rw [List.length_append, ht, Nat.add_sub_cancel]
      exact List.drop_left
    rw [h1, h2]; exact chacha20Poly1305_decrypt_encrypt key nonce aad p
  length key nonce aad p := by
    unfold chachaAead
    rw [List.length_append]
    show (chacha20Xor key 1 nonce p).length + (ChaCha.aeadTag _ _ _ _).length = _
    rw [chacha20Xor_length, aeadTag_length]

/-- **byron_path_recover**, unconditional for the reference AEAD -/
theorem byron_path_recover_chacha (master : Node) (first second : Nat) (addr : List Char)
    (h : byronLegacyAddress chachaAead master first second = .ok addr) :
    byronRecoverPathWith chacha20Poly1305Decrypt master addr = .ok [harden first, harden second] :=
  byron_path_recover chachaAead chacha20Poly1305Decrypt chacha_aeadLaw master first second addr h

end BipVerif.Model.CardanoLemmas
