/-
C10 for addresses — soundness / canonicity of the address decoders: whatever a decoder accepts is
(the lower-cased, for Bech32) output of the corresponding encoder for the returned payload, and the
payload has the format's length.  Built on the codec canonicity lemmas (`b58Check_encode_decode`,
`b58_encode_decode`, `bechDecodeRaw_sound`, `base32_decode_canonical`, `ss58_decode_canonical'`,
`xmr_decode_canonical`) plus the 5→8→5 canonicity of `ConvertBits` proved here.
-/
import BipVerif.Lemmas.AddrBase58
import BipVerif.Lemmas.AddrBech32
import BipVerif.Lemmas.AddrEth
import BipVerif.Lemmas.AddrBase32
import BipVerif.Lemmas.AddrMisc
import BipVerif.Lemmas.AddrEnc

namespace BipVerif.Model
open BipVerif BipVerif.Prim

/-! ### Bech32 at the byte level -/

/-- **5→8→5 canonicity**: when the unpadded regrouping of 5-bit symbols into bytes succeeds, the
padded regrouping of those bytes gives the symbols back (the zero-padding check of
`ConvertFromBase32` is exactly what makes Bech32 payload text non-malleable). -/
theorem regroup_of_fromBase32 {data conv : List Nat} (hlt : ∀ x ∈ data, x < 32)
    (h : fromBase32 data = .ok conv) : regroup 8 5 conv = data ∧ ∀ x ∈ conv, x < 256 := by
  unfold fromBase32 at h
  rw [convertBits_nopad 5 8 (by omega) data (by simpa using hlt)] at h
  by_cases hc : 5 * data.length % 8 ≥ 5 ∨ ∃ b ∈ chunkRem 8 (symbolBits 5 data), b = true
  · rw [if_pos hc] at h; cases h
  · rw [if_neg hc] at h
    have hconv : conv = (fullChunks 8 (symbolBits 5 data)).map ofBitsBE := by cases h; rfl
    have hc1 : ¬ 5 * data.length % 8 ≥ 5 := fun h' => hc (Or.inl h')
    have hc2 : ∀ b ∈ chunkRem 8 (symbolBits 5 data), b = false := by
      intro b hb
      cases b with
      | false => rfl
      | true => exact absurd (Or.inr ⟨true, hb, rfl⟩) hc
    set B := symbolBits 5 data with hB
    have hBl : B.length = 5 * data.length := length_symbolBits 5 data
    have hCl : ∀ c ∈ fullChunks 8 B, c.length = 8 := fun c hc => length_of_mem_fullChunks 8 B c hc
    have hflat := flatten_fullChunks 8 (by omega) B
    have hRl : (chunkRem 8 B).length = 5 * data.length % 8 := by rw [length_chunkRem, hBl]
    have hR : chunkRem 8 B = List.replicate (5 * data.length % 8) false := by
      rw [← hRl]; exact List.eq_replicate_of_mem hc2
    constructor
    · unfold regroup
      have hsb : symbolBits 8 conv = (fullChunks 8 B).flatten := by
        rw [hconv, symbolBits, flatMap_bitsBE_map_ofBitsBE 8 _ hCl]
      have hFl : (fullChunks 8 B).flatten.length = 5 * data.length - 5 * data.length % 8 := by
        have := congrArg List.length hflat
        rw [List.length_append, hRl, hBl] at this
        omega
      have hpad : padBits 5 (symbolBits 8 conv) = B := by
        rw [hsb]
        unfold padBits
        by_cases hz : 5 * data.length % 8 = 0
        · rw [if_pos (by rw [hFl]; omega)]
          rw [hR, hz] at hflat
          simpa using hflat
        · rw [if_neg (by rw [hFl]; omega)]
          have : 5 - (fullChunks 8 B).flatten.length % 5 = 5 * data.length % 8 := by
            rw [hFl]; omega
          rw [this, ← hR]; exact hflat
      rw [hpad]
      have hBf : B = (data.map (bitsBE 5)).flatten := by
        simp [hB, symbolBits, List.flatMap_def]
      obtain ⟨h1, _⟩ := fullChunks_flatten 5 (by omega) (data.map (bitsBE 5))
        (by intro c hc; simp only [List.mem_map] at hc; obtain ⟨v, _, rfl⟩ := hc; simp)
        [] (by simp)
      rw [List.append_nil] at h1
      rw [hBf, h1, List.map_map]
      exact all_valid_of_lt 5 data (by simpa using hlt)
    · intro x hx
      rw [hconv] at hx
      obtain ⟨c, hcm, rfl⟩ := List.mem_map.mp hx
      have := ofBitsBE_lt c
      rw [hCl c hcm] at this
      omega

theorem bytesToNats_natsToBytes (l : List Nat) (h : ∀ x ∈ l, x < 256) :
    bytesToNats (natsToBytes l) = l := map_toNat_map_ofNat l h

/-- **Bech32 soundness at the byte level**: an accepted string, lower-cased, is exactly what the
encoder outputs for the decoded bytes. -/
theorem bech32Decode_sound (U : CaseOracle) {hrp addr : List Char} {b : Bytes}
    (h : bech32Decode U hrp addr = .ok b) : bech32Encode hrp b = .ok (addr.flatMap U.lower) := by
  unfold bech32Decode at h
  obtain ⟨⟨hrpGot, data⟩, hraw, h⟩ := bind_ok_inv h
  simp only at h
  by_cases hh : hrp = hrpGot
  · subst hh
    simp only [bne_self_eq_false, Bool.false_eq_true, if_false] at h
    obtain ⟨conv, hconv, h⟩ := bind_ok_inv h
    have hb : natsToBytes conv = b := pure_ok_inv h
    obtain ⟨_, hlt⟩ := bechDecodeRaw_ok_inv U _ hraw
    obtain ⟨hre, h256⟩ := regroup_of_fromBase32 hlt hconv
    unfold bech32Encode
    rw [toBase32_eq, ← hb, bytesToNats_natsToBytes conv h256, hre]
    exact congrArg Except.ok (bechDecodeRaw_sound U _ hraw)
  · rw [if_pos (by simpa using hh)] at h
    cases h

theorem pyIdx_zero_ok_inv {α} {l : List α} {a : α} (h : pyIdx l 0 = .ok a) : ∃ t, l = a :: t := by
  cases l with
  | nil => cases h
  | cons x t => exact ⟨t, by cases h; rfl⟩

theorem segwitDecode_sound (U : CaseOracle) {hrp addr : List Char} {v : Nat} {prog : Bytes}
    (h : segwitDecode U hrp addr = .ok (v, prog)) :
    segwitEncode hrp v prog = .ok (addr.flatMap U.lower) ∧ v ≤ 16 ∧ 2 ≤ prog.length ∧
      prog.length ≤ 40 ∧ (v = 0 → prog.length = 20 ∨ prog.length = 32) := by
  unfold segwitDecode at h
  obtain ⟨⟨hrpGot, data⟩, hraw, h⟩ := bind_ok_inv h
  simp only at h
  by_cases hh : hrp = hrpGot
  · subst hh
    simp only [bne_self_eq_false, Bool.false_eq_true, if_false] at h
    obtain ⟨conv, hconv, h⟩ := bind_ok_inv h
    split at h
    · cases h
    · rename_i hc1
      obtain ⟨w, hw, h⟩ := bind_ok_inv h
      obtain ⟨rest, hdata⟩ := pyIdx_zero_ok_inv hw
      split at h
      · cases h
      · rename_i hc2
        split at h
        · cases h
        · rename_i hc3
          have hv : w = v := by cases h; rfl
          have hp : natsToBytes conv = prog := by cases h; rfl
          subst hv
          obtain ⟨_, hlt⟩ := bechDecodeRaw_ok_inv U _ hraw
          rw [hdata] at hlt hconv
          simp only [List.drop_succ_cons, List.drop_zero] at hconv
          obtain ⟨hre, h256⟩ := regroup_of_fromBase32 (fun x hx => hlt x (by simp [hx])) hconv
          have hpl : prog.length = conv.length := by rw [← hp]; simp [natsToBytes]
          simp only [Bool.or_eq_true, decide_eq_true_eq, not_or, not_lt] at hc1
          refine ⟨?_, by omega, by omega, by omega, ?_⟩
          · unfold segwitEncode
            rw [toBase32_eq, ← hp, bytesToNats_natsToBytes conv h256, hre]
            show Except.ok (bechEncodeRaw .segwit hrp (w :: rest)) = _
            rw [← hdata]
            exact congrArg Except.ok (bechDecodeRaw_sound U _ hraw)
          · intro h0
            rw [hpl]
            simp only [h0, decide_true, Bool.true_and, Bool.or_eq_false_iff,
              decide_eq_false_iff_not, not_and, Bool.not_eq_eq_eq_not, Bool.not_true] at hc3
            by_cases h20 : conv.length = 20
            · exact Or.inl h20
            · exact Or.inr (by simpa [h20] using hc3)
  · rw [if_pos (by simpa using hh)] at h
    cases h

theorem bchDecode_sound (U : CaseOracle) {hrp addr : List Char} {nv d : Bytes}
    (h : bchDecode U hrp addr = .ok (nv, d)) :
    bchEncode hrp nv d = .ok (addr.flatMap U.lower) ∧ nv.length = 1 := by
  unfold bchDecode at h
  obtain ⟨⟨hrpGot, data⟩, hraw, h⟩ := bind_ok_inv h
  simp only at h
  by_cases hh : hrp = hrpGot
  · subst hh
    simp only [bne_self_eq_false, Bool.false_eq_true, if_false] at h
    obtain ⟨conv, hconv, h⟩ := bind_ok_inv h
    obtain ⟨w, hw, h⟩ := bind_ok_inv h
    obtain ⟨rest, hc⟩ := pyIdx_zero_ok_inv hw
    have hnv : toBytesAuto w = nv := by cases h; rfl
    have hd : natsToBytes (conv.drop 1) = d := by cases h; rfl
    obtain ⟨_, hlt⟩ := bechDecodeRaw_ok_inv U _ hraw
    obtain ⟨hre, h256⟩ := regroup_of_fromBase32 hlt hconv
    have hw256 : w < 256 := h256 w (by rw [hc]; simp)
    have hnv' : nv = [UInt8.ofNat w] := by rw [← hnv, toBytesAuto_of_lt_256 hw256]
    refine ⟨?_, by rw [hnv']; rfl⟩
    have hcat : nv ++ d = natsToBytes conv := by
      rw [hnv', ← hd, hc]; simp [natsToBytes]
    unfold bchEncode
    rw [hcat, toBase32_eq, bytesToNats_natsToBytes conv h256, hre]
    exact congrArg Except.ok (bechDecodeRaw_sound U _ hraw)
  · rw [if_pos (by simpa using hh)] at h
    cases h


/-! ### helpers -/

theorem validateLength_bind_inv {α β} {a : List α} {n : Nat} {f : Unit → R β} {b : β}
    (h : (validateLength a n >>= f) = .ok b) : a.length = n ∧ f () = .ok b := by
  obtain ⟨u, hu, h⟩ := bind_ok_inv h
  exact ⟨(validateLength_ok_iff a n).mp hu, h⟩

theorem validatePubKey_bind_inv {β} {c : CurveT} {k : Bytes} {f : Unit → R β} {b : β}
    (h : (validatePubKey c k >>= f) = .ok b) : pubValid c k = true ∧ f () = .ok b := by
  obtain ⟨u, hu, h⟩ := bind_ok_inv h
  exact ⟨(validatePubKey_ok_iff c k).mp hu, h⟩

/-! ### Base58Check family -/

theorem p2pkhDecode_sound {nv : Bytes} {alph : List Char} (hn : alph.Nodup) (hl : alph.length = 58)
    {addr : List Char} {x : Bytes} (h : p2pkhDecode nv alph addr = .ok x) :
    addr = b58CheckEncode sha256d alph (nv ++ x) ∧ x.length = 20 := by
  unfold p2pkhDecode at h
  obtain ⟨dec, hdec, h⟩ := bind_ok_inv h
  obtain ⟨hlen, h⟩ := validateLength_bind_inv h
  have hd := removePrefix_ok_inv h
  have hc := b58Check_encode_decode sha256d alph hn hl addr dec (ckToValue_ok_inv hdec)
  rw [hd] at hc hlen
  refine ⟨hc.symm, ?_⟩
  rw [List.length_append] at hlen; omega

theorem xtzDecode_sound {pfx : Bytes} {addr : List Char} {x : Bytes}
    (h : xtzDecode pfx addr = .ok x) :
    addr = b58CheckEncode sha256d btcAlphabet (pfx ++ x) ∧ x.length = 20 := by
  unfold xtzDecode at h
  obtain ⟨dec, hdec, h⟩ := bind_ok_inv h
  obtain ⟨hlen, h⟩ := validateLength_bind_inv h
  have hd := removePrefix_ok_inv h
  have hc := b58Check_encode_decode sha256d _ btcAlphabet_nodup btcAlphabet_length addr dec
    (ckToValue_ok_inv hdec)
  rw [hd] at hc hlen
  refine ⟨hc.symm, ?_⟩
  rw [List.length_append] at hlen; omega

theorem trxDecode_sound {pfx : Bytes} {addr : List Char} {x : Bytes}
    (h : trxDecode pfx addr = .ok x) :
    addr = b58CheckEncode sha256d btcAlphabet (pfx ++ x) ∧ x.length = 20 := by
  unfold trxDecode at h
  obtain ⟨dec, hdec, h⟩ := bind_ok_inv h
  obtain ⟨hlen, h⟩ := validateLength_bind_inv h
  obtain ⟨a, ha, h⟩ := bind_ok_inv h
  obtain ⟨_, h⟩ := validateLength_bind_inv h
  have hx : a = x := pure_ok_inv h
  subst hx
  have hd := removePrefix_ok_inv ha
  have hc := b58Check_encode_decode sha256d _ btcAlphabet_nodup btcAlphabet_length addr dec
    (ckToValue_ok_inv hdec)
  rw [hd] at hc hlen
  refine ⟨hc.symm, ?_⟩
  rw [List.length_append] at hlen; omega

theorem neoDecode_sound {ver : Bytes} {addr : List Char} {x : Bytes}
    (h : neoDecode ver addr = .ok x) :
    ∃ v, ver = [v] ∧ addr = b58CheckEncode sha256d btcAlphabet ([v] ++ x) ∧ x.length = 20 := by
  unfold neoDecode at h
  obtain ⟨dec, hdec, h⟩ := bind_ok_inv h
  obtain ⟨hlen, h⟩ := validateLength_bind_inv h
  obtain ⟨v0, hv0, h⟩ := bind_ok_inv h
  obtain ⟨rest, hdec'⟩ := pyIdx_zero_ok_inv hv0
  by_cases hver : ver = toBytesAuto v0.toNat
  · rw [if_neg (by simpa using hver)] at h
    have hx : dec.drop 1 = x := pure_ok_inv h
    rw [toBytesAuto_byte] at hver
    have hc := b58Check_encode_decode sha256d _ btcAlphabet_nodup btcAlphabet_length addr dec
      (ckToValue_ok_inv hdec)
    rw [hdec'] at hx hc hlen
    simp only [List.drop_succ_cons, List.drop_zero] at hx
    subst hx
    refine ⟨v0, hver, hc.symm, ?_⟩
    rw [hver] at hlen
    simp only [List.length_cons, List.length_nil] at hlen
    omega
  · rw [if_pos hver] at h; cases h

/-! ### Base58 with own checksums -/

theorem eosDecode_sound {pfx addr : List Char} {k : Bytes} (h : eosDecode pfx addr = .ok k) :
    addr = pfx ++ b58Encode btcAlphabet (k ++ (ripemd160 k).take 4) ∧ k.length = 33 ∧
      pubValid .secp256k1 k = true := by
  unfold eosDecode at h
  obtain ⟨a, ha, h⟩ := bind_ok_inv h
  obtain ⟨dec, hdec, h⟩ := bind_ok_inv h
  obtain ⟨hlen, h⟩ := validateLength_bind_inv h
  simp only at h
  by_cases hck : (splitCkEnd dec 4).2 = (ripemd160 (splitCkEnd dec 4).1).take 4
  · rw [if_neg (by simpa using hck)] at h
    obtain ⟨hv, h⟩ := validatePubKey_bind_inv h
    have hk : (splitCkEnd dec 4).1 = k := pure_ok_inv h
    rw [hk] at hck hv
    have hsplit := dropLast_append_takeLast dec 4
    rw [← splitCkEnd_fst, ← splitCkEnd_snd, hk, hck] at hsplit
    have hc := b58_encode_decode _ btcAlphabet_nodup btcAlphabet_length a dec hdec
    refine ⟨?_, ?_, hv⟩
    · rw [removePrefix_ok_inv ha, ← hc, hsplit]
    · rw [← hk, splitCkEnd_fst, dropLast_length, hlen]
  · rw [if_pos hck] at h; cases h

theorem ergoDecode_sound {netType : Nat} {addr : List Char} {k : Bytes}
    (h : ergoDecode netType addr = .ok k) :
    addr = b58Encode btcAlphabet ((toBytesAuto (1 + netType) ++ k) ++
        (blake2b256 (toBytesAuto (1 + netType) ++ k)).take 4) ∧
      (toBytesAuto (1 + netType) ++ k).length = 34 ∧ pubValid .secp256k1 k = true := by
  unfold ergoDecode at h
  obtain ⟨dec, hdec, h⟩ := bind_ok_inv h
  obtain ⟨hlen, h⟩ := validateLength_bind_inv h
  simp only at h
  by_cases hck : (splitCkEnd dec 4).2 = (blake2b256 (splitCkEnd dec 4).1).take 4
  · rw [if_neg (by simpa using hck)] at h
    obtain ⟨k', hk', h⟩ := bind_ok_inv h
    obtain ⟨hv, h⟩ := validatePubKey_bind_inv h
    have hk : k' = k := pure_ok_inv h
    subst hk
    have hp := removePrefix_ok_inv hk'
    rw [hp] at hck
    have hsplit := dropLast_append_takeLast dec 4
    rw [← splitCkEnd_fst, ← splitCkEnd_snd, hck, hp] at hsplit
    have hc := b58_encode_decode _ btcAlphabet_nodup btcAlphabet_length addr dec hdec
    refine ⟨by rw [← hc, hsplit], ?_, hv⟩
    rw [← hp, splitCkEnd_fst, dropLast_length, hlen]
  · rw [if_pos hck] at h; cases h

theorem solDecode_sound {addr : List Char} {k : Bytes} (h : solDecode addr = .ok k) :
    addr = b58Encode btcAlphabet k ∧ k.length = 32 ∧ pubValid .ed25519 k = true := by
  unfold solDecode at h
  obtain ⟨dec, hdec, h⟩ := bind_ok_inv h
  obtain ⟨hlen, h⟩ := validateLength_bind_inv h
  obtain ⟨hv, h⟩ := validatePubKey_bind_inv h
  have hk : dec = k := pure_ok_inv h
  subst hk
  exact ⟨(b58_encode_decode _ btcAlphabet_nodup btcAlphabet_length addr dec hdec).symm, hlen, hv⟩

/-! ### Bech32 family (text compared after lower-casing, as the decoder does) -/

theorem atomDecode_sound {hrp addr : List Char} {b : Bytes} (h : atomDecode hrp addr = .ok b) :
    bech32Encode hrp b = .ok (addr.flatMap asciiCase.lower) ∧ b.length = 20 := by
  unfold atomDecode at h
  obtain ⟨dec, hdec, h⟩ := bind_ok_inv h
  obtain ⟨hlen, h⟩ := validateLength_bind_inv h
  have hb : dec = b := pure_ok_inv h
  subst hb
  exact ⟨bech32Decode_sound asciiCase (ckToValue_ok_inv hdec), hlen⟩

theorem injDecode_sound {hrp addr : List Char} {b : Bytes} (h : injDecode hrp addr = .ok b) :
    bech32Encode hrp b = .ok (addr.flatMap asciiCase.lower) ∧ b.length = 20 := by
  unfold injDecode at h
  obtain ⟨dec, hdec, h⟩ := bind_ok_inv h
  obtain ⟨hlen, h⟩ := validateLength_bind_inv h
  have hb : dec = b := pure_ok_inv h
  subst hb
  exact ⟨bech32Decode_sound asciiCase (ckToValue_ok_inv hdec), hlen⟩

theorem ethBech32Decode_sound {hrp addr : List Char} {b : Bytes}
    (h : ethBech32Decode hrp addr = .ok b) :
    bech32Encode hrp b = .ok (addr.flatMap asciiCase.lower) ∧ b.length = 20 := by
  unfold ethBech32Decode at h
  obtain ⟨dec, hdec, h⟩ := bind_ok_inv h
  obtain ⟨hlen, h⟩ := validateLength_bind_inv h
  have hb : dec = b := pure_ok_inv h
  subst hb
  rw [hexOfBytes_length] at hlen
  exact ⟨bech32Decode_sound asciiCase (ckToValue_ok_inv hdec), by omega⟩

theorem avaxDecode_sound {pfx hrp addr : List Char} {b : Bytes}
    (h : avaxDecode pfx hrp addr = .ok b) :
    ∃ a, addr = pfx ++ a ∧ bech32Encode hrp b = .ok (a.flatMap asciiCase.lower) ∧ b.length = 20 := by
  unfold avaxDecode at h
  obtain ⟨a, ha, h⟩ := bind_ok_inv h
  obtain ⟨h1, h2⟩ := atomDecode_sound h
  exact ⟨a, removePrefix_ok_inv ha, h1, h2⟩

theorem egldDecode_sound {hrp addr : List Char} {b : Bytes} (h : egldDecode hrp addr = .ok b) :
    bech32Encode hrp b = .ok (addr.flatMap asciiCase.lower) ∧ b.length = 32 ∧
      pubValid .ed25519 b = true := by
  unfold egldDecode at h
  obtain ⟨dec, hdec, h⟩ := bind_ok_inv h
  obtain ⟨hlen, h⟩ := validateLength_bind_inv h
  obtain ⟨hv, h⟩ := validatePubKey_bind_inv h
  have hb : dec = b := pure_ok_inv h
  subst hb
  exact ⟨bech32Decode_sound asciiCase (ckToValue_ok_inv hdec), hlen, hv⟩

theorem p2wpkhDecode_sound {hrp addr : List Char} {x : Bytes} (h : p2wpkhDecode hrp addr = .ok x) :
    segwitEncode hrp 0 x = .ok (addr.flatMap asciiCase.lower) ∧ x.length = 20 := by
  unfold p2wpkhDecode at h
  obtain ⟨⟨v, dec⟩, hdec, h⟩ := bind_ok_inv h
  simp only at h
  by_cases hv : v = 0
  · subst hv
    rw [if_neg (by simp)] at h
    obtain ⟨hlen, h⟩ := validateLength_bind_inv h
    have hx : dec = x := pure_ok_inv h
    subst hx
    obtain ⟨h1, _⟩ := segwitDecode_sound asciiCase (ckToValue_ok_inv hdec)
    exact ⟨h1, hlen⟩
  · rw [if_pos hv] at h; cases h

theorem p2trDecode_sound {hrp addr : List Char} {x : Bytes} (h : p2trDecode hrp addr = .ok x) :
    segwitEncode hrp 1 x = .ok (addr.flatMap asciiCase.lower) ∧ x.length = 32 := by
  unfold p2trDecode at h
  obtain ⟨⟨v, dec⟩, hdec, h⟩ := bind_ok_inv h
  simp only at h
  obtain ⟨hlen, h⟩ := validateLength_bind_inv h
  by_cases hv : v = 1
  · subst hv
    rw [if_neg (by simp)] at h
    have hx : dec = x := pure_ok_inv h
    subst hx
    obtain ⟨h1, _⟩ := segwitDecode_sound asciiCase (ckToValue_ok_inv hdec)
    exact ⟨h1, hlen⟩
  · rw [if_pos hv] at h; cases h

theorem bchAddrDecode_sound {hrp : List Char} {nv : Bytes} {addr : List Char} {x : Bytes}
    (h : bchAddrDecode hrp nv addr = .ok x) :
    bchEncode hrp nv x = .ok (addr.flatMap asciiCase.lower) ∧ x.length = 20 ∧ nv.length = 1 := by
  unfold bchAddrDecode at h
  obtain ⟨⟨nv', dec⟩, hdec, h⟩ := bind_ok_inv h
  simp only at h
  by_cases hv : nv = nv'
  · subst hv
    rw [if_neg (by simp)] at h
    obtain ⟨hlen, h⟩ := validateLength_bind_inv h
    have hx : dec = x := pure_ok_inv h
    subst hx
    obtain ⟨h1, h2⟩ := bchDecode_sound asciiCase (ckToValue_ok_inv hdec)
    exact ⟨h1, hlen, h2⟩
  · rw [if_pos hv] at h; cases h

/-! ### Base32, SS58, Monero (where cheap) -/

theorem algoDecode_sound {addr : List Char} {k : Bytes} (h : algoDecodeAddr addr = .ok k) :
    addr = base32EncodeNoPad (k ++ takeLast (sha512_256 k) 4) none ∧ k.length = 32 ∧
      pubValid .ed25519 k = true := by
  unfold algoDecodeAddr at h
  by_cases hc : addr.contains '=' = true
  · rw [if_pos hc] at h; cases h
  · rw [if_neg hc] at h
    obtain ⟨dec, hdec, h⟩ := bind_ok_inv h
    obtain ⟨hlen, h⟩ := validateLength_bind_inv h
    simp only at h
    by_cases hck : (splitCkEnd dec 4).2 = takeLast (sha512_256 (splitCkEnd dec 4).1) 4
    · rw [if_neg (by simpa using hck)] at h
      obtain ⟨hv, h⟩ := validatePubKey_bind_inv h
      have hk : (splitCkEnd dec 4).1 = k := pure_ok_inv h
      rw [hk] at hck
      have hsplit := dropLast_append_takeLast dec 4
      rw [← splitCkEnd_fst, ← splitCkEnd_snd, hk, hck] at hsplit
      have hcan := base32_decode_canonical hdec
      have hstrip : rstripChar '=' addr = addr := by
        have := rstripChar_append_replicate '=' addr 0
          (fun x hx e => hc (by rw [e] at hx; exact List.contains_iff_mem.mpr hx))
        simpa using this
      rw [hstrip, ← hsplit] at hcan
      refine ⟨hcan.symm, ?_, by rw [← hk]; exact hv⟩
      rw [← hk, splitCkEnd_fst, dropLast_length, hlen]
    · rw [if_pos hck] at h; cases h

theorem substrateEdDecode_sound {fmt : Nat} {addr : List Char} {k : Bytes}
    (h : substrateEdDecode fmt addr = .ok k) :
    ss58Encode blake2b512 k fmt = .ok addr ∧ k.length = 32 ∧ pubValid .ed25519 k = true := by
  unfold substrateEdDecode at h
  obtain ⟨⟨f, dec⟩, hdec, h⟩ := bind_ok_inv h
  simp only at h
  by_cases hf : fmt = f
  · subst hf
    rw [if_neg (by simp)] at h
    obtain ⟨hv, h⟩ := validatePubKey_bind_inv h
    have hk : dec = k := pure_ok_inv h
    subst hk
    have hd := ckToValue_ok_inv hdec
    obtain ⟨_, _, _, _, _, hl, _⟩ := ss58Decode_ok_inv hd
    exact ⟨ss58_decode_canonical' blake2b512 hd, hl, hv⟩
  · rw [if_pos hf] at h; cases h


/-! ### Ethereum: the EIP-55 spelling is the only one accepted -/

def allHexChars : List Char := "0123456789abcdefABCDEF".toList

theorem char_of_bounds (c : Char) (lo hi : Nat) (h1 : lo ≤ c.toNat) (h2 : c.toNat ≤ hi) :
    ∃ n, lo ≤ n ∧ n ≤ hi ∧ c = Char.ofNat n := ⟨c.toNat, h1, h2, (Char.ofNat_toNat c).symm⟩

theorem hexVal_some_mem {c : Char} {v : Nat} (h : Bytes.hexVal c = some v) : c ∈ allHexChars := by
  unfold Bytes.hexVal at h
  have hle : ∀ a b : Char, a ≤ b ↔ a.toNat ≤ b.toNat := by
    intro a b; rw [Char.le_def]; exact UInt32.le_iff_toNat_le
  split at h
  · rename_i hc
    rw [hle, hle] at hc
    obtain ⟨n, h1, h2, rfl⟩ := char_of_bounds c 48 57 hc.1 hc.2
    interval_cases n <;> decide
  · split at h
    · rename_i hc
      rw [hle, hle] at hc
      obtain ⟨n, h1, h2, rfl⟩ := char_of_bounds c 97 102 hc.1 hc.2
      interval_cases n <;> decide
    · split at h
      · rename_i hc
        rw [hle, hle] at hc
        obtain ⟨n, h1, h2, rfl⟩ := char_of_bounds c 65 70 hc.1 hc.2
        interval_cases n <;> decide
      · cases h

theorem allHex_f1 : ∀ c ∈ allHexChars,
    (Bytes.hexVal c).all (fun v => decide (v < 16) && (asciiCase.lower c == [Bytes.hexDigit v])) = true := by
  decide
theorem allHex_f2 : ∀ c ∈ allHexChars,
    ethChecksumEncode.asciiUpper ((asciiCase.lower c).headD c) = ethChecksumEncode.asciiUpper c := by
  decide
theorem allHex_f3 : ∀ c ∈ allHexChars,
    asciiCase.lower ((asciiCase.lower c).headD c) = asciiCase.lower c := by decide
theorem allHex_f4 : ∀ c ∈ allHexChars, asciiCase.lower c = [(asciiCase.lower c).headD c] := by decide

theorem hexVal_some_facts {c : Char} {v : Nat} (h : Bytes.hexVal c = some v) :
    v < 16 ∧ asciiCase.lower c = [Bytes.hexDigit v] := by
  have := allHex_f1 c (hexVal_some_mem h)
  rw [h] at this
  simpa using this

/-- a successful hex parse: all characters are hex digits, and the lower-cased text is the
canonical hex text of the parsed bytes -/
theorem ofHexChars_lower : ∀ (a : List Char) (b : Bytes), Bytes.ofHexChars a = some b →
    a.flatMap asciiCase.lower = hexOfBytes b ∧ ∀ c ∈ a, c ∈ allHexChars
  | [], b, h => by
    have : b = [] := by simpa [Bytes.ofHexChars] using h.symm
    subst this
    exact ⟨rfl, by simp⟩
  | [_], b, h => by simp [Bytes.ofHexChars] at h
  | x :: y :: rest, b, h => by
    unfold Bytes.ofHexChars at h
    cases hx : Bytes.hexVal x with
    | none => simp [hx] at h
    | some vx =>
      cases hy : Bytes.hexVal y with
      | none => simp [hx, hy] at h
      | some vy =>
        cases hr : Bytes.ofHexChars rest with
        | none => simp [hx, hy, hr] at h
        | some r =>
          simp only [hx, hy, hr, Option.bind_eq_bind, Option.bind_some, Option.pure_def,
            Option.some.injEq] at h
          subst h
          obtain ⟨ih1, ih2⟩ := ofHexChars_lower rest r hr
          obtain ⟨hvx, hlx⟩ := hexVal_some_facts hx
          obtain ⟨hvy, hly⟩ := hexVal_some_facts hy
          have hb : (UInt8.ofNat (vx * 16 + vy)).toNat = vx * 16 + vy := by
            rw [UInt8.toNat_ofNat']; omega
          constructor
          · rw [List.flatMap_cons, List.flatMap_cons, hlx, hly, ih1, hexOfBytes_eq, hexOfBytes_eq,
              List.flatMap_cons, hb]
            have h1 : (vx * 16 + vy) / 16 = vx := by omega
            have h2 : (vx * 16 + vy) % 16 = vy := by omega
            rw [h1, h2]; rfl
          · intro c hc
            simp only [List.mem_cons] at hc
            rcases hc with rfl | rfl | hc
            · exact hexVal_some_mem hx
            · exact hexVal_some_mem hy
            · exact ih2 c hc

/-- every digest position reads as a hex digit (the default `'0'` included) -/
def DigestOk (D : List Char) : Prop := ∀ i, Bytes.hexVal (D.getD i '0') ≠ none

theorem lowerHex_hexVal : ∀ c ∈ lowerHexChars, Bytes.hexVal c ≠ none := by decide

theorem ethDigest_ok (a : List Char) : DigestOk (ethDigest a) := by
  intro i
  unfold ethDigest
  rw [List.getD_eq_getElem?_getD]
  cases h : (hexOfBytes (keccak256 (String.ofList (a.flatMap asciiCase.lower)).toUTF8.toList))[i]? with
  | none => decide
  | some c =>
    simp only [Option.getD_some]
    exact lowerHex_hexVal c (hexOfBytes_lowerHex _ c (List.mem_of_getElem? h))

theorem ethCaseChar_lower (D : List Char) (hD : DigestOk D) (c : Char) (hc : c ∈ allHexChars)
    (i : Nat) : ethCaseChar D ((asciiCase.lower c).headD c, i) = ethCaseChar D (c, i) := by
  unfold ethCaseChar
  simp only
  cases h : Bytes.hexVal (D.getD i '0') with
  | none => exact absurd h (hD i)
  | some v =>
    simp only
    rw [allHex_f2 c hc, allHex_f3 c hc]
    have h4 := allHex_f4 c hc
    by_cases hv : v ≥ 8
    · simp only [hv, if_true]
    · simp only [hv, if_false]
      rw [h4]; rfl

theorem flatMap_lower_eq_map (l : List Char) (hl : ∀ c ∈ l, c ∈ allHexChars) :
    l.flatMap asciiCase.lower = l.map (fun c => (asciiCase.lower c).headD c) := by
  induction l with
  | nil => rfl
  | cons c t ih =>
    rw [List.flatMap_cons, List.map_cons, ih (fun x hx => hl x (by simp [hx])),
      allHex_f4 c (hl c (by simp))]
    rfl

theorem ethCase_lower_list (D : List Char) (hD : DigestOk D) (l : List Char)
    (hl : ∀ c ∈ l, c ∈ allHexChars) (n : Nat) :
    ((l.map (fun c => (asciiCase.lower c).headD c)).zipIdx n).map (ethCaseChar D)
      = (l.zipIdx n).map (ethCaseChar D) := by
  induction l generalizing n with
  | nil => rfl
  | cons c t ih =>
    rw [List.map_cons, List.zipIdx_cons, List.map_cons, List.zipIdx_cons, List.map_cons,
      ethCaseChar_lower D hD c (hl c (by simp)) n, ih (fun x hx => hl x (by simp [hx]))]

theorem flatMap_lower_idem (l : List Char) (hl : ∀ c ∈ l, c ∈ allHexChars) :
    (l.flatMap asciiCase.lower).flatMap asciiCase.lower = l.flatMap asciiCase.lower := by
  induction l with
  | nil => rfl
  | cons c t ih =>
    rw [List.flatMap_cons, List.flatMap_append, ih (fun x hx => hl x (by simp [hx]))]
    congr 1
    rw [allHex_f4 c (hl c (by simp))]
    simp only [List.flatMap_cons, List.flatMap_nil, List.append_nil]
    rw [allHex_f3 c (hl c (by simp)), ← allHex_f4 c (hl c (by simp))]

/-- the EIP-55 casing only depends on the lower-cased text -/
theorem ethChecksumEncode_lower (a : List Char) (ha : ∀ c ∈ a, c ∈ allHexChars) :
    ethChecksumEncode (a.flatMap asciiCase.lower) = ethChecksumEncode a := by
  have hd : ethDigest (a.flatMap asciiCase.lower) = ethDigest a := by
    unfold ethDigest; rw [flatMap_lower_idem a ha]
  rw [ethChecksumEncode_eq, ethChecksumEncode_eq, hd, flatMap_lower_eq_map a ha]
  exact ethCase_lower_list _ (ethDigest_ok a) a ha 0

/-- **EIP-55 canonicity**: hex text that is its own checksum casing and parses to `b` is the
checksum casing of the canonical hex text of `b`. -/
theorem eth_canonical {a : List Char} {b : Bytes} (hfix : a = ethChecksumEncode a)
    (hb : bytesOfHex a = .ok b) : a = ethChecksumEncode (hexOfBytes b) := by
  unfold bytesOfHex at hb
  cases ho : Bytes.ofHexChars a with
  | none => rw [ho] at hb; cases hb
  | some r =>
    rw [ho] at hb
    have : r = b := by cases hb; rfl
    subst this
    obtain ⟨h1, h2⟩ := ofHexChars_lower a r ho
    rw [← h1, ethChecksumEncode_lower a h2]
    exact hfix

theorem ethDecode_sound_checksum {pfx addr : List Char} {b : Bytes}
    (h : ethDecode pfx false addr = .ok b) :
    addr = pfx ++ ethChecksumEncode (hexOfBytes b) ∧ b.length = 20 := by
  unfold ethDecode at h
  obtain ⟨a, ha, h⟩ := bind_ok_inv h
  obtain ⟨u, hlen, h⟩ := bind_ok_inv h
  rw [validateLength_ok_iff] at hlen
  simp only [Bool.not_false, Bool.true_and] at h
  by_cases hfix : a = ethChecksumEncode a
  · rw [if_neg (by simpa using hfix)] at h
    have hb : bytesOfHex a = .ok b := h
    refine ⟨?_, ?_⟩
    · rw [removePrefix_ok_inv ha, ← eth_canonical hfix hb]
    · have := bytesOfHex_length hb
      omega
  · rw [if_pos (by simpa using hfix)] at h
    cases h

/-- without the checksum check the text is canonical up to letter case only -/
theorem ethDecode_sound_nochecksum {pfx addr : List Char} {b : Bytes}
    (h : ethDecode pfx true addr = .ok b) :
    ∃ a, addr = pfx ++ a ∧ a.flatMap asciiCase.lower = hexOfBytes b ∧ b.length = 20 := by
  unfold ethDecode at h
  obtain ⟨a, ha, h⟩ := bind_ok_inv h
  obtain ⟨u, hlen, h⟩ := bind_ok_inv h
  rw [validateLength_ok_iff] at hlen
  simp only [Bool.not_true, Bool.false_and, Bool.false_eq_true, if_false] at h
  have hb : bytesOfHex a = .ok b := h
  have hl := bytesOfHex_length hb
  refine ⟨a, removePrefix_ok_inv ha, ?_, by omega⟩
  unfold bytesOfHex at hb
  cases ho : Bytes.ofHexChars a with
  | none => rw [ho] at hb; cases hb
  | some r =>
    rw [ho] at hb
    have : r = b := by cases hb; rfl
    subst this
    exact (ofHexChars_lower a r ho).1


/-! ### Monero, Stellar -/

theorem xmrAddrDecode_sound {netVer : Bytes} {payId : Option Bytes} {addr : List Char} {sv : Bytes}
    (h : xmrAddrDecode netVer payId addr = .ok sv) :
    ∃ s v, sv = s ++ v ∧ s.length = 32 ∧ v.length = 32 ∧
      pubValid .ed25519Monero s = true ∧ pubValid .ed25519Monero v = true ∧
      (∀ pid, payId = some pid → pid.length = 8) ∧
      addr = xmrEncode ((netVer ++ s ++ v ++ payId.getD []) ++
        (keccak256 (netVer ++ s ++ v ++ payId.getD [])).take 4) := by
  unfold xmrAddrDecode at h
  obtain ⟨dec, hdec, h⟩ := bind_ok_inv h
  dsimp only at h
  by_cases hck : (splitCkEnd dec 4).2 = (keccak256 (splitCkEnd dec 4).1).take 4
  · rw [if_neg (by simpa using hck)] at h
    obtain ⟨p, hp, h⟩ := bind_ok_inv h
    have hpay := removePrefix_ok_inv hp
    have hsplit := dropLast_append_takeLast dec 4
    rw [← splitCkEnd_fst, ← splitCkEnd_snd, hck, hpay] at hsplit
    have haddr : addr = xmrEncode ((netVer ++ p) ++ (keccak256 (netVer ++ p)).take 4) := by
      rw [hsplit]; exact (xmr_decode_canonical hdec).symm
    have tail : ∀ {r : R Bytes}, r = .ok sv →
        r = (do
          validatePubKey .ed25519Monero (p.take 32)
          validatePubKey .ed25519Monero ((p.drop 32).take 32)
          pure (p.take 32 ++ (p.drop 32).take 32)) →
        sv = p.take 32 ++ (p.drop 32).take 32 ∧ pubValid .ed25519Monero (p.take 32) = true ∧
          pubValid .ed25519Monero ((p.drop 32).take 32) = true := by
      intro r hr he
      rw [he] at hr
      obtain ⟨h1, hr⟩ := validatePubKey_bind_inv hr
      obtain ⟨h2, hr⟩ := validatePubKey_bind_inv hr
      exact ⟨(pure_ok_inv hr).symm, h1, h2⟩
    cases payId with
    | none =>
      simp only at h
      obtain ⟨h64, h⟩ := validateLength_bind_inv h
      obtain ⟨a, b, c⟩ := tail h rfl
      refine ⟨p.take 32, (p.drop 32).take 32, a, by rw [List.length_take]; omega,
        by rw [List.length_take, List.length_drop]; omega, b, c, (fun _ hp => by cases hp), ?_⟩
      have hp64 : p = p.take 32 ++ (p.drop 32).take 32 := by
        conv_lhs => rw [← List.take_append_drop 32 p]
        rw [List.take_of_length_le (l := p.drop 32) (by rw [List.length_drop]; omega)]
      have e : netVer ++ p.take 32 ++ (p.drop 32).take 32 ++ [] = netVer ++ p := by
        conv_rhs => rw [hp64]
        simp only [List.append_assoc, List.append_nil]
      rw [haddr]
      simp only [Option.getD_none]
      rw [e]
    | some pid =>
      simp only at h
      obtain ⟨h72, h⟩ := validateLength_bind_inv h
      by_cases h8 : pid.length = 8
      · rw [if_neg (by simpa using h8)] at h
        by_cases hpid : pid = takeLast p 8
        · rw [if_neg (by simpa using hpid)] at h
          obtain ⟨a, b, c⟩ := tail h rfl
          refine ⟨p.take 32, (p.drop 32).take 32, a, by rw [List.length_take]; omega,
            by rw [List.length_take, List.length_drop]; omega, b, c,
            (fun _ hp => by cases hp; exact h8), ?_⟩
          have hp72 : p = p.take 32 ++ (p.drop 32).take 32 ++ pid := by
            rw [hpid]
            unfold takeLast
            rw [h72]
            conv_lhs => rw [← List.take_append_drop 32 p, ← List.take_append_drop 32 (p.drop 32)]
            simp [List.append_assoc]
          have e : netVer ++ p.take 32 ++ (p.drop 32).take 32 ++ pid = netVer ++ p := by
            conv_rhs => rw [hp72]
            simp only [List.append_assoc]
          rw [haddr]
          simp only [Option.getD_some]
          rw [e]
        · rw [if_pos hpid] at h; cases h
      · rw [if_pos h8] at h; cases h
  · rw [if_pos hck] at h; cases h

theorem xlmDecode_sound {addrType : Nat} {addr : List Char} {k : Bytes}
    (h : xlmDecode addrType addr = .ok k) :
    ∃ t : UInt8, t.toNat = addrType ∧
      addr = base32EncodeNoPad (([t] ++ k) ++ xlmCrc ([t] ++ k)) none ∧
      k.length = 32 ∧ pubValid .ed25519 k = true := by
  unfold xlmDecode at h
  obtain ⟨dec, hdec, h⟩ := bind_ok_inv h
  obtain ⟨hlen, h⟩ := validateLength_bind_inv h
  dsimp only at h
  obtain ⟨t, ht, h⟩ := bind_ok_inv h
  obtain ⟨rest, hp⟩ := pyIdx_zero_ok_inv ht
  by_cases hty : addrType = t.toNat
  · rw [if_neg (by simpa using hty)] at h
    by_cases hck : (splitCkEnd dec 2).2 = xlmCrc (splitCkEnd dec 2).1
    · rw [if_neg (by simpa using hck)] at h
      obtain ⟨hv, h⟩ := validatePubKey_bind_inv h
      have hk : (splitCkEnd dec 2).1.drop 1 = k := pure_ok_inv h
      rw [hp] at hk hck
      simp only [List.drop_succ_cons, List.drop_zero] at hk
      subst hk
      have hsplit := dropLast_append_takeLast dec 2
      rw [← splitCkEnd_fst, ← splitCkEnd_snd, hck, hp] at hsplit
      refine ⟨t, hty.symm, ?_, ?_, ?_⟩
      · rw [← base32_decode_canonical_full std_ok hdec (by rw [hlen]), ← hsplit]; rfl
      · have := congrArg List.length hp
        rw [splitCkEnd_fst, dropLast_length, hlen] at this
        simp only [List.length_cons] at this
        omega
      · rw [hp] at hv; simpa using hv
    · rw [if_pos hck] at h; cases h
  · rw [if_pos hty] at h; cases h


/-! ### Filecoin, Nano -/

theorem rstripChar_of_not_contains {s : List Char} (h : s.contains '=' = false) :
    rstripChar '=' s = s := by
  have := rstripChar_append_replicate '=' s 0
    (fun x hx e => by
      rw [e] at hx
      have := List.contains_iff_mem.mpr hx
      rw [h] at this; cases this)
  simpa using this

theorem filDecode_sound {pfx addr : List Char} {x : Bytes} (h : filDecode pfx addr = .ok x) :
    addr = pfx ++ ['1'] ++ base32EncodeNoPad (x ++ blake2b32 ([1] ++ x)) (some filAlphabet) ∧
      x.length = 20 := by
  unfold filDecode at h
  obtain ⟨a, ha, h⟩ := bind_ok_inv h
  dsimp only at h
  cases a with
  | nil => simp at h; cases h
  | cons c rest =>
    rw [show ((c :: rest).isEmpty || (c :: rest).contains '=') = (c :: rest).contains '=' from rfl]
      at h
    by_cases hcont : (c :: rest).contains '=' = true
    · rw [if_pos hcont] at h; cases h
    · rw [if_neg hcont] at h
      simp only [List.headD_cons, List.drop_succ_cons, List.drop_zero] at h
      by_cases ht : (1 : Int) = (c.toNat : Int) - 48
      · rw [if_neg (by simpa using ht)] at h
        obtain ⟨dec, hdec, h⟩ := bind_ok_inv h
        obtain ⟨hlen, h⟩ := validateLength_bind_inv h
        by_cases hck : (splitCkEnd dec 4).2 = blake2b32 ([1] ++ (splitCkEnd dec 4).1)
        · rw [if_neg (by simpa using hck)] at h
          have hx : (splitCkEnd dec 4).1 = x := pure_ok_inv h
          rw [hx] at hck
          have hsplit := dropLast_append_takeLast dec 4
          rw [← splitCkEnd_fst, ← splitCkEnd_snd, hx, hck] at hsplit
          have hc1 : c = '1' := by
            have : c.toNat = 49 := by omega
            rw [← Char.ofNat_toNat c, this]
          have hrest : rest.contains '=' = false := by
            rw [Bool.eq_false_iff]; intro hr
            apply hcont
            rw [List.contains_cons, hr]; simp
          have hcan := base32_decode_canonical hdec
          rw [rstripChar_of_not_contains hrest, ← hsplit] at hcan
          refine ⟨?_, ?_⟩
          · rw [removePrefix_ok_inv ha, hc1, hcan]; simp
          · rw [← hx, splitCkEnd_fst, dropLast_length, hlen]
        · rw [if_pos hck] at h; cases h
      · rw [if_pos ht] at h; cases h

/-- **Nano canonicity** (after the repair: the three pad bytes must be zero): an accepted address
is exactly the encoder's text for the returned key. -/
theorem nanoDecode_sound {pfx addr : List Char} {k : Bytes} (h : nanoDecode pfx addr = .ok k) :
    addr = pfx ++ (base32EncodeNoPad ([0, 0, 0] ++ k ++ (blake2b40 k).reverse)
        (some nanoAlphabet)).drop 4 ∧
      k.length = 32 ∧ pubValid .ed25519Blake2b k = true := by
  unfold nanoDecode at h
  obtain ⟨a, ha, h⟩ := bind_ok_inv h
  obtain ⟨dec, hdec, h⟩ := bind_ok_inv h
  obtain ⟨hlen, h⟩ := validateLength_bind_inv h
  obtain ⟨body, hbody, h⟩ := bind_ok_inv h
  dsimp only at h
  by_cases hck : (splitCkEnd body 5).2 = (blake2b40 (splitCkEnd body 5).1).reverse
  · rw [if_neg (by simpa using hck)] at h
    obtain ⟨hv, h⟩ := validatePubKey_bind_inv h
    have hk : (splitCkEnd body 5).1 = k := pure_ok_inv h
    rw [hk] at hck hv
    have hsplit := dropLast_append_takeLast body 5
    rw [← splitCkEnd_fst, ← splitCkEnd_snd, hk, hck] at hsplit
    have hdec' : dec = [0, 0, 0] ++ k ++ (blake2b40 k).reverse := by
      rw [removePrefix_ok_inv hbody, ← hsplit, List.append_assoc]
    have hcan := base32_decode_canonical_full (custom_ok nanoAlphabet_ok) hdec (by rw [hlen])
    refine ⟨?_, ?_, hv⟩
    · rw [removePrefix_ok_inv ha, ← hdec', hcan]; simp
    · have := congrArg List.length hdec'
      rw [hlen] at this
      simp only [List.length_append, List.length_cons, List.length_nil, List.length_reverse,
        blake2b40_length] at this
      omega
  · rw [if_pos hck] at h; cases h

/-! ### hex-text addresses: canonical up to letter case (the hex parser accepts `A`–`F`) -/

theorem bytesOfHex_lower {a : List Char} {b : Bytes} (h : bytesOfHex a = .ok b) :
    a.flatMap asciiCase.lower = hexOfBytes b := by
  unfold bytesOfHex at h
  cases ho : Bytes.ofHexChars a with
  | none => rw [ho] at h; cases h
  | some r =>
    rw [ho] at h
    have : r = b := by cases h; rfl
    subst this
    exact (ofHexChars_lower a r ho).1

theorem suiDecode_sound {pfx addr : List Char} {b : Bytes} (h : suiDecode pfx addr = .ok b) :
    ∃ a, addr = pfx ++ a ∧ a.flatMap asciiCase.lower = hexOfBytes b ∧ b.length = 32 := by
  unfold suiDecode at h
  obtain ⟨a, ha, h⟩ := bind_ok_inv h
  obtain ⟨hlen, h⟩ := validateLength_bind_inv h
  have hl := bytesOfHex_length h
  exact ⟨a, removePrefix_ok_inv ha, bytesOfHex_lower h, by omega⟩

theorem icxDecode_sound {pfx addr : List Char} {b : Bytes} (h : icxDecode pfx addr = .ok b) :
    ∃ a, addr = pfx ++ a ∧ a.flatMap asciiCase.lower = hexOfBytes b ∧ b.length = 20 := by
  unfold icxDecode at h
  obtain ⟨a, ha, h⟩ := bind_ok_inv h
  obtain ⟨b', hb, h⟩ := bind_ok_inv h
  obtain ⟨hlen, h⟩ := validateLength_bind_inv h
  have : b' = b := pure_ok_inv h
  subst this
  exact ⟨a, removePrefix_ok_inv ha, bytesOfHex_lower hb, hlen⟩

theorem nearDecode_sound {addr : List Char} {b : Bytes} (h : nearDecode addr = .ok b) :
    addr.flatMap asciiCase.lower = hexOfBytes b ∧ b.length = 32 ∧ pubValid .ed25519 b = true := by
  unfold nearDecode at h
  obtain ⟨b', hb, h⟩ := bind_ok_inv h
  obtain ⟨hlen, h⟩ := validateLength_bind_inv h
  obtain ⟨hv, h⟩ := validatePubKey_bind_inv h
  have : b' = b := pure_ok_inv h
  subst this
  exact ⟨bytesOfHex_lower hb, hlen, hv⟩

theorem aptosDecode_sound {pfx addr : List Char} {b : Bytes} (h : aptosDecode pfx addr = .ok b) :
    ∃ a, addr = pfx ++ a ∧ a.length ≤ 64 ∧
      (List.replicate (64 - a.length) '0' ++ a).flatMap asciiCase.lower = hexOfBytes b ∧
      b.length = 32 := by
  unfold aptosDecode at h
  obtain ⟨a, ha, h⟩ := bind_ok_inv h
  dsimp only at h
  obtain ⟨hlen, h⟩ := validateLength_bind_inv h
  have hl := bytesOfHex_length h
  refine ⟨a, removePrefix_ok_inv ha, ?_, bytesOfHex_lower h, by omega⟩
  unfold rjust at hlen
  rw [List.length_append, List.length_replicate] at hlen
  omega

/-! ### Nimiq: canonical up to spaces (which are ignored anywhere, by design) -/

theorem b32encodeStd_length (data : Bytes) :
    (b32encodeStd data).length = 8 * ((data.length + 4) / 5) := by
  obtain ⟨full, tail, rfl, hf, hk⟩ := b32_split data
  rw [b32encodeStd_eq full tail hf hk, List.length_append, flatMap_b32Block_length]
  have hc := chunksOf_length_of_mod 5 (by omega) full hf
  by_cases ht : tail = []
  · subst ht
    simp only [b32Tail, if_true, List.length_nil, List.append_nil, Nat.add_zero]
    omega
  · obtain ⟨T, p, hT, _, hlen, _, _⟩ := b32Tail_shape tail ht hk
    have hpos : 0 < tail.length := List.length_pos_iff.mpr ht
    rw [hT, List.length_append, List.length_replicate, List.length_append]
    omega

/-- after the repair (the decoded hash must be 20 bytes long): the address without its spaces is
prefix ‖ checksum ‖ canonical Base32 text of the returned hash. -/
theorem nimDecode_sound {isD : Char → Bool} {pfx addr : List Char} {b : Bytes}
    (h : nimDecode isD pfx addr = .ok b) :
    addr.filter (· ≠ ' ') = pfx ++ nimChecksum isD (base32EncodeNoPad b (some nimAlphabet)) ++
        base32EncodeNoPad b (some nimAlphabet) ∧ b.length = 20 := by
  unfold nimDecode at h
  dsimp only at h
  obtain ⟨a, ha, h⟩ := bind_ok_inv h
  obtain ⟨hlen, h⟩ := validateLength_bind_inv h
  by_cases hck : a.take 2 = nimChecksum isD (a.drop 2)
  · rw [if_neg (by simpa using hck)] at h
    obtain ⟨dec, hdec, h⟩ := bind_ok_inv h
    obtain ⟨h20, h⟩ := validateLength_bind_inv h
    have : dec = b := pure_ok_inv h
    subst this
    have hcan := base32_decode_canonical_full (custom_ok nimAlphabet_ok) hdec (by rw [h20])
    refine ⟨?_, h20⟩
    rw [removePrefix_ok_inv ha, List.append_assoc, hcan, ← hck, List.take_append_drop]
  · rw [if_pos hck] at h; cases h

/-! ### decode, then encode: the formats whose payload is the key itself

For these the canonicity statement closes into `encode (decode addr) = addr` (lower-cased for
Bech32 / hex text).  ed25519 and Monero keys only: there a valid 32-byte string is its own
canonical key (proved); for the ECDSA formats (EOS, Ergo) the same would need `KeyCanon`-style curve
facts about the returned 33 bytes and is not claimed. -/

theorem addrKey_of_valid_ed {c : CurveT} (hc : c.isEdPrefixed = true) {k : Bytes}
    (hk : k.length = 32) (hv : pubValid c k = true) : addrKey c k = .ok (0 :: k) := by
  have hgen : pubFromBytes c k =
      if (edBytesOnCurve (edStripPrefix k) = some true && (edStripPrefix k).length = 32) = true
      then some (0 :: edStripPrefix k) else none := by
    cases c <;> first | (exact absurd hc (by decide)) | rfl
  rw [addrKey_ok_iff, hgen]
  unfold pubValid at hv
  rw [hgen] at hv
  rw [edStripPrefix_of_length_32 k hk] at hv ⊢
  split
  · rfl
  · rename_i hn; rw [if_neg hn] at hv; cases hv

theorem addrKey_of_valid_monero {k : Bytes} (hk : k.length = 32)
    (hv : pubValid .ed25519Monero k = true) : addrKey .ed25519Monero k = .ok k := by
  have hgen : pubFromBytes .ed25519Monero k =
      if (edBytesOnCurve (edStripPrefix k) = some true && (edStripPrefix k).length = 32) = true
      then some (edStripPrefix k) else none := rfl
  rw [addrKey_ok_iff, hgen]
  unfold pubValid at hv
  rw [hgen] at hv
  rw [edStripPrefix_of_length_32 k hk] at hv ⊢
  split
  · rfl
  · rename_i hn; rw [if_neg hn] at hv; cases hv

theorem sol_encode_decode {addr : List Char} {k : Bytes} (h : solDecode addr = .ok k) :
    solEncode k = .ok addr := by
  obtain ⟨ha, hl, hv⟩ := solDecode_sound h
  rw [solEncode_of_key (addrKey_of_valid_ed (c := .ed25519) rfl hl hv), ha]; rfl

theorem near_encode_decode {addr : List Char} {k : Bytes} (h : nearDecode addr = .ok k) :
    nearEncode k = .ok (addr.flatMap asciiCase.lower) := by
  obtain ⟨ha, hl, hv⟩ := nearDecode_sound h
  rw [nearEncode_of_key (addrKey_of_valid_ed (c := .ed25519) rfl hl hv), ha]; rfl

theorem egld_encode_decode {hrp addr : List Char} {k : Bytes} (h : egldDecode hrp addr = .ok k) :
    egldEncode hrp k = .ok (addr.flatMap asciiCase.lower) := by
  obtain ⟨ha, hl, hv⟩ := egldDecode_sound h
  rw [egldEncode_of_key hrp (addrKey_of_valid_ed (c := .ed25519) rfl hl hv), ← ha]
  exact (bech32Encode_eq hrp k).symm

theorem algo_encode_decode {addr : List Char} {k : Bytes} (h : algoDecodeAddr addr = .ok k) :
    algoEncodeAddr k = .ok addr := by
  obtain ⟨ha, hl, hv⟩ := algoDecode_sound h
  rw [algoEncodeAddr_of_key (addrKey_of_valid_ed (c := .ed25519) rfl hl hv)]
  exact congrArg Except.ok ha.symm

theorem xlm_encode_decode {addrType : Nat} {addr : List Char} {k : Bytes}
    (h : xlmDecode addrType addr = .ok k) : xlmEncode addrType k = .ok addr := by
  obtain ⟨t, ht, ha, hl, hv⟩ := xlmDecode_sound h
  rw [xlmEncode_of_key addrType (addrKey_of_valid_ed (c := .ed25519) rfl hl hv), ← ht,
    toBytesAuto_byte]
  exact congrArg Except.ok ha.symm

theorem nano_encode_decode {pfx addr : List Char} {k : Bytes} (h : nanoDecode pfx addr = .ok k) :
    nanoEncode pfx k = .ok addr := by
  obtain ⟨ha, hl, hv⟩ := nanoDecode_sound h
  rw [nanoEncode_of_key pfx (addrKey_of_valid_ed (c := .ed25519Blake2b) rfl hl hv)]
  exact congrArg Except.ok ha.symm

theorem substrateEd_encode_decode {fmt : Nat} {addr : List Char} {k : Bytes}
    (h : substrateEdDecode fmt addr = .ok k) : substrateEdEncode fmt k = .ok addr := by
  obtain ⟨ha, hl, hv⟩ := substrateEdDecode_sound h
  unfold substrateEdEncode
  rw [bind_ok_eq (addrKey_of_valid_ed (c := .ed25519) rfl hl hv)]
  exact ha

theorem xmr_encode_decode {netVer : Bytes} {payId : Option Bytes} {addr : List Char} {sv : Bytes}
    (h : xmrAddrDecode netVer payId addr = .ok sv) :
    ∃ s v, sv = s ++ v ∧ xmrAddrEncode netVer payId s v = .ok addr := by
  obtain ⟨s, v, hsv, hsl, hvl, hs, hv, hp, ha⟩ := xmrAddrDecode_sound h
  refine ⟨s, v, hsv, ?_⟩
  have ks := addrKey_of_valid_monero hsl hs
  have kv := addrKey_of_valid_monero hvl hv
  cases payId with
  | none => rw [xmrAddrEncode_of_keys netVer ks kv, ha]; rfl
  | some pid => rw [xmrAddrEncode_of_keys_int netVer pid (hp pid rfl) ks kv, ha]; rfl

end BipVerif.Model
