/-
Elliptic-curve key adapter layer (C12): validity predicates, canonical encodings, ed25519 prefix
handling, clamping.  Curve arithmetic (`mulG`, square roots, the Edwards decoder) stays opaque.
-/
import BipVerif.Model.Ecc
import BipVerif.Lemmas.IntBytes

namespace BipVerif.Model.EccLemmas
open BipVerif BipVerif.Prim BipVerif.Model

/-! ## private keys -/

theorem priv_valid_iff_secp256k1 (b : Bytes) :
    privValid .secp256k1 b = true ↔
      b.length = 32 ∧ 0 < Bytes.toNatBE b ∧ Bytes.toNatBE b < CurveT.secp256k1.order := by
  simp [privValid, and_assoc]

theorem priv_valid_iff_nist256p1 (b : Bytes) :
    privValid .nist256p1 b = true ↔
      b.length = 32 ∧ 0 < Bytes.toNatBE b ∧ Bytes.toNatBE b < CurveT.nist256p1.order := by
  simp [privValid, and_assoc]

theorem priv_valid_iff_ed25519 (b : Bytes) : privValid .ed25519 b = true ↔ b.length = 32 := by
  simp [privValid]

theorem priv_valid_iff_ed25519Blake2b (b : Bytes) : privValid .ed25519Blake2b b = true ↔ b.length = 32 := by
  simp [privValid]

theorem priv_valid_iff_kholaw (b : Bytes) : privValid .ed25519Kholaw b = true ↔ b.length = 64 := by
  simp [privValid]

theorem priv_valid_iff_monero (b : Bytes) :
    privValid .ed25519Monero b = true ↔ b.length = 32 ∧ Bytes.toNatLE b < edL := by
  simp [privValid]

/-- every curve fixes the private key length -/
theorem wrong_length_refused (c : CurveT) (b : Bytes) (h : b.length ≠ c.privLen) :
    privValid c b = false := by
  cases c <;> simp [privValid, CurveT.privLen] at h ⊢ <;> intro h' <;> exact absurd h' h

theorem priv_valid_length (c : CurveT) (b : Bytes) (h : privValid c b = true) : b.length = c.privLen := by
  by_contra hne
  rw [wrong_length_refused c b hne] at h; cases h

/-! ## clamping -/

/-- **edClamp_spec**: multiple of 8, bit 254 set, bit 255 clear -/
theorem edClamp_spec (h : Bytes) : edClamp h % 8 = 0 ∧ 2 ^ 254 ≤ edClamp h ∧ edClamp h < 2 ^ 255 := by
  unfold edClamp
  simp only
  generalize Bytes.toNatLE (h.take 32) = a
  have : a % 2 ^ 254 < 2 ^ 254 := Nat.mod_lt _ (by norm_num)
  refine ⟨by omega, by omega, by omega⟩

/-- the clamped scalar is the hash value with bits 0,1,2 and 255 cleared and bit 254 set -/
theorem edClamp_eq (h : Bytes) :
    edClamp h = Bytes.toNatLE (h.take 32) % 2 ^ 254 - Bytes.toNatLE (h.take 32) % 8 + 2 ^ 254 := by
  unfold edClamp
  simp only
  generalize Bytes.toNatLE (h.take 32) = a
  omega

theorem edNoClampScalar_lt (b : Bytes) : edNoClampScalar b < 2 ^ 255 := by
  unfold edNoClampScalar; exact Nat.mod_lt _ (by norm_num)

/-- the no-clamp scalar only depends on the first 32 bytes and ignores bit 255 -/
theorem edNoClampScalar_eq (b : Bytes) (h : Bytes.toNatLE (b.take 32) < 2 ^ 255) :
    edNoClampScalar b = Bytes.toNatLE (b.take 32) := by
  unfold edNoClampScalar; exact Nat.mod_eq_of_lt h

/-! ## public keys: ed25519 flavours -/

/-- the four ed25519 flavours -/
def IsEd (c : CurveT) : Prop := c = .ed25519 ∨ c = .ed25519Blake2b ∨ c = .ed25519Kholaw ∨ c = .ed25519Monero

theorem isEd_iff (c : CurveT) : IsEd c ↔ c.isEcdsa = false := by
  cases c <;> simp [IsEd, CurveT.isEcdsa]

theorem edStripPrefix_zero_cons (k : Bytes) (hk : k.length = 32) : edStripPrefix (0 :: k) = k := by
  unfold edStripPrefix; simp [hk]

theorem edStripPrefix_of_length_32 (k : Bytes) (hk : k.length = 32) : edStripPrefix k = k := by
  unfold edStripPrefix; simp [hk]

/-- what `pubFromBytes` computes on the ed25519 flavours -/
theorem pubFromBytes_ed_eq (c : CurveT) (hc : IsEd c) (b : Bytes) :
    pubFromBytes c b =
      if edBytesOnCurve (edStripPrefix b) = some true ∧ (edStripPrefix b).length = 32 then
        some (if c = .ed25519Monero then edStripPrefix b else 0 :: edStripPrefix b)
      else none := by
  rcases hc with rfl | rfl | rfl | rfl <;>
    simp only [pubFromBytes, Bool.and_eq_true, decide_eq_true_eq, reduceCtorEq, if_false, if_true]

/-- **ed_strip_prefix**: the optional `0x00` prefix -/
theorem ed_strip_prefix (c : CurveT) (hc : IsEd c) (k : Bytes) (hk : k.length = 32) :
    pubFromBytes c (0 :: k) = pubFromBytes c k := by
  rw [pubFromBytes_ed_eq c hc, pubFromBytes_ed_eq c hc, edStripPrefix_zero_cons k hk,
    edStripPrefix_of_length_32 k hk]

theorem pubFromBytes_ed_ok (c : CurveT) (hc : IsEd c) (b k : Bytes) (h : pubFromBytes c b = some k) :
    edBytesOnCurve (edStripPrefix b) = some true ∧ (edStripPrefix b).length = 32 ∧
      k = (if c = .ed25519Monero then edStripPrefix b else 0 :: edStripPrefix b) := by
  rw [pubFromBytes_ed_eq c hc] at h
  split at h
  · next hh => exact ⟨hh.1, hh.2, (Option.some.inj h).symm⟩
  · cases h

/-- **pubFromBytes_idempotent_ed**: the canonical form re-validates to itself -/
theorem pubFromBytes_idempotent_ed (c : CurveT) (hc : IsEd c) (b k : Bytes)
    (h : pubFromBytes c b = some k) : pubFromBytes c k = some k := by
  obtain ⟨h1, h2, rfl⟩ := pubFromBytes_ed_ok c hc b k h
  have hk : pubFromBytes c (edStripPrefix b) =
      some (if c = .ed25519Monero then edStripPrefix b else 0 :: edStripPrefix b) := by
    rw [pubFromBytes_ed_eq c hc, edStripPrefix_of_length_32 _ h2, if_pos ⟨h1, h2⟩]
  by_cases hm : c = .ed25519Monero
  · simp only [hm, if_true] at hk ⊢; exact hk
  · simp only [hm, if_false] at hk ⊢
    rw [ed_strip_prefix c hc _ h2]; exact hk

/-- accepted inputs are 32 bytes, or 33 bytes starting with `0x00` -/
theorem pubFromBytes_ed_input_length (c : CurveT) (hc : IsEd c) (b k : Bytes)
    (h : pubFromBytes c b = some k) : b.length = 32 ∨ (b.length = 33 ∧ b.head? = some 0) := by
  obtain ⟨_, h2, _⟩ := pubFromBytes_ed_ok c hc b k h
  unfold edStripPrefix at h2
  split at h2
  · next hh =>
    simp only [Bool.and_eq_true, decide_eq_true_eq] at hh
    exact Or.inr hh
  · exact Or.inl h2

/-! ## public keys: canonical length -/

theorem coordLen_secp256k1 : Prim.secp256k1.coordLen = 32 := by decide +kernel
theorem coordLen_nist256p1 : Prim.nist256p1.coordLen = 32 := by decide +kernel

theorem wcurve_coordLen (c : CurveT) : c.wcurve.coordLen = 32 := by
  cases c
  · exact coordLen_secp256k1
  · exact coordLen_nist256p1
  all_goals exact coordLen_secp256k1

theorem compress_length (c : WCurve) (P : WPoint) (k : Bytes) (h : c.compress P = some k) :
    k.length = c.coordLen + 1 := by
  cases P with
  | inf => cases h
  | aff x y =>
    simp only [WCurve.compress, Option.some.injEq] at h
    rw [← h]; simp

theorem uncompressed_length (c : WCurve) (P : WPoint) (k : Bytes) (h : c.uncompressed P = some k) :
    k.length = 2 * c.coordLen + 1 := by
  cases P with
  | inf => cases h
  | aff x y =>
    simp only [WCurve.uncompressed, Option.some.injEq] at h
    rw [← h]; simp; omega

/-- `(c.compress (.aff x y)).map length = some 33` on both ECDSA curves -/
theorem compress_aff_length (c : CurveT) (x y : Nat) :
    (c.wcurve.compress (.aff x y)).map List.length = some 33 := by
  simp [WCurve.compress, wcurve_coordLen]

/-- **pubFromBytes_length**: 33 bytes for every curve whose canonical key carries a prefix byte
(`02/03` for ECDSA, `00` for ed25519), 32 for the Monero flavour -/
theorem pubFromBytes_length (c : CurveT) (b k : Bytes) (h : pubFromBytes c b = some k) :
    k.length = if c = .ed25519Monero then 32 else 33 := by
  by_cases he : IsEd c
  · obtain ⟨_, h2, rfl⟩ := pubFromBytes_ed_ok c he b k h
    split <;> simp [h2]
  · have hc : c = .secp256k1 ∨ c = .nist256p1 := by
      cases c <;> simp [IsEd] at he ⊢
    have hnm : c ≠ .ed25519Monero := by rcases hc with rfl | rfl <;> decide
    rw [if_neg hnm]
    have : ∃ P, c.wcurve.compress P = some k := by
      rcases hc with rfl | rfl <;>
      · simp only [pubFromBytes] at h
        split at h
        · exact ⟨_, h⟩
        · cases h
    obtain ⟨P, hP⟩ := this
    rw [compress_length _ _ _ hP, wcurve_coordLen]

/-- the canonical ECDSA key starts with `02`/`03` according to the parity of `y` and continues
with the 32-byte big-endian `x` -/
theorem sec1_compress_parity (c : CurveT) (x y : Nat) :
    c.wcurve.compress (.aff x y) = some (UInt8.ofNat (2 + y % 2) :: Bytes.ofNatBE 32 x) ∧
    (UInt8.ofNat (2 + y % 2)).toNat = 2 + y % 2 ∧
    (x < 2 ^ 256 → Bytes.toNatBE (Bytes.ofNatBE 32 x) = x) := by
  refine ⟨by simp [WCurve.compress, wcurve_coordLen], ?_, fun hx => toNatBE_ofNatBE (by norm_num; omega)⟩
  have : 2 + y % 2 < 256 := by omega
  simp [UInt8.toNat_ofNat']; omega

theorem pubOfPriv_length (c : CurveT) (priv k : Bytes) (h : pubOfPriv c priv = some k) :
    k.length = if c = .ed25519Monero then 32 else 33 := by
  have hel : ∀ P, (edEncode P).length = 32 := fun P => by unfold edEncode; exact length_ofNatLE _ _
  cases c <;> simp only [pubOfPriv] at h
  · rw [compress_length _ _ _ h, wcurve_coordLen]; rfl
  · rw [compress_length _ _ _ h, wcurve_coordLen]; rfl
  · cases h; simp [hel]
  · cases h; simp [hel]
  · split at h
    · cases h
    · cases h; simp [hel]
  · split at h
    · cases h
    · cases h; simp [hel]

/-! ## SEC1 encodings without curve arithmetic -/

theorem p_lt_pow_coordLen (c : WCurve) : c.p < 256 ^ c.coordLen := by
  unfold WCurve.coordLen
  rw [← natToBytesMin_length_le_iff, natToBytesMin_length_eq_byteLen]

theorem decode_uncompressed (c : WCurve) (x y : Nat) (h : c.onCurve (.aff x y) = true) :
    c.decode (4 :: Bytes.ofNatBE c.coordLen x ++ Bytes.ofNatBE c.coordLen y) = some (.aff x y) := by
  have hp := p_lt_pow_coordLen c
  have hxy : x < c.p ∧ y < c.p := by
    simp only [WCurve.onCurve, Bool.and_eq_true, decide_eq_true_eq] at h
    exact ⟨h.1.1, h.1.2⟩
  have hx : Bytes.toNatBE (Bytes.ofNatBE c.coordLen x) = x := toNatBE_ofNatBE (by omega)
  have hy : Bytes.toNatBE (Bytes.ofNatBE c.coordLen y) = y := toNatBE_ofNatBE (by omega)
  unfold WCurve.decode
  simp only [List.cons_append]
  have h1 : ¬ (((4 : UInt8) = 2 ∨ (4 : UInt8) = 3) ∧
      (Bytes.ofNatBE c.coordLen x ++ Bytes.ofNatBE c.coordLen y).length = c.coordLen) := by
    intro hh; rcases hh.1 with h' | h' <;> exact absurd h' (by decide)
  have h2 : (4 : UInt8) = 4 ∧
      (Bytes.ofNatBE c.coordLen x ++ Bytes.ofNatBE c.coordLen y).length = 2 * c.coordLen := by
    refine ⟨rfl, ?_⟩; simp; omega
  rw [if_neg h1, if_pos ⟨trivial, h2.2⟩]
  have ht : (Bytes.ofNatBE c.coordLen x ++ Bytes.ofNatBE c.coordLen y).take c.coordLen
      = Bytes.ofNatBE c.coordLen x := by
    have : (Bytes.ofNatBE c.coordLen x).length = c.coordLen := length_ofNatBE _ _
    conv_lhs => rw [← this]
    rw [this]
    exact List.take_left' this
  have hd : (Bytes.ofNatBE c.coordLen x ++ Bytes.ofNatBE c.coordLen y).drop c.coordLen
      = Bytes.ofNatBE c.coordLen y := List.drop_left' (length_ofNatBE _ _)
  simp only [ht, hd, hx, hy, h, if_true]

/-- **sec1_uncompressed_roundtrip**: `decode (04 ‖ x ‖ y) = (x, y)` for an on-curve affine point
(`onCurve` includes `x, y < p`); any short-Weierstrass parameters -/
theorem sec1_uncompressed_roundtrip (c : WCurve) (x y : Nat) (h : c.onCurve (.aff x y) = true) :
    (c.uncompressed (.aff x y)).bind c.decode = some (.aff x y) := by
  simp only [WCurve.uncompressed, Option.bind_some]
  exact decode_uncompressed c x y h

/-- conversely the decoder only accepts `04 ‖ X ‖ Y` when the point is on the curve, and then the
uncompressed encoding of the result is the input -/
theorem decode_04_sound (c : WCurve) (rest : Bytes) (P : WPoint) (h : c.decode (4 :: rest) = some P) :
    c.onCurve P = true ∧ c.uncompressed P = some (4 :: rest) := by
  unfold WCurve.decode at h
  have h1 : ¬ (((4 : UInt8) = 2 ∨ (4 : UInt8) = 3) ∧ rest.length = c.coordLen) := by
    intro hh; rcases hh.1 with h' | h' <;> exact absurd h' (by decide)
  simp only [h1, if_false] at h
  split at h
  · next h2 =>
    split at h
    · next hon =>
      cases h
      refine ⟨hon, ?_⟩
      simp only [WCurve.uncompressed, Option.some.injEq]
      have hl1 : (rest.take c.coordLen).length = c.coordLen := by rw [List.length_take]; omega
      have hl2 : (rest.drop c.coordLen).length = c.coordLen := by rw [List.length_drop]; omega
      have e1 := ofNatBE_toNatBE (rest.take c.coordLen)
      have e2 := ofNatBE_toNatBE (rest.drop c.coordLen)
      rw [hl1] at e1; rw [hl2] at e2
      rw [e1, e2, List.cons_append, List.take_append_drop]
    · cases h
  · cases h

/-- `PublicKey.FromBytes(04 ‖ x ‖ y)` on an ECDSA curve returns the compressed key `02/03 ‖ x` -/
theorem pubFromBytes_uncompressed (c : CurveT) (hc : c = .secp256k1 ∨ c = .nist256p1) (x y : Nat)
    (h : c.wcurve.onCurve (.aff x y) = true) :
    pubFromBytes c (4 :: Bytes.ofNatBE 32 x ++ Bytes.ofNatBE 32 y) =
      some (UInt8.ofNat (2 + y % 2) :: Bytes.ofNatBE 32 x) := by
  have hd := decode_uncompressed c.wcurve x y h
  rw [wcurve_coordLen] at hd
  rcases hc with rfl | rfl <;>
  · simp only [pubFromBytes, wDecodePub, hd]
    exact (sec1_compress_parity _ x y).1

/-- the plain SEC1 decoder refuses every prefix other than 02/03/04 -/
theorem decode_hybrid_prefix_none (w : WCurve) (pfx : UInt8) (hp : pfx = 6 ∨ pfx = 7) (rest : Bytes) :
    w.decode (pfx :: rest) = none := by
  unfold WCurve.decode
  have h1 : ¬ ((pfx = 2 ∨ pfx = 3) ∧ rest.length = w.coordLen) := by
    intro hh; rcases hp with rfl | rfl <;> rcases hh.1 with h' | h' <;> exact absurd h' (by decide)
  have h2 : ¬ (pfx = 4 ∧ rest.length = 2 * w.coordLen) := by
    intro hh; rcases hp with rfl | rfl <;> exact absurd hh.1 (by decide)
  show (if (pfx = 2 ∨ pfx = 3) ∧ rest.length = w.coordLen then _ else
    if pfx = 4 ∧ rest.length = 2 * w.coordLen then _ else none) = none
  rw [if_neg h1, if_neg h2]

/-- hybrid encodings `06/07 ‖ x ‖ y` (libsecp256k1 and python-ecdsa alike): accepted iff the prefix
parity matches `y` -/
theorem hybrid_ecdsa (c : CurveT) (hc : c = .secp256k1 ∨ c = .nist256p1) (x y : Nat) (pfx : UInt8)
    (hp : pfx = 6 ∨ pfx = 7) (h : c.wcurve.onCurve (.aff x y) = true) :
    wDecodePub c (pfx :: Bytes.ofNatBE 32 x ++ Bytes.ofNatBE 32 y) =
      if (y % 2 = 1) = (pfx = 7) then some (.aff x y) else none := by
  have hd := decode_uncompressed c.wcurve x y h
  rw [wcurve_coordLen] at hd
  have hnone := decode_hybrid_prefix_none c.wcurve pfx hp (Bytes.ofNatBE 32 x ++ Bytes.ofNatBE 32 y)
  have hlen : (pfx :: Bytes.ofNatBE 32 x ++ Bytes.ofNatBE 32 y).length = 65 := by simp
  have hcc : (decide (c = .secp256k1) || decide (c = .nist256p1)) = true := by
    rcases hc with rfl | rfl <;> rfl
  rw [List.cons_append] at hd hlen ⊢
  unfold wDecodePub
  rw [hnone]
  have hp' : (decide (pfx = 6) || decide (pfx = 7)) = true := by simpa using hp
  simp only [hlen, hcc, decide_true, Bool.and_self, if_true, hp', hd]

theorem hybrid_secp256k1 (x y : Nat) (pfx : UInt8) (hp : pfx = 6 ∨ pfx = 7)
    (h : Prim.secp256k1.onCurve (.aff x y) = true) :
    wDecodePub .secp256k1 (pfx :: Bytes.ofNatBE 32 x ++ Bytes.ofNatBE 32 y) =
      if (y % 2 = 1) = (pfx = 7) then some (.aff x y) else none :=
  hybrid_ecdsa .secp256k1 (Or.inl rfl) x y pfx hp h

/-- python-ecdsa (NIST P-256) accepts the hybrid encodings under the same parity rule -/
theorem hybrid_nist256p1 (x y : Nat) (pfx : UInt8) (hp : pfx = 6 ∨ pfx = 7)
    (h : Prim.nist256p1.onCurve (.aff x y) = true) :
    wDecodePub .nist256p1 (pfx :: Bytes.ofNatBE 32 x ++ Bytes.ofNatBE 32 y) =
      if (y % 2 = 1) = (pfx = 7) then some (.aff x y) else none :=
  hybrid_ecdsa .nist256p1 (Or.inr rfl) x y pfx hp h

/-- the SEC1 decoder of a 32-byte-coordinate curve only accepts 33 or 65 bytes -/
theorem decode_length (w : WCurve) (b : Bytes) (P : WPoint) (hw : w.coordLen = 32)
    (hd : w.decode b = some P) : b.length = 33 ∨ b.length = 65 := by
  unfold WCurve.decode at hd
  cases b with
  | nil => cases hd
  | cons t rest =>
    simp only [hw] at hd
    split at hd
    · next h1 => left; simp [h1.2]
    · split at hd
      · next h2 => right; simp [h2.2]
      · cases hd

/-- python-ecdsa (NIST P-256) accepts the raw encoding `x ‖ y` (64 bytes, no prefix) of an on-curve
point (`onCurve` includes `x, y < p`) -/
theorem raw_nist256p1 (x y : Nat) (h : Prim.nist256p1.onCurve (.aff x y) = true) :
    wDecodePub .nist256p1 (Bytes.ofNatBE 32 x ++ Bytes.ofNatBE 32 y) = some (.aff x y) := by
  have hd := decode_uncompressed Prim.nist256p1 x y h
  rw [coordLen_nist256p1, List.cons_append] at hd
  have hlen : (Bytes.ofNatBE 32 x ++ Bytes.ofNatBE 32 y).length = 64 := by
    simp [length_ofNatBE]
  have hnone : Prim.nist256p1.decode (Bytes.ofNatBE 32 x ++ Bytes.ofNatBE 32 y) = none := by
    cases hq : Prim.nist256p1.decode (Bytes.ofNatBE 32 x ++ Bytes.ofNatBE 32 y) with
    | none => rfl
    | some P =>
      have := decode_length _ _ P coordLen_nist256p1 hq
      omega
  unfold wDecodePub
  simp only [CurveT.wcurve]
  rw [hnone]
  simp [hlen, hd]

/-- … and its compressed form is `02/03 ‖ x` -/
theorem pubFromBytes_raw_nist256p1 (x y : Nat) (h : Prim.nist256p1.onCurve (.aff x y) = true) :
    pubFromBytes .nist256p1 (Bytes.ofNatBE 32 x ++ Bytes.ofNatBE 32 y) =
      some (UInt8.ofNat (2 + y % 2) :: Bytes.ofNatBE 32 x) := by
  simp only [pubFromBytes, raw_nist256p1 x y h]
  exact (sec1_compress_parity .nist256p1 x y).1

/-- libsecp256k1 refuses every 64-byte input (no raw `x ‖ y` form) -/
theorem raw_secp256k1_refused (b : Bytes) (hb : b.length = 64) : pubFromBytes .secp256k1 b = none := by
  have hnone : Prim.secp256k1.decode b = none := by
    cases hq : Prim.secp256k1.decode b with
    | none => rfl
    | some P =>
      have := decode_length _ _ P coordLen_secp256k1 hq
      omega
  simp only [pubFromBytes, wDecodePub, CurveT.wcurve, hnone]
  simp [hb]

/-- accepted ECDSA public key lengths: 33 / 65 bytes, and also 64 (raw `x ‖ y`) for NIST P-256 only -/
theorem pubFromBytes_ecdsa_length (c : CurveT) (hc : c = .secp256k1 ∨ c = .nist256p1) (b k : Bytes)
    (h : pubFromBytes c b = some k) :
    b.length = 33 ∨ b.length = 65 ∨ (c = .nist256p1 ∧ b.length = 64) := by
  have : ∃ P, wDecodePub c b = some P := by
    rcases hc with rfl | rfl <;>
    · simp only [pubFromBytes] at h
      split at h
      · exact ⟨_, by assumption⟩
      · cases h
  obtain ⟨P, hP⟩ := this
  unfold wDecodePub at hP
  split at hP
  · next p hd =>
    rcases decode_length _ _ _ (wcurve_coordLen c) hd with h' | h'
    · exact Or.inl h'
    · exact Or.inr (Or.inl h')
  · split at hP
    · next hh =>
      simp only [Bool.and_eq_true, decide_eq_true_eq] at hh
      exact Or.inr (Or.inl hh.2)
    · split at hP
      · next hh =>
        simp only [Bool.and_eq_true, decide_eq_true_eq] at hh
        exact Or.inr (Or.inr hh)
      · cases hP

theorem pubFromBytes_secp256k1_length (b k : Bytes) (h : pubFromBytes .secp256k1 b = some k) :
    b.length = 33 ∨ b.length = 65 := by
  rcases pubFromBytes_ecdsa_length _ (Or.inl rfl) b k h with h' | h' | ⟨h', _⟩
  · exact Or.inl h'
  · exact Or.inr h'
  · cases h'

theorem pubFromBytes_nist256p1_length (b k : Bytes) (h : pubFromBytes .nist256p1 b = some k) :
    b.length = 33 ∨ b.length = 64 ∨ b.length = 65 := by
  rcases pubFromBytes_ecdsa_length _ (Or.inr rfl) b k h with h' | h' | ⟨_, h'⟩
  · exact Or.inl h'
  · exact Or.inr (Or.inr h')
  · exact Or.inr (Or.inl h')

end BipVerif.Model.EccLemmas
