/-
Extended-key (de)serialisation lemmas: the payload layout, the parser after the Base58Check
layer as a total case split, and the serialiser in closed form.
-/
import BipVerif.Lemmas.XK.Base58Check
import BipVerif.Lemmas.XK.Base58Canon
import BipVerif.Lemmas.XK.ToBytes
import BipVerif.Model.Bip32

namespace BipVerif.Model.XK
open BipVerif

theorem pyIdx_of_lt {α} (l : List α) (i : Nat) (h : i < l.length) : pyIdx l i = .ok l[i] := by
  unfold pyIdx; simp [h]; rfl

/-! ### the 78/110-byte payload -/

/-- the serialised payload: version, depth byte, fingerprint, index bytes, chain code, key. -/
def extPayload (ver : Bytes) (d : UInt8) (fp i4 cc key : Bytes) : Bytes :=
  ver ++ [d] ++ fp ++ i4 ++ cc ++ key

theorem extPayload_length (ver : Bytes) (d : UInt8) (fp i4 cc key : Bytes)
    (hv : ver.length = 4) (hfp : fp.length = 4) (hi : i4.length = 4) (hcc : cc.length = 32) :
    (extPayload ver d fp i4 cc key).length = 45 + key.length := by
  simp [extPayload, hv, hfp, hi, hcc]; omega

theorem extPayload_take4 (ver : Bytes) (d : UInt8) (fp i4 cc key : Bytes) (hv : ver.length = 4) :
    (extPayload ver d fp i4 cc key).take 4 = ver := by
  simp [extPayload, hv]

theorem extPayload_get4 (ver : Bytes) (d : UInt8) (fp i4 cc key : Bytes) (hv : ver.length = 4) :
    (extPayload ver d fp i4 cc key).getD 4 0 = d := by
  simp [extPayload, List.getD_eq_getElem?_getD, hv]

theorem extPayload_fp (ver : Bytes) (d : UInt8) (fp i4 cc key : Bytes)
    (hv : ver.length = 4) (hfp : fp.length = 4) :
    ((extPayload ver d fp i4 cc key).drop 5).take 4 = fp := by
  simp [extPayload, List.take_append, List.drop_append, hv, hfp]

theorem extPayload_idx (ver : Bytes) (d : UInt8) (fp i4 cc key : Bytes)
    (hv : ver.length = 4) (hfp : fp.length = 4) (hi : i4.length = 4) :
    ((extPayload ver d fp i4 cc key).drop 9).take 4 = i4 := by
  simp [extPayload, List.take_append, List.drop_append, hv, hfp, hi]

theorem extPayload_cc (ver : Bytes) (d : UInt8) (fp i4 cc key : Bytes)
    (hv : ver.length = 4) (hfp : fp.length = 4) (hi : i4.length = 4) (hcc : cc.length = 32) :
    ((extPayload ver d fp i4 cc key).drop 13).take 32 = cc := by
  simp [extPayload, List.drop_append, hv, hfp, hi, hcc,
    List.drop_of_length_le (show ver.length ≤ 13 by omega),
    List.drop_of_length_le (show fp.length ≤ 8 by omega)]

theorem extPayload_key (ver : Bytes) (d : UInt8) (fp i4 cc key : Bytes)
    (hv : ver.length = 4) (hfp : fp.length = 4) (hi : i4.length = 4) (hcc : cc.length = 32) :
    (extPayload ver d fp i4 cc key).drop 45 = key := by
  simp [extPayload, List.drop_append, hv, hfp, hi, hcc,
    List.drop_of_length_le (show ver.length ≤ 45 by omega),
    List.drop_of_length_le (show fp.length ≤ 40 by omega),
    List.drop_of_length_le (show i4.length ≤ 36 by omega)]

/-- any byte string of at least 45 bytes is the payload built from its own fields. -/
theorem extPayload_reassemble (ser : Bytes) (h : 45 ≤ ser.length) :
    extPayload (ser.take 4) (ser.getD 4 0) ((ser.drop 5).take 4) ((ser.drop 9).take 4)
      ((ser.drop 13).take 32) (ser.drop 45) = ser := by
  have e1 : ser = ser.take 4 ++ ser.drop 4 := (List.take_append_drop 4 ser).symm
  have e2 : ser.drop 4 = ser[4] :: ser.drop 5 := List.drop_eq_getElem_cons (by omega)
  have e3 : ser.drop 5 = (ser.drop 5).take 4 ++ ser.drop 9 := by
    have := (List.take_append_drop 4 (ser.drop 5)).symm
    simpa [List.drop_drop] using this
  have e4 : ser.drop 9 = (ser.drop 9).take 4 ++ ser.drop 13 := by
    have := (List.take_append_drop 4 (ser.drop 9)).symm
    simpa [List.drop_drop] using this
  have e5 : ser.drop 13 = (ser.drop 13).take 32 ++ ser.drop 45 := by
    have := (List.take_append_drop 32 (ser.drop 13)).symm
    simpa [List.drop_drop] using this
  have hg4 : ser.getD 4 0 = ser[4] := by
    simp [List.getD_eq_getElem?_getD, (show 4 < ser.length by omega)]
  unfold extPayload
  rw [hg4]
  calc _ = ser.take 4 ++ (ser[4] :: ((ser.drop 5).take 4 ++ ((ser.drop 9).take 4
            ++ ((ser.drop 13).take 32 ++ ser.drop 45)))) := by
          simp only [List.append_assoc, List.cons_append, List.nil_append]
    _ = ser := by rw [← e5, ← e4, ← e3, ← e2, ← e1]

/-! ### serialiser in closed form -/

theorem serializeKey_eq (H : Bytes → Bytes) (ver : Bytes) (depth : Nat) (fp : Bytes) (idx : Nat)
    (cc key : Bytes) (hd : depth < 256) (hi : idx < 2 ^ 32) :
    serializeKey H ver depth fp idx cc key =
      .ok (b58CheckEncode H btcAlphabet
        (extPayload ver (UInt8.ofNat depth) fp (Bytes.ofNatBE 4 idx) cc key)) := by
  unfold serializeKey
  rw [toBytesBE_eq depth 1 (by simpa using hd), toBytesBE_eq idx 4 (by norm_num at hi ⊢; exact hi),
    ofNatBE_one depth hd]
  rfl

theorem serializeKey_overflow (H : Bytes → Bytes) (ver : Bytes) (depth : Nat) (fp : Bytes) (idx : Nat)
    (cc key : Bytes) (h : ¬ (depth < 256 ∧ idx < 2 ^ 32)) :
    serializeKey H ver depth fp idx cc key = .error .overflow := by
  unfold serializeKey
  by_cases hd : depth < 256
  · have hi : ¬ idx < 256 ^ 4 := by
      intro hi; apply h; exact ⟨hd, by norm_num at hi ⊢; exact hi⟩
    rw [toBytesBE_eq depth 1 (by simpa using hd), toBytesBE_overflow idx 4 hi]
    rfl
  · rw [toBytesBE_overflow depth 1 (by simpa using hd)]
    rfl

/-! ### the parser behind the Base58Check layer -/

/-- `deserializeKey` after `b58CheckDecode` (same text as the model). -/
def parsePayload (kv : KeyNetVer) (ser : Bytes) : R DeserKey := do
  let ver := ser.take 4
  let isPub ← if ver = kv.pub then pure true else if ver = kv.priv then pure false else throw .key
  if isPub && ser.length ≠ 78 then throw .key
  if !isPub && !(ser.length = 78 || ser.length = 110) then throw .key
  let depth ← pyIdx ser 4
  let fp := (ser.drop 5).take 4
  let idx := Bytes.toNatBE ((ser.drop 9).take 4)
  let cc := (ser.drop 13).take 32
  let key := ser.drop 45
  if !isPub then
    let k0 ← pyIdx key 0
    if k0 ≠ 0 then throw .key
    pure { keyBytes := key.drop 1, depth := depth.toNat, index := idx, chainCode := cc, parentFp := fp, isPublic := false }
  else
    pure { keyBytes := key, depth := depth.toNat, index := idx, chainCode := cc, parentFp := fp, isPublic := true }

theorem deserializeKey_eq (H : Bytes → Bytes) (kv : KeyNetVer) (s : List Char) :
    deserializeKey H kv s = b58CheckDecode H btcAlphabet s >>= parsePayload kv := rfl

/-- the fields read from a public payload -/
def fieldsPub (ser : Bytes) : DeserKey :=
  ⟨ser.drop 45, (ser.getD 4 0).toNat, Bytes.toNatBE ((ser.drop 9).take 4), (ser.drop 13).take 32,
    (ser.drop 5).take 4, true⟩

/-- the fields read from a private payload (the pad byte at offset 45 is skipped) -/
def fieldsPriv (ser : Bytes) : DeserKey :=
  ⟨ser.drop 46, (ser.getD 4 0).toNat, Bytes.toNatBE ((ser.drop 9).take 4), (ser.drop 13).take 32,
    (ser.drop 5).take 4, false⟩

theorem parsePayload_pub (kv : KeyNetVer) (ser : Bytes) (h1 : ser.take 4 = kv.pub) :
    parsePayload kv ser = if ser.length = 78 then .ok (fieldsPub ser) else .error .key := by
  unfold parsePayload
  by_cases h2 : ser.length = 78
  · simp [h1, h2, pyIdx_of_lt ser 4 (by omega), bind, Except.bind, pure, Except.pure, fieldsPub]
  · simp [h1, h2, bind, Except.bind, pure, Except.pure, throw, throwThe, MonadExceptOf.throw]

theorem getD_drop0 (ser : Bytes) (h : 45 < ser.length) :
    ser.getD 45 1 = (ser.drop 45)[0]'(by simp; omega) := by
  simp [List.getD_eq_getElem?_getD, h]

theorem parsePayload_priv (kv : KeyNetVer) (ser : Bytes) (h0 : ser.take 4 ≠ kv.pub)
    (h1 : ser.take 4 = kv.priv) :
    parsePayload kv ser = if ser.length = 78 ∨ ser.length = 110 then
      (if ser.getD 45 1 = 0 then .ok (fieldsPriv ser) else .error .key) else .error .key := by
  unfold parsePayload
  have h0' : kv.priv ≠ kv.pub := h1 ▸ h0
  by_cases h2 : ser.length = 78 ∨ ser.length = 110
  · have h4 : 4 < ser.length := by omega
    have h45 : 0 < (ser.drop 45).length := by simp; omega
    have hg : ser.getD 45 1 = (ser.drop 45)[0] := getD_drop0 ser (by omega)
    have hg4 : ser.getD 4 0 = ser[4] := by simp [List.getD_eq_getElem?_getD, h4]
    rw [if_pos h2, hg]
    by_cases h3 : (ser.drop 45)[0] = 0
    · rcases h2 with h2 | h2 <;>
      simp [h1, h0', h2, h3, pyIdx_of_lt ser 4 h4, pyIdx_of_lt _ 0 h45, bind, Except.bind, pure,
        Except.pure, fieldsPriv]
    · rcases h2 with h2 | h2 <;>
      simp [h1, h0', h2, pyIdx_of_lt ser 4 h4, pyIdx_of_lt _ 0 h45, bind, Except.bind, pure,
        Except.pure, fieldsPriv, throw, throwThe, MonadExceptOf.throw]
  · have h78 : ser.length ≠ 78 := fun e => h2 (Or.inl e)
    have h110 : ser.length ≠ 110 := fun e => h2 (Or.inr e)
    simp [h1, h0', h78, h110, bind, Except.bind, pure, Except.pure, throw, throwThe,
      MonadExceptOf.throw]

theorem parsePayload_unknown (kv : KeyNetVer) (ser : Bytes) (h0 : ser.take 4 ≠ kv.pub)
    (h1 : ser.take 4 ≠ kv.priv) : parsePayload kv ser = .error .key := by
  unfold parsePayload
  simp [h0, h1, bind, Except.bind, throw, throwThe, MonadExceptOf.throw]

/-- **the parser as a total decision tree** — no `IndexError` can escape: both `pyIdx` calls are
behind the length guards. -/
theorem parsePayload_eq (kv : KeyNetVer) (ser : Bytes) :
    parsePayload kv ser =
      if ser.take 4 = kv.pub then
        (if ser.length = 78 then .ok (fieldsPub ser) else .error .key)
      else if ser.take 4 = kv.priv then
        (if ser.length = 78 ∨ ser.length = 110 then
          (if ser.getD 45 1 = 0 then .ok (fieldsPriv ser) else .error .key)
        else .error .key)
      else .error .key := by
  by_cases h0 : ser.take 4 = kv.pub
  · rw [if_pos h0]; exact parsePayload_pub kv ser h0
  · rw [if_neg h0]
    by_cases h1 : ser.take 4 = kv.priv
    · rw [if_pos h1]; exact parsePayload_priv kv ser h0 h1
    · rw [if_neg h1]; exact parsePayload_unknown kv ser h0 h1

theorem parsePayload_error (kv : KeyNetVer) (ser : Bytes) (e : Err)
    (h : parsePayload kv ser = .error e) : e = .key := by
  rw [parsePayload_eq] at h
  repeat' split at h
  all_goals (cases h <;> rfl)

/-- characterisation of parser success -/
theorem parsePayload_ok_iff (kv : KeyNetVer) (ser : Bytes) (d : DeserKey) :
    parsePayload kv ser = .ok d ↔
      (ser.take 4 = kv.pub ∧ ser.length = 78 ∧ d = fieldsPub ser) ∨
      (ser.take 4 ≠ kv.pub ∧ ser.take 4 = kv.priv ∧ (ser.length = 78 ∨ ser.length = 110) ∧
        ser.getD 45 1 = 0 ∧ d = fieldsPriv ser) := by
  rw [parsePayload_eq]
  constructor
  · intro h
    repeat' split at h
    all_goals (cases h <;> simp_all)
  · rintro (⟨h1, h2, h3⟩ | ⟨h0, h1, h2, h3, h4⟩)
    · rw [if_pos h1, if_pos h2, h3]
    · rw [if_neg h0, if_pos h1, if_pos h2, if_pos h3, h4]

/-- characterisation of the parser's `.key` error -/
theorem parsePayload_key_iff (kv : KeyNetVer) (ser : Bytes) :
    parsePayload kv ser = .error .key ↔
      (ser.take 4 ≠ kv.pub ∧ ser.take 4 ≠ kv.priv) ∨
      (ser.take 4 = kv.pub ∧ ser.length ≠ 78) ∨
      (ser.take 4 ≠ kv.pub ∧ ser.take 4 = kv.priv ∧ ¬ (ser.length = 78 ∨ ser.length = 110)) ∨
      (ser.take 4 ≠ kv.pub ∧ ser.take 4 = kv.priv ∧ (ser.length = 78 ∨ ser.length = 110) ∧
        ser.getD 45 1 ≠ 0) := by
  rw [parsePayload_eq]
  by_cases h0 : ser.take 4 = kv.pub
  · by_cases h2 : ser.length = 78 <;> simp [h0, h2]
  · by_cases h1 : ser.take 4 = kv.priv
    · have h0' : ¬ kv.priv = kv.pub := h1 ▸ h0
      by_cases h2 : ser.length = 78 ∨ ser.length = 110
      · by_cases h3 : ser.getD 45 1 = 0
        · rw [if_neg h0, if_pos h1, if_pos h2, if_pos h3]; simp [h0', h1, h2]
          simpa [List.getD_eq_getElem?_getD] using h3
        · rw [if_neg h0, if_pos h1, if_pos h2, if_neg h3]; simp [h0', h1, h2]
          simpa [List.getD_eq_getElem?_getD] using h3
      · rw [if_neg h0, if_pos h1, if_neg h2]; simp [h0', h1, h2]
    · simp [h0, h1]

/-! ### parsing a built payload -/

theorem fieldsPub_extPayload (ver : Bytes) (d : UInt8) (fp i4 cc key : Bytes)
    (hv : ver.length = 4) (hfp : fp.length = 4) (hi : i4.length = 4) (hcc : cc.length = 32) :
    fieldsPub (extPayload ver d fp i4 cc key) = ⟨key, d.toNat, Bytes.toNatBE i4, cc, fp, true⟩ := by
  unfold fieldsPub
  rw [extPayload_key _ _ _ _ _ _ hv hfp hi hcc, extPayload_get4 _ _ _ _ _ _ hv,
    extPayload_idx _ _ _ _ _ _ hv hfp hi, extPayload_cc _ _ _ _ _ _ hv hfp hi hcc,
    extPayload_fp _ _ _ _ _ _ hv hfp]

theorem fieldsPriv_extPayload (ver : Bytes) (d : UInt8) (fp i4 cc : Bytes) (k0 : UInt8) (k : Bytes)
    (hv : ver.length = 4) (hfp : fp.length = 4) (hi : i4.length = 4) (hcc : cc.length = 32) :
    fieldsPriv (extPayload ver d fp i4 cc (k0 :: k)) = ⟨k, d.toNat, Bytes.toNatBE i4, cc, fp, false⟩ ∧
      (extPayload ver d fp i4 cc (k0 :: k)).getD 45 1 = k0 := by
  have hk := extPayload_key ver d fp i4 cc (k0 :: k) hv hfp hi hcc
  have h46 : (extPayload ver d fp i4 cc (k0 :: k)).drop 46 = k := by
    have : (extPayload ver d fp i4 cc (k0 :: k)).drop 46
        = ((extPayload ver d fp i4 cc (k0 :: k)).drop 45).drop 1 := by simp [List.drop_drop]
    rw [this, hk]; rfl
  constructor
  · unfold fieldsPriv
    rw [h46, extPayload_get4 _ _ _ _ _ _ hv,
      extPayload_idx _ _ _ _ _ _ hv hfp hi, extPayload_cc _ _ _ _ _ _ hv hfp hi hcc,
      extPayload_fp _ _ _ _ _ _ hv hfp]
  · have hlen := extPayload_length ver d fp i4 cc (k0 :: k) hv hfp hi hcc
    rw [getD_drop0 _ (by rw [hlen]; simp)]
    simp [hk]

/-! ### `FromExtendedKey` -/

/-- the checks of `FromExtendedKey` after parsing -/
def nodeOfDeser (c : CurveT) (sch : Scheme) (d : DeserKey) : R Node :=
  if d.depth = 0 ∧ (d.parentFp ≠ [0,0,0,0] ∨ d.index ≠ 0) then .error .key
  else if d.isPublic then nodeOfPub c sch d.keyBytes d.depth d.index d.chainCode d.parentFp
  else nodeOfPriv c sch d.keyBytes d.depth d.index d.chainCode d.parentFp

theorem fromExtendedKey_eq (H : Bytes → Bytes) (c : CurveT) (sch : Scheme) (kv : KeyNetVer)
    (s : List Char) :
    fromExtendedKey H c sch kv s = deserializeKey H kv s >>= nodeOfDeser c sch := by
  unfold fromExtendedKey
  cases deserializeKey H kv s with
  | error e => rfl
  | ok d =>
    show _ = nodeOfDeser c sch d
    unfold nodeOfDeser
    by_cases h0 : d.depth = 0
    · by_cases h1 : d.parentFp = [0,0,0,0]
      · by_cases h2 : d.index = 0
        · simp [h0, h1, h2, bind, Except.bind]
        · simp [h0, h1, h2, bind, Except.bind, throw, throwThe, MonadExceptOf.throw]
      · simp [h0, h1, bind, Except.bind, throw, throwThe, MonadExceptOf.throw]
    · simp [h0, bind, Except.bind]

theorem nodeOfPub_eq (c : CurveT) (s : Scheme) (pb : Bytes) (depth idx : Nat) (cc fp : Bytes) :
    nodeOfPub c s pb depth idx cc fp =
      match pubFromBytes c pb with
      | some pub => .ok { curve := c, scheme := s, priv := none, pub := pub, depth := depth,
                          index := idx, chainCode := cc, parentFp := fp.take 4 }
      | none => .error .key := by
  unfold nodeOfPub; cases pubFromBytes c pb <;> rfl

theorem nodeOfPriv_eq (c : CurveT) (s : Scheme) (k : Bytes) (depth idx : Nat) (cc fp : Bytes) :
    nodeOfPriv c s k depth idx cc fp =
      if privValid c k = false then .error .key
      else match pubOfPriv c k with
        | some pub => .ok { curve := c, scheme := s, priv := some k, pub := pub, depth := depth,
                            index := idx, chainCode := cc, parentFp := fp.take 4 }
        | none => .error .value := by
  unfold nodeOfPriv
  cases hv : privValid c k
  · simp [throw, throwThe, MonadExceptOf.throw]
  · simp only [Bool.not_true, Bool.false_eq_true, if_false]
    cases pubOfPriv c k <;> rfl

end BipVerif.Model.XK
