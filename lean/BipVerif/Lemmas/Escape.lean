/-
Helper lemmas for C14 ("only documented exceptions escape"): error kinds of the decoders that had
no such lemma yet — Monero Base58, Base32, the Bech32 family (including the unreachability of the
`IndexError` of `data[0]` / `conv[0]`), SCALE compact, the CBOR indefinite-length array loop
(fuel exhaustion unreachable), Substrate paths.
-/
import BipVerif.Lemmas.Base58Xmr
import BipVerif.Lemmas.Base32
import BipVerif.Lemmas.Bech32
import BipVerif.Lemmas.Scale
import BipVerif.Lemmas.SS58
import BipVerif.Lemmas.Bip39
import BipVerif.Model.Substrate
import BipVerif.Model.Wif

namespace BipVerif.Model.EscapeLemmas
open BipVerif BipVerif.Model

theorem bind_err {α β} {x : R α} {f : α → R β} {e : Err} (h : (x >>= f) = .error e) :
    x = .error e ∨ ∃ a, x = .ok a ∧ f a = .error e := by
  cases x with
  | error e' => left; simpa [bind, Except.bind] using h
  | ok a => right; exact ⟨a, rfl, by simpa [bind, Except.bind] using h⟩

theorem mapM_err {α β} {f : α → R β} {P : Err → Prop} (hf : ∀ a e, f a = .error e → P e) :
    ∀ (l : List α) {e : Err}, l.mapM f = .error e → P e
  | [], e, h => by cases h
  | a :: l, e, h => by
    rw [List.mapM_cons] at h
    rcases bind_err h with h | ⟨b, _, h⟩
    · exact hf a e h
    · rcases bind_err h with h | ⟨bs, _, h⟩
      · exact mapM_err hf l h
      · cases h

theorem foldlM_err {α β} {f : β → α → R β} {P : Err → Prop} (hf : ∀ b a e, f b a = .error e → P e) :
    ∀ (l : List α) (b : β) {e : Err}, l.foldlM f b = .error e → P e
  | [], b, e, h => by cases h
  | a :: l, b, e, h => by
    rw [List.foldlM_cons] at h
    rcases bind_err h with h | ⟨b', _, h⟩
    · exact hf b a e h
    · exact foldlM_err hf l b' h

/-! ### Monero Base58 -/

theorem xmrDecBlk_error {i : Nat} {blk : List Char} {e : Err} (h : xmrDecBlk i blk = .error e) :
    e = .value := by
  rw [xmrDecBlk_eq] at h
  cases hd : b58Decode btcAlphabet blk with
  | error e' =>
    rw [hd] at h
    cases h
    exact b58Decode_error hd
  | ok d =>
    rw [hd] at h
    simp only at h
    by_cases hc : (d.dropWhile (· == 0)).length > (if blk.length = 11 then 8 else i)
    · rw [if_pos hc] at h; cases h; rfl
    · rw [if_neg hc] at h; cases h

theorem xmrDecode_error {s : List Char} {e : Err} (h : xmrDecode s = .error e) : e = .value := by
  rw [xmrDecode_eq] at h
  cases hi : xmrBlockEncLens.idxOf? (s.length % 11) with
  | none => rw [hi] at h; cases h; rfl
  | some i =>
    rw [hi] at h
    rcases bind_err h with h | ⟨a, _, h⟩
    · exact mapM_err (fun blk e he => xmrDecBlk_error he) _ h
    · cases h

/-! ### Base32 -/

theorem b32Acc_error {q : List Char} {e : Err} (h : b32Acc q = .error e) : e = .value := by
  unfold b32Acc at h
  refine foldlM_err (P := fun e => e = .value) ?_ q 0 h
  intro b c e he
  split at he
  · cases he
  · cases he; rfl

theorem b32decodeStd_error {s : List Char} {e : Err} (h : b32decodeStd s = .error e) : e = .value := by
  rw [b32decodeStd_def] at h
  dsimp only at h
  split at h
  · cases h; rfl
  split at h
  · cases h; rfl
  rcases bind_err h with h | ⟨accs, _, h⟩
  · exact mapM_err (fun q e he => b32Acc_error he) _ h
  · split at h
    · cases h; rfl
    · split at h <;> cases h

theorem base32Decode_error {s : List Char} {custom : Option (List Char)} {e : Err}
    (h : base32Decode s custom = .error e) : e = .value := by
  rw [base32Decode_eq] at h
  cases hd : b32decodeStd (base32Pre s custom) with
  | error e' => rw [hd] at h; cases h; exact b32decodeStd_error hd
  | ok dec =>
    rw [hd] at h
    simp only at h
    split at h
    · cases h
    · cases h; rfl

/-! ### Bech32 family -/

theorem bechDecodeRaw_error {U : CaseOracle} {k : BechKind} {s : List Char} {e : Err}
    (h : bechDecodeRaw U k s = .error e) : e = .value ∨ e = .checksum := by
  rw [bechDecodeRaw_eq_flat] at h
  unfold bechDecodeRawFlat at h
  split at h
  · cases h; exact Or.inl rfl
  split at h
  · cases h; exact Or.inl rfl
  · cases hr : rfind (s.flatMap U.lower) k.sep with
    | none => rw [hr] at h; cases h; exact Or.inl rfl
    | some p =>
      rw [hr] at h
      simp only at h
      split at h
      · cases h; exact Or.inl rfl
      · split at h
        · cases h; exact Or.inl rfl
        · split at h
          · cases h; exact Or.inr rfl
          · cases h

/-- an accepted string has at least one data symbol besides the checksum -/
theorem bechDecodeRaw_data_ne_nil {U : CaseOracle} {k : BechKind} {s hrp : List Char}
    {data : List Nat} (h : bechDecodeRaw U k s = .ok (hrp, data)) : data ≠ [] := by
  rw [bechDecodeRaw_eq_flat] at h
  unfold bechDecodeRawFlat at h
  split at h
  · cases h
  split at h
  · cases h
  · cases hr : rfind (s.flatMap U.lower) k.sep with
    | none => rw [hr] at h; cases h
    | some p =>
      rw [hr] at h
      simp only at h
      split at h
      · cases h
      · split at h
        · cases h
        · rename_i hlen
          split at h
          · cases h
          · injection h with h
            injection h with _ h
            intro hnil
            rw [← h] at hnil
            have hl := congrArg List.length hnil
            simp only [dropLast, List.length_take, List.length_map, List.length_nil] at hl
            simp only [Bool.or_eq_true, decide_eq_true_eq, not_or, Nat.not_lt] at hlen
            omega


theorem fromBase32_error {d : List Nat} {e : Err} (h : fromBase32 d = .error e) : e = .value := by
  unfold fromBase32 at h
  split at h
  · cases h
  · cases h; rfl

theorem pyIdx_zero_ok {α} {l : List α} (h : l ≠ []) : ∃ x, pyIdx l 0 = .ok x := by
  cases l with
  | nil => exact absurd rfl h
  | cons x l => exact ⟨x, rfl⟩

/-- regrouping at least one 5-bit symbol into bytes without padding, when it succeeds, yields at
least one byte (a single symbol is refused: five bits are left over) -/
theorem fromBase32_ne_nil {d r : List Nat} (hd : d ≠ []) (h : fromBase32 d = .ok r) : r ≠ [] := by
  unfold fromBase32 at h
  cases hcb : convertBits d 5 8 false with
  | none => rw [hcb] at h; cases h
  | some r' =>
    rw [hcb] at h
    injection h with h
    subst h
    by_cases hv : ∀ v ∈ d, v < 2 ^ 5
    · rw [convertBits_nopad 5 8 (by omega) d hv] at hcb
      by_cases hc : 5 * d.length % 8 ≥ 5 ∨ ∃ b ∈ chunkRem 8 (symbolBits 5 d), b = true
      · rw [if_pos hc] at hcb; cases hcb
      · rw [if_neg hc] at hcb
        injection hcb with hcb
        simp only [not_or] at hc
        have hlen : 2 ≤ d.length := by
          cases d with
          | nil => exact absurd rfl hd
          | cons a d =>
            cases d with
            | nil => exfalso; apply hc.1; simp
            | cons b d => simp
        have h8 : 8 ≤ (symbolBits 5 d).length := by rw [length_symbolBits]; omega
        rw [fullChunks_step 8 (by omega) _ h8] at hcb
        rw [← hcb]; simp
    · have : ∃ v ∈ d, ¬ v < 2 ^ 5 := by
        simpa using hv
      rw [convertBits_none_of_invalid 5 8 false d this] at hcb
      cases hcb

theorem bech32Decode_error {U : CaseOracle} {hrp addr : List Char} {e : Err}
    (h : bech32Decode U hrp addr = .error e) : e = .value ∨ e = .checksum := by
  unfold bech32Decode at h
  rcases bind_err h with h | ⟨⟨hrpGot, data⟩, _, h⟩
  · exact bechDecodeRaw_error h
  · dsimp only at h
    split at h
    · cases h; exact Or.inl rfl
    · rcases bind_err h with h | ⟨r, _, h⟩
      · exact Or.inl (fromBase32_error h)
      · cases h

theorem segwitDecode_error {U : CaseOracle} {hrp addr : List Char} {e : Err}
    (h : segwitDecode U hrp addr = .error e) : e = .value ∨ e = .checksum := by
  unfold segwitDecode at h
  rcases bind_err h with h | ⟨⟨hrpGot, data⟩, hraw, h⟩
  · exact bechDecodeRaw_error h
  · dsimp only at h
    split at h
    · cases h; exact Or.inl rfl
    · rcases bind_err h with h | ⟨conv, _, h⟩
      · exact Or.inl (fromBase32_error h)
      · split at h
        · cases h; exact Or.inl rfl
        · obtain ⟨w, hw⟩ := pyIdx_zero_ok (bechDecodeRaw_data_ne_nil hraw)
          rw [hw] at h
          rcases bind_err h with h | ⟨w', _, h⟩
          · cases h
          · split at h
            · cases h; exact Or.inl rfl
            · split at h
              · cases h; exact Or.inl rfl
              · cases h

theorem bchDecode_error {U : CaseOracle} {hrp addr : List Char} {e : Err}
    (h : bchDecode U hrp addr = .error e) : e = .value ∨ e = .checksum := by
  unfold bchDecode at h
  rcases bind_err h with h | ⟨⟨hrpGot, data⟩, hraw, h⟩
  · exact bechDecodeRaw_error h
  · dsimp only at h
    split at h
    · cases h; exact Or.inl rfl
    · rcases bind_err h with h | ⟨conv, hconv, h⟩
      · exact Or.inl (fromBase32_error h)
      · obtain ⟨w, hw⟩ := pyIdx_zero_ok (fromBase32_ne_nil (bechDecodeRaw_data_ne_nil hraw) hconv)
        rw [hw] at h
        cases h


/-! ### SCALE / CBOR -/

theorem scaleCompact_error_kind {v : Nat} {e : Err} (h : scaleCompact v = .error e) : e = .value := by
  by_cases hv : v < 2 ^ 536
  · obtain ⟨b, hb⟩ := (scaleCompact_ok_iff v).2 hv
    rw [hb] at h; cases h
  · rw [scaleCompact_error (by omega)] at h
    cases h; rfl

theorem cborLoadsUint_error {b : Bytes} {e : Err} (h : cborLoadsUint b = .error e) : e = .value := by
  unfold cborLoadsUint at h
  split at h
  · cases h; rfl
  · split at h
    · cases h
    · split at h
      · dsimp only at h
        split at h
        · cases h; rfl
        · cases h
      · split at h
        · cases h
        · cases h; rfl

theorem cborItemLen_pos (c : UInt8) : 1 ≤ cborItemLen c := by
  unfold cborItemLen
  split
  · omega
  · split
    · omega
    · split
      · omega
      · split <;> omega

/-- the loop never runs out of fuel: the index strictly increases and the fuel covers every index -/
theorem cborGo_error (loads : Bytes → R CborItem) (hl : ∀ b e, loads b = .error e → e = .value)
    (enc : Bytes) : ∀ (fuel i : Nat) (acc : List CborItem) (e : Err), 1 ≤ fuel →
      enc.length + 1 ≤ fuel + i → cborIndefDecode.go loads enc fuel i acc = .error e → e = .value
  | 0, _, _, _, h1, _, _ => by omega
  | fuel + 1, i, acc, e, _, hinv, h => by
    rw [cborGo_succ] at h
    by_cases hi : i ≥ enc.length
    · rw [if_pos hi] at h; cases h; rfl
    · rw [if_neg hi] at h
      by_cases hc : enc.getD i 0 = 255
      · rw [if_pos hc] at h; cases h
      · rw [if_neg hc] at h
        cases hld : loads ((enc.drop i).take (cborItemLen (enc.getD i 0))) with
        | error e' => rw [hld] at h; cases h; exact hl _ _ hld
        | ok item =>
          rw [hld] at h
          have := cborItemLen_pos (enc.getD i 0)
          exact cborGo_error loads hl enc fuel _ _ e (by omega) (by omega) h

theorem cborIndefDecode_error (loads : Bytes → R CborItem)
    (hl : ∀ b e, loads b = .error e → e = .value) {enc : Bytes} {e : Err}
    (h : cborIndefDecode loads enc = .error e) : e = .value := by
  unfold cborIndefDecode at h
  dsimp only at h
  split at h
  · cases h; rfl
  split at h
  · cases h; rfl
  split at h
  · cases h; rfl
  exact cborGo_error loads hl enc _ _ _ e (by omega) (by omega) h

/-! ### Substrate paths -/

theorem subElemOf_error {t : List Char} {e : Err} (h : subElemOf t = .error e) : e = .path := by
  unfold subElemOf at h
  dsimp only at h
  split at h
  · cases h
  · cases h; rfl

theorem subParsePath_error {s : List Char} {e : Err} (h : subParsePath s = .error e) : e = .path := by
  unfold subParsePath at h
  dsimp only at h
  split at h
  · cases h; rfl
  split at h
  · cases h; rfl
  exact mapM_err (fun t e he => subElemOf_error he) _ h


/-! ### SCALE fixed width, Substrate chain codes -/

theorem scaleUint_error_kind {v n : Nat} {e : Err} (h : scaleUint v n = .error e) : e = .value := by
  by_cases hv : v < 256 ^ n
  · obtain ⟨b, hb, _⟩ := scaleUint_roundtrip hv
    rw [hb] at h; cases h
  · rw [scaleUint_error (by omega)] at h; cases h; rfl

theorem scaleBytes_error_kind {b : Bytes} {e : Err} (h : scaleBytes b = .error e) : e = .value := by
  unfold scaleBytes at h
  rcases bind_err h with h | ⟨x, _, h⟩
  · exact scaleCompact_error_kind h
  · cases h

theorem tail_ok (enc : Bytes) {e : Err}
    (h : (if enc.length > 32 then (pure (Prim.blake2b256 enc) : R Bytes)
          else pure (enc ++ List.replicate (32 - enc.length) 0)) = .error e) : False := by
  split at h <;> cases h

theorem subChainCode_error {el : SubElem} {e : Err} (h : subChainCode el = .error e) :
    e = .path ∨ e = .value := by
  unfold subChainCode at h
  dsimp only at h
  have key : ∀ v w, (scaleUint v w >>= fun enc =>
      if enc.length > 32 then (pure (Prim.blake2b256 enc) : R Bytes)
      else pure (enc ++ List.replicate (32 - enc.length) 0)) = .error e → e = .value := by
    intro v w hh
    rcases bind_err hh with hh | ⟨enc, _, hh⟩
    · exact scaleUint_error_kind hh
    · exact (tail_ok enc hh).elim
  split at h
  · repeat' split at h
    all_goals first | exact Or.inr (key _ _ h) | (cases h; exact Or.inl rfl)
  · rcases bind_err h with h | ⟨enc, _, h⟩
    · exact Or.inr (scaleBytes_error_kind h)
    · exact (tail_ok enc h).elim
/-! ### encoders -/

theorem ss58Encode_error {H : Bytes → Bytes} {data : Bytes} {fmt : Nat} {e : Err}
    (h : ss58Encode H data fmt = .error e) : e = .value := by
  unfold ss58Encode at h
  dsimp only at h
  split at h
  · cases h; rfl
  split at h
  · cases h; rfl
  split at h
  · cases h; rfl
  cases h

theorem wifEncode_error {H : Bytes → Bytes} {priv netVer : Bytes} {c : Bool} {e : Err}
    (h : wifEncode H priv netVer c = .error e) : e = .value := by
  unfold wifEncode at h
  split at h
  · cases h; rfl
  · cases h

theorem bip39Encode_error_kind (H : Bytes → Bytes) (hH : ∀ x, (H x).length = 32) (wl : List Nat)
    (hwl : wl.length = 2048) {ent : Bytes} {e : Err} (h : bip39Encode H wl ent = .error e) :
    e = .value := by
  cases hlen : bip39EntLens.contains ent.length with
  | true =>
    obtain ⟨ws, hws, _⟩ := bip39Encode_ok H hH wl hwl ent hlen
    rw [hws] at h; cases h
  | false =>
    rw [bip39Encode_error H wl ent hlen] at h
    cases h; rfl

end BipVerif.Model.EscapeLemmas
