/-
Electrum-v2 mnemonic helpers: `v2BitsEnough` as a numeric range, digit counts of `digitsLE`,
structure of `electrumV2EncodeIdx` / `electrumV2DecodeIdx`.
-/
import BipVerif.Lemmas.MnemonicsAlgo

namespace BipVerif.Model
open BipVerif

/-! ### `AreEntropyBitsEnough` -/

set_option exponentiation.threshold 300 in
theorem v2BitsEnough_iff (v : Nat) :
    v2BitsEnough v = true ↔ (2 ^ 121 ≤ v ∧ v < 2 ^ 132) ∨ (2 ^ 253 ≤ v ∧ v < 2 ^ 264) := by
  unfold v2BitsEnough
  by_cases hv : v = 0
  · subst hv
    constructor
    · intro h; exact absurd h (by decide)
    · rintro (⟨h, _⟩ | ⟨h, _⟩) <;> exact absurd h (Nat.not_le.mpr (Nat.two_pow_pos _))
  · simp only [hv, if_false, Bool.or_eq_true, Bool.and_eq_true, decide_eq_true_eq]
    rw [Nat.le_log2 hv, Nat.log2_lt hv, Nat.le_log2 hv, Nat.log2_lt hv]

theorem pow2048_11 : (2048 : Nat) ^ 11 = 2 ^ 121 := by
  rw [show (2048 : Nat) = 2 ^ 11 by norm_num, ← Nat.pow_mul]
theorem pow2048_12 : (2048 : Nat) ^ 12 = 2 ^ 132 := by
  rw [show (2048 : Nat) = 2 ^ 11 by norm_num, ← Nat.pow_mul]
theorem pow2048_23 : (2048 : Nat) ^ 23 = 2 ^ 253 := by
  rw [show (2048 : Nat) = 2 ^ 11 by norm_num, ← Nat.pow_mul]
set_option exponentiation.threshold 300 in
theorem pow2048_24 : (2048 : Nat) ^ 24 = 2 ^ 264 := by
  have h : (2 : Nat) ^ (11 * 24) = (2 ^ 11) ^ 24 := Nat.pow_mul 2 11 24
  have e : 11 * 24 = 264 := by norm_num
  rw [e] at h
  rw [h, show (2048 : Nat) = 2 ^ 11 by norm_num]

/-! ### `digitsLE` -/

theorem digitsLE_eq (n : Nat) (hn : 2 ≤ n) (v : Nat) : digitsLE n v = Nat.digits n v := by
  unfold digitsLE; rw [digitsBE_eq n hn]; simp

theorem digitsLE_lt (n : Nat) (hn : 2 ≤ n) (v : Nat) : ∀ d ∈ digitsLE n v, d < n := by
  intro d hd
  unfold digitsLE at hd
  exact digitsBE_lt n hn v d (List.mem_reverse.mp hd)

theorem digitsLE_length_eq_iff (n : Nat) (hn : 2 ≤ n) (v k : Nat) :
    (digitsLE n v).length = k + 1 ↔ n ^ k ≤ v ∧ v < n ^ (k + 1) := by
  rw [digitsLE_eq n hn]
  have h1 := Nat.digits_length_le_iff (b := n) (k := k) (by omega) v
  have h2 := Nat.digits_length_le_iff (b := n) (k := k + 1) (by omega) v
  constructor
  · intro h
    exact ⟨by by_contra hc; have := h1.mpr (by omega); omega, h2.mp (by omega)⟩
  · rintro ⟨ha, hb⟩
    have := h2.mpr hb
    have : ¬ (Nat.digits n v).length ≤ k := fun hc => by have := h1.mp hc; omega
    omega

theorem digitsLE_length_of_bits {v : Nat} (h : v2BitsEnough v = true) :
    (digitsLE 2048 v).length = 12 ∨ (digitsLE 2048 v).length = 24 := by
  rcases (v2BitsEnough_iff v).mp h with ⟨h1, h2⟩ | ⟨h1, h2⟩
  · left
    exact (digitsLE_length_eq_iff 2048 (by omega) v 11).mpr
      ⟨by rw [pow2048_11]; exact h1, by rw [pow2048_12]; exact h2⟩
  · right
    exact (digitsLE_length_eq_iff 2048 (by omega) v 23).mpr
      ⟨by rw [pow2048_23]; exact h1, by rw [pow2048_24]; exact h2⟩

theorem ofDigitsBE_lt_mn (r : Nat) (hr : 2 ≤ r) (ds : List Nat) (h : ∀ d ∈ ds, d < r) :
    ofDigitsBE r ds < r ^ ds.length := by
  rw [ofDigitsBE_eq]
  have := Nat.ofDigits_lt_base_pow_length (b := r) (l := ds.reverse) (by omega)
    (by simpa using h)
  simpa using this

theorem ofDigitsBE_cons_zero (r : Nat) (ds : List Nat) : ofDigitsBE r (0 :: ds) = ofDigitsBE r ds := by
  unfold ofDigitsBE; simp

/-- the most significant digit of `digitsLE` (its last element) is not zero -/
theorem digitsLE_getLast_ne_zero (n : Nat) (hn : 2 ≤ n) (v : Nat) :
    (digitsLE n v).getLast? ≠ some 0 := by
  unfold digitsLE
  rw [List.getLast?_reverse]
  exact digitsBE_head_ne_zero n hn v

/-- digits are reproduced from their value when the most significant one is not zero -/
theorem digitsLE_ofDigitsBE_reverse (n : Nat) (hn : 2 ≤ n) (idxs : List Nat)
    (hlt : ∀ d ∈ idxs, d < n) (hlast : idxs.getLast? ≠ some 0) :
    digitsLE n (ofDigitsBE n idxs.reverse) = idxs := by
  unfold digitsLE
  rw [digitsBE_ofDigitsBE n hn idxs.reverse (by simpa using hlt) (by
    rw [List.head?_reverse]; exact hlast), List.reverse_reverse]

/-! ### encoder / decoder structure -/

theorem v2Encode_eq (wl : List Nat) (ent : Bytes) :
    electrumV2EncodeIdx wl ent =
      if v2BitsEnough (Bytes.toNatBE ent) = true then
        (digitsLE wl.length (Bytes.toNatBE ent)).mapM (pyIdx wl)
      else .error .value := by
  unfold electrumV2EncodeIdx
  by_cases h : v2BitsEnough (Bytes.toNatBE ent) = true
  · simp only [h, Bool.not_true, Bool.false_eq_true, if_false, if_true]
  · simp only [Bool.not_eq_true] at h
    simp only [h, Bool.not_false, if_true, Bool.false_eq_true, if_false]
    rfl

theorem v2Decode_eq (langs : List (List Nat)) (lang : Option (List Nat)) (ws : List Nat) :
    electrumV2DecodeIdx langs lang ws = (pickLang langs lang ws >>= fun wl =>
      ws.mapM (wordIdx wl) >>= fun idxs => pure (toBytesAuto (ofDigitsBE wl.length idxs.reverse))) := by
  unfold electrumV2DecodeIdx
  cases lang <;> rfl

theorem wordIdx_ok_iff_idxOf (wl : List Nat) (w i : Nat) :
    wordIdx wl w = .ok i ↔ i < wl.length ∧ wl.idxOf w = i := by
  unfold wordIdx
  cases h : wl.idxOf? w with
  | none =>
    constructor
    · intro e; cases e
    · rintro ⟨h1, h2⟩
      have := (List.findIdx?_eq_some_iff_findIdx_eq (xs := wl) (p := (· == w)) (i := i)).mpr ⟨h1, h2⟩
      unfold List.idxOf? at h; rw [h] at this; cases this
  | some j =>
    have hj := (List.findIdx?_eq_some_iff_findIdx_eq (xs := wl) (p := (· == w)) (i := j)).mp h
    constructor
    · intro e; cases e; exact hj
    · rintro ⟨_, h2⟩
      have : j = i := by rw [← h2]; exact hj.2.symm
      rw [this]; rfl

theorem mapM_wordIdx_eq_map_idxOf {wl : List Nat} :
    ∀ {ws idxs : List Nat}, ws.mapM (wordIdx wl) = .ok idxs → idxs = ws.map (fun w => wl.idxOf w)
  | [], idxs, h => by cases h; rfl
  | a :: t, idxs, h => by
    rw [List.mapM_cons, bind_eq_ok_iff] at h
    obtain ⟨j, hj, h⟩ := h
    rw [bind_eq_ok_iff] at h
    obtain ⟨js, hjs, h⟩ := h
    cases h
    rw [List.map_cons, ← mapM_wordIdx_eq_map_idxOf hjs, ((wordIdx_ok_iff_idxOf wl a j).mp hj).2]

theorem mapM_wordIdx_getLast {wl ws idxs : List Nat}
    (h : ws.mapM (wordIdx wl) = .ok idxs) :
    idxs.getLast? = ws.getLast?.map (fun w => wl.idxOf w) := by
  rw [mapM_wordIdx_eq_map_idxOf h, List.getLast?_map]

end BipVerif.Model
