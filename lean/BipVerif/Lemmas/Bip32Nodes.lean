/-
Structural facts about BIP-32 node constructors and child derivation (`nodeOfPriv`, `nodeOfPub`,
`slip10ChildKey`, `kholawChildKey`, `childKey`): which record fields a successful call sets, and the
error kinds of the refusals that do not depend on any cryptography.  All cryptographic primitives
(`hmacSha512`, curve arithmetic, `pubOfPriv`, `pubFromBytes`, …) stay opaque.
-/
import BipVerif.Model.Kholaw

namespace BipVerif.Model
open BipVerif

/-! ### hardened indices -/

theorem harden_lt (i : Nat) (h : i < 2 ^ 32) : harden i < 2 ^ 32 := by
  have := h
  unfold harden; split <;> omega

/-- `harden` always sets bit 31, so the result is a hardened index (whatever its size) -/
theorem isHardened_harden (i : Nat) : isHardened (harden i) = true := by
  unfold isHardened harden
  split <;> simp only [ge_iff_le, decide_eq_true_eq] <;> omega

theorem harden_of_lt (i : Nat) (h : i < 2 ^ 31) : harden i = i + 2 ^ 31 := by
  have := h
  unfold harden; split <;> omega

theorem isHardened_false_of_lt (i : Nat) (h : i < 2 ^ 31) : isHardened i = false := by
  have := h
  unfold isHardened
  simp only [ge_iff_le, decide_eq_false_iff_not]; omega

/-! ### node constructors -/

/-- the record fields set by a constructor, as one proposition -/
structure NodeFields (n : Node) (c : CurveT) (s : Scheme) (priv : Option Bytes) (depth index : Nat)
    (cc fp : Bytes) : Prop where
  depth : n.depth = depth
  index : n.index = index
  curve : n.curve = c
  scheme : n.scheme = s
  priv : n.priv = priv
  chainCode : n.chainCode = cc
  parentFp : n.parentFp = fp.take 4

theorem nodeOfPriv_ok {c s priv depth index cc fp n}
    (h : nodeOfPriv c s priv depth index cc fp = .ok n) :
    n.depth = depth ∧ n.index = index ∧ n.curve = c ∧ n.scheme = s ∧ n.priv = some priv ∧
      n.chainCode = cc ∧ n.parentFp = fp.take 4 := by
  unfold nodeOfPriv at h
  split at h
  · cases h
  · split at h
    · cases h; exact ⟨rfl, rfl, rfl, rfl, rfl, rfl, rfl⟩
    · cases h

theorem nodeOfPub_ok {c s pubBytes depth index cc fp n}
    (h : nodeOfPub c s pubBytes depth index cc fp = .ok n) :
    n.depth = depth ∧ n.index = index ∧ n.curve = c ∧ n.scheme = s ∧ n.priv = none ∧
      n.chainCode = cc ∧ n.parentFp = fp.take 4 := by
  unfold nodeOfPub at h
  split at h
  · cases h; exact ⟨rfl, rfl, rfl, rfl, rfl, rfl, rfl⟩
  · cases h

/-! ### child derivation: what a successful call sets -/

/-- the metadata of a child `c` of `nd` at index `idx` -/
structure IsChildOf (nd : Node) (idx : Nat) (c : Node) : Prop where
  depth : c.depth = nd.depth + 1
  index : c.index = idx
  curve : c.curve = nd.curve
  scheme : c.scheme = nd.scheme
  parentFp : c.parentFp = nd.fingerprint.take 4
  priv : c.priv.isSome ↔ nd.priv.isSome
  idx_lt : idx < 2 ^ 32

theorem IsChildOf.isPublicOnly {nd idx c} (h : IsChildOf nd idx c) :
    c.isPublicOnly = nd.isPublicOnly := by
  have := h.priv
  unfold Node.isPublicOnly
  cases hc : c.priv <;> cases hn : nd.priv <;> simp_all

theorem slip10ChildKey_ok {nd idx c} (h : slip10ChildKey nd idx = .ok c) : IsChildOf nd idx c := by
  unfold slip10ChildKey at h
  simp only [bind, Except.bind] at h
  split at h
  · cases h
  · rename_i hi
    have hlt : idx < 2 ^ 32 := by omega
    split at h
    · rename_i priv hp
      split at h
      · cases h
      · split at h
        · cases h
        · obtain ⟨h1, h2, h3, h4, h5, _, h7⟩ := nodeOfPriv_ok h
          exact ⟨h1, h2, h3, h4, h7, by simp [h5, hp], hlt⟩
    · rename_i hp
      split at h
      · cases h
      · split at h
        · cases h
        · split at h
          · cases h
          · obtain ⟨h1, h2, h3, h4, h5, _, h7⟩ := nodeOfPub_ok h
            exact ⟨h1, h2, h3, h4, h7, by simp [h5, hp], hlt⟩

theorem kholawChildKey_ok {nd idx c} (h : kholawChildKey nd idx = .ok c) : IsChildOf nd idx c := by
  unfold kholawChildKey at h
  simp only [bind, Except.bind] at h
  split at h
  · cases h
  · rename_i hi
    have hlt : idx < 2 ^ 32 := by omega
    split at h
    · rename_i priv hp
      split at h
      · cases h
      · split at h
        · cases h
        · obtain ⟨h1, h2, h3, h4, h5, _, h7⟩ := nodeOfPriv_ok h
          exact ⟨h1, h2, h3, h4, h7, by simp [h5, hp], hlt⟩
    · rename_i hp
      split at h
      · cases h
      · split at h
        · cases h
        · split at h
          · cases h
          · obtain ⟨h1, h2, h3, h4, h5, _, h7⟩ := nodeOfPub_ok h
            exact ⟨h1, h2, h3, h4, h7, by simp [h5, hp], hlt⟩

theorem childKey_ok {nd idx c} (h : childKey nd idx = .ok c) : IsChildOf nd idx c := by
  unfold childKey at h
  split at h
  · exact slip10ChildKey_ok h
  · exact kholawChildKey_ok h

/-! ### child derivation: refusals -/

theorem slip10ChildKey_idx_ge (nd : Node) (idx : Nat) (h : 2 ^ 32 ≤ idx) :
    slip10ChildKey nd idx = .error .value := by
  unfold slip10ChildKey
  have : idx > 2 ^ 32 - 1 := by omega
  simp only [bind, Except.bind, this, if_true]
  rfl

theorem kholawChildKey_idx_ge (nd : Node) (idx : Nat) (h : 2 ^ 32 ≤ idx) :
    kholawChildKey nd idx = .error .value := by
  unfold kholawChildKey
  have : idx > 2 ^ 32 - 1 := by omega
  simp only [bind, Except.bind, this, if_true]
  rfl

theorem childKey_idx_ge (nd : Node) (idx : Nat) (h : 2 ^ 32 ≤ idx) :
    childKey nd idx = .error .value := by
  unfold childKey
  split
  · exact slip10ChildKey_idx_ge nd idx h
  · exact kholawChildKey_idx_ge nd idx h

theorem slip10ChildKey_pub_hardened (nd : Node) (idx : Nat) (hp : nd.priv = none)
    (hi : idx < 2 ^ 32) (hh : isHardened idx = true) : slip10ChildKey nd idx = .error .key := by
  unfold slip10ChildKey
  have : ¬ idx > 2 ^ 32 - 1 := by omega
  simp only [bind, Except.bind, this, if_false, hp, hh, if_true]
  rfl

theorem kholawChildKey_pub_hardened (nd : Node) (idx : Nat) (hp : nd.priv = none)
    (hi : idx < 2 ^ 32) (hh : isHardened idx = true) : kholawChildKey nd idx = .error .key := by
  unfold kholawChildKey
  have : ¬ idx > 2 ^ 32 - 1 := by omega
  simp only [bind, Except.bind, this, if_false, hp, hh, if_true]
  rfl

/-- a public-only parent refuses every hardened index with `Bip32KeyError` -/
theorem childKey_pub_hardened (nd : Node) (idx : Nat) (hp : nd.priv = none)
    (hi : idx < 2 ^ 32) (hh : isHardened idx = true) : childKey nd idx = .error .key := by
  unfold childKey
  split
  · exact slip10ChildKey_pub_hardened nd idx hp hi hh
  · exact kholawChildKey_pub_hardened nd idx hp hi hh

/-- SLIP-0010 ed25519 curves, private parent: a non-hardened index is refused -/
theorem slip10ChildKey_ed_priv_nonhardened (nd : Node) (idx : Nat) (priv : Bytes)
    (hc : nd.curve.isEcdsa = false) (hp : nd.priv = some priv) (hi : idx < 2 ^ 32)
    (hh : isHardened idx = false) : slip10ChildKey nd idx = .error .key := by
  unfold slip10ChildKey
  have : ¬ idx > 2 ^ 32 - 1 := by omega
  simp only [bind, Except.bind, this, if_false, hp, pure, Except.pure, slip10CkdPriv, hc, hh]
  rfl

/-- SLIP-0010 ed25519 curves, public-only parent: every index is refused -/
theorem slip10ChildKey_ed_pub (nd : Node) (idx : Nat)
    (hc : nd.curve.isEcdsa = false) (hp : nd.priv = none) (hi : idx < 2 ^ 32) :
    slip10ChildKey nd idx = .error .key := by
  cases hh : isHardened idx
  · unfold slip10ChildKey
    have : ¬ idx > 2 ^ 32 - 1 := by omega
    simp only [bind, Except.bind, this, if_false, hp, pure, Except.pure, slip10CkdPub, hc, hh]
    rfl
  · exact slip10ChildKey_pub_hardened nd idx hp hi hh

theorem childKey_slip10_ed_priv_nonhardened (nd : Node) (idx : Nat) (priv : Bytes)
    (hs : nd.scheme = .slip10) (hc : nd.curve.isEcdsa = false) (hp : nd.priv = some priv)
    (hi : idx < 2 ^ 32) (hh : isHardened idx = false) : childKey nd idx = .error .key := by
  unfold childKey; rw [hs]
  exact slip10ChildKey_ed_priv_nonhardened nd idx priv hc hp hi hh

theorem childKey_slip10_ed_pub (nd : Node) (idx : Nat)
    (hs : nd.scheme = .slip10) (hc : nd.curve.isEcdsa = false) (hp : nd.priv = none)
    (hi : idx < 2 ^ 32) : childKey nd idx = .error .key := by
  unfold childKey; rw [hs]
  exact slip10ChildKey_ed_pub nd idx hc hp hi

end BipVerif.Model
